#!/bin/sh
# Builds the driver and the rewriter and warms the Go build cache for the worker variants.
# Offline: uses only the module cache and /repo.
cd "$(dirname "$0")" || exit 1
export GOFLAGS=-mod=mod GOPROXY=off GOSUMDB=off GOTOOLCHAIN=local
mkdir -p bin evidence replay .work
go build -o bin/hmscheck ./cmd/hmscheck || exit 1
go build -o bin/rewrite ./rewrite || exit 1
# warm the build cache: plain, sched and mapiter variants of the worker
W=.work/setup-$$
mkdir -p $W/plain $W/sched $W/mapiter
python3 - "$W" <<'PY'
import glob, json, os, sys
w = sys.argv[1]
rep = {}
root = os.getcwd()
for f in glob.glob(root + '/shim/vsched/*.go'):
    if not f.endswith('_test.go'):
        rep['/repo/homescript/vsched/' + os.path.basename(f)] = f
for f in glob.glob(root + '/shim/extra/*.go'):
    rep['/repo/' + os.path.basename(f).replace('__', '/')] = f
json.dump({'Replace': rep}, open(w + '/plain/overlay.json', 'w'))
PY
go build -overlay $W/plain/overlay.json -o $W/plain/hmsworker ./cmd/hmsworker 2>&1 | grep -v '^go: found'
bin/rewrite -repo /repo -out "$PWD/$W/sched" -shim "$PWD/shim/vsched" -extra "$PWD/shim/extra" -sched "homescript/runtime,homescript/interpreter,v3/homescript" >/dev/null || exit 1
go build -tags sched -overlay $W/sched/overlay.json -o $W/sched/hmsworker ./cmd/hmsworker 2>&1 | grep -v '^go: found'
bin/rewrite -repo /repo -out "$PWD/$W/mapiter" -shim "$PWD/shim/vsched" -extra "$PWD/shim/extra" -sched "homescript/runtime,homescript/interpreter,v3/homescript" -maps "all" >/dev/null || exit 1
go build -tags sched -overlay $W/mapiter/overlay.json -o $W/mapiter/hmsworker ./cmd/hmsworker 2>&1 | grep -v '^go: found'
rm -rf $W
echo setup done
