#!/bin/sh
# usage: tools/dbgrun.sh <file.hms>   (several programs separated by a line "----")
# Builds the plain worker against /repo's current tree and runs the programs on both backends.
cd /verif || exit 2
export GOFLAGS=-mod=mod GOPROXY=off GOSUMDB=off GOTOOLCHAIN=local
W=.work/dbgp; mkdir -p $W
python3 - <<'PY'
import json, glob, os
rep = {}
for f in glob.glob('/verif/shim/vsched/*.go'):
    if not f.endswith('_test.go'): rep['/repo/homescript/vsched/' + os.path.basename(f)] = f
for f in glob.glob('/verif/shim/extra/*.go'):
    rep['/repo/' + os.path.basename(f).replace('__', '/')] = f
json.dump({'Replace': rep}, open('/verif/.work/dbgp/overlay.json', 'w'))
PY
go build -overlay $W/overlay.json -o $W/hmsworker ./cmd/hmsworker 2>&1 | grep -v '^go: found'
HMS_PROG="$(cat "$1")" $W/hmsworker -check RUN -fd 2 -v 2>&1 | grep "^== \|^tree:\|^vm:\|^analysis\|diag\["
