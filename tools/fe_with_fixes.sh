#!/bin/sh
# Runs a front-end check (C05|C06|C07) tier against a copy of /repo with proposed fixes applied.
# usage: tools/fe_with_fixes.sh <ID> <quick|thorough> [fix.diff ...]   (default: all proposed_fixes/*.diff)
# The copy lives in a temporary directory; /repo is not touched. The worker is built with an
# overlay that maps every patched file over its original, then all 16 shards are run directly
# and the failure classes are summarised.
set -e
cd "$(dirname "$0")/.."
export GOFLAGS=-mod=mod GOPROXY=off GOSUMDB=off GOTOOLCHAIN=local
id=$1; tier=$2; shift 2
[ $# -eq 0 ] && set -- proposed_fixes/*.diff
tmp=$(mktemp -d /tmp/fe-fixes.XXXXXX)
trap 'rm -rf "$tmp"' EXIT
mkdir "$tmp/repo" && (cd /repo && git archive HEAD 2>/dev/null || tar c --exclude=.git .) | tar x -C "$tmp/repo"
# the working tree may be ahead of HEAD: copy it over
(cd /repo && tar c --exclude=.git .) | tar x -C "$tmp/repo"
for d in "$@"; do
  (cd "$tmp/repo" && patch -s -p1 < "$OLDPWD/$d") || { echo "cannot apply $d"; exit 2; }
done
python3 - "$tmp" <<'P'
import json,glob,os,sys,filecmp
tmp=sys.argv[1]
rep={}
for s in glob.glob('shim/vsched/*.go'):
    if not s.endswith('_test.go'): rep['/repo/homescript/vsched/'+os.path.basename(s)]=os.path.abspath(s)
for s in glob.glob('shim/extra/*.go'):
    rep['/repo/'+os.path.basename(s).replace('__','/')]=os.path.abspath(s)
for root,_,files in os.walk(tmp+'/repo'):
    for f in files:
        if not f.endswith('.go'): continue
        p=os.path.join(root,f); rel=os.path.relpath(p,tmp+'/repo'); orig='/repo/'+rel
        if not os.path.exists(orig) or not filecmp.cmp(p,orig,shallow=False): rep[orig]=p
json.dump({'Replace':rep},open(tmp+'/overlay.json','w'))
print('patched files:',[k for k,v in rep.items() if v.startswith(tmp)])
P
go build -overlay "$tmp/overlay.json" -o "$tmp/w" ./cmd/hmsworker
for i in $(seq 0 15); do
  "$tmp/w" -check "$id" -tier "$tier" -shard $i -nshards 16 -fd 2 > /dev/null 2> "$tmp/out.$i" &
done
wait
python3 - "$tmp" <<'P'
import json,glob,sys,collections
tmp=sys.argv[1]
groups=collections.OrderedDict(); evals=0; done=0
for f in sorted(glob.glob(tmp+'/out.*')):
    for l in open(f,errors='replace'):
        if l.startswith('F '):
            d=json.loads(l[2:]); k=(d['class'],','.join(d.get('tags') or []))
            g=groups.setdefault(k,[0,d['case']]); g[0]+=1
            if len(d['case'])<len(g[1]): g[1]=d['case']
        elif l.startswith('D '):
            d=json.loads(l[2:]); evals+=d['evals']; done+=1
print('workers finished: %d/16, cases: %d, failure groups: %d'%(done,evals,len(groups)))
for (c,t),(n,case) in sorted(groups.items()):
    print('  %-70s | %-50s | %4d | %s'%(c,t,n,case[:100].replace('\n','\\n')))
P
