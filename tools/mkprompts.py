#!/usr/bin/env python3
"""usage: tools/mkprompts.py <suffix> <property id>...
Writes /tmp/mut/<ID>-<suffix>.prompt.txt from tools/seed_prompt.txt (placeholders WORKDIR,
PROPERTYTEXT, DIVERSITY) and creates the detached scratch worktree /tmp/mut/<ID>-<suffix>.
The DIVERSITY block lists the summaries of the changes already seeded for the property."""
import glob, json, os, re, subprocess, sys
suffix, ids = sys.argv[1], sys.argv[2:]
tpl = open('/verif/tools/seed_prompt.txt').read()
props = {json.loads(l)['id']: json.loads(l) for l in open('/verif/properties.jsonl')}
os.makedirs('/tmp/mut', exist_ok=True)
for pid in ids:
    p = props[pid]
    wd = '/tmp/mut/%s-%s' % (pid, suffix)
    text = 'Property %s: %s\n\n%s\n\nQuantified over: %s' % (pid, p['title'], p['statement'], p['quantifier']['text'])
    prev = []
    for d in sorted(glob.glob('/verif/seeded/%s*/meta.json' % pid)):
        m = json.load(open(d))
        s = str(m.get('summary') or '')
        prev.append('- ' + re.sub(r'\s+', ' ', s)[:260])
    div = ''
    if prev:
        div = 'DIVERSITY: other developers already seeded the following changes for this property; yours must be in a DIFFERENT part of the code and of a different kind (different mechanism, different file if possible):\n' + '\n'.join(prev)
    out = tpl.replace('WORKDIR', wd).replace('PROPERTYTEXT', text)
    out = out.replace('DIVERSITY', div) if 'DIVERSITY' in out else out.replace('DELIVERABLES', div + '\n\nDELIVERABLES', 1)
    open(wd + '.prompt.txt', 'w').write(out)
    subprocess.run('git -C /repo worktree remove --force %s 2>/dev/null; git -C /repo worktree add -q --detach %s HEAD' % (wd, wd), shell=True)
    print(wd)
