#!/usr/bin/env python3
"""Regenerates the `fixed` list of known_findings.json from the fix: commits in /repo.
Each entry: (keyword in the commit subject, property, what failed before the fix)."""
import json, subprocess, os
ROOT = os.path.dirname(os.path.dirname(os.path.abspath(__file__)))
M = [
 ('mangled variable names keep name and counter apart', 'C01', '`let x1 = 100;` followed by eleven `let x = ...;` in nested blocks: the first `x1` and the eleventh `x` were both mangled to `@main_x10` and shared a memory slot, `println(x1)` printed 10 (likewise the globals `b_x` of module `a` and `x` of module `a_b`)'),
 ('mangled function names keep module and function apart', 'C15', 'modules `a` (with `pub fn b_f`) and `a_b` (with `pub fn f`), both imported by main: both functions were mangled to `@a_b_f`, one body replaced the other and `b_f()` ran the code of `a_b.f`'),
 ('refuses to cast a function value instead of panicking', 'C02', '`fn helper(x: int) -> int { x } fn main() { let o = new { ? }; o.set("f", helper); let v = o.get("f").unwrap() as int; }` on the interpreter: DeepCast panicked `Unreachable, the analyzer prevents this` for function, closure and builtin-function values (the VM answers with a cast error)'),
 ('interpreter for loop with an empty body never noticed', 'C10', '`fn main() { for i in 0..9000000000000000000 { } }` (the repository\'s examples/sig_term.hms) on the interpreter: no statement or expression is evaluated per iteration, the context was never polled and Run never returned after cancellation'),
 ('a range literal is constant only if both of its bounds are', 'C03', '`fn f() -> int { 3 } let r = 0..(f() as int);` was accepted: AnalyzedRangeLiteralExpression.Constant() answered true for every range, the global-initialiser rule never looked at the bounds'),
 ('reports a trigger statement as unsupported instead of panicking', 'C02', '`import trigger minute from triggers; event fn cb(elapsed: int) { } fn main() { trigger cb at minute(5); }` on the interpreter: the statement switch has no case for trigger statements, host panic `A new statement kind (1) was added without updating this code`'),
 ('skips type, template and trigger items when importing from a builtin module', 'C04', '`import trigger minute from triggers; fn main() { println(1); }` ended with the fatal `Unknown import \'trigger minute\' in module \'triggers\'` on the interpreter (the VM prints 1): importItem asked the host for a value for an item that is none'),
 ('interpreter implements the `->` and `~>` member operators', 'C02', '`let ao = new { n: 3 } as { ? }; let v = ao->n as ?int;` on the interpreter: memberExpression looked the name up in the builtin member table and ended in the host panic `Field \'n\' not found on value of type \'{ ? }\'` (every `->` / `~>` access)'),
 ('on a missing field pushes one value, not two', 'C01', '`let ao = new { ? }; println([?1, ao->nope as ?int, ?2]);` on the VM: Opcode_Member_Anyobj pushed `none` and then a second option built from the nil field (stack residue; inside a list literal the next hostcall hit a failed type assertion)'),
 ("see their module's globals, not the locals of their caller", 'C04', '`let total = 100; fn show() { println(total); } fn main() { let total = 0; show(); }` printed 0 on the interpreter (100 on the VM): a declared function ran on top of the scope stack of its caller, so a global shadowed by a local of the caller resolved to that local (dynamic scoping)'),
 ('object literal with a field of function', 'C02', '`fn f(a: int) -> int { a } fn main() { let v = new { a: f }; }`: compileExpr pre-filled the fields with value.ZeroValue(type), which panics `Invalid type: fn(a: int) -> int` for function, any and never typed field expressions (a host panic in the compiler)'),
 ('match without default arm whose arms all diverge', 'C02', '`fn f(n: int) { match n { 1 => { return; } }; println(n); } f(3)`: the analyzer typed the match `never` although no arm may match; the VM popped a result that was never pushed (index out of range [-1] in Core.pop), the optimizer dropped the statements behind the match'),
 ('object keys that are keywords are printed quoted', 'C19', '`let o = new { "fn": 1, "let": 2 };`: both printers wrote the keys bare (`fn: 1`), the printed program no longer parses (`Expected identifier, _, or string, found fn`); IsIdent only looked at the shape of the word'),
 ('dereferenced the missing value of a bare return', 'C20', 'any input with `return;` (e.g. `fn done(n: int) { if n > 1 { return; } }`): Transformer.stmtCanControlLoop passed the nil ReturnValue to exprCanControlLoop: nil pointer dereference for every seed'),
 ('imported module without globals had no instructions', 'C15', '`import { entry } from lib;` where module lib declares no global: its (empty) @init routine is called by the entry module, Core.Run panics `Cannot execute instructions of non-existent routine: @lib_@init` on the VM (any program importing from a module without globals)'),
 ('re-spanning a function type', 'C08', '`let v = fn(a: int) -> null { null }; takes(v)` with `fn takes(x: fn(a: str) -> null)`: the parameter type mismatch was reported at the `str` of the signature of takes instead of at the argument'),
 ('re-spanning an option type', 'C08', '`let v = ?1; takes(v)` with `fn takes(x: ?str)`: the mismatch of the inner types was reported at the `1` of the earlier let (for the result of an imported function: inside the other module) instead of at the argument'),
 ('loop with an empty body never noticed', 'C10', '`fn main() { loop { } }` on the interpreter: no statement or expression is evaluated per iteration, so the context was never polled and Run never returned after cancellation'),
 ('VM integer remainder by zero', 'C02', '`1 % 0` on the VM: Go panic "integer divide by zero" in runInstruction'),
 ('interpreter integer division and remainder', 'C02', '`1 / 0`, `1 % 0` on the interpreter: Go panic "integer divide by zero" in infixHelper'),
 ('shifting by a negative amount', 'C02', '`1 << -1`, `1 >> -1` on both backends: Go panic "negative shift amount"'),
 ('VM power operator supports float', 'C02', '`1.5 ** 2.0` on the VM: failed type assertion ValueFloat->ValueInt in Opcode_Pow'),
 ('releases the cores read lock', 'C16', 'history [boom(), get()]: VM.Wait returned an interrupt holding Cores.Lock.RLock, the next SpawnSync deadlocked in spawnCore'),
 ('signal channel is buffered', 'C17', '`spawn bad(); spawn good();` with bad() fatal: cores blocked forever on their unbuffered signal send once Wait had returned'),
 ('stale copy', 'C17', '`main{spawn b; spawn a} b{spawn c}`: one delay of Wait between RUnlock and Lock overwrote the core list with a stale copy; Wait returned before c ran and c blocked forever'),
 ('caught exception unwinds', 'C11', '`fn f() { let loc = 41; throw("E"); } fn main() { let m = 7; try { f(); } catch e {} println(m); }` printed 41 (memory pointer not restored); throws crossing two calls crashed the core'),
 ('returning from inside a try', 'C11', '`fn f() { try { return; } catch e {} } fn main() { f(); g(); }` with g() throwing: the throw jumped to the dead handler of f (index out of range in callFrame / wrong output)'),
 ('break and continue leaving a try', 'C11', '`for i in 0..2 { try { continue; } catch e { } } g();` with g() throwing: the stale handler caught it and the loop restarted forever'),
 ('match drops its control value', 'C01', '`println(match p(2) { 1 => 5, _ => -9 })`: the default arm left the control value on the operand stack (residue; inside a list/object literal the next hostcall hit a failed type assertion)'),
 ('catch identifier gets a scope', 'C01', '`let x = 1; try { } catch x { } println(x);`: the catch identifier was registered in the enclosing scope; the read after the try hit an unset slot (nil dereference in runInstruction)'),
 ('iterating over a string yields its characters', 'C01', '`for c in "hi" { println(c); }` printed 104 and 105 on both backends'),
 ('a list literal stores its elements in cells', 'C01', '`let a = 1; let l = [a]; l[0] = 9; println(a);` printed 9 on the VM'),
 ('interpreter list and object literals store', 'C04', '`let a = 1; let o = new { g: a }; o.g = 9; println(a);` printed 9 on the interpreter and 1 on the VM'),
 ("interpreter's for loop iterates over a snapshot", 'C04', '`let s = [1,2,3]; for x in s { s.pop(); }` iterated 2 times on the interpreter, 3 times on the VM'),
 ('displays a range as', 'C04', '`println(0..3)` printed `{0}..{3}` on the interpreter and `0..3` on the VM'),
 ('snapshot copies the element cells', 'C04', '`let s = [1,2,3]; for x in s { s[-1] = 9; println(x); }` printed 9 for the last element on the interpreter only'),
 ('no longer share one iteration cursor', 'C02', '`let s = 0..3; for x in s { for y in s { } }` never terminated on the interpreter (poll budget exceeded)'),
 ('singleton extraction pushes the singleton once', 'C01', '`$S = { n: int }; fn get(self: $S) -> int { self.n } fn main() { get(); }` left one operand-stack slot per call (stack residue; 500 calls in a loop overflowed the stack limit)'),
 ('trigger statement drops the result slot', 'C01', '`trigger cb at minute(5);` left a nil operand-stack slot per statement (stack residue at exit)'),
 ('operand-stack overflow in the outermost frame', 'C09', 'any program whose operand stack exceeds StackMaxSize while `main` is the only frame (e.g. StackMaxSize=1 and `total += rec(0)` in main): Go panic "index out of range [-1]" in Core.Run instead of a StackOverflow interrupt'),
 ('displayed with their fields in sorted order', 'C14', '`println(new { b: 1, a: 2 })`: one rotated map iteration in ValueObject.Display (either runtime) printed the fields in another order'),
 ('a closure literal no longer replaces', 'C03', '`fn main() { loop { let c = fn() { break; }; } }` was accepted; `fn f() -> int { let c = fn() {}; return 1; }` was rejected (return checked against the closure)'),
 ('function types keep their parameters', 'C03', '`fn apply(f: fn(x: int) -> int, v: int) -> int { f(v) }` was rejected with "Expected 0 parameters (), got 1"; unknown types inside fn types were accepted'),
 ('`%=` is rejected on float operands', 'C03', '`let x = 1.5; x %= 2.0;` was accepted (and then panicked both backends)'),
 ('inside a global initialiser no longer dereferences', 'C05', '`let f = main; fn main() {}`: nil pointer dereference in Analyzer.identExpression'),
 ('`spawn` of something that is not a function', 'C05', '`fn main() { spawn undefined_name(); }`: nil pointer dereference in Analyzer.callExpression'),
 ('whether a `loop` terminates is decided by its own body', 'C03', '`fn g() { throw("x"); } fn f() -> int { loop { return 1; } }` was rejected with "Mismatched types" because an earlier diverging expression left CurrentLoopIsTerminated set'),
 ('evaluates the arguments of a closure call in the caller', 'C02', '`fn apply(f: fn(x: int) -> int, v: int) -> int { f(f(v)) }` called with a closure literal: interpreter panic in getVar ("Variable \'f\' not found")'),
 ('import cycle check terminates', 'C05', 'modules main -> a -> b -> a (a cycle that does not contain main): importGraphIsCyclicInner recursed forever, "goroutine stack exceeds 1000000000-byte limit" killed the host'),
 ('printing an analysed string literal escapes', 'C19', '`println("tab\\there", "bs\\\\b", "cr\\rz")`: AnalyzedProgram.String() printed the tab as \\n, dropped the backslash escape and the carriage return; the printed program printed other text'),
 ('printing a parsed string literal escapes', 'C19', 'Program.String() printed string literals raw: a literal containing a quote or backslash did not lex back to the same string'),
 ('a singleton declaration is printed as', 'C19', '`$S = { n: int };` was printed as `$S` and the type on separate lines: the printed program is rejected ("Expected \'=\'")'),
 ('an event function is printed as', 'C19', '`event fn cb(elapsed: int) { }` was printed as `eventfn cb(...)`: the printed program is rejected'),
 ('an any-object literal is printed as', 'C19', '`let o = new { ? };` was printed as `let o = { ? };`: the printed program is rejected ("Expected an expression")'),
 ('float literals are printed with all their digits', 'C19', '`let x = 9900000000000000000.0;` was printed as `9.9e+18`, which lexes as `9.9`, `e`, `+`, `18`; printing was not a fixed point'),
 ('printing an analysed match expression includes its default arm', 'C19', '`match sel { 0 => 10, _ => 30 }`: AnalyzedProgram.String() dropped the `_` arm and the printed program was rejected ("Missing default branch")'),
 ('object keys and object type fields are quoted', 'C19', '`let o = new { "key one": 1 };`: AnalyzedProgram.String() printed the inferred type as `{ key one: int }` (rejected); lexer/util.IsIdent returned false for every name longer than one character'),
 ('keeps singleton extraction parameters', 'C19', '`$S = int; fn get(self: $S) -> int { self }`: AnalyzedProgram.String() printed `fn get(self: int)`, the printed call `get()` was rejected ("requires 1 argument")'),
 ('integral float literals beyond 1e15', 'C19', '`9900000000000000000.0 as int`: printed as `<int>f` with an int64 overflow ("value out of range")'),
 ('large integral float literals are printed with a', 'C19', 'follow-up of the previous fix: `9900000000000000000.0` printed without a fraction lexed as an integer'),
 ('`DeepCast` (both value libraries) wrapped *an', 'C12', '`DeepCast` (both value libraries) wrapped *any* non-option value into `?T` without looking at it (`"s"` admitted as `?int`, `null` became `Some(null)`); the inner value is now cast to `T` first, `null` becomes `none`'),
 ('`fieldURI.push` ignored its `kind` argument, ', 'C12', '`fieldURI.push` ignored its `kind` argument, so every list index in a cast error path was printed as an empty field (``at `.` `` instead of ``at `[0]` ``)'),
 ('interpreter `DeepCast` refused every value fo', 'C12', 'interpreter `DeepCast` refused every value for type `any` (no early return as in the VM) and fell through to the error for any-object -> `{ ? }` (missing `return &val, nil`)'),
 ('interpreter `DeepCast` refused object -> `{ ?', 'C04', 'interpreter `DeepCast` refused object -> `{ ? }` when `allowCasts` is false (the VM accepts it): `let x: { ? } = s.parse_json();` failed on the interpreter only'),
 ('a failed `as` / annotated `let` was a fatal `', 'C12', 'a failed `as` / annotated `let` was a fatal `CastError` on the interpreter (not catchable by `try`); it is now a normal throw with the VM\'s message prefix'),
 ('interpreter `let x: any = <expr of an any-con', 'C12', 'interpreter `let x: any = <expr of an any-containing, non-any type>` returned without defining `x` (later use: host panic "Variable \'x\' not found")'),
 ('`VM.SpawnSync/SpawnAsync` validated each argu', 'C12', '`VM.SpawnSync/SpawnAsync` validated each argument with `DeepCast` but passed the *raw* argument on (an object for a `{ ? }` parameter, a plain `1` for a `?int` parameter crashed the callee); the converted value is passed now'),
 ('`HandleTermination` skipped return types of k', 'C12', '`HandleTermination` skipped return types of kind any-object together with null/never/unknown: a function returning `{ ? }` produced a nil `ReturnValue`'),
 ('`IsEqual` of string, bool, list, object, any-', 'C13', '`IsEqual` of string, bool, list, object, any-object and range (both libraries) type-asserted the other operand: comparing any-objects whose values differ in kind (`{a: "x"}` vs `{a: 1}`) panicked the host'),
 ('object / any-object `IsEqual` (both libraries', 'C13', 'object / any-object `IsEqual` (both libraries) ignored keys present only on the right: `{} == {a: 1}` was true while `{a: 1} == {}` was false'),
 ('VM `to_json` dropped `none` / `null` list ele', 'C13', 'VM `to_json` dropped `none` / `null` list elements (`[none, 1]` -> `[1]`)'),
 ('`to_json` (both libraries) dropped `none` / `', 'C13', '`to_json` (both libraries) dropped `none` / `null` object fields, and the typed read-back then failed with "field \'a\' was expected but not found"'),
 ('the analyzer offers `range.to_string()`, neit', 'C18', 'the analyzer offers `range.to_string()`, neither runtime had it (host panic on first use)'),
 ('the interpreter lacked `str.starts_with` and ', 'C18', 'the interpreter lacked `str.starts_with` and `str.substring` (host panic on first use)'),
 ('the interpreter lacked `{ ? }.get_type`', 'C18', 'the interpreter lacked `{ ? }.get_type`'),
 ('`"a".repeat(-1)` panicked the host in both ru', 'C18', '`"a".repeat(-1)` panicked the host in both runtimes (`strings.Repeat`); now a ValueError'),
 ('VM `"abc".substring(-1)` panicked the host (s', 'C18', 'VM `"abc".substring(-1)` panicked the host (slice bounds); negative bounds now count from the end, beyond-the-start is refused with the existing "index out of range" throw'),
 ('VM `ao.get_type("missing")` dereferenced nil;', 'C18', 'VM `ao.get_type("missing")` dereferenced nil; now an IndexOutOfBounds error like indexing a missing field'),
 ('VM `[0..2].to_json()` panicked the host (`Mar', 'C18', 'VM `[0..2].to_json()` panicked the host (`MarshalValue` has no error path); the panic is turned into a JsonError as on the interpreter'),
 ('import identifier loop stops on a lexer error', 'C05', '`import trigger minute from tri\u00e9ggers;` (an illegal character inside the module name): Parser.importIdent looped forever appending to a slice until "fatal error: out of memory" killed the host'),
 ('`case \' \', \'\\n\', \'\\t\' | \'\\r\'` ORs the two run', 'C06', '`case \' \', \'\\n\', \'\\t\' | \'\\r\'` ORs the two runes (9|13 = 13), so TAB is reported as an illegal character; list them separately (C06 TOKENS:valid-text-rejected char:tab; C07 every layout variant with a tab; precondition of the importIdent hang)'),
 ('makeOr/makeAnd advance before looking at the ', 'C06', 'makeOr/makeAnd advance before looking at the second rune and once more after building the token, so `| || |= & && &=` end one column late and swallow the following rune (`1|2` lexes as `1 |`, `a||b` loses `b`); peek at nextChar like every other two-rune operator (C06 SPAN:end / TOKENS:token-lost after:op:| ..., C07 LAYOUT:separator sep:none left:op:|)'),
 ('makeBitXor builds the span after advancing pa', 'C06', 'makeBitXor builds the span after advancing past the operator and without the file name, so `^` and `^=` end one column late and carry an empty Filename; build the token on the last rune like the other operators (C06 SPAN:end / SPAN:filename op:^ op:^=)'),
 ('makeTildeArrow takes the end of the span afte', 'C06', 'makeTildeArrow takes the end of the span after advancing past `>`, so `~>` ends one column late; remember the location of `>` first (C06 SPAN:end op:~>)'),
 ('makeNumber only skips underscores directly be', 'C06', 'makeNumber only skips underscores directly behind the first digit and never counts `_` or the `f` suffix into the span, so `10_000` lexes as `10` + identifier `_000`, `1.5_0` as `1.5` + `_0`, and `1_`, `1f`, `1_f` end too early; accept DIGIT|\'_\' in both digit runs as grammar.ebnf says (the value is stripped of `_` already) and include the suffix in the span (C06 TOKENS:value / TOKENS:kind / SPAN:end num:*)'),
 ('skipLineComment advances once more at end of ', 'C06', 'skipLineComment advances once more at end of input, so EOF after a trailing `// comment` lies one index/column behind the text; skipBlockComment stops one rune early on an unclosed comment, so the last rune of `/* x` is lexed as a token; only advance while there is a rune and consume an unclosed comment to the end (C06 SPAN:start/end tok:EOF gap:line-comment, TOKENS:token-inside-unclosed-block-comment)'),
 ('TokenKind.String has no case for BitAnd and p', 'C06', 'TokenKind.String has no case for BitAnd and panics; every \'Expected .., found ..\' message for a misplaced `&` is built through it (fmt turns the panic into `%!s(PANIC=String method: ...)`, direct callers die) (C06 HOST-PANIC:lexer.TokenKind.String kind:&)'),
 ('`(a) = b`, `(a.m) += 1`, `((a[0])) = 1` are r', 'C07', '`(a) = b`, `(a.m) += 1`, `((a[0])) = 1` are rejected with \'Invalid left-hand side of assignment\' because the target check looks at the GroupedExpression node; unwrap redundant parentheses before the check (the assignment node then carries the inner target, exactly as for `a = b`) (C07 LAYOUT:parentheses:rejected around:assignment-target)'),
 ('in `impl T with { a, b, } for $S` the trailin', 'C07', 'in `impl T with { a, b, } for $S` the trailing comma branch consumes the `}` itself and then expects another one (`Expected \'}\', found \'for\'`), although grammar.ebnf allows the trailing comma; leave the `}` to the common expectRecoverable (C07 LAYOUT:trailing-comma:rejected list:impl-capabilities)'),
 ('matchExpression analyses the action of a `_` ', 'C05', 'matchExpression analyses the action of a `_` arm twice (once for every arm, once more for the default arm), so every diagnostic inside it is reported twice and nested matches take 2^depth steps (`match 1 { _ => match 1 { _ => ... } }` at depth 100 does not return); reuse the action analysed at the top of the loop (C05 FATAL:no-return:analyzer.(*Analyzer).matchExpression nest:match-nested)'),
 ('TypeCheck panics with \'TODO: implement or rem', 'C05', 'TypeCheck panics with \'TODO: implement or remove this\' as soon as two function types with variadic parameters meet (`print == println`, `print - print`, `let f: ... = print` against another builtin); compare the leading parameter types and the type of the remaining arguments instead (C05 HOST-PANIC:analyzer.(*Analyzer).TypeCheck:TODO: implement or remove this)'),
 ('`import trigger t from m;` where module m has', 'C05', '`import trigger t from m;` where module m has no trigger `t` reports the error but still registers the zero-value TriggerFunction under that name; the next use panics the host (`#[trigger in t(..)]`: \'trigger return type is <nil>\', `trigger f on t(..);`: \'Param type cannot be <nil>\'); do not register what was not found, later uses then get the ordinary \'undefined trigger\' diagnostic (C05 HOST-PANIC:analyzer.(*A'),
]
log = subprocess.check_output(['git', '-C', '/repo', 'log', '--reverse', '--format=%h %s']).decode().splitlines()
fixed, unmatched = [], []
for l in log:
    h, msg = l.split(' ', 1)
    if not msg.startswith('fix:'):
        continue
    for k, p, w in M:
        if k in msg:
            fixed.append(f'fixed: property={p} {h} {w}')
            break
    else:
        unmatched.append(l)
kf = json.load(open(os.path.join(ROOT, 'known_findings.json')))
kf['fixed'] = fixed
json.dump(kf, open(os.path.join(ROOT, 'known_findings.json'), 'w'), indent=1)
print(len(fixed), 'fixed entries;', 'UNMATCHED:' if unmatched else '', *unmatched, sep='\n' if unmatched else ' ')
