#!/usr/bin/env python3
"""Adds the rows of new seeded changes (seeded/*/meta.json) to the table of DESIGN.md 12.6;
existing rows are kept. A row's last column lists the quick checks that report the change
(verif_results.txt, final run); '(own check only after strengthening)' is added when the first
run (meta.verif_check_results_first_run) of the property's own check had missed it."""
import glob, json, os, re
ROOT = os.path.dirname(os.path.dirname(os.path.abspath(__file__)))
p = ROOT + '/DESIGN.md'
s = open(p).read()
head = '| seeded change | what was changed | detected by |\n|---|---|---|\n'
i = s.index(head) + len(head)
j = s.index('\n\n', i)
rows = {}
for l in s[i:j].split('\n'):
    m = re.match(r'\| `([^`]+)` \|', l)
    if m: rows[m.group(1)] = l
for d in sorted(glob.glob(ROOT + '/seeded/*/')):
    name = os.path.basename(d.rstrip('/'))
    if name in rows: continue
    meta = json.load(open(d + 'meta.json'))
    own = re.match(r'C\d\d', name).group(0)
    det = [l.split()[0] for l in open(d + 'verif_results.txt') if ' exit=1' in l]
    first = meta.get('verif_check_results_first_run', [])
    missed_first = any(x.startswith(own + ' exit=0') for x in first)
    summ = str(meta.get('summary') or meta.get('change') or meta.get('description') or '')
    summ = re.sub(r'\s+', ' ', summ).replace('|', '/')[:230]
    col = ', '.join(det) + (' (own check only after strengthening)' if missed_first else '')
    rows[name] = '| `%s` | %s | %s |' % (name, summ, col)
    if meta.get('verif_check_results') is None:
        meta['verif_check_results'] = [l.strip()[:300] for l in open(d + 'verif_results.txt') if 'exit=' in l]
        json.dump(meta, open(d + 'meta.json', 'w'), indent=1)
s = s[:i] + '\n'.join(rows[k] for k in sorted(rows)) + s[j:]
open(p, 'w').write(s)
print(len(rows), 'rows')
