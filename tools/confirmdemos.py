#!/usr/bin/env python3
"""Confirms each seeded change in a scratch worktree of /repo: builds, repository tests pass,
the demonstration test passes without the change and fails with it. Writes confirm.txt."""
import glob, json, os, re, subprocess, sys
ENV = dict(os.environ, GOFLAGS='-mod=mod', GOPROXY='off', GOSUMDB='off', GOTOOLCHAIN='local')
W = '/tmp/confirm-wt'
def sh(cmd, timeout=600):
    try:
        r = subprocess.run(cmd, shell=True, cwd=W, env=ENV, capture_output=True, text=True, timeout=timeout)
        return r.returncode, (r.stdout + r.stderr)
    except subprocess.TimeoutExpired:
        return 124, 'TIMEOUT'
only = sys.argv[1:]
subprocess.run('git -C /repo worktree remove --force %s 2>/dev/null; git -C /repo worktree add -q --detach %s HEAD' % (W, W), shell=True)
for d in sorted(glob.glob('/verif/seeded/*/')):
    name = os.path.basename(d.rstrip('/'))
    if only and name not in only:
        continue
    meta = json.load(open(d + 'meta.json'))
    txt = json.dumps(meta)
    dests = sorted(set(re.findall(r'homescript/[A-Za-z0-9_/]*_test\.go', txt)))
    srcs = glob.glob(d + '*_test.go.txt') + glob.glob(d + '*_test.go') + glob.glob(d + 'testdata/*_test.go')
    out = [name]
    if not dests or not srcs:
        # script based demo
        if os.path.exists(d + 'run_demo.sh'):
            out.append('script demo (run_demo.sh) - see observed_*.txt recorded by the seeding agent')
        else:
            out.append('no Go test demo found')
        open(d + 'confirm.txt', 'w').write('\n'.join(out) + '\n'); print('\n'.join(out)); continue
    dest, src = dests[0], srcs[0]
    pkg = './' + os.path.dirname(dest) + '/'
    tags = ''
    body = open(src).read()
    m = re.search(r'//go:build (\w+)', body)
    if m: tags = '-tags ' + m.group(1)
    tests = re.findall(r'^func (Test\w+)\(', body, re.M)
    runre = '|'.join(tests) if tests else '.'
    sh('git checkout -q -- . && git clean -fdq')
    subprocess.run(['cp', src, os.path.join(W, dest)])
    rc0, o0 = sh('go test -count=1 %s -run "%s" %s' % (tags, runre, pkg), 300)
    sh('git apply %spatch.diff' % d)
    rcb, ob = sh('go build ./...')
    rc1, o1 = sh('go test -count=1 %s -run "%s" %s' % (tags, runre, pkg), 300)
    os.remove(os.path.join(W, dest))
    rcs, os_ = sh('go test -count=1 ./... 2>&1 | grep -v "no test files" | grep -v "^ok"', 300)
    out.append('demo %s placed at %s, run with: go test -count=1 %s -run "%s" %s' % (os.path.basename(src), dest, tags, runre, pkg))
    out.append('without the change: %s' % ('PASS' if rc0 == 0 else 'FAIL(rc=%d) %s' % (rc0, o0[-300:].replace('\n', ' | '))))
    out.append('with the change: build %s; demo %s; repository suite %s' % ('ok' if rcb == 0 else 'FAILS', 'FAILS as intended' if rc1 != 0 else 'PASSES (not demonstrated)', 'passes' if not os_.strip() else 'FAILS: ' + os_[:200]))
    open(d + 'confirm.txt', 'w').write('\n'.join(out) + '\n')
    print('\n'.join(out))
sh('git checkout -q -- . && git clean -fdq')
subprocess.run('git -C /repo worktree remove --force %s' % W, shell=True)
