#!/bin/sh
# usage: tools/cover.sh <check id>...   (development aid, not a check)
# Materialises the instrumented (sched) variant of /repo in a scratch copy, builds the worker
# against it with block coverage of the repository's packages, runs the quick tier of the given
# checks in it (16 shards) and writes per-function coverage to /tmp/hmscov.func: the place to look
# for language features the generators never produce. Scratch: /tmp/hmscovrepo, /tmp/hmscov*.
cd /verif || exit 2
export GOFLAGS=-mod=mod GOPROXY=off GOSUMDB=off GOTOOLCHAIN=local
W=/verif/.work/cover; rm -rf $W /tmp/hmscovrepo /tmp/hmscov /tmp/hmscov-ov; mkdir -p $W /tmp/hmscov /tmp/hmscov-ov
rsync -a --exclude .git /repo/ /tmp/hmscovrepo/
[ -x bin/rewrite ] || go build -o bin/rewrite ./rewrite
bin/rewrite -repo /tmp/hmscovrepo -out /tmp/hmscov-ov -shim /verif/shim/vsched -extra /verif/shim/extra -sched homescript/runtime,homescript/interpreter,v3/homescript >/dev/null || exit 2
python3 - <<'PY'
import json, os, shutil
ov = json.load(open('/tmp/hmscov-ov/overlay.json'))['Replace']
for dst, src in ov.items():
    os.makedirs(os.path.dirname(dst), exist_ok=True)
    shutil.copy(src, dst)
print(len(ov), 'files materialised')
PY
mkdir -p /tmp/hmscovrepo/vw/cmd && cp -r /verif/cmd/hmsworker /tmp/hmscovrepo/vw/cmd/ && cp -r /verif/internal /tmp/hmscovrepo/vw/internal
find /tmp/hmscovrepo/vw -name '*.go' | xargs sed -i 's#"hmsverif/internal/#"github.com/smarthome-go/homescript/v3/vw/internal/#'
# (the worker is built inside the scratch copy of the repository's module: the cover tool only
# instruments packages of the main module)
(cd /tmp/hmscovrepo && go build -tags sched -cover -o $W/hmsworker ./vw/cmd/hmsworker 2>&1 | grep -v '^go: found')
for c in "$@"; do
  for s in 0 1 2 3 4 5 6 7 8 9 10 11 12 13 14 15; do
    GOCOVERDIR=/tmp/hmscov timeout 900 $W/hmsworker -check $c -tier quick -shard $s -nshards 16 -fd 1 >/dev/null 2>$W/err.$c.$s &
  done
  wait
  echo "$c done: $(ls /tmp/hmscov | wc -l) coverage files"
done
go tool covdata textfmt -i=/tmp/hmscov -o /tmp/hmscov.txt
grep -v '/vw/' /tmp/hmscov.txt > /tmp/hmscov.repo.txt; (cd /tmp/hmscovrepo && go tool cover -func=/tmp/hmscov.repo.txt) | sed 's#github.com/smarthome-go/homescript/v3/##' > /tmp/hmscov.func
tail -1 /tmp/hmscov.func
rm -rf /tmp/hmscovrepo /tmp/hmscov-ov
