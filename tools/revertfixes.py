#!/usr/bin/env python3
"""Fix-regression run (use inside tools/iso.sh): every `fix:` commit of /repo is reverted on
its own (git show <c> | git apply -R on the current tree); if that applies, builds and the
repository's own tests still pass, the quick check of the property the fix was recorded under
(known_findings.json `fixed:` entries) must report a violation. Appends one JSON line per
commit to the file given as argv[1]."""
import json, os, re, subprocess, sys, time
ENV = dict(os.environ, GOFLAGS='-mod=mod', GOPROXY='off', GOSUMDB='off', GOTOOLCHAIN='local')
out = sys.argv[1]
only = sys.argv[2:]
def sh(cmd, cwd='/repo', timeout=3600):
    r = subprocess.run(cmd, shell=True, cwd=cwd, env=ENV, capture_output=True, text=True, timeout=timeout)
    return r.returncode, r.stdout + r.stderr
fixed = json.load(open('/verif/known_findings.json'))['fixed']
for e in fixed:
    m = re.match(r'fixed: property=(C\d\d) (\w+) (.*)', e)
    prop, commit, what = m.groups()
    if only and commit not in only and prop not in only:
        continue
    sh('git checkout -q -- . && git clean -fdq')
    res = {'commit': commit, 'property': prop, 'what': what[:160]}
    rc, o = sh('git show %s | git apply -R' % commit)
    if rc != 0:
        res['status'] = 'revert-does-not-apply'
    else:
        rc, o = sh('go build ./...')
        if rc != 0:
            res['status'] = 'revert-does-not-build'
        else:
            rc, o = sh('go test -count=1 ./... 2>&1 | grep -v "no test files" | grep -v "^ok"')
            res['repo_tests'] = 'pass' if not o.strip() else 'FAIL'
            t = time.time()
            rc, o = sh('./check %s quick' % prop, cwd='/verif')
            res['check_exit'] = rc
            res['wall_s'] = round(time.time() - t, 1)
            cl = [l.strip()[:200] for l in o.split('\n') if l.strip().startswith('class=')][:2]
            res['classes'] = cl
            res['status'] = 'detected' if rc == 1 and 'VIOLATION' in o else 'MISSED'
    sh('git checkout -q -- . && git clean -fdq')
    open(out, 'a').write(json.dumps(res) + '\n')
    print(res['commit'], res['property'], res['status'], flush=True)
