#!/bin/sh
# usage: tools/importmut.sh <worktree> <seed name> <check id>...
# copies <worktree>/seeded into /verif/seeded/<seed name>, runs the given quick checks against the patch
W="$1"; N="$2"; shift; shift
D=/verif/seeded/$N
mkdir -p "$D"
cp -r "$W"/seeded/* "$D"/ 2>/dev/null
rm -f "$D"/hms "$D"/*.bin
/verif/tools/trymut.sh "$D/patch.diff" "$@" 2>&1 | grep "exit=\|tests\|restored\|apply" | tee "$D/verif_results.txt"
