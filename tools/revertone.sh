#!/bin/sh
# usage: rev.sh <commit> <checks...> : revert a fix commit in /repo, run quick checks (evidence preserved), restore
C=$1; shift
cd /repo && git show $C | git apply -R || exit 2
cp -a /verif/evidence /tmp/ev.bak.$$
for c in "$@"; do (cd /verif && ./check $c quick 2>&1 | grep "^VIOLATION\|class=\|quick:" | head -4 | cut -c1-300); done
cp -a /tmp/ev.bak.$$/. /verif/evidence/; rm -rf /tmp/ev.bak.$$
cd /repo && git checkout -- . && git status --short
