#!/usr/bin/env python3
"""Regenerates /verif/MANIFEST.json from the table below (keeps it schema-valid)."""
import json, os
ROOT = os.path.dirname(os.path.dirname(os.path.abspath(__file__)))
props = [json.loads(l) for l in open(os.path.join(ROOT, 'properties.jsonl'))]
NOTE = ("Trusted: Go toolchain, go build -overlay, go/packages; the typed overlay rewriter preserves sequential behaviour "
        "(checked on every run by re-executing a stride of cases and every failing case on the plain build); the reference "
        "models in internal/hs encode the property statements and mask what they leave open. Bounds are stated in the evidence file.")
claimed = {
 'C01': dict(technique='bounded exhaustive enumeration of programs vs. reference evaluator (explicit-state, real VM under controlled scheduler)',
             text='Every program of finite, index-addressable families (operators x boundary values x forms, ...) is run through the real analyzer, compiler and VM and compared with an independent reference evaluator; complete enumeration within the stated bounds, no sampling.', ref='5/C01'),
 'C02': dict(technique='bounded exhaustive enumeration of accepted programs on both backends; crash/deadlock/livelock detection under the controlled scheduler',
             text='Every accepted program of the enumerated families runs on VM and interpreter; Go panics are captured per thread, deadlock and livelock are terminal scheduler states, non-termination is a poll-budget overrun. Complete within the bounds.', ref='5/C02'),
 'C03': dict(technique='bounded exhaustive enumeration of well-typed program families plus every single-fault mutation, against a reference type checker',
             text='13 families of well-typed programs are enumerated completely; every program must get no error diagnostic and the types recorded for its expressions must equal the reference type checker\'s; every single-fault mutant (about 95 mutators applied at every position) must get at least one error diagnostic. Both directions on every element, no sampling.', ref='5/C03'),
 'C04': dict(technique='bounded exhaustive differential enumeration (interpreter vs VM)',
             text='Every accepted program of the enumerated families (the shared semantic families, the analyzer-defined expression domain, and every value x type x route program of the cast universe) is run on both backends and the observation records are compared; complete enumeration within the bounds.', ref='5/C04'),
 'C05': dict(technique='bounded exhaustive enumeration of input texts (all short strings over a 48-symbol alphabet, all short token sequences in 6 contexts, all single-token edits (incl. lexer errors behind every token) and prefixes of the shipped corpus, nesting families to depth 1000, import graphs, every import kind x name x module x use) with guarded child-process probes judged by processor time',
             text='Parse and Analyze must return on every element of the enumerated input spaces, also when the text is served as an imported module; panics are recovered and reported, non-returning or stack-exhausting inputs are detected in a guarded child process and attributed to the culprit function.', ref='5/C05'),
 'C06': dict(technique='bounded exhaustive enumeration of strings and lexeme adjacencies against a reference lexer transcribed from grammar.ebnf',
             text='Every string of length <= 3/4 over a 48-symbol alphabet and every pair/triple of ~120 lexemes joined by each separator: token kinds, values and inclusive spans of the real lexer equal the reference lexer; lexical errors are errors.', ref='5/C06'),
 'C07': dict(technique='bounded exhaustive enumeration of operator pairs/triples/quadruples and layout variants against an independent precedence-climbing reference',
             text='All ordered pairs, triples (thorough: quadruples) of the binary operators, `as` and assignment operators with prefix/postfix wrappers, over names and over five vocabularies of literal operands: the real parse tree equals the tree fixed by the documented operator table; every separator at every gap, redundant parentheses and trailing commas leave the tree unchanged.', ref='5/C07'),
 'C08': dict(technique='bounded exhaustive enumeration of interrupt/diagnostic/syntax-error positions over program families, single-fault programs and all single-character edits of base texts',
             text='Every interrupt span of programs ending in a throw or fatal error (both backends) is consistent with the text and within the culprit known from the IR printer; first diagnostics of single-fault programs lie within the culprit in several layouts; type-flow culprits (wrong list/option/object/function type from every kind of source reaching every kind of use site); every culprit and interrupt once more inside an imported module whose file the position must name; every syntax error and diagnostic of every single-character edit of the base texts has a consistent span and renders without panic.', ref='5/C08'),
 'C09': dict(technique='bounded exhaustive enumeration of (program, limit triple, iteration count) over a limit lattice with a differential oracle',
             text='Every program of a 4-parameter family is run under every limit triple of a lattice on the VM and every call limit on the interpreter; never a host panic, interrupt kind corresponds to the small limit, monotone in every limit, never stopped when the reference call depth is within the limit, residue zero. Complete within the bounds.', ref='5/C09'),
 'C10': dict(technique='stateless DFS over all thread schedules and cancellation points of the real VM within a delay bound (controlled scheduler); exhaustive cancellation-poll enumeration for the interpreter',
             text='The host cancel is a one-step thread, so every cancellation point is one scheduling deviation; all schedules within the delay bound are executed on the real VM code and judged (Wait returns termination or own outcome, nothing left blocked, bounded overshoot). Deadlock and livelock are terminal states of the scheduler, not timeouts.', ref='5/C10'),
 'C11': dict(technique='bounded exhaustive enumeration of control-flow nestings vs. reference evaluator on both backends',
             text='All nestings up to depth 3/4 of 12 control constructs around 7 kinds of exit, each with and without a trailing uncaught throw, run on VM and interpreter and compared with the reference evaluator (output, outcome, caught message/position, VM residue).', ref='5/C11'),
 'C12': dict(technique='bounded exhaustive enumeration of (value, type, route) triples against a reference cast/conformance model',
             text='All values of depth <= 2 x all types of depth <= 2 through every route (DeepCast of both value libraries with both allowCasts, `as`, annotated let, parse_json, host arguments through SpawnSync and SpawnAsync, return values), compared with an independent refcast: admitted iff conforming after permitted conversions, result deeply conforms, exact values unchanged, rejection catchable with the offending path.', ref='5/C12'),
 'C13': dict(technique='bounded exhaustive enumeration of value pairs/triples and mutation sequences against structural reference equality',
             text='Per static type all values over a leaf alphabet: reflexivity, symmetry, transitivity and agreement with structural equality on all pairs/triples; clone independence under all mutation sequences of length <= 2; JSON round trip under the type; identical display in both runtimes (field names chosen to order differently under different sort keys); the same laws through programs on both backends.', ref='5/C13'),
 'C14': dict(technique='exhaustive exploration of Go-map iteration orders (choice points injected by the overlay rewriter) and of single-threaded schedules, within a deviation bound',
             text='On a build where every map range is a choice point, all executions of the whole pipeline with <=1/<=2 deviating ranges (rotations of the real order) and all schedules of main core vs polling Wait within delay bound 2/3 must give identical diagnostics, output and outcome (incl. diagnostics-heavy programs with several offending fields/arguments); plus repeated rounds in one process and one compile output / one analysed program run three times.', ref='5/C14'),
 'C15': dict(technique='bounded exhaustive enumeration of module graphs (visibility configurations, overlapping names, all subsets of candidate import edges) against a reference linker',
             text='Every visibility configuration x import subset, every pair of library shapes with overlapping private names, every subset of 12 import edges over 4 modules (cycles, self imports, missing modules) and every assignment of ordered import lists (<= 2) to four modules behind the entry module go through the real analyzer and both backends; verdict and output must equal the reference linker.', ref='5/C15'),
 'C18': dict(technique='exhaustive enumeration of the analyzer\'s member table x receiver values x boundary argument tuples on both runtimes',
             text='The member table is read from the analyzer at run time; every member x receiver in {empty, one, many} x boundary arguments is called on both runtimes directly and through one-line programs: exists, returns the advertised kind, matches reference semantics, negative indices from the end, out-of-range answers with an interrupt, never a host panic; results are fresh (storing a result or the plainest literal of its type in a typed slot and assigning through it does not change what an equal receiver answers).', ref='5/C18'),
 'C19': dict(technique='bounded exhaustive enumeration of programs through print -> parse -> analyse -> run round trips and through the optimizer (differential on the real VM/interpreter)',
             text='Every program of the shared families plus printer-centric programs and every block-like statement x every kind of following statement start: both printers must yield text that parses, is accepted, behaves identically and is a fixed point; the optimizer output must behave identically on both backends.', ref='5/C19'),
 'C16': dict(technique='explicit enumeration of all host-call histories up to a depth x all schedules within a delay bound, against the reference evaluator',
             text='All histories of SpawnSync/SpawnAsync calls over a 16-call alphabet (arguments, failures, spawning calls, loops over long-lived lists, heap state) up to a depth on one live VM, each under all schedules within the delay bound; per-call results equal the reference model, no residue, failure instead of blocking after a failed call.', ref='5/C16'),
 'C17': dict(technique='stateless DFS over all thread interleavings of the real VM within a delay bound (controlled scheduler over lock/channel/select/sleep/spawn points)',
             text='All schedules within the delay bound for programs spawning 1-3 cores; each spawned function runs exactly once with spawn-time arguments, Wait returns only after all cores finished, fatal interrupt reported and the rest cancelled, no deadlock; a host whose output sink is locked per write still receives every print whole. Unsynchronised accesses are outside the scheduler model (auxiliary race-detector pass).', ref='5/C17'),
 'C20': dict(technique='exhaustive exploration of the transformer\'s random draws (scripted rand.Source as choice points) within a deviation bound, differential on the real pipeline',
             text='Every draw of the fuzzer transformer is a choice point over an alphabet reaching every Intn index and Shuffle position; all draw sequences with <=1/<=2 non-default draws for 1-3 passes over hand-written inputs and shipped examples, plus the pass-by-pass closure (<= 1 non-default draw per pass, 3 passes, trees told apart by full structure) over tiny inputs; every distinct variant must be accepted and behave like the original on the VM.', ref='5/C20'),
}
checks = []
for pid, c in claimed.items():
    checks.append({
        'property_id': pid,
        'quick_cmd': f'./check {pid} quick',
        'thorough_cmd': f'./check {pid} thorough',
        'evidence_file': f'evidence/{pid}.json',
        'replay_cmd_template': f'./check {pid} --replay {{path}}',
        'engine': 'hmscheck',
        'level_claimed': {'category': 'model_checking', 'text': c['text'], 'design_ref': 'DESIGN.md section ' + c['ref']},
        'level_note': NOTE,
        'technique': c['technique'],
    })
na = [{'property_id': p['id'], 'reason': 'check not built yet in this session (planned, see DESIGN.md section 5); not a limitation of the technique'}
      for p in props if p['id'] not in claimed]
m = {
 'version': 1,
 'setup_cmd': './setup.sh',
 'hooks': {
   'guard': 'verif',
   'enable': 'no hook lives in /repo: instrumentation is generated from the current working tree at check time by /verif/rewrite and passed to `go build -tags sched -overlay <generated overlay.json>`',
   'baseline_off_cmd': 'cd /repo && go test -vet=off -count=1 ./...',
   'source_commits': [],
   'add_only': True,
 },
 'engines': [
   {'name': 'hmscheck', 'path': 'cmd/hmscheck', 'serves_properties': sorted(claimed), 'kind_free_text': 'driver: builds the worker against /repo (overlay), shards exhaustive enumerations over 16 processes, attributes crashes, validates on the plain build, matches known findings, writes evidence'},
   {'name': 'hmsworker', 'path': 'cmd/hmsworker', 'serves_properties': sorted(claimed), 'kind_free_text': 'harness linked against the repository: scenario enumerators, oracles, reference models'},
   {'name': 'vsched', 'path': 'shim/vsched', 'serves_properties': sorted(claimed), 'kind_free_text': 'cooperative scheduler + chooser + stateless DFS explorer with deviation (delay) bound, injected as a virtual package of the repo module'},
   {'name': 'rewrite', 'path': 'rewrite', 'serves_properties': sorted(claimed), 'kind_free_text': 'typed AST rewriter producing the build overlay (sync/chan/go/select/sleep and map ranges -> vsched)'},
 ],
 'checks': checks,
 'not_applicable': na,
 'notes': 'See DESIGN.md. Known findings: known_findings.json (fixed entries record the fix: commits in /repo).',
}
json.dump(m, open(os.path.join(ROOT, 'MANIFEST.json'), 'w'), indent=1)
print('checks:', len(checks), 'not_applicable:', len(na))
