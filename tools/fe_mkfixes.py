#!/usr/bin/env python3
# Regenerates proposed_fixes/*.diff against the current /repo tree (each edit must match exactly once;
# /repo is only read). Scratch copies go to /tmp/fix.
import os,subprocess,sys,shutil
OUT=os.path.join(os.path.dirname(os.path.abspath(__file__)),"..","proposed_fixes")
def mkfix(name, path, edits, desc):
    src=open('/repo/'+path).read()
    new=src
    for old,rep in edits:
        if new.count(old)!=1:
            print("EDIT NOT UNIQUE/FOUND in",name,":",repr(old[:60]),new.count(old)); sys.exit(1)
        new=new.replace(old,rep)
    root='/tmp/fix/'+name
    shutil.rmtree(root,ignore_errors=True)
    for side,txt in (('a',src),('b',new)):
        p=os.path.join(root,side,path); os.makedirs(os.path.dirname(p),exist_ok=True); open(p,'w').write(txt)
    d=subprocess.run(['diff','-u','a/'+path,'b/'+path],cwd=root,capture_output=True,text=True).stdout
    # normalise header timestamps
    lines=d.split('\n')
    lines[0]='--- a/'+path; lines[1]='+++ b/'+path
    open(os.path.join(OUT,name+'.diff'),'w').write('\n'.join(lines))
    r=subprocess.run(['git','-C','/repo','apply','--check',os.path.join(OUT,name+'.diff')],capture_output=True,text=True)
    print(name, 'apply --check:', 'OK' if r.returncode==0 else r.stderr)
    open(os.path.join(OUT,name+'.txt'),'w').write(desc.strip()+'\n')
L='homescript/lexer/lexer.go'

mkfix('lexer-tab-is-whitespace', L, [("		case ' ', '\\n', '\\t' | '\\r':\n", "		case ' ', '\\n', '\\t', '\\r':\n")],
 "lexer: `case ' ', '\\n', '\\t' | '\\r'` ORs the two runes (9|13 = 13), so TAB is reported as an illegal character; list them separately (C06 TOKENS:valid-text-rejected char:tab; C07 every layout variant with a tab; precondition of the importIdent hang)")

mkfix('lexer-or-and-do-not-swallow-next-rune', L, [
("""func (self *Lexer) makeOr() Token {
	startLocation := self.location
	self.advance()

	tokenKind := BitOr
	value := "|"

	if self.currentChar != nil {
		switch *self.currentChar {
""","""func (self *Lexer) makeOr() Token {
	startLocation := self.location

	tokenKind := BitOr
	value := "|"

	if self.nextChar != nil {
		switch *self.nextChar {
"""),
("""func (self *Lexer) makeAnd() Token {
	startLocation := self.location
	self.advance()

	tokenKind := BitAnd
	value := "&"

	if self.currentChar != nil {
		switch *self.currentChar {
""","""func (self *Lexer) makeAnd() Token {
	startLocation := self.location

	tokenKind := BitAnd
	value := "&"

	if self.nextChar != nil {
		switch *self.nextChar {
""")],
 "lexer: makeOr/makeAnd advance before looking at the second rune and once more after building the token, so `| || |= & && &=` end one column late and swallow the following rune (`1|2` lexes as `1 |`, `a||b` loses `b`); peek at nextChar like every other two-rune operator (C06 SPAN:end / TOKENS:token-lost after:op:| ..., C07 LAYOUT:separator sep:none left:op:|)")

mkfix('lexer-xor-span-and-filename', L, [
("""	startLocation := self.location
	self.advance()

	tokenKind := BitXor
	value := "^"

	if self.currentChar != nil && *self.currentChar == '=' {
		tokenKind = BitXorAssign
		value = "^="
		self.advance()
	}

	return newToken(
		tokenKind,
		value,
		errors.Span{
			Start: startLocation,
			End:   self.location,
		},
	)
}
""","""	startLocation := self.location

	tokenKind := BitXor
	value := "^"

	if self.nextChar != nil && *self.nextChar == '=' {
		tokenKind = BitXorAssign
		value = "^="
		self.advance()
	}

	token := newToken(
		tokenKind,
		value,
		errors.Span{
			Start:    startLocation,
			End:      self.location,
			Filename: self.filename,
		},
	)
	self.advance()
	return token
}
""")],
 "lexer: makeBitXor builds the span after advancing past the operator and without the file name, so `^` and `^=` end one column late and carry an empty Filename; build the token on the last rune like the other operators (C06 SPAN:end / SPAN:filename op:^ op:^=)")

mkfix('lexer-tilde-arrow-span', L, [
("""	self.advance()

	return newToken(
		TildeArrow,
		"->",
		startLocation.Until(self.location, self.filename),
	), nil
""","""	endLocation := self.location
	self.advance()

	return newToken(
		TildeArrow,
		"->",
		startLocation.Until(endLocation, self.filename),
	), nil
""")],
 "lexer: makeTildeArrow takes the end of the span after advancing past `>`, so `~>` ends one column late; remember the location of `>` first (C06 SPAN:end op:~>)")

mkfix('lexer-number-underscores-and-suffix-span', L, [
("""	self.advance()

	for self.currentChar != nil && *self.currentChar == '_' {
		self.advance()
	}

	lastEnd := startLocation
	for self.currentChar != nil && util.IsDigit(*self.currentChar) {
		value += string(*self.currentChar)
		lastEnd = self.location
		self.advance()
	}
""","""	self.advance()

	lastEnd := startLocation
	for self.currentChar != nil && (util.IsDigit(*self.currentChar) || *self.currentChar == '_') {
		value += string(*self.currentChar)
		lastEnd = self.location
		self.advance()
	}
"""),
("""		value += string(*self.currentChar)
		self.advance()
		for self.currentChar != nil && util.IsDigit(*self.currentChar) {
""","""		value += string(*self.currentChar)
		self.advance()
		for self.currentChar != nil && (util.IsDigit(*self.currentChar) || *self.currentChar == '_') {
"""),
("""	} else if self.currentChar != nil && *self.currentChar == 'f' {
		self.advance()
""","""	} else if self.currentChar != nil && *self.currentChar == 'f' {
		lastEnd = self.location
		self.advance()
""")],
 "lexer: makeNumber only skips underscores directly behind the first digit and never counts `_` or the `f` suffix into the span, so `10_000` lexes as `10` + identifier `_000`, `1.5_0` as `1.5` + `_0`, and `1_`, `1f`, `1_f` end too early; accept DIGIT|'_' in both digit runs as grammar.ebnf says (the value is stripped of `_` already) and include the suffix in the span (C06 TOKENS:value / TOKENS:kind / SPAN:end num:*)")

mkfix('lexer-comments-at-end-of-input', L, [
("""	for self.currentChar != nil && *self.currentChar != '\\n' {
		self.advance()
	}

	self.advance()
}
""","""	for self.currentChar != nil && *self.currentChar != '\\n' {
		self.advance()
	}

	if self.currentChar != nil {
		self.advance()
	}
}
"""),
("""		if self.currentChar == nil || self.nextChar == nil {
			break
		}
		if *self.currentChar == '*' && *self.nextChar == '/' {
""","""		if self.currentChar == nil {
			break
		}
		if *self.currentChar == '*' && self.nextChar != nil && *self.nextChar == '/' {
""")],
 "lexer: skipLineComment advances once more at end of input, so EOF after a trailing `// comment` lies one index/column behind the text; skipBlockComment stops one rune early on an unclosed comment, so the last rune of `/* x` is lexed as a token; only advance while there is a rune and consume an unclosed comment to the end (C06 SPAN:start/end tok:EOF gap:line-comment, TOKENS:token-inside-unclosed-block-comment)")

mkfix('lexer-bitand-has-a-name', 'homescript/lexer/token.go', [
("""	case BitOr:
		display = "|"
""","""	case BitOr:
		display = "|"
	case BitAnd:
		display = "&"
""")],
 "lexer: TokenKind.String has no case for BitAnd and panics; every 'Expected .., found ..' message for a misplaced `&` is built through it (fmt turns the panic into `%!s(PANIC=String method: ...)`, direct callers die) (C06 HOST-PANIC:lexer.TokenKind.String kind:&)")

mkfix('parser-impl-capabilities-trailing-comma', 'homescript/parser/singleton.go', [
("""			if self.CurrentToken.Kind == lexer.RCurly {
				if err := self.next(); err != nil {
					return ast.ImplBlock{}, err
				}

				break
			}
""","""			if self.CurrentToken.Kind == lexer.RCurly {
				break
			}
""")],
 "parser: in `impl T with { a, b, } for $S` the trailing comma branch consumes the `}` itself and then expects another one (`Expected '}', found 'for'`), although grammar.ebnf allows the trailing comma; leave the `}` to the common expectRecoverable (C07 LAYOUT:trailing-comma:rejected list:impl-capabilities)")

mkfix('parser-parenthesised-assignment-target', 'homescript/parser/expression.go', [
("""	switch lhs.Kind() {
	case ast.IdentExpressionKind, ast.IndexExpressionKind, ast.MemberExpressionKind, ast.CastExpressionKind:
""","""	// redundant parentheses around the target do not change what is assigned to: `(a) = 1`
	for lhs.Kind() == ast.GroupedExpressionKind {
		lhs = lhs.(ast.GroupedExpression).Inner
	}

	switch lhs.Kind() {
	case ast.IdentExpressionKind, ast.IndexExpressionKind, ast.MemberExpressionKind, ast.CastExpressionKind:
""")],
 "parser: `(a) = b`, `(a.m) += 1`, `((a[0])) = 1` are rejected with 'Invalid left-hand side of assignment' because the target check looks at the GroupedExpression node; unwrap redundant parentheses before the check (the assignment node then carries the inner target, exactly as for `a = b`) (C07 LAYOUT:parentheses:rejected around:assignment-target)")

mkfix('analyzer-match-default-arm-analysed-once', 'homescript/analyzer/expression.go', [
("""				defaultArmSpan = &arm.Range
				action := self.expression(arm.Action)
				defaultArm = &action
""","""				defaultArmSpan = &arm.Range
				defaultArm = &action
""")],
 "analyzer: matchExpression analyses the action of a `_` arm twice (once for every arm, once more for the default arm), so every diagnostic inside it is reported twice and nested matches take 2^depth steps (`match 1 { _ => match 1 { _ => ... } }` at depth 100 does not return); reuse the action analysed at the top of the loop (C05 FATAL:no-return:analyzer.(*Analyzer).matchExpression nest:match-nested)")

mkfix('analyzer-typecheck-vararg-function-types', 'homescript/analyzer/typing.go', [
("""		case ast.VarArgsFunctionTypeParamKindIdentifierKind:
			// TODO: ...
			panic("TODO: implement or remove this")
""","""		case ast.VarArgsFunctionTypeParamKindIdentifierKind:
			// both functions take a variable number of arguments: the leading parameter types and the
			// type of the remaining arguments must agree
			expectedVarArgs := expectedFn.Params.(ast.VarArgsFunctionTypeParamKindIdentifier)
			gotVarArgs := gotFn.Params.(ast.VarArgsFunctionTypeParamKindIdentifier)

			if len(expectedVarArgs.ParamTypes) != len(gotVarArgs.ParamTypes) {
				return newCompatibilityErr(
					diagnostic.Diagnostic{
						Level:   diagnostic.DiagnosticLevelError,
						Message: fmt.Sprintf("Expected %d leading parameter(s), found %d", len(expectedVarArgs.ParamTypes), len(gotVarArgs.ParamTypes)),
						Notes:   nil,
						Span:    gotFn.ParamsSpan,
					},
					nil,
				)
			}

			for idx, expectedParamType := range expectedVarArgs.ParamTypes {
				if err := self.TypeCheck(gotVarArgs.ParamTypes[idx], expectedParamType, options); err != nil {
					return err
				}
			}

			if expectedVarArgs.RemainingType != nil && gotVarArgs.RemainingType != nil {
				if err := self.TypeCheck(gotVarArgs.RemainingType, expectedVarArgs.RemainingType, options); err != nil {
					return err
				}
			}
""")],
 "analyzer: TypeCheck panics with 'TODO: implement or remove this' as soon as two function types with variadic parameters meet (`print == println`, `print - print`, `let f: ... = print` against another builtin); compare the leading parameter types and the type of the remaining arguments instead (C05 HOST-PANIC:analyzer.(*Analyzer).TypeCheck:TODO: implement or remove this)")

mkfix('analyzer-unknown-imported-trigger-is-not-registered', 'homescript/analyzer/topLevel.go', [
("""						fmt.Sprintf("No trigger named '%s' found in module '%s'", item.Ident, node.FromModule),
						nil,
						item.Span,
					)

					if _, prevFound := self.currentModule.addTrigger(item.Ident, trigg); prevFound {
						self.error(fmt.Sprintf("Trigger '%s' already exists in current scope", item.Ident), nil, item.Span)
					}
					continue
""","""						fmt.Sprintf("No trigger named '%s' found in module '%s'", item.Ident, node.FromModule),
						nil,
						item.Span,
					)

					continue
""")],
 "analyzer: `import trigger t from m;` where module m has no trigger `t` reports the error but still registers the zero-value TriggerFunction under that name; the next use panics the host (`#[trigger in t(..)]`: 'trigger return type is <nil>', `trigger f on t(..);`: 'Param type cannot be <nil>'); do not register what was not found, later uses then get the ordinary 'undefined trigger' diagnostic (C05 HOST-PANIC:analyzer.(*Analyzer).analyzeFnAnnotation:trigger return type is <nil>, HOST-PANIC:analyzer/ast.NewFunctionType:Param type cannot be <nil>)")
