#!/bin/sh
# usage: tools/iso.sh <command...>
# Runs a command with PRIVATE copies of /repo and /verif bind-mounted over the real ones (mount
# namespace): seeded changes and reverted fixes can be tried while /repo itself stays untouched.
# Results must be written under /tmp (shared); the copies are removed afterwards.
S=/tmp/iso.$$
rm -rf "$S"; mkdir -p "$S" || exit 2
cp -a /repo "$S/repo" && cp -a /verif "$S/verif" || exit 2
unshare -m sh -c "mount --bind $S/repo /repo && mount --bind $S/verif /verif && cd /verif && $*"
rc=$?
rm -rf "$S"
exit $rc
