#!/bin/sh
# usage: tools/trymut.sh <patch.diff> <check id>...
# Applies the patch to /repo, verifies that it builds and that the repository's own tests pass,
# runs the given quick checks, and restores /repo. Prints one line per check.
P="$1"; shift
cd /repo || exit 2
if [ -n "$(git status --porcelain)" ]; then echo "repo not clean"; exit 2; fi
git apply "$P" || { echo "patch does not apply"; exit 2; }
export GOFLAGS=-mod=mod GOPROXY=off GOSUMDB=off GOTOOLCHAIN=local
if ! go build ./... 2>/tmp/trymut.build; then echo "BUILD FAILS"; head -5 /tmp/trymut.build; fi
T=$(go test -count=1 ./... 2>&1 | grep -v "no test files" | grep -v "^ok" | head -5)
if [ -n "$T" ]; then echo "REPO TESTS FAIL: $T"; else echo "repo tests pass"; fi
# the evidence files describe the unchanged tree: keep them out of reach of these runs
EVB=$(mktemp -d /tmp/trymut.ev.XXXXXX); cp -a /verif/evidence/. "$EVB"/
for c in "$@"; do
  OUT=$(cd /verif && ./check "$c" quick 2>&1)
  RC=$?
  N=$(echo "$OUT" | grep -c "^VIOLATION")
  echo "$c exit=$RC violation_lines=$N :: $(echo "$OUT" | grep -A1 '^VIOLATION' | grep 'class=' | head -3 | cut -c1-160 | tr '\n' '|')"
done
cp -a "$EVB"/. /verif/evidence/; rm -rf "$EVB"
cd /repo && git checkout -- . && git clean -fdq
[ -z "$(git status --porcelain)" ] && echo "repo restored"
