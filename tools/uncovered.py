#!/usr/bin/env python3
"""usage: tools/uncovered.py <path substring>...   (after tools/cover.sh)
Prints the source of the blocks of /repo that no case reached (profile /tmp/hmscov.repo.txt)."""
import sys, re, collections
pats = sys.argv[1:]
cov = collections.defaultdict(dict)
for l in open('/tmp/hmscov.repo.txt'):
    m = re.match(r'(.+):(\d+)\.(\d+),(\d+)\.(\d+) (\d+) (\d+)', l)
    if not m: continue
    f = m.group(1).replace('github.com/smarthome-go/homescript/v3/', '')
    k = (int(m.group(2)), int(m.group(4)))
    cov[f][k] = max(cov[f].get(k, 0), int(m.group(7)))
for f in sorted(cov):
    if pats and not any(p in f for p in pats): continue
    try: src = open('/repo/' + f).read().split('\n')
    except OSError: continue
    un = sorted(k for k, c in cov[f].items() if c == 0)
    if not un: continue
    print('==', f, '(%d of %d blocks unreached)' % (len(un), len(cov[f])))
    for a, b in un:
        print('  %d-%d: %s' % (a, b, ' | '.join(s.strip() for s in src[a-1:min(b, a+2)])[:160]))
