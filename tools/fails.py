#!/usr/bin/env python3
"""Summarise a VERIF_DUMP file: groups by (class, tags) with one example."""
import json, sys, collections
g = collections.OrderedDict()
for l in open(sys.argv[1]):
    d = json.loads(l)
    k = (d['class'], ' '.join(d.get('tags') or []))
    g.setdefault(k, []).append(d)
full = len(sys.argv) > 2
for (c, t), ds in sorted(g.items(), key=lambda kv: (kv[0][0], len(kv[1][0]['case']))):
    print(f"{len(ds):5d} {c} [{t}]")
    if full:
        print("      " + ds[0]['detail'][:400].replace('\n', '\n      '))
