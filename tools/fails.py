#!/usr/bin/env python3
"""Summarise a VERIF_DUMP file: unlisted failures grouped by (class, tags).
usage: fails.py dump.jsonl [--full N] [--known]"""
import json, sys, collections
args = sys.argv[1:]
full = int(args[args.index('--full') + 1]) if '--full' in args else 0
known = '--known' in args
g = collections.OrderedDict()
for l in open(args[0]):
    d = json.loads(l)
    if ('known' in d) != known:
        continue
    k = (d['class'], ' '.join(d.get('tags') or []))
    g.setdefault(k, []).append(d)
n = 0
for (c, t), ds in sorted(g.items(), key=lambda kv: (kv[0][0], len(kv[1][0]['case']))):
    n += 1
    if n > 60:
        print('...', len(g) - 60, 'more groups'); break
    print(f"{len(ds):5d} {c[:110]} [{t}]" + (f" known={ds[0]['known']}" if known else ''))
    if n <= full:
        print("      case: " + ds[0]['case'][:900].replace('\n', '\n      '))
        print("      detail: " + ds[0]['detail'][:500].replace('\n', '\n      '))
