// Package reflex is the reference lexer of the verification suite: grammar.ebnf (section
// "Tokens") transcribed into a boring scanner over its own data types. It knows nothing
// about the repository's lexer; C06 compares the two token streams, C05/C07 use it to cut
// texts at token granularity.
//
// What the reference prescribes
//   - whitespace = space, tab, CR, LF; `// ...` up to (not including) LF or end of input and
//     `/* ... */` are comments;
//   - operators and punctuation are matched longest-first from the token inventory;
//   - ident = LETTER {LETTER|DIGIT} with LETTER = A-Z a-z _ ; a word of the keyword table is
//     a keyword (`on`/`off` are spellings of `true`/`false`, `_` alone is the underscore token);
//   - number = DIGIT {DIGIT|'_'} ['f' | '.' DIGIT {DIGIT|'_'}]; the value is the text without
//     `_` and without the `f` suffix; the kind is float iff a suffix or a fraction is present;
//   - strings are delimited by equal quotes, may contain any character but the quote and the
//     backslash, and the escapes \\ \b \n \r \t \ooo \xHH \uHHHH \UHHHHHHHH (grammar) plus
//     \" and \' (implemented on purpose by the repository, adopted here);
//   - the span of a token is the inclusive range of its lexeme: 1-based line and column,
//     0-based rune index; a LF ends a line; EOF is an empty token at the position after the
//     last rune.
//
// What it leaves open: escapes that do not denote a Unicode scalar value (surrogates,
// > 0x10FFFF) are reported through Result.Masked and never judged. A block comment that is not
// closed before the end of input (Result.OpenComment) may either be rejected or extend to the
// end of the text - but no character behind the `/*` may become a token, because then `/*`
// would neither be tokens nor a comment.
package reflex

import (
	"strconv"
	"strings"
)

// Pos is a position in the text.
type Pos struct{ Line, Col, Idx int }

// Tok is one reference token.
type Tok struct {
	Kind  string // lexeme of an operator, canonical keyword, or int|float|string|identifier|EOF
	Value string // decoded value (numbers: digits, strings: content) or the lexeme
	Text  string // the lexeme as written
	Start Pos
	End   Pos // inclusive
	File  string
}

// LexErr is the reference's verdict "this text is not a token sequence".
type LexErr struct {
	At   Pos // first rune of the construct that is not a token
	What string
}

// Result of lexing one text. Toks holds the tokens before Err (all tokens incl. EOF if Err is nil).
type Result struct {
	Toks   []Tok
	Err    *LexErr
	Masked []string
	// OpenComment is the position of a `/*` that is not closed before the end of the text. The
	// reference then treats the rest of the text as comment (Toks ends with EOF at the end of
	// the text); rejecting the text is an equally acceptable reading (see package comment).
	OpenComment *Pos
}

// Operators is the operator/punctuation inventory, longest first.
var Operators = []string{
	"<<=", ">>=", "**=",
	"..", "->", "=>", "~>", "||", "&&", "==", "!=", "<=", ">=", "**", "<<", ">>",
	"+=", "-=", "*=", "/=", "%=", "|=", "&=", "^=",
	"#", "?", "@", "$", ";", ",", ":", ".", "(", ")", "{", "}", "[", "]",
	"!", "<", ">", "+", "-", "*", "/", "%", "|", "&", "^", "=",
}

// Keywords maps a reserved word to its canonical token kind.
var Keywords = map[string]string{
	"true": "true", "on": "true", "false": "false", "off": "false", "null": "null", "none": "none",
	"pub": "pub", "fn": "fn", "if": "if", "else": "else", "match": "match", "for": "for", "while": "while",
	"loop": "loop", "break": "break", "continue": "continue", "return": "return", "import": "import",
	"as": "as", "from": "from", "let": "let", "in": "in", "type": "type", "try": "try", "catch": "catch",
	"new": "new", "spawn": "spawn", "event": "event", "impl": "impl", "with": "with", "templ": "templ",
	"trigger": "trigger", "_": "_",
}

func isDigit(r rune) bool  { return r >= '0' && r <= '9' }
func isLetter(r rune) bool { return (r >= 'a' && r <= 'z') || (r >= 'A' && r <= 'Z') || r == '_' }
func isHex(r rune) bool {
	return isDigit(r) || (r >= 'a' && r <= 'f') || (r >= 'A' && r <= 'F')
}
func isOct(r rune) bool { return r >= '0' && r <= '7' }

// IsSpace reports whether r is whitespace of the language.
func IsSpace(r rune) bool { return r == ' ' || r == '\n' || r == '\t' || r == '\r' }

type scanner struct {
	rs        []rune
	i         int
	line, col int
}

func (s *scanner) pos() Pos { return Pos{s.line, s.col, s.i} }
func (s *scanner) adv() {
	if s.rs[s.i] == '\n' {
		s.line++
		s.col = 1
	} else {
		s.col++
	}
	s.i++
}
func (s *scanner) at(k int) rune {
	if s.i+k < len(s.rs) {
		return s.rs[s.i+k]
	}
	return -1
}

// Lex scans src.
func Lex(src, file string) Result {
	s := &scanner{rs: []rune(src), line: 1, col: 1}
	var res Result
	fail := func(at Pos, what string) Result {
		res.Err = &LexErr{At: at, What: what}
		return res
	}
	mask := func(m string) {
		for _, x := range res.Masked {
			if x == m {
				return
			}
		}
		res.Masked = append(res.Masked, m)
	}
	for s.i < len(s.rs) {
		r := s.rs[s.i]
		if IsSpace(r) {
			s.adv()
			continue
		}
		if r == '/' && s.at(1) == '/' {
			for s.i < len(s.rs) && s.rs[s.i] != '\n' {
				s.adv()
			}
			continue
		}
		if r == '/' && s.at(1) == '*' {
			open := s.pos()
			s.adv()
			s.adv()
			closed := false
			for s.i < len(s.rs) {
				if s.rs[s.i] == '*' && s.at(1) == '/' {
					s.adv()
					s.adv()
					closed = true
					break
				}
				s.adv()
			}
			if !closed {
				res.OpenComment = &open
			}
			continue
		}
		start := s.pos()
		// consume n runes as one token
		emit := func(kind, val string, n int) {
			var end Pos
			from := s.i
			for k := 0; k < n; k++ {
				end = s.pos()
				s.adv()
			}
			res.Toks = append(res.Toks, Tok{Kind: kind, Value: val, Text: string(s.rs[from : from+n]), Start: start, End: end, File: file})
		}
		switch {
		case isDigit(r):
			j := s.i
			for j < len(s.rs) && (isDigit(s.rs[j]) || s.rs[j] == '_') {
				j++
			}
			intEnd := j
			kind := "int"
			val := string(s.rs[s.i:intEnd])
			if j < len(s.rs) && s.rs[j] == 'f' {
				j++
				kind = "float"
			} else if j+1 < len(s.rs) && s.rs[j] == '.' && isDigit(s.rs[j+1]) {
				j++
				for j < len(s.rs) && (isDigit(s.rs[j]) || s.rs[j] == '_') {
					j++
				}
				kind = "float"
				val = string(s.rs[s.i:j])
			}
			emit(kind, strings.ReplaceAll(val, "_", ""), j-s.i)
		case isLetter(r):
			j := s.i
			for j < len(s.rs) && (isLetter(s.rs[j]) || isDigit(s.rs[j])) {
				j++
			}
			text := string(s.rs[s.i:j])
			kind := "identifier"
			if k, found := Keywords[text]; found {
				kind = k
			}
			emit(kind, text, j-s.i)
		case r == '"' || r == '\'':
			q := r
			j := s.i + 1
			var val []rune
			closed := false
			for j < len(s.rs) {
				c := s.rs[j]
				if c == q {
					closed = true
					break
				}
				if c != '\\' {
					val = append(val, c)
					j++
					continue
				}
				j++
				if j >= len(s.rs) {
					return fail(start, "unfinished escape sequence")
				}
				e := s.rs[j]
				switch e {
				case '\\':
					val = append(val, '\\')
					j++
				case 'b':
					val = append(val, '\b')
					j++
				case 'n':
					val = append(val, '\n')
					j++
				case 'r':
					val = append(val, '\r')
					j++
				case 't':
					val = append(val, '\t')
					j++
				case '"', '\'':
					val = append(val, e)
					j++
				case 'x', 'u', 'U':
					n := map[rune]int{'x': 2, 'u': 4, 'U': 8}[e]
					j++
					if j+n > len(s.rs) {
						return fail(start, "invalid escape sequence")
					}
					for k := 0; k < n; k++ {
						if !isHex(s.rs[j+k]) {
							return fail(start, "invalid escape sequence")
						}
					}
					code, _ := strconv.ParseUint(string(s.rs[j:j+n]), 16, 64)
					if code > 0x10FFFF || (code >= 0xD800 && code <= 0xDFFF) {
						mask("escape-not-a-scalar-value")
						code = 0xFFFD
					}
					val = append(val, rune(code))
					j += n
				default:
					if !isOct(e) || j+3 > len(s.rs) || !isOct(s.rs[j+1]) || !isOct(s.rs[j+2]) {
						return fail(start, "invalid escape sequence")
					}
					code, _ := strconv.ParseUint(string(s.rs[j:j+3]), 8, 32)
					val = append(val, rune(code))
					j += 3
				}
			}
			if !closed {
				return fail(start, "string literal never closed")
			}
			emit("string", string(val), j+1-s.i)
		default:
			matched := false
			for _, op := range Operators {
				n := len(op) // operators are ASCII
				if s.i+n <= len(s.rs) && string(s.rs[s.i:s.i+n]) == op {
					emit(op, op, n)
					matched = true
					break
				}
			}
			if !matched {
				return fail(start, "illegal character")
			}
		}
	}
	p := s.pos()
	res.Toks = append(res.Toks, Tok{Kind: "EOF", Value: "EOF", Start: p, End: p, File: file})
	return res
}

// Feature names the input feature a token stands for (used as failure tag).
func Feature(t Tok) string {
	switch t.Kind {
	case "EOF":
		return "tok:EOF"
	case "identifier":
		return "tok:identifier"
	case "string":
		f := "tok:string"
		if strings.ContainsRune(t.Text, '\\') {
			f = "tok:string-with-escape"
		}
		if strings.ContainsRune(t.Text, '\n') {
			f += "-multiline"
		}
		return f
	case "int", "float":
		f := "num:" + t.Kind
		if strings.HasSuffix(t.Text, "f") {
			f += "-f-suffix"
		}
		if strings.ContainsRune(t.Text, '_') {
			f += "-with-underscore"
		}
		return f
	}
	if _, kw := Keywords[t.Text]; kw {
		return "kw:" + t.Text
	}
	return "op:" + t.Kind
}

// RuneName names a rune for tags (`char:tab`, `char:U+00E9`, ...).
func RuneName(r rune) string {
	switch r {
	case ' ':
		return "space"
	case '\t':
		return "tab"
	case '\r':
		return "cr"
	case '\n':
		return "lf"
	case 0:
		return "nul"
	case -1:
		return "eof"
	}
	if r > 0x20 && r < 0x7f {
		return string(r)
	}
	return "U+" + strings.ToUpper(strconv.FormatInt(int64(r), 16))
}
