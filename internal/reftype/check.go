package reftype

import (
	"strings"

	"hmsverif/internal/hs"
)

// ---------------------------------------------------------------- items

func (c *checker) typeDef(td *hs.TypeDef) {
	t := c.resolve(td.T, td)
	if _, dup := c.top().types[td.Name]; dup {
		c.viol(RDup, td, "type '%s' declared twice in one scope", td.Name)
		return
	}
	c.top().types[td.Name] = &typeInfo{t: t, pub: td.Pub}
}

func (c *checker) importItem(im *hs.Import) {
	lib, isCode := c.env.Modules[im.From]
	var tm map[string]*Template
	var tr map[string]*Trigger
	if c.env.Host != nil {
		tm = c.env.Host.Templates[im.From]
		tr = c.env.Host.Triggers[im.From]
	}
	if !isCode && tm == nil && tr == nil {
		c.viol(RImport, im, "module '%s' not found", im.From)
		// names are still bound (as unknown) so that later uses do not cascade
		for _, n := range im.Names {
			kind, name := splitImport(n)
			switch kind {
			case "type":
				c.top().types[name] = &typeInfo{t: TUnknown}
			case "":
				c.top().vars[name] = &varInfo{t: TUnknown}
			}
		}
		return
	}
	var lm *module
	if isCode {
		if lib == c.m.prog {
			c.unsupported("self import")
			return
		}
		lm = c.module(im.From, false)
	}
	for _, n := range im.Names {
		kind, name := splitImport(n)
		switch kind {
		case "type":
			var ti *typeInfo
			if lm != nil {
				ti = lm.scopes[0].types[name]
			}
			if ti == nil {
				c.viol(RImport, im, "no type '%s' in module '%s'", name, im.From)
				ti = &typeInfo{t: TUnknown}
			} else if !ti.pub {
				c.viol(RImport, im, "type '%s' is not pub", name)
			}
			if _, dup := c.top().types[name]; dup {
				c.viol(RDup, im, "type '%s' already exists", name)
				continue
			}
			c.top().types[name] = &typeInfo{t: ti.t}
		case "templ":
			t := tm[name]
			if t == nil && lm != nil {
				t = lm.templates[name]
			}
			if t == nil {
				c.viol(RImport, im, "no template '%s' in module '%s'", name, im.From)
				continue
			}
			if _, dup := c.m.templates[name]; dup {
				c.viol(RDup, im, "template '%s' already exists", name)
				continue
			}
			c.m.templates[name] = t
		case "trigger":
			t := tr[name]
			if t == nil && lm != nil {
				t = lm.triggers[name]
			}
			if t == nil {
				c.viol(RImport, im, "no trigger '%s' in module '%s'", name, im.From)
				continue
			}
			if _, dup := c.m.triggers[name]; dup {
				c.viol(RDup, im, "trigger '%s' already exists", name)
				continue
			}
			c.m.triggers[name] = t
		default:
			var vt *hs.Type
			if lm != nil {
				if f, ok := lm.funcs[name]; ok {
					vt = f.t
					if !f.decl.Pub {
						c.viol(RImport, im, "function '%s' is not pub", name)
					}
				} else if v, ok := lm.scopes[0].vars[name]; ok && !c.isHostName(name) {
					vt = v.t
					if !v.pub {
						c.viol(RImport, im, "variable '%s' is not pub", name)
					}
				}
			}
			if vt == nil {
				c.viol(RImport, im, "no variable or function '%s' in module '%s'", name, im.From)
				vt = TUnknown
			}
			if _, dup := c.top().vars[name]; dup {
				c.viol(RDup, im, "name '%s' already exists", name)
				continue
			}
			c.top().vars[name] = &varInfo{t: vt}
		}
	}
}

func (c *checker) isHostName(n string) bool {
	if c.env.Host == nil {
		return false
	}
	_, a := c.env.Host.VarArgs[n]
	_, b := c.env.Host.Funcs[n]
	return a || b || n == "throw"
}

func splitImport(n string) (kind, name string) {
	for _, k := range []string{"type", "templ", "trigger"} {
		if strings.HasPrefix(n, k+" ") {
			return k, strings.TrimSpace(n[len(k)+1:])
		}
	}
	return "", n
}

// quietly runs f with violations discarded (signatures are resolved twice; errors are
// reported by the definition pass only).
func (c *checker) quietly(f func()) {
	n := len(c.res.Violations)
	f()
	c.res.Violations = c.res.Violations[:n]
}

func (c *checker) signature(f *hs.Func) {
	t := &hs.Type{K: hs.KFn}
	c.quietly(func() {
		seenNormal := false
		for _, p := range f.Params {
			if p.Single != "" {
				if seenNormal {
					c.unsupported("singleton extraction after a normal parameter")
				}
				st := c.m.singles[p.Single]
				if st == nil {
					st = TUnknown
				}
				t.Params = append(t.Params, hs.Field{Name: p.Name, T: st})
				t.Singles++
				continue
			}
			seenNormal = true
			t.Params = append(t.Params, hs.Field{Name: p.Name, T: c.resolve(p.T, f)})
		}
		t.Ret = c.resolve(f.Ret, f)
	})
	if _, dup := c.m.funcs[f.Name]; dup {
		c.viol(RDup, f, "function '%s' defined twice", f.Name)
		return // the first definition stays the one calls refer to
	}
	c.m.funcs[f.Name] = &fnInfo{decl: f, t: t}
	c.m.fnOrder = append(c.m.fnOrder, f.Name)
}

// annotations: `allow_unused` is the only identifier; a trigger item registers the annotated
// function as the callback (same rules as the trigger statement, arguments in module scope).
func (c *checker) annotations(f *hs.Func) {
	for _, a := range f.Annots {
		if a.Trig == nil {
			if a.Ident != "allow_unused" {
				c.viol(RTrigger, f, "illegal annotation '%s'", a.Ident)
			}
			continue
		}
		n := a.Trig
		tr := c.m.triggers[n.Event]
		if tr == nil {
			c.viol(RTrigger, n, "trigger '%s' is not imported", n.Event)
		}
		if !f.Event {
			c.viol(RTrigger, n, "annotated function '%s' lacks the event modifier", f.Name)
		}
		cb := c.m.funcs[f.Name]
		if tr == nil || cb == nil {
			for _, x := range n.Args {
				c.expr(x, false)
			}
			continue
		}
		want := &hs.Type{K: hs.KFn, Params: tr.Callback, Ret: hs.TNull}
		if cb.t.Singles > 0 {
			c.unsupported("trigger callback extracting a singleton")
		}
		if !compat(cb.t, want, copts{allowFn: true, ignoreNames: true}) {
			c.viol(RTrigger, n, "annotated function '%s' is %s, trigger '%s' calls %s", f.Name, TypeString(cb.t), n.Event, TypeString(want))
		}
		c.args(n, &hs.Type{K: hs.KFn, Params: tr.Args, Ret: hs.TNull}, n.Args, false)
	}
}

func (c *checker) function(f *hs.Func) {
	c.annotations(f)
	retT := c.resolve(f.Ret, f)
	c.push()
	seen := map[string]bool{}
	seenSingle := map[string]bool{}
	for _, p := range f.Params {
		if p.Single != "" {
			st := c.m.singles[p.Single]
			if st == nil {
				c.viol(RUnknownType, f, "singleton '$%s' is not declared", p.Single)
				st = TUnknown
			}
			if seenSingle[p.Single] {
				c.viol(RDup, f, "singleton '$%s' extracted twice", p.Single)
			}
			seenSingle[p.Single] = true
			if _, ok := c.top().vars[p.Name]; !ok {
				c.top().vars[p.Name] = &varInfo{t: st}
			}
			continue
		}
		if f.Name == "main" {
			continue
		}
		if seen[p.Name] {
			c.viol(RDup, f, "parameter '%s' declared twice", p.Name)
		}
		seen[p.Name] = true
		pt := c.resolve(p.T, f)
		if _, ok := c.top().vars[p.Name]; !ok {
			c.top().vars[p.Name] = &varInfo{t: pt}
		}
	}
	if f.Name == "main" {
		n := 0
		for _, p := range f.Params {
			if p.Single == "" {
				n++
			}
		}
		if n > 0 {
			c.viol(RMain, f, "'main' must have 0 parameters")
		}
		if retT.K != hs.KNull && retT.K != KUnknown {
			c.viol(RMain, f, "'main' must return null")
			retT = TUnknown
		}
		if f.Pub || f.Event {
			c.unsupported("modifier on main")
		}
	}
	saveCur, saveDepth, saveTerm := c.m.cur, c.m.loopDepth, c.m.loopTerm
	c.m.cur, c.m.loopDepth, c.m.loopTerm = &fnCtx{ret: retT, name: f.Name}, 0, false
	bt := c.block(f.Body, false)
	if !compat(bt, retT, copts{allowFn: true}) {
		c.viol(RReturn, f, "body of '%s' yields %s, declared %s", f.Name, TypeString(bt), TypeString(retT))
	}
	c.m.cur, c.m.loopDepth, c.m.loopTerm = saveCur, saveDepth, saveTerm
	c.pop()
}

func (c *checker) implBlock(ib *hs.ImplBlock) {
	if _, ok := c.m.singles[ib.Singleton]; !ok {
		c.viol(RImpl, ib, "singleton '$%s' is not declared", ib.Singleton)
	}
	for _, f := range ib.Methods {
		c.function(f)
	}
	tmpl := c.m.templates[ib.Template]
	if tmpl == nil {
		c.viol(RImpl, ib, "template '%s' not found", ib.Template)
		return
	}
	caps := map[string]bool{}
	for _, d := range tmpl.Default {
		caps[d] = true
	}
	for _, cn := range ib.Caps {
		if _, ok := tmpl.Capabilities[cn]; !ok {
			c.viol(RImpl, ib, "capability '%s' not found on template '%s'", cn, ib.Template)
			continue
		}
		caps[cn] = true
	}
	conflict := false
	for cn := range caps {
		for _, other := range tmpl.Capabilities[cn].Conflicts {
			if caps[other] {
				conflict = true
			}
		}
	}
	if conflict {
		c.viol(RImpl, ib, "conflicting capabilities")
		return
	}
	required := map[string]TemplateMethod{}
	for cn := range caps {
		for _, mn := range tmpl.Capabilities[cn].Requires {
			required[mn] = tmpl.Methods[mn]
		}
	}
	for name, req := range required {
		var impl *hs.Func
		for _, f := range ib.Methods {
			if f.Name == name {
				impl = f
				break
			}
		}
		if impl == nil {
			c.viol(RImpl, ib, "method '%s' is missing", name)
			continue
		}
		var normal []hs.Param
		extracts := false
		for _, p := range impl.Params {
			if p.Single != "" {
				if p.Single == ib.Singleton {
					extracts = true
				}
				continue
			}
			normal = append(normal, p)
		}
		if len(normal) != len(req.Params) {
			c.viol(RImpl, impl, "method '%s': expected %d parameters, got %d", name, len(req.Params), len(normal))
			continue
		}
		for i, rp := range req.Params {
			if normal[i].Name != rp.Name {
				c.viol(RImpl, impl, "method '%s': expected parameter '%s', got '%s'", name, rp.Name, normal[i].Name)
				break
			}
			var pt *hs.Type
			c.quietly(func() { pt = c.resolve(normal[i].T, impl) })
			if !compat(pt, rp.T, copts{allowFn: true}) {
				c.viol(RImpl, impl, "method '%s': parameter '%s' has type %s, expected %s", name, rp.Name, TypeString(pt), TypeString(rp.T))
				break
			}
		}
		if !extracts {
			c.viol(RImpl, impl, "method '%s' does not extract singleton '$%s'", name, ib.Singleton)
		}
		var rt *hs.Type
		c.quietly(func() { rt = c.resolve(impl.Ret, impl) })
		want := req.Ret
		if want == nil {
			want = hs.TNull
		}
		if !compat(rt, want, copts{allowFn: true}) {
			c.viol(RImpl, impl, "method '%s' returns %s, expected %s", name, TypeString(rt), TypeString(want))
		}
		mod := ""
		if impl.Pub {
			mod = "pub"
		} else if impl.Event {
			mod = "event"
		}
		if mod != req.Mod {
			c.viol(RImpl, impl, "method '%s' has modifier '%s', expected '%s'", name, mod, req.Mod)
		}
	}
	for _, f := range ib.Methods {
		if _, ok := required[f.Name]; !ok {
			c.viol(RImpl, f, "method '%s' is not part of template '%s'", f.Name, ib.Template)
		}
	}
}

// ---------------------------------------------------------------- statements

func (c *checker) block(b *hs.Block, pushScope bool) *hs.Type {
	t := c.block1(b, pushScope)
	c.res.BlockTypes[b] = t
	return t
}

func (c *checker) block1(b *hs.Block, pushScope bool) *hs.Type {
	if pushScope {
		c.push()
		defer c.pop()
	}
	never := false
	for _, s := range b.Stmts {
		if c.stmt(s).K == hs.KNever {
			never = true
		}
	}
	var tail *hs.Type
	if b.Tail != nil {
		tail = c.expr(b.Tail, false)
	}
	switch {
	case never:
		return hs.TNever
	case tail != nil:
		return tail
	}
	return hs.TNull
}

func (c *checker) let(n *hs.Let, global bool) {
	xt := c.expr(n.X, true)
	force := false
	if global && !constant(n.X) {
		c.viol(RGlobalConst, n, "initialiser of global '%s' is not constant", n.Name)
		force = true
	}
	hasAny := ContainsAny(xt)
	vt := xt
	if n.T != nil {
		at := c.resolve(n.T, n)
		if !compat(xt, at, copts{allowFn: !hasAny}) {
			c.viol(RLet, n, "'%s' annotated %s, initialiser is %s", n.Name, TypeString(at), TypeString(xt))
		} else {
			vt = at
		}
	} else if hasAny {
		c.viol(RAny, n, "'%s' needs a type annotation (initialiser is %s)", n.Name, TypeString(xt))
		force = true
	}
	if xt.K == hs.KNull && n.T == nil {
		c.unsupported("let with a null-typed initialiser")
	}
	if _, isSpawn := n.X.(*hs.Spawn); isSpawn {
		c.unsupported("thread handle bound to a variable")
	}
	if force {
		vt = TUnknown
	}
	c.res.VarTypes[n] = vt
	if global {
		if _, dup := c.top().vars[n.Name]; dup {
			c.viol(RDup, n, "global '%s' defined twice", n.Name)
		}
	}
	c.top().vars[n.Name] = &varInfo{t: vt, pub: n.Pub}
}

func (c *checker) stmt(s hs.Stmt) *hs.Type {
	switch n := s.(type) {
	case *hs.Let:
		c.let(n, false)
	case *hs.TypeDef:
		c.typeDef(n)
	case *hs.Return:
		t := hs.TNull
		if n.X != nil {
			t = c.expr(n.X, false)
		}
		if c.m.cur == nil {
			c.unsupported("return outside of a function")
		} else if !compat(t, c.m.cur.ret, copts{allowFn: true}) {
			c.viol(RReturn, n, "return of %s in a function returning %s", TypeString(t), TypeString(c.m.cur.ret))
		}
		return hs.TNever
	case *hs.Break:
		if c.m.loopDepth == 0 {
			c.viol(RBreak, n, "break outside of a loop")
		}
		c.m.loopTerm = true
		return hs.TNever
	case *hs.Continue:
		if c.m.loopDepth == 0 {
			c.viol(RContinue, n, "continue outside of a loop")
		}
		return hs.TNever
	case *hs.Loop:
		save := c.m.loopTerm
		c.m.loopTerm = false
		c.m.loopDepth++
		before := c.neverExprs
		bt := c.block(n.Body, true)
		c.m.loopDepth--
		term := c.m.loopTerm
		c.m.loopTerm = save
		c.loopBody(bt, n)
		if !term {
			if c.neverExprs != before {
				// whether a diverging expression inside the body ends the loop is not
				// something the rules settle
				c.unsupported("diverging expression inside a loop without break")
			}
			return hs.TNever
		}
	case *hs.While:
		ct := c.expr(n.Cond, false)
		if !compat(ct, hs.TBool, copts{allowFn: true}) {
			c.viol(RCond, n, "while condition is %s", TypeString(ct))
		}
		save := c.m.loopTerm
		c.m.loopDepth++
		bt := c.block(n.Body, true)
		c.m.loopDepth--
		c.m.loopTerm = save
		c.loopBody(bt, n)
	case *hs.For:
		it := c.expr(n.Iter, false)
		vt := TUnknown
		switch it.K {
		case hs.KRange:
			vt = hs.TInt
		case hs.KStr:
			vt = hs.TStr
		case hs.KList:
			vt = it.Elem
		case KUnknown, hs.KNever:
		default:
			c.viol(RIter, n, "%s is not iterable", TypeString(it))
		}
		save := c.m.loopTerm
		c.m.loopDepth++
		c.push()
		c.top().vars[n.Var] = &varInfo{t: vt}
		bt := c.block(n.Body, false)
		c.pop()
		c.m.loopDepth--
		c.m.loopTerm = save
		c.loopBody(bt, n)
	case *hs.ExprStmt:
		return c.expr(n.X, false)
	case *hs.Trigger:
		c.trigger(n)
	case *hs.RawStmt:
		c.unsupported("raw statement")
	}
	return hs.TNull
}

func (c *checker) loopBody(bt *hs.Type, n any) {
	switch bt.K {
	case hs.KNull, hs.KNever, KUnknown:
	default:
		c.viol(RLoopBody, n, "loop body yields %s", TypeString(bt))
	}
}

func (c *checker) trigger(n *hs.Trigger) {
	tr := c.m.triggers[n.Event]
	if tr == nil {
		c.viol(RTrigger, n, "trigger '%s' is not imported", n.Event)
	}
	cb, ok := c.m.funcs[n.Callback]
	if !ok {
		c.viol(RTrigger, n, "callback '%s' is not defined", n.Callback)
		for _, a := range n.Args {
			c.expr(a, false)
		}
		return
	}
	if c.m.cur != nil && c.m.cur.name == n.Callback {
		c.viol(RTrigger, n, "function triggers itself")
	}
	if !cb.decl.Event {
		c.viol(RTrigger, n, "callback '%s' lacks the event modifier", n.Callback)
	}
	if tr == nil {
		return
	}
	want := &hs.Type{K: hs.KFn, Params: tr.Callback, Ret: hs.TNull}
	if cb.t.Singles > 0 {
		c.unsupported("trigger callback extracting a singleton")
	}
	if !compat(cb.t, want, copts{allowFn: true, ignoreNames: true}) {
		c.viol(RTrigger, n, "callback '%s' is %s, trigger '%s' calls %s", n.Callback, TypeString(cb.t), n.Event, TypeString(want))
	}
	c.args(n, &hs.Type{K: hs.KFn, Params: tr.Args, Ret: hs.TNull}, n.Args, false)
}

// ---------------------------------------------------------------- constants

func constant(e hs.Expr) bool {
	switch n := e.(type) {
	case *hs.IntLit, *hs.FloatLit, *hs.BoolLit, *hs.StrLit, *hs.NullLit, *hs.NoneLit, *hs.AnyObjLit:
		return true
	case *hs.RangeLit:
		return constant(n.From) && constant(n.To)
	case *hs.ListLit:
		for _, x := range n.Elems {
			if !constant(x) {
				return false
			}
		}
		return true
	case *hs.ObjLit:
		for _, f := range n.Fields {
			if !constant(f.X) {
				return false
			}
		}
		return true
	case *hs.Group:
		return constant(n.X)
	case *hs.Prefix:
		return constant(n.X)
	case *hs.Infix:
		return constant(n.L) && constant(n.R)
	case *hs.Cast:
		return constant(n.X)
	case *hs.Index:
		return constant(n.X) && constant(n.I)
	case *hs.Member:
		return constant(n.X)
	case *hs.BlockExpr:
		return len(n.B.Stmts) == 0 && n.B.Tail != nil && constant(n.B.Tail)
	}
	return false
}

// ---------------------------------------------------------------- expressions

func (c *checker) expr(e hs.Expr, anyOK bool) *hs.Type {
	t := c.expr1(e)
	if t.K == hs.KNever {
		c.neverExprs++
	}
	if !anyOK && ContainsAny(t) && t.K != hs.KFn && t.K != hs.KOpt {
		c.viol(RAny, e, "expression of type %s needs an explicit type", TypeString(t))
		t = TUnknown
	}
	c.res.Types[e] = t
	return t
}

func (c *checker) args(node any, ft *hs.Type, args []hs.Expr, spawn bool) {
	params := ft.Params[ft.Singles:]
	if len(args) != len(params) {
		c.viol(RArity, node, "function takes %d arguments, %d supplied", len(params), len(args))
		return
	}
	for i, a := range args {
		at := c.expr(a, false)
		if at.K == hs.KNull {
			c.unsupported("null-typed call argument")
			continue
		}
		if spawn && at.K == hs.KFn {
			c.unsupported("closure passed to spawn")
			continue
		}
		if !compat(at, params[i].T, copts{allowFn: true}) {
			c.viol(RArg, a, "argument %d is %s, parameter '%s' is %s", i+1, TypeString(at), params[i].Name, TypeString(params[i].T))
		}
	}
}

func (c *checker) expr1(e hs.Expr) *hs.Type {
	switch n := e.(type) {
	case *hs.IntLit:
		if n.V < 0 {
			c.unsupported("negative literal")
		}
		return hs.TInt
	case *hs.FloatLit:
		if n.V < 0 {
			c.unsupported("negative literal")
		}
		return hs.TFloat
	case *hs.BoolLit:
		return hs.TBool
	case *hs.StrLit:
		return hs.TStr
	case *hs.NullLit:
		return hs.TNull
	case *hs.NoneLit:
		return hs.TOpt(hs.TAny)
	case *hs.AnyObjLit:
		return hs.TAnyObj
	case *hs.Ident:
		if v := c.lookupVar(n.Name); v != nil {
			return v.t
		}
		if f, ok := c.m.funcs[n.Name]; ok {
			return f.t
		}
		if c.env.Host != nil {
			if _, ok := c.env.Host.VarArgs[n.Name]; ok || n.Name == "throw" {
				c.res.Opaque[e] = true
				return &hs.Type{K: hs.KFn, Name: "host:" + n.Name}
			}
			if t, ok := c.env.Host.Funcs[n.Name]; ok {
				c.res.Opaque[e] = true
				return t
			}
		}
		c.viol(RUnknownIdent, e, "'%s' is not defined", n.Name)
		return TUnknown
	case *hs.Single:
		if t, ok := c.m.singles[n.Name]; ok {
			return t
		}
		c.viol(RUnknownIdent, e, "singleton '$%s' is not declared", n.Name)
		return TUnknown
	case *hs.RangeLit:
		for _, b := range []hs.Expr{n.From, n.To} {
			if bt := c.expr(b, false); !compat(bt, hs.TInt, copts{}) {
				c.viol(RRange, b, "range bound is %s", TypeString(bt))
			}
		}
		return hs.TRange
	case *hs.ListLit:
		var lt *hs.Type
		for _, x := range n.Elems {
			xt := c.expr(x, false)
			if lt == nil {
				lt = xt
			} else if !compat(xt, lt, copts{allowFn: true}) {
				c.viol(RList, x, "list of %s holds a %s", TypeString(lt), TypeString(xt))
				lt = TUnknown
			}
		}
		if lt == nil {
			lt = hs.TAny
		}
		return hs.TList(lt)
	case *hs.ObjLit:
		out := &hs.Type{K: hs.KObj}
		seen := map[string]bool{}
		for _, f := range n.Fields {
			switch f.Name {
			case "keys", "to_json", "to_json_indent":
				c.unsupported("builtin member name used as a field")
			}
			if seen[f.Name] {
				c.viol(RDup, e, "field '%s' defined twice", f.Name)
				continue
			}
			seen[f.Name] = true
			out.Fields = append(out.Fields, hs.Field{Name: f.Name, T: c.expr(f.X, false)})
		}
		return out
	case *hs.FnLit:
		c.push()
		t := &hs.Type{K: hs.KFn}
		seen := map[string]bool{}
		for _, p := range n.Params {
			if seen[p.Name] {
				c.viol(RDup, e, "parameter '%s' declared twice", p.Name)
			}
			seen[p.Name] = true
			pt := c.resolve(p.T, e)
			t.Params = append(t.Params, hs.Field{Name: p.Name, T: pt})
			if _, ok := c.top().vars[p.Name]; !ok {
				c.top().vars[p.Name] = &varInfo{t: pt}
			}
		}
		t.Ret = c.resolve(n.Ret, e)
		saveCur, saveDepth, saveTerm, saveNever := c.m.cur, c.m.loopDepth, c.m.loopTerm, c.neverExprs
		c.m.cur, c.m.loopDepth, c.m.loopTerm = &fnCtx{ret: t.Ret}, 0, false
		bt := c.block(n.Body, false)
		if !compat(bt, t.Ret, copts{allowFn: true}) {
			c.viol(RReturn, e, "closure body yields %s, declared %s", TypeString(bt), TypeString(t.Ret))
		}
		c.m.cur, c.m.loopDepth, c.m.loopTerm, c.neverExprs = saveCur, saveDepth, saveTerm, saveNever
		c.pop()
		return t
	case *hs.Group:
		return c.expr(n.X, false)
	case *hs.Prefix:
		xt := c.expr(n.X, false)
		switch n.Op {
		case "-":
			switch xt.K {
			case hs.KInt, hs.KFloat:
				return xt
			case KUnknown, hs.KNever:
				return TUnknown
			}
			c.viol(RPrefix, e, "'-' on %s", TypeString(xt))
			return TUnknown
		case "!":
			switch xt.K {
			case hs.KBool:
				return xt
			case hs.KInt:
				c.unsupported("'!' on int")
				return xt
			case KUnknown, hs.KNever:
				return TUnknown
			}
			c.viol(RPrefix, e, "'!' on %s", TypeString(xt))
			return TUnknown
		case "?":
			return hs.TOpt(xt)
		}
		c.unsupported("prefix operator %s", n.Op)
		return TUnknown
	case *hs.Infix:
		lt := c.expr(n.L, false)
		rt := c.expr(n.R, false)
		if lt.K == hs.KFn || rt.K == hs.KFn || lt.K == hs.KNull || rt.K == hs.KNull {
			c.unsupported("function or null operand")
		}
		if !compat(rt, lt, copts{allowFn: true}) {
			c.viol(ROperands, e, "operands of '%s' are %s and %s", n.Op, TypeString(lt), TypeString(rt))
		}
		if soft(lt) {
			return lt
		}
		switch InfixResult(lt.K, n.Op) {
		case "same":
			return lt
		case "bool":
			return hs.TBool
		}
		c.viol(ROperator, e, "'%s' is not defined for %s", n.Op, TypeString(lt))
		return TUnknown
	case *hs.Assign:
		lt := c.expr(n.L, false)
		rt := c.expr(n.R, false)
		res := hs.TNull
		if lt.K == hs.KNever || rt.K == hs.KNever {
			res = hs.TNever
		}
		switch n.L.(type) {
		case *hs.Ident, *hs.Index, *hs.Member, *hs.Single:
		default:
			c.unsupported("assignment target is not a place")
		}
		bad := !compat(rt, lt, copts{allowFn: true})
		if bad {
			c.viol(RAssign, e, "%s assigned to %s", TypeString(rt), TypeString(lt))
		}
		if !soft(lt) && !AssignAdmissible(lt.K, n.Op) {
			// (also reported when the operand types differ: the program is ill-typed
			// either way)
			c.viol(RCompound, e, "'%s' is not defined for %s", n.Op, TypeString(lt))
		}
		return res
	case *hs.Call:
		ft := c.expr(n.Fn, false)
		switch {
		case soft(ft):
			return TUnknown
		case ft.K == hs.KFn && strings.HasPrefix(ft.Name, "host:"):
			name := strings.TrimPrefix(ft.Name, "host:")
			if name == "throw" {
				if len(n.Args) != 1 {
					c.viol(RArity, e, "throw takes 1 argument, %d supplied", len(n.Args))
					return hs.TNever
				}
			}
			for _, a := range n.Args {
				if at := c.expr(a, false); at.K == hs.KNull {
					c.unsupported("null-typed call argument")
				}
			}
			if name == "throw" {
				return hs.TNever
			}
			return c.env.Host.VarArgs[name]
		case ft.K == hs.KFn:
			c.args(e, ft, n.Args, false)
			return ret(ft)
		}
		c.viol(RCallee, e, "%s cannot be called", TypeString(ft))
		return TUnknown
	case *hs.Spawn:
		f, ok := c.m.funcs[n.Fn]
		var ft *hs.Type
		if v := c.lookupVar(n.Fn); v != nil {
			ft = v.t
		} else if ok {
			ft = f.t
		}
		if ft == nil {
			c.viol(RUnknownIdent, e, "'%s' is not defined", n.Fn)
			return TUnknown
		}
		if ft.K != hs.KFn || strings.HasPrefix(ft.Name, "host:") {
			c.unsupported("spawn of a non-function or host function")
			return TUnknown
		}
		c.args(e, ft, n.Args, true)
		// what a thread handle offers is host/runtime business: its type is not compared
		c.res.Opaque[e] = true
		return hs.TObj(hs.Field{Name: "join", T: fn0(ret(ft))})
	case *hs.Index:
		xt := c.expr(n.X, false)
		it := c.expr(n.I, false)
		switch xt.K {
		case hs.KList:
			if it.K != hs.KInt {
				if !soft(it) {
					c.viol(RIndex, e, "list indexed by %s", TypeString(it))
				}
				return TUnknown
			}
			return xt.Elem
		case hs.KStr:
			if it.K != hs.KInt {
				if !soft(it) {
					c.viol(RIndex, e, "str indexed by %s", TypeString(it))
				}
				return TUnknown
			}
			return hs.TStr
		case hs.KObj:
			// a string literal names a field of the object - its own fields, not the builtin members
			if lit, ok := n.I.(*hs.StrLit); ok {
				for _, f := range xt.Fields {
					if f.Name == lit.V {
						return f.T
					}
				}
				c.viol(RUnknownMember, e, "%s has no field '%s'", TypeString(xt), lit.V)
				return TUnknown
			}
			c.unsupported("object index")
			return TUnknown
		case hs.KAnyObj:
			c.unsupported("object index")
			return TUnknown
		case KUnknown, hs.KNever:
			return xt
		}
		c.viol(RIndex, e, "%s cannot be indexed", TypeString(xt))
		return TUnknown
	case *hs.Member:
		xt := c.expr(n.X, true)
		switch xt.K {
		case KUnknown, hs.KNever:
			return xt
		case hs.KAny:
			c.viol(RAny, n.X, "member access on any")
			return TUnknown
		}
		mt, ok := Members(xt)[n.Name]
		if !ok {
			c.viol(RUnknownMember, e, "%s has no member '%s'", TypeString(xt), n.Name)
			return TUnknown
		}
		if !isField(xt, n.Name) {
			c.res.Opaque[e] = true
		}
		return mt
	case *hs.Cast:
		xt := c.expr(n.X, true)
		tt := c.resolve(n.T, e)
		switch {
		case xt.K == hs.KBool && (tt.K == hs.KInt || tt.K == hs.KFloat),
			xt.K == hs.KInt && (tt.K == hs.KBool || tt.K == hs.KFloat),
			xt.K == hs.KFloat && (tt.K == hs.KBool || tt.K == hs.KInt),
			xt.K == hs.KObj && tt.K == hs.KAnyObj:
			return tt
		}
		if !compat(xt, tt, copts{}) || tt.K == hs.KFn {
			c.viol(RCast, e, "%s cannot be cast to %s", TypeString(xt), TypeString(tt))
		}
		if ContainsAny(tt) {
			c.unsupported("cast to a type containing any")
		}
		return tt
	case *hs.BlockExpr:
		return c.block(n.B, true)
	case *hs.If:
		return c.ifExpr(n)
	case *hs.Match:
		return c.match(n)
	case *hs.Try:
		tt := c.block(n.Body, true)
		c.push()
		c.top().vars[n.Var] = &varInfo{t: errType}
		ct := c.block(n.Catch, false)
		c.pop()
		res := tt
		if tt.K == hs.KNever {
			res = ct
		}
		if !compat(ct, tt, copts{allowFn: true}) {
			c.viol(RBranches, e, "try yields %s, catch yields %s", TypeString(tt), TypeString(ct))
			return TUnknown
		}
		c.mixedAny(tt, ct)
		return res
	case *hs.Raw:
		c.unsupported("raw expression")
		return TUnknown
	}
	c.unsupported("expression %T", e)
	return TUnknown
}

// mixedAny: two agreeing branches one of which carries `any` (none vs ?T, [] vs [T]): which
// of the two types the whole expression gets is not something the rules settle.
func (c *checker) mixedAny(a, b *hs.Type) {
	if soft(a) || soft(b) {
		return
	}
	if ContainsAny(a) != ContainsAny(b) {
		c.unsupported("branches differing only in any")
	}
}

// ContainsFn reports whether a function type occurs in t.
func ContainsFn(t *hs.Type) bool {
	switch t.K {
	case hs.KFn:
		return true
	case hs.KList, hs.KOpt:
		return ContainsFn(t.Elem)
	case hs.KObj:
		for _, f := range t.Fields {
			if ContainsFn(f.T) {
				return true
			}
		}
	}
	return false
}

func (c *checker) ifExpr(n *hs.If) *hs.Type {
	ct := c.expr(n.Cond, false)
	if !compat(ct, hs.TBool, copts{allowFn: true}) {
		c.viol(RCond, n, "if condition is %s", TypeString(ct))
	}
	tt := c.block(n.Then, true)
	var et *hs.Type
	switch {
	case n.ElIf != nil:
		et = c.expr(n.ElIf, false)
	case n.Else != nil:
		et = c.block(n.Else, true)
	default:
		if !compat(tt, hs.TNull, copts{allowFn: true}) {
			c.viol(RBranches, n, "if without else yields %s", TypeString(tt))
			return TUnknown
		}
		return hs.TNull
	}
	if !compat(et, tt, copts{allowFn: true}) {
		c.viol(RBranches, n, "then yields %s, else yields %s", TypeString(tt), TypeString(et))
		return TUnknown
	}
	c.mixedAny(tt, et)
	switch {
	case tt.K == hs.KNever:
		return et
	case et.K == hs.KNever:
		return tt
	}
	return et
}

func (c *checker) match(n *hs.Match) *hs.Type {
	xt := c.expr(n.X, false)
	var res *hs.Type
	bad := false
	hasDefault := false
	for i := range n.Arms {
		a := &n.Arms[i]
		at := c.expr(a.Body, false)
		if !bad && (res == nil || soft(res)) {
			res = at
		} else if !compat(at, res, copts{allowFn: true}) {
			bad = true
			c.viol(RBranches, n, "match arms yield %s and %s", TypeString(res), TypeString(at))
		} else {
			c.mixedAny(res, at)
		}
		if a.Lits == nil {
			if hasDefault {
				c.unsupported("two default arms")
			}
			// (a default arm need not be the last one: the arms behind it are unreachable but
			// checked like any other)
			hasDefault = true
			continue
		}
		for _, l := range a.Lits {
			lt := c.expr(l, false)
			if !compat(lt, xt, copts{allowFn: true}) {
				c.viol(RMatchLit, l, "arm literal is %s, matched value is %s", TypeString(lt), TypeString(xt))
			}
		}
	}
	if res == nil {
		res = TUnknown
	}
	if !hasDefault && !compat(hs.TNull, res, copts{allowFn: true}) {
		c.viol(RBranches, n, "match without default arm yields %s", TypeString(res))
	}
	// without a default arm it is possible that no arm matches: the match then completes (with
	// null) even if every arm diverges
	if !hasDefault && res.K == hs.KNever {
		return hs.TNull
	}
	return res
}
