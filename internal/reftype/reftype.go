// Package reftype is the reference type checker of the verification side (property C03).
//
// It works on the IR of internal/hs, never on repository data structures, and encodes the
// static rules the property statement names, as the README / grammar describe them and as
// the analyzer evidences them consistently:
//
//   - operator admissibility per operand type (int: arithmetic/bit/shift/compare; float:
//   - - * / ** and comparisons; bool: | & ^ && || == !=; str: + == !=; every other type
//     == !=), both operands of one type; the same table for compound assignment
//   - conditions are bool, if/match/try branches agree, iterables are range/str/list
//   - call arity and argument types, return type against the innermost enclosing function
//     or closure, break/continue only inside a loop of the same function
//   - unknown identifier/type/member, duplicate definitions, constant global initialisers,
//     implicit any, assignment/annotation compatibility
//   - impl block vs template, trigger callback shape, main existence/shape
//
// Check assigns a type to every expression and lists every rule violation. Constructs the
// rules leave open are reported as Unsupported (callers skip such programs instead of
// guessing).
package reftype

import (
	"fmt"
	"sort"

	"hmsverif/internal/hs"
)

// Rule names (stable: they appear in failure classes).
const (
	ROperator      = "operator-admissible"
	ROperands      = "operands-same-type"
	RPrefix        = "prefix-operand"
	RCond          = "condition-bool"
	RBranches      = "branches-agree"
	RMatchLit      = "match-literal"
	RIter          = "iterable"
	RLoopBody      = "loop-body-value"
	RArity         = "call-arity"
	RArg           = "call-arg-type"
	RCallee        = "call-non-function"
	RReturn        = "return-type"
	RBreak         = "break-outside-loop"
	RContinue      = "continue-outside-loop"
	RUnknownIdent  = "unknown-identifier"
	RUnknownType   = "unknown-type"
	RUnknownMember = "unknown-member"
	RDup           = "duplicate-definition"
	RGlobalConst   = "global-constant"
	RAny           = "implicit-any"
	RAssign        = "assign-type"
	RCompound      = "compound-assign-op"
	RLet           = "let-annotation"
	RList          = "list-elements"
	RRange         = "range-bounds"
	RIndex         = "index"
	RCast          = "cast"
	RImpl          = "impl-template"
	RTrigger       = "trigger-shape"
	RMain          = "main"
	RImport        = "import"
)

// KUnknown is the poison type of erroneous expressions (never reported for a well-typed
// program).
const KUnknown hs.Kind = 100

var TUnknown = &hs.Type{K: KUnknown}

// Violation is one broken rule.
type Violation struct {
	Rule   string
	Module string
	Node   any
	Msg    string
}

func (v Violation) String() string { return v.Rule + ": " + v.Msg }

// TemplateMethod is one method a template may require.
type TemplateMethod struct {
	Params []hs.Field
	Ret    *hs.Type // nil: null
	Mod    string   // "", "pub", "event"
}

// Capability of a template.
type Capability struct {
	Requires  []string
	Conflicts []string
}

// Template is a host-provided template specification.
type Template struct {
	Methods      map[string]TemplateMethod
	Capabilities map[string]Capability
	Default      []string
}

// Trigger is a host-provided trigger function.
type Trigger struct {
	Args     []hs.Field // parameters of `trigger cb at name(args)`
	Callback []hs.Field // parameters the callback must take (names are irrelevant)
}

// Host describes what the host offers to programs.
type Host struct {
	// Builtins are variadic host functions taking any non-null values (print, println).
	VarArgs map[string]*hs.Type // name -> return type
	// Funcs are host functions with a fixed signature.
	Funcs     map[string]*hs.Type
	Templates map[string]map[string]*Template // module -> name
	Triggers  map[string]map[string]*Trigger  // module -> name
}

// Env is one analysis problem: modules by name and the host.
type Env struct {
	Modules      map[string]*hs.Program
	Host         *Host
	MainRequired bool
}

// Result of Check.
type Result struct {
	Types       map[hs.Expr]*hs.Type // type of every expression of every module
	VarTypes    map[*hs.Let]*hs.Type // type given to the variable of every let
	BlockTypes  map[*hs.Block]*hs.Type
	Opaque      map[hs.Expr]bool // expressions whose own type text is host/builtin business
	Violations  []Violation
	Unsupported []string
}

func (r *Result) OK() bool { return len(r.Violations) == 0 }

// Rules returns the sorted set of violated rules.
func (r *Result) Rules() []string {
	m := map[string]bool{}
	for _, v := range r.Violations {
		m[v.Rule] = true
	}
	var out []string
	for k := range m {
		out = append(out, k)
	}
	sort.Strings(out)
	return out
}

// ---------------------------------------------------------------- operator tables

var arith = map[string]bool{"+": true, "-": true, "*": true, "/": true, "%": true, "**": true, "<<": true, ">>": true, "|": true, "&": true, "^": true}
var cmpOps = map[string]bool{"==": true, "!=": true, "<": true, ">": true, "<=": true, ">=": true}

// InfixResult returns the result kind of `T op T` ("" when op is not admissible for T).
// kinds: "same" (the operand type) or "bool".
func InfixResult(k hs.Kind, op string) string {
	switch k {
	case hs.KInt:
		if arith[op] {
			return "same"
		}
		if cmpOps[op] {
			return "bool"
		}
	case hs.KFloat:
		switch op {
		case "+", "-", "*", "/", "**":
			return "same"
		}
		if cmpOps[op] {
			return "bool"
		}
	case hs.KBool:
		switch op {
		case "|", "&", "^", "&&", "||", "==", "!=":
			return "bool"
		}
	case hs.KStr:
		switch op {
		case "+":
			return "same"
		case "==", "!=":
			return "bool"
		}
	default:
		if op == "==" || op == "!=" {
			return "bool"
		}
	}
	return ""
}

// AssignAdmissible reports whether `x op= v` is admissible for x of kind k (op includes
// the trailing '='; plain "=" is admissible for every type).
func AssignAdmissible(k hs.Kind, op string) bool {
	if op == "=" {
		return true
	}
	base := op[:len(op)-1]
	if base == "&&" || base == "||" || cmpOps[base] {
		return false
	}
	return InfixResult(k, base) == "same" || (k == hs.KBool && InfixResult(k, base) == "bool")
}

// ---------------------------------------------------------------- checker state

type varInfo struct {
	t   *hs.Type
	pub bool
}

type typeInfo struct {
	t   *hs.Type
	pub bool
}

type scope struct {
	vars  map[string]*varInfo
	types map[string]*typeInfo
}

func newScope() *scope { return &scope{vars: map[string]*varInfo{}, types: map[string]*typeInfo{}} }

type fnInfo struct {
	decl *hs.Func
	t    *hs.Type // fn type incl. singleton params
}

type fnCtx struct {
	ret  *hs.Type
	name string // "" for closures
}

type module struct {
	name      string
	prog      *hs.Program
	scopes    []*scope
	funcs     map[string]*fnInfo
	fnOrder   []string
	singles   map[string]*hs.Type
	templates map[string]*Template
	triggers  map[string]*Trigger
	cur       *fnCtx
	loopDepth int
	loopTerm  bool
}

type checker struct {
	env   *Env
	res   *Result
	mods  map[string]*module
	m     *module
	entry string
	// neverExprs counts diverging expressions met so far (see the loop rule)
	neverExprs int
}

func (c *checker) viol(rule string, node any, format string, a ...any) {
	c.res.Violations = append(c.res.Violations, Violation{Rule: rule, Module: c.m.name, Node: node, Msg: fmt.Sprintf(format, a...)})
}

func (c *checker) unsupported(format string, a ...any) {
	c.res.Unsupported = append(c.res.Unsupported, fmt.Sprintf(format, a...))
}

func (c *checker) push() { c.m.scopes = append(c.m.scopes, newScope()) }
func (c *checker) pop()  { c.m.scopes = c.m.scopes[:len(c.m.scopes)-1] }
func (c *checker) top() *scope {
	return c.m.scopes[len(c.m.scopes)-1]
}

func (c *checker) lookupVar(n string) *varInfo {
	for i := len(c.m.scopes) - 1; i >= 0; i-- {
		if v, ok := c.m.scopes[i].vars[n]; ok {
			return v
		}
	}
	return nil
}

func (c *checker) lookupType(n string) *typeInfo {
	for i := len(c.m.scopes) - 1; i >= 0; i-- {
		if v, ok := c.m.scopes[i].types[n]; ok {
			return v
		}
	}
	return nil
}

// Check type-checks the entry module (and, through imports, the others).
func Check(env *Env, entry string) *Result {
	c := &checker{env: env, res: &Result{Types: map[hs.Expr]*hs.Type{}, VarTypes: map[*hs.Let]*hs.Type{}, BlockTypes: map[*hs.Block]*hs.Type{}, Opaque: map[hs.Expr]bool{}}, mods: map[string]*module{}, entry: entry}
	if env.Modules[entry] == nil {
		c.res.Unsupported = append(c.res.Unsupported, "no entry module")
		return c.res
	}
	c.module(entry, env.MainRequired)
	return c.res
}

// ---------------------------------------------------------------- types

func isK(t *hs.Type, k hs.Kind) bool { return t != nil && t.K == k }

func soft(t *hs.Type) bool { return t.K == KUnknown || t.K == hs.KNever }

// resolve converts a written type into a structural one (named types are expanded).
func (c *checker) resolve(t *hs.Type, node any) *hs.Type {
	if t == nil {
		return hs.TNull
	}
	switch t.K {
	case hs.KNamed:
		ti := c.lookupType(t.Name)
		if ti == nil {
			c.viol(RUnknownType, node, "type '%s' is not declared", t.Name)
			return TUnknown
		}
		return ti.t
	case hs.KList:
		return hs.TList(c.resolve(t.Elem, node))
	case hs.KOpt:
		return hs.TOpt(c.resolve(t.Elem, node))
	case hs.KObj:
		out := &hs.Type{K: hs.KObj}
		seen := map[string]bool{}
		for _, f := range t.Fields {
			if seen[f.Name] {
				c.viol(RDup, node, "object type field '%s' declared twice", f.Name)
				return TUnknown
			}
			seen[f.Name] = true
			out.Fields = append(out.Fields, hs.Field{Name: f.Name, T: c.resolve(f.T, node)})
		}
		return out
	case hs.KFn:
		out := &hs.Type{K: hs.KFn, Ret: c.resolve(t.Ret, node)}
		seen := map[string]bool{}
		for _, p := range t.Params {
			if seen[p.Name] {
				c.viol(RDup, node, "parameter '%s' of function type declared twice", p.Name)
				return TUnknown
			}
			seen[p.Name] = true
			out.Params = append(out.Params, hs.Field{Name: p.Name, T: c.resolve(p.T, node)})
		}
		return out
	}
	return t
}

// ContainsAny reports whether `any` occurs in t.
func ContainsAny(t *hs.Type) bool {
	switch t.K {
	case hs.KAny:
		return true
	case hs.KList, hs.KOpt:
		return ContainsAny(t.Elem)
	case hs.KObj:
		for _, f := range t.Fields {
			if ContainsAny(f.T) {
				return true
			}
		}
	case hs.KFn:
		for _, p := range t.Params {
			if ContainsAny(p.T) {
				return true
			}
		}
		return t.Ret != nil && ContainsAny(t.Ret)
	}
	return false
}

type copts struct {
	allowFn     bool
	ignoreNames bool
}

// compat reports whether a value of type got may be used where exp is expected.
func compat(got, exp *hs.Type, o copts) bool {
	switch exp.K {
	case hs.KAny, KUnknown, hs.KNever:
		return true
	}
	switch got.K {
	case KUnknown, hs.KNever, hs.KAny:
		return true
	}
	if got.K == hs.KFn && !o.allowFn {
		return false
	}
	if got.K != exp.K {
		return false
	}
	switch got.K {
	case hs.KList:
		return compat(got.Elem, exp.Elem, o)
	case hs.KOpt:
		o.allowFn = true
		return compat(got.Elem, exp.Elem, o)
	case hs.KObj:
		if len(got.Fields) != len(exp.Fields) {
			return false
		}
		for _, ef := range exp.Fields {
			var gf *hs.Field
			for i := range got.Fields {
				if got.Fields[i].Name == ef.Name {
					gf = &got.Fields[i]
				}
			}
			if gf == nil || !compat(gf.T, ef.T, o) {
				return false
			}
		}
		return true
	case hs.KFn:
		if !compat(ret(got), ret(exp), o) {
			return false
		}
		if len(got.Params) != len(exp.Params) {
			return false
		}
		for i, ep := range exp.Params {
			// arguments are passed by position: a parameter of the expected name counts only at
			// the expected position (where names are ignored, the position alone decides)
			var gp *hs.Field
			for j := range got.Params {
				if got.Params[j].Name == ep.Name {
					if j != i {
						if o.ignoreNames {
							break
						}
						return false
					}
					gp = &got.Params[j]
					break
				}
			}
			if gp == nil {
				if o.ignoreNames && compat(ep.T, got.Params[i].T, o) {
					continue
				}
				return false
			}
			if !compat(gp.T, ep.T, o) {
				return false
			}
		}
		return true
	}
	return true
}

func ret(t *hs.Type) *hs.Type {
	if t.Ret == nil {
		return hs.TNull
	}
	return t.Ret
}

// Equal is structural type equality (used by generators).
func Equal(a, b *hs.Type) bool { return TypeString(a) == TypeString(b) }

// TypeString is the canonical compact rendering used to compare recorded types.
func TypeString(t *hs.Type) string {
	if t == nil {
		return "null"
	}
	switch t.K {
	case KUnknown:
		return "unknown"
	case hs.KAnyObj:
		return "{?}"
	case hs.KList:
		return "[" + TypeString(t.Elem) + "]"
	case hs.KOpt:
		return "?" + TypeString(t.Elem)
	case hs.KObj:
		s := "{"
		for i, f := range t.Fields {
			if i > 0 {
				s += ","
			}
			s += f.Name + ":" + TypeString(f.T)
		}
		return s + "}"
	case hs.KFn:
		s := "fn("
		for i, p := range t.Params {
			if i > 0 {
				s += ","
			}
			s += p.Name + ":" + TypeString(p.T)
		}
		return s + ")->" + TypeString(ret(t))
	}
	return t.String()
}

func fn0(r *hs.Type) *hs.Type { return &hs.Type{K: hs.KFn, Ret: r} }
func fn1(n string, p, r *hs.Type) *hs.Type {
	return &hs.Type{K: hs.KFn, Params: []hs.Field{{Name: n, T: p}}, Ret: r}
}

// Members returns the members of a type reftype knows about (a deliberately small part of
// the builtin tables; C18 owns the rest). The bool result tells whether the member is a
// field of the value (true) or a builtin.
func Members(t *hs.Type) map[string]*hs.Type {
	switch t.K {
	case hs.KInt:
		return map[string]*hs.Type{"to_string": fn0(hs.TStr), "to_range": fn0(hs.TRange)}
	case hs.KFloat:
		return map[string]*hs.Type{"to_string": fn0(hs.TStr), "is_int": fn0(hs.TBool), "trunc": fn0(hs.TInt), "round": fn0(hs.TInt)}
	case hs.KBool:
		return map[string]*hs.Type{"to_string": fn0(hs.TStr)}
	case hs.KStr:
		return map[string]*hs.Type{"len": fn0(hs.TInt), "to_lower": fn0(hs.TStr), "to_upper": fn0(hs.TStr), "parse_json": fn0(hs.TAny),
			"parse_int": fn0(hs.TInt), "contains": fn1("substring", hs.TStr, hs.TBool), "repeat": fn1("count", hs.TInt, hs.TStr), "split": fn1("separator", hs.TStr, hs.TList(hs.TStr))}
	case hs.KRange:
		return map[string]*hs.Type{"start": hs.TInt, "end": hs.TInt, "rev": fn0(hs.TRange)}
	case hs.KList:
		return map[string]*hs.Type{"len": fn0(hs.TInt), "push": fn1("element", t.Elem, hs.TNull), "pop": fn0(hs.TOpt(t.Elem)), "last": fn0(hs.TOpt(t.Elem)),
			"contains": fn1("element", t.Elem, hs.TBool)}
	case hs.KOpt:
		return map[string]*hs.Type{"is_some": fn0(hs.TBool), "is_none": fn0(hs.TBool), "unwrap": fn0(t.Elem), "unwrap_or": fn1("fallback", t.Elem, t.Elem), "expect": fn1("message", hs.TStr, t.Elem)}
	case hs.KAnyObj:
		return map[string]*hs.Type{"get": fn1("key", hs.TStr, hs.TOpt(hs.TAny)), "keys": fn0(hs.TList(hs.TStr))}
	case hs.KObj:
		m := map[string]*hs.Type{"keys": fn0(hs.TList(hs.TStr)), "to_json": fn0(hs.TStr)}
		for _, f := range t.Fields {
			m[f.Name] = f.T
		}
		return m
	}
	return map[string]*hs.Type{}
}

func isField(t *hs.Type, name string) bool {
	if t.K == hs.KObj {
		for _, f := range t.Fields {
			if f.Name == name {
				return true
			}
		}
	}
	return t.K == hs.KRange && (name == "start" || name == "end")
}

var errType = hs.TObj(hs.Field{Name: "message", T: hs.TStr}, hs.Field{Name: "line", T: hs.TInt}, hs.Field{Name: "column", T: hs.TInt}, hs.Field{Name: "filename", T: hs.TStr})

// ---------------------------------------------------------------- modules

func (c *checker) module(name string, mainRequired bool) *module {
	if m, ok := c.mods[name]; ok {
		return m
	}
	prog := c.env.Modules[name]
	m := &module{name: name, prog: prog, funcs: map[string]*fnInfo{}, singles: map[string]*hs.Type{}, templates: map[string]*Template{}, triggers: map[string]*Trigger{}}
	c.mods[name] = m
	prev := c.m
	c.m = m
	defer func() { c.m = prev }()
	c.push() // root scope

	for i := range prog.Imports {
		c.importItem(&prog.Imports[i])
	}
	for _, td := range prog.Types {
		c.typeDef(td)
	}
	for i := range prog.Singletons {
		s := &prog.Singletons[i]
		t := c.resolve(s.T, s)
		if _, dup := m.singles[s.Name]; dup {
			c.viol(RDup, s, "singleton '$%s' declared twice", s.Name)
		} else {
			m.singles[s.Name] = t
		}
	}
	if len(prog.RawItems) > 0 {
		c.unsupported("raw items")
	}
	for _, ib := range prog.Impls {
		for _, f := range ib.Methods {
			c.signature(f)
		}
	}
	for _, f := range prog.Funcs {
		c.signature(f)
	}
	for _, g := range prog.Globals {
		c.let(g, true)
	}
	for _, f := range prog.Funcs {
		c.function(f)
	}
	for _, ib := range prog.Impls {
		c.implBlock(ib)
	}
	if mainRequired && name == c.entry {
		if _, ok := m.funcs["main"]; !ok {
			c.viol(RMain, prog, "missing 'main' function")
		}
	}
	return m
}

// Compatible reports whether a value of type got is acceptable where exp is expected
// (function values allowed).
func Compatible(got, exp *hs.Type) bool { return compat(got, exp, copts{allowFn: true}) }

// Castable reports whether `got as to` is a legal cast.
func Castable(got, to *hs.Type) bool {
	switch {
	case got.K == hs.KBool && (to.K == hs.KInt || to.K == hs.KFloat),
		got.K == hs.KInt && (to.K == hs.KBool || to.K == hs.KFloat),
		got.K == hs.KFloat && (to.K == hs.KBool || to.K == hs.KInt),
		got.K == hs.KObj && to.K == hs.KAnyObj:
		return true
	}
	return to.K != hs.KFn && compat(got, to, copts{})
}
