// Package hs holds the verification side's own view of Homescript: a small typed IR, a
// canonical printer that records the source range of every node, and a boring reference
// evaluator (refsem). Nothing here depends on the repository: programs reach the real
// pipeline only as text.
package hs

// ---------------------------------------------------------------- types

type Kind int

const (
	KInt Kind = iota
	KFloat
	KBool
	KStr
	KNull
	KRange
	KList
	KObj
	KAnyObj
	KOpt
	KFn
	KAny
	KNamed
	KNever // internal: type of diverging expressions/blocks (reftype, C03)
)

type Field struct {
	Name string
	T    *Type
}

type Type struct {
	K      Kind
	Elem   *Type   // list / option
	Fields []Field // object
	Params []Field // fn
	Ret    *Type   // fn
	Name   string  // named type
	// Singles is the number of leading parameters of a fn type that are singleton
	// extractions (not supplied by callers); only produced by reftype (C03).
	Singles int
}

var (
	TInt   = &Type{K: KInt}
	TFloat = &Type{K: KFloat}
	TBool  = &Type{K: KBool}
	TStr   = &Type{K: KStr}
	TNull  = &Type{K: KNull}
	TRange = &Type{K: KRange}
	TAny   = &Type{K: KAny}
	TAnyObj = &Type{K: KAnyObj}
	TNever  = &Type{K: KNever}
)

func TList(e *Type) *Type        { return &Type{K: KList, Elem: e} }
func TOpt(e *Type) *Type         { return &Type{K: KOpt, Elem: e} }
func TObj(fs ...Field) *Type     { return &Type{K: KObj, Fields: fs} }
func TFn(ret *Type, ps ...Field) *Type { return &Type{K: KFn, Params: ps, Ret: ret} }
func TNamed(n string) *Type      { return &Type{K: KNamed, Name: n} }

func (t *Type) String() string {
	switch t.K {
	case KInt:
		return "int"
	case KFloat:
		return "float"
	case KBool:
		return "bool"
	case KStr:
		return "str"
	case KNull:
		return "null"
	case KRange:
		return "range"
	case KAny:
		return "any"
	case KAnyObj:
		return "{ ? }"
	case KNever:
		return "never"
	case KList:
		return "[" + t.Elem.String() + "]"
	case KOpt:
		return "?" + t.Elem.String()
	case KNamed:
		return t.Name
	case KObj:
		s := "{ "
		for i, f := range t.Fields {
			if i > 0 {
				s += ", "
			}
			s += f.Name + ": " + f.T.String()
		}
		if len(t.Fields) == 0 {
			return "{}"
		}
		return s + " }"
	case KFn:
		s := "fn("
		for i, f := range t.Params {
			if i > 0 {
				s += ", "
			}
			s += f.Name + ": " + f.T.String()
		}
		s += ")"
		if t.Ret != nil && t.Ret.K != KNull {
			s += " -> " + t.Ret.String()
		}
		return s
	}
	return "?"
}

// ---------------------------------------------------------------- expressions

type Expr interface{ isExpr() }

type (
	IntLit   struct{ V int64 }
	FloatLit struct{ V float64 }
	BoolLit  struct{ V bool }
	StrLit   struct{ V string }
	NullLit  struct{}
	NoneLit  struct{}
	Ident    struct{ Name string }
	Single   struct{ Name string } // $Name
	Infix    struct {
		Op   string
		L, R Expr
	}
	Prefix struct {
		Op string // "!", "-", "?"
		X  Expr
	}
	Group struct{ X Expr }
	Call  struct {
		Fn   Expr
		Args []Expr
	}
	Index struct{ X, I Expr }
	Member struct {
		X    Expr
		Name string
		Op   string // "" (`.`), "->" or "~>" (field of an any-object by name)
	}
	Assign struct {
		Op   string // "=", "+=", ...
		L, R Expr
	}
	Cast struct {
		X Expr
		T *Type
	}
	ListLit  struct{ Elems []Expr }
	ObjField struct {
		Name string
		X    Expr
	}
	ObjLit   struct{ Fields []ObjField }
	AnyObjLit struct{}
	RangeLit struct {
		From, To Expr
		Incl     bool
	}
	FnLit struct {
		Params []Field
		Ret    *Type
		Body   *Block
	}
	If struct {
		Cond Expr
		Then *Block
		Else *Block // nil: none
		ElIf *If    // else if chain
	}
	MatchArm struct {
		Lits []Expr // nil: default `_`
		Body Expr
	}
	Match struct {
		X    Expr
		Arms []MatchArm
	}
	Try struct {
		Body  *Block
		Var   string
		Catch *Block
	}
	BlockExpr struct{ B *Block }
	Spawn     struct {
		Fn   string
		Args []Expr
	}
	// Raw is verbatim text (used by generators for constructs outside the IR); refsem
	// cannot evaluate it.
	Raw struct{ Text string }
)

func (*IntLit) isExpr()    {}
func (*FloatLit) isExpr()  {}
func (*BoolLit) isExpr()   {}
func (*StrLit) isExpr()    {}
func (*NullLit) isExpr()   {}
func (*NoneLit) isExpr()   {}
func (*Ident) isExpr()     {}
func (*Single) isExpr()    {}
func (*Infix) isExpr()     {}
func (*Prefix) isExpr()    {}
func (*Group) isExpr()     {}
func (*Call) isExpr()      {}
func (*Index) isExpr()     {}
func (*Member) isExpr()    {}
func (*Assign) isExpr()    {}
func (*Cast) isExpr()      {}
func (*ListLit) isExpr()   {}
func (*ObjLit) isExpr()    {}
func (*AnyObjLit) isExpr() {}
func (*RangeLit) isExpr()  {}
func (*FnLit) isExpr()     {}
func (*If) isExpr()        {}
func (*Match) isExpr()     {}
func (*Try) isExpr()       {}
func (*BlockExpr) isExpr() {}
func (*Spawn) isExpr()     {}
func (*Raw) isExpr()       {}

// ---------------------------------------------------------------- statements

type Stmt interface{ isStmt() }

type (
	Let struct {
		Name string
		T    *Type // nil: inferred
		X    Expr
		Pub  bool
	}
	Return   struct{ X Expr } // X may be nil
	Break    struct{}
	Continue struct{}
	Loop     struct{ Body *Block }
	While    struct {
		Cond Expr
		Body *Block
	}
	For struct {
		Var  string
		Iter Expr
		Body *Block
	}
	ExprStmt struct{ X Expr }
	Trigger  struct {
		Callback string
		Kind     string // "on" | "at"
		Event    string
		Args     []Expr
	}
	TypeDef struct {
		Name string
		T    *Type
		Pub  bool
	}
	RawStmt struct{ Text string }
)

func (*Let) isStmt()      {}
func (*Return) isStmt()   {}
func (*Break) isStmt()    {}
func (*Continue) isStmt() {}
func (*Loop) isStmt()     {}
func (*While) isStmt()    {}
func (*For) isStmt()      {}
func (*ExprStmt) isStmt() {}
func (*Trigger) isStmt()  {}
func (*TypeDef) isStmt()  {}
func (*RawStmt) isStmt()  {}

type Block struct {
	Stmts []Stmt
	Tail  Expr // nil: none
}

// ---------------------------------------------------------------- items

type Param struct {
	Name   string
	T      *Type
	Single string // non-empty: singleton extraction `name: $Single`
}

// Annot is one item of a function annotation `#[...]`: an identifier (`allow_unused`) or a trigger
// registration `trigger <Kind> <Event>(Args)` whose callback is the annotated function.
type Annot struct {
	Ident string
	Trig  *Trigger
}

type Func struct {
	Annots []Annot
	Name   string
	Params []Param
	Ret    *Type // nil: null
	Body   *Block
	Pub    bool
	Event  bool
}

type Import struct {
	Names []string // entries may be prefixed with "type " / "templ "
	From  string
}

type SingletonDecl struct {
	Name string // without '$'
	T    *Type
}

// ImplBlock is `impl Template [with { caps }] for $Singleton { methods }` (C03).
type ImplBlock struct {
	Template  string
	Caps      []string // nil: no `with` clause
	Singleton string   // without '$'
	Methods   []*Func
}

type Program struct {
	Imports    []Import
	Singletons []SingletonDecl
	Types      []*TypeDef
	Globals    []*Let
	Funcs      []*Func
	RawItems   []string // verbatim items printed after the singletons (impl blocks ...)
	Impls      []*ImplBlock // printed after the raw items (C03)
}

// ---------------------------------------------------------------- builders

func I(v int64) Expr            { return &IntLit{v} }
func F(v float64) Expr          { return &FloatLit{v} }
func B(v bool) Expr             { return &BoolLit{v} }
func S(v string) Expr           { return &StrLit{v} }
func V(n string) Expr           { return &Ident{n} }
func Bin(op string, l, r Expr) Expr { return &Infix{op, l, r} }
func Un(op string, x Expr) Expr { return &Prefix{op, x} }
func CallN(fn string, args ...Expr) Expr { return &Call{&Ident{fn}, args} }
func CallE(fn Expr, args ...Expr) Expr   { return &Call{fn, args} }
func Mem(x Expr, n string) Expr { return &Member{X: x, Name: n} }
func Arrow(x Expr, op, n string) Expr { return &Member{X: x, Name: n, Op: op} }
func MCall(x Expr, n string, args ...Expr) Expr { return &Call{&Member{X: x, Name: n}, args} }
func Idx(x, i Expr) Expr        { return &Index{x, i} }
func Asg(op string, l, r Expr) Expr { return &Assign{op, l, r} }
func List(es ...Expr) Expr      { return &ListLit{es} }
func Blk(tail Expr, ss ...Stmt) *Block { return &Block{Stmts: ss, Tail: tail} }
func ES(x Expr) Stmt            { return &ExprStmt{x} }
func LetS(n string, x Expr) Stmt { return &Let{Name: n, X: x} }
func LetT(n string, t *Type, x Expr) Stmt { return &Let{Name: n, T: t, X: x} }
func Println(args ...Expr) Stmt { return &ExprStmt{&Call{&Ident{"println"}, args}} }
func PrintS(args ...Expr) Stmt  { return &ExprStmt{&Call{&Ident{"print"}, args}} }
func Fn(name string, ret *Type, body *Block, ps ...Param) *Func {
	return &Func{Name: name, Params: ps, Ret: ret, Body: body}
}
func P(n string, t *Type) Param { return Param{Name: n, T: t} }

// ---------------------------------------------------------------- syntactic features

// HasCapture reports whether some function literal references a local variable of an
// enclosing function (a capturing closure).
func HasCapture(p *Program) bool {
	found := false
	globals := map[string]bool{"print": true, "println": true, "throw": true, "assert": true, "time": true, "fmt": true}
	for _, g := range p.Globals {
		globals[g.Name] = true
	}
	for _, f := range p.Funcs {
		globals[f.Name] = true
	}
	var walkBlock func(b *Block, bound map[string]bool, inLit bool)
	var walkExpr func(e Expr, bound map[string]bool, inLit bool)
	cp := func(m map[string]bool) map[string]bool {
		n := map[string]bool{}
		for k, v := range m {
			n[k] = v
		}
		return n
	}
	walkBlock = func(b *Block, bound map[string]bool, inLit bool) {
		if b == nil {
			return
		}
		bound = cp(bound)
		for _, s := range b.Stmts {
			switch n := s.(type) {
			case *Let:
				walkExpr(n.X, bound, inLit)
				bound[n.Name] = true
			case *Return:
				if n.X != nil {
					walkExpr(n.X, bound, inLit)
				}
			case *Loop:
				walkBlock(n.Body, bound, inLit)
			case *While:
				walkExpr(n.Cond, bound, inLit)
				walkBlock(n.Body, bound, inLit)
			case *For:
				walkExpr(n.Iter, bound, inLit)
				b2 := cp(bound)
				b2[n.Var] = true
				walkBlock(n.Body, b2, inLit)
			case *ExprStmt:
				walkExpr(n.X, bound, inLit)
			case *Trigger:
				for _, a := range n.Args {
					walkExpr(a, bound, inLit)
				}
			}
		}
		if b.Tail != nil {
			walkExpr(b.Tail, bound, inLit)
		}
	}
	walkExpr = func(e Expr, bound map[string]bool, inLit bool) {
		switch n := e.(type) {
		case *Ident:
			if inLit && !bound[n.Name] && !globals[n.Name] {
				found = true
			}
		case *Infix:
			walkExpr(n.L, bound, inLit)
			walkExpr(n.R, bound, inLit)
		case *Prefix:
			walkExpr(n.X, bound, inLit)
		case *Group:
			walkExpr(n.X, bound, inLit)
		case *Call:
			walkExpr(n.Fn, bound, inLit)
			for _, a := range n.Args {
				walkExpr(a, bound, inLit)
			}
		case *Index:
			walkExpr(n.X, bound, inLit)
			walkExpr(n.I, bound, inLit)
		case *Member:
			walkExpr(n.X, bound, inLit)
		case *Assign:
			walkExpr(n.L, bound, inLit)
			walkExpr(n.R, bound, inLit)
		case *Cast:
			walkExpr(n.X, bound, inLit)
		case *ListLit:
			for _, a := range n.Elems {
				walkExpr(a, bound, inLit)
			}
		case *ObjLit:
			for _, f := range n.Fields {
				walkExpr(f.X, bound, inLit)
			}
		case *RangeLit:
			walkExpr(n.From, bound, inLit)
			walkExpr(n.To, bound, inLit)
		case *FnLit:
			// a new function: only its own parameters and locals are bound
			b2 := map[string]bool{}
			for _, p := range n.Params {
				b2[p.Name] = true
			}
			walkBlock(n.Body, b2, true)
		case *If:
			walkExpr(n.Cond, bound, inLit)
			walkBlock(n.Then, bound, inLit)
			walkBlock(n.Else, bound, inLit)
			if n.ElIf != nil {
				walkExpr(n.ElIf, bound, inLit)
			}
		case *Match:
			walkExpr(n.X, bound, inLit)
			for _, a := range n.Arms {
				for _, l := range a.Lits {
					walkExpr(l, bound, inLit)
				}
				walkExpr(a.Body, bound, inLit)
			}
		case *Try:
			walkBlock(n.Body, bound, inLit)
			b2 := cp(bound)
			b2[n.Var] = true
			walkBlock(n.Catch, b2, inLit)
		case *BlockExpr:
			walkBlock(n.B, bound, inLit)
		case *Spawn:
			for _, a := range n.Args {
				walkExpr(a, bound, inLit)
			}
		}
	}
	for _, f := range p.Funcs {
		b := map[string]bool{}
		for _, pa := range f.Params {
			b[pa.Name] = true
		}
		walkBlock(f.Body, b, false)
	}
	return found
}
