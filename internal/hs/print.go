package hs

import (
	"math"
	"strconv"
	"strings"
	"unicode/utf8"
)

// Pos is a source position: 1-based line/column (in runes), 0-based rune index.
type Pos struct{ Line, Col, Idx int }

// Rng is the inclusive source range of a node.
type Rng struct{ Start, End Pos }

// Contains reports whether position (line, col) lies within the range.
func (r Rng) Contains(line, col int) bool {
	if line < r.Start.Line || line > r.End.Line {
		return false
	}
	if line == r.Start.Line && col < r.Start.Col {
		return false
	}
	if line == r.End.Line && col > r.End.Col {
		return false
	}
	return true
}

// Printed is program text plus the range of every IR node in it.
type Printed struct {
	Text   string
	Ranges map[any]Rng
}

type printer struct {
	sb     strings.Builder
	line   int
	col    int
	idx    int
	indent int
	ranges map[any]Rng
	last   Pos // position of the last rune written
}

func (p *printer) w(s string) {
	for _, r := range s {
		p.last = Pos{p.line, p.col, p.idx}
		p.sb.WriteRune(r)
		p.idx++
		if r == '\n' {
			p.line++
			p.col = 1
		} else {
			p.col++
		}
	}
}

func (p *printer) nl() {
	p.w("\n")
	p.w(strings.Repeat("    ", p.indent))
}

func (p *printer) here() Pos { return Pos{p.line, p.col, p.idx} }

func (p *printer) mark(n any, start Pos) { p.ranges[n] = Rng{start, p.last} }

// Print renders a program.
func Print(prog *Program) Printed {
	p := &printer{line: 1, col: 1, ranges: map[any]Rng{}}
	for _, im := range prog.Imports {
		p.w("import ")
		if len(im.Names) == 1 {
			p.w(im.Names[0])
		} else {
			p.w("{ " + strings.Join(im.Names, ", ") + " }")
		}
		p.w(" from " + im.From + ";")
		p.nl()
	}
	for _, s := range prog.Singletons {
		p.w("$" + s.Name + " = " + s.T.String() + ";")
		p.nl()
	}
	for _, r := range prog.RawItems {
		p.w(r)
		p.nl()
	}
	for _, ib := range prog.Impls {
		p.impl(ib)
		p.nl()
	}
	for _, t := range prog.Types {
		p.stmt(t)
		p.nl()
	}
	for _, g := range prog.Globals {
		p.stmt(g)
		p.nl()
	}
	for _, f := range prog.Funcs {
		p.fn(f)
		p.nl()
	}
	return Printed{Text: p.sb.String(), Ranges: p.ranges}
}

// PrintExpr renders one expression (for messages).
func PrintExpr(e Expr) string {
	p := &printer{line: 1, col: 1, ranges: map[any]Rng{}}
	p.expr(e, 0)
	return p.sb.String()
}

func (p *printer) fn(f *Func) {
	st := p.here()
	if len(f.Annots) > 0 {
		p.w("#[")
		for i, a := range f.Annots {
			if i > 0 {
				p.w(", ")
			}
			if a.Trig == nil {
				p.w(a.Ident)
				continue
			}
			ts := p.here()
			p.w("trigger " + a.Trig.Kind + " " + a.Trig.Event + "(")
			for j, x := range a.Trig.Args {
				if j > 0 {
					p.w(", ")
				}
				p.expr(x, 0)
			}
			p.w(")")
			p.mark(a.Trig, ts)
		}
		p.w("]\n")
	}
	if f.Pub {
		p.w("pub ")
	}
	if f.Event {
		p.w("event ")
	}
	p.w("fn " + f.Name + "(")
	for i, a := range f.Params {
		if i > 0 {
			p.w(", ")
		}
		if a.Single != "" {
			p.w(a.Name + ": $" + a.Single)
		} else {
			p.w(a.Name + ": " + a.T.String())
		}
	}
	p.w(")")
	if f.Ret != nil {
		p.w(" -> " + f.Ret.String())
	}
	p.w(" ")
	p.block(f.Body)
	p.mark(f, st)
}

func (p *printer) impl(ib *ImplBlock) {
	st := p.here()
	p.w("impl " + ib.Template)
	if ib.Caps != nil {
		p.w(" with { " + strings.Join(ib.Caps, ", ") + " }")
	}
	p.w(" for $" + ib.Singleton + " {")
	p.indent++
	for _, m := range ib.Methods {
		p.nl()
		p.fn(m)
	}
	p.indent--
	p.nl()
	p.w("}")
	p.mark(ib, st)
}

func (p *printer) block(b *Block) {
	st := p.here()
	p.w("{")
	p.indent++
	for _, s := range b.Stmts {
		p.nl()
		p.stmt(s)
	}
	if b.Tail != nil {
		p.nl()
		p.expr(b.Tail, 0)
	}
	p.indent--
	if len(b.Stmts) > 0 || b.Tail != nil {
		p.nl()
	}
	p.w("}")
	p.mark(b, st)
}

func (p *printer) stmt(s Stmt) {
	st := p.here()
	switch n := s.(type) {
	case *Let:
		if n.Pub {
			p.w("pub ")
		}
		p.w("let " + n.Name)
		if n.T != nil {
			p.w(": " + n.T.String())
		}
		p.w(" = ")
		p.expr(n.X, 0)
		p.w(";")
	case *TypeDef:
		if n.Pub {
			p.w("pub ")
		}
		p.w("type " + n.Name + " = " + n.T.String() + ";")
	case *Return:
		p.w("return")
		if n.X != nil {
			p.w(" ")
			p.expr(n.X, 0)
		}
		p.w(";")
	case *Break:
		p.w("break;")
	case *Continue:
		p.w("continue;")
	case *Loop:
		p.w("loop ")
		p.block(n.Body)
	case *While:
		p.w("while ")
		p.expr(n.Cond, 0)
		p.w(" ")
		p.block(n.Body)
	case *For:
		p.w("for " + n.Var + " in ")
		p.expr(n.Iter, 0)
		p.w(" ")
		p.block(n.Body)
	case *ExprStmt:
		p.expr(n.X, 0)
		p.w(";")
	case *Trigger:
		p.w("trigger " + n.Callback + " " + n.Kind + " " + n.Event + "(")
		for i, a := range n.Args {
			if i > 0 {
				p.w(", ")
			}
			p.expr(a, 0)
		}
		p.w(");")
	case *RawStmt:
		p.w(n.Text)
	}
	p.mark(s, st)
}

// Operator precedences as documented (C07's statement).
var infixPrec = map[string]int{
	"||": 2, "&&": 3, "|": 4, "^": 5, "&": 6,
	"==": 7, "!=": 7, "<": 8, ">": 8, "<=": 8, ">=": 8,
	"<<": 9, ">>": 9, "+": 10, "-": 10, "*": 11, "/": 11, "%": 11,
	"**": 13,
}

const (
	precAssign  = 1
	precRange   = 1
	precCast    = 12
	precPrefix  = 14
	precPostfix = 15
	precAtom    = 16
)

func prec(e Expr) int {
	switch n := e.(type) {
	case *Infix:
		return infixPrec[n.Op]
	case *Assign:
		return precAssign
	case *RangeLit:
		return precRange
	case *Cast:
		return precCast
	case *Prefix:
		return precPrefix
	case *Call, *Index, *Member:
		return precPostfix
	case *IntLit:
		if n.V < 0 {
			return precPrefix
		}
	case *FloatLit:
		if n.V < 0 || math.Signbit(n.V) {
			return precPrefix
		}
	case *If, *Match, *Try, *BlockExpr:
		return 0 // block expressions are parenthesised whenever they are operands
	}
	return precAtom
}

// expr prints e; min is the lowest precedence that may appear unparenthesised here.
func (p *printer) expr(e Expr, min int) {
	if prec(e) < min {
		st := p.here()
		p.w("(")
		p.exprRaw(e)
		p.w(")")
		_ = st
		return
	}
	p.exprRaw(e)
}

func (p *printer) args(as []Expr) {
	p.w("(")
	for i, a := range as {
		if i > 0 {
			p.w(", ")
		}
		p.expr(a, 0)
	}
	p.w(")")
}

func fmtFloat(v float64) string {
	s := strconv.FormatFloat(math.Abs(v), 'f', -1, 64)
	if !strings.Contains(s, ".") {
		s += ".0"
	}
	if v < 0 || math.Signbit(v) {
		s = "-" + s
	}
	return s
}

// Quote renders a string literal with the escapes the grammar documents.
func Quote(s string) string {
	var b strings.Builder
	b.WriteByte('"')
	for _, r := range s {
		switch r {
		case '\\':
			b.WriteString(`\\`)
		case '"':
			b.WriteString(`\"`)
		case '\n':
			b.WriteString(`\n`)
		case '\t':
			b.WriteString(`\t`)
		case '\r':
			b.WriteString(`\r`)
		default:
			b.WriteRune(r)
		}
	}
	b.WriteByte('"')
	return b.String()
}

func (p *printer) exprRaw(e Expr) {
	st := p.here()
	switch n := e.(type) {
	case *IntLit:
		if n.V == math.MinInt64 {
			p.w("(-9223372036854775807 - 1)")
		} else {
			p.w(strconv.FormatInt(n.V, 10))
		}
	case *FloatLit:
		p.w(fmtFloat(n.V))
	case *BoolLit:
		if n.V {
			p.w("true")
		} else {
			p.w("false")
		}
	case *StrLit:
		p.w(Quote(n.V))
	case *NullLit:
		p.w("null")
	case *NoneLit:
		p.w("none")
	case *Ident:
		p.w(n.Name)
	case *Single:
		p.w("$" + n.Name)
	case *Raw:
		p.w(n.Text)
	case *Infix:
		pr := infixPrec[n.Op]
		lmin, rmin := pr, pr+1
		if n.Op == "**" {
			lmin, rmin = pr+1, pr
		}
		p.expr(n.L, lmin)
		p.w(" " + n.Op + " ")
		p.expr(n.R, rmin)
	case *Assign:
		p.expr(n.L, precPostfix)
		p.w(" " + n.Op + " ")
		p.expr(n.R, precAssign+1)
	case *RangeLit:
		p.expr(n.From, precPrefix)
		if n.Incl {
			p.w("..=")
		} else {
			p.w("..")
		}
		p.expr(n.To, precPrefix)
	case *Cast:
		p.expr(n.X, precCast)
		p.w(" as " + n.T.String())
	case *Prefix:
		p.w(n.Op)
		p.expr(n.X, precPrefix)
	case *Group:
		p.w("(")
		p.expr(n.X, 0)
		p.w(")")
	case *Call:
		p.expr(n.Fn, precPostfix)
		p.args(n.Args)
	case *Index:
		p.expr(n.X, precPostfix)
		p.w("[")
		p.expr(n.I, 0)
		p.w("]")
	case *Member:
		p.expr(n.X, precPostfix)
		if n.Op != "" {
			p.w(n.Op + n.Name)
		} else {
			p.w("." + n.Name)
		}
	case *ListLit:
		p.w("[")
		for i, x := range n.Elems {
			if i > 0 {
				p.w(", ")
			}
			p.expr(x, 0)
		}
		p.w("]")
	case *ObjLit:
		p.w("new { ")
		for i, f := range n.Fields {
			if i > 0 {
				p.w(", ")
			}
			p.w(f.Name + ": ")
			p.expr(f.X, 0)
		}
		p.w(" }")
	case *AnyObjLit:
		p.w("new { ? }")
	case *FnLit:
		p.w("fn(")
		for i, a := range n.Params {
			if i > 0 {
				p.w(", ")
			}
			p.w(a.Name + ": " + a.T.String())
		}
		p.w(")")
		if n.Ret != nil {
			p.w(" -> " + n.Ret.String())
		}
		p.w(" ")
		p.block(n.Body)
	case *If:
		p.ifExpr(n)
	case *Match:
		p.w("match ")
		p.expr(n.X, 1)
		p.w(" {")
		p.indent++
		for _, a := range n.Arms {
			p.nl()
			if a.Lits == nil {
				p.w("_")
			} else {
				for i, l := range a.Lits {
					if i > 0 {
						p.w(" | ")
					}
					p.expr(l, precPrefix)
				}
			}
			p.w(" => ")
			p.expr(a.Body, 0)
			p.w(",")
		}
		p.indent--
		p.nl()
		p.w("}")
	case *Try:
		p.w("try ")
		p.block(n.Body)
		p.w(" catch " + n.Var + " ")
		p.block(n.Catch)
	case *BlockExpr:
		p.block(n.B)
	case *Spawn:
		p.w("spawn " + n.Fn)
		p.args(n.Args)
	}
	p.mark(e, st)
}

func (p *printer) ifExpr(n *If) {
	p.w("if ")
	p.expr(n.Cond, 1)
	p.w(" ")
	p.block(n.Then)
	if n.ElIf != nil {
		p.w(" else ")
		st := p.here()
		p.ifExpr(n.ElIf)
		p.mark(n.ElIf, st)
	} else if n.Else != nil {
		p.w(" else ")
		p.block(n.Else)
	}
}

// RuneLen is a helper for span checks.
func RuneLen(s string) int { return utf8.RuneCountInString(s) }
