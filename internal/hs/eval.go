package hs

import (
	"fmt"
	"math"
	"math/big"
	"sort"
	"strconv"
	"strings"
)

// ---------------------------------------------------------------- values

type Val interface{}

type (
	NullV struct{}
	ListV struct{ Elems []Val }
	ObjV  struct {
		Keys []string
		F    map[string]Val
		Any  bool
	}
	OptV struct {
		Some bool
		V    Val
	}
	RangeV struct {
		From, To int64
		Incl     bool
	}
	FnV struct {
		Name   string // named function, or ""
		Params []Param
		Body   *Block
		Env    *env // captured environment (closures)
		Decl   *Func
	}
	BuiltinV struct{ Name string }
)

// RefObs is what refsem predicts the host sees.
type RefObs struct {
	Out      string
	Triggers []string
	Class    string // ok | uncaught | fatal
	Kind     string // fatal kind
	Msg      string // uncaught message
	ThrowAt  *Rng   // range of the throw call for uncaught
	FatalAt  *Rng   // range of the innermost expression that raised a fatal error
	Unspec   string // non-empty: the run touched behaviour the property leaves open
	Steps    int
	Ret      Val
	Singles  []string
	MaxDepth int
	Feat     []string // input features met during evaluation (used to identify known findings)
}

type ctlKind int

const (
	ctlNone ctlKind = iota
	ctlBreak
	ctlContinue
	ctlReturn
	ctlThrow
	ctlFatal
	ctlUnspec
	ctlBudget
)

type ctl struct {
	k    ctlKind
	v    Val
	msg  string
	kind string
	at   any // node of the throw call
}

type cell struct{ v Val }

type env struct {
	vars   map[string]*cell
	parent *env
}

func (e *env) lookup(n string) *cell {
	for s := e; s != nil; s = s.parent {
		if c, ok := s.vars[n]; ok {
			return c
		}
	}
	return nil
}

func newEnv(p *env) *env { return &env{vars: map[string]*cell{}, parent: p} }

// Interp is the reference evaluator.
type Interp struct {
	prog    *Program
	pr      *Printed
	globals *env
	out     strings.Builder
	obs     RefObs
	steps   int
	effects int // count of non-output side effects (assignments, pushes, triggers)
	Budget  int
	depth   int
	MaxCall int // call depth limit (0: none)
	// HostSingletons holds host-provided singleton values.
	// ArgsRTL evaluates call arguments right to left (models a documented deviation of the VM).
	ArgsRTL        bool
	// SpawnInline runs `spawn f(..)` as an immediate call (see the Spawn case).
	SpawnInline    bool
	HostSingletons map[string]Val
	singles        map[string]*cell
	// Modules: other modules by name for imports (function lookup by module)
	Filename string
}

// Eval runs the program's main function.
func Eval(prog *Program, pr *Printed, budget int) RefObs {
	in := &Interp{prog: prog, pr: pr, Budget: budget}
	return in.Run("main", nil)
}

// EvalRTL is Eval with call arguments evaluated right to left.
func EvalRTL(prog *Program, pr *Printed, budget int) RefObs {
	in := &Interp{prog: prog, pr: pr, Budget: budget, ArgsRTL: true}
	return in.Run("main", nil)
}

// NewInterp prepares an evaluator (globals are initialised by Init).
func NewInterp(prog *Program, pr *Printed, budget int) *Interp {
	return &Interp{prog: prog, pr: pr, Budget: budget}
}

var builtinNames = map[string]bool{"print": true, "println": true, "throw": true, "assert": true}

func (in *Interp) Init() *ctl {
	in.globals = newEnv(nil)
	in.singles = map[string]*cell{}
	for _, s := range in.prog.Singletons {
		if v, ok := in.HostSingletons[s.Name]; ok {
			in.singles[s.Name] = &cell{v}
		} else {
			in.singles[s.Name] = &cell{ZeroOf(s.T, in.prog)}
		}
	}
	for _, f := range in.prog.Funcs {
		in.globals.vars[f.Name] = &cell{&FnV{Name: f.Name, Decl: f, Body: f.Body, Params: f.Params}}
	}
	// the methods of an impl block are functions of the module
	for _, ib := range in.prog.Impls {
		for _, f := range ib.Methods {
			in.globals.vars[f.Name] = &cell{&FnV{Name: f.Name, Decl: f, Body: f.Body, Params: f.Params}}
		}
	}
	for _, g := range in.prog.Globals {
		v, c := in.eval(g.X, in.globals)
		if c != nil {
			return c
		}
		in.globals.vars[g.Name] = &cell{copyScalar(v)}
	}
	return nil
}

// Run initialises globals and calls fn with args.
func (in *Interp) Run(fn string, args []Val) RefObs {
	c := in.Init()
	if c == nil {
		var v Val
		v, c = in.CallNamed(fn, args)
		in.obs.Ret = v
	}
	return in.finish(c)
}

func (in *Interp) finish(c *ctl) RefObs {
	o := in.obs
	o.Out = in.out.String()
	o.Steps = in.steps
	o.Class = "ok"
	if c != nil {
		switch c.k {
		case ctlThrow:
			o.Class, o.Msg = "uncaught", c.msg
			if r, ok := in.pr.Ranges[c.at]; ok {
				o.ThrowAt = &r
			}
		case ctlFatal:
			o.Class, o.Kind, o.Msg = "fatal", c.kind, c.msg
			if r, ok := in.pr.Ranges[c.at]; ok {
				o.FatalAt = &r
			}
		case ctlUnspec:
			o.Unspec = c.msg
		case ctlBudget:
			o.Unspec = "budget"
		case ctlReturn:
			o.Ret = c.v
		default:
			o.Unspec = "stray control flow"
		}
	}
	return o
}

// Obs returns the observation so far (used by history-style checks).
func (in *Interp) Snapshot(c *ctl) RefObs { return in.finish(c) }

// CallNamed calls a top-level function.
func (in *Interp) CallNamed(fn string, args []Val) (Val, *ctl) {
	c := in.globals.lookup(fn)
	if c == nil {
		return nil, &ctl{k: ctlUnspec, msg: "no function " + fn}
	}
	return in.call(c.v.(*FnV), args, nil)
}

func unspec(format string, a ...any) *ctl { return &ctl{k: ctlUnspec, msg: fmt.Sprintf(format, a...)} }
func fatal(kind, msg string) *ctl         { return &ctl{k: ctlFatal, kind: kind, msg: msg} }

func copyScalar(v Val) Val { return v } // scalars are Go values, containers are pointers: nothing to do

// ZeroOf is the zero value of a type (singleton defaults).
func ZeroOf(t *Type, prog *Program) Val {
	switch t.K {
	case KInt:
		return int64(0)
	case KFloat:
		return float64(0)
	case KBool:
		return false
	case KStr:
		return ""
	case KNull:
		return NullV{}
	case KList:
		return &ListV{}
	case KOpt:
		return &OptV{}
	case KAnyObj:
		return &ObjV{F: map[string]Val{}, Any: true}
	case KObj:
		o := &ObjV{F: map[string]Val{}}
		for _, f := range t.Fields {
			o.Keys = append(o.Keys, f.Name)
			o.F[f.Name] = ZeroOf(f.T, prog)
		}
		return o
	case KRange:
		return &RangeV{}
	case KNamed:
		if prog != nil {
			for _, td := range prog.Types {
				if td.Name == t.Name {
					return ZeroOf(td.T, prog)
				}
			}
		}
	}
	return NullV{}
}

// ---------------------------------------------------------------- display

// Display renders a value the way print does.
func Display(v Val) string {
	switch x := v.(type) {
	case int64:
		return strconv.FormatInt(x, 10)
	case float64:
		return fmt.Sprint(x)
	case bool:
		return fmt.Sprint(x)
	case string:
		return x
	case NullV:
		return "null"
	case *ListV:
		parts := make([]string, len(x.Elems))
		for i, e := range x.Elems {
			parts[i] = Display(e)
		}
		return "[" + strings.Join(parts, ", ") + "]"
	case *OptV:
		if x.Some {
			return "Some(" + Display(x.V) + ")"
		}
		return "none"
	case *RangeV:
		return fmt.Sprintf("%d..%d", x.From, x.To)
	case *ObjV:
		keys := append([]string{}, x.Keys...)
		sort.Strings(keys)
		parts := make([]string, len(keys))
		for i, k := range keys {
			parts[i] = k + ": " + strings.ReplaceAll(Display(x.F[k]), "\n", "\n    ")
		}
		return "{\n    " + strings.Join(parts, ",\n    ") + "\n}"
	case *FnV:
		return "<function>"
	}
	return fmt.Sprintf("<%T>", v)
}

// Equal is structural equality.
func Equal(a, b Val) bool {
	switch x := a.(type) {
	case int64:
		y, ok := b.(int64)
		return ok && x == y
	case float64:
		y, ok := b.(float64)
		return ok && x == y
	case bool:
		y, ok := b.(bool)
		return ok && x == y
	case string:
		y, ok := b.(string)
		return ok && x == y
	case NullV:
		_, ok := b.(NullV)
		return ok
	case *ListV:
		y, ok := b.(*ListV)
		if !ok || len(x.Elems) != len(y.Elems) {
			return false
		}
		for i := range x.Elems {
			if !Equal(x.Elems[i], y.Elems[i]) {
				return false
			}
		}
		return true
	case *OptV:
		y, ok := b.(*OptV)
		if !ok || x.Some != y.Some {
			return false
		}
		return !x.Some || Equal(x.V, y.V)
	case *RangeV:
		y, ok := b.(*RangeV)
		return ok && *x == *y
	case *ObjV:
		y, ok := b.(*ObjV)
		if !ok || len(x.F) != len(y.F) {
			return false
		}
		for k, v := range x.F {
			w, ok := y.F[k]
			if !ok || !Equal(v, w) {
				return false
			}
		}
		return true
	}
	return false
}

// ---------------------------------------------------------------- statements

func (in *Interp) tick() *ctl {
	in.steps++
	if in.Budget > 0 && in.steps > in.Budget {
		return &ctl{k: ctlBudget}
	}
	return nil
}

func (in *Interp) block(b *Block, e *env) (Val, *ctl) {
	sc := newEnv(e)
	for _, s := range b.Stmts {
		if c := in.stmt(s, sc); c != nil {
			return nil, c
		}
	}
	if b.Tail != nil {
		return in.eval(b.Tail, sc)
	}
	return NullV{}, nil
}

func (in *Interp) stmt(s Stmt, e *env) *ctl {
	if c := in.tick(); c != nil {
		return c
	}
	switch n := s.(type) {
	case *Let:
		v, c := in.eval(n.X, e)
		if c != nil {
			return c
		}
		if n.T != nil {
			v = coerceTo(v, n.T)
		}
		e.vars[n.Name] = &cell{v}
	case *TypeDef:
	case *Return:
		var v Val = NullV{}
		if n.X != nil {
			var c *ctl
			v, c = in.eval(n.X, e)
			if c != nil {
				return c
			}
		}
		return &ctl{k: ctlReturn, v: v}
	case *Break:
		return &ctl{k: ctlBreak}
	case *Continue:
		return &ctl{k: ctlContinue}
	case *Loop:
		for {
			_, c := in.block(n.Body, e)
			if c != nil {
				if c.k == ctlBreak {
					break
				}
				if c.k != ctlContinue {
					return c
				}
			}
			if c := in.tick(); c != nil {
				return c
			}
		}
	case *While:
		for {
			cv, c := in.eval(n.Cond, e)
			if c != nil {
				return c
			}
			if !cv.(bool) {
				break
			}
			_, c = in.block(n.Body, e)
			if c != nil {
				if c.k == ctlBreak {
					break
				}
				if c.k != ctlContinue {
					return c
				}
			}
		}
	case *For:
		it, c := in.eval(n.Iter, e)
		if c != nil {
			return c
		}
		var items []Val
		switch x := it.(type) {
		case *ListV:
			items = append(items, x.Elems...) // snapshot
		case *RangeV:
			// a range runs from its start towards its end, upwards or downwards; the end is
			// excluded unless the range is inclusive
			if x.From-x.To > 100000 || x.To-x.From > 100000 {
				return unspec("huge range")
			}
			if x.From <= x.To {
				hi := x.To
				if x.Incl {
					hi++
				}
				for i := x.From; i < hi; i++ {
					items = append(items, i)
				}
			} else {
				lo := x.To
				if x.Incl {
					lo--
				}
				for i := x.From; i > lo; i-- {
					items = append(items, i)
				}
			}
		case string:
			for _, r := range x {
				items = append(items, string(r))
			}
		default:
			return unspec("for over %T", it)
		}
		for _, item := range items {
			sc := newEnv(e)
			sc.vars[n.Var] = &cell{item}
			_, c := in.block(n.Body, sc)
			if c != nil {
				if c.k == ctlBreak {
					break
				}
				if c.k != ctlContinue {
					return c
				}
			}
		}
	case *ExprStmt:
		_, c := in.eval(n.X, e)
		return c
	case *Trigger:
		var as []string
		for _, a := range n.Args {
			v, c := in.eval(a, e)
			if c != nil {
				return c
			}
			as = append(as, Display(v))
		}
		in.obs.Triggers = append(in.obs.Triggers, fmt.Sprintf("%s@%s(%s)", n.Callback, n.Event, strings.Join(as, ",")))
	case *RawStmt:
		return unspec("raw statement")
	}
	return nil
}

func coerceTo(v Val, t *Type) Val { return v }

// ---------------------------------------------------------------- expressions

func (in *Interp) evalArgs(as []Expr, e *env) ([]Val, *ctl) {
	out := make([]Val, len(as))
	if in.ArgsRTL {
		for i := len(as) - 1; i >= 0; i-- {
			v, c := in.eval(as[i], e)
			if c != nil {
				return nil, c
			}
			out[i] = v
		}
		return out, nil
	}
	effectful := 0
	for i, a := range as {
		before := in.effects + in.out.Len()
		v, c := in.eval(a, e)
		if in.effects+in.out.Len() != before || c != nil {
			effectful++
			if effectful >= 2 || (c != nil && i > 0 && len(as) > 1) {
				// at least two arguments with observable effects: their relative order is visible
				in.feat("multi-arg-effects")
			}
		}
		if c != nil {
			if i+1 < len(as) {
				in.feat("multi-arg-effects") // an argument exits before later ones are evaluated
			}
			return nil, c
		}
		out[i] = v
	}
	return out, nil
}

func (in *Interp) call(f *FnV, args []Val, at any) (Val, *ctl) {
	in.depth++
	if in.depth > in.obs.MaxDepth {
		in.obs.MaxDepth = in.depth
	}
	defer func() { in.depth-- }()
	if in.MaxCall > 0 && in.depth > in.MaxCall {
		return nil, fatal("StackOverflow", "")
	}
	if in.depth > 5000 {
		return nil, &ctl{k: ctlBudget}
	}
	base := in.globals
	if f.Env != nil {
		base = f.Env
	}
	sc := newEnv(base)
	ai := 0
	for _, p := range f.Params {
		if p.Single != "" {
			sc.vars[p.Name] = in.singles[p.Single] // singleton: shared cell
			in.obs.Singles = append(in.obs.Singles, p.Single)
			continue
		}
		if ai >= len(args) {
			return nil, unspec("arity")
		}
		sc.vars[p.Name] = &cell{args[ai]}
		ai++
	}
	v, c := in.block(f.Body, sc)
	if c != nil {
		if c.k == ctlReturn {
			return c.v, nil
		}
		if c.k == ctlBreak || c.k == ctlContinue {
			return nil, unspec("loop exit crossing a function")
		}
		return nil, c
	}
	return v, nil
}

func (in *Interp) eval(x Expr, e *env) (Val, *ctl) {
	v, c := in.eval1(x, e)
	if c != nil && c.k == ctlFatal && c.at == nil {
		c.at = x // innermost expression whose evaluation raised the fatal error
	}
	return v, c
}

func (in *Interp) eval1(x Expr, e *env) (Val, *ctl) {
	if c := in.tick(); c != nil {
		return nil, c
	}
	switch n := x.(type) {
	case *IntLit:
		return n.V, nil
	case *FloatLit:
		return n.V, nil
	case *BoolLit:
		return n.V, nil
	case *StrLit:
		return n.V, nil
	case *NullLit:
		return NullV{}, nil
	case *NoneLit:
		return &OptV{}, nil
	case *Group:
		return in.eval(n.X, e)
	case *Ident:
		if c := e.lookup(n.Name); c != nil {
			return c.v, nil
		}
		if builtinNames[n.Name] {
			return &BuiltinV{n.Name}, nil
		}
		return nil, unspec("unknown identifier %s", n.Name)
	case *Single:
		if c, ok := in.singles[n.Name]; ok {
			return c.v, nil
		}
		return nil, unspec("unknown singleton")
	case *Raw:
		return nil, unspec("raw expression")
	case *Infix:
		return in.infix(n, e)
	case *Prefix:
		v, c := in.eval(n.X, e)
		if c != nil {
			return nil, c
		}
		switch n.Op {
		case "!":
			return !v.(bool), nil
		case "-":
			switch t := v.(type) {
			case int64:
				return -t, nil
			case float64:
				return -t, nil
			}
		case "?":
			return &OptV{Some: true, V: v}, nil
		}
		return nil, unspec("prefix %s on %T", n.Op, v)
	case *Cast:
		v, c := in.eval(n.X, e)
		if c != nil {
			return nil, c
		}
		return castVal(v, n.T)
	case *ListLit:
		vs, c := in.evalArgs(n.Elems, e)
		if c != nil {
			return nil, c
		}
		return &ListV{Elems: vs}, nil
	case *ObjLit:
		o := &ObjV{F: map[string]Val{}}
		for _, f := range n.Fields {
			v, c := in.eval(f.X, e)
			if c != nil {
				return nil, c
			}
			if _, dup := o.F[f.Name]; !dup {
				o.Keys = append(o.Keys, f.Name)
			}
			o.F[f.Name] = v
		}
		return o, nil
	case *AnyObjLit:
		return &ObjV{F: map[string]Val{}, Any: true}, nil
	case *RangeLit:
		a, c := in.eval(n.From, e)
		if c != nil {
			return nil, c
		}
		b, c := in.eval(n.To, e)
		if c != nil {
			return nil, c
		}
		return &RangeV{From: a.(int64), To: b.(int64), Incl: n.Incl}, nil
	case *FnLit:
		ps := make([]Param, len(n.Params))
		for i, p := range n.Params {
			ps[i] = Param{Name: p.Name, T: p.T}
		}
		return &FnV{Params: ps, Body: n.Body, Env: e}, nil
	case *If:
		return in.ifExpr(n, e)
	case *Match:
		v, c := in.eval(n.X, e)
		if c != nil {
			return nil, c
		}
		seenDefault := false
		for _, a := range n.Arms {
			if a.Lits == nil {
				seenDefault = true
				return in.eval(a.Body, e)
			}
			if seenDefault {
				return nil, unspec("literal arm after default")
			}
			for _, l := range a.Lits {
				lv, c := in.eval(l, e)
				if c != nil {
					return nil, c
				}
				if Equal(v, lv) {
					return in.eval(a.Body, e)
				}
			}
		}
		return NullV{}, nil
	case *Try:
		v, c := in.block(n.Body, e)
		if c != nil && c.k == ctlThrow {
			sc := newEnv(e)
			eo := &ObjV{Keys: []string{"message", "line", "column", "filename"}, F: map[string]Val{"message": c.msg, "filename": "main"}}
			if r, ok := in.pr.Ranges[c.at]; ok {
				eo.F["line"] = int64(r.Start.Line)
				eo.F["column"] = int64(r.Start.Col)
			} else {
				eo.F["line"] = int64(0)
				eo.F["column"] = int64(0)
			}
			sc.vars[n.Var] = &cell{eo}
			return in.block(n.Catch, sc)
		}
		return v, c
	case *BlockExpr:
		return in.block(n.B, e)
	case *Assign:
		return in.assign(n, e)
	case *Index:
		bv, c := in.eval(n.X, e)
		if c != nil {
			return nil, c
		}
		iv, c := in.eval(n.I, e)
		if c != nil {
			return nil, c
		}
		return indexVal(bv, iv)
	case *Member:
		bv, c := in.eval(n.X, e)
		if c != nil {
			return nil, c
		}
		if n.Op != "" {
			o, ok := bv.(*ObjV)
			if !ok || !o.Any {
				return nil, unspec("%s on %T", n.Op, bv)
			}
			v, ok := o.F[n.Name]
			if n.Op == "->" {
				if !ok {
					return &OptV{}, nil
				}
				return &OptV{Some: true, V: v}, nil
			}
			if !ok {
				return nil, &ctl{k: ctlThrow, msg: "Called 'unwrap' on a 'null' option value", at: n}
			}
			return v, nil
		}
		if o, ok := bv.(*ObjV); ok && !o.Any {
			if v, ok := o.F[n.Name]; ok {
				return v, nil
			}
		}
		if r, ok := bv.(*RangeV); ok {
			switch n.Name {
			case "start":
				return r.From, nil
			case "end":
				return r.To, nil
			}
		}
		return nil, unspec("member value %s", n.Name)
	case *Call:
		return in.callExpr(n, e)
	case *Spawn:
		if !in.SpawnInline {
			return nil, unspec("spawn")
		}
		// only valid for programs whose spawned threads are independent of the spawning code:
		// the thread body is run at the spawn point
		args, c := in.evalArgs(n.Args, e)
		if c != nil {
			return nil, c
		}
		f := in.globals.lookup(n.Fn)
		if f == nil {
			return nil, unspec("spawn of unknown function")
		}
		if _, c := in.call(f.v.(*FnV), args, n); c != nil {
			return nil, c
		}
		return NullV{}, nil
	}
	return nil, unspec("expr %T", x)
}

func (in *Interp) ifExpr(n *If, e *env) (Val, *ctl) {
	cv, c := in.eval(n.Cond, e)
	if c != nil {
		return nil, c
	}
	if cv.(bool) {
		return in.block(n.Then, e)
	}
	if n.ElIf != nil {
		return in.ifExpr(n.ElIf, e)
	}
	if n.Else != nil {
		return in.block(n.Else, e)
	}
	return NullV{}, nil
}

func indexVal(bv, iv Val) (Val, *ctl) {
	switch b := bv.(type) {
	case *ListV:
		i := iv.(int64)
		n := int64(len(b.Elems))
		if i < 0 {
			i += n
		}
		if i < 0 || i >= n {
			return nil, fatal("IndexOutOfBounds", "")
		}
		return b.Elems[i], nil
	case *ObjV:
		k, ok := iv.(string)
		if !ok {
			return nil, unspec("object index by %T", iv)
		}
		if v, ok := b.F[k]; ok {
			return v, nil
		}
		return nil, unspec("missing key")
	}
	return nil, unspec("index on %T", bv)
}

func (in *Interp) callExpr(n *Call, e *env) (Val, *ctl) {
	// method call on a value
	if m, ok := n.Fn.(*Member); ok {
		recv, c := in.eval(m.X, e)
		if c != nil {
			return nil, c
		}
		if o, isObj := recv.(*ObjV); isObj && !o.Any {
			if fv, ok := o.F[m.Name]; ok {
				args, c := in.evalArgs(n.Args, e)
				if c != nil {
					return nil, c
				}
				f, ok := fv.(*FnV)
				if !ok {
					return nil, unspec("call of non-function field")
				}
				return in.call(f, args, n)
			}
		}
		args, c := in.evalArgs(n.Args, e)
		if c != nil {
			return nil, c
		}
		in.effects++
		return method(recv, m.Name, args)
	}
	fv, c := in.eval(n.Fn, e)
	if c != nil {
		return nil, c
	}
	args, c := in.evalArgs(n.Args, e)
	if c != nil {
		return nil, c
	}
	switch f := fv.(type) {
	case *BuiltinV:
		switch f.Name {
		case "print", "println":
			parts := make([]string, len(args))
			for i, a := range args {
				parts[i] = Display(a)
			}
			in.out.WriteString(strings.Join(parts, " "))
			if f.Name == "println" {
				in.out.WriteString("\n")
			}
			return NullV{}, nil
		case "throw":
			if len(args) != 1 {
				return nil, unspec("throw arity")
			}
			return nil, &ctl{k: ctlThrow, msg: Display(args[0]), at: n}
		case "assert":
			if !args[0].(bool) {
				return nil, fatal("HostError", "Assert failed")
			}
			return NullV{}, nil
		}
	case *FnV:
		return in.call(f, args, n)
	}
	return nil, unspec("call of %T", fv)
}

func method(recv Val, name string, args []Val) (Val, *ctl) {
	switch r := recv.(type) {
	case *ListV:
		switch name {
		case "len":
			return int64(len(r.Elems)), nil
		case "push":
			r.Elems = append(r.Elems, args[0])
			return NullV{}, nil
		case "pop":
			if len(r.Elems) == 0 {
				return &OptV{}, nil
			}
			v := r.Elems[len(r.Elems)-1]
			r.Elems = r.Elems[:len(r.Elems)-1]
			return &OptV{Some: true, V: v}, nil
		case "contains":
			for _, x := range r.Elems {
				if Equal(x, args[0]) {
					return true, nil
				}
			}
			return false, nil
		case "to_string":
			return Display(r), nil
		}
	case string:
		switch name {
		case "len":
			return int64(len([]rune(r))), nil
		case "to_string":
			return r, nil
		}
	case int64:
		switch name {
		case "to_string":
			return Display(r), nil
		}
	case float64:
		switch name {
		case "to_string":
			return Display(r), nil
		}
	case bool:
		if name == "to_string" {
			return Display(r), nil
		}
	case *ObjV:
		if !r.Any {
			break
		}
		switch name {
		case "set":
			k, ok := args[0].(string)
			if !ok {
				return nil, unspec("any-object key")
			}
			if _, dup := r.F[k]; !dup {
				r.Keys = append(r.Keys, k)
			}
			r.F[k] = args[1]
			return NullV{}, nil
		case "keys":
			ks := make([]string, 0, len(r.F))
			for k := range r.F {
				ks = append(ks, k)
			}
			sort.Strings(ks)
			l := &ListV{}
			for _, k := range ks {
				l.Elems = append(l.Elems, k)
			}
			return l, nil
		}
	case *OptV:
		switch name {
		case "is_some":
			return r.Some, nil
		case "is_none":
			return !r.Some, nil
		case "unwrap":
			if !r.Some {
				return nil, unspec("unwrap on none")
			}
			return r.V, nil
		case "unwrap_or":
			if r.Some {
				return r.V, nil
			}
			return args[0], nil
		}
	}
	return nil, unspec("method %s on %T", name, recv)
}

func castVal(v Val, t *Type) (Val, *ctl) {
	switch t.K {
	case KInt:
		switch x := v.(type) {
		case int64:
			return x, nil
		case bool:
			if x {
				return int64(1), nil
			}
			return int64(0), nil
		case float64:
			if math.IsNaN(x) || x >= 9.2e18 || x <= -9.2e18 {
				return nil, unspec("float->int out of range")
			}
			return int64(x), nil
		}
	case KFloat:
		switch x := v.(type) {
		case float64:
			return x, nil
		case int64:
			return float64(x), nil
		case bool:
			if x {
				return float64(1), nil
			}
			return float64(0), nil
		}
	case KBool:
		switch x := v.(type) {
		case bool:
			return x, nil
		case int64:
			return x != 0, nil
		case float64:
			return x != 0, nil
		}
	case KStr:
		if s, ok := v.(string); ok {
			return s, nil
		}
	case KOpt:
		if o, ok := v.(*OptV); ok {
			if !o.Some {
				return &OptV{}, nil
			}
			inner, c := castVal(o.V, t.Elem)
			if c != nil {
				return nil, c
			}
			return &OptV{Some: true, V: inner}, nil
		}
	case KAnyObj:
		if o, ok := v.(*ObjV); ok {
			if o.Any {
				return o, nil
			}
			n := &ObjV{F: map[string]Val{}, Any: true, Keys: append([]string{}, o.Keys...)}
			for k, x := range o.F {
				n.F[k] = x
			}
			return n, nil
		}
	}
	return nil, unspec("cast %T as %s", v, t)
}

func (in *Interp) infix(n *Infix, e *env) (Val, *ctl) {
	l, c := in.eval(n.L, e)
	if c != nil {
		return nil, c
	}
	if n.Op == "&&" {
		if !l.(bool) {
			return false, nil
		}
		r, c := in.eval(n.R, e)
		if c != nil {
			return nil, c
		}
		return r.(bool), nil
	}
	if n.Op == "||" {
		if l.(bool) {
			return true, nil
		}
		r, c := in.eval(n.R, e)
		if c != nil {
			return nil, c
		}
		return r.(bool), nil
	}
	r, c := in.eval(n.R, e)
	if c != nil {
		return nil, c
	}
	in.noteBin(n.Op, l, r)
	return BinOp(n.Op, l, r)
}

func (in *Interp) feat(f string) {
	for _, x := range in.obs.Feat {
		if x == f {
			return
		}
	}
	in.obs.Feat = append(in.obs.Feat, f)
}

// noteBin records operand features that identify documented deviations.
func (in *Interp) noteBin(op string, l, r Val) {
	op = strings.TrimSuffix(op, "=")
	switch a := l.(type) {
	case int64:
		b, ok := r.(int64)
		if ok && op == "**" && b >= 0 {
			// the finding: operands or result not exactly representable as float64
			big53 := int64(1) << 53
			switch {
			case a > big53 || a < -big53 || b > big53:
				in.feat("int-pow-big")
			case a >= -1 && a <= 1:
			case b > 64:
				in.feat("int-pow-big")
			default:
				exact := new(big.Int).Exp(big.NewInt(a), big.NewInt(b), nil)
				if exact.CmpAbs(big.NewInt(big53)) > 0 {
					in.feat("int-pow-big")
				}
			}
		}
	case float64:
		b, ok := r.(float64)
		if ok && op == "/" && b == 0 {
			in.feat("float-div-zero")
		}
	}
}

// BinOp applies a strict binary operator.
func BinOp(op string, l, r Val) (Val, *ctl) {
	switch op {
	case "==":
		return Equal(l, r), nil
	case "!=":
		return !Equal(l, r), nil
	}
	switch a := l.(type) {
	case int64:
		b, ok := r.(int64)
		if !ok {
			return nil, unspec("mixed operands")
		}
		switch op {
		case "+":
			return a + b, nil
		case "-":
			return a - b, nil
		case "*":
			return a * b, nil
		case "/":
			if b == 0 {
				return nil, fatal("ValueError", "")
			}
			if a == math.MinInt64 && b == -1 {
				return a, nil
			}
			return a / b, nil
		case "%":
			if b == 0 {
				return nil, fatal("ValueError", "")
			}
			if b == -1 {
				return int64(0), nil
			}
			return a % b, nil
		case "**":
			if b < 0 {
				return nil, unspec("negative exponent")
			}
			return ipow(a, b), nil
		case "<<":
			if b < 0 {
				// a shift by a negative amount has no value: a fatal value error (both backends)
				return nil, fatal("ValueError", "")
			}
			if b >= 64 {
				return int64(0), nil
			}
			return a << uint(b), nil
		case ">>":
			if b < 0 {
				// a shift by a negative amount has no value: a fatal value error (both backends)
				return nil, fatal("ValueError", "")
			}
			if b >= 64 {
				if a < 0 {
					return int64(-1), nil
				}
				return int64(0), nil
			}
			return a >> uint(b), nil
		case "|":
			return a | b, nil
		case "&":
			return a & b, nil
		case "^":
			return a ^ b, nil
		case "<":
			return a < b, nil
		case ">":
			return a > b, nil
		case "<=":
			return a <= b, nil
		case ">=":
			return a >= b, nil
		}
	case float64:
		b, ok := r.(float64)
		if !ok {
			return nil, unspec("mixed operands")
		}
		switch op {
		case "+":
			return a + b, nil
		case "-":
			return a - b, nil
		case "*":
			return a * b, nil
		case "/":
			return a / b, nil
		case "**":
			return math.Pow(a, b), nil
		case "%":
			return nil, unspec("float remainder")
		case "<":
			return a < b, nil
		case ">":
			return a > b, nil
		case "<=":
			return a <= b, nil
		case ">=":
			return a >= b, nil
		}
	case bool:
		b, ok := r.(bool)
		if !ok {
			return nil, unspec("mixed operands")
		}
		switch op {
		case "|":
			return a || b, nil
		case "&":
			return a && b, nil
		case "^":
			return a != b, nil
		}
	case string:
		b, ok := r.(string)
		if !ok {
			return nil, unspec("mixed operands")
		}
		if op == "+" {
			return a + b, nil
		}
	}
	return nil, unspec("operator %s on %T", op, l)
}

func ipow(a, b int64) int64 {
	res := int64(1)
	for b > 0 {
		if b&1 == 1 {
			res *= a
		}
		a *= a
		b >>= 1
	}
	return res
}

func (in *Interp) assign(n *Assign, e *env) (Val, *ctl) {
	in.effects++
	// evaluation order of the pieces of an assignment target vs. its right-hand side is
	// left open unless only one of them has side effects; generators keep targets pure.
	compute := func(old Val) (Val, *ctl) {
		r, c := in.eval(n.R, e)
		if c != nil {
			return nil, c
		}
		if n.Op == "=" {
			return r, nil
		}
		in.noteBin(n.Op, old, r)
		return BinOp(strings.TrimSuffix(n.Op, "="), old, r)
	}
	switch t := n.L.(type) {
	case *Ident:
		c := e.lookup(t.Name)
		if c == nil {
			return nil, unspec("assign to unknown %s", t.Name)
		}
		nv, cc := compute(c.v)
		if cc != nil {
			return nil, cc
		}
		c.v = nv
		return NullV{}, nil
	case *Single:
		c := in.singles[t.Name]
		if c == nil {
			return nil, unspec("assign to unknown singleton")
		}
		nv, cc := compute(c.v)
		if cc != nil {
			return nil, cc
		}
		c.v = nv
		return NullV{}, nil
	case *Index:
		bv, c := in.eval(t.X, e)
		if c != nil {
			return nil, c
		}
		iv, c := in.eval(t.I, e)
		if c != nil {
			return nil, c
		}
		old, c := indexVal(bv, iv)
		if c != nil {
			return nil, c
		}
		nv, c := compute(old)
		if c != nil {
			return nil, c
		}
		switch b := bv.(type) {
		case *ListV:
			i := iv.(int64)
			if i < 0 {
				i += int64(len(b.Elems))
			}
			b.Elems[i] = nv
		case *ObjV:
			b.F[iv.(string)] = nv
		}
		return NullV{}, nil
	case *Member:
		bv, c := in.eval(t.X, e)
		if c != nil {
			return nil, c
		}
		o, ok := bv.(*ObjV)
		if !ok {
			return nil, unspec("member assign on %T", bv)
		}
		old, ok := o.F[t.Name]
		if !ok {
			return nil, unspec("member assign to missing field")
		}
		nv, c := compute(old)
		if c != nil {
			return nil, c
		}
		o.F[t.Name] = nv
		return NullV{}, nil
	}
	return nil, unspec("assign target %T", n.L)
}

// CloneVal deep-copies a value.
func CloneVal(v Val) Val {
	switch x := v.(type) {
	case *ListV:
		n := &ListV{Elems: make([]Val, len(x.Elems))}
		for i, e := range x.Elems {
			n.Elems[i] = CloneVal(e)
		}
		return n
	case *ObjV:
		n := &ObjV{Keys: append([]string{}, x.Keys...), F: map[string]Val{}, Any: x.Any}
		for k, f := range x.F {
			n.F[k] = CloneVal(f)
		}
		return n
	case *OptV:
		if x.Some {
			return &OptV{Some: true, V: CloneVal(x.V)}
		}
		return &OptV{}
	case *RangeV:
		c := *x
		return &c
	}
	return v
}
