import subprocess, os, re, collections
def rec(d): return 'fn r(n: int) -> int { if n == 0 { 0 } else { 1 + r(n - 1) } } fn main() { println(r(%d)); }'%d
def nest(e):
    s='1'
    for i in range(e): s='1 + (%s)'%s
    # keep it running for several quanta: loop 40 times
    return 'fn main() { let t = 0; for i in 0..40 { t = %s; } println(t); }'%s
def locs(v,d): 
    ls=' '.join('let v%d = %d;'%(i,i) for i in range(v))
    return 'fn r(n: int) -> int { %s if n == 0 { 0 } else { 1 + r(n - 1) } } fn main() { println(r(%d)); }'%(ls,d)
def leak(n): return 'fn t() { throw("x"); } fn main() { let c = 0; for i in 0..%d { try { t(); } catch e { c += 1; } } println(c); }'%n
def loopcall(n): return 'fn id(a: int) -> int { let b = a; b } fn main() { let c = 0; for i in 0..%d { c += id(1); } println(c); }'%n
cases=[]
for L in [1,2,3,5,8,12]:
    for d in [0,1,2,3,5,8,12,20,60]:
        cases.append(('callstack L=%d d=%d'%(L,d),'#%d,500,10000|%s'%(L,rec(d))))
for S in [1,2,3,5,8,12]:
    for e in [1,2,4,8,16,70]:
        cases.append(('stack S=%d e=%d'%(S,e),'#100,%d,10000|%s'%(S,nest(e))))
for M in [1,2,4,8,16,64]:
    for (v,d) in [(0,0),(0,3),(3,0),(3,3),(3,30)]:
        cases.append(('mem M=%d v=%d d=%d'%(M,v,d),'#100,500,%d|%s'%(M,locs(v,d))))
for M in [16,64]:
    for n in [1,5,50,500]:
        cases.append(('leak-throw M=%d n=%d'%(M,n),'#100,500,%d|%s'%(M,leak(n))))
        cases.append(('loopcall M=%d n=%d'%(M,n),'#100,500,%d|%s'%(M,loopcall(n))))
open('progs.txt','w').write('\n'.join(c[1] for c in cases)+'\n')
def runall(backend):
    res={}; start=0
    while start<len(cases):
        r,w=os.pipe()
        p=subprocess.Popen(['./w','progs.txt',str(start),backend,str(w)],pass_fds=(w,),stderr=subprocess.PIPE,stdout=subprocess.DEVNULL)
        os.close(w); f=os.fdopen(r); last=None
        for line in f:
            if line.startswith('START'): last=int(line.split()[1])
            elif line.startswith('RES'):
                _,i,rest=line.rstrip('\n').split(' ',2); res[int(i)]=eval(rest)
        err=p.stderr.read().decode(errors='replace'); p.wait()
        if last is not None and last not in res:
            m=re.search(r'^(panic: .*|fatal error: .*)$',err,re.M)
            res[last]='HOSTPANIC '+(m.group(1) if m else '?'); start=last+1
        else: start=len(cases)
    return res
vm=runall('vm'); tree=runall('tree')
def short(x):
    x=x.replace('\n',' ')
    x=re.sub(r'INT fatal exception: (\w+): (.{0,40}).*',r'FATAL \1 \2',x)
    return x[:90]
for i,(name,_) in enumerate(cases):
    print('%-28s vm: %-60s tree: %s'%(name,short(vm.get(i,'?')),short(tree.get(i,'?')) if name.startswith('callstack') or name.startswith('leak') else ''))
