import subprocess, os, sys, itertools, collections, re
M=1<<64
def wrap(x):
    x&=M-1
    return x-M if x>=1<<63 else x
INTS=[0,1,-1,2,3,7,62,63,64,9223372036854775807,-9223372036854775808]
def lit(v):
    if isinstance(v,bool): return 'true' if v else 'false'
    if isinstance(v,int):
        if v==-9223372036854775808: return '(-9223372036854775807 - 1)'
        return str(v) if v>=0 else '(%d)'%v if False else ('(0 - %d)'%(-v))
    if isinstance(v,float):
        s=repr(abs(v)); 
        return s if v>=0 and str(v)[0]!='-' else '(0.0 - %s)'%s
    if isinstance(v,str): return '"%s"'%v
def tdiv(a,b):
    q=abs(a)//abs(b)
    return q if (a<0)==(b<0) else -q
def ref_int(op,a,b):
    if op=='+': return wrap(a+b)
    if op=='-': return wrap(a-b)
    if op=='*': return wrap(a*b)
    if op=='/':
        if b==0: return 'FATAL'
        return wrap(tdiv(a,b))
    if op=='%':
        if b==0: return 'FATAL'
        return wrap(a-b*tdiv(a,b))
    if op=='**':
        if b<0: return None
        if b>200: 
            if a in (0,1): return a
            if a==-1: return 1 if b%2==0 else -1
            return wrap(pow(a,b,M))
        return wrap(a**b)
    if op=='<<':
        if b<0: return None
        return wrap(a<<b) if b<64 else 0
    if op=='>>':
        if b<0: return None
        return a>>b if b<64 else (0 if a>=0 else -1)
    if op=='|': return wrap(a|b)
    if op=='&': return wrap(a&b)
    if op=='^': return wrap(a^b)
    if op=='==': return a==b
    if op=='!=': return a!=b
    if op=='<': return a<b
    if op=='<=': return a<=b
    if op=='>': return a>b
    if op=='>=': return a>=b
def disp(v):
    if isinstance(v,bool): return 'true' if v else 'false'
    return str(v)
progs=[]; meta=[]
IOPS=['+','-','*','/','%','**','<<','>>','|','&','^','==','!=','<','<=','>','>=']
for op in IOPS:
    for a in INTS:
        for b in INTS:
            for form in ('lit','var','asg'):
                if form=='asg' and op in ('==','!=','<','<=','>','>='): continue
                if form=='lit': src='fn main() { println(%s %s %s); }'%(lit(a),op,lit(b))
                elif form=='var': src='fn main() { let a = %s; let b = %s; println(a %s b); }'%(lit(a),lit(b),op)
                else: src='fn main() { let a = %s; a %s= %s; println(a); }'%(lit(a),op,lit(b))
                progs.append(src); meta.append(('int',op,a,b,form,ref_int(op,a,b)))
FL=[0.0,1.5,-2.0,2.0,0.5,1e308]
for op in ['+','-','*','/','**','%','==','!=','<','<=','>','>=']:
    for a in FL:
        for b in FL:
            for form in ('lit','asg'):
                if form=='asg' and op in ('==','!=','<','<=','>','>='): continue
                if form=='lit': src='fn main() { println(%s %s %s); }'%(lit(a),op,lit(b))
                else: src='fn main() { let a = %s; a %s= %s; println(a); }'%(lit(a),op,lit(b))
                progs.append(src); meta.append(('float',op,a,b,form,None))
for op in ['|','&','^','&&','||','==','!=','<','+']:
    for a in (True,False):
        for b in (True,False):
            progs.append('fn main() { println(%s %s %s); }'%(lit(a),op,lit(b))); meta.append(('bool',op,a,b,'lit',None))
for op in ['+','==','!=','<','*']:
    for a in ('','a','ab'):
        for b in ('','a','ab'):
            progs.append('fn main() { println(%s %s %s); }'%(lit(a),op,lit(b))); meta.append(('str',op,a,b,'lit',None))
open('progs.txt','w').write('\n'.join(p.replace('\n','\x01') for p in progs)+'\n')
print(len(progs),'programs')
def runall(backend):
    res={}
    start=0
    crashes=0
    while start<len(progs):
        r,w=os.pipe()
        p=subprocess.Popen(['./s1w','progs.txt',str(start),backend,str(w)],pass_fds=(w,),stderr=subprocess.PIPE,stdout=subprocess.DEVNULL)
        os.close(w)
        f=os.fdopen(r)
        last=None
        for line in f:
            if line.startswith('START'): last=int(line.split()[1])
            elif line.startswith('RES'):
                _,i,rest=line.rstrip('\n').split(' ',2)
                res[int(i)]=eval(rest)
        err=p.stderr.read().decode(errors='replace')
        p.wait()
        if last is not None and last not in res:
            m=re.search(r'^(panic: .*|fatal error: .*)$',err,re.M)
            site=re.search(r'/repo/homescript/(\S+\.go):\d+',err)
            res[last]='HOSTPANIC '+(m.group(1) if m else '?')+' @'+(site.group(1) if site else '?')
            crashes+=1
            start=last+1
        else:
            start=len(progs)
    return res,crashes
import concurrent.futures
with concurrent.futures.ThreadPoolExecutor(2) as ex:
    fv=ex.submit(runall,'vm'); ft=ex.submit(runall,'tree')
    vm,cv=fv.result(); tree,ct=ft.result()
print('crashes vm',cv,'tree',ct)
cls=collections.Counter(); ex1={}
for i,(ty,op,a,b,form,ref) in enumerate(meta):
    v=vm.get(i,'MISSING'); t=tree.get(i,'MISSING')
    def norm(x):
        x=re.sub(r'\|RESIDUE 0 0 0$','',x)
        x=re.sub(r'\|INT fatal exception: ValueError: ','|INT fatal exception: ',x)
        return x
    tags=[]
    if v.startswith('REJECT'): tags.append('analyzer-reject:'+v[7:50])
    else:
        if 'HOSTPANIC' in v: tags.append('vm-panic:'+v[10:70])
        if 'HOSTPANIC' in t: tags.append('tree-panic:'+t[10:70])
        if 'RESIDUE' in norm(v): tags.append('vm-residue')
        if 'HOSTPANIC' not in v and 'HOSTPANIC' not in t and norm(v).split('|')[0]!=norm(t).split('|')[0]: tags.append('vm!=tree output')
        if ty=='int' and ref is not None and 'HOSTPANIC' not in v:
            if ref=='FATAL':
                if '|INT fatal' not in v: tags.append('vm: expected fatal')
            elif norm(v)!='OUT '+disp(ref)+'\n': tags.append('vm!=ref')
    for tg in tags:
        k=(ty,op,form,tg); cls[k]+=1; ex1.setdefault(k,(progs[i],v[:80],t[:80],ref))
for k,n in sorted(cls.items()):
    print(n,k,'e.g.',ex1[k])
