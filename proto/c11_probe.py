import itertools, subprocess, os, re, collections, sys
LEVELS=['loop','while','for','block','if','match','try','catch','call']
EXITS=['break','continue','return','throw','fatal']
class Br(Exception): pass
class Co(Exception): pass
class Re(Exception): pass
class Th(Exception):
    def __init__(s,m): s.m=m
class Fa(Exception): pass

def build(levels, exit):
    """returns (source, expected_output_lines, expected_outcome) or None if illegal"""
    # legality: break/continue need an enclosing loop with no 'call' boundary in between
    if exit in ('break','continue'):
        ok=False
        for lv in reversed(levels):
            if lv=='call': break
            if lv in ('loop','while','for'): ok=True; break
        if not ok: return None
    funcs=[]  # (name, body_src)
    out=[]
    counter=[0]
    def gen(i, depth_in_fn):
        """returns (src, evalfn) for levels[i:] ; evalfn(out) raises control exceptions"""
        if i==len(levels):
            if exit=='break': return 'break;', lambda o: (_ for _ in ()).throw(Br())
            if exit=='continue': return 'continue;', lambda o: (_ for _ in ()).throw(Co())
            if exit=='return': return 'return;', lambda o: (_ for _ in ()).throw(Re())
            if exit=='throw': return 'throw("E");', lambda o: (_ for _ in ()).throw(Th("E"))
            if exit=='fatal': return 'let zz = [1]; println(zz[5]);', lambda o: (_ for _ in ()).throw(Fa())
        lv=levels[i]; n=i
        a='L%da'%n; b='L%db'%n
        csrc, cev = gen(i+1, depth_in_fn+1)
        if lv=='loop':
            src='let i%d = 0; loop { i%d += 1; if i%d > 2 { break; } println("%s", i%d); %s println("%s", i%d); }'%(n,n,n,a,n,csrc,b,n)
            def ev(o):
                it=0
                while True:
                    it+=1
                    if it>2: break
                    o.append('%s %d'%(a,it))
                    try: cev(o)
                    except Br: break
                    except Co: continue
                    o.append('%s %d'%(b,it))
            return src, ev
        if lv=='while':
            src='let i%d = 0; while i%d < 2 { i%d += 1; println("%s", i%d); %s println("%s", i%d); }'%(n,n,n,a,n,csrc,b,n)
            def ev(o):
                it=0
                while it<2:
                    it+=1
                    o.append('%s %d'%(a,it))
                    try: cev(o)
                    except Br: break
                    except Co: continue
                    o.append('%s %d'%(b,it))
            return src, ev
        if lv=='for':
            src='for i%d in 0..2 { println("%s", i%d); %s println("%s", i%d); }'%(n,a,n,csrc,b,n)
            def ev(o):
                for it in range(2):
                    o.append('%s %d'%(a,it))
                    try: cev(o)
                    except Br: break
                    except Co: continue
                    o.append('%s %d'%(b,it))
            return src, ev
        if lv=='block':
            src='{ println("%s"); %s println("%s"); }'%(a,csrc,b)
            def ev(o):
                o.append(a); cev(o); o.append(b)
            return src, ev
        if lv=='if':
            src='if G == 0 { println("%s"); %s println("%s"); }'%(a,csrc,b)
            def ev(o):
                o.append(a); cev(o); o.append(b)
            return src, ev
        if lv=='match':
            src='match G { 0 => { println("%s"); %s println("%s"); }, _ => { println("other"); } }'%(a,csrc,b)
            def ev(o):
                o.append(a); cev(o); o.append(b)
            return src, ev
        if lv=='try':
            src='try { println("%s"); %s println("%s"); } catch e%d { println("caught%d", e%d.message); }'%(a,csrc,b,n,n,n)
            def ev(o):
                try:
                    o.append(a); cev(o); o.append(b)
                except Th as t:
                    o.append('caught%d %s'%(n,t.m))
            return src, ev
        if lv=='catch':
            src='try { throw("T%d"); } catch e%d { println("%s", e%d.message); %s println("%s"); }'%(n,n,a,n,csrc,b)
            def ev(o):
                o.append('%s T%d'%(a,n)); cev(o); o.append(b)
            return src, ev
        if lv=='call':
            fname='f%d'%n
            funcs.append((fname, csrc+' println("end %s");'%fname))
            src='println("%s"); %s(); println("%s");'%(a,fname,b)
            def ev(o):
                o.append(a)
                try:
                    cev(o); o.append('end %s'%fname)
                except Re: pass
                o.append(b)
            return src, ev
    src, ev = gen(0,0)
    fsrc='fn f() { G2 = 1; %s println("after"); }'%src
    main='fn main() { try { f(); println("f done"); } catch e { println("main caught", e.message); } println(G2); try { throw("P"); } catch e { println("post", e.message); } for k in 0..2 { println("k", k); } }'
    prog='let G = 0;\nlet G2 = 0;\n'+'\n'.join('fn %s() { %s }'%(n,b) for n,b in funcs)+'\n'+fsrc+'\n'+main+'\n'
    o=[]; outcome='ok'
    try:
        try:
            try:
                ev(o); o.append('after')
            except Re: pass
            o.append('f done')
        except Th as t:
            o.append('main caught %s'%t.m)
        o.append('1'); o.append('post P'); o.append('k 0'); o.append('k 1')
    except Fa:
        outcome='fatal'
    return prog, o, outcome

cases=[]
for d in (1,2,3):
    for levels in itertools.product(LEVELS, repeat=d):
        for ex in EXITS:
            r=build(list(levels), ex)
            if r: cases.append((levels,ex)+r)
print(len(cases),'cases')
open('progs.txt','w').write('\n'.join(c[2].replace('\n','\x01') for c in cases)+'\n')
def runall(backend):
    res={}; start=0
    while start<len(cases):
        r,w=os.pipe()
        p=subprocess.Popen(['./s1w','progs.txt',str(start),backend,str(w)],pass_fds=(w,),stderr=subprocess.PIPE,stdout=subprocess.DEVNULL)
        os.close(w); f=os.fdopen(r); last=None
        for line in f:
            if line.startswith('START'): last=int(line.split()[1])
            elif line.startswith('RES'):
                _,i,rest=line.rstrip('\n').split(' ',2); res[int(i)]=eval(rest)
        err=p.stderr.read().decode(errors='replace'); p.wait()
        if last is not None and last not in res:
            m=re.search(r'^(panic: .*|fatal error: .*)$',err,re.M)
            res[last]='HOSTPANIC '+(m.group(1) if m else '?'); start=last+1
        else: start=len(cases)
    return res
import concurrent.futures
with concurrent.futures.ThreadPoolExecutor(2) as ex:
    fv=ex.submit(runall,'vm'); ft=ex.submit(runall,'tree'); vm=fv.result(); tree=ft.result()
stats=collections.Counter(); first={}
for i,(levels,exi,prog,exp,outcome) in enumerate(cases):
    want='OUT '+''.join(l+'\n' for l in exp)
    for be,res in (('vm',vm),('tree',tree)):
        got=res.get(i,'MISSING')
        if got.startswith('REJECT') or got.startswith('SYNTAX'):
            k=(be,'analyzer/syntax: '+got[:60]); 
        elif 'HOSTPANIC' in got: k=(be,'host panic: '+got[10:80])
        else:
            body=got.split('|')[0]
            tail=got[len(body):]
            if outcome=='fatal':
                if body==want and 'INT fatal' in tail: continue
                k=(be,'fatal case mismatch')
            else:
                if body==want and ('INT' not in tail):
                    if 'RESIDUE' in tail and 'RESIDUE 0 0 0' not in tail: k=(be,'residue '+tail)
                    else: continue
                else: k=(be,'output/outcome mismatch')
        stats[k]+=1
        key=(k, exi)
        if k not in first or len(levels)<len(first[k][0]): first[k]=(levels,exi,got[:150],want[:150])
for k,n in sorted(stats.items()):
    print(n,k,'| minimal:',first[k][0],first[k][1]); print('      got ',first[k][2]); print('      want',first[k][3])
