package main

func init() {
	cfgs["C03"] = checkCfg{
		Variant: "plain",
		Budget:  dur(150, 1500),
		Rule: "bounded exhaustive enumeration, no sampling: (a) index-addressable families of well-typed programs (operators x operand types x 18 syntactic forms; let/assign/parameter/result/global/import/list/option/field/if/match/try/block/closure/cast forms x every type built from the primitive types with list, option, object, fn() and fn(x) constructors to depth 2; calls with arity 0-3 x parameter types x 11 callee kinds; closures and returns; loops; value-producing branches; impl blocks vs host templates; trigger callbacks; main and imports served by the host; `any` sources and sinks; constant global initialisers) - every program is printed, analysed by the real analyzer and must receive zero error-level diagnostics, and a parallel walk of the analysed tree must find every expression's recorded Type().String() (and every let variable and block type) equal to the type the reference checker reftype assigns; (b) EVERY single-fault mutation of every base program (each rule of reftype x each syntactic position where it can be broken, including positions inside and after closure literals and in imported modules) must receive at least one error-level diagnostic. reftype (own IR, own rules from the property statement/README/grammar) decides on which side each program lies: mutants it still finds well-typed are checked under (a), programs touching behaviour the rules leave open are skipped and counted in notes. distinct = distinct (expression kind, recorded type) pairs of accepted programs + distinct (broken rule, normalised first diagnostic) pairs of rejected ones + distinct failure observations; transitions = analyzer runs + recorded types compared",
		Assume: []string{
			"go toolchain and go build -overlay are trusted",
			"the host offers exactly what cmd/hmsworker/c03_host.go describes (print/println/assert/throw, templates Lamp and Sensor, triggers minute/message/boot, modules served from memory)",
			"reftype is the trusted reading of the static rules; every program it marks as outside the rules is skipped, never judged",
		},
	}
}
