package main

func init() {
	cfgs["C07"] = checkCfg{
		Variant: "plain",
		Budget:  dur(150, 1500),
		Rule: "exhaustive enumeration of (a) every ordered pair and triple (thorough: also quadruple) of the 19 binary operators, `as` and the 12 assignment operators over operands a b c d, " +
			"each with every operand wrapper configuration (prefix - ! ?, postfix call/index/member and combinations, on one slot or on all); oracle: the tree from homescript.Parse lifted into the harness's tree type " +
			"equals the tree of an independent precedence climb over the table of the property statement (rejection of a non-identifier/index/member assignment target is unspecified and noted); " +
			"(b) for every pair (all-slot wrappers) and plain triple: each of 7 separators (none, space, tab, LF, CRLF, block comment, line comment) at every single token gap and at all gaps; " +
			"(c) redundant parentheses (depth 1, pairs also depth 2) around every subtree of the expected tree; (d) every comma-separated construct of the grammar with 1-3 elements with and without trailing comma in 7 layouts; " +
			"(e) every separator inserted at every token gap (and at all gaps) of every .hms file under examples/ and tests/; oracle for (b)-(e): same outcome as the base text, " +
			"where outcome = structural dump of the parse tree without spans and GroupedExpression nodes, or the list of error messages; variants whose reference token sequence differs from the base are skipped (notes); " +
			"distinct = distinct parse outcomes observed",
		Assume: []string{
			"the operator table in the C07 statement is the documented grammar; `**` is the only right-associative operator, assignment operators associate to the left",
			"the reference lexer (internal/reflex) decides whether a layout variant is the same token sequence",
		},
	}
}
