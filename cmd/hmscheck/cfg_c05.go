package main

func init() {
	cfgs["C05"] = checkCfg{
		Variant: "plain",
		Budget:  dur(150, 1500),
		Rule: "exhaustive enumeration of (a) every string of length <= 3 (quick) / <= 4 (thorough) over a 48-symbol alphabet colliding with the scanner's shortcuts, " +
			"(b) every token sequence of length <= 2 (quick) / <= 3 (thorough) over one lexeme per token kind (the identifier kind also as `main`, `print`, `println`, `int`) and every sequence of length 3 (quick) / 4 (thorough, entry role only) over the 30 most connective kinds, in 27 syntactic contexts (top level, fn body, expression, type, import list, impl block, call arguments, match arms, singleton type, parameters, global initialiser, return type, annotation, trigger statement, object literal field, type definition, condition, for iterable, impl head, bodies where the identifier lexeme is bound to an int / function / list / object / closure, loop body, global initialiser next to a function), " +
			"(c) for every .hms file under examples/ and tests/: every prefix at token and at byte granularity, every single-token deletion, duplication and swap with the neighbour (thorough: also replacement by each token kind), with the other corpus files served as importable modules, " +
			"(d) 46 nesting and size families (parentheses, lists, blocks, prefix chains, if/else-if chains, closures, member/call/index chains, right-nested ** and =, casts, ranges, list/option/object/fn types, object literals, match/try/loop nests, unclosed variants, long flat constructs) at depths up to 1000, " +
			"(e) every import graph over modules {main,a,b} incl. self imports (thorough: {main,a,b,c} without self imports), cycles through and not through the entry module; " +
			"every text of (a)-(d) in two roles: as the entry module and as the text the host returns for an imported module; " +
			"oracle: homescript.Parse and homescript.Analyze (with and without the main-function requirement) return, without Go panic, worker death or hang; " +
			"inputs matching the pattern of a known fatal defect (lexer error behind `from`, cyclic import graph, all of (d)) are first run in a guarded child process and reported as FATAL:<no-return|stack-exhausted|memory-exhausted>:<function> instead of being run in-process if the child does not return; " +
			"at most 12 failing cases per (class,tags) and worker are listed, the remainder is counted in notes; distinct = distinct (parse outcome, diagnostics) observations",
		Assume: []string{
			"the analyzer host behaves like the harness host (returns module texts promptly, knows no builtin modules)",
			"a guarded child that does not return within 2 s (25 s for the nesting families) with 3 GiB of address space and 32 MiB (nesting: 256 MiB) of goroutine stack counts as non-termination / stack exhaustion",
		},
	}
}
