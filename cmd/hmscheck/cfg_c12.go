package main

func init() {
	cfgs["C12"] = checkCfg{
		Variant: "sched", Validate: true,
		Stride: map[string]int{"quick": 400, "thorough": 4000},
		Budget: dur(150, 1500),
		Rule: "bounded exhaustive enumeration of the full product (value, target type): values of depth <= 2 over the leaves {0,1,-1,1.5,2.0,true,\"\",\"a\",null,none} " +
			"built with lists of 0-2 elements, objects and any-objects with key sets over {a,b} and some(x); types of depth <= 2 over {int,float,bool,str,null,any,{?},[T],{a:T},{a:T,b:U},?T} " +
			"(quick: 6 leaves and 13 element representatives = 734 values x 77 types; thorough: all 10 leaves and 29 element representatives = 3054 values x 427 types); every pair goes through each route over the boundary: " +
			"value.DeepCast of both value libraries with both values of allowCasts (in process), `hv as T` and `let y: T = hv;` with the value as a host global of static type any, the same with the value spelled as a literal, " +
			"`\"<json>\".parse_json()` followed by `as T` / an annotated let, VM.SpawnSync argument validation and VM.SpawnSync return validation, programs on both backends (one backend per case). " +
			"Oracle = refcast on the harness's own value/type structures: admitted iff conforming after the permitted conversions (bool/int/float, object->any-object, T->?T), the result deeply conforms to T and equals the converted value " +
			"(observed directly, or inside programs through a typed probe that only works on a value of type T), an already conforming value is unchanged, a rejection inside a program is caught by try/catch, names the path of an offending component " +
			"and the program continues; the host boundary refuses the call; never a Go panic. Open (counted in notes, not judged): null into ?T, conversions when allowCasts is false. distinct = distinct (route, mismatch shape, expectation, outcome, result) records",
		Assume: schedAssume,
	}
}
