// Command hmscheck is the driver behind ./check: it builds the harness worker against the
// repository's current working tree (optionally through the overlay rewriter), shards the
// enumeration over worker processes, attributes worker deaths and hangs to cases, validates
// a stride of cases and all failures on the plain build, matches known findings, writes
// evidence and replay files and prints VIOLATION / KNOWN-FINDING lines.
package main

import (
	"bufio"
	"bytes"
	"crypto/sha1"
	"encoding/binary"
	"encoding/json"
	"fmt"
	"io"
	"os"
	"os/exec"
	"path/filepath"
	"regexp"
	"runtime"
	"sort"
	"strconv"
	"strings"
	"sync"
	"time"
)

const repoRoot = "/repo"

type checkCfg struct {
	Variant  string // plain | sched | mapiter
	Validate bool   // re-run a stride of cases and every failure on the plain build
	Stride   map[string]int
	Budget   map[string]time.Duration
	Rule     string
	Assume   []string
	Workers  int
	RaceID   string // non-empty: additionally run this worker check on a plain -race build and scan its stderr
}

func dur(q, t int) map[string]time.Duration {
	return map[string]time.Duration{"quick": time.Duration(q) * time.Second, "thorough": time.Duration(t) * time.Second}
}

var schedAssume = []string{
	"go toolchain, go build -overlay and go/packages are trusted",
	"the sched/mapiter rewrites preserve sequential behaviour (validated by re-running a stride of cases and all failures on the plain build)",
	"hosts behave like the recording hosts of the harness (return promptly, never panic)",
}

var cfgs = map[string]checkCfg{}

type fail struct {
	Class    string   `json:"class"`
	Tags     []string `json:"tags,omitempty"`
	Scenario string   `json:"scenario"`
	Index    int      `json:"index"`
	Case     string   `json:"case"`
	Detail   string   `json:"detail"`
}

type workerSummary struct {
	Evals       int            `json:"evals"`
	States      int            `json:"states"`
	Transitions int64          `json:"transitions"`
	Validated   int            `json:"validated"`
	Samples     []string       `json:"samples"`
	PerScenario map[string]int `json:"per_scenario"`
	Outcomes    map[string]int `json:"outcomes"`
	Notes       map[string]int `json:"notes"`
	Incomplete  []string       `json:"incomplete"`
	NFails      int            `json:"nfails"`
}

type knownFinding struct {
	Property  string   `json:"property"`
	ID        string   `json:"id"`
	Class     string   `json:"class"`      // regexp matched against the failure class
	Tags      []string `json:"tags"`       // all must be present on the failing case
	CaseRegex string   `json:"case_regex"` // optional regexp on the case text
	Scenario  string   `json:"scenario"`   // optional regexp on the scenario name
	What      string   `json:"what"`
}

type knownFile struct {
	Findings []knownFinding    `json:"findings"`
	Fixed    []json.RawMessage `json:"fixed"`
}

func die(code int, format string, a ...any) {
	fmt.Fprintf(os.Stderr, format+"\n", a...)
	os.Exit(code)
}

var goEnv = append(os.Environ(), "GOFLAGS=-mod=mod", "GOPROXY=off", "GOSUMDB=off", "GOTOOLCHAIN=local")

func run(dir string, name string, args ...string) (string, error) {
	cmd := exec.Command(name, args...)
	cmd.Dir = dir
	cmd.Env = goEnv
	out, err := cmd.CombinedOutput()
	return string(out), err
}

var verifRoot string

// buildVariant builds the worker for one variant into dir and returns the binary path.
func buildVariant(work, variant string, race bool) (string, map[string]any) {
	dir := filepath.Join(work, variant)
	os.MkdirAll(dir, 0o755)
	info := map[string]any{}
	overlay := filepath.Join(dir, "overlay.json")
	if variant == "plain" {
		shims, _ := filepath.Glob(filepath.Join(verifRoot, "shim/vsched/*.go"))
		rep := map[string]string{}
		for _, s := range shims {
			if strings.HasSuffix(s, "_test.go") {
				continue
			}
			rep[filepath.Join(repoRoot, "homescript/vsched", filepath.Base(s))] = s
		}
		addExtraOverlay(rep)
		b, _ := json.Marshal(map[string]any{"Replace": rep})
		os.WriteFile(overlay, b, 0o644)
	} else {
		args := []string{"-repo", repoRoot, "-out", dir, "-shim", filepath.Join(verifRoot, "shim/vsched"), "-extra", filepath.Join(verifRoot, "shim/extra"),
			"-sched", "homescript/runtime,homescript/interpreter,v3/homescript"}
		if variant == "mapiter" {
			args = append(args, "-maps", "all")
		}
		out, err := run(verifRoot, filepath.Join(verifRoot, "bin/rewrite"), args...)
		if err != nil {
			die(2, "instrumentation unsupported or rewriter failed:\n%s", out)
		}
		if b, err := os.ReadFile(filepath.Join(dir, "sites.json")); err == nil {
			var s struct {
				Sites []string `json:"sites"`
				Files int      `json:"files"`
			}
			json.Unmarshal(b, &s)
			info["rewritten_files"] = s.Files
			info["rewritten_sites"] = len(s.Sites)
		}
	}
	bin := filepath.Join(dir, "hmsworker")
	args := []string{"build", "-overlay", overlay, "-o", bin}
	if variant != "plain" {
		args = append(args, "-tags", "sched")
	}
	if race {
		args = append(args, "-race")
	}
	if os.Getenv("VERIF_COVER") != "" && variant == "plain" {
		// development aid (tools/cover.sh): block coverage of the repository's packages, written
		// to $GOCOVERDIR by every worker that exits normally
		args = append(args, "-cover", "-coverpkg="+coverPkgs())
	}
	args = append(args, "./cmd/hmsworker")
	out, err := run(verifRoot, "go", args...)
	if err != nil {
		var lines []string
		for _, l := range strings.Split(out, "\n") {
			if !strings.HasPrefix(l, "go: found") && l != "" {
				lines = append(lines, l)
			}
		}
		die(2, "build of the harness against %s failed (variant %s):\n%s", repoRoot, variant, strings.Join(lines, "\n"))
	}
	return bin, info
}

// coverPkgs: the repository packages without added overlay files (the cover tool does not
// read overlays).
func coverPkgs() string {
	var ps []string
	for _, p := range []string{"", "/analyzer", "/analyzer/ast", "/compiler", "/interpreter", "/interpreter/value", "/runtime", "/runtime/value", "/lexer", "/parser", "/parser/ast", "/diagnostic", "/errors", "/optimizer"} {
		ps = append(ps, "github.com/smarthome-go/homescript/v3/homescript"+p)
	}
	return strings.Join(ps, ",")
}

// addExtraOverlay adds files from shim/extra (files added to repository packages: private
// state accessors). File name convention: <pkgdir with __ for />__<file>.go
func addExtraOverlay(rep map[string]string) {
	extras, _ := filepath.Glob(filepath.Join(verifRoot, "shim/extra/*.go"))
	for _, s := range extras {
		base := filepath.Base(s)
		rel := strings.ReplaceAll(base, "__", "/")
		rep[filepath.Join(repoRoot, rel)] = s
	}
}

type workerRun struct {
	fails   []fail
	sum     workerSummary
	deaths  int
	obs     map[int]string
	stderrs []string
}

// runShard runs one shard to completion, restarting the worker after deaths and hangs.
func runShard(bin, id, tier string, shard, nshards int, hashFile string, budget time.Duration, idle time.Duration, emitObs bool, extra []string) workerRun {
	var wr workerRun
	wr.obs = map[int]string{}
	wr.sum.PerScenario = map[string]int{}
	wr.sum.Outcomes = map[string]int{}
	wr.sum.Notes = map[string]int{}
	from := 0
	deadline := time.Now().Add(budget)
	for attempt := 0; attempt < 2000; attempt++ {
		remain := time.Until(deadline)
		if remain < time.Second {
			remain = time.Second
		}
		args := []string{"-check", id, "-tier", tier, "-shard", strconv.Itoa(shard), "-nshards", strconv.Itoa(nshards), "-from", strconv.Itoa(from), "-hashout", hashFile, "-budget", remain.String()}
		if emitObs {
			args = append(args, "-emitobs")
		}
		args = append(args, extra...)
		cmd := exec.Command("/bin/sh", append([]string{"-c", "ulimit -v 25165824; exec \"$0\" \"$@\"", bin}, args...)...)
		pr, pw, _ := os.Pipe()
		cmd.ExtraFiles = []*os.File{pw}
		var stderrBuf bytes.Buffer
		stderr := &tailWriter{buf: &stderrBuf, max: 16384}
		cmd.Stderr = stderr
		cmd.Stdout = nil
		if err := cmd.Start(); err != nil {
			die(2, "cannot start worker: %v", err)
		}
		pw.Close()
		last := -1
		done := false
		lines := make(chan string, 1024)
		go func() {
			sc := bufio.NewScanner(pr)
			sc.Buffer(make([]byte, 1<<20), 64<<20)
			for sc.Scan() {
				lines <- sc.Text()
			}
			close(lines)
		}()
		hung := false
		timer := time.NewTimer(idle)
		// "no progress" is judged by processor time, not by wall-clock time alone: a silent
		// worker that consumed less than half of the idle period in CPU time was starved by a
		// loaded machine (or is waiting), so the period is extended (at most three times)
		cpuAtLast, extensions := procCPU(cmd.Process.Pid), 0
	loop:
		for {
			select {
			case l, ok := <-lines:
				if !ok {
					break loop
				}
				if !timer.Stop() {
					select {
					case <-timer.C:
					default:
					}
				}
				timer.Reset(idle)
				cpuAtLast, extensions = procCPU(cmd.Process.Pid), 0
				switch {
				case strings.HasPrefix(l, "S "):
					last, _ = strconv.Atoi(l[2:])
				case strings.HasPrefix(l, "F "):
					var f fail
					if json.Unmarshal([]byte(l[2:]), &f) == nil {
						wr.fails = append(wr.fails, f)
					}
				case strings.HasPrefix(l, "O "):
					if i := strings.IndexByte(l[2:], ' '); i > 0 {
						g, _ := strconv.Atoi(l[2 : 2+i])
						wr.obs[g] = l[3+i:]
					}
				case strings.HasPrefix(l, "D "):
					var s workerSummary
					if json.Unmarshal([]byte(l[2:]), &s) == nil {
						mergeSummary(&wr.sum, s)
						done = true
					}
				}
			case <-timer.C:
				if cpu := procCPU(cmd.Process.Pid); cpu-cpuAtLast < idle/2 && extensions < 3 {
					extensions++
					cpuAtLast = cpu
					timer.Reset(idle)
					continue
				}
				hung = true
				cmd.Process.Kill()
				break loop
			}
		}
		cmd.Wait()
		pr.Close()
		if done {
			wr.stderrs = append(wr.stderrs, stderr.String())
			return wr
		}
		// the worker died or hung while running case `last`
		wr.deaths++
		tail := stderr.String()
		class := "WORKER-DEATH:" + deathReason(tail)
		if hung {
			class = "TIMEOUT:no progress for " + idle.String()
		}
		if last >= 0 {
			wr.fails = append(wr.fails, fail{Class: class, Scenario: "?", Index: last, Case: "", Detail: lastLines(tail, 30)})
			wr.sum.Evals++
			from = last + 1
		} else {
			wr.fails = append(wr.fails, fail{Class: class + " (before first case)", Scenario: "?", Index: -1, Detail: lastLines(tail, 30)})
			return wr
		}
		if time.Now().After(deadline.Add(2 * time.Minute)) {
			wr.sum.Incomplete = append(wr.sum.Incomplete, "driver gave up restarting workers after the time cap")
			return wr
		}
	}
	return wr
}

// procCPU returns the processor time (user+system) a process has consumed so far.
func procCPU(pid int) time.Duration {
	b, err := os.ReadFile(fmt.Sprintf("/proc/%d/stat", pid))
	if err != nil {
		return 0
	}
	// fields after the parenthesised command name; utime and stime are fields 14 and 15
	s := string(b)
	if i := strings.LastIndexByte(s, ')'); i >= 0 {
		f := strings.Fields(s[i+1:])
		if len(f) > 13 {
			ut, _ := strconv.ParseInt(f[11], 10, 64)
			st, _ := strconv.ParseInt(f[12], 10, 64)
			return time.Duration(ut+st) * 10 * time.Millisecond // USER_HZ = 100
		}
	}
	return 0
}

// tailWriter keeps the head (the reason of a Go crash is printed first) and the tail of a stream.
type tailWriter struct {
	buf  *bytes.Buffer
	max  int
	head []byte
}

func (t *tailWriter) Write(p []byte) (int, error) {
	if len(t.head) < 4096 {
		n := 4096 - len(t.head)
		if n > len(p) {
			n = len(p)
		}
		t.head = append(t.head, p[:n]...)
	}
	t.buf.Write(p)
	if t.buf.Len() > 4*t.max {
		b := t.buf.Bytes()
		keep := append([]byte{}, b[len(b)-t.max:]...)
		t.buf.Reset()
		t.buf.Write(keep)
	}
	return len(p), nil
}

func (t *tailWriter) String() string {
	if len(t.head) >= 4096 && t.buf.Len() > 4096 {
		return string(t.head) + "\n...\n" + t.buf.String()
	}
	return t.buf.String()
}

func lastLines(s string, n int) string {
	ls := strings.Split(strings.TrimRight(s, "\n"), "\n")
	if len(ls) > n {
		ls = ls[:n] // the head of a Go crash dump carries the reason
	}
	return strings.Join(ls, "\n")
}

var reDeath = regexp.MustCompile(`(?m)^(panic: .*|fatal error: .*|runtime: goroutine stack exceeds.*)$`)

func deathReason(stderr string) string {
	m := reDeath.FindString(stderr)
	if m == "" {
		return "unknown"
	}
	m = regexp.MustCompile(`[0-9]+`).ReplaceAllString(m, "#")
	m = regexp.MustCompile(`\[recovered\].*`).ReplaceAllString(m, "")
	if len(m) > 100 {
		m = m[:100]
	}
	return strings.TrimSpace(m)
}

func mergeSummary(a *workerSummary, b workerSummary) {
	a.Evals += b.Evals
	a.Transitions += b.Transitions
	a.Validated += b.Validated
	a.NFails += b.NFails
	for _, s := range b.Samples {
		if len(a.Samples) < 4 {
			a.Samples = append(a.Samples, s)
		}
	}
	for k, v := range b.PerScenario {
		a.PerScenario[k] += v
	}
	for k, v := range b.Outcomes {
		a.Outcomes[k] += v
	}
	for k, v := range b.Notes {
		a.Notes[k] += v
	}
	for _, w := range b.Incomplete {
		found := false
		for _, x := range a.Incomplete {
			if x == w {
				found = true
			}
		}
		if !found {
			a.Incomplete = append(a.Incomplete, w)
		}
	}
}

func countHashes(files []string) int {
	seen := map[uint64]struct{}{}
	for _, f := range files {
		b, err := os.ReadFile(f)
		if err != nil {
			continue
		}
		for i := 0; i+8 <= len(b); i += 8 {
			seen[binary.LittleEndian.Uint64(b[i:])] = struct{}{}
		}
	}
	return len(seen)
}

func matchKnown(kfs []knownFinding, prop string, f fail) *knownFinding {
	for i := range kfs {
		k := &kfs[i]
		if k.Property != prop {
			continue
		}
		if ok, _ := regexp.MatchString(k.Class, f.Class); !ok {
			continue
		}
		all := true
		for _, t := range k.Tags {
			has := false
			for _, ft := range f.Tags {
				if ft == t {
					has = true
				}
			}
			if !has {
				all = false
			}
		}
		if !all {
			continue
		}
		if k.CaseRegex != "" {
			if ok, _ := regexp.MatchString(k.CaseRegex, f.Case); !ok {
				continue
			}
		}
		if k.Scenario != "" {
			if ok, _ := regexp.MatchString(k.Scenario, f.Scenario); !ok {
				continue
			}
		}
		return k
	}
	return nil
}

func main() {
	if len(os.Args) < 3 {
		die(2, "usage: hmscheck <ID> <quick|thorough> | hmscheck <ID> --replay <file>")
	}
	exe, _ := os.Executable()
	verifRoot = filepath.Dir(filepath.Dir(exe))
	if v := os.Getenv("VERIF_ROOT"); v != "" {
		verifRoot = v
	}
	id := os.Args[1]
	tier := os.Args[2]
	replayFile := ""
	if tier == "--replay" {
		if len(os.Args) < 4 {
			die(2, "missing replay file")
		}
		replayFile = os.Args[3]
		tier = "quick"
	}
	if t := os.Getenv("VERIF_TIER"); t != "" && replayFile == "" && (t == "quick" || t == "thorough") {
		_ = t
	}
	if tier != "quick" && tier != "thorough" {
		die(2, "tier must be quick or thorough")
	}
	cfg, ok := cfgs[id]
	if !ok {
		die(2, "unknown check %s", id)
	}
	seed := 0
	if s := os.Getenv("VERIF_SEED"); s != "" {
		seed, _ = strconv.Atoi(s)
	}
	t0 := time.Now()
	work := filepath.Join(verifRoot, ".work", fmt.Sprintf("%s-%s-%d", id, tier, os.Getpid()))
	os.MkdirAll(work, 0o755)
	defer os.RemoveAll(work)

	if _, err := os.Stat(filepath.Join(verifRoot, "bin/rewrite")); err != nil {
		if out, err := run(verifRoot, "go", "build", "-o", "bin/rewrite", "./rewrite"); err != nil {
			die(2, "cannot build rewriter: %s", out)
		}
	}

	// builds (in parallel)
	var mainBin, plainBin string
	buildInfo := map[string]any{}
	var wg sync.WaitGroup
	wg.Add(1)
	go func() {
		defer wg.Done()
		var info map[string]any
		mainBin, info = buildVariant(work, cfg.Variant, false)
		for k, v := range info {
			buildInfo[k] = v
		}
	}()
	if cfg.Validate && cfg.Variant != "plain" {
		wg.Add(1)
		go func() {
			defer wg.Done()
			plainBin, _ = buildVariant(work, "plain", false)
		}()
	}
	wg.Wait()
	if cfg.Variant == "plain" {
		plainBin = mainBin
	}

	if replayFile != "" {
		os.Exit(doReplay(id, mainBin, plainBin, replayFile))
	}

	nw := cfg.Workers
	if nw == 0 {
		nw = runtime.NumCPU()
	}
	budget := cfg.Budget[tier]
	if budget == 0 {
		budget = 150 * time.Second
	}
	idle := 90 * time.Second
	if tier == "thorough" {
		idle = 300 * time.Second
	}
	stride := cfg.Stride[tier]
	emit := cfg.Validate && stride > 0 && cfg.Variant != "plain"

	results := make([]workerRun, nw)
	hashFiles := make([]string, nw)
	var wg2 sync.WaitGroup
	for i := 0; i < nw; i++ {
		hashFiles[i] = filepath.Join(work, fmt.Sprintf("hashes-%d.bin", i))
		wg2.Add(1)
		go func(i int) {
			defer wg2.Done()
			results[i] = runShard(mainBin, id, tier, i, nw, hashFiles[i], budget, idle, emit, nil)
		}(i)
	}
	wg2.Wait()

	tEnum := time.Since(t0)
	total := workerSummary{PerScenario: map[string]int{}, Outcomes: map[string]int{}, Notes: map[string]int{}}
	var fails []fail
	deaths := 0
	obs := map[int]string{}
	for _, r := range results {
		mergeSummary(&total, r.sum)
		deaths += r.deaths
		for k, v := range r.obs {
			obs[k] = v
		}
	}
	distinct := countHashes(hashFiles)

	// ---- auxiliary free-running pass under the Go race detector
	raceRuns, raceReports := 0, 0
	if cfg.RaceID != "" {
		raceBin, _ := buildVariant(filepath.Join(work, "race"), "plain", true)
		var rmu sync.Mutex
		var rwg sync.WaitGroup
		seenRace := map[string]bool{}
		for i := 0; i < 4; i++ {
			rwg.Add(1)
			go func(i int) {
				defer rwg.Done()
				rr := runShard(raceBin, cfg.RaceID, tier, i, 4, filepath.Join(work, fmt.Sprintf("racehashes-%d.bin", i)), budget, idle, false, nil)
				rmu.Lock()
				defer rmu.Unlock()
				raceRuns += rr.sum.Evals
				for _, f := range rr.fails {
					fails = append(fails, f)
				}
				for _, se := range rr.stderrs {
					for _, blk := range strings.Split(se, "WARNING: DATA RACE")[1:] {
						raceReports++
						site := "?"
						for _, ln := range strings.Split(blk, "\n") {
							if strings.Contains(ln, "/repo/") {
								site = strings.TrimSpace(ln)
								if p := strings.Index(site, " +0x"); p > 0 {
									site = site[:p]
								}
								break
							}
						}
						if !seenRace[site] {
							seenRace[site] = true
							fails = append(fails, fail{Class: "RACE:data race reported by the Go race detector at " + site, Scenario: "free-running-race-detector-pass", Index: -1, Detail: firstN("WARNING: DATA RACE"+blk, 1500)})
						}
					}
				}
			}(i)
		}
		rwg.Wait()
	}

	for _, r := range results {
		fails = append(fails, r.fails...)
	}
	// ---- conformance replay on the plain build
	validated := 0
	var confFails []fail
	if emit && plainBin != "" {
		validated, confFails = validatePlain(plainBin, id, tier, stride, obs, work)
		fails = append(fails, confFails...)
	}
	// every failure found on an instrumented build must reproduce on the plain build
	unconfirmed := 0
	if cfg.Validate && cfg.Variant != "plain" && plainBin != "" {
		fails, unconfirmed, validated = confirmFailures(plainBin, id, tier, fails, validated)
	}

	// ---- known findings
	var kf knownFile
	if b, err := os.ReadFile(filepath.Join(verifRoot, "known_findings.json")); err == nil {
		if err := json.Unmarshal(b, &kf); err != nil {
			die(2, "known_findings.json: %v", err)
		}
	}
	tValid := time.Since(t0)
	if os.Getenv("VERIF_VERBOSE") != "" {
		fmt.Printf("phases: build+enumeration %.1fs, validation on plain build %.1fs\n", tEnum.Seconds(), (tValid - tEnum).Seconds())
	}
	sort.Slice(fails, func(i, j int) bool {
		if len(fails[i].Case) != len(fails[j].Case) {
			return len(fails[i].Case) < len(fails[j].Case)
		}
		return fails[i].Index < fails[j].Index
	})
	if dump := os.Getenv("VERIF_DUMP"); dump != "" {
		if f, err := os.Create(dump); err == nil {
			for _, fl := range fails {
				m := map[string]any{"class": fl.Class, "tags": fl.Tags, "scenario": fl.Scenario, "index": fl.Index, "case": fl.Case, "detail": fl.Detail}
				if k := matchKnown(kf.Findings, id, fl); k != nil {
					m["known"] = k.ID
				}
				b, _ := json.Marshal(m)
				f.Write(append(b, '\n'))
			}
			f.Close()
		}
	}
	knownSeen := map[string]int{}
	type group struct {
		key     string
		first   fail
		n       int
		tagsets []string
	}
	groups := map[string]*group{}
	var order []string
	for _, f := range fails {
		if k := matchKnown(kf.Findings, id, f); k != nil {
			knownSeen[k.ID]++
			continue
		}
		key := f.Class
		g := groups[key]
		if g == nil {
			g = &group{key: key, first: f}
			groups[key] = g
			order = append(order, key)
		}
		g.n++
		if ts := strings.Join(f.Tags, ","); len(g.tagsets) < 4 && !containsStr(g.tagsets, ts) {
			g.tagsets = append(g.tagsets, ts)
		}
	}
	var kfLines []string
	for _, k := range kf.Findings {
		if k.Property == id && knownSeen[k.ID] > 0 {
			kfLines = append(kfLines, fmt.Sprintf("KNOWN-FINDING: property=%s %s [%s, %d cases]", id, k.What, k.ID, knownSeen[k.ID]))
		}
	}
	for _, l := range kfLines {
		fmt.Println(l)
	}
	violations := 0
	os.MkdirAll(filepath.Join(verifRoot, "replay"), 0o755)
	var vsamples []any
	for n, key := range order {
		g := groups[key]
		violations += g.n
		h := sha1.Sum([]byte(id + key))
		path := filepath.Join(verifRoot, "replay", fmt.Sprintf("%s-%x.json", id, h[:5]))
		rb, _ := json.MarshalIndent(map[string]any{"property": id, "tier": tier, "class": g.first.Class, "tags": g.first.Tags, "scenario": g.first.Scenario, "index": g.first.Index, "case": g.first.Case, "detail": g.first.Detail, "cases_in_group": g.n}, "", " ")
		os.WriteFile(path, rb, 0o644)
		if n < 15 {
			fmt.Printf("VIOLATION property=%s replay=%s\n", id, path)
			fmt.Printf("  class=%s cases=%d tagsets=%q\n", g.first.Class, g.n, g.tagsets)
			if os.Getenv("VERIF_VERBOSE") != "" || n < 3 {
				fmt.Printf("  %s\n", strings.ReplaceAll(firstN(g.first.Detail, 400), "\n", "\n  "))
				if g.first.Case != "" {
					fmt.Printf("  case: %s\n", strings.ReplaceAll(firstN(g.first.Case, 600), "\n", "\n        "))
				}
			}
		}
		if len(vsamples) < 3 {
			vsamples = append(vsamples, map[string]any{"violation": g.first.Class, "case": g.first.Case})
		}
	}
	if len(order) > 15 {
		fmt.Printf("  ... %d more violation groups (see %s)\n", len(order)-15, filepath.Join(verifRoot, "replay"))
	}

	// ---- evidence
	exhaustive := len(total.Incomplete) == 0
	samples := []any{}
	for _, s := range total.Samples {
		samples = append(samples, s)
	}
	samples = append(samples, vsamples...)
	if len(samples) == 0 {
		samples = append(samples, "(no case executed)")
	}
	states := distinct
	if states < 1 {
		states = 1
	}
	trans := total.Transitions
	if trans < 1 {
		trans = 1
	}
	// explorations report their executions (schedules / map orders / draw sequences) as states
	explored := total.Evals
	for _, k := range []string{"executions", "draw-sequences"} {
		if total.Notes[k] > explored {
			explored = total.Notes[k]
		}
	}
	cov := map[string]any{
		"states":                        explored,
		"cases":                         total.Evals,
		"distinct_observations":         states,
		"transitions":                   trans,
		"traces_validated_against_impl": validated,
		"evaluations":                   explored,
		"distinct_nontrivial":           distinct,
		"rule":                          cfg.Rule,
		"samples":                       samples,
		"exhaustive":                    exhaustive,
		"scenarios":                     total.PerScenario,
		"outcomes":                      total.Outcomes,
		"notes":                         total.Notes,
		"incomplete":                    total.Incomplete,
		"known_findings_matched":        knownSeen,
		"worker_deaths_attributed":      deaths,
		"unconfirmed_on_plain_build":    unconfirmed,
		"variant":                       cfg.Variant,
		"race_detector_runs":            raceRuns,
		"race_detector_reports":         raceReports,
		"build":                         buildInfo,
	}
	if explored < 1 {
		cov["states"] = 1
	}
	ev := map[string]any{
		"property_id": id, "tier": tier, "seed": seed, "level": "model_checking",
		"coverage": cov, "assumptions": cfg.Assume, "wall_s": time.Since(t0).Seconds(), "violations": violations,
	}
	os.MkdirAll(filepath.Join(verifRoot, "evidence"), 0o755)
	eb, _ := json.MarshalIndent(ev, "", " ")
	os.WriteFile(filepath.Join(verifRoot, "evidence", id+".json"), eb, 0o644)

	fmt.Printf("%s %s: cases=%d distinct_observations=%d transitions=%d validated_on_plain=%d known_findings=%d violations=%d exhaustive=%v wall=%.1fs\n",
		id, tier, total.Evals, distinct, total.Transitions, validated, len(kfLines), violations, exhaustive, time.Since(t0).Seconds())
	if len(total.Incomplete) > 0 {
		fmt.Printf("  incomplete: %s\n", strings.Join(total.Incomplete, "; "))
	}
	if violations > 0 {
		os.RemoveAll(work)
		os.Exit(1)
	}
}

func containsStr(l []string, s string) bool {
	for _, x := range l {
		if x == s {
			return true
		}
	}
	return false
}

func firstN(s string, n int) string {
	if len(s) > n {
		return s[:n] + "..."
	}
	return s
}

// validatePlain re-runs every stride-th case on the plain build (sharded over worker
// processes) and compares the per-case observation digests with the instrumented build's.
func validatePlain(plainBin, id, tier string, stride int, obs map[int]string, work string) (int, []fail) {
	const nw = 32
	results := make([]workerRun, nw)
	var wg sync.WaitGroup
	for i := 0; i < nw; i++ {
		wg.Add(1)
		go func(i int) {
			defer wg.Done()
			results[i] = runShard(plainBin, id, tier, i, nw, filepath.Join(work, fmt.Sprintf("plainhashes-%d.bin", i)), 20*time.Minute, 120*time.Second, true, []string{"-stride", strconv.Itoa(stride)})
		}(i)
	}
	wg.Wait()
	validated := 0
	var fails []fail
	for _, r := range results {
		died := map[int]string{}
		for _, f := range r.fails {
			if strings.HasPrefix(f.Class, "WORKER-DEATH") || strings.HasPrefix(f.Class, "TIMEOUT") {
				died[f.Index] = f.Class
			}
		}
		for g, cls := range died {
			want, ok := obs[g]
			if !ok {
				continue
			}
			if strings.Contains(want, "HOST-PANIC") || strings.Contains(want, "HANG") || strings.Contains(want, "DEADLOCK") {
				validated++
				continue
			}
			if strings.Contains(want, "volatile") {
				continue
			}
			fails = append(fails, fail{Class: "CONFORMANCE:plain build died", Index: g, Scenario: "conformance", Detail: fmt.Sprintf("instrumented observation %s; plain build: %s", want, cls)})
		}
		for g, got := range r.obs {
			if _, d := died[g]; d {
				continue
			}
			want, ok := obs[g]
			if !ok {
				continue
			}
			if got == want {
				validated++
				continue
			}
			if strings.Contains(got, "volatile") || strings.Contains(want, "volatile") {
				continue
			}
			fails = append(fails, fail{Class: "CONFORMANCE:observation differs between instrumented and plain build", Index: g, Scenario: "conformance", Detail: fmt.Sprintf("instrumented %s\nplain %s", want, got)})
		}
	}
	return validated, fails
}

type onlyResult struct {
	obs   string
	fails []fail
}

// runOnly runs a single case in an isolated worker process.
func runOnly(bin, id, tier string, g int, timeout time.Duration) (onlyResult, string, string) {
	var res onlyResult
	cmd := exec.Command("/bin/sh", "-c", "ulimit -v 25165824; exec \"$0\" \"$@\"", bin, "-check", id, "-tier", tier, "-only", strconv.Itoa(g), "-emitobs")
	pr, pw, _ := os.Pipe()
	cmd.ExtraFiles = []*os.File{pw}
	var stderr bytes.Buffer
	cmd.Stderr = &tailWriter{buf: &stderr, max: 16384}
	if err := cmd.Start(); err != nil {
		return res, "cannot start", ""
	}
	pw.Close()
	doneCh := make(chan struct{})
	var out []byte
	go func() { out, _ = io.ReadAll(pr); close(doneCh) }()
	timedOut := false
	select {
	case <-doneCh:
	case <-time.After(timeout):
		timedOut = true
		cmd.Process.Kill()
		<-doneCh
	}
	cmd.Wait()
	pr.Close()
	finished := false
	for _, l := range strings.Split(string(out), "\n") {
		switch {
		case strings.HasPrefix(l, "O "):
			if i := strings.IndexByte(l[2:], ' '); i > 0 {
				res.obs = l[3+i:]
			}
		case strings.HasPrefix(l, "F "):
			var f fail
			if json.Unmarshal([]byte(l[2:]), &f) == nil {
				res.fails = append(res.fails, f)
			}
		case strings.HasPrefix(l, "D "):
			finished = true
		}
	}
	if timedOut {
		return res, "TIMEOUT after " + timeout.String(), stderr.String()
	}
	if !finished {
		return res, "WORKER-DEATH:" + deathReason(stderr.String()), stderr.String()
	}
	return res, "", stderr.String()
}

// confirmFailures re-runs failing cases (a bounded number per class) on the plain build. A
// failure that does not reproduce there is dropped from the verdict and counted.
func confirmFailures(plainBin, id, tier string, fails []fail, validated int) ([]fail, int, int) {
	perClass := map[string]int{}
	confirmedClass := map[string]bool{}
	unconfirmedClass := map[string]bool{}
	type job struct{ i int }
	var jobs []int
	for i, f := range fails {
		if f.Index < 0 || strings.HasPrefix(f.Class, "CONFORMANCE") || strings.HasPrefix(f.Class, "WORKER-DEATH") || strings.HasPrefix(f.Class, "TIMEOUT") {
			continue
		}
		key := f.Class
		if perClass[key] >= 3 {
			continue
		}
		perClass[key]++
		jobs = append(jobs, i)
	}
	var mu sync.Mutex
	sem := make(chan struct{}, 32)
	var wg sync.WaitGroup
	for _, i := range jobs {
		wg.Add(1)
		sem <- struct{}{}
		go func(i int) {
			defer wg.Done()
			defer func() { <-sem }()
			f := fails[i]
			res, died, _ := runOnly(plainBin, id, tier, f.Index, 120*time.Second)
			ok := false
			if died != "" {
				ok = strings.HasPrefix(f.Class, "HOST-PANIC") || strings.HasPrefix(f.Class, "HANG") || strings.HasPrefix(f.Class, "DEADLOCK")
			} else {
				for _, pf := range res.fails {
					if pf.Class == f.Class {
						ok = true
					}
				}
			}
			key := f.Class
			mu.Lock()
			if ok {
				confirmedClass[key] = true
				validated++
			} else {
				unconfirmedClass[key] = true
			}
			mu.Unlock()
		}(i)
	}
	wg.Wait()
	var out []fail
	unconfirmed := 0
	for _, f := range fails {
		key := f.Class
		if unconfirmedClass[key] && !confirmedClass[key] {
			unconfirmed++
			fmt.Printf("UNCONFIRMED (not reproduced on the plain build, not counted): class=%s index=%d\n", f.Class, f.Index)
			continue
		}
		out = append(out, f)
	}
	return out, unconfirmed, validated
}

func doReplay(id, mainBin, plainBin, file string) int {
	b, err := os.ReadFile(file)
	if err != nil {
		die(2, "cannot read %s: %v", file, err)
	}
	var rp struct {
		Property string `json:"property"`
		Tier     string `json:"tier"`
		Index    int    `json:"index"`
		Class    string `json:"class"`
		Case     string `json:"case"`
	}
	if err := json.Unmarshal(b, &rp); err != nil {
		die(2, "bad replay file: %v", err)
	}
	if rp.Tier == "" {
		rp.Tier = "quick"
	}
	bin := plainBin
	if bin == "" || cfgs[id].Variant != "plain" && !cfgs[id].Validate {
		bin = mainBin
	}
	res, died, stderr := runOnly(bin, id, rp.Tier, rp.Index, 300*time.Second)
	fmt.Printf("replaying %s case %d (tier %s) on %s\n%s\n", id, rp.Index, rp.Tier, filepath.Base(filepath.Dir(bin)), rp.Case)
	if died != "" {
		fmt.Printf("worker: %s\n%s\n", died, lastLines(stderr, 25))
		fmt.Printf("VIOLATION property=%s replay=%s\n", id, file)
		return 1
	}
	for _, f := range res.fails {
		fmt.Printf("class=%s\n%s\n", f.Class, f.Detail)
	}
	if len(res.fails) > 0 {
		fmt.Printf("VIOLATION property=%s replay=%s\n", id, file)
		return 1
	}
	fmt.Println("no violation on the current tree")
	return 0
}
