package main

func init() {
	cfgs["C01"] = checkCfg{
		Variant: "sched", Validate: true,
		Stride: map[string]int{"quick": 50, "thorough": 25},
		Budget: dur(150, 1500),
		Rule:   "exhaustive enumeration of index-addressable program families (operators x boundary values x syntactic forms, expression trees, scoping, aliasing, control flow, calls, singletons, triggers); each program is printed, analysed, compiled and run on the real VM (default schedule of the controlled scheduler) and its observation compared with the reference evaluator; distinct = distinct VM observation records of accepted, specified programs",
		Assume: schedAssume,
	}
}

func init() {
	cfgs["C02"] = checkCfg{
		Variant: "sched", Validate: true,
		Stride: map[string]int{"quick": 50, "thorough": 25},
		Budget: dur(150, 1500),
		Rule:   "exhaustive enumeration of the shared program families plus the analyzer-defined domain (all syntactically valid small programs the real analyzer accepts) and a lattice of resource limits; every accepted program is run on both backends and must end in completion or an interrupt: never a Go panic, deadlock, livelock or poll-budget overrun; distinct = distinct (backend, observation) records",
		Assume: schedAssume,
	}
	cfgs["C04"] = checkCfg{
		Variant: "sched", Validate: true,
		Stride: map[string]int{"quick": 50, "thorough": 25},
		Budget: dur(150, 1500),
		Rule:   "exhaustive enumeration of the shared program families restricted to the fragment both backends implement; pure differential oracle: same output, same outcome class and kind, same uncaught message on the tree-walking interpreter and on the VM; distinct = distinct VM observation records",
		Assume: schedAssume,
	}
}

var schedExploreAssume = []string{
	"go toolchain, go build -overlay and go/packages are trusted",
	"scheduling points are the synchronisation operations the rewriter routes through vsched (locks, channel operations, select, sleep, go); unsynchronised memory accesses are not interleaved (covered only by the auxiliary free-running race-detector pass)",
	"the modelled primitive semantics (RWMutex writer preference, unbuffered/buffered channels, select with default, virtual sleep) match Go's",
	"hosts behave like the recording hosts of the harness",
}

func init() {
	cfgs["C17"] = checkCfg{
		Variant: "sched", Validate: false,
		Budget: dur(170, 1700),
		Rule:   "stateless depth-first exploration of ALL schedules of the real VM (cores as threads of a cooperative scheduler) within a delay bound (quick 2, thorough 3 non-default scheduling choices) for programs that spawn 1-3 cores, share globals, spawn from spawned cores and die with fatal errors; states = executions explored, transitions = scheduling choice points passed; every violating schedule is replayed twice and must reproduce; distinct = distinct (scenario, host-visible observation, final scheduler state) records",
		Assume: schedExploreAssume,
	}
}
