package main

func init() {
	cfgs["C01"] = checkCfg{
		Variant: "sched", Validate: true,
		Stride: map[string]int{"quick": 50, "thorough": 25},
		Budget: dur(150, 1500),
		Rule:   "exhaustive enumeration of index-addressable program families (operators x boundary values x syntactic forms, expression trees, scoping, aliasing, control flow, calls, singletons, triggers); each program is printed, analysed, compiled and run on the real VM (default schedule of the controlled scheduler) and its observation compared with the reference evaluator; distinct = distinct VM observation records of accepted, specified programs",
		Assume: schedAssume,
	}
}
