package main

func init() {
	cfgs["C01"] = checkCfg{
		Variant: "sched", Validate: true,
		Stride: map[string]int{"quick": 50, "thorough": 25},
		Budget: dur(150, 1500),
		Rule:   "exhaustive enumeration of index-addressable program families (operators x boundary values x syntactic forms, expression trees, scoping, aliasing, control flow, calls, singletons, triggers); each program is printed, analysed, compiled and run on the real VM (default schedule of the controlled scheduler) and its observation compared with the reference evaluator; distinct = distinct VM observation records of accepted, specified programs",
		Assume: schedAssume,
	}
}

func init() {
	cfgs["C02"] = checkCfg{
		Variant: "sched", Validate: true, RaceID: "C17R", // an unsynchronised access to a Go map is a host crash ("concurrent map writes")
		Stride: map[string]int{"quick": 50, "thorough": 25},
		Budget: dur(150, 1500),
		Rule:   "exhaustive enumeration of the shared program families plus the analyzer-defined domain (all syntactically valid small programs the real analyzer accepts) and a lattice of resource limits; every accepted program is run on both backends and must end in completion or an interrupt: never a Go panic, deadlock, livelock or poll-budget overrun; distinct = distinct (backend, observation) records",
		Assume: schedAssume,
	}
	cfgs["C04"] = checkCfg{
		Variant: "sched", Validate: true,
		Stride: map[string]int{"quick": 50, "thorough": 25},
		Budget: dur(150, 1500),
		Rule:   "exhaustive enumeration of the shared program families restricted to the fragment both backends implement; pure differential oracle: same output, same outcome class and kind, same uncaught message on the tree-walking interpreter and on the VM; distinct = distinct VM observation records",
		Assume: schedAssume,
	}
}

var schedExploreAssume = []string{
	"go toolchain, go build -overlay and go/packages are trusted",
	"scheduling points are the synchronisation operations the rewriter routes through vsched (locks, channel operations, select, sleep, go); unsynchronised memory accesses are not interleaved (covered only by the auxiliary free-running race-detector pass)",
	"the modelled primitive semantics (RWMutex writer preference, unbuffered/buffered channels, select with default, virtual sleep) match Go's",
	"hosts behave like the recording hosts of the harness",
}

func init() {
	cfgs["C17"] = checkCfg{
		Variant: "sched", Validate: false, RaceID: "C17R",
		Budget: dur(170, 1700),
		Rule:   "stateless depth-first exploration of ALL schedules of the real VM (cores as threads of a cooperative scheduler) within a delay bound (quick 3, thorough 4 non-default scheduling choices) for programs that spawn 1-3 cores, share globals, spawn from spawned cores and die with fatal errors; states = executions explored, transitions = scheduling choice points passed; every violating schedule is replayed twice and must reproduce; distinct = distinct (scenario, host-visible observation, final scheduler state) records. Auxiliary, NOT exhaustive: the same programs run free with real goroutines on a -race build (GOMAXPROCS 1/2/16 x 12 repetitions); any race-detector report is a violation",
		Assume: schedExploreAssume,
	}
}

func init() {
	cfgs["C16"] = checkCfg{
		Variant: "sched", Validate: false,
		Budget: dur(170, 1700),
		Rule:   "all histories of host invocations (SpawnSync by name with arguments, the host re-using its argument slices) of length <= 2 over a 13-call alphabet on ONE live VM (argument order, persistent globals, return from loop+try, uncaught throw, recursion, object result, caught throw), each under all schedules within a delay bound (quick 2, thorough 3; inspected variant 1/2), plus all histories of length 3 at delay bound 1 (thorough 2) and, thorough only, all histories of length 4 on the default schedule; oracle: per-call results equal the reference evaluator run on the same history, no residue (cores, locks, frames, handlers, operand stack, memory pointer, unfinished threads) after a completed call, failure instead of blocking after a failed call; deadlock/livelock are terminal scheduler states; states = executions, transitions = scheduling choice points",
		Assume: schedExploreAssume,
	}
}

func init() {
	cfgs["C10"] = checkCfg{
		Variant: "sched", Validate: false,
		Budget: dur(170, 1700),
		Rule:   "VM: the host's cancel() is a one-step low-priority thread, so 'cancel at scheduling point k' is exactly one deviation; ALL schedules within a delay bound (1 = every cancellation point of the default schedule; quick explores bound 2 = every cancellation point combined with one further scheduling deviation, thorough bound 3) for programs with infinite loops, try/catch loops, loops inside handlers, sleeping loops, unbounded recursion, finite programs and 1-2 spawned cores; the context additionally fires by itself after 12 cancellation polls so every execution is finite; oracle: Wait returns a termination interrupt (or the program's own outcome if it finished first), no thread is left blocked, at most one quantum of output after the cancel step, deadlock/livelock are terminal scheduler states. Interpreter: context reports done from its k-th poll on for every k; states = executions, transitions = scheduling points / polls",
		Assume: schedExploreAssume,
	}
}

func init() {
	cfgs["C11"] = checkCfg{
		Variant: "sched", Validate: true,
		Stride: map[string]int{"quick": 50, "thorough": 100},
		Budget: dur(170, 1700),
		Rule:   "all nestings of depth <= 3 (quick) / <= 4 (thorough) over {loop, while, for, block, if, else, match arm, try body, catch body, call, if-expression operand, closure} around each exit in {break, continue, return, return value, throw, fatal index error, none}; every level prints markers before/after its child, a global is mutated before the exit, and the program continues with reads of locals, another try/throw and a loop; oracle: output, outcome, caught message and position equal the reference evaluator on BOTH backends, VM residue (operand stack, memory pointer, frames, handlers, cores, locks) is zero at normal exit; distinct = distinct VM observation records",
		Assume: schedAssume,
	}
}

func init() {
	cfgs["C09"] = checkCfg{
		Variant: "sched", Validate: false,
		Budget: dur(170, 1700),
		Rule:   "programs P(d,e,v,shape): recursion depth d in {0..12}, right-nested expression depth e in {1..70}, v locals per frame in {0..8}, 5 loop shapes (plain, call in try, early return, break, caught throw per iteration), run with 1/3/40 (thorough: 600) loop iterations under EVERY limit triple of a lattice (each limit swept with the other two generous, plus the full cube of small values) on the VM, and under call limits 0..100 on the interpreter; differential oracle: never a host panic, completion with the reference output or the fatal interrupt corresponding to the small limit, monotone in every limit, independence of the iteration count, programs needing clearly more than a limit are stopped, zero residue; states = (program, limits, iterations) runs",
		Assume: schedAssume,
	}
}

func init() {
	cfgs["C14"] = checkCfg{
		Variant: "mapiter", Validate: false,
		Budget: dur(170, 1700),
		Rule:   "mapiter build: every range over a Go map in analyzer, compiler, value libraries, runtimes and optimizer is a choice point offering the rotations of the real iteration order (exactly the orders go1.23 can produce for maps with <= 8 entries); ALL executions of analyse+compile+run (VM and interpreter) deviating from the default order at <= 1 (quick) / <= 2 (thorough) dynamic ranges, for 14 programs (objects displayed/compared/serialised, any-objects, 2-3 modules with overlapping names, closures, unused variables, several type errors, singletons, types, imports); plus all schedules of main core vs. polling Wait within delay bound 2/3 for the same single-threaded programs; plus three rounds in one process; oracle: diagnostics (as a multiset), output and outcome identical to the default execution; states = executions, transitions = choice points passed",
		Assume: schedExploreAssume,
	}
}

func init() {
	cfgs["C15"] = checkCfg{
		Variant: "sched", Validate: true,
		Stride: map[string]int{"quick": 40, "thorough": 20},
		Budget: dur(170, 1700),
		Rule:   "module graphs: (F1) every visibility configuration of a library (f: absent/private/pub, g, v, type T) x every subset of items imported by main; (F2) every pair of library shapes x main shapes where several modules define the same private names (tag, cnt, helper, f), called once or twice; (F3) every subset of 12 candidate import edges over modules main/a/b/c incl. cycles through and not through main, self imports and a missing module; oracle = reference linker: error diagnostic iff an import is illegal (private/missing item, missing module, cycle); for legal graphs the output of both backends equals the expected one (each imported function runs its own body against its own module's globals, each module's globals initialised once); distinct = distinct (verdict, configuration) records",
		Assume: schedAssume,
	}
}

func init() {
	cfgs["C19"] = checkCfg{
		Variant: "sched", Validate: true,
		Stride: map[string]int{"quick": 200, "thorough": 200},
		Budget: dur(170, 1700),
		Rule:   "every program of the shared semantic families (quick: every 4th of the three largest families, all of the others; thorough: all) plus 19 printer-centric programs (every string escape, pub items, event functions, singletons, match defaults, any-object literals, float literals, nested blocks, string keys, complex types, precedence/grouping, casts, ranges, loops, closures, try/catch, spawn, options, compound assignments): Program.String() and AnalyzedProgram.String() must re-parse, be accepted, behave identically on the VM and be a fixed point after one round; optimizer.Optimize output must behave identically on VM and interpreter; distinct = distinct original VM observation records",
		Assume: schedAssume,
	}
}

func init() {
	cfgs["C20"] = checkCfg{
		Variant: "sched", Validate: false,
		Budget: dur(170, 1700),
		Rule:   "the transformer's rand.Source is a scripted source (constructor added through the build overlay) whose every draw is a choice point over a 19-value alphabet of raw 63-bit numbers (Intn(n) reaches every index for n <= 8, Shuffle every position); ALL draw sequences differing from the all-zero sequence in <= 1 (quick) / <= 2 (thorough) draws, for 1, 2 and 3 passes, over 8 input programs in the property's class (every statement and expression kind the transformer rewrites); each distinct variant text must be accepted by the analyzer and produce the original's output and outcome on the VM; states = draw sequences, distinct = distinct variant texts",
		Assume: append([]string{"math/rand maps raw source values to Intn/Shuffle results as in go1.23 (Int31n/int31n)"}, schedAssume...),
	}
}

func init() {
	cfgs["C08"] = checkCfg{
		Variant: "sched", Validate: false,
		Budget: dur(170, 1700),
		Rule:   "(A) every program of the shared semantic families that ends in an uncaught throw or a fatal error: the interrupt span on VM and interpreter is consistent with the file text (line/column/index agree, start <= end, inside the text), is not the whole-file position and lies within the culprit known from the IR printer (the throw call / the failing index or division expression); (B) 14 single-fault programs x 4 layouts (leading comments, unicode, block comment): the first error diagnostic lies within the culprit; (C) every base text of the printer/fuzzer/determinism inputs with ONE edit (delete, insert @, quote, brace, newline, non-ASCII letter, truncate) at every 3rd (quick) / every (thorough) character: every syntax error and diagnostic has a consistent span and Error.Display / Diagnostic.Display render without panic; distinct = distinct (kind, message/span) records",
		Assume: schedAssume,
	}
}
