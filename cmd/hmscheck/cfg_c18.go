package main

func init() {
	cfgs["C18"] = checkCfg{
		Variant: "sched", Validate: true,
		Stride: map[string]int{"quick": 20, "thorough": 40},
		Budget: dur(150, 1500),
		Rule: "exhaustive enumeration of the member table read from the analyzer at run time (ast.Type.Fields() of int, float, bool, str, null, range, [int], [str], [float], [[int]], [range], {?}, {a:int}, {a:int,b:str}, ?int, ?str; thorough adds [bool], [?int], [{?}], ?[int] and more scalar receivers) " +
			"x receivers {empty, one element, many} x argument tuples from boundary sets (indices {-len-1,-len,-1,0,len-1,len,len+1}, counts {-1,0,2}, strings {\"\", \"a\", separator present/absent}, an element that occurs / does not occur, lists {[], [x]}), plus indexing r[i] on lists and ASCII strings; " +
			"each case directly on both value libraries (Fields() + callback, IndexValue) and through a generated program on both backends. Oracle: the member exists; the result conforms to the advertised return type; result and receiver afterwards equal the reference semantics where the name fixes them " +
			"(len, push, pop, push_front, pop_front, insert, remove, contains, concat, join, sort, last, split, replace, repeat, starts_with, to_lower/upper, parse_*, compare_lev, rev, diff, start/end, to_range, is_int, trunc, round, is_some, is_none, unwrap, unwrap_or, expect, get, set, keys, to_string); " +
			"negative indices count from the end; out-of-range is answered with an interrupt; never a Go panic. distinct = distinct (route, type kind, member, argument class, outcome, result) records",
		Assume: schedAssume,
	}
}
