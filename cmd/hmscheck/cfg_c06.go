package main

func init() {
	cfgs["C06"] = checkCfg{
		Variant: "plain",
		Budget:  dur(150, 1500),
		Rule: "exhaustive enumeration of (a) every string of length <= 3 (quick) / <= 4 (thorough) over a 48-symbol alphabet chosen to collide with the scanner's shortcuts " +
			"(all operator characters, both quotes, backslash, _ $ @ # ~ ?, 0 1 9, a f x u U n, space, tab, CR, LF, a 2-byte and a 4-byte rune, NUL, a non-UTF-8 byte), " +
			"(b) every ordered pair of 140 lexemes (each operator, keyword, identifier/number/string/escape/comment shape, unterminated and illegal variants) joined by each of 7 separators, " +
			"(c) every ordered triple of the lexemes x separators (thorough) / of the 30 look-ahead lexemes (quick); " +
			"oracle per text: kinds, values and inclusive line/column/index spans and file name of every token from lexer.Lexer.NextToken equal those of the reference lexer transcribed from grammar.ebnf, " +
			"a text the reference rejects must be rejected (with equal tokens before the error), TokenKind.String must name every produced kind; " +
			"unclosed block comments and non-scalar escapes are masked (notes); at most 12 failing cases per (class,tags) and worker are listed, the remainder is counted in notes; " +
			"distinct = distinct (kind sequence, ending) observations of the real lexer",
		Assume: []string{
			"grammar.ebnf section Tokens plus the token inventory of lexer/token.go define the lexical language; \\\" and \\' are escapes (implemented on purpose)",
			"texts reach the lexer as Go strings; invalid UTF-8 is replaced rune-wise by U+FFFD before scanning (Go conversion semantics)",
		},
	}
}
