package main

func init() {
	cfgs["C13"] = checkCfg{
		Variant: "sched", Validate: true,
		Stride: map[string]int{"quick": 200, "thorough": 2000},
		Budget: dur(150, 1500),
		Rule: "bounded exhaustive enumeration per static type of depth <= 2 over {int,float,bool,str,null,range,{?},[T],?T,{a:T},{a:T,b:U}} of the full set of its values over the leaf alphabet " +
			"(ints 0,1,-1; floats 1.5, 2.0 (integral), 0.0; both bools; strings \"\", \"a\", \"é\"; ranges; lists of 0-2 elements; none/some; any-objects with key sets {}, {a}, {b}, {a,b} over dynamically typed values): " +
			"IsEqual of both value libraries on all ordered pairs (reflexive, symmetric, equal to the harness's structural equality) and on all triples (transitive, decided on the pair matrix); " +
			"runtime Clone() equal to the original and, for every mutation sequence of length <= 2 over {push, pop, set index, set field, any-object set, set option inner} applied to the value itself or to its first nested container, on either side, the other side unchanged; " +
			"to_json equal to the JSON image of the value and to_json -> parse_json -> typed cast equal to the value for JSON-representable values, both libraries; Display of both libraries identical (up to object field order); " +
			"the same laws through generated programs on both backends: `a == b`, `b == a`, `a != b`, `a == a` for all pairs of every type with <= 40 values, to_json / parse_json + annotated let / to_string per value, and independence of two evaluations of one literal. " +
			"distinct = distinct (scenario, type, size, equal-pair count) and program observation records",
		Assume: schedAssume,
	}
}
