//go:build !sched

package main

import (
	"context"
	"fmt"
	goruntime "runtime"
	"sync"

	hms "github.com/smarthome-go/homescript/v3/homescript"
	"github.com/smarthome-go/homescript/v3/homescript/runtime"
)

// C17R is the auxiliary free-running pass of C17: the same spawn programs are executed with real
// goroutines on a binary built with the Go race detector (the cooperative scheduler's hand-offs
// are happens-before edges, so races can only be observed free-running). It is NOT exhaustive:
// it samples real schedules with GOMAXPROCS 1, 2 and 16. The driver scans the worker's stderr
// for "WARNING: DATA RACE".

var raceProcs = []int{1, 2, 16}

const raceRepeats = 12

func init() {
	register("C17R", func() *Check {
		return &Check{ID: "C17R", Scenarios: []Scenario{{
			Name:  "free-running-race-detector-pass",
			Count: func(string) int { return len(c17Cases) * len(raceProcs) * raceRepeats },
			Run: func(_ string, idx int, r *Result) {
				d := radix(idx, raceRepeats, len(raceProcs), len(c17Cases))
				sc := c17Cases[d[2]]
				goruntime.GOMAXPROCS(raceProcs[d[1]])
				a := Analyze(map[string]string{"main": sc.Source}, true)
				if !a.Obs.Accepted() {
					return
				}
				prog, pmsg, _ := Compile(a)
				if pmsg != "" {
					return
				}
				buf := ""
				ex := hms.TestingVmExecutor{PrintBuf: &buf, PintBufMutex: &sync.Mutex{}}
				ctx, cancel := context.WithCancel(context.Background())
				vm := runtime.NewVM(prog, ex, &ctx, &cancel, vmScope(), schedLimits)
				vm.SpawnAsync(runtime.MainFn(), nil, nil, nil)
				_, i := vm.Wait()
				cancel()
				r.Trans(1)
				// a core may still be winding down after a fatal interrupt (known finding): read the
				// output under the executor's own lock like a well-behaved host
				ex.PintBufMutex.Lock()
				out := buf
				ex.PintBufMutex.Unlock()
				r.Distinct(fmt.Sprintf("%s|%d|%v|%s", sc.Name, raceProcs[d[1]], i != nil, sortedLines(out)))
				r.Outcome(fmt.Sprintf("procs=%d", raceProcs[d[1]]))
				if d[0] == 0 && d[1] == 0 {
					r.Sample(sc.Source + fmt.Sprintf("// free-running under the race detector, GOMAXPROCS in %v, %d repetitions each", raceProcs, raceRepeats))
				}
			},
		}}}
	})
}
