package main

import (
	"fmt"
	"strings"
)

// C15 F7, module and item names that run into one another when joined: module `a` with the item
// `b_f` next to module `a_b` with the item `f` (and longer chains of the same kind), module names
// with the `@` prefix and `:` segments the import syntax allows. Every imported function runs its
// own body against the globals of its own module; every global is its own.

var c15NameSets = [][][2]string{ // (module, item stem) of the modules of one program
	{{"a", "b_f"}, {"a_b", "f"}},
	{{"x", "y_z_f"}, {"x_y", "z_f"}, {"x_y_z", "f"}},
	{{"a_", "f"}, {"a", "_f"}},
	{{"m1", "0f"}, {"m", "10f"}}, // (item names get a letter in front: digits may not start an identifier)
	// the `@` prefix and `:` segments of module names (item names differ: equal item names in
	// several modules are the business of the same-names scenario)
	{{"@a", "f"}, {"a", "g"}},
	{{"x:a", "f"}, {"xa", "g"}, {"@x:a", "h"}},
	{{"a", "f"}, {"A", "F"}},
}

var c15NameKinds = []string{"functions", "globals", "functions-reading-their-globals", "functions-writing-their-globals", "private-helpers-called-inside-their-modules", "helpers-used-as-values-and-in-try"}

func c15F7Count() int { return len(c15NameSets) * len(c15NameKinds) * 2 }

func c15F7(idx int, r *Result) {
	d := radix(idx, 2, len(c15NameKinds), len(c15NameSets))
	reverse, kind, set := d[0] == 1, c15NameKinds[d[1]], c15NameSets[d[2]]
	mods := map[string]string{}
	var imports, body []string
	var want strings.Builder
	order := make([]int, len(set))
	for i := range set {
		order[i] = i
		if reverse {
			order[i] = len(set) - 1 - i
		}
	}
	for _, i := range order {
		mod, stem := set[i][0], set[i][1]
		item := stem
		if stem[0] >= '0' && stem[0] <= '9' {
			item = "k" + stem
		}
		tag := mod + "." + item
		alias := fmt.Sprintf("it%d", i) // (no aliasing in the language: items of equal names are imported one program each)
		_ = alias
		var lib string
		switch kind {
		case "functions":
			lib = fmt.Sprintf("pub fn %s() -> str { \"%s\" }\n", item, tag)
			body = append(body, fmt.Sprintf("    println(%s());", item))
			want.WriteString(tag + "\n")
		case "globals":
			lib = fmt.Sprintf("pub let %s = \"%s\";\n", item, tag)
			body = append(body, fmt.Sprintf("    println(%s);", item))
			want.WriteString(tag + "\n")
		case "functions-reading-their-globals":
			lib = fmt.Sprintf("let own_%d = \"own of %s\";\npub fn %s() -> str { own_%d }\n", i, tag, item, i)
			body = append(body, fmt.Sprintf("    println(%s());", item))
			want.WriteString("own of " + tag + "\n")
		case "private-helpers-called-inside-their-modules":
			// the colliding name is a private function every module calls itself; main enters through
			// a public function of a name of its own
			lib = fmt.Sprintf("fn %s() -> str { \"%s\" }\npub fn enter%d() -> str { %s() + \"!\" }\n", item, tag, i, item)
			item = fmt.Sprintf("enter%d", i)
			body = append(body, fmt.Sprintf("    println(%s());", item))
			want.WriteString(tag + "!\n")
		case "helpers-used-as-values-and-in-try":
			lib = fmt.Sprintf("fn %s() -> str { try { \"%s\" } catch e { \"never\" } }\npub fn enter%d() -> str { let h = %s; h() + \"?\" }\n", item, tag, i, item)
			item = fmt.Sprintf("enter%d", i)
			body = append(body, fmt.Sprintf("    println(%s());", item))
			want.WriteString(tag + "?\n")
		case "functions-writing-their-globals":
			lib = fmt.Sprintf("let count_%d = %d;\npub fn %s() -> int { count_%d += 1; count_%d }\n", i, 100*(i+1), item, i, i)
			body = append(body, fmt.Sprintf("    println(%s());\n    println(%s());", item, item))
			want.WriteString(fmt.Sprintf("%d\n%d\n", 100*(i+1)+1, 100*(i+1)+2))
		}
		mods[mod] = lib + "fn main() {}\n"
		imports = append(imports, fmt.Sprintf("import { %s } from %s;", item, mod))
	}
	// items of the same name cannot be imported into one module: such sets go one module per program
	seen := map[string]bool{}
	dup := false
	for _, s := range set {
		if seen[s[1]] {
			dup = true
		}
		seen[s[1]] = true
	}
	tags := []string{"colliding-names", "names:" + set[0][0] + "/" + set[0][1], "kind:" + kind, fmt.Sprintf("reversed:%v", reverse)}
	if dup {
		// one importer module per library, each called from main
		var mainImports, mainBody []string
		for n, i := range order {
			user := fmt.Sprintf("user%d", n)
			mods[user] = imports[n] + "\npub fn run" + fmt.Sprint(n) + "() {\n" + body[n] + "\n}\nfn main() {}\n"
			mainImports = append(mainImports, fmt.Sprintf("import { run%d } from %s;", n, user))
			mainBody = append(mainBody, fmt.Sprintf("    run%d();", n))
			_ = i
		}
		mods["main"] = strings.Join(mainImports, "\n") + "\nfn main() {\n" + strings.Join(mainBody, "\n") + "\n    println(\"end\");\n}\n"
	} else {
		mods["main"] = strings.Join(imports, "\n") + "\nfn main() {\n" + strings.Join(body, "\n") + "\n    println(\"end\");\n}\n"
	}
	want.WriteString("end\n")
	c15Judge(mods, true, want.String(), tags, r)
}
