package main

// C03 base families: operators x operand types x syntactic forms, and calls with arity
// 0-3.

import (
	"fmt"

	"hmsverif/internal/hs"
	"hmsverif/internal/reftype"
)

// ---------------------------------------------------------------- family: ops

type opPair struct {
	T  tyd
	op string
}

var c03OpPairsMemo = map[string][]opPair{}

// every (operand type, operator) pair the rules admit
func c03OpPairs(tier string) []opPair {
	if p, ok := c03OpPairsMemo[tier]; ok {
		return p
	}
	prims := c03Prims("all") // int float bool str range anyobj
	intD := prims[0]
	operands := append([]tyd{}, prims...)
	operands = append(operands, tList(intD), tOpt(intD), tObj1(intD), tObj2(intD, prims[3]))
	if tier == "thorough" {
		operands = append(operands, tList(tList(prims[3])), tOpt(tObj1(prims[1])), tList(tOpt(prims[2])))
	}
	var out []opPair
	for _, d := range operands {
		for _, op := range append(append([]string{}, intOps...), "&&", "||") {
			if reftype.InfixResult(d.t.K, op) != "" {
				out = append(out, opPair{d, op})
			}
		}
	}
	c03OpPairsMemo[tier] = out
	return out
}

const nOpForms = 18

func c03OpsCase(tier string, idx int) *c03Case {
	pairs := c03OpPairs(tier)
	d := radix(idx, nOpForms, len(pairs))
	form, pr := d[0], pairs[d[1]]
	T, op := pr.T, pr.op
	R := T.t
	same := reftype.InfixResult(T.t.K, op) == "same"
	if !same {
		R = hs.TBool
	}
	a, b := T.val(0), T.val(1)
	x := func() hs.Expr { return hs.Bin(op, T.val(0), T.val(1)) }
	tags := []string{"type:" + T.name, "op:" + op, fmt.Sprintf("form:%d", form)}
	compound := form >= 10
	if compound && !(same || (T.t.K == hs.KBool && (op == "|" || op == "&" || op == "^"))) {
		return nil
	}
	p := &hs.Program{}
	switch form {
	case 0: // literal operands
		p.Funcs = append(p.Funcs, mainFn(hs.LetT("r", R, x()), use("r")))
	case 1: // locals
		p.Funcs = append(p.Funcs, mainFn(hs.LetS("x", a), hs.LetS("y", b), hs.LetS("r", hs.Bin(op, hs.V("x"), hs.V("y"))), use("r")))
	case 2: // parameters, value returned through the tail
		p.Funcs = append(p.Funcs, mainFn(hs.LetT("r", R, hs.CallN("f", a, b)), use("r")),
			hs.Fn("f", R, hs.Blk(hs.Bin(op, hs.V("x"), hs.V("y"))), hs.P("x", T.t), hs.P("y", T.t)))
	case 3: // globals
		p.Globals = append(p.Globals, &hs.Let{Name: "gx", X: a}, &hs.Let{Name: "gy", X: b})
		p.Funcs = append(p.Funcs, mainFn(hs.LetS("r", hs.Bin(op, hs.V("gx"), hs.V("gy"))), use("r")))
	case 4: // constant global initialiser
		p.Globals = append(p.Globals, &hs.Let{Name: "g", T: R, X: x()})
		p.Funcs = append(p.Funcs, mainFn(use("g")))
	case 5: // condition / argument
		if R.K == hs.KBool {
			p.Funcs = append(p.Funcs, mainFn(&hs.ExprStmt{X: &hs.If{Cond: x(), Then: hs.Blk(nil, hs.Println(hs.S("t")))}}, &hs.While{Cond: x(), Body: hs.Blk(nil, &hs.Break{})}))
		} else {
			p.Funcs = append(p.Funcs, mainFn(hs.Println(x()), hs.ES(hs.CallN("f", x()))), hs.Fn("f", nil, hs.Blk(nil, use("v")), hs.P("v", R)))
		}
	case 6: // inside a closure
		p.Funcs = append(p.Funcs, mainFn(hs.LetS("k", fnLit(R, hs.Blk(x()))), hs.LetT("r", R, hs.CallE(hs.V("k"))), use("r")))
	case 7: // after a closure literal
		p.Funcs = append(p.Funcs, mainFn(hs.LetS("k", fnLit(hs.TStr, hs.Blk(hs.S("k")))), hs.LetT("r", R, x()), use("r"), use("k")))
	case 8: // returned
		p.Funcs = append(p.Funcs, mainFn(hs.LetS("r", hs.CallN("f")), use("r")), hs.Fn("f", R, hs.Blk(nil, &hs.Return{X: x()})))
	case 9: // element / field / nested operand
		st := []hs.Stmt{hs.LetS("l", hs.List(x(), x())), hs.LetS("o", &hs.ObjLit{Fields: []hs.ObjField{{Name: "f", X: x()}}}), use("l"), use("o")}
		if same {
			st = append(st, hs.LetT("n", R, hs.Bin(op, &hs.Group{X: x()}, b)), use("n"))
		} else {
			st = append(st, hs.LetT("n", hs.TBool, hs.Bin("==", x(), x())), use("n"))
		}
		p.Funcs = append(p.Funcs, mainFn(st...))
	case 10: // compound assignment to a local
		p.Funcs = append(p.Funcs, mainFn(hs.LetS("x", a), hs.ES(hs.Asg(op+"=", hs.V("x"), b)), use("x")))
	case 11: // ... to a global
		p.Globals = append(p.Globals, &hs.Let{Name: "gx", X: a})
		p.Funcs = append(p.Funcs, mainFn(hs.ES(hs.Asg(op+"=", hs.V("gx"), b)), use("gx")))
	case 12: // ... to a list element
		p.Funcs = append(p.Funcs, mainFn(hs.LetS("l", hs.List(a, b)), hs.ES(hs.Asg(op+"=", hs.Idx(hs.V("l"), hs.I(1)), b)), use("l")))
	case 13: // ... to an object field
		p.Funcs = append(p.Funcs, mainFn(hs.LetS("o", &hs.ObjLit{Fields: []hs.ObjField{{Name: "f", X: a}}}), hs.ES(hs.Asg(op+"=", hs.Mem(hs.V("o"), "f"), b)), use("o")))
	case 14: // ... to a captured variable inside a closure
		p.Funcs = append(p.Funcs, mainFn(hs.LetS("x", a), hs.LetS("k", fnLit(nil, hs.Blk(nil, hs.ES(hs.Asg(op+"=", hs.V("x"), b))))), hs.ES(hs.CallE(hs.V("k"))), use("x")))
	case 15: // ... inside a loop, after a closure
		p.Funcs = append(p.Funcs, mainFn(hs.LetS("x", a), hs.LetS("k", fnLit(hs.TInt, hs.Blk(hs.I(1)))),
			&hs.For{Var: "i", Iter: &hs.RangeLit{From: hs.I(0), To: hs.I(2)}, Body: hs.Blk(nil, hs.ES(hs.Asg(op+"=", hs.V("x"), b)), use("i"))}, use("x"), use("k")))
	case 16: // ... to a parameter
		p.Funcs = append(p.Funcs, mainFn(hs.ES(hs.CallN("f", a))), hs.Fn("f", nil, hs.Blk(nil, hs.ES(hs.Asg(op+"=", hs.V("v"), b)), use("v")), hs.P("v", T.t)))
	case 17: // ... to an annotated (aliased) variable
		p.Types = append(p.Types, &hs.TypeDef{Name: "A", T: T.t})
		p.Funcs = append(p.Funcs, mainFn(hs.LetT("x", hs.TNamed("A"), a), hs.ES(hs.Asg(op+"=", hs.V("x"), b)), use("x")))
	}
	if compound {
		tags = append(tags, "compound")
	}
	return single(p, tags...)
}

// ---------------------------------------------------------------- family: calls

type callSig struct {
	params []tyd
	ret    *tyd // nil: null
}

var c03SigMemo = map[string][]callSig{}

func c03Sigs(tier string) []callSig {
	if s, ok := c03SigMemo[tier]; ok {
		return s
	}
	prims := c03Prims("quick")
	pts := prims
	if tier == "thorough" {
		pts = append(append([]tyd{}, prims...), tList(prims[0]), tOpt(prims[3]), tObj1(prims[0]))
	}
	var rets []*tyd
	rets = append(rets, nil)
	for i := range pts {
		rets = append(rets, &pts[i])
	}
	var out []callSig
	for n := 0; n <= 3; n++ {
		cnt := 1
		for i := 0; i < n; i++ {
			cnt *= len(pts)
		}
		for c := 0; c < cnt; c++ {
			var ps []tyd
			x := c
			for i := 0; i < n; i++ {
				ps = append(ps, pts[x%len(pts)])
				x /= len(pts)
			}
			for _, r := range rets {
				out = append(out, callSig{ps, r})
			}
		}
	}
	c03SigMemo[tier] = out
	return out
}

const nCallKinds = 11

var pnames = []string{"a", "b", "c"}

func c03CallsCase(tier string, idx int) *c03Case {
	sigs := c03Sigs(tier)
	d := radix(idx, nCallKinds, len(sigs))
	kind, sg := d[0], sigs[d[1]]
	n := len(sg.params)
	var ret *hs.Type
	var retVal func() hs.Expr
	rname := "null"
	if sg.ret != nil {
		ret, rname = sg.ret.t, sg.ret.name
		retVal = func() hs.Expr { return sg.ret.val(0) }
	}
	args := func() []hs.Expr {
		var as []hs.Expr
		for i, pt := range sg.params {
			as = append(as, pt.val(i))
		}
		return as
	}
	var params []hs.Param
	var fields []hs.Field
	sigName := ""
	for i, pt := range sg.params {
		params = append(params, hs.P(pnames[i], pt.t))
		fields = append(fields, hs.Field{Name: pnames[i], T: pt.t})
		sigName += pt.name + ","
	}
	tags := []string{fmt.Sprintf("arity:%d", n), "sig:(" + sigName + ")->" + rname, fmt.Sprintf("kind:%d", kind)}
	// body of the callee: uses its parameters, yields the result
	body := func() *hs.Block {
		var st []hs.Stmt
		for i := range sg.params {
			st = append(st, use(pnames[i]))
		}
		if retVal != nil {
			return hs.Blk(retVal(), st...)
		}
		return hs.Blk(nil, st...)
	}
	// statement(s) consuming the call expression
	consume := func(call hs.Expr) []hs.Stmt {
		if ret == nil {
			return []hs.Stmt{hs.ES(call)}
		}
		return []hs.Stmt{hs.LetT("r", ret, call), use("r")}
	}
	p := &hs.Program{}
	switch kind {
	case 0: // top-level function, defined after its use
		p.Funcs = append(p.Funcs, mainFn(consume(hs.CallN("f", args()...))...), hs.Fn("f", ret, body(), params...))
	case 1: // closure held in a local
		st := []hs.Stmt{hs.LetS("k", fnLit(ret, body(), fields...))}
		p.Funcs = append(p.Funcs, mainFn(append(st, consume(hs.CallE(hs.V("k"), args()...))...)...))
	case 2: // function-typed parameter, closure argument
		ft := hs.TFn(ret, fields...)
		var inner hs.Expr = hs.CallE(hs.V("h"), args()...)
		var apBody *hs.Block
		if ret == nil {
			apBody = hs.Blk(nil, hs.ES(inner))
		} else {
			apBody = hs.Blk(inner)
		}
		p.Funcs = append(p.Funcs, mainFn(consume(hs.CallN("ap", fnLit(ret, body(), fields...)))...), hs.Fn("ap", ret, apBody, hs.P("h", ft)))
	case 3: // function-typed parameter, named function as argument
		ft := hs.TFn(ret, fields...)
		var inner hs.Expr = hs.CallE(hs.V("h"), args()...)
		var apBody *hs.Block
		if ret == nil {
			apBody = hs.Blk(nil, hs.ES(inner))
		} else {
			apBody = hs.Blk(inner)
		}
		p.Funcs = append(p.Funcs, mainFn(consume(hs.CallN("ap", hs.V("f")))...), hs.Fn("ap", ret, apBody, hs.P("h", ft)), hs.Fn("f", ret, body(), params...))
	case 4: // imported function
		lib := libProg()
		lib.Funcs = append(lib.Funcs, &hs.Func{Name: "f", Pub: true, Params: params, Ret: ret, Body: body()})
		p.Imports = append(p.Imports, hs.Import{Names: []string{"f"}, From: "lib"})
		p.Funcs = append(p.Funcs, mainFn(consume(hs.CallN("f", args()...))...))
		return withLib(p, lib, tags...)
	case 5: // function value bound to a variable
		st := []hs.Stmt{hs.LetS("g", hs.V("f"))}
		p.Funcs = append(p.Funcs, mainFn(append(st, consume(hs.CallE(hs.V("g"), args()...))...)...), hs.Fn("f", ret, body(), params...))
	case 6: // spawn (what a thread handle offers is not part of the rules: the handle is dropped)
		p.Funcs = append(p.Funcs, mainFn(hs.ES(&hs.Spawn{Fn: "f", Args: args()})), hs.Fn("f", ret, body(), params...))
	case 7: // recursion with an early return
		var rec hs.Stmt
		var as []hs.Expr
		for i := range sg.params {
			as = append(as, hs.V(pnames[i]))
		}
		if ret == nil {
			rec = &hs.ExprStmt{X: &hs.If{Cond: hs.V("stop"), Then: hs.Blk(nil, &hs.Return{})}}
		} else {
			rec = &hs.ExprStmt{X: &hs.If{Cond: hs.V("stop"), Then: hs.Blk(nil, &hs.Return{X: retVal()})}}
		}
		b := body()
		b.Stmts = append([]hs.Stmt{hs.LetS("stop", hs.B(true)), rec}, b.Stmts...)
		if ret == nil {
			b.Stmts = append(b.Stmts, hs.ES(hs.CallN("f", as...)))
		} else {
			b.Tail = hs.CallN("f", as...)
		}
		p.Funcs = append(p.Funcs, mainFn(consume(hs.CallN("f", args()...))...), hs.Fn("f", ret, b, params...))
	case 8: // called inside a closure that is defined inside a loop
		inner := consume(hs.CallN("f", args()...))
		p.Funcs = append(p.Funcs, mainFn(&hs.For{Var: "i", Iter: &hs.RangeLit{From: hs.I(0), To: hs.I(1)}, Body: hs.Blk(nil,
			hs.LetS("k", fnLit(nil, hs.Blk(nil, inner...))), hs.ES(hs.CallE(hs.V("k"))), use("i"))}), hs.Fn("f", ret, body(), params...))
	case 9: // functions in a list
		st := []hs.Stmt{hs.LetS("fs", hs.List(hs.V("f"), hs.V("f2")))}
		st = append(st, consume(hs.CallE(hs.Idx(hs.V("fs"), hs.I(1)), args()...))...)
		p.Funcs = append(p.Funcs, mainFn(st...), hs.Fn("f", ret, body(), params...), hs.Fn("f2", ret, body(), params...))
	case 10: // call after a closure literal, inside a function with a result
		st := []hs.Stmt{hs.LetS("k", fnLit(hs.TBool, hs.Blk(hs.B(true)))), use("k")}
		st = append(st, consume(hs.CallN("f", args()...))...)
		p.Funcs = append(p.Funcs, mainFn(hs.ES(hs.CallN("outer"))), hs.Fn("outer", hs.TInt, hs.Blk(hs.I(0), st...)), hs.Fn("f", ret, body(), params...))
	}
	return single(p, tags...)
}

func init() {
	c03Families = append(c03Families,
		c03Family{Name: "ops", Count: func(tier string) int { return nOpForms * len(c03OpPairs(tier)) }, Gen: c03OpsCase},
		c03Family{Name: "calls", Count: func(tier string) int { return nCallKinds * len(c03Sigs(tier)) }, Gen: c03CallsCase},
	)
}
