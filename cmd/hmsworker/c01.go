package main

import (
	"strings"

	"hmsverif/internal/hs"
)

const refBudget = 200000

// progScenario wraps an index-addressable program family into a scenario with the given
// per-program oracle.
type progFamily struct {
	Name  string
	Count func(tier string) int
	Gen   func(tier string, idx int) (progCase, bool)
}

func (f progFamily) scenario(oracle func(pc progCase, r *Result)) Scenario {
	return Scenario{Name: f.Name, Count: f.Count, Run: func(tier string, idx int, r *Result) {
		pc, ok := f.Gen(tier, idx)
		if !ok {
			r.Note("inapplicable", 1)
			return
		}
		oracle(pc, r)
	}}
}

// semanticFamilies are the program families shared by C01, C02, C04, C19 (each check applies
// its own oracle to every program).
var semanticFamilies []progFamily

func init() {
	semanticFamilies = append(semanticFamilies, progFamily{
		Name:  "S1-operators",
		Count: func(string) int { return opsCount() },
		Gen:   func(_ string, idx int) (progCase, bool) { return opsCase(idx) },
	})
}

// c01Oracle: the VM observation of an accepted program equals refsem's prediction.
func c01Oracle(pc progCase, r *Result) {
	markVolatile(pc, r)
	a := Analyze(map[string]string{"main": pc.P.Text}, true)
	if a.Obs.Class == "HOST-PANIC" {
		r.Note("analyzer-panic(C05)", 1)
		return
	}
	if !a.Obs.Accepted() {
		r.Note("rejected-by-analyzer", 1)
		msg := append(append([]string{}, a.Obs.Syntax...), a.Obs.Errors...)
		r.Note("rejected:"+r.cur+":"+normMsg(msg[0]), 1)
		return
	}
	ref := pc.eval()
	for _, t := range pc.Tags {
		if strings.HasPrefix(t, "unspec:") {
			ref.Unspec = t[7:]
		}
	}
	if ref.Unspec != "" {
		r.Note("unspecified:"+ref.Unspec, 1)
		return
	}
	o := RunVM(a, pc.opts())
	r.Trans(3)
	r.Outcome(o.Class)
	r.Obs(o)
	r.Distinct(o.Key())
	r.Sample(pc.P.Text)
	if class, detail := compareRef(ref, o, true); class != "" {
		class = refineArgOrder(class, pc, ref, o, true)
		r.Fail(class, append(append([]string{}, pc.Tags...), ref.Feat...), pc.P.Text, detail)
	}
}

func init() {
	register("C01", func() *Check {
		c := &Check{ID: "C01"}
		for _, f := range semanticFamilies {
			c.Scenarios = append(c.Scenarios, f.scenario(c01Oracle))
		}
		return c
	})
}

// refineArgOrder: when a program evaluates several effectful call arguments and the observation
// differs from the reference, check whether it equals the reference with arguments evaluated
// right to left (the VM's documented deviation); if so the failure gets its own class.
func refineArgOrder(class string, pc progCase, ref hs.RefObs, o Obs, residue bool) string {
	has := false
	for _, f := range ref.Feat {
		if f == "multi-arg-effects" {
			has = true
		}
	}
	if !has || strings.HasPrefix(class, "HOST-PANIC") || strings.HasPrefix(class, "HANG") {
		return class
	}
	alt := hs.EvalRTL(pc.Prog, &pc.P, refBudget)
	if alt.Unspec != "" {
		return class
	}
	if c2, _ := compareRef(alt, o, residue); c2 == "" {
		return "ARG-ORDER:call arguments evaluated right to left"
	}
	return class
}
