package main

import (
	"hmsverif/internal/hs"
)

// S5 reference/copy semantics: every (producer, mutator, mutated side) combination over
// scalars, lists and objects: scalars are copied, lists and objects are shared by reference.
// S6 `for` iterates over a snapshot of its iterable.

var aliasKinds = []string{"scalar", "list", "object"}
var aliasProducers = []string{"let", "assign", "argument", "return", "list-elem", "obj-field", "list-literal", "obj-literal", "for-var", "global", "nested-list"}
var aliasMutators = []string{"assign", "compound", "method-or-field", "reassign-whole"}
var aliasSides = []string{"mutate-copy", "mutate-original"}

func aliasCount() int {
	return len(aliasKinds) * len(aliasProducers) * len(aliasMutators) * len(aliasSides)
}

func aliasGen(idx int) (progCase, bool) {
	d := radix(idx, len(aliasSides), len(aliasMutators), len(aliasProducers), len(aliasKinds))
	side, mut, prod, kind := aliasSides[d[0]], aliasMutators[d[1]], aliasProducers[d[2]], aliasKinds[d[3]]
	prog := &hs.Program{}
	var typ *hs.Type
	var init, zero hs.Expr
	switch kind {
	case "scalar":
		typ, init, zero = hs.TInt, hs.I(1), hs.I(0)
	case "list":
		typ, init, zero = hs.TList(hs.TInt), hs.List(hs.I(1), hs.I(2)), hs.List(hs.I(0))
	case "object":
		typ = hs.TObj(hs.Field{Name: "f", T: hs.TInt})
		init = &hs.ObjLit{Fields: []hs.ObjField{{Name: "f", X: hs.I(1)}}}
		zero = &hs.ObjLit{Fields: []hs.ObjField{{Name: "f", X: hs.I(0)}}}
	}
	show := func(tag string, names ...string) hs.Stmt {
		args := []hs.Expr{hs.S(tag)}
		for _, n := range names {
			if kind == "object" {
				args = append(args, hs.Mem(hs.V(n), "f"))
			} else {
				args = append(args, hs.V(n))
			}
		}
		return hs.Println(args...)
	}
	// mutate(target name) -> statements
	mutate := func(n string) ([]hs.Stmt, bool) {
		t := hs.V(n)
		switch kind {
		case "scalar":
			switch mut {
			case "assign", "reassign-whole":
				return []hs.Stmt{hs.ES(hs.Asg("=", t, hs.I(9)))}, true
			case "compound":
				return []hs.Stmt{hs.ES(hs.Asg("+=", t, hs.I(8)))}, true
			}
			return nil, false
		case "list":
			switch mut {
			case "assign":
				return []hs.Stmt{hs.ES(hs.Asg("=", hs.Idx(t, hs.I(0)), hs.I(9)))}, true
			case "compound":
				return []hs.Stmt{hs.ES(hs.Asg("+=", hs.Idx(t, hs.I(0)), hs.I(8)))}, true
			case "method-or-field":
				return []hs.Stmt{hs.ES(hs.MCall(t, "push", hs.I(9)))}, true
			case "reassign-whole":
				return []hs.Stmt{hs.ES(hs.Asg("=", t, hs.List(hs.I(7))))}, true
			}
		case "object":
			switch mut {
			case "assign", "method-or-field":
				return []hs.Stmt{hs.ES(hs.Asg("=", hs.Mem(t, "f"), hs.I(9)))}, true
			case "compound":
				return []hs.Stmt{hs.ES(hs.Asg("+=", hs.Mem(t, "f"), hs.I(8)))}, true
			case "reassign-whole":
				return []hs.Stmt{hs.ES(hs.Asg("=", t, &hs.ObjLit{Fields: []hs.ObjField{{Name: "f", X: hs.I(7)}}}))}, true
			}
		}
		return nil, false
	}
	target := "b"
	if side == "mutate-original" {
		target = "a"
	}
	m, ok := mutate(target)
	if !ok {
		return progCase{}, false
	}
	var body []hs.Stmt
	tail := func() []hs.Stmt {
		out := append([]hs.Stmt{show("before", "a", "b")}, m...)
		return append(out, show("after", "a", "b"))
	}
	aName := "a"
	switch prod {
	case "let":
		body = append([]hs.Stmt{hs.LetS("a", init), hs.LetS("b", hs.V("a"))}, tail()...)
	case "assign":
		body = append([]hs.Stmt{hs.LetS("a", init), hs.LetS("b", zero), hs.ES(hs.Asg("=", hs.V("b"), hs.V("a")))}, tail()...)
	case "argument":
		// the callee mutates its parameter; the caller observes
		pm, _ := mutate("p")
		fbody := append([]hs.Stmt{}, pm...)
		if kind == "object" {
			fbody = append(fbody, hs.Println(hs.S("callee"), hs.Mem(hs.V("p"), "f")))
		} else {
			fbody = append(fbody, hs.Println(hs.S("callee"), hs.V("p")))
		}
		prog.Funcs = append(prog.Funcs, hs.Fn("mut", nil, hs.Blk(nil, fbody...), hs.P("p", typ)))
		body = []hs.Stmt{hs.LetS("a", init), hs.LetS("b", hs.V("a")), show("before", "a", "b"), hs.ES(hs.CallN("mut", hs.V(target))), show("after", "a", "b")}
	case "return":
		prog.Funcs = append(prog.Funcs, hs.Fn("id", typ, hs.Blk(hs.V("p")), hs.P("p", typ)))
		body = append([]hs.Stmt{hs.LetS("a", init), hs.LetS("b", hs.CallN("id", hs.V("a")))}, tail()...)
	case "list-elem":
		body = append([]hs.Stmt{hs.LetS("a", init), hs.LetS("l", hs.List(hs.V("a"))), hs.LetS("b", hs.Idx(hs.V("l"), hs.I(0)))}, tail()...)
		body = append(body, hs.Println(hs.S("l0"), elemShow(kind, hs.Idx(hs.V("l"), hs.I(0)))))
	case "obj-field":
		body = append([]hs.Stmt{hs.LetS("a", init), hs.LetS("o", &hs.ObjLit{Fields: []hs.ObjField{{Name: "g", X: hs.V("a")}}}), hs.LetS("b", hs.Mem(hs.V("o"), "g"))}, tail()...)
		body = append(body, hs.Println(hs.S("og"), elemShow(kind, hs.Mem(hs.V("o"), "g"))))
	case "list-literal":
		// the list literal element itself is the "copy"; mutate through the list
		if side == "mutate-copy" {
			lm, ok := mutateExpr(kind, mut, hs.Idx(hs.V("l"), hs.I(0)))
			if !ok {
				return progCase{}, false
			}
			body = []hs.Stmt{hs.LetS("a", init), hs.LetS("l", hs.List(hs.V("a"))), hs.Println(hs.S("before"), elemShow(kind, hs.V("a")), elemShow(kind, hs.Idx(hs.V("l"), hs.I(0))))}
			body = append(body, lm...)
			body = append(body, hs.Println(hs.S("after"), elemShow(kind, hs.V("a")), elemShow(kind, hs.Idx(hs.V("l"), hs.I(0)))))
		} else {
			am, _ := mutate("a")
			body = []hs.Stmt{hs.LetS("a", init), hs.LetS("l", hs.List(hs.V("a"))), hs.Println(hs.S("before"), elemShow(kind, hs.V("a")), elemShow(kind, hs.Idx(hs.V("l"), hs.I(0))))}
			body = append(body, am...)
			body = append(body, hs.Println(hs.S("after"), elemShow(kind, hs.V("a")), elemShow(kind, hs.Idx(hs.V("l"), hs.I(0)))))
		}
	case "obj-literal":
		if side == "mutate-copy" {
			lm, ok := mutateExpr(kind, mut, hs.Mem(hs.V("o"), "g"))
			if !ok {
				return progCase{}, false
			}
			body = []hs.Stmt{hs.LetS("a", init), hs.LetS("o", &hs.ObjLit{Fields: []hs.ObjField{{Name: "g", X: hs.V("a")}}}), hs.Println(hs.S("before"), elemShow(kind, hs.V("a")), elemShow(kind, hs.Mem(hs.V("o"), "g")))}
			body = append(body, lm...)
			body = append(body, hs.Println(hs.S("after"), elemShow(kind, hs.V("a")), elemShow(kind, hs.Mem(hs.V("o"), "g"))))
		} else {
			am, _ := mutate("a")
			body = []hs.Stmt{hs.LetS("a", init), hs.LetS("o", &hs.ObjLit{Fields: []hs.ObjField{{Name: "g", X: hs.V("a")}}}), hs.Println(hs.S("before"), elemShow(kind, hs.V("a")), elemShow(kind, hs.Mem(hs.V("o"), "g")))}
			body = append(body, am...)
			body = append(body, hs.Println(hs.S("after"), elemShow(kind, hs.V("a")), elemShow(kind, hs.Mem(hs.V("o"), "g"))))
		}
	case "for-var":
		// the loop variable is the copy
		inner := append([]hs.Stmt{show("before", "b")}, m...)
		if side == "mutate-original" {
			// mutate the source element through the list instead
			lm, ok := mutateExpr(kind, mut, hs.Idx(hs.V("l"), hs.I(0)))
			if !ok {
				return progCase{}, false
			}
			inner = append([]hs.Stmt{show("before", "b")}, lm...)
		}
		inner = append(inner, show("after", "b"))
		body = []hs.Stmt{hs.LetS("l", hs.List(init)), &hs.For{Var: "b", Iter: hs.V("l"), Body: hs.Blk(nil, inner...)}, hs.Println(hs.S("l0"), elemShow(kind, hs.Idx(hs.V("l"), hs.I(0))))}
	case "global":
		prog.Globals = append(prog.Globals, &hs.Let{Name: "ga", X: init})
		aName = "ga"
		gm, _ := mutate(map[string]string{"a": "ga", "b": "b"}[target])
		body = []hs.Stmt{hs.LetS("b", hs.V("ga")), show("before", "ga", "b")}
		body = append(body, gm...)
		body = append(body, show("after", "ga", "b"))
		prog.Funcs = append(prog.Funcs, hs.Fn("rd", nil, hs.Blk(nil, show("global", "ga"))))
		body = append(body, hs.ES(hs.CallN("rd")))
	case "nested-list":
		body = append([]hs.Stmt{hs.LetS("a", init), hs.LetS("ll", hs.List(hs.List(hs.V("a")))), hs.LetS("b", hs.Idx(hs.Idx(hs.V("ll"), hs.I(0)), hs.I(0)))}, tail()...)
	}
	_ = aName
	body = append(body, hs.Println(hs.S("end")))
	prog.Funcs = append(prog.Funcs, hs.Fn("main", nil, hs.Blk(nil, body...)))
	tags := []string{"alias:" + kind, "producer:" + prod, "mutator:" + mut, side}
	if prod == "for-var" && kind != "scalar" {
		// whether the snapshot a `for` iterates over is shallow or deep is not fixed by the property
		tags = append(tags, "unspec:for-snapshot-depth")
	}
	return mkCase(prog, tags...), true
}

func elemShow(kind string, e hs.Expr) hs.Expr {
	if kind == "object" {
		return hs.Mem(e, "f")
	}
	return e
}

func mutateExpr(kind, mut string, t hs.Expr) ([]hs.Stmt, bool) {
	switch kind {
	case "scalar":
		switch mut {
		case "assign", "reassign-whole":
			return []hs.Stmt{hs.ES(hs.Asg("=", t, hs.I(9)))}, true
		case "compound":
			return []hs.Stmt{hs.ES(hs.Asg("+=", t, hs.I(8)))}, true
		}
	case "list":
		switch mut {
		case "assign":
			return []hs.Stmt{hs.ES(hs.Asg("=", hs.Idx(t, hs.I(0)), hs.I(9)))}, true
		case "compound":
			return []hs.Stmt{hs.ES(hs.Asg("+=", hs.Idx(t, hs.I(0)), hs.I(8)))}, true
		case "method-or-field":
			return []hs.Stmt{hs.ES(hs.MCall(t, "push", hs.I(9)))}, true
		case "reassign-whole":
			return []hs.Stmt{hs.ES(hs.Asg("=", t, hs.List(hs.I(7))))}, true
		}
	case "object":
		switch mut {
		case "assign", "method-or-field":
			return []hs.Stmt{hs.ES(hs.Asg("=", hs.Mem(t, "f"), hs.I(9)))}, true
		case "compound":
			return []hs.Stmt{hs.ES(hs.Asg("+=", hs.Mem(t, "f"), hs.I(8)))}, true
		case "reassign-whole":
			return []hs.Stmt{hs.ES(hs.Asg("=", t, &hs.ObjLit{Fields: []hs.ObjField{{Name: "f", X: hs.I(7)}}}))}, true
		}
	}
	return nil, false
}

// ---------------------------------------------------------------- S6

var forIterables = []string{"list", "range", "str", "list-of-lists", "range-inclusive", "empty-list", "call-returning-shared-list", "call-returning-parameter", "field-of-object", "element-of-list", "grouped-variable",
	"range-descending", "range-descending-inclusive", "range-descending-inclusive-adjacent", "range-empty", "range-single-inclusive", "range-negative-bounds"}
var forBodies = []string{"read", "push-to-source", "set-source-elem", "reassign-source", "assign-loop-var", "pop-source", "nested-same-source", "break-first", "continue-odd", "break-then-reiterate", "return-then-reiterate", "throw-then-reiterate", "iterate-twice"}

func forCount() int { return len(forIterables) * len(forBodies) }

func forGen(idx int) (progCase, bool) {
	d := radix(idx, len(forBodies), len(forIterables))
	bodyKind, itKind := forBodies[d[0]], forIterables[d[1]]
	var src hs.Expr
	elemIsList := false
	switch itKind {
	case "list":
		src = hs.List(hs.I(1), hs.I(2), hs.I(3))
	case "empty-list":
		src = &hs.Cast{X: hs.List(), T: hs.TList(hs.TInt)}
		return progCase{}, false // literal typing of [] is C03's business
	case "range":
		src = &hs.RangeLit{From: hs.I(0), To: hs.I(3)}
	case "range-inclusive":
		src = &hs.RangeLit{From: hs.I(0), To: hs.I(3), Incl: true}
	case "range-descending":
		src = &hs.RangeLit{From: hs.I(3), To: hs.I(0)}
	case "range-descending-inclusive":
		src = &hs.RangeLit{From: hs.I(5), To: hs.I(1), Incl: true}
	case "range-descending-inclusive-adjacent":
		src = &hs.RangeLit{From: hs.I(3), To: hs.I(2), Incl: true}
	case "range-empty":
		src = &hs.RangeLit{From: hs.I(2), To: hs.I(2)}
	case "range-single-inclusive":
		src = &hs.RangeLit{From: hs.I(2), To: hs.I(2), Incl: true}
	case "range-negative-bounds":
		src = &hs.RangeLit{From: hs.I(-2), To: hs.I(2), Incl: true}
	case "str":
		src = hs.S("héy")
	case "list-of-lists":
		src = hs.List(hs.List(hs.I(1)), hs.List(hs.I(2)))
		elemIsList = true
	}
	// iterable expressions that are not a plain variable but yield a value that is still reachable
	// through the name `s` (the snapshot must be taken all the same)
	iterOf := func() hs.Expr { return hs.V("s") }
	var extraFuncs []*hs.Func
	var preLoop []hs.Stmt
	switch itKind {
	case "call-returning-shared-list":
		src = hs.List(hs.I(1), hs.I(2), hs.I(3))
		extraFuncs = append(extraFuncs, hs.Fn("shared", hs.TList(hs.TInt), hs.Blk(hs.V("G"))))
		iterOf = func() hs.Expr { return hs.CallN("shared") }
	case "call-returning-parameter":
		src = hs.List(hs.I(1), hs.I(2), hs.I(3))
		extraFuncs = append(extraFuncs, hs.Fn("same", hs.TList(hs.TInt), hs.Blk(hs.V("p")), hs.P("p", hs.TList(hs.TInt))))
		iterOf = func() hs.Expr { return hs.CallN("same", hs.V("s")) }
	case "field-of-object":
		src = hs.List(hs.I(1), hs.I(2), hs.I(3))
		preLoop = append(preLoop, hs.LetS("holder", &hs.ObjLit{Fields: []hs.ObjField{{Name: "items", X: hs.V("s")}}}))
		iterOf = func() hs.Expr { return hs.Mem(hs.V("holder"), "items") }
	case "element-of-list":
		src = hs.List(hs.I(1), hs.I(2), hs.I(3))
		preLoop = append(preLoop, hs.LetS("outer", hs.List(hs.V("s"))))
		iterOf = func() hs.Expr { return hs.Idx(hs.V("outer"), hs.I(0)) }
	case "grouped-variable":
		src = hs.List(hs.I(1), hs.I(2), hs.I(3))
		iterOf = func() hs.Expr { return &hs.Group{X: hs.V("s")} }
	}
	derived := len(extraFuncs) > 0 || len(preLoop) > 0 || itKind == "grouped-variable"
	isList := itKind == "list" || itKind == "list-of-lists" || derived
	var inner []hs.Stmt
	inner = append(inner, hs.Println(hs.S("it"), hs.V("x")))
	switch bodyKind {
	case "read":
	case "push-to-source":
		if !isList {
			return progCase{}, false
		}
		if elemIsList {
			inner = append(inner, hs.ES(hs.MCall(hs.V("s"), "push", hs.List(hs.I(9)))))
		} else {
			inner = append(inner, hs.ES(hs.MCall(hs.V("s"), "push", hs.I(9))))
		}
	case "pop-source":
		if !isList {
			return progCase{}, false
		}
		inner = append(inner, hs.ES(hs.MCall(hs.V("s"), "pop")))
	case "set-source-elem":
		if !isList {
			return progCase{}, false
		}
		if elemIsList {
			inner = append(inner, hs.ES(hs.Asg("=", hs.Idx(hs.V("s"), hs.I(-1)), hs.List(hs.I(9)))))
		} else {
			inner = append(inner, hs.ES(hs.Asg("=", hs.Idx(hs.V("s"), hs.I(-1)), hs.I(9))))
		}
	case "reassign-source":
		switch itKind {
		case "list":
			inner = append(inner, hs.ES(hs.Asg("=", hs.V("s"), hs.List(hs.I(7)))))
		case "list-of-lists":
			inner = append(inner, hs.ES(hs.Asg("=", hs.V("s"), hs.List(hs.List(hs.I(7))))))
		case "range", "range-inclusive", "range-descending", "range-descending-inclusive", "range-descending-inclusive-adjacent", "range-empty", "range-single-inclusive", "range-negative-bounds":
			inner = append(inner, hs.ES(hs.Asg("=", hs.V("s"), &hs.RangeLit{From: hs.I(0), To: hs.I(1)})))
		case "str":
			inner = append(inner, hs.ES(hs.Asg("=", hs.V("s"), hs.S("z"))))
		}
	case "assign-loop-var":
		switch {
		case elemIsList:
			inner = append(inner, hs.ES(hs.MCall(hs.V("x"), "push", hs.I(5))), hs.Println(hs.S("x"), hs.V("x")))
		case itKind == "str":
			inner = append(inner, hs.ES(hs.Asg("=", hs.V("x"), hs.S("q"))), hs.Println(hs.S("x"), hs.V("x")))
		default:
			inner = append(inner, hs.ES(hs.Asg("=", hs.V("x"), hs.I(50))), hs.Println(hs.S("x"), hs.V("x")))
		}
	case "nested-same-source":
		inner = append(inner, &hs.For{Var: "y", Iter: iterOf(), Body: hs.Blk(nil, hs.Println(hs.S("in"), hs.V("x"), hs.V("y")))})
	case "break-then-reiterate", "return-then-reiterate", "throw-then-reiterate", "iterate-twice":
	case "break-first":
		inner = append(inner, &hs.Break{})
	case "continue-odd":
		inner = append([]hs.Stmt{hs.ES(hs.Asg("+=", hs.V("n"), hs.I(1))), hs.ES(&hs.If{Cond: hs.Bin("==", hs.Bin("%", hs.V("n"), hs.I(2)), hs.I(1)), Then: hs.Blk(nil, &hs.Continue{})})}, inner...)
	}
	body := []hs.Stmt{hs.LetS("s", src), hs.LetS("n", hs.I(0)), &hs.For{Var: "x", Iter: iterOf(), Body: hs.Blk(nil, inner...)}, hs.Println(hs.S("src"), hs.V("s")), hs.Println(hs.S("end"))}
	prog := &hs.Program{}
	again := &hs.For{Var: "y", Iter: iterOf(), Body: hs.Blk(nil, hs.Println(hs.S("again"), hs.V("y")))}
	switch bodyKind {
	case "break-then-reiterate":
		// leave the first loop early, then iterate the SAME stored value again (twice)
		first := &hs.For{Var: "x", Iter: iterOf(), Body: hs.Blk(nil, hs.Println(hs.S("it"), hs.V("x")), hs.ES(hs.Asg("+=", hs.V("n"), hs.I(1))), hs.ES(&hs.If{Cond: hs.Bin("==", hs.V("n"), hs.I(2)), Then: hs.Blk(nil, &hs.Break{})}))}
		body = []hs.Stmt{hs.LetS("s", src), hs.LetS("n", hs.I(0)), first, again, &hs.For{Var: "z", Iter: iterOf(), Body: hs.Blk(nil, hs.Println(hs.S("third"), hs.V("z")), &hs.Break{})}, again, hs.Println(hs.S("end"))}
	case "iterate-twice":
		body = []hs.Stmt{hs.LetS("s", src), &hs.For{Var: "x", Iter: iterOf(), Body: hs.Blk(nil, hs.Println(hs.S("it"), hs.V("x")))}, again, hs.Println(hs.S("end"))}
	case "return-then-reiterate":
		var pt *hs.Type
		switch itKind {
		case "list":
			pt = hs.TList(hs.TInt)
		case "list-of-lists":
			pt = hs.TList(hs.TList(hs.TInt))
		case "range", "range-inclusive", "range-descending", "range-descending-inclusive", "range-descending-inclusive-adjacent", "range-empty", "range-single-inclusive", "range-negative-bounds":
			pt = hs.TRange
		case "str":
			pt = hs.TStr
		default:
			pt = hs.TList(hs.TInt)
		}
		prog.Funcs = append(prog.Funcs, hs.Fn("firstOf", nil, hs.Blk(nil, &hs.For{Var: "x", Iter: hs.V("q"), Body: hs.Blk(nil, hs.Println(hs.S("first"), hs.V("x")), &hs.Return{})}), hs.P("q", pt)))
		body = []hs.Stmt{hs.LetS("s", src), hs.ES(hs.CallN("firstOf", hs.V("s"))), hs.ES(hs.CallN("firstOf", hs.V("s"))), again, hs.Println(hs.S("end"))}
	case "throw-then-reiterate":
		thr := &hs.For{Var: "x", Iter: iterOf(), Body: hs.Blk(nil, hs.Println(hs.S("it"), hs.V("x")), hs.ES(hs.CallN("throw", hs.S("stop"))))}
		body = []hs.Stmt{hs.LetS("s", src), hs.ES(&hs.Try{Body: hs.Blk(nil, thr), Var: "e", Catch: hs.Blk(nil, hs.Println(hs.S("caught"), hs.Mem(hs.V("e"), "message")))}), again, hs.Println(hs.S("end"))}
	}
	if derived {
		// insert the statements that create the derived holder right after `let s = ...;`
		for i, st := range body {
			if l, ok := st.(*hs.Let); ok && l.Name == "s" {
				if itKind == "call-returning-shared-list" {
					prog.Globals = append(prog.Globals, &hs.Let{Name: "G", X: l.X})
					body[i] = hs.LetS("s", hs.V("G"))
				}
				rest := append([]hs.Stmt{}, body[i+1:]...)
				body = append(append(body[:i+1:i+1], preLoop...), rest...)
				break
			}
		}
		prog.Funcs = append(prog.Funcs, extraFuncs...)
	}
	prog.Funcs = append(prog.Funcs, hs.Fn("main", nil, hs.Blk(nil, body...)))
	tags := []string{"for:" + itKind, "body:" + bodyKind}
	if itKind == "list-of-lists" && bodyKind == "assign-loop-var" {
		tags = append(tags, "unspec:for-snapshot-depth")
	}
	return mkCase(prog, tags...), true
}

func init() {
	semanticFamilies = append(semanticFamilies,
		progFamily{Name: "S5-reference-copy", Count: func(string) int { return aliasCount() }, Gen: func(_ string, idx int) (progCase, bool) { return aliasGen(idx) }},
		progFamily{Name: "S6-for-snapshot", Count: func(string) int { return forCount() }, Gen: func(_ string, idx int) (progCase, bool) { return forGen(idx) }},
	)
}
