package main

import "strings"

// An exhaustive enumeration turns one root cause into a very large number of failing cases.
// capFail reports at most failCap failures per (class, tags) group and worker process; the
// remainder is only counted (note "failures-not-listed:<class>"), which keeps the result
// stream and the driver's memory bounded on a tree with many open defects. The verdict is
// unaffected: every group that fails at all is reported.
const failCap = 40

var failSeen = map[string]int{}

func capFail(r *Result, class string, tags []string, cas, detail string) {
	k := class + "\x00" + strings.Join(tags, ",")
	failSeen[k]++
	if failSeen[k] > failCap {
		c := class
		if len(c) > 60 {
			c = c[:60]
		}
		r.Note("failures-not-listed:"+c, 1)
		return
	}
	r.Fail(class, tags, cas, detail)
}
