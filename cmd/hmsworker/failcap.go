package main

import (
	"regexp"
	"strings"
)

// An exhaustive enumeration turns one root cause into a very large number of failing cases.
// capFail reports at most failCap failures per (class, tags) group and worker process; the
// remainder is only counted (note "failures-not-listed:<class>"), which keeps the result
// stream and the driver's memory bounded on a tree with many open defects. The verdict is
// unaffected: every group that fails at all is reported.
const failCap = 40

var failSeen = map[string]int{}

func capFail(r *Result, class string, tags []string, cas, detail string) {
	class = stableClass(class)
	k := class + "\x00" + strings.Join(tags, ",")
	failSeen[k]++
	if failSeen[k] > failCap {
		c := class
		if len(c) > 60 {
			c = c[:60]
		}
		r.Note("failures-not-listed:"+c, 1)
		return
	}
	r.Fail(class, tags, cas, detail)
}

var rePtr = regexp.MustCompile(`#x[0-9a-f#]+`)

// stableClass removes what is left of pointer values in a (digit-normalised) crash class so
// that the class is the same in every process.
func stableClass(c string) string {
	// the interpreter's "variable not found" panic dumps its scope maps (pointers, map order)
	if i := strings.Index(c, " | ModuleName:"); i >= 0 {
		c = c[:i]
	}
	return rePtr.ReplaceAllString(c, "<ptr>")
}
