package main

// C18 "Every builtin member the analyzer offers exists and behaves as typed".
//
// Space: the member table {type} x {members of ast.Type.Fields()} is read from the analyzer
// at run time (new members are picked up), for receivers {empty, one element, many} and
// argument tuples from boundary sets; plus indexing `r[i]` on lists and strings. Every case
// is checked on both value libraries directly (Fields() + callback) and through a generated
// one-line program on both backends.
// Oracle: the member exists; the result's dynamic shape conforms to the advertised return
// type; results (and the receiver afterwards) equal the reference semantics where the name
// fixes them; negative indices count from the end; out-of-range answers with an interrupt;
// never a Go panic.

import (
	"fmt"
	"math"
	"sort"
	"strconv"
	"strings"
	"unicode/utf8"

	"github.com/smarthome-go/homescript/v3/homescript/analyzer/ast"
	herrors "github.com/smarthome-go/homescript/v3/homescript/errors"
	ivalue "github.com/smarthome-go/homescript/v3/homescript/interpreter/value"
	"github.com/smarthome-go/homescript/v3/homescript/runtime/value"
)

// fromAst converts an analyzer type into the model (unknown / never / fn: any).
func fromAst(t ast.Type) *mtype {
	if t == nil {
		return mtNull
	}
	switch t.Kind() {
	case ast.IntTypeKind:
		return mtInt
	case ast.FloatTypeKind:
		return mtFloat
	case ast.BoolTypeKind:
		return mtBool
	case ast.StringTypeKind:
		return mtStr
	case ast.NullTypeKind:
		return mtNull
	case ast.RangeTypeKind:
		return mtRange
	case ast.AnyObjectTypeKind:
		return mtAnyObj
	case ast.ListTypeKind:
		return mtList(fromAst(t.(ast.ListType).Inner))
	case ast.OptionTypeKind:
		return mtOpt(fromAst(t.(ast.OptionType).Inner))
	case ast.ObjectTypeKind:
		o := &mtype{K: tObj}
		fs := t.(ast.ObjectType).ObjFields
		sort.Slice(fs, func(i, j int) bool { return fs[i].FieldName.Ident() < fs[j].FieldName.Ident() })
		for _, f := range fs {
			o.FNames = append(o.FNames, f.FieldName.Ident())
			o.FTypes = append(o.FTypes, fromAst(f.Type))
		}
		return o
	}
	return mtAny
}

// ---------------------------------------------------------------- case table

type c18Case struct {
	T      *mtype
	Recv   *mval
	Member string
	Via    string // call | field | index
	Params []string
	Args   []*mval
	Ret    *mtype
}

type c18Recv struct {
	T     *mtype
	Recvs []*mval
}

func c18Receivers(tier string) []c18Recv {
	rs := []c18Recv{
		{mtInt, []*mval{vI(0), vI(3), vI(-2)}},
		{mtFloat, []*mval{vF(1.5), vF(2.0), vF(-0.5)}},
		{mtBool, []*mval{vB(true), vB(false)}},
		{mtStr, []*mval{vS(""), vS("a"), vS("a,b,c"), vS("12"), vS("äbc"), vS("é"), vS(c18LongNonASCII)}},
		{mtNull, []*mval{vNull()}},
		{mtRange, []*mval{vRange(0, 0), vRange(0, 1), vRange(0, 3), vRange(3, 0)}},
		{mtList(mtInt), []*mval{vL(), vL(vI(1)), vL(vI(3), vI(1), vI(2))}},
		{mtList(mtStr), []*mval{vL(), vL(vS("a")), vL(vS("b"), vS("a"), vS("c")), vL(vS(""), vS("b"), vS("")), vL(vS(""), vS(""), vS("x")), vL(vS(""))}},
		{mtList(mtFloat), []*mval{vL(), vL(vF(1.5)), vL(vF(2.5), vF(1.5), vF(2.0))}},
		{mtList(mtList(mtInt)), []*mval{vL(), vL(vL()), vL(vL(vI(1)), vL(), vL(vI(1), vI(2)))}},
		{mtList(mtRange), []*mval{vL(), vL(vRange(0, 2))}},
		{mtList(mtBool), []*mval{vL(), vL(vB(true)), vL(vB(true), vB(false), vB(true))}},
		{mtList(mtNull), []*mval{vL(), vL(vNull(), vNull())}},
		{mtList(mtObj("a", mtInt)), []*mval{vL(), vL(vO("a", vI(2)), vO("a", vI(1)))}},
		{mtAnyObj, []*mval{vAO(), vAO("a", vI(1)), vAO("a", vI(1), "b", vS("x"), "c", vL(vI(1)))}},
		{mtObj("a", mtInt), []*mval{vO("a", vI(1))}},
		{mtObj("a", mtInt, "b", mtStr), []*mval{vO("a", vI(1), "b", vS("x"))}},
		// an own field named like a builtin member of objects: the declared field is what the name means
		{mtObj("other", mtStr, "to_string", mtInt), []*mval{vO("other", vS("x"), "to_string", vI(3))}},
		{mtOpt(mtInt), []*mval{vNone(), vSome(vI(1))}},
		{mtOpt(mtStr), []*mval{vNone(), vSome(vS("a"))}},
	}
	if tier == "thorough" {
		rs = append(rs,
			c18Recv{mtList(mtOpt(mtInt)), []*mval{vL(), vL(vNone()), vL(vSome(vI(1)), vNone(), vSome(vI(2)))}},
			c18Recv{mtList(mtAnyObj), []*mval{vL(), vL(vAO("a", vI(1)))}},
			c18Recv{mtOpt(mtList(mtInt)), []*mval{vNone(), vSome(vL()), vSome(vL(vI(1)))}},
			c18Recv{mtStr, []*mval{vS("A b"), vS("1.5"), vS("true")}},
			c18Recv{mtInt, []*mval{vI(math.MaxInt64)}},
			c18Recv{mtFloat, []*mval{vF(1e300), vF(2.5), vF(-1.5)}},
		)
	}
	return rs
}

// c18LongNonASCII: 12 characters, 36 bytes: the two ways of counting differ by more than any
// small constant
const c18LongNonASCII = "€€€€€€€€€€€€"

// recvIndexSet: boundary indices of the receiver; for a string both its byte length and its
// character count are boundaries.
func recvIndexSet(v *mval) []*mval {
	out := indexSet(recvLen(v))
	if v.K == mStr && utf8.RuneCountInString(v.S) != len(v.S) {
		seen := map[int64]bool{}
		for _, i := range out {
			seen[i.I] = true
		}
		for _, i := range indexSet(utf8.RuneCountInString(v.S)) {
			if !seen[i.I] {
				out = append(out, i)
			}
		}
	}
	return out
}

func recvLen(v *mval) int {
	switch v.K {
	case mList:
		return len(v.Elems)
	case mStr:
		return len(v.S)
	}
	return 0
}

func indexSet(n int) []*mval {
	seen := map[int]bool{}
	var out []*mval
	for _, i := range []int{-n - 1, -n, -1, 0, n - 1, n, n + 1} {
		if !seen[i] {
			seen[i] = true
			out = append(out, vI(int64(i)))
		}
	}
	return out
}

// argSet is the boundary set for one parameter.
func argSet(recv *mval, member, pname string, pt ast.Type, tier string) []*mval {
	switch pt.Kind() {
	case ast.IntTypeKind:
		if strings.Contains(pname, "index") || pname == "upper" {
			return recvIndexSet(recv)
		}
		return []*mval{vI(-1), vI(0), vI(2)}
	case ast.StringTypeKind:
		out := []*mval{vS(""), vS("a"), vS(",")}
		if recv.K == mAnyObj {
			out = []*mval{vS(""), vS("a"), vS("zz")}
		}
		return out
	case ast.FloatTypeKind:
		return []*mval{vF(0), vF(1.5)}
	case ast.BoolTypeKind:
		return []*mval{vB(true)}
	case ast.UnknownTypeKind, ast.AnyTypeKind:
		return []*mval{vI(7), vS("s")}
	case ast.ListTypeKind:
		el := fromAst(pt.(ast.ListType).Inner)
		return []*mval{vL(), vL(freshFor(el))}
	}
	// element-typed parameters: one value that occurs in the receiver, one that does not
	t := fromAst(pt)
	out := []*mval{freshFor(t)}
	if recv.K == mList && len(recv.Elems) > 0 && conforms(recv.Elems[len(recv.Elems)-1], t) {
		out = append(out, recv.Elems[len(recv.Elems)-1].clone())
	}
	if recv.K == mOpt && recv.Inner != nil && conforms(recv.Inner, t) {
		out = append(out, recv.Inner.clone())
	}
	return out
}

var c18Cache = map[string][]c18Case{}

func c18Cases(tier string) []c18Case {
	if c, ok := c18Cache[tier]; ok {
		return c
	}
	var out []c18Case
	for _, rs := range c18Receivers(tier) {
		fields := rs.T.astType().Fields(noSpan)
		names := make([]string, 0, len(fields))
		for n := range fields {
			names = append(names, n)
		}
		sort.Strings(names)
		for _, recv := range rs.Recvs {
			for _, n := range names {
				ft, isFn := fields[n].(ast.FunctionType)
				if !isFn {
					out = append(out, c18Case{T: rs.T, Recv: recv, Member: n, Via: "field", Ret: fromAst(fields[n])})
					continue
				}
				np, ok := ft.Params.(ast.NormalFunctionTypeParamKindIdentifier)
				if !ok {
					continue
				}
				tuples := [][]*mval{{}}
				var pnames []string
				for _, p := range np.Params {
					pnames = append(pnames, p.Name.Ident())
					var next [][]*mval
					for _, tu := range tuples {
						for _, a := range argSet(recv, n, p.Name.Ident(), p.Type, tier) {
							next = append(next, append(append([]*mval{}, tu...), a))
						}
					}
					tuples = next
				}
				for _, tu := range tuples {
					out = append(out, c18Case{T: rs.T, Recv: recv, Member: n, Via: "call", Params: pnames, Args: tu, Ret: fromAst(ft.ReturnType)})
				}
			}
			// indexing
			if rs.T.K == mkList || rs.T.K == tStr {
				ret := mtStr
				if rs.T.K == mkList {
					ret = rs.T.Elem
				}
				for _, i := range recvIndexSet(recv) {
					out = append(out, c18Case{T: rs.T, Recv: recv, Member: "[]", Via: "index", Params: []string{"index"}, Args: []*mval{i}, Ret: ret})
				}
			}
		}
	}
	c18Cache[tier] = out
	return out
}

// ---------------------------------------------------------------- reference semantics

type c18Ref struct {
	Status string // ok | interrupt | ok-or-interrupt | unspec (only kind + no panic)
	Res    *mval
	Post   *mval  // receiver afterwards (nil: unchanged)
	Check  string // "" exact | "prefix" | "set"
}

func normIndex(i int64, n int, inclusiveEnd bool) (int, bool) {
	if i < 0 {
		i += int64(n)
	}
	hi := int64(n)
	if inclusiveEnd {
		hi++
	}
	if i < 0 || i >= hi {
		return 0, false
	}
	return int(i), true
}

func lev(a, b string) int {
	ra, rb := []rune(a), []rune(b)
	prev := make([]int, len(rb)+1)
	for j := range prev {
		prev[j] = j
	}
	for i := 1; i <= len(ra); i++ {
		cur := make([]int, len(rb)+1)
		cur[0] = i
		for j := 1; j <= len(rb); j++ {
			c := prev[j-1]
			if ra[i-1] != rb[j-1] {
				c++
			}
			if prev[j]+1 < c {
				c = prev[j] + 1
			}
			if cur[j-1]+1 < c {
				c = cur[j-1] + 1
			}
			cur[j] = c
		}
		prev = cur
	}
	return prev[len(rb)]
}

func optOf(v *mval) *mval {
	if v == nil {
		return vNone()
	}
	return vSome(v)
}

// c18Reference: what the member's name (and the statement's index rule) prescribe.
func c18Reference(c c18Case) c18Ref {
	r := c.Recv
	a := c.Args
	ok := func(v *mval) c18Ref { return c18Ref{Status: "ok", Res: v} }
	mut := func(res, post *mval) c18Ref { return c18Ref{Status: "ok", Res: res, Post: post} }
	disp := func(v *mval) *mval { return vS(displays(v)[0]) }
	if c.Via == "field" {
		switch {
		case r.K == mRange && c.Member == "start":
			return ok(vI(r.Lo))
		case r.K == mRange && c.Member == "end":
			return ok(vI(r.Hi))
		case r.K == mObj:
			return ok(r.field(c.Member))
		}
		return c18Ref{Status: "unspec"}
	}
	if c.Via == "index" {
		if r.K == mStr && utf8.RuneCountInString(r.S) != len(r.S) {
			// whether a non-ASCII string is indexed by byte or by character is left open; only the
			// "never a crash, result of the advertised kind or an interrupt" part is judged
			return c18Ref{Status: "unspec"}
		}
		i, in := normIndex(a[0].I, recvLen(r), false)
		if !in {
			return c18Ref{Status: "interrupt"}
		}
		if r.K == mList {
			return ok(r.Elems[i])
		}
		return ok(vS(string(r.S[i])))
	}
	switch r.K {
	case mInt:
		switch c.Member {
		case "to_string":
			return ok(disp(r))
		case "to_range":
			return ok(vRange(0, r.I))
		}
	case mFloat:
		switch c.Member {
		case "to_string":
			return ok(disp(r))
		case "is_int":
			// beyond the int range "is a whole number" and "is an int" part ways: the name does not say which
			if math.Abs(r.F) > 9e18 {
				return c18Ref{Status: "unspec"}
			}
			return ok(vB(r.F == math.Trunc(r.F)))
		case "trunc":
			if math.Abs(r.F) > 9e18 {
				return c18Ref{Status: "unspec"}
			}
			return ok(vI(int64(math.Trunc(r.F))))
		case "round":
			if math.Abs(r.F) > 9e18 {
				return c18Ref{Status: "unspec"}
			}
			return ok(vI(int64(math.Round(r.F))))
		}
	case mBool:
		if c.Member == "to_string" {
			return ok(disp(r))
		}
	case mStr:
		switch c.Member {
		case "len":
			return ok(vI(int64(utf8.RuneCountInString(r.S))))
		case "replace":
			if a[0].S == "" {
				return c18Ref{Status: "unspec"}
			}
			return ok(vS(strings.ReplaceAll(r.S, a[0].S, a[1].S)))
		case "repeat":
			if a[0].I < 0 {
				return c18Ref{Status: "ok-or-interrupt", Res: vS("")}
			}
			return ok(vS(strings.Repeat(r.S, int(a[0].I))))
		case "contains":
			return ok(vB(strings.Contains(r.S, a[0].S)))
		case "starts_with":
			return ok(vB(strings.HasPrefix(r.S, a[0].S)))
		case "split":
			if a[0].S == "" {
				return c18Ref{Status: "unspec"}
			}
			out := vL()
			for _, p := range strings.Split(r.S, a[0].S) {
				out.Elems = append(out.Elems, vS(p))
			}
			return ok(out)
		case "to_lower":
			return ok(vS(strings.ToLower(r.S)))
		case "to_upper":
			return ok(vS(strings.ToUpper(r.S)))
		case "parse_int":
			if n, err := strconv.ParseInt(r.S, 10, 64); err == nil {
				return ok(vI(n))
			}
			return c18Ref{Status: "interrupt"}
		case "parse_float":
			if n, err := strconv.ParseFloat(r.S, 64); err == nil {
				return ok(vF(n))
			}
			return c18Ref{Status: "interrupt"}
		case "parse_bool":
			switch r.S {
			case "true":
				return ok(vB(true))
			case "false":
				return ok(vB(false))
			case "1", "0", "t", "f", "T", "F", "TRUE", "FALSE", "True", "False":
				return c18Ref{Status: "unspec"}
			}
			return c18Ref{Status: "interrupt"}
		case "compare_lev":
			return ok(vI(int64(lev(r.S, a[0].S))))
		case "substring":
			// the name fixes only: a prefix of the receiver; negative bounds count from the end;
			// a bound beyond the end is out of range
			n := utf8.RuneCountInString(r.S)
			if n != len(r.S) {
				// bytes or characters: left open for non-ASCII receivers, but a result is a prefix
				return c18Ref{Status: "unspec", Check: "prefix"}
			}
			u := a[0].I
			if u < 0 {
				u += int64(n)
			}
			if u < 0 || u > int64(n) {
				return c18Ref{Status: "interrupt"}
			}
			if u == int64(n) {
				return c18Ref{Status: "ok-or-interrupt", Res: vS(r.S)}
			}
			return ok(vS(string([]rune(r.S)[:u])))
		}
	case mRange:
		switch c.Member {
		case "to_string":
			return ok(disp(r))
		case "rev":
			return ok(vRange(r.Hi, r.Lo))
		case "diff":
			d := r.Hi - r.Lo
			if d < 0 {
				d = -d
			}
			return ok(vI(d))
		}
	case mList:
		n := len(r.Elems)
		switch c.Member {
		case "to_string":
			return ok(disp(r))
		case "len":
			return ok(vI(int64(n)))
		case "contains":
			for _, e := range r.Elems {
				if mEqual(e, a[0]) {
					return ok(vB(true))
				}
			}
			return ok(vB(false))
		case "concat":
			p := r.clone()
			for _, e := range a[0].Elems {
				p.Elems = append(p.Elems, e.clone())
			}
			return mut(vNull(), p)
		case "join":
			var parts []string
			for _, e := range r.Elems {
				if e.hasWideObject() {
					return c18Ref{Status: "unspec"}
				}
				parts = append(parts, displays(e)[0])
			}
			return ok(vS(strings.Join(parts, a[0].S)))
		case "push":
			p := r.clone()
			p.Elems = append(p.Elems, a[0].clone())
			return mut(vNull(), p)
		case "push_front":
			p := r.clone()
			p.Elems = append([]*mval{a[0].clone()}, p.Elems...)
			return mut(vNull(), p)
		case "pop":
			if n == 0 {
				return ok(vNone())
			}
			p := r.clone()
			p.Elems = p.Elems[:n-1]
			return mut(vSome(r.Elems[n-1]), p)
		case "pop_front":
			if n == 0 {
				return ok(vNone())
			}
			p := r.clone()
			p.Elems = p.Elems[1:]
			return mut(vSome(r.Elems[0]), p)
		case "last":
			if n == 0 {
				return ok(vNone())
			}
			return ok(vSome(r.Elems[n-1]))
		case "insert":
			i, in := normIndex(a[0].I, n, true)
			if !in {
				return c18Ref{Status: "interrupt"}
			}
			p := r.clone()
			p.Elems = append(p.Elems[:i], append([]*mval{a[1].clone()}, p.Elems[i:]...)...)
			return mut(vNull(), p)
		case "remove":
			i, in := normIndex(a[0].I, n, false)
			if !in {
				return c18Ref{Status: "interrupt"}
			}
			p := r.clone()
			p.Elems = append(p.Elems[:i], p.Elems[i+1:]...)
			return mut(vNull(), p)
		case "sort":
			p := r.clone()
			sort.SliceStable(p.Elems, func(i, j int) bool {
				x, y := p.Elems[i], p.Elems[j]
				switch x.K {
				case mInt:
					return x.I < y.I
				case mFloat:
					return x.F < y.F
				case mStr:
					return x.S < y.S
				}
				return false
			})
			return mut(vNull(), p)
		}
	case mAnyObj:
		switch c.Member {
		case "set":
			p := r.clone()
			p.setField(a[0].S, a[1].clone())
			return mut(vNull(), p)
		case "get":
			return ok(optOf(r.field(a[0].S)))
		case "keys":
			out := vL()
			for _, k := range r.Keys {
				out.Elems = append(out.Elems, vS(k))
			}
			return c18Ref{Status: "ok", Res: out, Check: "set"}
		case "get_type":
			if r.field(a[0].S) == nil {
				return c18Ref{Status: "ok-or-interrupt"}
			}
			return c18Ref{Status: "unspec"}
		}
	case mObj:
		if c.Member == "keys" {
			out := vL()
			for _, k := range r.Keys {
				out.Elems = append(out.Elems, vS(k))
			}
			return c18Ref{Status: "ok", Res: out, Check: "set"}
		}
	case mOpt:
		switch c.Member {
		case "is_some":
			return ok(vB(r.Inner != nil))
		case "is_none":
			return ok(vB(r.Inner == nil))
		case "unwrap", "expect":
			if r.Inner == nil {
				return c18Ref{Status: "interrupt"}
			}
			return ok(r.Inner)
		case "unwrap_or":
			if r.Inner == nil {
				return ok(a[0])
			}
			return ok(r.Inner)
		case "to_string":
			if r.hasWideObject() {
				return c18Ref{Status: "unspec"}
			}
			return ok(disp(r))
		}
	}
	return c18Ref{Status: "unspec"}
}

// ---------------------------------------------------------------- direct route

type c18Obs struct {
	Missing   bool
	Interrupt string
	Panic     string
	Res       *mval
	ResErr    string
	Post      *mval
}

func c18DirectVM(c c18Case) (o c18Obs) {
	recv := toRV(c.Recv)
	pc, _ := guard("runtime/value."+kindTag(c.Recv)+"."+c.Member, func() {
		var res *value.Value
		var i *value.VmInterrupt
		if c.Via == "index" {
			res, i = value.IndexValue(recv, toRV(c.Args[0]), func() herrors.Span { return noSpan })
		} else {
			fs, fi := (*recv).Fields()
			if fi != nil {
				o.Interrupt = (*fi).Message()
				return
			}
			f, found := fs[c.Member]
			if !found {
				o.Missing = true
				return
			}
			if c.Via == "field" {
				res = f
			} else {
				bf, isFn := (*f).(value.ValueBuiltinFunction)
				if !isFn {
					o.ResErr = fmt.Sprintf("member is a %v, not a builtin function", (*f).Kind())
					return
				}
				var args []value.Value
				for _, a := range c.Args {
					args = append(args, *toRV(a))
				}
				res, i = bf.Callback(nil, nil, noSpan, args...)
			}
		}
		if i != nil {
			o.Interrupt = (*i).Message()
			if o.Interrupt == "" {
				o.Interrupt = "<empty message>"
			}
			return
		}
		if res == nil || *res == nil {
			o.ResErr = "nil result without interrupt"
			return
		}
		m, err := fromRV(*res)
		if err != nil {
			o.ResErr = err.Error()
		}
		o.Res = m
	})
	o.Panic = pc
	o.Post, _ = fromRV(*recv)
	return
}

func c18DirectTree(c c18Case) (o c18Obs) {
	recv := toIV(c.Recv)
	pc, _ := guard("interpreter/value."+kindTag(c.Recv)+"."+c.Member, func() {
		var res *ivalue.Value
		var i *ivalue.Interrupt
		if c.Via == "index" {
			res, i = ivalue.IndexValue(recv, toIV(c.Args[0]), func() herrors.Span { return noSpan })
		} else {
			fs, fi := (*recv).Fields()
			if fi != nil {
				o.Interrupt = (*fi).Message()
				return
			}
			f, found := fs[c.Member]
			if !found {
				o.Missing = true
				return
			}
			if c.Via == "field" {
				res = f
			} else {
				bf, isFn := (*f).(ivalue.ValueBuiltinFunction)
				if !isFn {
					o.ResErr = fmt.Sprintf("member is a %v, not a builtin function", (*f).Kind())
					return
				}
				var args []ivalue.Value
				for _, a := range c.Args {
					args = append(args, *toIV(a))
				}
				res, i = bf.Callback(nil, nil, noSpan, args...)
			}
		}
		if i != nil {
			o.Interrupt = (*i).Message()
			if o.Interrupt == "" {
				o.Interrupt = "<empty message>"
			}
			return
		}
		if res == nil || *res == nil {
			o.ResErr = "nil result without interrupt"
			return
		}
		m, err := fromIV(*res)
		if err != nil {
			o.ResErr = err.Error()
		}
		o.Res = m
	})
	o.Panic = pc
	o.Post, _ = fromIV(*recv)
	return
}

func (c c18Case) String() string {
	var as []string
	for _, a := range c.Args {
		as = append(as, a.String())
	}
	switch c.Via {
	case "field":
		return fmt.Sprintf("(%s : %s).%s", c.Recv, c.T, c.Member)
	case "index":
		return fmt.Sprintf("(%s : %s)[%s]", c.Recv, c.T, as[0])
	}
	return fmt.Sprintf("(%s : %s).%s(%s) -> %s", c.Recv, c.T, c.Member, strings.Join(as, ", "), c.Ret)
}

func sameSet(a, b *mval) bool {
	if a.K != mList || b.K != mList || len(a.Elems) != len(b.Elems) {
		return false
	}
	x, y := []string{}, []string{}
	for i := range a.Elems {
		x = append(x, a.Elems[i].String())
		y = append(y, b.Elems[i].String())
	}
	sort.Strings(x)
	sort.Strings(y)
	return strings.Join(x, "\x00") == strings.Join(y, "\x00")
}

// c18ArgTag abstracts the argument tuple for known-finding matching.
func c18ArgTag(c c18Case) string {
	if len(c.Args) == 0 {
		return "args:none"
	}
	var p []string
	for i, a := range c.Args {
		switch {
		case a.K == mInt && (strings.Contains(c.Params[i], "index") || c.Params[i] == "upper"):
			n := int64(recvLen(c.Recv))
			switch {
			case a.I < -n:
				p = append(p, "index<-len")
			case a.I < 0:
				p = append(p, "index<0")
			case a.I < n:
				p = append(p, "index-in-range")
			case a.I == n:
				p = append(p, "index=len")
			default:
				p = append(p, "index>len")
			}
		case a.K == mInt && a.I < 0:
			p = append(p, "int<0")
		case a.K == mStr && a.S == "":
			p = append(p, "empty-str")
		default:
			p = append(p, kindTag(a))
		}
	}
	return "args:" + strings.Join(p, ",")
}

func c18Judge(c c18Case, ref c18Ref, o c18Obs) (fails [][2]string, outcome string) {
	add := func(class, detail string) { fails = append(fails, [2]string{class, detail}) }
	switch {
	case o.Panic != "":
		add(o.Panic, "Go panic")
		return fails, "panic"
	case o.Missing:
		add("MEMBER:missing", fmt.Sprintf("the analyzer offers `%s` on %s but the value has no such member", c.Member, c.T))
		return fails, "missing"
	case o.Interrupt != "":
		if ref.Status == "ok" {
			add("MEMBER:unexpected-interrupt:"+c.Member, fmt.Sprintf("expected %s, got interrupt %q", ref.Res, o.Interrupt))
		}
		return fails, "interrupt"
	case o.ResErr != "":
		add("MEMBER:malformed-result:"+c.Member, o.ResErr)
		return fails, "malformed"
	}
	outcome = "ok"
	if ref.Status == "interrupt" {
		class := "MEMBER:no-interrupt:" + c.Member
		if c.Via == "index" || strings.Contains(strings.Join(c.Params, ","), "index") || c.Member == "substring" {
			class = "INDEX:out-of-range-not-refused:" + c.Member
		}
		add(class, fmt.Sprintf("expected an interrupt, got result %s (receiver afterwards %s)", o.Res, o.Post))
		return
	}
	if !conforms(o.Res, c.Ret) {
		add("MEMBER:return-type:"+c.Member, fmt.Sprintf("result %s does not conform to the advertised type %s", o.Res, c.Ret))
		return
	}
	if ref.Status == "unspec" {
		if ref.Check == "prefix" && o.Res != nil && o.Res.K == mStr && !strings.HasPrefix(c.Recv.S, o.Res.S) {
			add("MEMBER:semantics:"+c.Member, fmt.Sprintf("result %s is not a prefix of the receiver %s", o.Res, c.Recv))
		}
		return fails, "ok-unspecified"
	}
	if ref.Res != nil {
		same := mEqual(o.Res, ref.Res)
		if ref.Check == "set" {
			same = sameSet(o.Res, ref.Res)
		}
		if !same {
			class := "MEMBER:semantics:" + c.Member
			if c.Via == "index" || (len(c.Args) > 0 && c.Args[0].K == mInt && c.Args[0].I < 0 && (strings.Contains(c.Params[0], "index") || c.Member == "substring")) {
				class = "INDEX:wrong-element:" + c.Member
			}
			add(class, fmt.Sprintf("expected %s, got %s", ref.Res, o.Res))
		}
	}
	if o.Post != nil {
		want := ref.Post
		if want == nil {
			want = c.Recv
		}
		if !mEqual(o.Post, want) {
			add("MEMBER:receiver-state:"+c.Member, fmt.Sprintf("receiver afterwards %s, expected %s", o.Post, want))
		}
	}
	return
}

func c18Direct(tier string, idx int, r *Result) {
	c := c18Cases(tier)[idx]
	ref := c18Reference(c)
	r.Sample(c.String())
	for _, lib := range []string{"vm", "tree"} {
		var o c18Obs
		if lib == "vm" {
			o = c18DirectVM(c)
		} else {
			o = c18DirectTree(c)
		}
		fails, outcome := c18Judge(c, ref, o)
		tags := []string{"lib:" + lib, "kind:" + typeKindTag(c.T), "member:" + c.Member, c18ArgTag(c)}
		for _, f := range fails {
			t := tags
			if strings.HasSuffix(f[0], "MEMBER:missing") {
				t = tags[:3]
			}
			capFail(r, f[0], t, map[string]string{"vm": "runtime", "tree": "interpreter"}[lib]+"/value: "+c.String(), f[1])
		}
		r.Trans(1)
		r.Outcome(lib + ":" + outcome)
		r.Distinct(fmt.Sprintf("direct|%s|%s|%s|%s|%s|%s|%s", lib, typeKindTag(c.T), c.Member, c18ArgTag(c), outcome, o.Res, o.Post))
	}
}

// ---------------------------------------------------------------- program route

func c18Program(c c18Case) (text string, ok bool) {
	pb := &progBuilder{}
	recv := bindStmt("r", c.Recv, c.T, pb)
	var as []string
	for _, a := range c.Args {
		var at *mtype
		if st, ok := staticType(a); ok && !st.hasWildcard() {
			at = st
		} else if a.K == mList && c.T.K == mkList {
			// an (empty) list argument has the receiver's type (concat) or its element type
			at = c.T
			if c.Member != "concat" {
				at = c.T.Elem
			}
		}
		as = append(as, pb.expr(a, at))
	}
	var call string
	switch c.Via {
	case "field":
		call = "r." + c.Member
	case "index":
		call = "r[" + as[0] + "]"
	default:
		call = "r." + c.Member + "(" + strings.Join(as, ", ") + ")"
	}
	var use string
	switch {
	case c.Ret.K == tNull:
		use = call + ";\n        print(\"ok<null>\");"
	case c.Ret.K == tAny:
		use = "let res: any = " + call + ";\n        print(\"ok<any>\");"
	case c.Ret.containsAny():
		use = "print(\"ok<\", " + call + ", \">\");"
	default:
		use = "let res = " + call + ";\n        print(\"ok<\", res, \">\");"
	}
	post := "println(\"|r=\", r);"
	if c.T.K == tNull {
		post = "println(\"|r= null\");"
	}
	text = fmt.Sprintf("fn main() {\n    %s\n    %s\n    try {\n        %s\n    } catch e {\n        print(\"threw<\" + e.message + \">\");\n    }\n    %s\n}\n", strings.Join(pb.pre, "\n    "), recv, use, post)
	return text, true
}

func c18JudgeProgram(c c18Case, ref c18Ref, o Obs) (fails [][2]string, outcome string) {
	add := func(class, detail string) { fails = append(fails, [2]string{class, detail}) }
	if cc := crashClass(o); cc != "" {
		if strings.Contains(o.Msg, "not found on") && strings.Contains(o.Msg, c.Member) {
			add("HOST-PANIC(member lookup):MEMBER:missing", "the analyzer accepted the program but the member lookup crashed the host: "+o.String())
			return fails, "missing"
		}
		add(cc, o.String())
		return fails, "panic"
	}
	interrupted := o.Class == "fatal" || o.Class == "uncaught" || (o.Class == "ok" && strings.HasPrefix(o.Out, "threw<"))
	switch {
	case interrupted:
		outcome = "interrupt"
		if ref.Status == "ok" {
			add("MEMBER:unexpected-interrupt:"+c.Member, fmt.Sprintf("expected %s, got %s", ref.Res, o.String()))
		}
		return
	case o.Class != "ok" || !strings.HasPrefix(o.Out, "ok<"):
		add("MEMBER:program-outcome", o.String())
		return fails, "other"
	}
	outcome = "ok"
	i := strings.LastIndex(o.Out, "|r= ")
	if i < 0 {
		add("MEMBER:program-outcome", o.String())
		return
	}
	resText := strings.TrimSuffix(strings.TrimPrefix(o.Out[:i], "ok<"), ">")
	resText = strings.TrimSuffix(strings.TrimPrefix(resText, " "), " ")
	postText := strings.TrimSuffix(o.Out[i+4:], "\n")
	if ref.Status == "interrupt" {
		class := "MEMBER:no-interrupt:" + c.Member
		if c.Via == "index" || strings.Contains(strings.Join(c.Params, ","), "index") || c.Member == "substring" {
			class = "INDEX:out-of-range-not-refused:" + c.Member
		}
		add(class, fmt.Sprintf("expected an interrupt, the program printed %q", o.Out))
		return
	}
	if ref.Status == "unspec" {
		if ref.Check == "prefix" && !strings.HasPrefix(c.Recv.S, resText) {
			add("MEMBER:semantics:"+c.Member, fmt.Sprintf("printed result %q is not a prefix of the receiver %s", resText, c.Recv))
		}
		return fails, "ok-unspecified"
	}
	if ref.Res != nil && c.Ret.K != tNull && c.Ret.K != tAny {
		want := displays(ref.Res)
		okRes := inSet(resText, want)
		if ref.Check == "set" && !okRes {
			okRes = sameDisplayedSet(resText, want[0])
		}
		if !okRes {
			class := "MEMBER:semantics:" + c.Member
			if c.Via == "index" || (len(c.Args) > 0 && c.Args[0].K == mInt && c.Args[0].I < 0 && (strings.Contains(c.Params[0], "index") || c.Member == "substring")) {
				class = "INDEX:wrong-element:" + c.Member
			}
			add(class, fmt.Sprintf("expected the result to print as %q, got %q", want[0], resText))
		}
	}
	wantPost := ref.Post
	if wantPost == nil {
		wantPost = c.Recv
	}
	if c.T.K != tNull && !inSet(postText, displays(wantPost)) {
		add("MEMBER:receiver-state:"+c.Member, fmt.Sprintf("receiver afterwards prints as %q, expected %q", postText, displays(wantPost)[0]))
	}
	return
}

func sameDisplayedSet(a, b string) bool {
	split := func(s string) []string {
		p := strings.Split(strings.TrimSuffix(strings.TrimPrefix(s, "["), "]"), ", ")
		sort.Strings(p)
		return p
	}
	return strings.Join(split(a), ",") == strings.Join(split(b), ",")
}

func c18Prog(tier string, idx int, r *Result) {
	backend := backendNames[idx%2]
	c := c18Cases(tier)[idx/2]
	ref := c18Reference(c)
	text, _ := c18Program(c)
	cas := "// " + c.String() + "\n" + text
	r.Sample(cas)
	a := Analyze(map[string]string{"main": text}, true)
	if a.Obs.Class == "HOST-PANIC" {
		r.Note("analyzer-panic(C05)", 1)
		return
	}
	if !a.Obs.Accepted() {
		r.Note("rejected-by-analyzer", 1)
		if len(a.Obs.Errors) > 0 {
			r.Note("rejected-by-analyzer:"+normMsg(a.Obs.Errors[0]), 1)
		}
		return
	}
	o := runOn(backend, a, r)
	fails, outcome := c18JudgeProgram(c, ref, o)
	tags := []string{"backend:" + backend, "kind:" + typeKindTag(c.T), "member:" + c.Member, c18ArgTag(c)}
	for _, f := range fails {
		t := tags
		if strings.HasSuffix(f[0], "MEMBER:missing") {
			t = tags[:3]
		}
		capFail(r, f[0], t, "// backend: "+backend+"\n"+cas, f[1])
	}
	r.Outcome(backend + ":" + outcome)
	r.Distinct(fmt.Sprintf("prog|%s|%s|%s|%s|%s|%s", backend, typeKindTag(c.T), c.Member, c18ArgTag(c), outcome, o.Out))
}

func init() {
	register("C18", func() *Check {
		n := func(tier string) int { return len(c18Cases(tier)) }
		return &Check{ID: "C18", Scenarios: []Scenario{
			{Name: "members-direct", Count: n, Run: c18Direct},
			{Name: "members-programs", Count: func(tier string) int { return 2 * n(tier) }, Run: c18Prog},
			{Name: "members-results-are-fresh", Count: func(tier string) int { return 2 * n(tier) }, Run: c18Fresh},
			{Name: "results-share-nothing-with-their-receivers", Count: func(string) int { return c18SharedCount() }, Run: func(_ string, idx int, r *Result) { c18SharedRun(idx, r) }},
			{Name: "any-object-fields-of-every-kind", Count: func(string) int { return c18FieldCount() }, Run: c18Fields},
		}}
	})
}
