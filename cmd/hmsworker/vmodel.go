package main

// The verification side's own model of Homescript run-time values and static types, used by
// C12 (refcast), C13 (value universe, structural equality) and C18 (member reference
// semantics). Nothing in the model is derived from repository data structures; conversions
// from/to the two value libraries are at the bottom of the file.

import (
	"encoding/json"
	"fmt"
	"math"
	"sort"
	"strconv"
	"strings"

	"github.com/smarthome-go/homescript/v3/homescript/analyzer/ast"
	herrors "github.com/smarthome-go/homescript/v3/homescript/errors"
	ivalue "github.com/smarthome-go/homescript/v3/homescript/interpreter/value"
	pAst "github.com/smarthome-go/homescript/v3/homescript/parser/ast"
	"github.com/smarthome-go/homescript/v3/homescript/runtime/value"
)

// ---------------------------------------------------------------- values

type mk int

const (
	mInt mk = iota
	mFloat
	mBool
	mStr
	mNull
	mOpt // Inner == nil: none
	mList
	mObj
	mAnyObj
	mRange
)

type mval struct {
	K     mk
	I     int64
	F     float64
	B     bool
	S     string
	Inner *mval
	Elems []*mval
	Keys  []string // sorted
	Vals  []*mval  // parallel to Keys
	Lo    int64
	Hi    int64
	Incl  bool
}

func vI(i int64) *mval    { return &mval{K: mInt, I: i} }
func vF(f float64) *mval  { return &mval{K: mFloat, F: f} }
func vB(b bool) *mval     { return &mval{K: mBool, B: b} }
func vS(s string) *mval   { return &mval{K: mStr, S: s} }
func vNull() *mval        { return &mval{K: mNull} }
func vNone() *mval        { return &mval{K: mOpt} }
func vSome(x *mval) *mval { return &mval{K: mOpt, Inner: x} }
func vL(xs ...*mval) *mval {
	return &mval{K: mList, Elems: append([]*mval{}, xs...)}
}
func vRange(lo, hi int64) *mval { return &mval{K: mRange, Lo: lo, Hi: hi} }

// vO / vAO build (any-)objects from alternating key, value arguments.
func vFields(k mk, kv ...any) *mval {
	v := &mval{K: k}
	type p struct {
		k string
		v *mval
	}
	var ps []p
	for i := 0; i+1 < len(kv); i += 2 {
		ps = append(ps, p{kv[i].(string), kv[i+1].(*mval)})
	}
	sort.Slice(ps, func(i, j int) bool { return ps[i].k < ps[j].k })
	for _, x := range ps {
		v.Keys = append(v.Keys, x.k)
		v.Vals = append(v.Vals, x.v)
	}
	return v
}
func vO(kv ...any) *mval  { return vFields(mObj, kv...) }
func vAO(kv ...any) *mval { return vFields(mAnyObj, kv...) }

func (v *mval) field(k string) *mval {
	for i, n := range v.Keys {
		if n == k {
			return v.Vals[i]
		}
	}
	return nil
}

// setField sets/overwrites a field keeping Keys sorted.
func (v *mval) setField(k string, x *mval) {
	for i, n := range v.Keys {
		if n == k {
			v.Vals[i] = x
			return
		}
	}
	i := sort.SearchStrings(v.Keys, k)
	v.Keys = append(v.Keys, "")
	copy(v.Keys[i+1:], v.Keys[i:])
	v.Keys[i] = k
	v.Vals = append(v.Vals, nil)
	copy(v.Vals[i+1:], v.Vals[i:])
	v.Vals[i] = x
}

func (v *mval) clone() *mval {
	if v == nil {
		return nil
	}
	c := *v
	c.Inner = v.Inner.clone()
	c.Elems = nil
	for _, e := range v.Elems {
		c.Elems = append(c.Elems, e.clone())
	}
	c.Keys = append([]string{}, v.Keys...)
	c.Vals = nil
	for _, e := range v.Vals {
		c.Vals = append(c.Vals, e.clone())
	}
	return &c
}

func fmtFloat(f float64) string {
	s := strconv.FormatFloat(f, 'g', -1, 64)
	if !strings.ContainsAny(s, ".eEIN") {
		s += ".0"
	}
	return s
}

// String is the harness notation of a value (unambiguous about dynamic kinds).
func (v *mval) String() string {
	if v == nil {
		return "<nil>"
	}
	switch v.K {
	case mInt:
		return strconv.FormatInt(v.I, 10)
	case mFloat:
		return fmtFloat(v.F)
	case mBool:
		return strconv.FormatBool(v.B)
	case mStr:
		return strconv.Quote(v.S)
	case mNull:
		return "null"
	case mOpt:
		if v.Inner == nil {
			return "none"
		}
		return "some(" + v.Inner.String() + ")"
	case mList:
		var p []string
		for _, e := range v.Elems {
			p = append(p, e.String())
		}
		return "[" + strings.Join(p, ", ") + "]"
	case mObj, mAnyObj:
		var p []string
		for i, k := range v.Keys {
			p = append(p, k+": "+v.Vals[i].String())
		}
		pre := "{"
		if v.K == mAnyObj {
			pre = "ao{"
		}
		return pre + strings.Join(p, ", ") + "}"
	case mRange:
		return fmt.Sprintf("%d..%d", v.Lo, v.Hi)
	}
	return "?"
}

// mEqual is structural equality: same dynamic kind and same content.
func mEqual(a, b *mval) bool {
	if a == nil || b == nil {
		return a == b
	}
	if a.K != b.K {
		return false
	}
	switch a.K {
	case mInt:
		return a.I == b.I
	case mFloat:
		return a.F == b.F
	case mBool:
		return a.B == b.B
	case mStr:
		return a.S == b.S
	case mNull:
		return true
	case mOpt:
		if a.Inner == nil || b.Inner == nil {
			return a.Inner == b.Inner
		}
		return mEqual(a.Inner, b.Inner)
	case mList:
		if len(a.Elems) != len(b.Elems) {
			return false
		}
		for i := range a.Elems {
			if !mEqual(a.Elems[i], b.Elems[i]) {
				return false
			}
		}
		return true
	case mObj, mAnyObj:
		if len(a.Keys) != len(b.Keys) {
			return false
		}
		for i := range a.Keys {
			if a.Keys[i] != b.Keys[i] || !mEqual(a.Vals[i], b.Vals[i]) {
				return false
			}
		}
		return true
	case mRange:
		return a.Lo == b.Lo && a.Hi == b.Hi
	}
	return false
}

// depth: leaves 0, a container of leaves 1, ...
func (v *mval) depth() int {
	d := 0
	sub := func(x *mval) {
		if x != nil && x.depth()+1 > d {
			d = x.depth() + 1
		}
	}
	switch v.K {
	case mOpt:
		sub(v.Inner)
	case mList:
		if len(v.Elems) == 0 {
			d = 1
		}
		for _, e := range v.Elems {
			sub(e)
		}
	case mObj, mAnyObj:
		d = 1
		for _, e := range v.Vals {
			sub(e)
		}
	}
	return d
}

// hasWideObject reports whether v contains an (any-)object with two or more fields (its
// rendering depends on Go map iteration order).
func (v *mval) hasWideObject() bool {
	if v == nil {
		return false
	}
	if (v.K == mObj || v.K == mAnyObj) && len(v.Keys) >= 2 {
		return true
	}
	if v.Inner.hasWideObject() {
		return true
	}
	for _, e := range v.Elems {
		if e.hasWideObject() {
			return true
		}
	}
	for _, e := range v.Vals {
		if e.hasWideObject() {
			return true
		}
	}
	return false
}

func (v *mval) walk(f func(*mval)) {
	if v == nil {
		return
	}
	f(v)
	v.Inner.walk(f)
	for _, e := range v.Elems {
		e.walk(f)
	}
	for _, e := range v.Vals {
		e.walk(f)
	}
}

// ---------------------------------------------------------------- types

type tk int

const (
	tInt tk = iota
	tFloat
	tBool
	tStr
	tNull
	tAny
	tAnyObj
	tRange
	mkList
	tObj
	mkOpt
)

type mtype struct {
	K      tk
	Elem   *mtype
	FNames []string // sorted
	FTypes []*mtype
}

var (
	mtInt    = &mtype{K: tInt}
	mtFloat  = &mtype{K: tFloat}
	mtBool   = &mtype{K: tBool}
	mtStr    = &mtype{K: tStr}
	mtNull   = &mtype{K: tNull}
	mtAny    = &mtype{K: tAny}
	mtAnyObj = &mtype{K: tAnyObj}
	mtRange  = &mtype{K: tRange}
)

func mtList(e *mtype) *mtype { return &mtype{K: mkList, Elem: e} }
func mtOpt(e *mtype) *mtype  { return &mtype{K: mkOpt, Elem: e} }
func mtObj(kv ...any) *mtype {
	t := &mtype{K: tObj}
	for i := 0; i+1 < len(kv); i += 2 {
		t.FNames = append(t.FNames, kv[i].(string))
		t.FTypes = append(t.FTypes, kv[i+1].(*mtype))
	}
	return t
}

// String is Homescript source text of the type.
func (t *mtype) String() string {
	switch t.K {
	case tInt:
		return "int"
	case tFloat:
		return "float"
	case tBool:
		return "bool"
	case tStr:
		return "str"
	case tNull:
		return "null"
	case tAny:
		return "any"
	case tAnyObj:
		return "{ ? }"
	case tRange:
		return "range"
	case mkList:
		return "[" + t.Elem.String() + "]"
	case mkOpt:
		return "?" + t.Elem.String()
	case tObj:
		if len(t.FNames) == 0 {
			return "{}"
		}
		var p []string
		for i, n := range t.FNames {
			p = append(p, n+": "+t.FTypes[i].String())
		}
		return "{ " + strings.Join(p, ", ") + " }"
	}
	return "?"
}

func (t *mtype) depth() int {
	switch t.K {
	case mkList, mkOpt:
		return t.Elem.depth() + 1
	case tObj:
		d := 1
		for _, f := range t.FTypes {
			if f.depth()+1 > d {
				d = f.depth() + 1
			}
		}
		return d
	}
	return 0
}

func (t *mtype) containsAny() bool {
	switch t.K {
	case tAny:
		return true
	case mkList, mkOpt:
		return t.Elem.containsAny()
	case tObj:
		for _, f := range t.FTypes {
			if f.containsAny() {
				return true
			}
		}
	}
	return false
}

func (t *mtype) fieldType(k string) *mtype {
	for i, n := range t.FNames {
		if n == k {
			return t.FTypes[i]
		}
	}
	return nil
}

var noSpan = herrors.Span{}

// astType converts to the analyzer's type representation (needed to call DeepCast etc.).
func (t *mtype) astType() ast.Type {
	switch t.K {
	case tInt:
		return ast.NewIntType(noSpan)
	case tFloat:
		return ast.NewFloatType(noSpan)
	case tBool:
		return ast.NewBoolType(noSpan)
	case tStr:
		return ast.NewStringType(noSpan)
	case tNull:
		return ast.NewNullType(noSpan)
	case tAny:
		return ast.NewAnyType(noSpan)
	case tAnyObj:
		return ast.NewAnyObjectType(noSpan)
	case tRange:
		return ast.NewRangeType(noSpan)
	case mkList:
		return ast.NewListType(t.Elem.astType(), noSpan)
	case mkOpt:
		return ast.NewOptionType(t.Elem.astType(), noSpan)
	case tObj:
		var fs []ast.ObjectTypeField
		for i, n := range t.FNames {
			fs = append(fs, ast.NewObjectTypeField(pAst.NewSpannedIdent(n, noSpan), t.FTypes[i].astType(), noSpan))
		}
		return ast.NewObjectType(fs, noSpan)
	}
	panic("astType")
}

// conforms is the strict conformance predicate: the dynamic shape of v is exactly what the
// static type t promises (no conversion of any kind).
func conforms(v *mval, t *mtype) bool {
	if v == nil {
		return false
	}
	switch t.K {
	case tAny:
		return true
	case tInt:
		return v.K == mInt
	case tFloat:
		return v.K == mFloat
	case tBool:
		return v.K == mBool
	case tStr:
		return v.K == mStr
	case tNull:
		return v.K == mNull
	case tRange:
		return v.K == mRange
	case tAnyObj:
		return v.K == mAnyObj
	case mkOpt:
		return v.K == mOpt && (v.Inner == nil || conforms(v.Inner, t.Elem))
	case mkList:
		if v.K != mList {
			return false
		}
		for _, e := range v.Elems {
			if !conforms(e, t.Elem) {
				return false
			}
		}
		return true
	case tObj:
		if v.K != mObj || len(v.Keys) != len(t.FNames) {
			return false
		}
		for i, k := range v.Keys {
			ft := t.fieldType(k)
			if ft == nil || !conforms(v.Vals[i], ft) {
				return false
			}
		}
		return true
	}
	return false
}

// ---------------------------------------------------------------- refcast

// offender is one component that makes a cast fail: the path of the component and, for a
// missing / unexpected field, the name of that field (the path is then the object's).
type offender struct {
	Path  string
	Field string
}

type castRes struct {
	OK        bool
	Val       *mval
	Open      string // non-empty: the property statement does not decide this pair
	Offenders []offender
}

// refcast is the reference cast: v is admitted into t iff it conforms after the permitted
// conversions: bool/int/float among each other (only when scalar is set), object into
// any-object, a T into ?T. The result is the converted value. `null` into an option is left
// open (the statement lists no such conversion, yet JSON has no other spelling of `none`).
func refcast(v *mval, t *mtype, scalar bool) castRes { return refcastAt(v, t, scalar, "") }

// strictOffenders lists the components that do not fit when no conversion at all is applied
// (neither scalar nor object -> any-object nor T -> ?T): an implementation that rejects a
// pair in the zone the statement leaves open may name any of these.
func strictOffenders(v *mval, t *mtype) []offender {
	noStructural = true
	defer func() { noStructural = false }()
	return refcastAt(v, t, false, "").Offenders
}

var noStructural bool

func refcastAt(v *mval, t *mtype, scalar bool, path string) castRes {
	fail := func() castRes { return castRes{Offenders: []offender{{Path: path}}} }
	switch t.K {
	case tAny:
		return castRes{OK: true, Val: v}
	case mkOpt:
		if v.K == mOpt {
			if v.Inner == nil {
				return castRes{OK: true, Val: vNone()}
			}
			r := refcastAt(v.Inner, t.Elem, scalar, path)
			if r.OK {
				r.Val = vSome(r.Val)
			}
			return r
		}
		if v.K == mNull && noStructural {
			return fail()
		}
		if v.K == mNull {
			// null -> none, or null wrapped as a T (T = null / ?..): not decided by the statement
			return castRes{Open: "null-into-option"}
		}
		if noStructural {
			return fail()
		}
		r := refcastAt(v, t.Elem, scalar, path)
		if r.OK {
			r.Val = vSome(r.Val)
		}
		return r
	case tInt:
		switch {
		case v.K == mInt:
			return castRes{OK: true, Val: v}
		case scalar && v.K == mBool:
			return castRes{OK: true, Val: vI(b2i(v.B))}
		case scalar && v.K == mFloat:
			if v.F != v.F || v.F >= 9.3e18 || v.F <= -9.3e18 {
				return castRes{Open: "float-out-of-int-range"}
			}
			return castRes{OK: true, Val: vI(int64(v.F))}
		}
	case tFloat:
		switch {
		case v.K == mFloat:
			return castRes{OK: true, Val: v}
		case scalar && v.K == mBool:
			return castRes{OK: true, Val: vF(float64(b2i(v.B)))}
		case scalar && v.K == mInt:
			return castRes{OK: true, Val: vF(float64(v.I))}
		}
	case tBool:
		switch {
		case v.K == mBool:
			return castRes{OK: true, Val: v}
		case scalar && v.K == mInt:
			return castRes{OK: true, Val: vB(v.I != 0)}
		case scalar && v.K == mFloat:
			return castRes{OK: true, Val: vB(v.F != 0)}
		}
	case tStr:
		if v.K == mStr {
			return castRes{OK: true, Val: v}
		}
	case tNull:
		if v.K == mNull {
			return castRes{OK: true, Val: v}
		}
	case tRange:
		if v.K == mRange {
			return castRes{OK: true, Val: v}
		}
	case tAnyObj:
		if v.K == mAnyObj {
			return castRes{OK: true, Val: v}
		}
		if v.K == mObj && !noStructural {
			c := v.clone()
			c.K = mAnyObj
			return castRes{OK: true, Val: c}
		}
	case mkList:
		if v.K != mList {
			return fail()
		}
		out := castRes{OK: true, Val: &mval{K: mList}}
		for i, e := range v.Elems {
			r := refcastAt(e, t.Elem, scalar, fmt.Sprintf("%s[%d]", path, i))
			if r.Open != "" && out.Open == "" {
				out.Open = r.Open
			}
			if !r.OK {
				out.OK = false
				out.Offenders = append(out.Offenders, r.Offenders...)
				continue
			}
			out.Val.Elems = append(out.Val.Elems, r.Val)
		}
		if !out.OK {
			out.Val = nil
		}
		if out.Open != "" && len(out.Offenders) == 0 {
			return castRes{Open: out.Open}
		}
		out.Open = ""
		return out
	case tObj:
		if v.K != mObj {
			return fail()
		}
		out := castRes{OK: true, Val: &mval{K: mObj}}
		for i, k := range v.Keys {
			ft := t.fieldType(k)
			if ft == nil {
				out.OK = false
				out.Offenders = append(out.Offenders, offender{Path: path, Field: k})
				continue
			}
			r := refcastAt(v.Vals[i], ft, scalar, path+"."+k)
			if r.Open != "" && out.Open == "" {
				out.Open = r.Open
			}
			if !r.OK {
				out.OK = false
				out.Offenders = append(out.Offenders, r.Offenders...)
				continue
			}
			out.Val.Keys = append(out.Val.Keys, k)
			out.Val.Vals = append(out.Val.Vals, r.Val)
		}
		for _, n := range t.FNames {
			if v.field(n) == nil {
				out.OK = false
				out.Offenders = append(out.Offenders, offender{Path: path, Field: n})
			}
		}
		if !out.OK {
			out.Val = nil
		}
		if out.Open != "" && len(out.Offenders) == 0 {
			return castRes{Open: out.Open}
		}
		out.Open = ""
		return out
	}
	return fail()
}

func b2i(b bool) int64 {
	if b {
		return 1
	}
	return 0
}

// ---------------------------------------------------------------- rendering

// displays returns every text the common Display format of the two value libraries can
// produce for v (objects enumerate their fields in Go map order, so a value with n wide
// objects has several renderings). anyObjNested: any-objects do not indent nested values.
func displays(v *mval) []string {
	switch v.K {
	case mInt:
		return []string{strconv.FormatInt(v.I, 10)}
	case mFloat:
		return []string{fmt.Sprint(v.F)}
	case mBool:
		return []string{strconv.FormatBool(v.B)}
	case mStr:
		return []string{v.S}
	case mNull:
		return []string{"null"}
	case mRange:
		return []string{fmt.Sprintf("%d..%d", v.Lo, v.Hi)}
	case mOpt:
		if v.Inner == nil {
			return []string{"none"}
		}
		var out []string
		for _, d := range displays(v.Inner) {
			out = append(out, "Some("+d+")")
		}
		return out
	case mList:
		out := []string{""}
		for i, e := range v.Elems {
			var next []string
			for _, pre := range out {
				for _, d := range displays(e) {
					s := pre
					if i > 0 {
						s += ", "
					}
					next = append(next, s+d)
				}
			}
			out = next
		}
		for i := range out {
			out[i] = "[" + out[i] + "]"
		}
		return out
	case mObj, mAnyObj:
		// all permutations of the fields x all renderings of the field values
		n := len(v.Keys)
		idx := make([]int, n)
		for i := range idx {
			idx[i] = i
		}
		var out []string
		var perm func(k int)
		perm = func(k int) {
			if k == n {
				parts := []string{""}
				for j, fi := range idx {
					var next []string
					for _, pre := range parts {
						for _, d := range displays(v.Vals[fi]) {
							if v.K == mObj {
								d = strings.ReplaceAll(d, "\n", "\n    ")
							}
							s := pre
							if j > 0 {
								s += ",\n    "
							}
							next = append(next, s+v.Keys[fi]+": "+d)
						}
					}
					parts = next
				}
				for _, p := range parts {
					out = append(out, "{\n    "+p+"\n}")
				}
				return
			}
			for i := k; i < n; i++ {
				idx[k], idx[i] = idx[i], idx[k]
				perm(k + 1)
				idx[k], idx[i] = idx[i], idx[k]
			}
		}
		perm(0)
		return out
	}
	return []string{"?"}
}

func inSet(s string, set []string) bool {
	for _, x := range set {
		if x == s {
			return true
		}
	}
	return false
}

// srcLit renders v as a Homescript literal expression; ok is false when no literal spelling
// exists (any-objects with content, negative numbers are spelled with prefix minus).
func srcLit(v *mval) (string, bool) {
	switch v.K {
	case mInt:
		if v.I < 0 {
			if v.I == math.MinInt64 {
				return "", false
			}
			return "(-" + strconv.FormatInt(-v.I, 10) + ")", true
		}
		return strconv.FormatInt(v.I, 10), true
	case mFloat:
		if v.F < 0 {
			return "(-" + fmtFloat(-v.F) + ")", true
		}
		return fmtFloat(v.F), true
	case mBool:
		return strconv.FormatBool(v.B), true
	case mStr:
		return srcStr(v.S), true
	case mNull:
		return "null", true
	case mRange:
		if v.Lo < 0 || v.Hi < 0 {
			lo, _ := srcLit(vI(v.Lo))
			hi, _ := srcLit(vI(v.Hi))
			return "(" + lo + ".." + hi + ")", true
		}
		return fmt.Sprintf("(%d..%d)", v.Lo, v.Hi), true
	case mOpt:
		if v.Inner == nil {
			return "none", true
		}
		s, ok := srcLit(v.Inner)
		return "?" + s, ok
	case mList:
		var p []string
		for _, e := range v.Elems {
			s, ok := srcLit(e)
			if !ok {
				return "", false
			}
			p = append(p, s)
		}
		return "[" + strings.Join(p, ", ") + "]", true
	case mObj:
		var p []string
		for i, k := range v.Keys {
			s, ok := srcLit(v.Vals[i])
			if !ok {
				return "", false
			}
			p = append(p, k+": "+s)
		}
		return "new { " + strings.Join(p, ", ") + " }", true
	case mAnyObj:
		if len(v.Keys) == 0 {
			return "new { ? }", true
		}
		return "", false
	}
	return "", false
}

// srcStr is a Homescript string literal (only the escapes the lexer documents).
func srcStr(s string) string {
	var b strings.Builder
	b.WriteByte('"')
	for _, r := range s {
		switch r {
		case '"':
			b.WriteString(`\"`)
		case '\\':
			b.WriteString(`\\`)
		case '\n':
			b.WriteString(`\n`)
		default:
			b.WriteRune(r)
		}
	}
	b.WriteByte('"')
	return b.String()
}

// staticType returns the static type a literal of v has (elements of a list must agree), or
// nil when v has no any-free static type (heterogeneous list, nothing known about an empty
// list / none is fine: they unify with anything and are reported as nil-elem wildcards).
func staticType(v *mval) (*mtype, bool) {
	switch v.K {
	case mInt:
		return mtInt, true
	case mFloat:
		return mtFloat, true
	case mBool:
		return mtBool, true
	case mStr:
		return mtStr, true
	case mNull:
		return mtNull, true
	case mRange:
		return mtRange, true
	case mAnyObj:
		return mtAnyObj, true
	case mOpt:
		if v.Inner == nil {
			return &mtype{K: mkOpt}, true // wildcard inner
		}
		t, ok := staticType(v.Inner)
		return mtOpt(t), ok
	case mList:
		var cur *mtype
		for _, e := range v.Elems {
			t, ok := staticType(e)
			if !ok {
				return nil, false
			}
			if cur == nil {
				cur = t
				continue
			}
			u, ok := unify(cur, t)
			if !ok {
				return nil, false
			}
			cur = u
		}
		return &mtype{K: mkList, Elem: cur}, true
	case mObj:
		t := &mtype{K: tObj}
		for i, k := range v.Keys {
			ft, ok := staticType(v.Vals[i])
			if !ok {
				return nil, false
			}
			t.FNames = append(t.FNames, k)
			t.FTypes = append(t.FTypes, ft)
		}
		return t, true
	}
	return nil, false
}

// unify merges two literal types where nil Elem is a wildcard.
func unify(a, b *mtype) (*mtype, bool) {
	if a == nil {
		return b, true
	}
	if b == nil {
		return a, true
	}
	if a.K != b.K {
		return nil, false
	}
	switch a.K {
	case mkList, mkOpt:
		e, ok := unify(a.Elem, b.Elem)
		if !ok {
			return nil, false
		}
		return &mtype{K: a.K, Elem: e}, true
	case tObj:
		if len(a.FNames) != len(b.FNames) {
			return nil, false
		}
		t := &mtype{K: tObj}
		for i := range a.FNames {
			if a.FNames[i] != b.FNames[i] {
				return nil, false
			}
			f, ok := unify(a.FTypes[i], b.FTypes[i])
			if !ok {
				return nil, false
			}
			t.FNames = append(t.FNames, a.FNames[i])
			t.FTypes = append(t.FTypes, f)
		}
		return t, true
	}
	return a, true
}

// hasWildcard: the literal type still has an undetermined component (empty list / none).
func (t *mtype) hasWildcard() bool {
	if t == nil {
		return true
	}
	switch t.K {
	case mkList, mkOpt:
		return t.Elem.hasWildcard()
	case tObj:
		for _, f := range t.FTypes {
			if f.hasWildcard() {
				return true
			}
		}
	}
	return false
}

// ---------------------------------------------------------------- JSON

// jsonOf is the reference JSON text of v (ok=false: not JSON-representable: ranges). Options
// are transparent, none and null are `null`, floats always carry a fraction or exponent.
func jsonOf(v *mval) (string, bool) {
	switch v.K {
	case mInt:
		return strconv.FormatInt(v.I, 10), true
	case mFloat:
		if math.IsInf(v.F, 0) || math.IsNaN(v.F) {
			return "", false
		}
		return fmtFloat(v.F), true
	case mBool:
		return strconv.FormatBool(v.B), true
	case mStr:
		b, _ := json.Marshal(v.S)
		return string(b), true
	case mNull:
		return "null", true
	case mOpt:
		if v.Inner == nil {
			return "null", true
		}
		return jsonOf(v.Inner)
	case mList:
		var p []string
		for _, e := range v.Elems {
			s, ok := jsonOf(e)
			if !ok {
				return "", false
			}
			p = append(p, s)
		}
		return "[" + strings.Join(p, ",") + "]", true
	case mObj, mAnyObj:
		var p []string
		for i, k := range v.Keys {
			s, ok := jsonOf(v.Vals[i])
			if !ok {
				return "", false
			}
			kb, _ := json.Marshal(k)
			p = append(p, string(kb)+":"+s)
		}
		return "{" + strings.Join(p, ",") + "}", true
	}
	return "", false
}

// ---------------------------------------------------------------- conversions: runtime/value

func toRV(v *mval) *value.Value {
	switch v.K {
	case mInt:
		return value.NewValueInt(v.I)
	case mFloat:
		return value.NewValueFloat(v.F)
	case mBool:
		return value.NewValueBool(v.B)
	case mStr:
		return value.NewValueString(v.S)
	case mNull:
		return value.NewValueNull()
	case mRange:
		return value.NewValueRange(*value.NewValueInt(v.Lo), *value.NewValueInt(v.Hi), v.Incl)
	case mOpt:
		if v.Inner == nil {
			return value.NewNoneOption()
		}
		return value.NewValueOption(toRV(v.Inner))
	case mList:
		xs := make([]*value.Value, 0, len(v.Elems))
		for _, e := range v.Elems {
			xs = append(xs, toRV(e))
		}
		return value.NewValueList(xs)
	case mObj, mAnyObj:
		m := map[string]*value.Value{}
		for i, k := range v.Keys {
			m[k] = toRV(v.Vals[i])
		}
		if v.K == mObj {
			return value.NewValueObject(m)
		}
		return value.NewValueAnyObject(m)
	}
	panic("toRV")
}

// fromRV reads a runtime value back into the model; err describes a malformed value (nil
// pointers, kinds outside the model).
func fromRV(x value.Value) (v *mval, err error) {
	defer func() {
		if r := recover(); r != nil {
			v, err = nil, fmt.Errorf("malformed value: %v", r)
		}
	}()
	return fromRV0(x)
}

func fromRV0(x value.Value) (*mval, error) {
	if x == nil {
		return nil, fmt.Errorf("nil value")
	}
	switch x := x.(type) {
	case value.ValueInt:
		return vI(x.Inner), nil
	case value.ValueFloat:
		return vF(x.Inner), nil
	case value.ValueBool:
		return vB(x.Inner), nil
	case value.ValueString:
		return vS(x.Inner), nil
	case value.ValueNull:
		return vNull(), nil
	case value.ValueRange:
		return &mval{K: mRange, Lo: (*x.Start).(value.ValueInt).Inner, Hi: (*x.End).(value.ValueInt).Inner, Incl: x.EndIsInclusive}, nil
	case value.ValueOption:
		if x.Inner == nil {
			return vNone(), nil
		}
		in, err := fromRV0(*x.Inner)
		if err != nil {
			return nil, err
		}
		return vSome(in), nil
	case value.ValueList:
		out := &mval{K: mList}
		for _, e := range *x.Values {
			if e == nil {
				return nil, fmt.Errorf("nil list element")
			}
			m, err := fromRV0(*e)
			if err != nil {
				return nil, err
			}
			out.Elems = append(out.Elems, m)
		}
		return out, nil
	case value.ValueObject:
		return fromRVFields(mObj, x.FieldsInternal)
	case value.ValueAnyObject:
		return fromRVFields(mAnyObj, x.FieldsInternal)
	}
	return nil, fmt.Errorf("value kind %v outside the model", x.Kind())
}

func fromRVFields(k mk, m map[string]*value.Value) (*mval, error) {
	out := &mval{K: k}
	keys := make([]string, 0, len(m))
	for n := range m {
		keys = append(keys, n)
	}
	sort.Strings(keys)
	for _, n := range keys {
		if m[n] == nil {
			return nil, fmt.Errorf("nil field %s", n)
		}
		x, err := fromRV0(*m[n])
		if err != nil {
			return nil, err
		}
		out.Keys = append(out.Keys, n)
		out.Vals = append(out.Vals, x)
	}
	return out, nil
}

// ---------------------------------------------------------------- conversions: interpreter/value

func toIV(v *mval) *ivalue.Value {
	switch v.K {
	case mInt:
		return ivalue.NewValueInt(v.I)
	case mFloat:
		return ivalue.NewValueFloat(v.F)
	case mBool:
		return ivalue.NewValueBool(v.B)
	case mStr:
		return ivalue.NewValueString(v.S)
	case mNull:
		return ivalue.NewValueNull()
	case mRange:
		return ivalue.NewValueRange(*ivalue.NewValueInt(v.Lo), *ivalue.NewValueInt(v.Hi), v.Incl)
	case mOpt:
		if v.Inner == nil {
			return ivalue.NewNoneOption()
		}
		return ivalue.NewValueOption(toIV(v.Inner))
	case mList:
		xs := make([]*ivalue.Value, 0, len(v.Elems))
		for _, e := range v.Elems {
			xs = append(xs, toIV(e))
		}
		return ivalue.NewValueList(xs)
	case mObj, mAnyObj:
		m := map[string]*ivalue.Value{}
		for i, k := range v.Keys {
			m[k] = toIV(v.Vals[i])
		}
		if v.K == mObj {
			return ivalue.NewValueObject(m)
		}
		return ivalue.NewValueAnyObject(m)
	}
	panic("toIV")
}

func fromIV(x ivalue.Value) (v *mval, err error) {
	defer func() {
		if r := recover(); r != nil {
			v, err = nil, fmt.Errorf("malformed value: %v", r)
		}
	}()
	return fromIV0(x)
}

func fromIV0(x ivalue.Value) (*mval, error) {
	if x == nil {
		return nil, fmt.Errorf("nil value")
	}
	switch x := x.(type) {
	case ivalue.ValueInt:
		return vI(x.Inner), nil
	case ivalue.ValueFloat:
		return vF(x.Inner), nil
	case ivalue.ValueBool:
		return vB(x.Inner), nil
	case ivalue.ValueString:
		return vS(x.Inner), nil
	case ivalue.ValueNull:
		return vNull(), nil
	case ivalue.ValueRange:
		return &mval{K: mRange, Lo: (*x.Start).(ivalue.ValueInt).Inner, Hi: (*x.End).(ivalue.ValueInt).Inner, Incl: x.EndIsInclusive}, nil
	case ivalue.ValueOption:
		if x.Inner == nil {
			return vNone(), nil
		}
		in, err := fromIV0(*x.Inner)
		if err != nil {
			return nil, err
		}
		return vSome(in), nil
	case ivalue.ValueList:
		out := &mval{K: mList}
		for _, e := range *x.Values {
			if e == nil {
				return nil, fmt.Errorf("nil list element")
			}
			m, err := fromIV0(*e)
			if err != nil {
				return nil, err
			}
			out.Elems = append(out.Elems, m)
		}
		return out, nil
	case ivalue.ValueObject:
		return fromIVFields(mObj, x.FieldsInternal)
	case ivalue.ValueAnyObject:
		return fromIVFields(mAnyObj, x.FieldsInternal)
	}
	return nil, fmt.Errorf("value kind %v outside the model", x.Kind())
}

func fromIVFields(k mk, m map[string]*ivalue.Value) (*mval, error) {
	out := &mval{K: k}
	keys := make([]string, 0, len(m))
	for n := range m {
		keys = append(keys, n)
	}
	sort.Strings(keys)
	for _, n := range keys {
		if m[n] == nil {
			return nil, fmt.Errorf("nil field %s", n)
		}
		x, err := fromIV0(*m[n])
		if err != nil {
			return nil, err
		}
		out.Keys = append(out.Keys, n)
		out.Vals = append(out.Vals, x)
	}
	return out, nil
}

// guard runs f and converts a Go panic into (class HOST-PANIC:<fn>:<msg>, true).
func guard(fn string, f func()) (class string, panicked bool) {
	defer func() {
		if r := recover(); r != nil {
			class = "HOST-PANIC:" + fn + ":" + normMsg(fmt.Sprint(r))
			panicked = true
		}
	}()
	f()
	return "", false
}
