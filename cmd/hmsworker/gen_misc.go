package main

import (
	"fmt"

	"hmsverif/internal/hs"
)

// S7: values of if / match / block / try in every position (let initialiser, argument,
// operand, tail of a function, condition, index, nested), for each branch taken.
// S8: calls: arity 0-3, recursion, function values, closures (non-capturing), early returns,
// functions as arguments and results.

var valKinds = []string{"if", "if-elseif", "match", "match-multi", "block", "try-ok", "try-throw", "nested-if-in-match", "block-with-let", "if-no-else-stmt", "match-str", "match-bool", "try-in-try", "if-whose-else-throws", "if-whose-then-throws", "match-whose-default-throws", "if-elseif-whose-last-else-throws"}
var valPositions = []string{"let", "argument", "operand-left", "operand-right", "tail", "return", "assign", "index", "list-elem", "obj-field", "condition", "method-receiver"}

func valCount() int { return len(valKinds) * len(valPositions) * 3 }

func valExpr(kind string, sel int) (hs.Expr, bool) {
	c := hs.Bin("==", hs.V("sel"), hs.I(0))
	switch kind {
	case "if":
		return &hs.If{Cond: c, Then: hs.Blk(hs.I(10), hs.PrintS(hs.S("t;"))), Else: hs.Blk(hs.I(20), hs.PrintS(hs.S("e;")))}, true
	case "if-elseif":
		return &hs.If{Cond: c, Then: hs.Blk(hs.I(10)), ElIf: &hs.If{Cond: hs.Bin("==", hs.V("sel"), hs.I(1)), Then: hs.Blk(hs.I(20)), Else: hs.Blk(hs.I(30))}}, true
	case "match":
		return &hs.Match{X: hs.V("sel"), Arms: []hs.MatchArm{{Lits: []hs.Expr{hs.I(0)}, Body: hs.I(10)}, {Lits: []hs.Expr{hs.I(1)}, Body: hs.I(20)}, {Body: hs.I(30)}}}, true
	case "match-multi":
		return &hs.Match{X: hs.V("sel"), Arms: []hs.MatchArm{{Lits: []hs.Expr{hs.I(0)}, Body: &hs.BlockExpr{B: hs.Blk(hs.I(10), hs.PrintS(hs.S("a;")))}}, {Lits: []hs.Expr{hs.I(-1)}, Body: hs.I(15)}, {Lits: []hs.Expr{hs.I(1)}, Body: hs.I(20)}, {Body: &hs.BlockExpr{B: hs.Blk(hs.I(30), hs.PrintS(hs.S("d;")))}}}}, true
	case "match-str":
		return &hs.Match{X: hs.MCall(hs.V("sel"), "to_string"), Arms: []hs.MatchArm{{Lits: []hs.Expr{hs.S("0")}, Body: hs.I(10)}, {Lits: []hs.Expr{hs.S("1")}, Body: hs.I(20)}, {Body: hs.I(30)}}}, true
	case "match-bool":
		return &hs.Match{X: c, Arms: []hs.MatchArm{{Lits: []hs.Expr{hs.B(true)}, Body: hs.I(10)}, {Lits: []hs.Expr{hs.B(false)}, Body: hs.I(20)}, {Body: hs.I(30)}}}, sel < 2
	case "block":
		return &hs.BlockExpr{B: hs.Blk(hs.Bin("+", hs.V("sel"), hs.I(10)), hs.PrintS(hs.S("b;")))}, sel == 0
	case "block-with-let":
		return &hs.BlockExpr{B: hs.Blk(hs.Bin("*", hs.V("t"), hs.I(2)), hs.LetS("t", hs.Bin("+", hs.V("sel"), hs.I(10))), hs.LetS("u", hs.I(99)))}, true
	case "try-ok":
		return &hs.Try{Body: hs.Blk(hs.Bin("+", hs.V("sel"), hs.I(10))), Var: "e", Catch: hs.Blk(hs.I(-1))}, sel == 0
	case "try-throw":
		return &hs.Try{Body: hs.Blk(hs.I(10), hs.ES(&hs.If{Cond: hs.Bin("!=", hs.V("sel"), hs.I(0)), Then: hs.Blk(nil, hs.ES(hs.CallN("throw", hs.S("x"))))})), Var: "e", Catch: hs.Blk(hs.Bin("+", hs.I(20), hs.MCall(hs.Mem(hs.V("e"), "message"), "len")))}, sel < 2
	case "try-in-try":
		inner := &hs.Try{Body: hs.Blk(hs.I(10), hs.ES(&hs.If{Cond: hs.Bin("==", hs.V("sel"), hs.I(1)), Then: hs.Blk(nil, hs.ES(hs.CallN("throw", hs.S("in"))))})), Var: "e", Catch: hs.Blk(hs.I(20), hs.ES(&hs.If{Cond: hs.Bin("==", hs.V("sel"), hs.I(1)), Then: hs.Blk(nil, hs.ES(hs.CallN("throw", hs.S("again"))))}))}
		return &hs.Try{Body: hs.Blk(inner, hs.ES(&hs.If{Cond: hs.Bin("==", hs.V("sel"), hs.I(2)), Then: hs.Blk(nil, hs.ES(hs.CallN("throw", hs.S("out"))))})), Var: "e2", Catch: hs.Blk(hs.Bin("+", hs.I(30), hs.MCall(hs.Mem(hs.V("e2"), "message"), "len")))}, true
	case "if-whose-else-throws":
		// one branch yields the value, the other leaves: the expression has the type of the value
		return &hs.If{Cond: hs.Bin("<", hs.V("sel"), hs.I(2)), Then: hs.Blk(hs.Bin("+", hs.V("sel"), hs.I(10))), Else: hs.Blk(nil, hs.ES(hs.CallN("throw", hs.S("left"))))}, true
	case "if-whose-then-throws":
		return &hs.If{Cond: hs.Bin(">=", hs.V("sel"), hs.I(2)), Then: hs.Blk(nil, hs.ES(hs.CallN("throw", hs.S("left")))), Else: hs.Blk(hs.Bin("+", hs.V("sel"), hs.I(10)))}, true
	case "match-whose-default-throws":
		return &hs.Match{X: hs.V("sel"), Arms: []hs.MatchArm{{Lits: []hs.Expr{hs.I(0)}, Body: hs.I(10)}, {Lits: []hs.Expr{hs.I(1)}, Body: hs.I(20)}, {Body: &hs.BlockExpr{B: hs.Blk(nil, hs.ES(hs.CallN("throw", hs.S("left"))))}}}}, true
	case "if-elseif-whose-last-else-throws":
		return &hs.If{Cond: c, Then: hs.Blk(hs.I(10)), ElIf: &hs.If{Cond: hs.Bin("==", hs.V("sel"), hs.I(1)), Then: hs.Blk(hs.I(20)), Else: hs.Blk(nil, hs.ES(hs.CallN("throw", hs.S("left"))))}}, true
	case "nested-if-in-match":
		return &hs.Match{X: hs.V("sel"), Arms: []hs.MatchArm{{Lits: []hs.Expr{hs.I(0)}, Body: &hs.If{Cond: c, Then: hs.Blk(hs.I(10)), Else: hs.Blk(hs.I(11))}}, {Body: &hs.If{Cond: hs.Bin("==", hs.V("sel"), hs.I(1)), Then: hs.Blk(hs.I(20)), Else: hs.Blk(hs.I(30))}}}}, true
	case "if-no-else-stmt":
		return nil, false
	}
	return nil, false
}

func valGen(idx int) (progCase, bool) {
	d := radix(idx, 3, len(valPositions), len(valKinds))
	sel, pos, kind := d[0], valPositions[d[1]], valKinds[d[2]]
	if kind == "if-no-else-stmt" {
		if pos != "let" {
			return progCase{}, false
		}
		// statement position: an if without else has no value
		body := []hs.Stmt{hs.LetS("sel", hs.I(int64(sel))), hs.ES(&hs.If{Cond: hs.Bin("==", hs.V("sel"), hs.I(0)), Then: hs.Blk(nil, hs.Println(hs.S("then")))}), hs.Println(hs.S("end"))}
		return mkCase(&hs.Program{Funcs: []*hs.Func{hs.Fn("main", nil, hs.Blk(nil, body...))}}, "val:"+kind), true
	}
	mk := func() hs.Expr { e, _ := valExpr(kind, sel); return e }
	if _, ok := valExpr(kind, sel); !ok {
		return progCase{}, false
	}
	prog := &hs.Program{}
	body := []hs.Stmt{hs.LetS("sel", hs.I(int64(sel)))}
	switch pos {
	case "let":
		body = append(body, hs.LetS("v", mk()), hs.Println(hs.V("v")))
	case "argument":
		prog.Funcs = append(prog.Funcs, hs.Fn("show", hs.TInt, hs.Blk(hs.Bin("+", hs.V("a"), hs.V("b")), hs.Println(hs.S("show"), hs.V("a"), hs.V("b"))), hs.P("a", hs.TInt), hs.P("b", hs.TInt)))
		body = append(body, hs.Println(hs.CallN("show", hs.I(1), mk())))
	case "operand-left":
		body = append(body, hs.Println(hs.Bin("-", mk(), hs.I(1))))
	case "operand-right":
		body = append(body, hs.Println(hs.Bin("-", hs.I(100), mk())))
	case "tail":
		prog.Funcs = append(prog.Funcs, hs.Fn("f", hs.TInt, hs.Blk(mk(), hs.LetS("pad", hs.I(5))), hs.P("sel", hs.TInt)))
		body = append(body, hs.Println(hs.CallN("f", hs.V("sel"))))
	case "return":
		prog.Funcs = append(prog.Funcs, hs.Fn("f", hs.TInt, hs.Blk(hs.I(-7), hs.LetS("pad", hs.I(5)), &hs.Return{X: mk()}), hs.P("sel", hs.TInt)))
		body = append(body, hs.Println(hs.CallN("f", hs.V("sel"))))
	case "assign":
		body = append(body, hs.LetS("v", hs.I(0)), hs.ES(hs.Asg("=", hs.V("v"), mk())), hs.ES(hs.Asg("+=", hs.V("v"), mk())), hs.Println(hs.V("v")))
	case "index":
		body = append(body, hs.LetS("l", hs.List(hs.I(0), hs.I(1), hs.I(2), hs.I(3))), hs.Println(hs.Idx(hs.V("l"), hs.Bin("%", mk(), hs.I(4)))))
	case "list-elem":
		body = append(body, hs.Println(hs.List(hs.I(1), mk(), hs.I(3))))
	case "obj-field":
		body = append(body, hs.LetS("o", &hs.ObjLit{Fields: []hs.ObjField{{Name: "f", X: mk()}}}), hs.Println(hs.Mem(hs.V("o"), "f")))
	case "condition":
		body = append(body, hs.ES(&hs.If{Cond: hs.Bin(">", mk(), hs.I(15)), Then: hs.Blk(nil, hs.Println(hs.S("big"))), Else: hs.Blk(nil, hs.Println(hs.S("small")))}))
	case "method-receiver":
		body = append(body, hs.Println(hs.MCall(&hs.Group{X: mk()}, "to_string")))
	}
	body = append(body, hs.Println(hs.S("end")))
	prog.Funcs = append(prog.Funcs, hs.Fn("main", nil, hs.Blk(nil, body...)))
	return mkCase(prog, "val:"+kind, "pos:"+pos), true
}

// ---------------------------------------------------------------- S8

type callCase struct {
	name string
	prog func() *hs.Program
}

func mainOnly(extra []*hs.Func, body ...hs.Stmt) *hs.Program {
	return &hs.Program{Funcs: append(extra, hs.Fn("main", nil, hs.Blk(nil, append(body, hs.Println(hs.S("end")))...)))}
}

var callCases []callCase

func init() {
	intP := func(n string) hs.Param { return hs.P(n, hs.TInt) }
	// arity 0..3 with distinct values, every permutation position visible
	for ar := 0; ar <= 3; ar++ {
		ar := ar
		callCases = append(callCases, callCase{fmt.Sprintf("arity-%d", ar), func() *hs.Program {
			names := []string{"a", "b", "c"}[:ar]
			var ps []hs.Param
			args := []hs.Expr{hs.S("f")}
			var call []hs.Expr
			sum := hs.Expr(hs.I(0))
			for i, n := range names {
				ps = append(ps, intP(n))
				args = append(args, hs.V(n))
				call = append(call, hs.I(int64(i+1)*11))
				sum = hs.Bin("+", hs.Bin("*", sum, hs.I(100)), hs.V(n))
			}
			f := hs.Fn("f", hs.TInt, hs.Blk(sum, hs.Println(args...)), ps...)
			return mainOnly([]*hs.Func{f}, hs.Println(hs.CallN("f", call...)), hs.LetS("r", hs.CallN("f", call...)), hs.Println(hs.V("r")))
		}})
	}
	callCases = append(callCases,
		callCase{"recursion-factorial", func() *hs.Program {
			f := hs.Fn("fact", hs.TInt, hs.Blk(&hs.If{Cond: hs.Bin("<=", hs.V("n"), hs.I(1)), Then: hs.Blk(hs.I(1)), Else: hs.Blk(hs.Bin("*", hs.V("n"), hs.CallN("fact", hs.Bin("-", hs.V("n"), hs.I(1)))))}), intP("n"))
			return mainOnly([]*hs.Func{f}, hs.Println(hs.CallN("fact", hs.I(0)), hs.CallN("fact", hs.I(1)), hs.CallN("fact", hs.I(5)), hs.CallN("fact", hs.I(10))))
		}},
		callCase{"recursion-fib-two-calls", func() *hs.Program {
			f := hs.Fn("fib", hs.TInt, hs.Blk(&hs.If{Cond: hs.Bin("<", hs.V("n"), hs.I(2)), Then: hs.Blk(hs.V("n")), Else: hs.Blk(hs.Bin("+", hs.CallN("fib", hs.Bin("-", hs.V("n"), hs.I(1))), hs.CallN("fib", hs.Bin("-", hs.V("n"), hs.I(2)))))}), intP("n"))
			return mainOnly([]*hs.Func{f}, hs.Println(hs.CallN("fib", hs.I(10))))
		}},
		callCase{"mutual-recursion", func() *hs.Program {
			ev := hs.Fn("even", hs.TBool, hs.Blk(&hs.If{Cond: hs.Bin("==", hs.V("n"), hs.I(0)), Then: hs.Blk(hs.B(true)), Else: hs.Blk(hs.CallN("odd", hs.Bin("-", hs.V("n"), hs.I(1))))}), intP("n"))
			od := hs.Fn("odd", hs.TBool, hs.Blk(&hs.If{Cond: hs.Bin("==", hs.V("n"), hs.I(0)), Then: hs.Blk(hs.B(false)), Else: hs.Blk(hs.CallN("even", hs.Bin("-", hs.V("n"), hs.I(1))))}), intP("n"))
			return mainOnly([]*hs.Func{ev, od}, hs.Println(hs.CallN("even", hs.I(10)), hs.CallN("even", hs.I(7)), hs.CallN("odd", hs.I(7))))
		}},
		callCase{"locals-survive-calls", func() *hs.Program {
			g := hs.Fn("g", hs.TInt, hs.Blk(hs.Bin("+", hs.V("p"), hs.V("q")), hs.LetS("p", hs.Bin("*", hs.V("x"), hs.I(2))), hs.LetS("q", hs.I(1000))), intP("x"))
			return mainOnly([]*hs.Func{g}, hs.LetS("a", hs.I(1)), hs.LetS("b", hs.I(2)), hs.LetS("r", hs.CallN("g", hs.V("a"))), hs.LetS("c", hs.I(3)), hs.Println(hs.V("a"), hs.V("b"), hs.V("r"), hs.V("c")), hs.LetS("r2", hs.CallN("g", hs.CallN("g", hs.V("b")))), hs.Println(hs.V("a"), hs.V("b"), hs.V("r"), hs.V("c"), hs.V("r2")))
		}},
		callCase{"function-value", func() *hs.Program {
			f := hs.Fn("dbl", hs.TInt, hs.Blk(hs.Bin("*", hs.V("x"), hs.I(2))), intP("x"))
			return mainOnly([]*hs.Func{f}, hs.LetS("g", hs.V("dbl")), hs.Println(hs.CallN("g", hs.I(21))), hs.LetS("h", hs.V("g")), hs.Println(hs.CallN("h", hs.CallN("g", hs.I(1)))))
		}},
		callCase{"closure-noncapturing", func() *hs.Program {
			lit := &hs.FnLit{Params: []hs.Field{{Name: "a", T: hs.TInt}, {Name: "b", T: hs.TInt}}, Ret: hs.TInt, Body: hs.Blk(hs.Bin("-", hs.V("a"), hs.V("b")), hs.LetS("t", hs.I(5)))}
			return mainOnly(nil, hs.LetS("pre", hs.I(7)), hs.LetS("c", lit), hs.LetS("post", hs.I(8)), hs.Println(hs.CallN("c", hs.I(10), hs.I(3))), hs.Println(hs.V("pre"), hs.V("post")), hs.Println(hs.CallN("c", hs.CallN("c", hs.I(100), hs.I(1)), hs.I(9))))
		}},
		callCase{"closure-reads-global", func() *hs.Program {
			lit := &hs.FnLit{Params: []hs.Field{{Name: "a", T: hs.TInt}}, Ret: hs.TInt, Body: hs.Blk(hs.Bin("+", hs.V("a"), hs.V("G")), hs.ES(hs.Asg("+=", hs.V("G"), hs.I(1))))}
			p := mainOnly(nil, hs.LetS("c", lit), hs.Println(hs.CallN("c", hs.I(10))), hs.Println(hs.CallN("c", hs.I(10))), hs.Println(hs.V("G")))
			p.Globals = []*hs.Let{{Name: "G", X: hs.I(100)}}
			return p
		}},
		callCase{"closure-in-list-and-object", func() *hs.Program {
			mkLit := func(k int64) hs.Expr {
				return &hs.FnLit{Params: []hs.Field{{Name: "a", T: hs.TInt}}, Ret: hs.TInt, Body: hs.Blk(hs.Bin("+", hs.V("a"), hs.I(k)))}
			}
			return mainOnly(nil, hs.LetS("fs", hs.List(mkLit(1), mkLit(2))), hs.Println(hs.CallE(hs.Idx(hs.V("fs"), hs.I(0)), hs.I(10)), hs.CallE(hs.Idx(hs.V("fs"), hs.I(1)), hs.I(10))),
				hs.LetS("o", &hs.ObjLit{Fields: []hs.ObjField{{Name: "inc", X: mkLit(7)}}}), hs.Println(hs.MCall(hs.V("o"), "inc", hs.I(1))))
		}},
		callCase{"function-literals-nested-in-each-other-then-later-literals", func() *hs.Program {
			// every literal of a module is a function of its own: literals nested one, two and three
			// deep, each followed by later literals in the same function and in other functions
			one := func(body *hs.Block) *hs.FnLit {
				return &hs.FnLit{Params: []hs.Field{{Name: "x", T: hs.TInt}}, Ret: hs.TInt, Body: body}
			}
			leaf := func(k int64) *hs.FnLit { return one(hs.Blk(hs.Bin("+", hs.Bin("*", hs.V("x"), hs.I(10)), hs.I(k)))) }
			nest2 := one(hs.Blk(hs.Bin("+", hs.CallN("inner", hs.V("x")), hs.I(1)), hs.LetS("inner", leaf(2))))
			nest3 := one(hs.Blk(hs.Bin("+", hs.CallN("mid", hs.V("x")), hs.I(100)), hs.LetS("mid", one(hs.Blk(hs.Bin("-", hs.CallN("inner", hs.V("x")), hs.CallN("inner2", hs.I(1))), hs.LetS("inner", leaf(3)), hs.LetS("inner2", leaf(4)))))))
			mk := hs.Fn("make", hs.TFn(hs.TInt, hs.Field{Name: "x", T: hs.TInt}), hs.Blk(one(hs.Blk(hs.Bin("+", hs.CallN("g", hs.V("x")), hs.I(5000)), hs.LetS("g", leaf(5))))))
			other := hs.Fn("other", hs.TInt, hs.Blk(hs.CallN("f", hs.V("v")), hs.LetS("f", leaf(6))), intP("v"))
			return mainOnly([]*hs.Func{mk, other},
				hs.LetS("outer", nest2), hs.LetS("sibling", leaf(7)),
				hs.Println(hs.CallN("outer", hs.I(4))), hs.Println(hs.CallN("sibling", hs.I(4))),
				hs.LetS("deep", nest3), hs.LetS("after", leaf(8)),
				hs.Println(hs.CallN("deep", hs.I(2))), hs.Println(hs.CallN("after", hs.I(2))),
				hs.Println(hs.CallE(hs.CallN("make"), hs.I(1))), hs.Println(hs.CallN("other", hs.I(1))),
				hs.Println(hs.CallN("outer", hs.I(5))), hs.Println(hs.CallN("sibling", hs.I(5))))
		}},
		callCase{"exceptions-caught-in-the-frame-that-raised-them-below-pending-operands", func() *hs.Program {
			// the operands that were pending inside the try when the exception was raised are gone,
			// those pending outside it are still there - also after 600 rounds
			thrower := func(v int64) hs.Expr {
				return &hs.If{Cond: hs.Bin(">=", hs.V("base"), hs.I(0)), Then: hs.Blk(hs.I(v), hs.ES(hs.CallN("throw", hs.S("inline")))), Else: hs.Blk(hs.I(v))}
			}
			guarded := hs.Fn("guarded", hs.TInt, hs.Blk(&hs.Try{Body: hs.Blk(hs.Bin("+", hs.Bin("*", hs.V("base"), hs.I(100)), thrower(1))), Var: "e", Catch: hs.Blk(hs.V("d"))}), intP("base"), intP("d"))
			loop := &hs.For{Var: "i", Iter: &hs.RangeLit{From: hs.I(0), To: hs.I(600)}, Body: hs.Blk(nil,
				hs.ES(hs.Asg("+=", hs.V("n"), &hs.Try{Body: hs.Blk(hs.Bin("+", hs.I(1), thrower(2))), Var: "e", Catch: hs.Blk(hs.I(1))})))}
			return mainOnly([]*hs.Func{guarded}, hs.LetS("base", hs.I(5)),
				hs.Println(hs.Bin("+", hs.V("base"), &hs.Try{Body: hs.Blk(hs.Bin("+", hs.I(10), thrower(3))), Var: "e", Catch: hs.Blk(hs.I(7))})),
				hs.Println(hs.Bin("+", hs.I(1000), hs.CallN("guarded", hs.I(3), hs.I(7)))),
				hs.Println(hs.Bin("-", hs.Bin("*", hs.I(2), &hs.Try{Body: hs.Blk(hs.Bin("+", hs.I(20), hs.Bin("+", hs.I(30), thrower(4)))), Var: "e", Catch: hs.Blk(hs.MCall(hs.Mem(hs.V("e"), "message"), "len"))}), hs.I(1))),
				hs.LetS("n", hs.I(0)), loop, hs.Println(hs.V("n"), hs.V("base")))
		}},
		callCase{"leaving-by-return-continue-break-below-pending-operands", func() *hs.Program {
			// the operands of the enclosing expressions that were pending when the function or the
			// iteration was left are not operands of what runs next
			g := hs.Fn("g", hs.TInt, hs.Blk(hs.Bin("+", hs.I(1), &hs.BlockExpr{B: hs.Blk(nil, &hs.Return{X: hs.I(5)})})))
			f := hs.Fn("f", hs.TInt, hs.Blk(hs.V("s"), hs.LetS("s", hs.I(0)),
				&hs.For{Var: "i", Iter: &hs.RangeLit{From: hs.I(0), To: hs.V("n")}, Body: hs.Blk(nil,
					hs.ES(hs.Asg("=", hs.V("s"), hs.Bin("+", hs.V("s"), hs.Bin("+", hs.I(10), &hs.If{Cond: hs.Bin("==", hs.V("i"), hs.I(1)), Then: hs.Blk(nil, &hs.Continue{}), Else: hs.Blk(hs.I(1))})))))}), intP("n"))
			b := hs.Fn("b", hs.TInt, hs.Blk(hs.V("s"), hs.LetS("s", hs.I(0)),
				&hs.Loop{Body: hs.Blk(nil,
					hs.ES(hs.Asg("=", hs.V("s"), hs.Bin("+", hs.V("s"), hs.Bin("+", hs.I(10), &hs.If{Cond: hs.Bin(">", hs.V("s"), hs.V("n")), Then: hs.Blk(nil, &hs.Break{}), Else: hs.Blk(hs.I(1))})))))}), intP("n"))
			return mainOnly([]*hs.Func{g, f, b},
				hs.Println(hs.Bin("+", hs.I(100), hs.CallN("g"))),
				hs.Println(hs.Bin("+", hs.I(100), hs.CallN("f", hs.I(3)))),
				hs.Println(hs.Bin("+", hs.I(100), hs.CallN("b", hs.I(15)))))
		}},
		callCase{"function-literal-called-from-deeper-blocks-than-it-was-created-in", func() *hs.Program {
			// the caller's locals - those of the blocks opened after the literal was created too -
			// are what they were when the call returns
			lit := &hs.FnLit{Params: []hs.Field{{Name: "a", T: hs.TInt}}, Ret: hs.TInt, Body: hs.Blk(hs.Bin("*", hs.V("y"), hs.I(2)), hs.LetS("y", hs.Bin("+", hs.V("a"), hs.I(1))))}
			deeper := &hs.BlockExpr{B: hs.Blk(nil, hs.LetS("z", hs.I(5)), hs.Println(hs.CallN("c", hs.V("z"))), hs.Println(hs.V("z"), hs.V("x")),
				hs.ES(&hs.BlockExpr{B: hs.Blk(nil, hs.LetS("w", hs.I(6)), hs.Println(hs.CallN("c", hs.V("w"))), hs.Println(hs.V("w"), hs.V("z"), hs.V("x")))}),
				&hs.For{Var: "i", Iter: &hs.RangeLit{From: hs.I(0), To: hs.I(2)}, Body: hs.Blk(nil, hs.LetS("k", hs.Bin("+", hs.V("i"), hs.V("z"))), hs.Println(hs.CallN("c", hs.V("k")), hs.V("k"), hs.V("i")))})}
			return mainOnly(nil, hs.LetS("x", hs.I(1)),
				hs.ES(&hs.BlockExpr{B: hs.Blk(nil, hs.LetS("c", lit), hs.ES(deeper), hs.Println(hs.CallN("c", hs.V("x")), hs.V("x")))}))
		}},
		callCase{"function-values-whose-parameter-names-differ-from-the-expected-type", func() *hs.Program {
			// arguments are passed by position, whatever the parameters of the function value are called
			ft := hs.TFn(hs.TStr, hs.Field{Name: "a", T: hs.TInt}, hs.Field{Name: "b", T: hs.TStr})
			ap := hs.Fn("apply", hs.TStr, hs.Blk(hs.CallN("f", hs.I(1), hs.S("s"))), hs.P("f", ft))
			same := hs.Fn("same", hs.TStr, hs.Blk(hs.Bin("+", hs.V("b"), hs.MCall(hs.V("a"), "to_string"))), intP("a"), hs.P("b", hs.TStr))
			lit := &hs.FnLit{Params: []hs.Field{{Name: "a", T: hs.TInt}, {Name: "b", T: hs.TStr}}, Ret: hs.TStr, Body: hs.Blk(hs.Bin("+", hs.MCall(hs.V("a"), "to_string"), hs.V("b")))}
			return mainOnly([]*hs.Func{ap, same}, hs.Println(hs.CallN("apply", hs.V("same"))), hs.Println(hs.CallN("apply", lit)))
		}},
		callCase{"equality-of-lists-and-strings-one-of-which-is-a-prefix-of-the-other", func() *hs.Program {
			eqs := func(a, b hs.Expr) hs.Stmt {
				return hs.Println(hs.Bin("==", a, b), hs.Bin("==", b, a), hs.Bin("!=", a, b), hs.Bin("!=", b, a))
			}
			return mainOnly(nil, hs.LetS("long", hs.List(hs.I(1), hs.I(2), hs.I(3))), hs.LetS("short", hs.List(hs.I(1), hs.I(2))), hs.LetT("empty", hs.TList(hs.TInt), hs.List()),
				eqs(hs.V("long"), hs.V("short")), eqs(hs.V("long"), hs.V("empty")), eqs(hs.V("short"), hs.V("empty")), eqs(hs.V("long"), hs.List(hs.I(1), hs.I(2), hs.I(3))), eqs(hs.V("long"), hs.List(hs.I(1), hs.I(2), hs.I(4))),
				eqs(hs.List(hs.V("long")), hs.List(hs.V("short"))), eqs(hs.List(hs.V("short"), hs.V("long")), hs.List(hs.V("short"))),
				hs.Println(hs.MCall(hs.List(hs.V("long")), "contains", hs.V("short")), hs.MCall(hs.List(hs.V("short")), "contains", hs.V("long")), hs.MCall(hs.List(hs.List(hs.I(1)), hs.V("short")), "contains", hs.V("empty")), hs.MCall(hs.List(hs.V("long"), hs.V("short")), "contains", hs.V("short"))),
				eqs(hs.S("abc"), hs.S("ab")), eqs(hs.S("ab"), hs.S("")), eqs(hs.List(hs.S("ab")), hs.List(hs.S("ab"), hs.S(""))),
				hs.Println(&hs.Match{X: hs.V("long"), Arms: []hs.MatchArm{{Lits: []hs.Expr{hs.List(hs.I(1), hs.I(2))}, Body: hs.S("prefix")}, {Lits: []hs.Expr{hs.List(hs.I(1), hs.I(2), hs.I(3))}, Body: hs.S("same")}, {Body: hs.S("other")}}}))
		}},
		callCase{"function-as-argument", func() *hs.Program {
			ft := hs.TFn(hs.TInt, hs.Field{Name: "x", T: hs.TInt})
			ap := hs.Fn("apply", hs.TInt, hs.Blk(hs.CallN("f", hs.CallN("f", hs.V("v")))), hs.P("f", ft), intP("v"))
			d := hs.Fn("dbl", hs.TInt, hs.Blk(hs.Bin("*", hs.V("x"), hs.I(2))), intP("x"))
			return mainOnly([]*hs.Func{ap, d}, hs.Println(hs.CallN("apply", hs.V("dbl"), hs.I(5))), hs.Println(hs.CallN("apply", &hs.FnLit{Params: []hs.Field{{Name: "x", T: hs.TInt}}, Ret: hs.TInt, Body: hs.Blk(hs.Bin("+", hs.V("x"), hs.I(1)))}, hs.I(5))))
		}},
		callCase{"function-as-result", func() *hs.Program {
			ft := hs.TFn(hs.TInt, hs.Field{Name: "x", T: hs.TInt})
			mk := hs.Fn("pick", ft, hs.Blk(&hs.If{Cond: hs.V("b"), Then: hs.Blk(hs.V("dbl")), Else: hs.Blk(hs.V("neg"))}), hs.P("b", hs.TBool))
			d := hs.Fn("dbl", hs.TInt, hs.Blk(hs.Bin("*", hs.V("x"), hs.I(2))), intP("x"))
			n := hs.Fn("neg", hs.TInt, hs.Blk(hs.Un("-", hs.V("x"))), intP("x"))
			return mainOnly([]*hs.Func{mk, d, n}, hs.Println(hs.CallE(hs.CallN("pick", hs.B(true)), hs.I(4)), hs.CallE(hs.CallN("pick", hs.B(false)), hs.I(4))))
		}},
		callCase{"early-return-in-loop", func() *hs.Program {
			f := hs.Fn("find", hs.TInt, hs.Blk(hs.I(-1), &hs.For{Var: "i", Iter: &hs.RangeLit{From: hs.I(0), To: hs.I(10)}, Body: hs.Blk(nil, hs.ES(&hs.If{Cond: hs.Bin("==", hs.Bin("*", hs.V("i"), hs.V("i")), hs.V("t")), Then: hs.Blk(nil, &hs.Return{X: hs.V("i")})}))}), intP("t"))
			return mainOnly([]*hs.Func{f}, hs.Println(hs.CallN("find", hs.I(49)), hs.CallN("find", hs.I(50)), hs.CallN("find", hs.I(0))))
		}},
		callCase{"many-locals-and-nested-calls", func() *hs.Program {
			h := hs.Fn("h", hs.TInt, hs.Blk(hs.Bin("+", hs.Bin("+", hs.V("a"), hs.V("l1")), hs.V("l2")), hs.LetS("l1", hs.I(1)), hs.LetS("l2", hs.I(2)), hs.LetS("l3", hs.I(3))), intP("a"))
			g := hs.Fn("g", hs.TInt, hs.Blk(hs.Bin("+", hs.V("m1"), hs.V("m2")), hs.LetS("m1", hs.CallN("h", hs.V("a"))), hs.LetS("m2", hs.CallN("h", hs.V("m1")))), intP("a"))
			return mainOnly([]*hs.Func{h, g}, hs.LetS("x", hs.CallN("g", hs.I(1))), hs.LetS("y", hs.CallN("g", hs.V("x"))), hs.Println(hs.V("x"), hs.V("y")))
		}},
		callCase{"match-without-default-whose-arms-all-diverge", func() *hs.Program {
			ret := func(v int64) hs.Expr { return &hs.BlockExpr{B: hs.Blk(nil, &hs.Return{X: hs.I(v)})} }
			pick := hs.Fn("pick", hs.TInt, hs.Blk(hs.I(0),
				hs.ES(&hs.Match{X: hs.V("n"), Arms: []hs.MatchArm{{Lits: []hs.Expr{hs.I(1)}, Body: ret(10)}, {Lits: []hs.Expr{hs.I(2)}, Body: ret(20)}}}),
				hs.Println(hs.S("fell through"), hs.V("n"))), intP("n"))
			loop := &hs.For{Var: "i", Iter: &hs.RangeLit{From: hs.I(0), To: hs.I(3)}, Body: hs.Blk(nil,
				hs.ES(&hs.Match{X: hs.V("i"), Arms: []hs.MatchArm{{Lits: []hs.Expr{hs.I(0)}, Body: &hs.BlockExpr{B: hs.Blk(nil, &hs.Continue{})}}}}),
				hs.Println(hs.S("body"), hs.V("i")))}
			return mainOnly([]*hs.Func{pick}, hs.Println(hs.CallN("pick", hs.I(1)), hs.CallN("pick", hs.I(2)), hs.CallN("pick", hs.I(3))), loop, hs.Println(hs.S("end")))
		}},
		callCase{"string-indexing-with-multi-byte-characters", func() *hs.Program {
			// indices that are in range whichever unit (bytes or characters) the bounds are counted in;
			// what an index denotes is left to C18, that the backends agree is not
			p := mainOnly(nil, hs.LetS("s", hs.S("añb")), hs.LetS("t", hs.S("é€x")),
				hs.Println(hs.Idx(hs.V("s"), hs.I(0)), hs.Idx(hs.V("s"), hs.I(-1)), hs.Idx(hs.V("s"), hs.I(2)), hs.Idx(hs.V("s"), hs.I(-3))),
				hs.Println(hs.Idx(hs.V("t"), hs.I(0)), hs.Idx(hs.V("t"), hs.I(-1)), hs.Idx(hs.V("t"), hs.I(1)), hs.Idx(hs.V("t"), hs.I(2)), hs.Idx(hs.V("t"), hs.I(-2)), hs.Idx(hs.V("t"), hs.I(-3))),
				hs.Println(hs.MCall(hs.V("s"), "len"), hs.MCall(hs.V("t"), "len")))
			return p
		}},
		callCase{"local-function-values-shadow-declared-functions", func() *hs.Program {
			ft := hs.TFn(hs.TInt, hs.Field{Name: "x", T: hs.TInt})
			scale := hs.Fn("scale", hs.TInt, hs.Blk(hs.Bin("*", hs.V("x"), hs.I(10))), intP("x"))
			// a parameter named like the declared function
			apply := hs.Fn("apply", hs.TInt, hs.Blk(hs.CallN("scale", hs.V("v"))), hs.P("scale", ft), intP("v"))
			// a nested block shadows, then the declared function is visible again
			lit := func(k int64) hs.Expr {
				return &hs.FnLit{Params: []hs.Field{{Name: "x", T: hs.TInt}}, Ret: hs.TInt, Body: hs.Blk(hs.Bin("+", hs.V("x"), hs.I(k)))}
			}
			return mainOnly([]*hs.Func{scale, apply},
				hs.Println(hs.CallN("scale", hs.I(1)), hs.CallN("apply", lit(100), hs.I(5)), hs.CallN("apply", hs.V("scale"), hs.I(5))),
				hs.ES(&hs.BlockExpr{B: hs.Blk(nil, hs.LetS("scale", lit(50)), hs.Println(hs.CallN("scale", hs.I(1))))}),
				hs.Println(hs.CallN("scale", hs.I(2))),
				hs.LetS("scale", lit(7)), hs.Println(hs.CallN("scale", hs.I(3)), hs.CallN("apply", hs.V("scale"), hs.I(4))))
		}},
		callCase{"literals-are-new-values-on-every-evaluation", func() *hs.Program {
			tag := hs.Fn("tag", hs.TList(hs.TStr), hs.Blk(hs.MCall(hs.V("o"), "keys"), hs.LetS("o", &hs.AnyObjLit{}), hs.ES(hs.MCall(hs.V("o"), "set", hs.V("key"), hs.I(1)))), hs.P("key", hs.TStr))
			fill := hs.Fn("fill", hs.TList(hs.TInt), hs.Blk(hs.V("l"), hs.LetT("l", hs.TList(hs.TInt), hs.List()), hs.ES(hs.MCall(hs.V("l"), "push", hs.V("n")))), intP("n"))
			grow := hs.Fn("grow", hs.TList(hs.TInt), hs.Blk(hs.V("l"), hs.LetS("l", hs.List(hs.I(0))), hs.ES(hs.MCall(hs.V("l"), "push", hs.V("n")))), intP("n"))
			bump := hs.Fn("bump", hs.TInt, hs.Blk(hs.Mem(hs.V("ob"), "a"), hs.LetS("ob", &hs.ObjLit{Fields: []hs.ObjField{{Name: "a", X: hs.I(1)}}}), hs.ES(hs.Asg("+=", hs.Mem(hs.V("ob"), "a"), hs.V("n")))), intP("n"))
			loop := &hs.For{Var: "i", Iter: &hs.RangeLit{From: hs.I(0), To: hs.I(3)}, Body: hs.Blk(nil,
				hs.LetS("o", &hs.AnyObjLit{}), hs.ES(hs.MCall(hs.V("o"), "set", hs.MCall(hs.V("i"), "to_string"), hs.V("i"))),
				hs.LetT("e", hs.TList(hs.TInt), hs.List()), hs.ES(hs.MCall(hs.V("e"), "push", hs.V("i"))),
				hs.Println(hs.MCall(hs.V("o"), "keys"), hs.V("e")))}
			return mainOnly([]*hs.Func{tag, fill, grow, bump},
				hs.Println(hs.CallN("tag", hs.S("a"))), hs.Println(hs.CallN("tag", hs.S("b"))), hs.Println(hs.CallN("tag", hs.S("c"))),
				hs.Println(hs.CallN("fill", hs.I(1))), hs.Println(hs.CallN("fill", hs.I(2))),
				hs.Println(hs.CallN("grow", hs.I(1))), hs.Println(hs.CallN("grow", hs.I(2))),
				hs.Println(hs.CallN("bump", hs.I(1))), hs.Println(hs.CallN("bump", hs.I(2))), loop)
		}},
		callCase{"value-or-leave-by-return-continue-break", func() *hs.Program {
			// the value of an `if` whose other branch leaves the function or the iteration
			half := hs.Fn("half", hs.TInt, hs.Blk(hs.Bin("+", hs.V("w"), hs.V("v")),
				hs.LetS("v", &hs.If{Cond: hs.Bin(">", hs.V("n"), hs.I(0)), Then: hs.Blk(hs.V("n")), Else: hs.Blk(nil, &hs.Return{X: hs.I(0)})}),
				hs.LetT("w", hs.TInt, hs.Bin("/", hs.V("v"), hs.I(2)))), intP("n"))
			loop := &hs.For{Var: "i", Iter: &hs.RangeLit{From: hs.I(0), To: hs.I(7)}, Body: hs.Blk(nil,
				hs.LetS("k", &hs.If{Cond: hs.Bin("==", hs.Bin("%", hs.V("i"), hs.I(2)), hs.I(0)), Then: hs.Blk(hs.V("i")), Else: hs.Blk(nil, &hs.Continue{})}),
				hs.LetS("m", &hs.If{Cond: hs.Bin(">", hs.V("i"), hs.I(4)), Then: hs.Blk(nil, &hs.Break{}), Else: hs.Blk(hs.Bin("*", hs.V("k"), hs.I(10)))}),
				hs.ES(hs.Asg("+=", hs.V("total"), hs.V("k"))), hs.ES(hs.Asg("+=", hs.V("total"), hs.V("m"))),
				hs.Println(hs.V("i"), hs.V("k"), hs.V("m"), hs.V("total")))}
			return mainOnly([]*hs.Func{half}, hs.LetS("total", hs.I(0)), loop, hs.Println(hs.CallN("half", hs.I(8)), hs.CallN("half", hs.I(-1)), hs.V("total")))
		}},
		callCase{"match-with-no-arm-or-only-a-default-arm", func() *hs.Program {
			only := hs.Fn("only", hs.TStr, hs.Blk(&hs.Match{X: hs.V("n"), Arms: []hs.MatchArm{{Body: hs.S("always")}}}), intP("n"))
			return mainOnly([]*hs.Func{only},
				hs.LetS("x", hs.I(3)),
				hs.ES(&hs.Match{X: hs.V("x")}),
				hs.Println(hs.S("after an empty match")),
				hs.LetS("v", &hs.Match{X: hs.V("x"), Arms: []hs.MatchArm{{Body: hs.Bin("+", hs.V("x"), hs.I(1))}}}),
				hs.Println(hs.V("v"), hs.CallN("only", hs.I(1))),
				&hs.For{Var: "i", Iter: &hs.RangeLit{From: hs.I(0), To: hs.I(3)}, Body: hs.Blk(nil, hs.ES(&hs.Match{X: hs.V("i")}), hs.ES(&hs.Match{X: hs.V("i"), Arms: []hs.MatchArm{{Body: &hs.BlockExpr{B: hs.Blk(nil, hs.Println(hs.S("d"), hs.V("i")))}}}}))})
		}},
		callCase{"null-function-as-statement-and-value", func() *hs.Program {
			f := hs.Fn("side", nil, hs.Blk(nil, hs.Println(hs.S("side"), hs.V("a"))), intP("a"))
			return mainOnly([]*hs.Func{f}, hs.ES(hs.CallN("side", hs.I(1))), hs.ES(hs.CallN("side", hs.I(2))), hs.LetS("k", hs.I(3)), hs.Println(hs.V("k")))
		}},
		callCase{"global-initialisers-and-mutation", func() *hs.Program {
			inc := hs.Fn("inc", hs.TInt, hs.Blk(hs.V("G"), hs.ES(hs.Asg("+=", hs.V("G"), hs.V("by")))), intP("by"))
			p := mainOnly([]*hs.Func{inc}, hs.Println(hs.V("G"), hs.V("H"), hs.V("S")), hs.Println(hs.CallN("inc", hs.I(5)), hs.CallN("inc", hs.I(1))), hs.ES(hs.Asg("=", hs.V("H"), hs.Bin("+", hs.V("G"), hs.V("H")))), hs.Println(hs.V("G"), hs.V("H")))
			p.Globals = []*hs.Let{{Name: "G", X: hs.I(1)}, {Name: "H", X: hs.Bin("*", hs.I(2), hs.I(3))}, {Name: "S", X: hs.S("s")}}
			return p
		}},
		callCase{"string-and-list-builtins-in-calls", func() *hs.Program {
			f := hs.Fn("total", hs.TInt, hs.Blk(hs.V("t"), hs.LetS("t", hs.I(0)), &hs.For{Var: "x", Iter: hs.V("l"), Body: hs.Blk(nil, hs.ES(hs.Asg("+=", hs.V("t"), hs.V("x"))))}), hs.P("l", hs.TList(hs.TInt)))
			return mainOnly([]*hs.Func{f}, hs.LetS("l", hs.List(hs.I(1), hs.I(2), hs.I(3))), hs.Println(hs.CallN("total", hs.V("l")), hs.MCall(hs.V("l"), "len")), hs.ES(hs.MCall(hs.V("l"), "push", hs.I(4))), hs.Println(hs.CallN("total", hs.V("l")), hs.MCall(hs.V("l"), "len"), hs.MCall(hs.V("l"), "contains", hs.I(4)), hs.MCall(hs.V("l"), "contains", hs.I(5))), hs.Println(hs.MCall(hs.V("l"), "pop"), hs.MCall(hs.V("l"), "len")))
		}},
	)
}

func callGen(idx int) (progCase, bool) {
	c := callCases[idx]
	tags := []string{"call:" + c.name}
	return mkCase(c.prog(), tags...), true
}

func init() {
	semanticFamilies = append(semanticFamilies,
		progFamily{Name: "S7-value-positions", Count: func(string) int { return valCount() }, Gen: func(_ string, idx int) (progCase, bool) { return valGen(idx) }},
		progFamily{Name: "S8-calls", Count: func(string) int { return len(callCases) }, Gen: func(_ string, idx int) (progCase, bool) { return callGen(idx) }},
	)
}
