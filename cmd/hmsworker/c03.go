package main

// C03: the analyzer rejects every ill-typed program and accepts every well-typed one.
//
// Scenarios come in pairs per program family: `base:<family>` enumerates the family's
// well-typed programs (oracle: zero error-level diagnostics and every recorded expression
// type equals reftype's), `mut:<family>` enumerates EVERY single-fault mutation of every
// base program of the family (oracle: at least one error-level diagnostic). reftype decides
// on which side of the property each generated program lies; the mutators only propose.

import (
	"fmt"
	"os"
	"regexp"
	"sort"
	"strings"
	"sync"

	"hmsverif/internal/hs"
	"hmsverif/internal/reftype"
)

// c03Case is one program (set of modules; "main" is the entry).
type c03Case struct {
	Mods   map[string]*hs.Program
	NoMain bool // the host does not require a main function
	Tags   []string
}

func (c *c03Case) env() *reftype.Env {
	return &reftype.Env{Modules: c.Mods, Host: c03Spec, MainRequired: !c.NoMain}
}

func (c *c03Case) modNames() []string {
	var ns []string
	for n := range c.Mods {
		if n != "main" {
			ns = append(ns, n)
		}
	}
	sort.Strings(ns)
	return append([]string{"main"}, ns...)
}

// texts prints every module; caseText is the reproducible form of the whole case.
func (c *c03Case) texts() (map[string]string, string) {
	out := map[string]string{}
	var sb strings.Builder
	for _, n := range c.modNames() {
		t := hs.Print(c.Mods[n]).Text
		out[n] = t
		if len(c.Mods) > 1 {
			sb.WriteString("// ---- module " + n + "\n")
		}
		sb.WriteString(t)
	}
	if c.NoMain {
		sb.WriteString("// (host does not require main)\n")
	}
	return out, sb.String()
}

type c03Family struct {
	Name  string
	Count func(tier string) int
	Gen   func(tier string, idx int) *c03Case // nil: index not applicable
}

var c03Families []c03Family

var reQuoted = regexp.MustCompile("'[^']*'|`[^`]*`")

// normDiag makes a diagnostic message a stable class component.
func normDiag(m string) string {
	if i := strings.Index(m, "\n"); i >= 0 {
		m = m[:i]
	}
	m = reQuoted.ReplaceAllString(m, "_")
	return normMsg(m)
}

func c03Panic(a c03Analysis) string {
	return "HOST-PANIC:" + panicFunc(a.PanicSite) + ":" + normMsg(a.Panic)
}

// c03Judge applies the property to one program: reftype classifies it, the real analyzer
// is run, and the matching direction of the oracle is checked. intended is the rule a
// mutator meant to break ("" for base programs).
func c03Judge(cs *c03Case, intended string, tags []string, header string, r *Result) {
	res := reftype.Check(cs.env(), "main")
	texts, caseText := cs.texts()
	caseText = header + caseText
	kind := "base"
	if intended != "" {
		kind = "mutant"
	}
	if len(res.Unsupported) > 0 {
		r.Note(kind+"-outside-rules:"+res.Unsupported[0], 1)
		if os.Getenv("C03_DEBUG") != "" {
			r.Fail("DEBUG:outside-rules:"+res.Unsupported[0], tags, caseText, "")
		}
		return
	}
	a := analyzeC03(texts, !cs.NoMain)
	r.Trans(1)
	if a.Panic != "" {
		r.Outcome(kind + ":HOST-PANIC")
		r.Distinct("P|" + c03Panic(a))
		r.Fail(c03Panic(a), tags, caseText, "panic: "+a.Panic+"\nat "+a.PanicSite)
		return
	}
	if len(a.Syntax) > 0 {
		if kind == "base" {
			r.Outcome("base:SYNTAX-ERROR")
			r.Fail("REJECTS-WELL-TYPED:syntax:"+normDiag(a.Syntax[0]), tags, caseText, strings.Join(a.Syntax, "\n"))
		} else {
			r.Note("mutant-not-syntactically-valid:"+tagValue(tags, "mut:"), 1)
			if os.Getenv("C03_DEBUG") != "" {
				r.Fail("DEBUG:mutant-syntax:"+tagValue(tags, "mut:"), tags, caseText, strings.Join(a.Syntax, "\n"))
			}
		}
		return
	}
	if res.OK() {
		// ---- direction 1: well-typed => accepted, recorded types as assigned
		if kind == "mutant" {
			r.Note("mutant-still-well-typed:"+tagValue(tags, "mut:"), 1)
			if os.Getenv("C03_DEBUG") != "" {
				r.Fail("DEBUG:mutant-well-typed:"+tagValue(tags, "mut:"), tags, caseText, "")
			}
			kind = "mutant(well-typed)"
		}
		if len(a.Errors) > 0 {
			r.Outcome(kind + ":REJECTED")
			// (the alphabetically first message: the analyzer's own order depends on map iteration)
			first := normDiag(a.messages()[0])
			r.Distinct("R|" + first)
			r.Fail("REJECTS-WELL-TYPED:"+first, tags, caseText, "diagnostics: "+strings.Join(a.messages(), " | "))
			return
		}
		w := &typeWalker{res: res}
		for _, n := range cs.modNames() {
			am, ok := a.Mods[n]
			if !ok {
				w.bad("module %s was not analysed", n)
				continue
			}
			w.program(cs.Mods[n], am)
		}
		r.Trans(w.n)
		r.Sample(caseText)
		if len(w.shape) > 0 {
			r.Outcome(kind + ":TREE-SHAPE")
			r.Fail("TYPE-RECORDED:tree-shape", tags, caseText, strings.Join(w.shape, "\n"))
			return
		}
		if len(w.mism) > 0 {
			m := w.mism[0]
			r.Outcome(kind + ":TYPE-MISMATCH")
			var d []string
			for _, x := range w.mism {
				d = append(d, fmt.Sprintf("%s: expected %s, recorded %s", x.Where, x.Want, x.Got))
			}
			r.Distinct("M|" + kindWord(m.Want) + "|" + kindWord(m.Got))
			r.Fail("TYPE-RECORDED:"+kindWord(m.Want)+" vs "+kindWord(m.Got), tags, caseText, strings.Join(d, "\n"))
			return
		}
		r.Outcome(kind + ":accepted")
		for e, t := range res.Types {
			r.Distinct(fmt.Sprintf("T|%T|%s", e, reftype.TypeString(t)))
		}
		return
	}
	// ---- direction 2: ill-typed => at least one error-level diagnostic
	rules := res.Rules()
	rule := rules[0]
	for _, x := range rules {
		if x == intended {
			rule = x
		}
	}
	if intended != "" && rule != intended {
		r.Note("mutant-breaks-other-rule:"+tagValue(tags, "mut:")+"->"+rule, 1)
	}
	if len(a.Errors) == 0 {
		r.Outcome(kind + ":ACCEPTED")
		r.Distinct("A|" + rule + "|" + tagValue(tags, "mut:"))
		var v []string
		for _, x := range res.Violations {
			v = append(v, x.String())
		}
		r.Fail("ACCEPTS-ILL-TYPED:"+rule, append(append([]string{}, tags...), "rule:"+rule), caseText, "no error-level diagnostic; broken: "+strings.Join(v, " | "))
		return
	}
	r.Outcome(kind + ":rejected")
	r.Distinct("E|" + rule + "|" + normDiag(a.messages()[0]))
	if kind == "mutant" {
		r.Sample(caseText)
	}
}

func tagValue(tags []string, prefix string) string {
	for _, t := range tags {
		if strings.HasPrefix(t, prefix) {
			return strings.TrimPrefix(t, prefix)
		}
	}
	return "?"
}

// ---------------------------------------------------------------- mutant indexing

// c03MutIndex maps the index space of a family's mutants onto (base index, site index)
// through prefix sums of the per-base site counts.
type c03MutIndex struct {
	once   sync.Once
	prefix []int // prefix[i] = number of mutants of bases < i
}

var c03MutIdx = map[string]*c03MutIndex{}

func c03SitesOf(f c03Family, tier string, b int) (*c03Case, []mutSite) {
	cs := f.Gen(tier, b)
	if cs == nil {
		return nil, nil
	}
	res := reftype.Check(cs.env(), "main")
	if !res.OK() || len(res.Unsupported) > 0 {
		return cs, nil // reported by the base scenario
	}
	return cs, collectSites(cs, res)
}

func c03MutPrefix(f c03Family, tier string) []int {
	key := f.Name + "|" + tier
	mi := c03MutIdx[key]
	if mi == nil {
		mi = &c03MutIndex{}
		c03MutIdx[key] = mi
	}
	mi.once.Do(func() {
		n := f.Count(tier)
		mi.prefix = make([]int, n+1)
		for b := 0; b < n; b++ {
			_, sites := c03SitesOf(f, tier, b)
			mi.prefix[b+1] = mi.prefix[b] + len(sites)
		}
	})
	return mi.prefix
}

// c03BaseTags: base programs are identified by the constructs they contain (the family and
// the generator's coordinates are printed with the case instead).
func c03BaseTags(f c03Family, cs *c03Case) []string { return c03Features(cs) }

func c03Scenarios() []Scenario {
	var out []Scenario
	for _, f := range c03Families {
		f := f
		out = append(out, Scenario{
			Name:  "base:" + f.Name,
			Count: f.Count,
			Run: func(tier string, idx int, r *Result) {
				cs := f.Gen(tier, idx)
				if cs == nil {
					r.Note("inapplicable", 1)
					return
				}
				res := reftype.Check(cs.env(), "main")
				if !res.OK() && len(res.Unsupported) == 0 {
					// a generator that emits an ill-typed "base" program is a harness bug:
					// make it loud instead of silently testing the wrong direction
					_, txt := cs.texts()
					r.Fail("HARNESS:base-program-ill-typed", nil, fmt.Sprintf("// base:%s #%d\n", f.Name, idx)+txt, fmt.Sprint(res.Violations))
					return
				}
				c03Judge(cs, "", c03BaseTags(f, cs), fmt.Sprintf("// base:%s #%d %s\n", f.Name, idx, strings.Join(cs.Tags, " ")), r)
			},
		})
	}
	for _, f := range c03Families {
		f := f
		out = append(out, Scenario{
			Name: "mut:" + f.Name,
			Count: func(tier string) int {
				p := c03MutPrefix(f, tier)
				return p[len(p)-1]
			},
			Run: func(tier string, idx int, r *Result) {
				p := c03MutPrefix(f, tier)
				b := sort.Search(len(p)-1, func(i int) bool { return p[i+1] > idx })
				k := idx - p[b]
				cs, sites := c03SitesOf(f, tier, b)
				if cs == nil || k >= len(sites) {
					r.Note("inapplicable", 1)
					return
				}
				s := sites[k]
				s.apply()
				tags := append([]string{"mut:" + s.mut}, s.tags...)
				tags = append(tags, c03Features(cs)...)
				if d := os.Getenv("C03_DUMP"); d != "" && strings.Contains(d, f.Name) {
					_, txt := cs.texts()
					r.Fail("DUMP:"+s.mut+" -> "+s.rule, nil, txt, "")
				}
				header := fmt.Sprintf("// mutant %d of base:%s #%d %s: %s %s (meant to break: %s)\n", k, f.Name, b, strings.Join(cs.Tags, " "), s.mut, strings.Join(s.info, " "), s.rule)
				c03Judge(cs, s.rule, tags, header, r)
			},
		})
	}
	return out
}

func init() {
	register("C03", func() *Check { return &Check{ID: "C03", Scenarios: c03Scenarios()} })
}
