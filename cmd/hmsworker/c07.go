package main

// C07 "Parse trees follow the documented grammar and ignore layout".
//
// Families (all enumerated completely):
//   precedence     every ordered pair / triple (thorough: quadruple) of the 19 binary operators,
//                  `as` and the 12 assignment operators over operands a b c d, with every operand
//                  wrapper configuration (prefix - ! ?, postfix call/index/member, combinations)
//   layout         for every pair (all-slot wrapper configurations) and every plain triple: every
//                  separator at every single token gap and at all gaps
//   parentheses    redundant parentheses around every subtree of the expected tree
//   trailing-comma every comma-separated construct of the grammar with and without trailing comma
//   corpus-layout  every separator inserted at every token gap of every shipped .hms file
// Oracles: the tree from homescript.Parse, lifted to an s-expression, equals the tree built by
// an independent precedence climb over the documented table; a layout variant yields the same
// outcome (structural dump without spans and grouping nodes, or the same error messages).

import (
	"fmt"
	"strings"

	pAst "github.com/smarthome-go/homescript/v3/homescript/parser/ast"

	"hmsverif/internal/reflex"
)

// ---------------------------------------------------------------- documented table

var c07Assign = []string{"=", "+=", "-=", "*=", "/=", "%=", "**=", "<<=", ">>=", "|=", "&=", "^="}

// c07Ops: 19 binary operators, `as`, 12 assignment operators.
var c07Ops = append([]string{"||", "&&", "|", "^", "&", "==", "!=", "<", ">", "<=", ">=", "<<", ">>", "+", "-", "*", "/", "%", "**", "as"}, c07Assign...)

// c07Level transcribes the property statement: assignment < || < && < | < ^ < & < equality <
// comparison < shift < additive < multiplicative < as < ** .
var c07Level = func() map[string]int {
	m := map[string]int{}
	for i, g := range [][]string{c07Assign, {"||"}, {"&&"}, {"|"}, {"^"}, {"&"}, {"==", "!="}, {"<", ">", "<=", ">="}, {"<<", ">>"}, {"+", "-"}, {"*", "/", "%"}, {"as"}, {"**"}} {
		for _, op := range g {
			m[op] = i + 1
		}
	}
	return m
}()

func c07IsAssign(op string) bool { return c07Level[op] == 1 }

// pt is the harness's own expression tree.
type pt struct {
	op     string // "" for a leaf; prefix operator, "call", "index", ".", "as", or a binary operator
	kids   []*pt
	leaf   string
	isType bool
	lo, hi int // token range within the expression
}

func (t *pt) sexp() string {
	if t.op == "" {
		return t.leaf
	}
	switch t.op {
	case "call":
		return "(call " + t.kids[0].sexp() + ")"
	case "index":
		return "(index " + t.kids[0].sexp() + " 0)"
	case ".":
		return "(. " + t.kids[0].sexp() + " m)"
	}
	s := "(" + t.op
	for _, k := range t.kids {
		s += " " + k.sexp()
	}
	return s + ")"
}

func (t *pt) walk(f func(n, parent *pt, slot int)) {
	var rec func(n, p *pt, slot int)
	rec = func(n, p *pt, slot int) {
		f(n, p, slot)
		for i, k := range n.kids {
			rec(k, n, i)
		}
	}
	rec(t, nil, 0)
}

// operand wrappers: prefix operator and postfix form
type c07Wrap struct{ pre, post string }

var c07Wraps = []c07Wrap{{"", ""}, {"-", ""}, {"!", ""}, {"?", ""}, {"", "()"}, {"", "[0]"}, {"", ".m"}, {"-", "()"}, {"!", ".m"}, {"-", "[0]"},
	// runs of different prefix operators: the first written is the outermost
	{"-!", ""}, {"!-", ""}, {"?-", ""}, {"-?!", ".m"}}

func (w c07Wrap) name() string {
	if w.pre == "" && w.post == "" {
		return "plain"
	}
	return w.pre + "x" + w.post
}

// c07Expr is one generated expression: tokens, and the expected tree.
type c07Expr struct {
	ops    []string
	wraps  []int // per operand slot
	toks   []string
	want   *pt
	leaves []string
	target string // "" | "unassignable" | "cast" : weakest classification of the assignment targets
}

// climb is the independent precedence climbing over operands/operators.
func c07Climb(operands []*pt, ops []string) *pt {
	pos := 0 // next operator
	var parse func(min int) *pt
	parse = func(min int) *pt {
		lhs := operands[pos]
		for pos < len(ops) {
			op := ops[pos]
			lv := c07Level[op]
			if lv < min {
				break
			}
			pos++
			if op == "as" {
				ty := operands[pos]
				lhs = &pt{op: "as", kids: []*pt{lhs, ty}, lo: lhs.lo, hi: ty.hi}
				continue
			}
			next := lv + 1
			if op == "**" {
				next = lv // the only right-associative operator of the statement
			}
			rhs := parse(next)
			lhs = &pt{op: op, kids: []*pt{lhs, rhs}, lo: lhs.lo, hi: rhs.hi}
		}
		return lhs
	}
	return parse(1)
}

var c07Names = []string{"a", "b", "c", "d", "e"}

// c07Build generates the expression for the operator tuple and wrapper assignment.
func c07Build(ops []string, wraps []int) c07Expr { return c07BuildLeaves(ops, wraps, c07Names) }

// c07LitLeaves are the operand vocabularies of the literal-operand scenario: a prefix or infix
// operator binds to a literal operand exactly as it binds to a name.
var c07LitLeaves = [][]string{
	{"1", "2", "3", "4", "5"},
	{"1.5", "2.5", "3.5", "4.5", "5.5"},
	{"true", "2", "\"s\"", "none", "null"},
	{"a", "2", "c", "2.5", "e"},
	{"1", "b", "3.5", "d", "5"},
}

func c07IsName(leaf string) bool { return len(leaf) == 1 && leaf[0] >= 'a' && leaf[0] <= 'e' }

func c07BuildLeaves(ops []string, wraps []int, leaves []string) c07Expr {
	e := c07Expr{ops: ops, wraps: wraps, leaves: leaves}
	var operands []*pt
	for i := 0; i <= len(ops); i++ {
		if i > 0 {
			e.toks = append(e.toks, ops[i-1])
		}
		if i > 0 && ops[i-1] == "as" {
			e.toks = append(e.toks, "int")
			operands = append(operands, &pt{leaf: "int", isType: true, lo: len(e.toks) - 1, hi: len(e.toks) - 1})
			continue
		}
		w := c07Wraps[wraps[i]]
		start := len(e.toks)
		for _, pc := range w.pre {
			e.toks = append(e.toks, string(pc))
		}
		e.toks = append(e.toks, leaves[i])
		n := &pt{leaf: leaves[i], lo: len(e.toks) - 1, hi: len(e.toks) - 1}
		switch w.post {
		case "()":
			e.toks = append(e.toks, "(", ")")
			n = &pt{op: "call", kids: []*pt{n}, lo: n.lo, hi: len(e.toks) - 1}
		case "[0]":
			e.toks = append(e.toks, "[", "0", "]")
			n = &pt{op: "index", kids: []*pt{n}, lo: n.lo, hi: len(e.toks) - 1}
		case ".m":
			e.toks = append(e.toks, ".", "m")
			n = &pt{op: ".", kids: []*pt{n}, lo: n.lo, hi: len(e.toks) - 1}
		}
		for k := len(w.pre) - 1; k >= 0; k-- {
			n = &pt{op: string(w.pre[k]), kids: []*pt{n}, lo: start + k, hi: n.hi}
		}
		operands = append(operands, n)
	}
	e.want = c07Climb(operands, ops)
	e.want.walk(func(n, _ *pt, _ int) {
		if !c07IsAssign(n.op) || len(n.kids) != 2 {
			return
		}
		switch l := n.kids[0]; {
		case l.op == "" && !c07IsName(l.leaf):
			e.target = "unassignable"
		case l.op == "" || l.op == "index" || l.op == ".":
		case l.op == "as":
			if e.target == "" {
				e.target = "cast"
			}
		default:
			e.target = "unassignable"
		}
	})
	return e
}

func (e c07Expr) tags() []string {
	seen := map[string]bool{}
	var tags []string
	for _, o := range e.ops {
		if !seen[o] {
			seen[o] = true
			tags = append(tags, "op:"+o)
		}
	}
	for _, w := range e.wraps {
		if n := c07Wraps[w].name(); n != "plain" && !seen[n] {
			seen[n] = true
			tags = append(tags, "operand:"+n)
		}
	}
	if len(e.leaves) > 0 && !c07IsName(e.leaves[1]) || len(e.leaves) > 0 && !c07IsName(e.leaves[0]) {
		tags = append(tags, "leaves:"+strings.Join(e.leaves[:3], ","))
	}
	return tags
}

const c07Head, c07Tail = "fn main() { ", " }"

func c07Program(exprToks []string) string {
	return c07Head + strings.Join(exprToks, " ") + " ;" + c07Tail
}

// c07RealExpr extracts the single expression statement of main.
func c07RealExpr(p pAst.Program) (pAst.Expression, string) {
	if len(p.Functions) != 1 {
		return nil, fmt.Sprintf("%d functions", len(p.Functions))
	}
	b := p.Functions[0].Body
	if len(b.Statements) != 1 || b.Expression != nil {
		return nil, fmt.Sprintf("%d statements, trailing expression %v", len(b.Statements), b.Expression != nil)
	}
	st, ok := b.Statements[0].(pAst.ExpressionStatement)
	if !ok {
		return nil, fmt.Sprintf("statement is %T", b.Statements[0])
	}
	return st.Expression, ""
}

// ---------------------------------------------------------------- wrapper configurations

// c07Cfg decodes a wrapper configuration for `slots` operand slots: 0 = all plain; 1..9 = every
// slot wrapper w; then slot k (0-based) with wrapper w.
func c07CfgCount(slots int, single bool) int {
	n := len(c07Wraps) // plain + all-slot configurations
	if single {
		n += slots * (len(c07Wraps) - 1)
	}
	return n
}

func c07Cfg(slots, cfg int) []int {
	w := make([]int, slots)
	nw := len(c07Wraps)
	if cfg < nw {
		for i := range w {
			w[i] = cfg
		}
		return w
	}
	cfg -= nw
	w[cfg/(nw-1)] = cfg%(nw-1) + 1
	return w
}

func c07OpsTuple(n, idx int) []string {
	ops := make([]string, n)
	for i := n - 1; i >= 0; i-- {
		ops[i] = c07Ops[idx%len(c07Ops)]
		idx /= len(c07Ops)
	}
	return ops
}

func ipow(b, e int) int {
	n := 1
	for ; e > 0; e-- {
		n *= b
	}
	return n
}

// c07Block is a sub-family: operator tuples of length n with `cfgs` wrapper configurations.
type c07Block struct {
	n      int
	single bool // include the single-slot configurations
	plain  bool // only the configuration without wrappers
}

func (b c07Block) cfgs() int {
	if b.plain {
		return 1
	}
	return c07CfgCount(b.n+1, b.single)
}
func (b c07Block) count() int { return ipow(len(c07Ops), b.n) * b.cfgs() }
func (b c07Block) expr(idx int) (c07Expr, bool) {
	cfg := idx % b.cfgs()
	ops := c07OpsTuple(b.n, idx/b.cfgs())
	wraps := c07Cfg(b.n+1, cfg)
	// a wrapper on the slot after `as` (a type) does not exist
	single := cfg >= len(c07Wraps)
	for i, w := range wraps {
		if i > 0 && ops[i-1] == "as" && w != 0 {
			if single {
				return c07Expr{}, false
			}
			wraps[i] = 0
		}
	}
	return c07Build(ops, wraps), true
}

func c07Blocks(blocks []c07Block, idx int) (c07Expr, bool) {
	for _, b := range blocks {
		if idx < b.count() {
			return b.expr(idx)
		}
		idx -= b.count()
	}
	return c07Expr{}, false
}

func c07BlocksCount(blocks []c07Block) int {
	n := 0
	for _, b := range blocks {
		n += b.count()
	}
	return n
}

func c07PrecBlocks(tier string) []c07Block {
	bs := []c07Block{{n: 1, single: true}, {n: 2, single: true}, {n: 3, single: true}}
	if tier == "thorough" {
		bs = append(bs, c07Block{n: 4})
	}
	return bs
}

var c07LitBlocks = []c07Block{{n: 1, single: true}, {n: 2, single: true}, {n: 3}}
var c07LayoutBlocks = []c07Block{{n: 1}, {n: 2, plain: true}, {n: 3, plain: true}}
var c07ParenBlocks = []c07Block{{n: 1, single: true}, {n: 2, single: true}, {n: 3, plain: true}}
var c07Paren2Blocks = []c07Block{{n: 1}, {n: 2, plain: true}}

const c07MaxGaps = 20  // upper bound of varied gaps of a layout base (checked)
const c07MaxNodes = 24 // upper bound of nodes of an expected tree (checked)

// ---------------------------------------------------------------- oracles

func c07Precedence(e c07Expr, r *Result) {
	src := c07Program(e.toks)
	o := realParse(src, feFile)
	r.Trans(1)
	want := e.want.sexp()
	got := o.errKey()
	var expr pAst.Expression
	if got == "" {
		var why string
		if expr, why = c07RealExpr(o.Prog); expr == nil {
			got = "SHAPE:" + why
		} else {
			got = liftExpr(expr)
		}
	}
	r.Distinct(got)
	r.Sample(src)
	if o.Panic != "" {
		r.Outcome("host-panic")
		failCapped(r, "HOST-PANIC:"+panicFunc(o.Site)+":"+normMsg(o.Panic), e.tags(), src, "parser panicked: "+o.Panic+"\n"+o.Site)
		return
	}
	if got == want {
		if e.target != "" {
			r.Note("assignment-target-"+e.target+":accepted-with-the-expected-tree", 1)
		}
		r.Outcome("tree-as-documented")
		return
	}
	if e.target != "" && strings.HasPrefix(got, "HARD:Invalid left-hand side") {
		// what is assignable is not part of the statement: a rejection of `a + b = c`, `-a = b`,
		// `a = b = c` (left-associative: `(a = b) = c`) or `a as int = b` is not judged
		r.Note("assignment-target-"+e.target+":rejected", 1)
		r.Outcome("rejected-assignment-target(unspecified)")
		return
	}
	class := "TREE:shape"
	if expr == nil {
		class = "TREE:rejected"
	}
	r.Outcome("mismatch")
	failCapped(r, class, e.tags(), src, fmt.Sprintf("expression: %s\nexpected: %s\nparsed:   %s", strings.Join(e.toks, " "), want, got))
}

// c07LexerAgrees reports whether the real lexer produces the reference's kinds and values.
func c07LexerAgrees(src string, ref reflex.Result) bool {
	real := realLex(src, feFile)
	if real.Panic != "" || (real.Err != "") != (ref.Err != nil) || len(real.Toks) != len(ref.Toks) {
		return false
	}
	for i := range ref.Toks {
		if ref.Toks[i].Kind != real.Toks[i].Kind || (ref.Toks[i].Value != real.Toks[i].Value && ref.Toks[i].Kind != "~>") {
			return false
		}
	}
	return true
}

func sameTokens(a, b []reflex.Tok) bool {
	if len(a) != len(b) {
		return false
	}
	for i := range a {
		if a[i].Kind != b[i].Kind || (a[i].Value != b[i].Value && a[i].Kind != "~>") {
			return false
		}
	}
	return true
}

// c07Variant compares a layout variant with its base text.
func c07Variant(base, variant string, class string, tags []string, sameToks bool, r *Result) {
	rb, rv := reflex.Lex(base, feFile), reflex.Lex(variant, feFile)
	if rb.Err != nil || rv.Err != nil || len(rv.Masked) > 0 || (sameToks && !sameTokens(rb.Toks, rv.Toks)) {
		r.Note("variant-is-a-different-token-sequence", 1)
		return
	}
	if feSuspiciousText(variant) {
		if v := guardRun("parse", map[string]string{"main": variant}, probeTimeout); v.Fatal {
			r.Outcome("fatal")
			failCapped(r, v.Class, tags, showText(variant), v.Detail)
			return
		}
	}
	ob, ov := realParse(base, feFile), realParse(variant, feFile)
	r.Trans(2)
	kb, kv := outcomeKey(ob), outcomeKey(ov)
	r.Distinct(kv)
	r.Sample(variant)
	if ov.Panic != "" {
		r.Outcome("host-panic")
		failCapped(r, "HOST-PANIC:"+panicFunc(ov.Site)+":"+normMsg(ov.Panic), tags, showText(variant), "parser panicked: "+ov.Panic+"\n"+ov.Site)
		return
	}
	if kb == kv {
		r.Outcome("same-tree")
		return
	}
	if !c07LexerAgrees(variant, rv) {
		// the token stream is already wrong (C06): name the separator and, unless it is the tab
		// (illegal wherever it stands), the token on its left
		var nt []string
		tab := false
		for _, t := range tags {
			tab = tab || t == "sep:tab"
		}
		for _, t := range tags {
			if tab && strings.HasPrefix(t, "left:") {
				continue
			}
			nt = append(nt, t)
		}
		tags = append(nt, "cause:lexer-disagrees-with-grammar")
	}
	what := "different-tree"
	if ov.errKey() != "" && ob.errKey() == "" {
		what = "rejected"
	} else if ov.errKey() == "" && ob.errKey() != "" {
		what = "accepted-but-base-rejected"
	} else if ov.errKey() != "" {
		what = "different-error"
	}
	r.Outcome("mismatch")
	failCapped(r, class+":"+what, tags, showText(variant), fmt.Sprintf("base:    %s\nvariant: %s\nbase outcome:    %s\nvariant outcome: %s", showText(base), showText(variant), feFirstN(kb, 500), feFirstN(kv, 500)))
}

func feFirstN(s string, n int) string {
	if len(s) > n {
		return s[:n] + "..."
	}
	return s
}

// c07Layout: separator `sep` at gap `gap` (or at all gaps if gap == c07MaxGaps) of the token
// list `{ expr ; }`.
func c07Layout(e c07Expr, sep string, gap int, r *Result) {
	toks := append(append([]string{"{"}, e.toks...), ";", "}")
	gaps := len(toks) - 1
	if gaps > c07MaxGaps {
		r.MarkIncomplete("c07MaxGaps too small")
		return
	}
	all := gap == c07MaxGaps
	if !all && gap >= gaps {
		r.Note("inapplicable", 1)
		return
	}
	var b strings.Builder
	b.WriteString("fn main() ")
	for i, t := range toks {
		b.WriteString(t)
		if i < gaps {
			if all || i == gap {
				b.WriteString(sep)
			} else {
				b.WriteString(" ")
			}
		}
	}
	variant := b.String()
	base := "fn main() " + strings.Join(toks, " ")
	tags := []string{"sep:" + sepName(sep)}
	if all {
		tags = append(tags, "all-gaps")
	} else {
		lt := reflex.Lex(toks[gap], feFile)
		if len(lt.Toks) > 0 {
			tags = append(tags, "left:"+reflex.Feature(lt.Toks[0]))
		}
	}
	c07Variant(base, variant, "LAYOUT:separator", tags, true, r)
}

// c07Parens: redundant parentheses (depth 1 or 2) around node number `node` of the expected tree.
func c07Parens(e c07Expr, node, depth int, r *Result) {
	var target, parent *pt
	slot, n := 0, 0
	e.want.walk(func(x, p *pt, s int) {
		if n == node {
			target, parent, slot = x, p, s
		}
		n++
	})
	if n > c07MaxNodes {
		r.MarkIncomplete("c07MaxNodes too small")
		return
	}
	if target == nil || target.isType {
		r.Note("inapplicable", 1)
		return
	}
	role := "root"
	if parent != nil {
		switch {
		case c07IsAssign(parent.op) && slot == 0:
			role = "assignment-target"
		case parent.op == "call" || parent.op == "index" || parent.op == ".":
			role = "postfix-base"
		case len(parent.kids) == 1:
			role = "prefix-base"
		case parent.op == "as":
			role = "cast-base"
		default:
			role = "operand"
		}
	}
	var toks []string
	for i, t := range e.toks {
		if i == target.lo {
			for d := 0; d < depth; d++ {
				toks = append(toks, "(")
			}
		}
		toks = append(toks, t)
		if i == target.hi {
			for d := 0; d < depth; d++ {
				toks = append(toks, ")")
			}
		}
	}
	kind := "subtree"
	if target.op == "" {
		kind = "leaf"
	}
	c07Variant(c07Program(e.toks), c07Program(toks), "LAYOUT:parentheses", []string{"around:" + role, "node:" + kind}, false, r)
}

// ---------------------------------------------------------------- trailing commas

type c07List struct {
	name        string
	open, close string   // text before the first element / after the last
	elems       []string // up to three elements
}

var c07Lists = []c07List{
	{"list-literal", "fn main() { let x = [", "]; }", []string{"a", "1 + 2", "f(b)"}},
	{"nested-list-literal", "fn main() { let x = [[", "]]; }", []string{"a", "[b]", "c"}},
	{"call-arguments", "fn main() { f(", "); }", []string{"a", "1 + 2", "g(b)"}},
	{"method-call-arguments", "fn main() { x.f(", "); }", []string{"a", "b", "c"}},
	{"spawn-arguments", "fn main() { spawn f(", "); }", []string{"a", "b", "c"}},
	{"trigger-arguments", "fn main() { trigger f on e(", "); }", []string{"a", "1", "\"s\""}},
	{"object-literal", "fn main() { let x = new {", "}; }", []string{"a: 1", "\"b\": c", "d: new { e: 2 }"}},
	{"fn-parameters", "fn f(", ") {}", []string{"a: int", "b: [str]", "c: ?bool"}},
	{"closure-parameters", "fn main() { let g = fn(", ") {}; }", []string{"a: int", "b: [str]", "c: ?bool"}},
	{"fn-type-parameters", "type T = fn(", ") -> int;", []string{"a: int", "b: [str]", "c: ?bool"}},
	{"object-type", "type T = {", "};", []string{"a: int", "\"b\": [str]", "c: { d: bool }"}},
	{"singleton-object-type", "$S = {", "};", []string{"a: int", "@setting b: str", "c: ?bool"}},
	{"import-list", "import {", "} from m;", []string{"a", "type b", "templ c"}},
	{"impl-capabilities", "impl T with {", "} for $S {}", []string{"a", "b", "c"}},
	{"match-arms", "fn main() { match x {", "} }", []string{"1 => a", "2 | 3 => { b }", "_ => c"}},
}

var c07CommaForms = []string{",", " ,", ", ", ",\n", "/**/,", ",//\n", "\t,"}

func c07TrailingComma(l c07List, n int, form string, r *Result) {
	body := strings.Join(l.elems[:n], ", ")
	base := l.open + body + l.close
	variant := l.open + body + form + l.close
	ob := realParse(base, feFile)
	if !ob.ok() {
		// the construct itself must be accepted, otherwise the template (or the parser) is wrong
		failCapped(r, "LAYOUT:construct-of-the-grammar-rejected", []string{"list:" + l.name}, showText(base), "outcome: "+outcomeKey(ob))
		return
	}
	rb, rv := reflex.Lex(base, feFile), reflex.Lex(variant, feFile)
	if rb.Err != nil || rv.Err != nil {
		r.Note("harness:template-not-lexable", 1)
		return
	}
	ov := realParse(variant, feFile)
	r.Trans(2)
	kb, kv := outcomeKey(ob), outcomeKey(ov)
	r.Distinct(kv)
	r.Sample(variant)
	tags := []string{"list:" + l.name}
	if strings.ContainsRune(form, '\t') {
		tags = append(tags, "sep:tab")
	}
	if ov.Panic != "" {
		failCapped(r, "HOST-PANIC:"+panicFunc(ov.Site)+":"+normMsg(ov.Panic), tags, showText(variant), ov.Panic+"\n"+ov.Site)
		return
	}
	if kb == kv {
		r.Outcome("same-tree")
		return
	}
	if !c07LexerAgrees(variant, rv) {
		tags = []string{"trailing-comma", "cause:lexer-disagrees-with-grammar"}
		if strings.ContainsRune(form, '\t') {
			tags = append(tags, "sep:tab")
		}
	}
	what := "different-tree"
	if ov.errKey() != "" {
		what = "rejected"
	}
	r.Outcome("mismatch")
	failCapped(r, "LAYOUT:trailing-comma:"+what, tags, showText(variant), fmt.Sprintf("base:    %s\nvariant: %s\nbase outcome:    %s\nvariant outcome: %s", showText(base), showText(variant), feFirstN(kb, 400), feFirstN(kv, 400)))
}

// ---------------------------------------------------------------- corpus layout

type c07Gap struct{ file, gap int } // gap g lies before token g of the file

var c07CorpusGaps []c07Gap
var c07CorpusToks [][]reflex.Tok

func c07InitCorpus() {
	if c07CorpusToks != nil {
		return
	}
	c07CorpusToks = [][]reflex.Tok{}
	for fi, f := range corpus() {
		res := reflex.Lex(f.Text, f.Name)
		c07CorpusToks = append(c07CorpusToks, res.Toks)
		if res.Err != nil || len(res.Masked) > 0 {
			continue
		}
		for g := range res.Toks {
			c07CorpusGaps = append(c07CorpusGaps, c07Gap{fi, g})
		}
		c07CorpusGaps = append(c07CorpusGaps, c07Gap{fi, -1}) // all gaps
	}
}

func c07CorpusLayout(g c07Gap, sep string, r *Result) {
	f := corpus()[g.file]
	toks := c07CorpusToks[g.file]
	rs := []rune(f.Text)
	var b strings.Builder
	prev := 0
	for i, t := range toks {
		b.WriteString(string(rs[prev:t.Start.Idx])) // the original gap
		if g.gap == -1 || g.gap == i {
			b.WriteString(sep)
		}
		if t.Kind != "EOF" {
			b.WriteString(string(rs[t.Start.Idx : t.End.Idx+1]))
			prev = t.End.Idx + 1
		}
	}
	tags := []string{"sep:" + sepName(sep), "corpus"}
	if g.gap == -1 {
		tags = append(tags, "all-gaps")
	}
	c07Variant(f.Text, b.String(), "LAYOUT:separator", tags, true, r)
}

func init() {
	register("C07", func() *Check {
		feTuneRuntime()
		c07InitCorpus()
		nseps := len(feSeparators)
		return &Check{ID: "C07", Scenarios: []Scenario{
			{Name: "precedence", Count: func(tier string) int { return c07BlocksCount(c07PrecBlocks(tier)) }, Run: func(tier string, idx int, r *Result) {
				e, ok := c07Blocks(c07PrecBlocks(tier), idx)
				if !ok {
					r.Note("inapplicable", 1)
					return
				}
				c07Precedence(e, r)
			}},
			{Name: "precedence-literal-operands", Count: func(string) int { return c07BlocksCount(c07LitBlocks) * len(c07LitLeaves) }, Run: func(tier string, idx int, r *Result) {
				d := radix(idx, len(c07LitLeaves), c07BlocksCount(c07LitBlocks))
				e, ok := c07Blocks(c07LitBlocks, d[1])
				if !ok {
					r.Note("inapplicable", 1)
					return
				}
				c07Precedence(c07BuildLeaves(e.ops, e.wraps, c07LitLeaves[d[0]]), r)
			}},
			{Name: "block-like-operands", Count: func(string) int { return c07BlockCount() }, Run: func(_ string, idx int, r *Result) { c07BlockRun(idx, r) }},
			{Name: "layout-separators", Count: func(string) int { return c07BlocksCount(c07LayoutBlocks) * nseps * (c07MaxGaps + 1) }, Run: func(tier string, idx int, r *Result) {
				d := radix(idx, c07MaxGaps+1, nseps, c07BlocksCount(c07LayoutBlocks))
				e, ok := c07Blocks(c07LayoutBlocks, d[2])
				if !ok {
					r.Note("inapplicable", 1)
					return
				}
				c07Layout(e, feSeparators[d[1]], d[0], r)
			}},
			{Name: "redundant-parentheses", Count: func(string) int { return c07BlocksCount(c07ParenBlocks) * c07MaxNodes }, Run: func(tier string, idx int, r *Result) {
				d := radix(idx, c07MaxNodes, c07BlocksCount(c07ParenBlocks))
				e, ok := c07Blocks(c07ParenBlocks, d[1])
				if !ok {
					r.Note("inapplicable", 1)
					return
				}
				c07Parens(e, d[0], 1, r)
			}},
			{Name: "double-parentheses", Count: func(string) int { return c07BlocksCount(c07Paren2Blocks) * c07MaxNodes }, Run: func(tier string, idx int, r *Result) {
				d := radix(idx, c07MaxNodes, c07BlocksCount(c07Paren2Blocks))
				e, ok := c07Blocks(c07Paren2Blocks, d[1])
				if !ok {
					r.Note("inapplicable", 1)
					return
				}
				c07Parens(e, d[0], 2, r)
			}},
			{Name: "trailing-commas", Count: func(string) int { return len(c07Lists) * 3 * len(c07CommaForms) }, Run: func(tier string, idx int, r *Result) {
				d := radix(idx, len(c07CommaForms), 3, len(c07Lists))
				c07TrailingComma(c07Lists[d[2]], d[1]+1, c07CommaForms[d[0]], r)
			}},
			{Name: "corpus-layout", Count: func(string) int { return len(c07CorpusGaps) * (nseps - 1) }, Run: func(tier string, idx int, r *Result) {
				d := radix(idx, nseps-1, len(c07CorpusGaps))
				c07CorpusLayout(c07CorpusGaps[d[1]], feSeparators[d[0]+1], r)
			}},
		}}
	})
}
