package main

import (
	"fmt"
	"strings"

	"github.com/smarthome-go/homescript/v3/homescript/analyzer"
	"github.com/smarthome-go/homescript/v3/homescript/analyzer/ast"
	ivalue "github.com/smarthome-go/homescript/v3/homescript/interpreter/value"
	"github.com/smarthome-go/homescript/v3/homescript/runtime/value"
)

// C04 on the dynamic-to-static boundary: every program of C12's routes (value x target type x
// `as` / annotated let x host value / literal / parsed JSON) runs on BOTH backends; they must
// agree on whether the value is admitted and, if so, on what the typed code then prints. The
// text of a rejection message is not compared (C12's business), only that both reject in the
// same way (catchable or not).

func c04CastKey(o Obs) string {
	switch {
	case o.Class == "ok" && strings.HasPrefix(o.Out, "ok "):
		return "admitted|" + o.Out
	case o.Class == "ok" && strings.HasPrefix(o.Out, "err<"):
		return "rejected-catchable"
	default:
		return "rejected-" + o.Class + kindSuffix(o.Kind)
	}
}

func c04CastScenario(rt c12Route) Scenario {
	return Scenario{
		Name:  "casts-" + rt.Name,
		Count: func(tier string) int { return c12Universe(tier).count() },
		Run: func(tier string, idx int, r *Result) {
			v, t := c12Universe(tier).pair(idx)
			text, ok, why := c12Program(rt, v, t)
			if !ok {
				r.Note("route-"+rt.Name+"-inapplicable:"+why, 1)
				return
			}
			cas := text
			if rt.Src == "host" {
				extraAnaScope = map[string]analyzer.Variable{"hv": analyzer.NewBuiltinVar(ast.NewAnyType(noSpan))}
				extraVmScope = map[string]value.Value{"hv": *toRV(v)}
				extraTreeScope = map[string]ivalue.Value{"hv": *toIV(v)}
				defer func() { extraAnaScope, extraVmScope, extraTreeScope = nil, nil, nil }()
				cas = fmt.Sprintf("// host global hv: any = %s\n%s", v, text)
			}
			a := Analyze(map[string]string{"main": text}, true)
			if a.Obs.Class == "HOST-PANIC" || !a.Obs.Accepted() {
				r.Note("not-accepted:"+rt.Name, 1)
				return
			}
			ov := RunVM(a, defaultOpts())
			ot := RunTree(a, defaultOpts())
			r.Trans(2)
			if crashClass(ov) != "" || crashClass(ot) != "" {
				r.Note("crash-on-a-backend(C02/C12)", 1)
				return
			}
			r.Sample(cas)
			kv, kt := c04CastKey(ov), c04CastKey(ot)
			r.Outcome(strings.SplitN(kv, "|", 2)[0])
			r.Distinct(rt.Name + "|" + firstMismatch(v, t) + "|" + kv + "|" + kt)
			if kv == kt {
				return
			}
			sv, st := strings.SplitN(kv, "|", 2)[0], strings.SplitN(kt, "|", 2)[0]
			class := "BACKENDS-DIFFER:cast vm=" + sv + " tree=" + st
			if sv == st {
				class = "BACKENDS-DIFFER:output after an admitted cast"
			}
			ex := c12Expectation(c12RouteValue(rt, v), t, rt.Allow)
			tags := []string{"route:" + rt.Name, "shape:" + firstMismatch(v, t), "expect:" + ex.Must}
			r.Fail(class, tags, cas, fmt.Sprintf("value %s, target `%s`\nvm:   %s\ntree: %s", v, t, ov.String(), ot.String()))
		},
	}
}
