package main

import (
	"fmt"
	"strings"
)

// C15 F8, one name imported twice: an importer that takes the same name from two different
// modules (functions of the same or of another signature, globals of the same or of another
// type, a function and a global) or lists an item twice. A name denotes one item of one module:
// the analyzer has to reject the second binding, whichever order the imports stand in and
// whether or not the name is used.

var c15DupKinds = []struct{ name, a, b string }{
	{"functions-same-signature", "pub fn f() -> int { 1 }\n", "pub fn f() -> int { 2 }\n"},
	{"functions-same-signature-with-parameters", "pub fn f(n: int, s: str) -> str { s }\n", "pub fn f(n: int, s: str) -> str { s + s }\n"},
	{"functions-other-signature", "pub fn f() -> int { 1 }\n", "pub fn f(n: int) -> int { n }\n"},
	{"globals-same-type", "pub let f = 1;\n", "pub let f = 2;\n"},
	{"globals-other-type", "pub let f = 1;\n", "pub let f = \"s\";\n"},
	{"function-and-global", "pub fn f() -> int { 1 }\n", "pub let f = 2;\n"},
}
var c15DupPlaces = []string{"two-statements", "two-statements-reversed", "listed-twice-in-one-statement", "second-import-inside-a-longer-list"}
var c15DupUses = []string{"unused", "used"}

func c15F8Count() int { return len(c15DupKinds) * len(c15DupPlaces) * len(c15DupUses) }

func c15F8(idx int, r *Result) {
	d := radix(idx, len(c15DupUses), len(c15DupPlaces), len(c15DupKinds))
	use, place, kind := c15DupUses[d[0]], c15DupPlaces[d[1]], c15DupKinds[d[2]]
	mods := map[string]string{"a": kind.a + "pub fn other() -> int { 0 }\nfn main() {}\n", "b": kind.b + "pub fn more() -> int { 0 }\nfn main() {}\n"}
	var imports string
	switch place {
	case "two-statements":
		imports = "import { f } from a;\nimport { f } from b;\n"
	case "two-statements-reversed":
		imports = "import { f } from b;\nimport { f } from a;\n"
	case "listed-twice-in-one-statement":
		imports = "import { f, f } from a;\n"
	case "second-import-inside-a-longer-list":
		imports = "import { other, f } from a;\nimport { more, f } from b;\n"
	}
	body := "    println(\"start\");\n"
	if use == "used" && !strings.HasPrefix(kind.name, "functions-other") && !strings.HasPrefix(kind.name, "functions-same-signature-with") && kind.name != "function-and-global" {
		if strings.HasPrefix(kind.name, "functions") {
			body += "    println(f());\n"
		} else {
			body += "    println(f);\n"
		}
	}
	mods["main"] = imports + "fn main() {\n" + body + "}\n"
	tags := []string{"duplicate-import", "kind:" + kind.name, "place:" + place, "name:" + use}
	text := detText(detProg{Mods: mods})
	r.Sample(text)
	a := Analyze(mods, true)
	r.Trans(1)
	if a.Obs.Class == "HOST-PANIC" {
		r.Note("analyzer-panic(C05)", 1)
		return
	}
	if len(a.Syn) > 0 {
		r.Fail("HARNESS:duplicate-import program has a syntax error", tags, text, a.Obs.String())
		return
	}
	r.Distinct(fmt.Sprintf("dup|%s|%s|%v", kind.name, place, a.Obs.Errors))
	if a.Obs.Accepted() {
		r.Fail("IMPORT:one name bound to the items of two imports is accepted", tags, text, "no error-level diagnostic")
		return
	}
	r.Outcome("rejected")
}
