package main

import (
	"fmt"
	"strings"
)

// C15 F8, one name imported twice: an importer that takes the same name from two different
// modules (functions of the same or of another signature, globals of the same or of another
// type, a function and a global) or lists an item twice. A name denotes one item of one module:
// the analyzer has to reject the second binding, whichever order the imports stand in and
// whether or not the name is used.

var c15DupKinds = []struct{ name, a, b string }{
	{"functions-same-signature", "pub fn f() -> int { 1 }\n", "pub fn f() -> int { 2 }\n"},
	{"functions-same-signature-with-parameters", "pub fn f(n: int, s: str) -> str { s }\n", "pub fn f(n: int, s: str) -> str { s + s }\n"},
	{"functions-other-signature", "pub fn f() -> int { 1 }\n", "pub fn f(n: int) -> int { n }\n"},
	{"globals-same-type", "pub let f = 1;\n", "pub let f = 2;\n"},
	{"globals-other-type", "pub let f = 1;\n", "pub let f = \"s\";\n"},
	{"function-and-global", "pub fn f() -> int { 1 }\n", "pub let f = 2;\n"},
}
var c15DupPlaces = []string{"two-statements", "two-statements-reversed", "listed-twice-in-one-statement", "second-import-inside-a-longer-list"}
var c15DupUses = []string{"unused", "used"}

func c15F8Count() int { return len(c15DupKinds) * len(c15DupPlaces) * len(c15DupUses) }

func c15F8(idx int, r *Result) {
	d := radix(idx, len(c15DupUses), len(c15DupPlaces), len(c15DupKinds))
	use, place, kind := c15DupUses[d[0]], c15DupPlaces[d[1]], c15DupKinds[d[2]]
	mods := map[string]string{"a": kind.a + "pub fn other() -> int { 0 }\nfn main() {}\n", "b": kind.b + "pub fn more() -> int { 0 }\nfn main() {}\n"}
	var imports string
	switch place {
	case "two-statements":
		imports = "import { f } from a;\nimport { f } from b;\n"
	case "two-statements-reversed":
		imports = "import { f } from b;\nimport { f } from a;\n"
	case "listed-twice-in-one-statement":
		imports = "import { f, f } from a;\n"
	case "second-import-inside-a-longer-list":
		imports = "import { other, f } from a;\nimport { more, f } from b;\n"
	}
	body := "    println(\"start\");\n"
	if use == "used" && !strings.HasPrefix(kind.name, "functions-other") && !strings.HasPrefix(kind.name, "functions-same-signature-with") && kind.name != "function-and-global" {
		if strings.HasPrefix(kind.name, "functions") {
			body += "    println(f());\n"
		} else {
			body += "    println(f);\n"
		}
	}
	mods["main"] = imports + "fn main() {\n" + body + "}\n"
	tags := []string{"duplicate-import", "kind:" + kind.name, "place:" + place, "name:" + use}
	text := detText(detProg{Mods: mods})
	r.Sample(text)
	a := Analyze(mods, true)
	r.Trans(1)
	if a.Obs.Class == "HOST-PANIC" {
		r.Note("analyzer-panic(C05)", 1)
		return
	}
	if len(a.Syn) > 0 {
		r.Fail("HARNESS:duplicate-import program has a syntax error", tags, text, a.Obs.String())
		return
	}
	r.Distinct(fmt.Sprintf("dup|%s|%s|%v", kind.name, place, a.Obs.Errors))
	if a.Obs.Accepted() {
		r.Fail("IMPORT:one name bound to the items of two imports is accepted", tags, text, "no error-level diagnostic")
		return
	}
	r.Outcome("rejected")
}

// C15 F9, one module imported along several paths: `shared` is imported by `a`, by `b` and (in
// some variants) by main itself. It is one module with one set of globals: what `a` does to the
// globals of `shared` is what `b` and main see, in every order of the import statements.

var c15DiamondOrders = [][]string{{"a", "b"}, {"b", "a"}, {"shared", "a", "b"}, {"a", "b", "shared"}, {"a", "shared", "b"}}

func c15F9Count() int { return len(c15DiamondOrders) * 2 }

func c15F9(idx int, r *Result) {
	d := radix(idx, 2, len(c15DiamondOrders))
	chain, order := d[0] == 1, c15DiamondOrders[d[1]]
	mods := map[string]string{
		"shared": "pub let log = [0];\nlet count = 0;\npub fn bump() -> int {\n    count += 1;\n    count\n}\nfn main() {}\n",
		"a":      "import { log, bump } from shared;\npub fn fa() -> int {\n    log.push(1);\n    bump()\n}\nfn main() {}\n",
		"b":      "import { log, bump } from shared;\npub fn fb() -> int {\n    log.push(2);\n    bump()\n}\nfn main() {}\n",
	}
	if chain {
		// b reaches shared through a as well
		mods["b"] = "import { fa } from a;\nimport { log, bump } from shared;\npub fn fb() -> int {\n    log.push(2);\n    fa() * 10 + bump()\n}\nfn main() {}\n"
	}
	var imports []string
	direct := false
	for _, m := range order {
		switch m {
		case "a":
			imports = append(imports, "import { fa } from a;")
		case "b":
			imports = append(imports, "import { fb } from b;")
		case "shared":
			imports = append(imports, "import { log, bump } from shared;")
			direct = true
		}
	}
	body := "    println(fa());\n    println(fb());\n"
	want := "1\n2\n"
	if chain {
		want = "1\n23\n" // fb: push 2, fa() pushes 1 and bumps to 2, then bump() gives 3
	}
	if direct {
		body += "    println(log);\n    println(bump());\n"
		if chain {
			want += "[0, 1, 2, 1]\n4\n"
		} else {
			want += "[0, 1, 2]\n3\n"
		}
	}
	mods["main"] = strings.Join(imports, "\n") + "\nfn main() {\n" + body + "    println(\"end\");\n}\n"
	want += "end\n"
	tags := []string{"module-imported-along-two-paths", "imports:" + strings.Join(order, ","), fmt.Sprintf("chain:%v", chain)}
	text := detText(detProg{Mods: mods})
	r.Sample(text)
	a := Analyze(mods, true)
	r.Trans(1)
	if a.Obs.Class == "HOST-PANIC" {
		r.Note("analyzer-panic(C05)", 1)
		return
	}
	if !a.Obs.Accepted() {
		r.Fail("HARNESS:diamond program not accepted", tags, text, a.Obs.String())
		return
	}
	for _, b := range backendNames {
		o := runOn(b, a, r)
		r.Distinct(fmt.Sprintf("diamond|%s|%v|%s|%s", strings.Join(order, ","), chain, b, o.Key()))
		r.Outcome(b + ":" + o.Class)
		if crashClass(o) != "" {
			r.Note("diamond:crash(C02)", 1)
			continue
		}
		if o.Class != "ok" || o.Out != want {
			r.Fail("MODULE:a module imported along two paths has two sets of globals", append([]string{"backend:" + b}, tags...), text, fmt.Sprintf("%s: class=%s printed %q, expected %q", b, o.Class, o.Out, want))
		}
	}
}

// C15 F10, a function literal of another module that calls back into the module of its caller:
// `a.make()` returns a literal; main calls it with one of its own functions as the callback. The
// callback runs against the globals of main, whichever module created the literal that calls it.

var c15CallbackKinds = []struct{ name, cb, want string }{
	{"callback-reads-a-global-of-its-module", "let mx = 10;\nfn scaled(n: int) -> int { n * mx }\n", "31\n"},
	{"callback-writes-a-global-of-its-module", "let mx = 10;\nfn scaled(n: int) -> int { mx += n; mx }\n", "14\n"},
	{"callback-calls-a-function-of-its-module", "fn helper(n: int) -> int { n * 10 }\nfn scaled(n: int) -> int { helper(n) }\n", "31\n"},
	{"callback-uses-only-its-parameter", "fn scaled(n: int) -> int { n * 10 }\n", "31\n"},
}

func c15F10Count() int { return len(c15CallbackKinds) * 2 }

func c15F10(idx int, r *Result) {
	d := radix(idx, 2, len(c15CallbackKinds))
	viaValue, kind := d[0] == 1, c15CallbackKinds[d[1]]
	mods := map[string]string{"a": "pub fn make() -> fn(cb: fn(n: int) -> int) -> int {\n    fn(cb: fn(n: int) -> int) -> int { cb(3) + 1 }\n}\nfn main() {}\n"}
	call := "    let c = make();\n    println(c(scaled));\n"
	if viaValue {
		call = "    let c = make();\n    let s = scaled;\n    println(c(s));\n"
	}
	mods["main"] = "import { make } from a;\n" + kind.cb + "fn main() {\n" + call + "    println(\"end\");\n}\n"
	want := kind.want + "end\n"
	tags := []string{"literal-of-another-module-calls-back", "kind:" + kind.name, fmt.Sprintf("callback-through-a-variable:%v", viaValue)}
	text := detText(detProg{Mods: mods})
	r.Sample(text)
	a := Analyze(mods, true)
	r.Trans(1)
	if a.Obs.Class == "HOST-PANIC" {
		r.Note("analyzer-panic(C05)", 1)
		return
	}
	if !a.Obs.Accepted() {
		r.Fail("HARNESS:callback program not accepted", tags, text, a.Obs.String())
		return
	}
	for _, b := range backendNames {
		o := runOn(b, a, r)
		r.Distinct(fmt.Sprintf("callback|%s|%v|%s|%s", kind.name, viaValue, b, o.Key()))
		r.Outcome(b + ":" + o.Class)
		if o.Class != "ok" || o.Out != want {
			r.Fail("MODULE:a callback does not run against the globals of its own module", append([]string{"backend:" + b}, tags...), text, fmt.Sprintf("%s: class=%s printed %q, expected %q; %s", b, o.Class, o.Out, want, o.String()))
		}
	}
}
