package main

// Harness side of the pipeline: recording hosts, a poll-counting context, and runners that
// push program text through the real Analyze -> Compile -> VM / interpreter and return an
// observation record.

import (
	"context"
	"fmt"
	"runtime/debug"
	"sort"
	"strings"
	"time"

	hms "github.com/smarthome-go/homescript/v3/homescript"
	"github.com/smarthome-go/homescript/v3/homescript/analyzer"
	"github.com/smarthome-go/homescript/v3/homescript/analyzer/ast"
	"github.com/smarthome-go/homescript/v3/homescript/compiler"
	"github.com/smarthome-go/homescript/v3/homescript/diagnostic"
	herrors "github.com/smarthome-go/homescript/v3/homescript/errors"
	ivalue "github.com/smarthome-go/homescript/v3/homescript/interpreter/value"
	pAst "github.com/smarthome-go/homescript/v3/homescript/parser/ast"
	"github.com/smarthome-go/homescript/v3/homescript/runtime"
	"github.com/smarthome-go/homescript/v3/homescript/runtime/value"
	"github.com/smarthome-go/homescript/v3/homescript/vsched"
)

// ---------------------------------------------------------------- observation

// Obs is what the host can see of one pipeline run.
type Obs struct {
	Syntax    []string // syntax error messages
	Errors    []string // error-level diagnostics
	Warnings  int
	Out       string
	Triggers  []string
	Singles   []string // LoadSingleton calls
	Class     string   // rejected | ok | uncaught | fatal | terminated | exit | HOST-PANIC | HANG | DEADLOCK
	Kind      string   // fatal kind name
	Msg       string   // interrupt message (before the stack trace banner)
	Trace     string   // the stack trace the VM appends to the message of a fatal error (frames by name)
	Span      herrors.Span
	Residue   string // "" when clean
	PanicSite string
	Polls     int
	Sched     string // scheduler outcome (ok|deadlock|livelock|horizon)
	Blocked   []string
	Ret       string // displayed return value for host invocations
}

func (o Obs) Accepted() bool { return len(o.Syntax) == 0 && len(o.Errors) == 0 }

// Key is the comparable part of an observation used by differential oracles.
func (o Obs) Key() string {
	return fmt.Sprintf("%s|%s|%s|out=%q|trig=%q", o.Class, o.Kind, o.Msg, o.Out, o.Triggers)
}

func (o Obs) String() string {
	s := fmt.Sprintf("class=%s", o.Class)
	if o.Kind != "" {
		s += " kind=" + o.Kind
	}
	if o.Msg != "" {
		s += fmt.Sprintf(" msg=%q", o.Msg)
	}
	s += fmt.Sprintf(" out=%q", o.Out)
	if len(o.Triggers) > 0 {
		s += fmt.Sprintf(" triggers=%q", o.Triggers)
	}
	if o.Residue != "" {
		s += " residue=" + o.Residue
	}
	if o.PanicSite != "" {
		s += " site=" + o.PanicSite
	}
	if len(o.Errors) > 0 {
		s += fmt.Sprintf(" errors=%q", o.Errors)
	}
	if len(o.Syntax) > 0 {
		s += fmt.Sprintf(" syntax=%q", o.Syntax)
	}
	return s
}

func cutTrace(msg string) string {
	// the VM appends "\n===== Stacktrace =====\n<frames>" to fatal messages
	if i := strings.Index(msg, " Stacktrace "); i >= 0 {
		if j := strings.LastIndex(msg[:i], "\n"); j >= 0 {
			rest := msg[j+1 : i]
			if strings.Trim(rest, "=") == "" {
				return msg[:j]
			}
		}
	}
	return msg
}

// ---------------------------------------------------------------- context

// pollCtx is a context whose Done() channel is owned by the harness: it can be cancelled by
// the harness (scheduler visible) and it fires by itself after Budget polls, which turns
// "runs forever" into a deterministic observation without any wall clock.
type pollCtx struct {
	done     chan struct{}
	err      error
	Polls    int
	Budget   int // 0: unlimited
	CancelAt int // >0: report done from the k-th poll on (k counted from 1)
	Exceeded bool
	OnFire   func(reason string) // called once when the context becomes done
	// FarDeadline: the context also carries a deadline far in the future (a host's upper bound on
	// the run time): an earlier cancellation still is a cancellation.
	FarDeadline bool
}

func newPollCtx(budget int) *pollCtx { return &pollCtx{done: make(chan struct{}), Budget: budget} }

func (c *pollCtx) Deadline() (time.Time, bool) {
	if c.FarDeadline {
		return time.Date(2200, 1, 1, 0, 0, 0, 0, time.UTC), true
	}
	return time.Time{}, false
}
func (c *pollCtx) Done() <-chan struct{} {
	c.Polls++
	if c.err == nil {
		if c.CancelAt > 0 && c.Polls >= c.CancelAt {
			c.cancelNow(context.Canceled)
		} else if c.Budget > 0 && c.Polls > c.Budget {
			c.Exceeded = true
			c.cancelNow(context.DeadlineExceeded)
		}
	}
	return c.done
}
func (c *pollCtx) Err() error    { return c.err }
func (c *pollCtx) Value(any) any { return nil }
func (c *pollCtx) cancelNow(e error) {
	if c.err == nil {
		c.err = e
		if c.OnFire != nil {
			c.OnFire(e.Error())
		}
		vsched.CloseNow(c.done)
	}
}

// ---------------------------------------------------------------- hosts

type anaHost struct{ mods map[string]string }

func (anaHost) GetKnownObjectTypeFieldAnnotations() []string { return nil }
func (anaHost) PostValidationHook(map[string]ast.AnalyzedProgram, string, *analyzer.Analyzer, bool) []diagnostic.Diagnostic {
	return nil
}
func (h anaHost) ResolveCodeModule(n string) (string, bool, error) {
	c, ok := h.mods[n]
	return c, ok, nil
}
func (h anaHost) GetBuiltinImport(m, v string, s herrors.Span, k pAst.IMPORT_KIND) (analyzer.BuiltinImport, bool, bool) {
	if _, isCode := h.mods[m]; isCode {
		return analyzer.BuiltinImport{}, false, false
	}
	// host-provided modules (triggers, templates, ...) come from the project's own testing host
	return hms.TestingAnalyzerHost{}.GetBuiltinImport(m, v, s, k)
}

type rec struct {
	out        strings.Builder
	triggers   []string
	singles    []string
	single     map[string]value.Value // host-provided singleton values (VM)
	singleTree map[string]ivalue.Value
	// outLock, when set, models a host whose output sink is guarded by a lock (as the project's
	// own TestingVmExecutor does): every write is then a synchronisation point of its own.
	outLock interface {
		Lock()
		Unlock()
	}
}

type vmExec struct{ r *rec }

func (e vmExec) LoadSingleton(id, mod string) (value.Value, bool, error) {
	e.r.singles = append(e.r.singles, mod+":"+id)
	if v, ok := e.r.single[id]; ok {
		return v, true, nil
	}
	return nil, false, nil
}

// values of host-provided modules (testing.assert_eq, ...) come from the project's own testing hosts
func (e vmExec) GetBuiltinImport(a, b string) (value.Value, bool) {
	return hms.TestingVmExecutor{}.GetBuiltinImport(a, b)
}
func (e vmExec) ResolveModuleCode(a string) (string, bool, error) { return "", false, nil }
func (e vmExec) WriteStringTo(s string) error {
	if e.r.outLock != nil {
		e.r.outLock.Lock()
		defer e.r.outLock.Unlock()
	}
	e.r.out.WriteString(s)
	vsched.Progress()
	return nil
}
func (e vmExec) RegisterTrigger(cb, trig string, s herrors.Span, args []value.Value) error {
	var as []string
	for _, a := range args {
		d, i := a.Display()
		if i != nil {
			d = "<display error>"
		}
		as = append(as, d)
	}
	e.r.triggers = append(e.r.triggers, fmt.Sprintf("%s@%s(%s)", cb, trig, strings.Join(as, ",")))
	return nil
}
func (e vmExec) Free() error { return nil }

type treeExec struct{ r *rec }

func (e treeExec) GetBuiltinImport(a, b string) (ivalue.Value, bool) {
	return hms.TestingTreeExecutor{}.GetBuiltinImport(a, b)
}
func (e treeExec) ResolveModuleCode(a string) (string, bool, error) { return "", false, nil }
func (e treeExec) WriteStringTo(s string) error {
	e.r.out.WriteString(s)
	vsched.Progress()
	return nil
}
func (e treeExec) GetUser() string { return "verif" }
func (e treeExec) LoadSingleton(id string, t ast.Type) (*ivalue.Value, bool, *ivalue.Interrupt) {
	e.r.singles = append(e.r.singles, id)
	if v, ok := e.r.singleTree[id]; ok {
		return &v, true, nil
	}
	return nil, false, nil
}

var hostNames = []string{"print", "println", "time", "fmt", "assert"}

func anaScope() map[string]analyzer.Variable {
	all := hms.TestingAnalyzerScopeAdditions()
	m := map[string]analyzer.Variable{}
	for _, n := range hostNames {
		m[n] = all[n]
	}
	for n, v := range extraAnaScope {
		m[n] = v
	}
	return m
}
func vmScope() map[string]value.Value {
	all := hms.TestingVmScopeAdditions()
	m := map[string]value.Value{}
	for _, n := range hostNames {
		m[n] = all[n]
	}
	for n, v := range extraVmScope {
		m[n] = v
	}
	return m
}
func treeScope() map[string]ivalue.Value {
	all := hms.TestingInterpreterScopeAdditions()
	m := map[string]ivalue.Value{}
	for _, n := range hostNames {
		m[n] = all[n]
	}
	for n, v := range extraTreeScope {
		m[n] = v
	}
	return m
}

// ---------------------------------------------------------------- stages

// Analyzed is the result of the front end for one module set.
type Analyzed struct {
	Mods  map[string]ast.AnalyzedProgram
	Diags []diagnostic.Diagnostic
	Syn   []herrors.Error
	Obs   Obs
}

// Analyze runs the real front end on mods["main"], serving imports from mods. Panics are
// captured (front-end code runs on the calling goroutine).
func Analyze(mods map[string]string, mainMustExist bool) (a Analyzed) {
	defer func() {
		if r := recover(); r != nil {
			a.Obs.Class = "HOST-PANIC"
			a.Obs.Msg = fmt.Sprint(r)
			a.Obs.PanicSite = vsched.RepoFrames(string(debug.Stack()))
		}
	}()
	am, diags, syn := hms.Analyze(hms.InputProgram{ProgramText: mods["main"], Filename: "main"}, anaScope(), anaHost{mods}, mainMustExist)
	a.Mods, a.Diags, a.Syn = am, diags, syn
	for _, s := range syn {
		a.Obs.Syntax = append(a.Obs.Syntax, s.Message)
	}
	for _, d := range diags {
		if d.Level == diagnostic.DiagnosticLevelError {
			a.Obs.Errors = append(a.Obs.Errors, d.Message)
		} else {
			a.Obs.Warnings++
		}
	}
	sort.Strings(a.Obs.Errors)
	if !a.Obs.Accepted() {
		a.Obs.Class = "rejected"
	}
	return a
}

// RunOpts configures one execution.
type RunOpts struct {
	Limits      runtime.CoreLimits
	TreeLimit   uint
	PollBudget  int
	CancelAt    int
	Horizon     int
	TreeKillFn  string // interpreter: register this function of module main as the host's kill handler
	FarDeadline bool   // the context carries a deadline far in the future
	Singletons  map[string]value.Value
	TreeSingles map[string]ivalue.Value      // the same values for the interpreter's host interface
	Invocations []runtime.FunctionInvocation // host calls after construction (default: main)
}

func defaultOpts() RunOpts {
	return RunOpts{
		Limits:     runtime.CoreLimits{CallStackMaxSize: 100, StackMaxSize: 500, MaxMemorySize: 4000},
		TreeLimit:  100,
		PollBudget: 4000,
		Horizon:    400000,
	}
}

// Compile runs the real compiler; a panic is captured.
func Compile(a Analyzed) (out compiler.CompileOutput, panicMsg, site string) {
	defer func() {
		if r := recover(); r != nil {
			panicMsg = fmt.Sprint(r)
			site = vsched.RepoFrames(string(debug.Stack()))
		}
	}()
	c := compiler.NewCompiler(a.Mods, "main")
	o, err := c.Compile()
	if err != nil {
		panicMsg = "compile error: " + fmt.Sprint(err)
		return o, panicMsg, "compiler.Compile"
	}
	return o, "", ""
}

func classifyVM(o *Obs, i *value.VmInterrupt, ctx *pollCtx) {
	if i == nil {
		o.Class = "ok"
		return
	}
	o.Msg = cutTrace((*i).Message())
	o.Trace = strings.TrimPrefix((*i).Message(), o.Msg)
	func() {
		defer func() { recover() }()
		o.Span = (*i).GetSpan()
	}()
	switch (*i).Kind() {
	case value.Vm_TerminateInterruptKind:
		o.Class = "terminated"
		if ctx != nil && ctx.Exceeded {
			o.Class = "HANG"
			o.Msg = "poll budget exceeded"
		}
	case value.Vm_ExitInterruptKind:
		o.Class = "exit"
	case value.Vm_NormalExceptionInterruptKind:
		o.Class = "uncaught"
	case value.Vm_FatalExceptionInterruptKind:
		o.Class = "fatal"
		if f, ok := (*i).(value.VmFatalException); ok {
			o.Kind = vmKindName(f.ErrKind)
			if f.ErrKind == value.Vm_UncaughtThrowKind {
				o.Class = "uncaught"
				o.Kind = ""
			}
		}
	}
}

func vmKindName(k value.VMFatalExceptionKind) string {
	switch k {
	case value.Vm_StackOverFlowErrorKind:
		return "StackOverflow"
	case value.Vm_OutOfMemoryErrorKind:
		return "OutOfMemory"
	case value.Vm_ValueErrorKind:
		return "ValueError"
	case value.Vm_ImportErrorKind:
		return "ImportError"
	case value.Vm_HostErrorKind:
		return "HostError"
	case value.Vm_JsonErrorKind:
		return "JsonError"
	case value.Vm_CastErrorKind:
		return "CastError"
	case value.Vm_IndexOutOfBoundsErrorKind:
		return "IndexOutOfBounds"
	case value.Vm_UncaughtThrowKind:
		return "UncaughtThrow"
	}
	return fmt.Sprintf("kind%d", k)
}

func treeKindName(k ivalue.RuntimeErrorKind) string {
	switch k {
	case ivalue.StackOverFlowErrorKind:
		return "StackOverflow"
	case ivalue.OutOfMemoryErrorKind:
		return "OutOfMemory"
	case ivalue.ValueErrorKind:
		return "ValueError"
	case ivalue.ImportErrorKind:
		return "ImportError"
	case ivalue.HostErrorKind:
		return "HostError"
	case ivalue.JsonErrorKind:
		return "JsonError"
	case ivalue.CastErrorKind:
		return "CastError"
	case ivalue.IndexOutOfBoundsErrorKind:
		return "IndexOutOfBounds"
	case ivalue.UncaughtThrowKind:
		return "UncaughtThrow"
	}
	return fmt.Sprintf("kind%d", k)
}

// vmBody is the host-side code of one VM run; it is executed as thread 0 of a controlled
// execution (sched variants) or directly (plain variant).
func vmBody(prog compiler.CompileOutput, opts RunOpts, r *rec, o *Obs, ctx *pollCtx) {
	var cctx context.Context = ctx
	var cancel context.CancelFunc = func() { ctx.cancelNow(context.Canceled) }
	r.single = opts.Singletons
	vm := runtime.NewVM(prog, vmExec{r}, &cctx, &cancel, vmScope(), opts.Limits)
	core := vm.SpawnAsync(runtime.MainFn(), nil, nil, nil)
	_, i := vm.Wait()
	classifyVM(o, i, ctx)
	if i == nil {
		o.Residue = residue(&vm, core)
	}
}

func residue(vm *runtime.VM, core *runtime.Core) string {
	var parts []string
	if n := len(core.Stack); n != 0 {
		parts = append(parts, fmt.Sprintf("stack=%d", n))
	}
	if core.MemoryPointer != 0 {
		parts = append(parts, fmt.Sprintf("mp=%d", core.MemoryPointer))
	}
	if n := len(core.CallStack); n != 0 {
		parts = append(parts, fmt.Sprintf("frames=%d", n))
	}
	if n := len(core.ExceptionCatchLabels); n != 0 {
		parts = append(parts, fmt.Sprintf("handlers=%d", n))
	}
	if n := len(vm.Cores.Cores); n != 0 {
		parts = append(parts, fmt.Sprintf("cores=%d", n))
	}
	if ls := coresLockState(vm); ls != "free" {
		parts = append(parts, "coreslock="+ls)
	}
	return strings.Join(parts, ",")
}

// RunVM compiles and runs an accepted program on the VM under the default schedule (or the
// schedule the active chooser dictates).
func RunVM(a Analyzed, opts RunOpts) Obs {
	o := Obs{}
	prog, pmsg, site := Compile(a)
	if pmsg != "" {
		o.Class, o.Msg, o.PanicSite = "HOST-PANIC", pmsg, site
		return o
	}
	return RunCompiled(prog, opts)
}

// RunCompiled runs a compiled program on the VM.
func RunCompiled(prog compiler.CompileOutput, opts RunOpts) Obs {
	o := Obs{}
	r := &rec{}
	ctx := newPollCtx(opts.PollBudget)
	ctx.CancelAt = opts.CancelAt
	if controlled {
		x := vsched.Run(opts.Horizon, func() { vmBody(prog, opts, r, &o, ctx) })
		o.Sched = x.Outcome
		o.Blocked = x.Blocked
		if len(x.Panics) > 0 {
			o.Class = "HOST-PANIC"
			o.Msg, o.PanicSite = splitPanic(x.Panics[0])
		} else if x.Outcome == "deadlock" {
			o.Class = "DEADLOCK"
			o.Msg = strings.Join(x.Blocked, ",")
		} else if x.Outcome == "livelock" || x.Outcome == "horizon" {
			o.Class = "HANG"
			o.Msg = x.Outcome + " " + strings.Join(x.Blocked, ",")
		}
	} else {
		vmBody(prog, opts, r, &o, ctx)
	}
	o.Out = r.out.String()
	o.Triggers = r.triggers
	o.Singles = r.singles
	o.Polls = ctx.Polls
	return o
}

func splitPanic(p string) (msg, site string) {
	// "T<n>: <message>\n<frames>"
	if i := strings.Index(p, ": "); i >= 0 && i < 6 {
		p = p[i+2:]
	}
	if i := strings.LastIndex(p, "\n"); i >= 0 {
		return cutTrace(p[:i]), p[i+1:]
	}
	return p, ""
}

// RunTree runs an accepted program on the tree-walking interpreter. In the controlled variants
// it runs as the single thread of a controlled execution so that host sleeps are virtual.
func RunTree(a Analyzed, opts RunOpts) (o Obs) {
	if controlled && !vsched.Active() {
		x := vsched.Run(opts.Horizon, func() { o = runTree(a, opts) })
		if len(x.Panics) > 0 {
			o.Class = "HOST-PANIC"
			o.Msg, o.PanicSite = splitPanic(x.Panics[0])
		} else if x.Outcome != "ok" {
			o.Class = "HANG"
			o.Msg = x.Outcome
		}
		return o
	}
	return runTree(a, opts)
}

func runTree(a Analyzed, opts RunOpts) (o Obs) {
	r := &rec{singleTree: opts.TreeSingles}
	ctx := newPollCtx(opts.PollBudget * 50)
	if opts.CancelAt > 0 {
		ctx.CancelAt = opts.CancelAt
	}
	ctx.FarDeadline = opts.FarDeadline
	defer func() {
		if rv := recover(); rv != nil {
			o.Class = "HOST-PANIC"
			o.Msg = cutTrace(fmt.Sprint(rv))
			o.PanicSite = vsched.RepoFrames(string(debug.Stack()))
		}
		o.Out = r.out.String()
		o.Singles = r.singles
		o.Polls = ctx.Polls
	}()
	var cctx context.Context = ctx
	scope := treeScope()
	if opts.TreeKillFn != "" {
		// the host's kill handler: a function value under the name the interpreter looks for
		for _, f := range a.Mods["main"].Functions {
			if f.Ident.Ident() == opts.TreeKillFn {
				scope["@event_kill"] = *ivalue.NewValueFunction("main", f.Body, nil)
			}
		}
	}
	i := hms.Run(opts.TreeLimit, a.Mods, "main", treeExec{r}, scope, &cctx)
	if i == nil {
		o.Class = "ok"
		return
	}
	o.Msg = cutTrace((*i).Message())
	func() {
		defer func() { recover() }()
		o.Span = (*i).GetSpan()
	}()
	switch (*i).Kind() {
	case ivalue.TerminateInterruptKind:
		o.Class = "terminated"
		if ctx.Exceeded {
			o.Class = "HANG"
			o.Msg = "poll budget exceeded"
		}
	case ivalue.ExitInterruptKind:
		o.Class = "exit"
	case ivalue.NormalExceptionInterruptKind:
		o.Class = "uncaught"
	case ivalue.FatalExceptionInterruptKind:
		o.Class = "fatal"
		if f, ok := (*i).(ivalue.RuntimeErr); ok {
			o.Kind = treeKindName(f.ErrKind)
			if f.ErrKind == ivalue.UncaughtThrowKind {
				o.Class = "uncaught"
				o.Kind = ""
			}
		}
	default:
		o.Class = "stray-" + (*i).Kind().String()
	}
	return
}

// showValue renders a VM value deterministically (object fields sorted), in the format of the
// reference evaluator's Display.
func showValue(v value.Value) string {
	switch x := v.(type) {
	case value.ValueObject:
		keys := make([]string, 0, len(x.FieldsInternal))
		for k := range x.FieldsInternal {
			keys = append(keys, k)
		}
		sort.Strings(keys)
		parts := make([]string, len(keys))
		for i, k := range keys {
			parts[i] = k + ": " + strings.ReplaceAll(showValue(*x.FieldsInternal[k]), "\n", "\n    ")
		}
		return "{\n    " + strings.Join(parts, ",\n    ") + "\n}"
	case value.ValueList:
		parts := make([]string, len(*x.Values))
		for i, e := range *x.Values {
			parts[i] = showValue(*e)
		}
		return "[" + strings.Join(parts, ", ") + "]"
	case value.ValueOption:
		if x.Inner == nil {
			return "none"
		}
		return "Some(" + showValue(*x.Inner) + ")"
	}
	d, i := v.Display()
	if i != nil {
		return "<display error>"
	}
	return d
}
