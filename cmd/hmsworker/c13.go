package main

// C13 "Runtime values obey equality, copy and serialisation laws".
//
// Space: for every static type of depth <= 2 (c13Types) the full set of its values over the
// leaf alphabet (c13ValuesOf). Scenarios (each case = one type, all its values/pairs/triples):
//   eq-laws      IsEqual of both value libraries on all ordered pairs: reflexive, symmetric,
//                transitive (all triples, decided on the pair matrix), equal to structural
//                equality of the harness model
//   clone        runtime/value Clone(): equal to the original; every mutation sequence of
//                length <= 2 applied to one side leaves the other side unchanged
//   json         to_json of both libraries is the JSON image of the value; to_json followed by
//                parse_json and the typed cast of an annotated let gives back an equal value
//   display      both libraries render the value identically
//   prog-eq      `a == b`, `b == a` in programs on both backends (all pairs, types with <= 40
//                values)
//   prog-json    `a.to_json()`, parse + annotated let + `==`, `to_string` in programs
//   prog-clone   a literal evaluated twice yields independent values

import (
	"encoding/json"
	"fmt"
	"reflect"
	"sort"
	"strings"

	ivalue "github.com/smarthome-go/homescript/v3/homescript/interpreter/value"
	"github.com/smarthome-go/homescript/v3/homescript/runtime/value"
)

// ---------------------------------------------------------------- universe

type c13Space struct {
	types []*mtype
	vals  map[string][]*mval
	tier  string
}

var c13Cache = map[string]*c13Space{}

func (s *c13Space) valuesOf(t *mtype) []*mval {
	k := t.String()
	if v, ok := s.vals[k]; ok {
		return v
	}
	var out []*mval
	th := s.tier == "thorough"
	switch t.K {
	case tInt:
		out = []*mval{vI(0), vI(1)}
		if th {
			out = append(out, vI(-1))
		}
	case tFloat:
		out = []*mval{vF(1.5), vF(2.0)}
		if th {
			out = append(out, vF(0))
		}
	case tBool:
		out = []*mval{vB(false), vB(true)}
	case tStr:
		out = []*mval{vS(""), vS("a"), vS("é")}
	case tNull:
		out = []*mval{vNull()}
	case tRange:
		out = []*mval{vRange(0, 0), vRange(0, 2)}
		if th {
			out = append(out, vRange(2, 0))
		}
	case tAnyObj:
		// (an option next to its own payload, `none` next to `null`: equal they are not)
		dyn := []*mval{vI(0), vS("a"), vB(true), vF(2.0), vSome(vI(0)), vNone(), vNull()}
		if th {
			dyn = append(dyn, vI(1), vL(vI(0)), vSome(vS("a")))
		}
		out = append(out, vAO())
		for _, x := range dyn {
			out = append(out, vAO("a", x))
		}
		for _, x := range dyn {
			out = append(out, vAO("b", x))
		}
		for _, x := range dyn {
			for _, y := range dyn {
				out = append(out, vAO("a", x, "b", y))
			}
		}
		out = append(out, vAO("a", vI(0), "a1", vI(1)), vAO("f1", vI(0), "f10", vS("a"), "f2", vB(true)), vAO("A", vI(0), "a", vI(1)))
	case mkOpt:
		out = append(out, vNone())
		for _, x := range s.valuesOf(t.Elem) {
			out = append(out, vSome(x))
		}
	case mkList:
		el := s.valuesOf(t.Elem)
		out = append(out, vL())
		for _, x := range el {
			out = append(out, vL(x))
		}
		for _, x := range el {
			for _, y := range el {
				out = append(out, vL(x, y))
			}
		}
	case tObj:
		out = []*mval{{K: mObj}}
		for i, n := range t.FNames {
			var next []*mval
			for _, base := range out {
				for _, fv := range s.valuesOf(t.FTypes[i]) {
					c := base.clone()
					c.setField(n, fv)
					next = append(next, c)
				}
			}
			out = next
		}
	}
	s.vals[k] = out
	return out
}

// sizeOf is |valuesOf(t)| without materialising the set.
func (s *c13Space) sizeOf(t *mtype) int {
	switch t.K {
	case mkOpt:
		return 1 + s.sizeOf(t.Elem)
	case mkList:
		n := s.sizeOf(t.Elem)
		if n > 100000 {
			return n * n
		}
		return 1 + n + n*n
	case tObj:
		n := 1
		for _, f := range t.FTypes {
			n *= s.sizeOf(f)
			if n > 1<<40 {
				return n
			}
		}
		return n
	}
	return len(s.valuesOf(t))
}

func c13Universe(tier string) *c13Space {
	if s := c13Cache[tier]; s != nil {
		return s
	}
	s := &c13Space{vals: map[string][]*mval{}, tier: tier}
	t0 := []*mtype{mtInt, mtFloat, mtBool, mtStr, mtNull, mtRange, mtAnyObj}
	var t1 []*mtype
	for _, t := range t0 {
		t1 = append(t1, mtList(t), mtOpt(t), mtObj("a", t))
	}
	ab := []*mtype{mtInt, mtStr, mtFloat}
	if tier == "thorough" {
		ab = []*mtype{mtInt, mtStr, mtFloat, mtBool, mtAnyObj}
	}
	for _, t := range ab {
		for _, u := range ab {
			t1 = append(t1, mtObj("a", t, "b", u))
		}
	}
	// field names that order differently under different sort keys (by name, by rendered
	// "name: value" text, case-insensitively, by length)
	t1 = append(t1,
		mtObj("a", mtInt, "a1", mtInt), mtObj("a1", mtStr, "a", mtInt),
		mtObj("f1", mtInt, "f10", mtBool, "f2", mtInt),
		mtObj("A", mtInt, "a", mtInt, "B", mtBool),
		mtObj("a_b", mtInt, "a", mtInt, "ab", mtBool))
	var t2 []*mtype
	for _, t := range t1 {
		if tier != "thorough" && t.K == tObj && len(t.FNames) == 2 && !(t.FTypes[0] == mtInt) {
			continue
		}
		t2 = append(t2, mtList(t), mtOpt(t), mtObj("a", t))
		if t.K != tObj || len(t.FNames) == 1 {
			t2 = append(t2, mtObj("a", t, "b", mtInt))
		}
	}
	// the universe is the set of these types whose value set stays enumerable: at most
	// maxVals values (pairs are quadratic in it)
	maxVals := 700
	if tier == "thorough" {
		maxVals = 4500
	}
	seen := map[string]bool{}
	for _, t := range append(append(append([]*mtype{}, t0...), t1...), t2...) {
		if k := t.String(); !seen[k] && s.sizeOf(t) <= maxVals {
			seen[k] = true
			s.types = append(s.types, t)
		}
	}
	c13Cache[tier] = s
	return s
}

// ---------------------------------------------------------------- helpers

func rvIsEqual(a, b *value.Value) (eq bool, class string) {
	class, _ = guard("runtime/value.IsEqual", func() {
		e, i := (*a).IsEqual(*b)
		if i != nil {
			panic("IsEqual returned an interrupt: " + (*i).Message())
		}
		eq = e
	})
	return
}

func ivIsEqual(a, b *ivalue.Value) (eq bool, class string) {
	class, _ = guard("interpreter/value.IsEqual", func() {
		e, i := (*a).IsEqual(*b)
		if i != nil {
			panic("IsEqual returned an interrupt: " + (*i).Message())
		}
		eq = e
	})
	return
}

// diffWhy names the structural reason two values differ (tag for known-finding matching).
func diffWhy(a, b *mval) string {
	if a.K != b.K {
		return "kind:" + kindTag(a) + "/" + kindTag(b)
	}
	switch a.K {
	case mOpt:
		if a.Inner == nil || b.Inner == nil {
			if a.Inner == b.Inner {
				return "equal"
			}
			return "none/some"
		}
		return diffWhy(a.Inner, b.Inner)
	case mList:
		if len(a.Elems) != len(b.Elems) {
			return "list-length"
		}
		for i := range a.Elems {
			if !mEqual(a.Elems[i], b.Elems[i]) {
				return diffWhy(a.Elems[i], b.Elems[i])
			}
		}
	case mObj, mAnyObj:
		for _, k := range a.Keys {
			if b.field(k) == nil {
				return kindTag(a) + ":key-only-on-left"
			}
		}
		for _, k := range b.Keys {
			if a.field(k) == nil {
				return kindTag(a) + ":key-only-on-right"
			}
		}
		for i, k := range a.Keys {
			if !mEqual(a.Vals[i], b.field(k)) {
				return diffWhy(a.Vals[i], b.field(k))
			}
		}
	default:
		if !mEqual(a, b) {
			return kindTag(a) + "-content"
		}
	}
	return "equal"
}

// ---------------------------------------------------------------- eq-laws

func c13EqLaws(tier string, idx int, r *Result) {
	s := c13Universe(tier)
	t := s.types[idx]
	vals := s.valuesOf(t)
	n := len(vals)
	r.Sample(fmt.Sprintf("IsEqual on all %d x %d pairs of type %s, e.g. %s", n, n, t, vals[n-1]))
	for _, lib := range []string{"vm", "tree"} {
		eq := make([][]bool, n)
		bad := make([][]bool, n) // panicked
		var rvs []*value.Value
		var ivs []*ivalue.Value
		for _, v := range vals {
			if lib == "vm" {
				rvs = append(rvs, toRV(v))
			} else {
				ivs = append(ivs, toIV(v))
			}
		}
		tags := []string{"lib:" + lib, "type:" + t.String()}
		reported := map[string]bool{}
		report := func(class string, i, j, k int, detail string) {
			why := "why:" + diffWhy(vals[i], vals[j])
			if strings.HasPrefix(class, "HOST-PANIC") {
				why = "why:mixed-kinds"
			}
			key := class + why
			if reported[key] {
				r.Note("further-pairs-of-a-reported-class", 1)
				return
			}
			reported[key] = true
			cas := fmt.Sprintf("%s/value: type %s, a = %s, b = %s", map[string]string{"vm": "runtime", "tree": "interpreter"}[lib], t, vals[i], vals[j])
			if k >= 0 {
				cas += fmt.Sprintf(", c = %s", vals[k])
			}
			capFail(r, class, []string{tags[0], why}, cas, detail)
		}
		for i := 0; i < n; i++ {
			eq[i] = make([]bool, n)
			bad[i] = make([]bool, n)
			for j := 0; j < n; j++ {
				var e bool
				var pc string
				if lib == "vm" {
					e, pc = rvIsEqual(rvs[i], rvs[j])
				} else {
					e, pc = ivIsEqual(ivs[i], ivs[j])
				}
				if pc != "" {
					bad[i][j] = true
					report(pc, i, j, -1, "a.IsEqual(b) panicked")
					continue
				}
				eq[i][j] = e
				want := mEqual(vals[i], vals[j])
				if e != want {
					dir := "differ-but-IsEqual"
					if want {
						dir = "equal-but-not-IsEqual"
					}
					report("LAW:structural:"+dir, i, j, -1, fmt.Sprintf("a.IsEqual(b) = %v, structural equality = %v", e, want))
				}
			}
		}
		r.Trans(n * n)
		neq := 0
		for i := 0; i < n; i++ {
			if !bad[i][i] && !eq[i][i] {
				report("LAW:reflexive", i, i, -1, "a.IsEqual(a) = false")
			}
			for j := 0; j < n; j++ {
				if eq[i][j] {
					neq++
				}
				if !bad[i][j] && !bad[j][i] && eq[i][j] != eq[j][i] {
					report("LAW:symmetric", i, j, -1, fmt.Sprintf("a.IsEqual(b) = %v but b.IsEqual(a) = %v", eq[i][j], eq[j][i]))
				}
			}
		}
		// transitivity over all triples, decided on the matrix
		for i := 0; i < n; i++ {
			for j := 0; j < n; j++ {
				if !eq[i][j] || i == j {
					continue
				}
				for k := 0; k < n; k++ {
					if eq[j][k] && !eq[i][k] && !bad[i][k] {
						report("LAW:transitive", i, j, k, "a.IsEqual(b) and b.IsEqual(c) but not a.IsEqual(c)")
					}
				}
			}
		}
		r.Trans(n * n)
		r.Outcome(lib + ":types")
		r.Distinct(fmt.Sprintf("eq|%s|%s|%d|%d", lib, t, n, neq))
	}
}

// ---------------------------------------------------------------- clone + mutation

// mutation ops on a live runtime value, mirrored on the model.
type mutOp struct {
	Name   string
	Nested bool // applied to the first child container instead of the value itself
	Kind   string
}

var mutKinds = []string{"push", "pop", "set-index", "set-field", "ao-set", "set-inner"}

func allMutOps() []mutOp {
	var out []mutOp
	for _, nested := range []bool{false, true} {
		for _, k := range mutKinds {
			n := k
			if nested {
				n = "nested-" + k
			}
			out = append(out, mutOp{Name: n, Nested: nested, Kind: k})
		}
	}
	return out
}

// firstChild returns the model child, its static type and an accessor to the live child.
func firstChild(m *mval, t *mtype) (*mval, *mtype) {
	switch m.K {
	case mList:
		if len(m.Elems) > 0 {
			return m.Elems[0], t.Elem
		}
	case mObj:
		if len(m.Keys) > 0 {
			return m.Vals[0], t.fieldType(m.Keys[0])
		}
	case mAnyObj:
		if len(m.Keys) > 0 {
			return m.Vals[0], nil
		}
	case mOpt:
		if m.Inner != nil {
			return m.Inner, t.Elem
		}
	}
	return nil, nil
}

func liveFirstChild(v *value.Value, m *mval) *value.Value {
	switch x := (*v).(type) {
	case value.ValueList:
		return (*x.Values)[0]
	case value.ValueObject:
		return x.FieldsInternal[m.Keys[0]]
	case value.ValueAnyObject:
		return x.FieldsInternal[m.Keys[0]]
	case value.ValueOption:
		return x.Inner
	}
	return nil
}

// freshFor is a new value of static type t (t == nil: dynamically typed position) that
// differs from every value of the universe where possible.
func freshFor(t *mtype) *mval {
	if t == nil {
		return vI(7)
	}
	switch t.K {
	case tInt:
		return vI(7)
	case tFloat:
		return vF(7.5)
	case tBool:
		return vB(true)
	case tStr:
		return vS("z")
	case tNull:
		return vNull()
	case tRange:
		return vRange(7, 9)
	case tAnyObj:
		return vAO("z", vI(7))
	case mkOpt:
		return vSome(freshFor(t.Elem))
	case mkList:
		return vL(freshFor(t.Elem))
	case tObj:
		o := &mval{K: mObj}
		for i, n := range t.FNames {
			o.setField(n, freshFor(t.FTypes[i]))
		}
		return o
	}
	return vI(7)
}

// applyMut applies op to the model m (type t) and to the live value v. ok=false: not
// applicable to this shape.
func applyMut(op mutOp, m *mval, t *mtype, v *value.Value) (ok bool, err string) {
	if op.Nested {
		cm, ct := firstChild(m, t)
		if cm == nil {
			return false, ""
		}
		return applyMut(mutOp{Name: op.Name, Kind: op.Kind}, cm, ct, liveFirstChild(v, m))
	}
	call := func(member string, args ...value.Value) string {
		var out string
		pc, _ := guard("runtime/value."+member, func() {
			fs, i := (*v).Fields()
			if i != nil {
				panic((*i).Message())
			}
			f, found := fs[member]
			if !found {
				out = "member " + member + " missing"
				return
			}
			_, i = (*f).(value.ValueBuiltinFunction).Callback(nil, nil, noSpan, args...)
			if i != nil {
				out = "interrupt: " + (*i).Message()
			}
		})
		if pc != "" {
			return pc
		}
		return out
	}
	var et *mtype
	if t != nil && (t.K == mkList || t.K == mkOpt) {
		et = t.Elem
	}
	switch op.Kind {
	case "push":
		if m.K != mList {
			return false, ""
		}
		f := freshFor(et)
		m.Elems = append(m.Elems, f)
		return true, call("push", *toRV(f))
	case "pop":
		if m.K != mList {
			return false, ""
		}
		if len(m.Elems) > 0 {
			m.Elems = m.Elems[:len(m.Elems)-1]
		}
		return true, call("pop")
	case "set-index":
		if m.K != mList || len(m.Elems) == 0 {
			return false, ""
		}
		f := freshFor(et)
		m.Elems[0] = f
		l := (*v).(value.ValueList)
		*(*l.Values)[0] = *toRV(f) // what Opcode_Assign does with the indexed pointer
		return true, ""
	case "set-field":
		if m.K != mObj || len(m.Keys) == 0 {
			return false, ""
		}
		var ft *mtype
		if t != nil {
			ft = t.fieldType(m.Keys[0])
		}
		f := freshFor(ft)
		m.Vals[0] = f
		o := (*v).(value.ValueObject)
		*o.FieldsInternal[m.Keys[0]] = *toRV(f)
		return true, ""
	case "ao-set":
		if m.K != mAnyObj {
			return false, ""
		}
		f := vS("new")
		m.setField("a", f)
		return true, call("set", *value.NewValueString("a"), *toRV(f))
	case "set-inner":
		if m.K != mOpt || m.Inner == nil {
			return false, ""
		}
		f := freshFor(et)
		m.Inner = f
		o := (*v).(value.ValueOption)
		*o.Inner = *toRV(f)
		return true, ""
	}
	return false, ""
}

func c13Clone(tier string, idx int, r *Result) {
	s := c13Universe(tier)
	t := s.types[idx]
	vals := s.valuesOf(t)
	ops := allMutOps()
	reported := map[string]bool{}
	fail := func(class string, v *mval, seq []string, detail string) {
		// one report per class and kind of the (last) mutation; the case text has the sequence
		mk := "mut:none"
		if len(seq) > 0 {
			mk = "mut:" + seq[len(seq)-1]
			if i := strings.Index(mk, ":"); len(seq) == 1 && i >= 0 {
				mk = "mut:" + strings.SplitN(seq[0], ":", 2)[1]
			}
		}
		key := class + mk
		if reported[key] {
			r.Note("further-values-of-a-reported-class", 1)
			return
		}
		reported[key] = true
		capFail(r, class, []string{"lib:vm", "kind:" + typeKindTag(t), mk}, fmt.Sprintf("runtime/value: type %s, v = %s, c = v.Clone(), mutations %v", t, v, seq), detail)
	}
	r.Sample(fmt.Sprintf("Clone + mutation sequences on all %d values of type %s", len(vals), t))
	nseq := 0
	for _, v := range vals {
		// clone equals original
		var orig, cl *value.Value
		pc, _ := guard("runtime/value.Clone", func() {
			orig = toRV(v)
			cl = (*orig).Clone()
		})
		if pc != "" {
			fail(pc, v, nil, "Clone panicked")
			continue
		}
		if m, err := fromRV(*cl); err != nil || !mEqual(m, v) {
			fail("CLONE:not-equal", v, nil, fmt.Sprintf("clone reads back as %v (%v)", m, err))
			continue
		}
		if e, pc := rvIsEqual(orig, cl); pc == "" && !e {
			fail("CLONE:not-IsEqual", v, nil, "v.IsEqual(v.Clone()) = false")
		}
		// mutation sequences of length 1 and 2 on either side
		type step struct{ a, b int }
		var seqs []step
		for a := range ops {
			seqs = append(seqs, step{a, -1})
			for b := range ops {
				seqs = append(seqs, step{a, b})
			}
		}
		for _, sq := range seqs {
			for _, side := range []string{"clone", "original"} {
				o := toRV(v)
				var c *value.Value
				if pc, _ := guard("runtime/value.Clone", func() { c = (*o).Clone() }); pc != "" {
					break
				}
				target, other := c, o
				if side == "original" {
					target, other = o, c
				}
				model := v.clone()
				ok, err := applyMut(ops[sq.a], model, t, target)
				if !ok {
					break
				}
				names := []string{side + ":" + ops[sq.a].Name}
				if err == "" && sq.b >= 0 {
					ok2, err2 := applyMut(ops[sq.b], model, t, target)
					if !ok2 {
						break
					}
					err = err2
					names = append(names, ops[sq.b].Name)
				}
				nseq++
				if err != "" {
					if strings.HasPrefix(err, "HOST-PANIC") {
						fail(err, v, names, "mutation panicked")
					} else {
						r.Note("mutation-refused:"+ops[sq.a].Kind, 1)
					}
					continue
				}
				if m, e := fromRV(*other); e != nil || !mEqual(m, v) {
					fail("CLONE:shares-state", v, names, fmt.Sprintf("after mutating the %s the other side reads %v (%v), expected the unchanged %s", side, m, e, v))
				}
				if m, e := fromRV(*target); e == nil && !mEqual(m, model) {
					r.Note("mutated-side-differs-from-model(C18)", 1)
				}
			}
		}
	}
	// Both sides change after the clone was taken, from states a list reaches by growing and
	// shrinking (a drained list keeps what it once allocated): the original gets one element,
	// the clone another one.
	if t.K == mkList {
		other := func() *mval { // a second fresh element, different from freshFor where the type has two values
			f := freshFor(t.Elem)
			switch f.K {
			case mInt:
				return vI(8)
			case mFloat:
				return vF(8.5)
			case mStr:
				return vS("y")
			case mBool:
				return vB(false)
			case mList:
				return vL()
			case mOpt:
				return vNone()
			}
			return f
		}
		callOn := func(v *value.Value, member string, args ...value.Value) string {
			pc, _ := guard("runtime/value."+member, func() {
				fs, _ := (*v).Fields()
				(*fs[member]).(value.ValueBuiltinFunction).Callback(nil, nil, noSpan, args...)
			})
			return pc
		}
		for _, v := range vals {
			for _, pre := range []string{"as-built", "drained", "drained-then-grown-by-one", "one-popped", "grown-by-one-then-popped"} {
				o := toRV(v)
				model := v.clone()
				hist := []string{"pre:" + pre}
				pops, pushes := 0, 0
				switch pre {
				case "drained":
					pops = len(model.Elems)
				case "drained-then-grown-by-one":
					pops, pushes = len(model.Elems), 1
				case "one-popped":
					pops = 1
				case "grown-by-one-then-popped":
					callOn(o, "push", *toRV(freshFor(t.Elem)))
					pops = 1
				}
				if pops > len(model.Elems) && pre != "grown-by-one-then-popped" {
					continue
				}
				for i := 0; i < pops; i++ {
					callOn(o, "pop")
					if pre != "grown-by-one-then-popped" {
						model.Elems = model.Elems[:len(model.Elems)-1]
					}
				}
				for i := 0; i < pushes; i++ {
					callOn(o, "push", *toRV(freshFor(t.Elem)))
					model.Elems = append(model.Elems, freshFor(t.Elem))
				}
				var c *value.Value
				if pc, _ := guard("runtime/value.Clone", func() { c = (*o).Clone() }); pc != "" {
					fail(pc, v, hist, "Clone panicked")
					continue
				}
				mo, mc := model.clone(), model.clone()
				if pc := callOn(o, "push", *toRV(freshFor(t.Elem))); pc != "" {
					fail(pc, v, append(hist, "original:push"), "push panicked")
					continue
				}
				mo.Elems = append(mo.Elems, freshFor(t.Elem))
				if pc := callOn(c, "push", *toRV(other())); pc != "" {
					fail(pc, v, append(hist, "clone:push"), "push panicked")
					continue
				}
				mc.Elems = append(mc.Elems, other())
				nseq++
				names := append(hist, "original:push", "clone:push-another")
				if m, e := fromRV(*o); e != nil || !mEqual(m, mo) {
					fail("CLONE:shares-state", v, names, fmt.Sprintf("after both sides pushed, the original reads %v (%v), expected %s", m, e, mo))
				}
				if m, e := fromRV(*c); e != nil || !mEqual(m, mc) {
					fail("CLONE:shares-state", v, names, fmt.Sprintf("after both sides pushed, the clone reads %v (%v), expected %s", m, e, mc))
				}
			}
		}
	}
	r.Trans(nseq)
	r.Outcome("clone:types")
	r.Distinct(fmt.Sprintf("clone|%s|%d|%d", t, len(vals), nseq))
}

// ---------------------------------------------------------------- json

// jsonLawApplies: the round-trip law is stated for JSON-representable values: no ranges, no
// option directly inside an option (`null` cannot tell none from some(none)), and in
// dynamically typed positions (inside any-objects) only what the untyped reader produces.
func jsonLawApplies(v *mval, t *mtype) bool {
	switch t.K {
	case tRange:
		return false
	case tAnyObj:
		for _, x := range v.Vals {
			if !jsonExact(x) {
				return false
			}
		}
		return true
	case mkOpt:
		if t.Elem.K == mkOpt || t.Elem.K == tNull {
			return false
		}
		if v.Inner == nil {
			return true
		}
		return jsonLawApplies(v.Inner, t.Elem)
	case mkList:
		for _, e := range v.Elems {
			if !jsonLawApplies(e, t.Elem) {
				return false
			}
		}
	case tObj:
		for i, k := range v.Keys {
			if !jsonLawApplies(v.Vals[i], t.fieldType(k)) {
				return false
			}
		}
	}
	return true
}

func sameJSON(a, b string) bool {
	var x, y any
	if json.Unmarshal([]byte(a), &x) != nil || json.Unmarshal([]byte(b), &y) != nil {
		return false
	}
	return reflect.DeepEqual(dropNullFields(x), dropNullFields(y))
}

// jsonHas tags the features of the value a JSON defect can be about (one tag per feature so
// that a known finding can name exactly one).
func jsonHas(v *mval) []string {
	var fs []string
	add := func(s string) {
		for _, x := range fs {
			if x == s {
				return
			}
		}
		fs = append(fs, s)
	}
	v.walk(func(x *mval) {
		switch {
		case x.K == mFloat && x.F == float64(int64(x.F)):
			add("has:integral-float")
		case x.K == mOpt && x.Inner == nil:
			add("has:none")
		case x.K == mNull:
			add("has:null")
		case x.K == mAnyObj:
			add("has:any-object")
		}
	})
	sort.Strings(fs)
	return fs
}

func jsonWhy(v *mval) string { return strings.Join(jsonHas(v), "+") }

// dropNullFields removes null-valued object members: an omitted member and an explicit null
// are both acceptable spellings of a none / null field (list elements are positional and
// must stay).
func dropNullFields(x any) any {
	switch x := x.(type) {
	case map[string]any:
		out := map[string]any{}
		for k, v := range x {
			if v != nil {
				out[k] = dropNullFields(v)
			}
		}
		return out
	case []any:
		out := make([]any, len(x))
		for i, v := range x {
			out[i] = dropNullFields(v)
		}
		return out
	}
	return x
}

func c13JSON(tier string, idx int, r *Result) {
	s := c13Universe(tier)
	t := s.types[idx]
	vals := s.valuesOf(t)
	hasToJSON := t.K == mkList || t.K == tObj || t.K == tAnyObj
	if !hasToJSON {
		r.Note("type-has-no-to_json", 1)
		return
	}
	r.Sample(fmt.Sprintf("to_json / parse_json + typed let on all %d values of type %s", len(vals), t))
	reported := map[string]bool{}
	nrun := 0
	for _, v := range vals {
		if !jsonLawApplies(v, t) {
			r.Note("not-json-representable", 1)
			continue
		}
		want, _ := jsonOf(v)
		for _, lib := range []string{"vm", "tree"} {
			tags := append([]string{"lib:" + lib}, jsonHas(v)...)
			fail := func(class, detail string) {
				key := lib + class + jsonWhy(v)
				if reported[key] {
					r.Note("further-values-of-a-reported-class", 1)
					return
				}
				reported[key] = true
				capFail(r, class, tags, fmt.Sprintf("%s/value: type %s, v = %s", map[string]string{"vm": "runtime", "tree": "interpreter"}[lib], t, v), detail)
			}
			var text, perr string
			var back *mval
			pc, _ := guard(lib+"/value.to_json", func() {
				if lib == "vm" {
					text, perr = rvCallStr(toRV(v), "to_json")
				} else {
					text, perr = ivCallStr(toIV(v), "to_json")
				}
			})
			nrun++
			if pc != "" {
				fail(pc, "to_json panicked")
				continue
			}
			if perr != "" {
				fail("JSON:to_json-refused", perr)
				continue
			}
			if !sameJSON(text, want) {
				fail("JSON:to_json-wrong", fmt.Sprintf("to_json gave %s, the JSON image of the value is %s", text, want))
			}
			// parse back and apply the typed cast of `let x: T = text.parse_json();`
			pc, _ = guard(lib+"/value.parse_json+DeepCast", func() {
				if lib == "vm" {
					p, e := rvCall(value.NewValueString(text), "parse_json")
					if e != "" {
						perr = "parse_json: " + e
						return
					}
					c, ce := value.DeepCast(*p, t.astType(), noSpan, false)
					if ce != nil {
						perr = "typed let: " + ce.Message()
						return
					}
					back, _ = fromRV(*c)
				} else {
					p, e := ivCall(ivalue.NewValueString(text), "parse_json")
					if e != "" {
						perr = "parse_json: " + e
						return
					}
					c, ce := ivalue.DeepCast(*p, t.astType(), noSpan, false)
					if ce != nil {
						perr = "typed let: " + (*ce).Message()
						return
					}
					back, _ = fromIV(*c)
				}
			})
			switch {
			case pc != "":
				fail(pc, "parse_json / typed cast panicked on "+text)
			case perr != "":
				fail("JSON:roundtrip-rejected", fmt.Sprintf("to_json gave %s; parsing it back under type %s failed: %s", text, t, perr))
			case !mEqual(back, v):
				fail("JSON:roundtrip-differs", fmt.Sprintf("to_json gave %s; parsed back under type %s: %s", text, t, back))
			}
			// the same with the conversions of `text.parse_json() as T` (whole numbers come back as
			// ints and have to become floats again, wherever they sit)
			var backAs *mval
			perrAs := ""
			pcAs, _ := guard(lib+"/value.parse_json+DeepCast(as)", func() {
				if lib == "vm" {
					p, e := rvCall(value.NewValueString(text), "parse_json")
					if e != "" {
						perrAs = "parse_json: " + e
						return
					}
					c, ce := value.DeepCast(*p, t.astType(), noSpan, true)
					if ce != nil {
						perrAs = "as: " + ce.Message()
						return
					}
					backAs, _ = fromRV(*c)
				} else {
					p, e := ivCall(ivalue.NewValueString(text), "parse_json")
					if e != "" {
						perrAs = "parse_json: " + e
						return
					}
					c, ce := ivalue.DeepCast(*p, t.astType(), noSpan, true)
					if ce != nil {
						perrAs = "as: " + (*ce).Message()
						return
					}
					backAs, _ = fromIV(*c)
				}
			})
			switch {
			case pcAs != "":
				fail(pcAs, "parse_json / `as` cast panicked on "+text)
			case perrAs != "":
				fail("JSON:roundtrip-with-as-rejected", fmt.Sprintf("to_json gave %s; `%s.parse_json() as %s` failed: %s", text, text, t, perrAs))
			case !mEqual(backAs, v):
				fail("JSON:roundtrip-with-as-differs", fmt.Sprintf("to_json gave %s; parsed back with `as %s`: %s", text, t, backAs))
			}
		}
	}
	r.Trans(nrun * 3)
	r.Outcome("json:types")
	r.Distinct(fmt.Sprintf("json|%s|%d", t, nrun))
}

func rvCall(v *value.Value, member string, args ...value.Value) (*value.Value, string) {
	fs, i := (*v).Fields()
	if i != nil {
		return nil, (*i).Message()
	}
	f, ok := fs[member]
	if !ok {
		return nil, "member " + member + " missing"
	}
	bf, ok := (*f).(value.ValueBuiltinFunction)
	if !ok {
		return nil, "member " + member + " is not a builtin function"
	}
	res, i := bf.Callback(nil, nil, noSpan, args...)
	if i != nil {
		return nil, (*i).Message()
	}
	return res, ""
}

func rvCallStr(v *value.Value, member string) (string, string) {
	res, e := rvCall(v, member)
	if e != "" {
		return "", e
	}
	sv, ok := (*res).(value.ValueString)
	if !ok {
		return "", "result is not a string"
	}
	return sv.Inner, ""
}

func ivCall(v *ivalue.Value, member string, args ...ivalue.Value) (*ivalue.Value, string) {
	fs, i := (*v).Fields()
	if i != nil {
		return nil, (*i).Message()
	}
	f, ok := fs[member]
	if !ok {
		return nil, "member " + member + " missing"
	}
	bf, ok := (*f).(ivalue.ValueBuiltinFunction)
	if !ok {
		return nil, "member " + member + " is not a builtin function"
	}
	res, i := bf.Callback(nil, nil, noSpan, args...)
	if i != nil {
		return nil, (*i).Message()
	}
	return res, ""
}

func ivCallStr(v *ivalue.Value, member string) (string, string) {
	res, e := ivCall(v, member)
	if e != "" {
		return "", e
	}
	sv, ok := (*res).(ivalue.ValueString)
	if !ok {
		return "", "result is not a string"
	}
	return sv.Inner, ""
}

// ---------------------------------------------------------------- display

func c13Display(tier string, idx int, r *Result) {
	s := c13Universe(tier)
	t := s.types[idx]
	vals := s.valuesOf(t)
	r.Sample(fmt.Sprintf("Display of both libraries on all %d values of type %s", len(vals), t))
	reported := map[string]bool{}
	n := 0
	for _, v := range vals {
		var dv, dt string
		pc, _ := guard("value.Display", func() {
			a, i := (*toRV(v)).Display()
			if i != nil {
				panic((*i).Message())
			}
			b, j := (*toIV(v)).Display()
			if j != nil {
				panic((*j).Message())
			}
			dv, dt = a, b
		})
		n++
		fail := func(class, detail string) {
			if reported[class] {
				r.Note("further-values-of-a-reported-class", 1)
				return
			}
			reported[class] = true
			capFail(r, class, []string{"kind:" + typeKindTag(t)}, fmt.Sprintf("type %s, v = %s", t, v), detail)
		}
		if pc != "" {
			fail(pc, "Display panicked")
			continue
		}
		if dv == dt {
			continue
		}
		// (both libraries render objects in one defined field order since the display-order fix:
		// no tolerance for permutations)
		fail("DISPLAY:libraries-differ", fmt.Sprintf("runtime/value renders %q, interpreter/value renders %q", dv, dt))
	}
	r.Trans(2 * n)
	r.Outcome("display:types")
	r.Distinct(fmt.Sprintf("display|%s|%d", t, n))
}

func firstRangeOrKind(v *mval) string {
	out := kindTag(v)
	v.walk(func(x *mval) {
		if x.K == mRange {
			out = "contains-range"
		}
	})
	return out
}

// ---------------------------------------------------------------- programs

// build returns statements that construct v (static type t) and an expression denoting it.
// Any-objects are built with `new { ? }` and set().
type progBuilder struct {
	pre []string
	n   int
	top bool // the next expression stands directly under a type annotation
}

func (b *progBuilder) expr(v *mval, t *mtype) string {
	if v.K == mList && len(v.Elems) == 0 && t != nil && t.K == mkList && !b.top {
		// an empty list literal has no element type of its own: the analyzer only accepts it
		// directly under an annotation
		b.n++
		name := fmt.Sprintf("e%d", b.n)
		b.pre = append(b.pre, fmt.Sprintf("let %s: %s = [];", name, t))
		return name
	}
	b.top = false
	switch v.K {
	case mAnyObj:
		b.n++
		name := fmt.Sprintf("t%d", b.n)
		b.pre = append(b.pre, fmt.Sprintf("let %s = new { ? };", name))
		for i, k := range v.Keys {
			b.pre = append(b.pre, fmt.Sprintf("%s.set(%s, %s);", name, srcStr(k), b.expr(v.Vals[i], nil)))
		}
		return name
	case mList:
		var p []string
		for _, e := range v.Elems {
			var et *mtype
			if t != nil {
				et = t.Elem
			}
			p = append(p, b.expr(e, et))
		}
		return "[" + strings.Join(p, ", ") + "]"
	case mObj:
		var p []string
		for i, k := range v.Keys {
			var ft *mtype
			if t != nil {
				ft = t.fieldType(k)
			}
			p = append(p, k+": "+b.expr(v.Vals[i], ft))
		}
		return "new { " + strings.Join(p, ", ") + " }"
	case mOpt:
		if v.Inner == nil {
			return "none"
		}
		var et *mtype
		if t != nil {
			et = t.Elem
		}
		return "?" + b.expr(v.Inner, et)
	}
	s, _ := srcLit(v)
	return s
}

func bindStmt(name string, v *mval, t *mtype, b *progBuilder) string {
	b.top = true
	return fmt.Sprintf("let %s: %s = %s;", name, t, b.expr(v, t))
}

const c13ProgMaxVals = 70

type c13Pair struct{ ti, i, j int }

var c13PairCache = map[string][]c13Pair{}

func c13Pairs(tier string) []c13Pair {
	if p, ok := c13PairCache[tier]; ok {
		return p
	}
	s := c13Universe(tier)
	var out []c13Pair
	for ti, t := range s.types {
		n := len(s.valuesOf(t))
		if n > c13ProgMaxVals {
			continue
		}
		for i := 0; i < n; i++ {
			for j := i; j < n; j++ {
				out = append(out, c13Pair{ti, i, j})
			}
		}
	}
	c13PairCache[tier] = out
	return out
}

type c13Single struct{ ti, i int }

var c13SingleCache = map[string][]c13Single{}

func c13Singles(tier string) []c13Single {
	if p, ok := c13SingleCache[tier]; ok {
		return p
	}
	s := c13Universe(tier)
	var out []c13Single
	for ti, t := range s.types {
		n := len(s.valuesOf(t))
		if n > 4*c13ProgMaxVals {
			continue
		}
		for i := 0; i < n; i++ {
			out = append(out, c13Single{ti, i})
		}
	}
	c13SingleCache[tier] = out
	return out
}

type backendObs struct {
	n string
	o Obs
}

// runSel analyses a program and runs it on the selected backend; ok=false when it was not
// accepted. (One backend per case: see backendNames in c12.go.)
func runSel(text string, r *Result, what, backend string) (sel []backendObs, ok bool) {
	a := Analyze(map[string]string{"main": text}, true)
	if a.Obs.Class == "HOST-PANIC" {
		r.Note("analyzer-panic(C05):"+what, 1)
		return
	}
	if !a.Obs.Accepted() {
		r.Note("rejected-by-analyzer:"+what, 1)
		if len(a.Obs.Errors) > 0 {
			r.Note("rejected-by-analyzer:"+what+":"+normMsg(a.Obs.Errors[0]), 1)
		}
		return
	}
	return []backendObs{{backend, runOn(backend, a, r)}}, true
}

func c13ProgEq(tier string, idx int, r *Result) {
	backend := backendNames[idx%2]
	s := c13Universe(tier)
	p := c13Pairs(tier)[idx/2]
	t := s.types[p.ti]
	a, b := s.valuesOf(t)[p.i], s.valuesOf(t)[p.j]
	pb := &progBuilder{}
	sa := bindStmt("a", a, t, pb)
	sb := bindStmt("b", b, t, pb)
	text := fmt.Sprintf("fn main() {\n    %s\n    %s\n    %s\n    println(a == b, b == a, a != b, a == a);\n}\n", strings.Join(pb.pre, "\n    "), sa, sb)
	r.Sample(text)
	sel, ok := runSel(text, r, "prog-eq", backend)
	if !ok {
		return
	}
	eq := mEqual(a, b)
	want := fmt.Sprintf("%v %v %v true\n", eq, eq, !eq)
	why := "why:" + diffWhy(a, b)
	for _, bo := range sel {
		tags := []string{"backend:" + bo.n, why}
		if cc := crashClass(bo.o); cc != "" {
			capFail(r, cc, []string{"backend:" + bo.n}, text, bo.o.String())
			continue
		}
		r.Outcome(bo.n + ":" + bo.o.Class)
		if bo.o.Class != "ok" {
			capFail(r, "EQ-PROGRAM:outcome-"+bo.o.Class, tags, text, bo.o.String())
			continue
		}
		if bo.o.Out != want {
			got := strings.Fields(bo.o.Out)
			wf := strings.Fields(want)
			class := "EQ-PROGRAM:wrong"
			if len(got) == 4 {
				switch {
				case got[0] != got[1]:
					class = "EQ-PROGRAM:asymmetric"
				case got[3] != "true":
					class = "EQ-PROGRAM:irreflexive"
				case got[0] != wf[0]:
					class = "EQ-PROGRAM:not-structural"
				case got[2] != wf[2]:
					class = "EQ-PROGRAM:!=-inconsistent"
				}
			}
			capFail(r, class, tags, text, fmt.Sprintf("printed %q, expected %q (a == b, b == a, a != b, a == a)", bo.o.Out, want))
		}
	}
	r.Distinct("prog-eq|" + backend + "|" + typeKindTag(t) + "|" + why + "|" + sel[0].o.Key())
}

func c13ProgJSON(tier string, idx int, r *Result) {
	backend := backendNames[idx%2]
	s := c13Universe(tier)
	p := c13Singles(tier)[idx/2]
	t := s.types[p.ti]
	v := s.valuesOf(t)[p.i]
	// ranges: to_json of a list of ranges and range.to_string are member-table matters (C18)
	hasToJSON := (t.K == mkList || t.K == tObj || t.K == tAnyObj) && firstRangeOrKind(v) != "contains-range"
	hasToString := t.K != tObj && t.K != tNull && t.K != tRange
	pb := &progBuilder{}
	bind := bindStmt("a", v, t, pb)
	body := ""
	lawApplies := hasToJSON && jsonLawApplies(v, t)
	if hasToJSON {
		body += "    println(\"J\" + a.to_json());\n"
		if lawApplies {
			body += fmt.Sprintf("    try {\n        let b: %s = a.to_json().parse_json();\n        println(\"R\", a == b, b == a);\n    } catch e {\n        println(\"R rejected:\", e.message);\n    }\n", t)
		}
	}
	if hasToString {
		body += "    println(\"@@S:\" + a.to_string());\n"
	}
	if body == "" {
		r.Note("type-offers-neither-to_json-nor-to_string", 1)
		return
	}
	text := fmt.Sprintf("fn main() {\n    %s\n    %s\n%s}\n", strings.Join(pb.pre, "\n    "), bind, body)
	r.Sample(text)
	sel, ok := runSel(text, r, "prog-json", backend)
	if !ok {
		return
	}
	wantJSON, _ := jsonOf(v)
	disp := displays(v)
	outs := map[string]string{}
	for _, bo := range sel {
		tags := append([]string{"backend:" + bo.n}, jsonHas(v)...)
		if cc := crashClass(bo.o); cc != "" {
			capFail(r, cc, tags, text, bo.o.String())
			continue
		}
		r.Outcome(bo.n + ":" + bo.o.Class)
		if bo.o.Class != "ok" {
			capFail(r, "JSON-PROGRAM:outcome-"+bo.o.Class, tags, text, bo.o.String())
			continue
		}
		// split the output: the to_string part comes last, after the marker "@@S:"
		out := bo.o.Out
		sPart, hasS := "", false
		if i := strings.LastIndex(out, "@@S:"); hasToString && i >= 0 {
			sPart, hasS = strings.TrimSuffix(out[i+4:], "\n"), true
			out = out[:i]
		}
		outs[bo.n] = sPart
		lines := strings.Split(strings.TrimSuffix(out, "\n"), "\n")
		if hasToJSON {
			if len(lines) == 0 || !strings.HasPrefix(lines[0], "J") {
				capFail(r, "JSON-PROGRAM:output", tags, text, bo.o.String())
				continue
			}
			if got := lines[0][1:]; !sameJSON(got, wantJSON) {
				capFail(r, "JSON:to_json-wrong", tags, text, fmt.Sprintf("to_json printed %s, the JSON image of the value is %s", got, wantJSON))
			}
			if lawApplies {
				if len(lines) < 2 || lines[1] != "R true true" {
					class := "JSON:roundtrip-differs"
					if len(lines) >= 2 && strings.HasPrefix(lines[1], "R rejected") {
						class = "JSON:roundtrip-rejected"
					}
					capFail(r, class, tags, text, fmt.Sprintf("after to_json -> parse_json -> annotated let: %q", strings.Join(lines[1:], "\n")))
				}
			}
		}
		if hasToString {
			if !hasS {
				capFail(r, "JSON-PROGRAM:output", tags, text, bo.o.String())
			} else if !inSet(sPart, disp) {
				r.Note("to_string-differs-from-reference-rendering:"+bo.n, 1)
			}
		}
	}
	// both backends render the value identically: decided in the VM case, which also runs the
	// interpreter (it cannot take the worker down)
	if vmOut, okV := outs["vm"]; hasToString && okV && sel[0].o.Class == "ok" {
		if tsel, okT := runSel(text, r, "prog-json", "tree"); okT && tsel[0].o.Class == "ok" {
			treeOut := ""
			if i := strings.LastIndex(tsel[0].o.Out, "@@S:"); i >= 0 {
				treeOut = strings.TrimSuffix(tsel[0].o.Out[i+4:], "\n")
			}
			if treeOut != vmOut && !(v.hasWideObject() && inSet(treeOut, disp) && inSet(vmOut, disp)) {
				capFail(r, "DISPLAY:backends-differ", []string{"kind:" + typeKindTag(t)}, text, fmt.Sprintf("to_string: vm %q, tree %q", vmOut, treeOut))
			}
		}
	}
	r.Distinct("prog-json|" + backend + "|" + typeKindTag(t) + "|" + jsonWhy(v) + "|" + sel[0].o.Class + "|" + sel[0].o.Out)
}

// c13ProgClone: a literal evaluated twice (function called twice) yields independent values.
func c13ProgClone(tier string, idx int, r *Result) {
	backend := backendNames[idx%2]
	s := c13Universe(tier)
	p := c13Singles(tier)[idx/2]
	t := s.types[p.ti]
	v := s.valuesOf(t)[p.i]
	var mut string
	switch {
	case t.K == mkList:
		f, _ := (&progBuilder{}).exprNoPre(freshFor(t.Elem), t.Elem)
		if f == "" {
			r.Note("prog-clone-inapplicable:no-literal-for-fresh-element", 1)
			return
		}
		mut = "a.push(" + f + ");"
	case t.K == tObj && len(t.FNames) > 0:
		f, _ := (&progBuilder{}).exprNoPre(freshFor(t.FTypes[0]), t.FTypes[0])
		if f == "" {
			r.Note("prog-clone-inapplicable:no-literal-for-fresh-field", 1)
			return
		}
		mut = "a." + t.FNames[0] + " = " + f + ";"
	case t.K == tAnyObj:
		mut = "a.set(\"a\", \"new\");"
	default:
		r.Note("prog-clone-inapplicable:not-a-mutable-container", 1)
		return
	}
	pb := &progBuilder{}
	e := pb.expr(v, t)
	text := fmt.Sprintf("fn mk() -> %s {\n    %s\n    %s\n}\nfn main() {\n    let a = mk();\n    let b = mk();\n    %s\n    println(b == mk(), a == b);\n}\n", t, strings.Join(pb.pre, "\n    "), e, mut)
	r.Sample(text)
	sel, ok := runSel(text, r, "prog-clone", backend)
	if !ok {
		return
	}
	for _, bo := range sel {
		tags := []string{"backend:" + bo.n, "kind:" + typeKindTag(t)}
		if cc := crashClass(bo.o); cc != "" {
			capFail(r, cc, tags, text, bo.o.String())
			continue
		}
		r.Outcome(bo.n + ":" + bo.o.Class)
		if bo.o.Class != "ok" {
			capFail(r, "CLONE-PROGRAM:outcome-"+bo.o.Class, tags, text, bo.o.String())
			continue
		}
		if !strings.HasPrefix(bo.o.Out, "true ") {
			capFail(r, "CLONE-PROGRAM:literal-shares-state", tags, text, fmt.Sprintf("printed %q: after mutating the first result of mk() the second one no longer equals a fresh mk()", bo.o.Out))
		}
	}
	r.Distinct("prog-clone|" + backend + "|" + typeKindTag(t) + "|" + sel[0].o.Key())
}

// exprNoPre: expression for v without helper statements ("" when it needs some).
func (b *progBuilder) exprNoPre(v *mval, t *mtype) (string, bool) {
	e := b.expr(v, t)
	if len(b.pre) > 0 {
		return "", false
	}
	return e, true
}

func init() {
	register("C13", func() *Check {
		nt := func(tier string) int { return len(c13Universe(tier).types) }
		return &Check{ID: "C13", Scenarios: []Scenario{
			{Name: "eq-laws", Count: nt, Run: c13EqLaws},
			{Name: "clone-mutation", Count: nt, Run: c13Clone},
			{Name: "json-roundtrip", Count: nt, Run: c13JSON},
			{Name: "display", Count: nt, Run: c13Display},
			{Name: "strings-produced-by-members", Count: func(string) int { return c13StringsCount() }, Run: func(_ string, idx int, r *Result) { c13StringsRun(idx, r) }},
			{Name: "floats-close-to-each-other", Count: func(string) int { return c13FloatsCount() }, Run: func(_ string, idx int, r *Result) { c13FloatsRun(idx, r) }},
			{Name: "prog-eq", Count: func(tier string) int { return 2 * len(c13Pairs(tier)) }, Run: c13ProgEq},
			{Name: "prog-json-string", Count: func(tier string) int { return 2 * len(c13Singles(tier)) }, Run: c13ProgJSON},
			{Name: "prog-clone", Count: func(tier string) int { return 2 * len(c13Singles(tier)) }, Run: c13ProgClone},
		}}
	})
}
