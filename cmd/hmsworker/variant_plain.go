//go:build !sched

package main

import (
	"github.com/smarthome-go/homescript/v3/homescript/runtime"
	"sync"
)

// plain variant: the repository code is unmodified; VM runs use real goroutines.
const controlled = false

func coresLockState(vm *runtime.VM) string {
	if vm.Cores.Lock.TryLock() {
		vm.Cores.Lock.Unlock()
		return "free"
	}
	if vm.Cores.Lock.TryRLock() {
		vm.Cores.Lock.RUnlock()
		return "R"
	}
	return "W"
}

func newHostLock() interface {
	Lock()
	Unlock()
} {
	return &sync.Mutex{}
}
