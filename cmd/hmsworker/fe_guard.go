package main

// Guarded execution for inputs that are suspected to make the front end loop forever or
// exhaust the stack. Such an input would wedge or kill the worker; the driver attributes that
// (TIMEOUT / WORKER-DEATH) but only after its idle watchdog (90 s), and a loop that allocates
// fills the worker's 8 GiB address space first. The front-end checks therefore run every
// *suspicious* input first in a throw-away child process (this binary re-executed in probe
// mode) with a small address space, a small maximal goroutine stack and a short timeout. If
// the child returns, the input is run in-process as usual; if it does not, the case is
// reported through r.Fail with class FATAL:<reason>:<repository function> and is not run
// in-process. Because the verdict comes from running the current tree, it disappears by
// itself when the defect is repaired.
//
// Which inputs are suspicious is decided by cheap over-approximations of the fatal defects
// known at the time of writing (see feSuspicious*): nothing is reported from a predicate alone.

import (
	"bytes"
	"encoding/json"
	"fmt"
	"hash/fnv"
	"io"
	"os"
	"os/exec"
	"regexp"
	"runtime/debug"
	"sort"
	"strings"
	"syscall"
	"time"

	hms "github.com/smarthome-go/homescript/v3/homescript"
	"github.com/smarthome-go/homescript/v3/homescript/vsched"
)

const (
	probeEnv        = "VERIF_FE_PROBE"
	probeMemKiB     = 3 << 20  // ulimit -v of the child: 3 GiB of address space
	probeMaxStack   = 32 << 20 // maximal goroutine stack of the child (nesting families: 8x)
	probeTimeout    = 2 * time.Second
	probeTimeoutBig = 25 * time.Second // nesting families: legitimately slower inputs
)

type probeInput struct {
	Mode string            `json:"mode"` // parse | analyze
	Mods map[string]string `json:"mods"` // "main" is the entry module
}

// probe mode: runs before main() parses flags.
func init() {
	if os.Getenv(probeEnv) == "" {
		return
	}
	maxStack := probeMaxStack
	if os.Getenv(probeEnv) == "big" {
		maxStack *= 8
	}
	debug.SetMaxStack(maxStack)
	if null, err := os.OpenFile("/dev/null", os.O_WRONLY, 0); err == nil {
		os.Stdout = null
	}
	b, err := io.ReadAll(os.Stdin)
	if err != nil {
		os.Exit(3)
	}
	var in probeInput
	if json.Unmarshal(b, &in) != nil {
		os.Exit(3)
	}
	if os.Getenv(probeEnv) == "show" {
		// debugging aid: VERIF_FE_PROBE=show hmsworker < {"mode":"analyze","mods":{"main":"..."}}
		o := realParse(in.Mods["main"], "main")
		fmt.Fprintf(os.Stderr, "parse: panic=%q hard=%q soft=%q\n", o.Panic, o.Hard, o.Soft)
		a := Analyze(in.Mods, true)
		fmt.Fprintf(os.Stderr, "analyze: %s\n", a.Obs.String())
		os.Exit(0)
	}
	func() {
		defer func() { recover() }() // a panic is not fatal: the parent observes it in-process
		if in.Mode == "parse" {
			hms.Parse(in.Mods["main"], "main")
		} else {
			Analyze(in.Mods, false)
		}
	}()
	os.Exit(0)
}

type guardVerdict struct {
	Fatal  bool
	Class  string
	Detail string
}

var reHelperFrame = regexp.MustCompile(`^(lexer\.|errors\.|lexer/|parser\.\(\*Parser\)\.(next|expect|expectRecoverable|expectMultiple|expectMultipleInternal|expectedOneOfErr|nonCriticalErr)$)`)

// culpritFunc names the repository function a runaway child was executing: the innermost
// frame of the first goroutine of the dump that is not a leaf helper (token fetching, error
// construction), so that the same loop is always named the same way.
func culpritFunc(dump string) string {
	lines := strings.Split(dump, "\n")
	first := ""
	var fns []string
	inG := false
	for i := 0; i+1 < len(lines); i++ {
		if strings.HasPrefix(lines[i], "goroutine ") {
			if first != "" {
				break
			}
			inG = true
			continue
		}
		if !inG || !strings.Contains(lines[i+1], "/repo/") || strings.Contains(lines[i+1], "/vsched/") {
			continue
		}
		fn := strings.TrimSpace(lines[i])
		if p := strings.LastIndex(fn, "("); p > 0 {
			fn = fn[:p]
		}
		fn = strings.TrimPrefix(fn, "github.com/smarthome-go/homescript/v3/homescript/")
		if first == "" {
			first = fn
		}
		fns = append(fns, fn)
	}
	// a function that occurs over and over is a runaway recursion: name the most frequent one
	count := map[string]int{}
	for _, fn := range fns {
		count[fn]++
	}
	best := ""
	for _, fn := range fns {
		if count[fn] > count[best] || (count[fn] == count[best] && len(fn) > len(best)) {
			best = fn
		}
	}
	if count[best] >= 8 {
		return best
	}
	for _, fn := range fns {
		if !reHelperFrame.MatchString(fn) {
			return fn
		}
	}
	return first
}

// guardRun executes the front end on mods in a child process. "Did not return" is judged by
// the CPU time the child consumed, never by wall-clock time alone: a child that was killed
// by the wall-clock timeout before it had consumed probeCPU of processor time (it may not
// have been scheduled on a loaded machine) proves nothing; the probe is repeated with three
// times the timeout (up to four times); if even the last one was starved the verdict is
// "inconclusive" (not fatal; counted in guardStarved and reported as incomplete coverage).
func guardRun(mode string, mods map[string]string, timeout time.Duration) guardVerdict {
	// identical inputs (e.g. a token prefix that is also a byte prefix) are probed once per worker
	h := fnv.New64a()
	h.Write([]byte(mode))
	names := make([]string, 0, len(mods))
	for n := range mods {
		names = append(names, n)
	}
	sort.Strings(names)
	for _, n := range names {
		fmt.Fprintf(h, "\x00%s\x00%s", n, mods[n])
	}
	key := h.Sum64()
	if v, ok := guardCache[key]; ok {
		return v
	}
	need := timeout * 3 / 4 // processor time that makes a "no-return" verdict meaningful
	v, cpu, timedOut := guardRunOnce(mode, mods, timeout)
	for try := 0; v.Fatal && timedOut && cpu < need && try < 4; try++ {
		timeout *= 3
		if beatHook != nil {
			beatHook()
		}
		v, cpu, timedOut = guardRunOnce(mode, mods, timeout)
	}
	if v.Fatal && timedOut && cpu < need {
		guardStarved++
		v = guardVerdict{}
	}
	if len(guardCache) < 1<<16 {
		guardCache[key] = v
	}
	return v
}

// guardStarved counts probes that never got enough processor time for a verdict.
var guardStarved int

// beatHook, when set, tells the driver that the worker is alive (long probes).
var beatHook func()

var guardCache = map[uint64]guardVerdict{}

func guardRunOnce(mode string, mods map[string]string, timeout time.Duration) (guardVerdict, time.Duration, bool) {
	exe, err := os.Executable()
	if err != nil {
		return guardVerdict{}, 0, false
	}
	in, _ := json.Marshal(probeInput{Mode: mode, Mods: mods})
	cmd := exec.Command("/bin/sh", "-c", fmt.Sprintf("ulimit -v %d; exec \"$0\"", probeMemKiB), exe)
	mode1, maxStack := "1", probeMaxStack
	if timeout >= probeTimeoutBig {
		mode1, maxStack = "big", 8*probeMaxStack
	}
	cmd.Env = append(os.Environ(), probeEnv+"="+mode1, "GOTRACEBACK=crash")
	cmd.Stdin = bytes.NewReader(in)
	var stderr bytes.Buffer
	cmd.Stderr = &stderr
	if err := cmd.Start(); err != nil {
		return guardVerdict{}, 0, false
	}
	done := make(chan error, 1)
	go func() { done <- cmd.Wait() }()
	timedOut := false
	var werr error
	select {
	case werr = <-done:
	case <-time.After(timeout):
		timedOut = true
		cmd.Process.Signal(syscall.SIGQUIT) // makes the Go runtime dump the goroutine stacks
		select {
		case werr = <-done:
		case <-time.After(3 * time.Second):
			cmd.Process.Kill()
			werr = <-done
		}
	}
	if werr == nil && !timedOut {
		return guardVerdict{}, 0, false
	}
	var cpu time.Duration
	if cmd.ProcessState != nil {
		cpu = cmd.ProcessState.UserTime() + cmd.ProcessState.SystemTime()
	}
	dump := stderr.String()
	reason := "died"
	switch {
	case timedOut:
		reason = "no-return"
	case strings.Contains(dump, "goroutine stack exceeds") || strings.Contains(dump, "stack overflow"):
		reason = "stack-exhausted"
	case strings.Contains(dump, "out of memory") || strings.Contains(dump, "cannot allocate memory"):
		reason = "memory-exhausted"
	}
	site := vsched.RepoFrames(dump)
	fn := culpritFunc(dump)
	head := dump
	if len(head) > 600 {
		head = head[:600]
	}
	return guardVerdict{
		Fatal: true,
		Class: "FATAL:" + reason + ":" + fn,
		Detail: fmt.Sprintf("NOT run in-process: the input was first run in a child process (address space %d KiB, max stack %d MiB, timeout %s) because it matches the pattern of a known fatal defect; the child did not return: %s at %s\n%s",
			probeMemKiB, maxStack>>20, timeout, reason, site, head),
	}, cpu, timedOut
}

// feSuspiciousText over-approximates the inputs of the importIdent loop: the lexer reports an
// error somewhere behind a `from` token (the parser ignores lexer errors while reading the
// module path and spins on the same token forever).
func feSuspiciousText(src string) bool {
	if !strings.Contains(src, "from") {
		return false
	}
	real := realLex(src, feFile)
	if real.Err == "" && real.Panic == "" {
		return false
	}
	for _, t := range real.Toks {
		if t.Kind == "from" {
			return true
		}
	}
	return false
}

var reImportFrom = regexp.MustCompile(`from\s+([A-Za-z_][A-Za-z0-9_]*)`)

// feSuspiciousGraph over-approximates the inputs of the import-graph recursion: the module
// texts mention each other in a way that closes a cycle.
func feSuspiciousGraph(mods map[string]string) bool {
	cyc, _ := feReachable(mods)
	return cyc
}

// feReachable walks the import edges (as far as a regular expression sees them) from the
// entry module; it reports whether a cycle is reachable and which modules are.
func feReachable(mods map[string]string) (cyclic bool, reach []string) {
	state := map[string]int{}
	var dfs func(n string)
	dfs = func(n string) {
		state[n] = 1
		reach = append(reach, n)
		for _, m := range reImportFrom.FindAllStringSubmatch(mods[n], -1) {
			t := m[1]
			if _, ok := mods[t]; !ok {
				continue
			}
			switch state[t] {
			case 1:
				cyclic = true
			case 0:
				dfs(t)
			}
		}
		state[n] = 2
	}
	dfs("main")
	return cyclic, reach
}

var susTextCache = map[string]bool{}

// guardMods runs the probe if the module graph reachable from the entry module, or the text
// of a reachable module, is suspicious.
func guardMods(mode string, mods map[string]string) guardVerdict {
	sus, reach := feReachable(mods)
	for _, n := range reach {
		if sus {
			break
		}
		t := mods[n]
		if len(t) > 256 {
			v, ok := susTextCache[t]
			if !ok {
				v = feSuspiciousText(t)
				if len(susTextCache) < 4096 {
					susTextCache[t] = v
				}
			}
			sus = v
		} else {
			sus = feSuspiciousText(t)
		}
	}
	if !sus {
		return guardVerdict{}
	}
	return guardRun(mode, mods, probeTimeout)
}
