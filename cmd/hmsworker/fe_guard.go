package main

// Guarded execution for inputs that are suspected to make the front end loop forever or
// exhaust the stack. Such an input would wedge or kill the worker; the driver attributes that
// (TIMEOUT / WORKER-DEATH) but only after its idle watchdog (90 s), and a loop that allocates
// fills the worker's 8 GiB address space first. The front-end checks therefore run every
// *suspicious* input first in a throw-away child process (this binary re-executed in probe
// mode) with a small address space, a small maximal goroutine stack and a short timeout. If
// the child returns, the input is run in-process as usual; if it does not, the case is
// reported through r.Fail with class FATAL:<reason>:<repository function> and is not run
// in-process. Because the verdict comes from running the current tree, it disappears by
// itself when the defect is repaired.
//
// Which inputs are suspicious is decided by cheap over-approximations of the fatal defects
// known at the time of writing (see feSuspicious*): nothing is reported from a predicate alone.

import (
	"bytes"
	"encoding/json"
	"fmt"
	"io"
	"os"
	"os/exec"
	"regexp"
	"runtime/debug"
	"strings"
	"syscall"
	"time"

	hms "github.com/smarthome-go/homescript/v3/homescript"
	"github.com/smarthome-go/homescript/v3/homescript/vsched"
)

const (
	probeEnv        = "VERIF_FE_PROBE"
	probeMemKiB     = 3 << 20   // ulimit -v of the child: 3 GiB of address space
	probeMaxStack   = 256 << 20 // maximal goroutine stack of the child
	probeTimeout    = 2 * time.Second
	probeTimeoutBig = 25 * time.Second // nesting families: legitimately slower inputs
)

type probeInput struct {
	Mode string            `json:"mode"` // parse | analyze
	Mods map[string]string `json:"mods"` // "main" is the entry module
}

// probe mode: runs before main() parses flags.
func init() {
	if os.Getenv(probeEnv) == "" {
		return
	}
	debug.SetMaxStack(probeMaxStack)
	if null, err := os.OpenFile("/dev/null", os.O_WRONLY, 0); err == nil {
		os.Stdout = null
	}
	b, err := io.ReadAll(os.Stdin)
	if err != nil {
		os.Exit(3)
	}
	var in probeInput
	if json.Unmarshal(b, &in) != nil {
		os.Exit(3)
	}
	func() {
		defer func() { recover() }() // a panic is not fatal: the parent observes it in-process
		if in.Mode == "parse" {
			hms.Parse(in.Mods["main"], "main")
		} else {
			Analyze(in.Mods, false)
		}
	}()
	os.Exit(0)
}

type guardVerdict struct {
	Fatal  bool
	Class  string
	Detail string
}

var reHelperFrame = regexp.MustCompile(`^(lexer\.|errors\.|lexer/|parser\.\(\*Parser\)\.(next|expect|expectRecoverable|expectMultiple|expectMultipleInternal|expectedOneOfErr|nonCriticalErr)$)`)

// culpritFunc names the repository function a runaway child was executing: the innermost
// frame of the first goroutine of the dump that is not a leaf helper (token fetching, error
// construction), so that the same loop is always named the same way.
func culpritFunc(dump string) string {
	lines := strings.Split(dump, "\n")
	first := ""
	inG := false
	for i := 0; i+1 < len(lines); i++ {
		if strings.HasPrefix(lines[i], "goroutine ") {
			if first != "" {
				break
			}
			inG = true
			continue
		}
		if !inG || !strings.Contains(lines[i+1], "/repo/") || strings.Contains(lines[i+1], "/vsched/") {
			continue
		}
		fn := strings.TrimSpace(lines[i])
		if p := strings.LastIndex(fn, "("); p > 0 {
			fn = fn[:p]
		}
		fn = strings.TrimPrefix(fn, "github.com/smarthome-go/homescript/v3/homescript/")
		if first == "" {
			first = fn
		}
		if !reHelperFrame.MatchString(fn) {
			return fn
		}
	}
	return first
}

// guardRun executes the front end on mods in a child process. A child that is killed by the
// timeout without having been seen inside repository code (it may not have been scheduled
// yet on a loaded machine) proves nothing: the probe is repeated with five times the timeout.
func guardRun(mode string, mods map[string]string, timeout time.Duration) guardVerdict {
	v, inRepo := guardRunOnce(mode, mods, timeout)
	for try := 0; v.Fatal && !inRepo && try < 2; try++ {
		v, inRepo = guardRunOnce(mode, mods, 5*timeout)
	}
	return v
}

func guardRunOnce(mode string, mods map[string]string, timeout time.Duration) (guardVerdict, bool) {
	exe, err := os.Executable()
	if err != nil {
		return guardVerdict{}, false
	}
	in, _ := json.Marshal(probeInput{Mode: mode, Mods: mods})
	cmd := exec.Command("/bin/sh", "-c", fmt.Sprintf("ulimit -v %d; exec \"$0\"", probeMemKiB), exe)
	cmd.Env = append(os.Environ(), probeEnv+"=1", "GOTRACEBACK=crash")
	cmd.Stdin = bytes.NewReader(in)
	var stderr bytes.Buffer
	cmd.Stderr = &stderr
	if err := cmd.Start(); err != nil {
		return guardVerdict{}, false
	}
	done := make(chan error, 1)
	go func() { done <- cmd.Wait() }()
	timedOut := false
	var werr error
	select {
	case werr = <-done:
	case <-time.After(timeout):
		timedOut = true
		cmd.Process.Signal(syscall.SIGQUIT) // makes the Go runtime dump the goroutine stacks
		select {
		case werr = <-done:
		case <-time.After(3 * time.Second):
			cmd.Process.Kill()
			werr = <-done
		}
	}
	if werr == nil && !timedOut {
		return guardVerdict{}, false
	}
	dump := stderr.String()
	reason := "died"
	switch {
	case timedOut:
		reason = fmt.Sprintf("no-return-within-%s", timeout)
	case strings.Contains(dump, "goroutine stack exceeds") || strings.Contains(dump, "stack overflow"):
		reason = "stack-exhausted"
	case strings.Contains(dump, "out of memory") || strings.Contains(dump, "cannot allocate memory"):
		reason = "memory-exhausted"
	}
	site := vsched.RepoFrames(dump)
	fn := culpritFunc(dump)
	head := dump
	if len(head) > 600 {
		head = head[:600]
	}
	return guardVerdict{
		Fatal: true,
		Class: "FATAL:" + reason + ":" + fn,
		Detail: fmt.Sprintf("NOT run in-process: the input was first run in a child process (address space %d KiB, max stack %d MiB, timeout %s) because it matches the pattern of a known fatal defect; the child did not return: %s at %s\n%s",
			probeMemKiB, probeMaxStack>>20, timeout, reason, site, head),
	}, fn != ""
}

// feSuspiciousText over-approximates the inputs of the importIdent loop: the lexer reports an
// error somewhere behind a `from` token (the parser ignores lexer errors while reading the
// module path and spins on the same token forever).
func feSuspiciousText(src string) bool {
	if !strings.Contains(src, "from") {
		return false
	}
	real := realLex(src, feFile)
	if real.Err == "" && real.Panic == "" {
		return false
	}
	for _, t := range real.Toks {
		if t.Kind == "from" {
			return true
		}
	}
	return false
}

var reImportFrom = regexp.MustCompile(`from\s+([A-Za-z_][A-Za-z0-9_]*)`)

// feSuspiciousGraph over-approximates the inputs of the import-graph recursion: the module
// texts mention each other in a way that closes a cycle.
func feSuspiciousGraph(mods map[string]string) bool {
	edges := map[string][]string{}
	for name, text := range mods {
		for _, m := range reImportFrom.FindAllStringSubmatch(text, -1) {
			edges[name] = append(edges[name], m[1])
		}
	}
	state := map[string]int{}
	var dfs func(n string) bool
	dfs = func(n string) bool {
		state[n] = 1
		for _, m := range edges[n] {
			if _, ok := mods[m]; !ok {
				continue
			}
			if state[m] == 1 || (state[m] == 0 && dfs(m)) {
				return true
			}
		}
		state[n] = 2
		return false
	}
	for n := range mods {
		if state[n] == 0 && dfs(n) {
			return true
		}
	}
	return false
}

// guardMods runs the probe if any module text or the module graph is suspicious.
func guardMods(mode string, mods map[string]string) guardVerdict {
	sus := feSuspiciousGraph(mods)
	for _, t := range mods {
		if sus {
			break
		}
		sus = feSuspiciousText(t)
	}
	if !sus {
		return guardVerdict{}
	}
	return guardRun(mode, mods, probeTimeout)
}
