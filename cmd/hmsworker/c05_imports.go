package main

import (
	"fmt"
	"strings"
)

// C05, imports and their uses: every import kind (function, type, trigger, template) x a name
// that exists with that kind / exists with another kind / does not exist x a host module, a
// user module or a missing module, followed by every syntactic use of the imported name (call,
// type annotation, trigger statement, trigger annotation, impl block, value). A failed import
// must leave the analyzer in a state in which every later use is diagnosed, never a crash.

var c05ImpKinds = []string{"", "type ", "trigger ", "templ "}
var c05ImpNames = []string{"minute", "FooFeature", "f", "T", "nope"}
var c05ImpMods = []string{"triggers", "templates", "lib", "nomod"}
var c05ImpUses = []struct{ name, text string }{
	{"none", ""},
	{"call", "fn use1() { X(1); }\n"},
	{"value", "fn use2() { let v = X; }\n"},
	{"type-annotation", "fn use3() { let v: X = 1; }\n"},
	{"trigger-statement", "event fn cb(e: int) { }\nfn use4() { trigger cb at X(1); }\n"},
	{"trigger-annotation", "#[trigger in X(1)]\nevent fn cb2(e: int) { }\n"},
	{"impl-block", "$D = { n: int };\nimpl X with { light } for $D {\n}\n"},
	{"second-import-of-the-name", "import X from lib;\n"},
}

func c05ImportCount() int {
	return len(c05ImpKinds) * len(c05ImpNames) * len(c05ImpMods) * len(c05ImpUses)
}

func c05ImportRun(idx int, r *Result) {
	d := radix(idx, len(c05ImpUses), len(c05ImpMods), len(c05ImpNames), len(c05ImpKinds))
	use, mod, name, kind := c05ImpUses[d[0]], c05ImpMods[d[1]], c05ImpNames[d[2]], c05ImpKinds[d[3]]
	var b strings.Builder
	if kind == "" {
		fmt.Fprintf(&b, "import %s from %s;\n", name, mod)
	} else {
		fmt.Fprintf(&b, "import { %s%s } from %s;\n", kind, name, mod)
	}
	text1 := b.String() + strings.ReplaceAll(use.text, "X", name) + "fn main() { }\n"
	// the same with the single-item spelling `import trigger t from m;`
	text2 := fmt.Sprintf("import %s%s from %s;\n", kind, name, mod) + strings.ReplaceAll(use.text, "X", name) + "fn main() { }\n"
	lib := "pub fn f(a: int) -> int { a }\npub type T = { a: int };\npub fn minute(a: int) -> int { a }\nfn main() { }\n"
	tags := []string{"family:imports-and-uses", "kind:" + strings.TrimSpace(kind+"function")[:4], "name:" + name, "module:" + mod, "use:" + use.name}
	for _, text := range []string{text1, text2} {
		c05Both(text, 0, map[string]string{"lib": lib}, tags, false, r)
	}
}
