//go:build sched

package main

import (
	"github.com/smarthome-go/homescript/v3/homescript/runtime"
	"github.com/smarthome-go/homescript/v3/homescript/vsched"
)

// controlled: VM runs execute under the cooperative scheduler of the vsched shim.
const controlled = true

func coresLockState(vm *runtime.VM) string { return vm.Cores.Lock.LockState() }

// newHostLock: a lock of the modelled host; taking it is a scheduling point.
func newHostLock() interface {
	Lock()
	Unlock()
} {
	return &vsched.Mutex{}
}
