//go:build sched

package main

import "github.com/smarthome-go/homescript/v3/homescript/runtime"

// controlled: VM runs execute under the cooperative scheduler of the vsched shim.
const controlled = true

func coresLockState(vm *runtime.VM) string { return vm.Cores.Lock.LockState() }
