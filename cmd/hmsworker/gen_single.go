package main

import (
	"hmsverif/internal/hs"
)

// S9: singletons (declared x extracted by parameters x read/written in callee and caller) and
// trigger statements (arguments incl. expressions, inside control flow, in callees).

var singleVariants = []string{
	"read-direct", "write-direct", "read-in-callee", "write-in-callee", "extract-with-args-1", "extract-with-args-2",
	"extract-middle-param", "two-singletons", "nested-extraction", "callee-write-caller-read", "list-field-push", "loop-of-calls",
	"extract-in-recursion", "singleton-of-list-type", "singleton-of-int-type",
	"impl-method", "impl-method-with-early-return", "impl-method-called-by-a-function-and-a-closure", "impl-two-blocks-for-two-singletons", "impl-method-and-plain-extraction",
}

func singleCount() int { return len(singleVariants) * 2 }

func singleGen(idx int) (progCase, bool) {
	hostProvided := idx%2 == 1
	v := singleVariants[idx/2]
	sT := hs.TObj(hs.Field{Name: "n", T: hs.TInt}, hs.Field{Name: "s", T: hs.TStr}, hs.Field{Name: "l", T: hs.TList(hs.TInt)})
	prog := &hs.Program{Singletons: []hs.SingletonDecl{{Name: "S", T: sT}}}
	self := hs.Param{Name: "self", Single: "S"}
	sn := func() hs.Expr { return hs.Mem(&hs.Single{Name: "S"}, "n") }
	var body []hs.Stmt
	add := func(fs ...*hs.Func) { prog.Funcs = append(prog.Funcs, fs...) }
	switch v {
	case "read-direct":
		body = []hs.Stmt{hs.Println(sn(), hs.Mem(&hs.Single{Name: "S"}, "s"), hs.Mem(&hs.Single{Name: "S"}, "l"))}
	case "write-direct":
		body = []hs.Stmt{hs.ES(hs.Asg("=", sn(), hs.I(5))), hs.ES(hs.Asg("+=", sn(), hs.I(2))), hs.ES(hs.Asg("=", hs.Mem(&hs.Single{Name: "S"}, "s"), hs.S("x"))), hs.Println(sn(), hs.Mem(&hs.Single{Name: "S"}, "s"))}
	case "read-in-callee":
		add(hs.Fn("get", hs.TInt, hs.Blk(hs.Mem(hs.V("self"), "n")), self))
		body = []hs.Stmt{hs.Println(hs.CallN("get")), hs.ES(hs.Asg("=", sn(), hs.I(9))), hs.Println(hs.CallN("get"))}
	case "write-in-callee":
		add(hs.Fn("set", nil, hs.Blk(nil, hs.ES(hs.Asg("=", hs.Mem(hs.V("self"), "n"), hs.I(7)))), self))
		body = []hs.Stmt{hs.ES(hs.CallN("set")), hs.Println(sn())}
	case "extract-with-args-1":
		add(hs.Fn("bump", hs.TInt, hs.Blk(hs.Mem(hs.V("self"), "n"), hs.ES(hs.Asg("+=", hs.Mem(hs.V("self"), "n"), hs.V("by")))), self, hs.P("by", hs.TInt)))
		body = []hs.Stmt{hs.Println(hs.CallN("bump", hs.I(2))), hs.Println(hs.CallN("bump", hs.I(3))), hs.Println(sn())}
	case "extract-with-args-2":
		add(hs.Fn("mix", hs.TInt, hs.Blk(hs.Bin("+", hs.Bin("-", hs.Bin("*", hs.V("a"), hs.I(100)), hs.V("b")), hs.Mem(hs.V("self"), "n")), hs.Println(hs.S("mix"), hs.V("a"), hs.V("b"))), self, hs.P("a", hs.TInt), hs.P("b", hs.TInt)))
		body = []hs.Stmt{hs.ES(hs.Asg("=", sn(), hs.I(1000))), hs.Println(hs.CallN("mix", hs.I(3), hs.I(4)))}
	case "extract-middle-param":
		add(hs.Fn("mid", hs.TInt, hs.Blk(hs.Bin("+", hs.Bin("-", hs.Bin("*", hs.V("a"), hs.I(100)), hs.V("b")), hs.Mem(hs.V("self"), "n")), hs.Println(hs.S("mid"), hs.V("a"), hs.V("b"))), hs.P("a", hs.TInt), self, hs.P("b", hs.TInt)))
		body = []hs.Stmt{hs.ES(hs.Asg("=", sn(), hs.I(1000))), hs.Println(hs.CallN("mid", hs.I(3), hs.I(4)))}
	case "two-singletons":
		prog.Singletons = append(prog.Singletons, hs.SingletonDecl{Name: "T", T: hs.TObj(hs.Field{Name: "n", T: hs.TInt})})
		add(hs.Fn("both", hs.TInt, hs.Blk(hs.Bin("+", hs.Bin("*", hs.Mem(hs.V("s"), "n"), hs.I(10)), hs.Mem(hs.V("t"), "n"))), hs.Param{Name: "s", Single: "S"}, hs.Param{Name: "t", Single: "T"}))
		body = []hs.Stmt{hs.ES(hs.Asg("=", sn(), hs.I(4))), hs.ES(hs.Asg("=", hs.Mem(&hs.Single{Name: "T"}, "n"), hs.I(2))), hs.Println(hs.CallN("both"))}
	case "nested-extraction":
		add(hs.Fn("inner", hs.TInt, hs.Blk(hs.Mem(hs.V("self"), "n"), hs.ES(hs.Asg("+=", hs.Mem(hs.V("self"), "n"), hs.I(1)))), self))
		add(hs.Fn("outer", hs.TInt, hs.Blk(hs.Bin("+", hs.CallN("inner"), hs.Bin("*", hs.Mem(hs.V("self"), "n"), hs.I(100)))), self))
		body = []hs.Stmt{hs.Println(hs.CallN("outer")), hs.Println(hs.CallN("outer"))}
	case "callee-write-caller-read":
		add(hs.Fn("set", nil, hs.Blk(nil, hs.ES(hs.Asg("=", hs.Mem(hs.V("self"), "s"), hs.V("v")))), self, hs.P("v", hs.TStr)))
		body = []hs.Stmt{hs.ES(hs.CallN("set", hs.S("a"))), hs.Println(hs.Mem(&hs.Single{Name: "S"}, "s")), hs.ES(hs.CallN("set", hs.S("b"))), hs.Println(hs.Mem(&hs.Single{Name: "S"}, "s"))}
	case "list-field-push":
		add(hs.Fn("push", hs.TInt, hs.Blk(hs.MCall(hs.Mem(hs.V("self"), "l"), "len"), hs.ES(hs.MCall(hs.Mem(hs.V("self"), "l"), "push", hs.V("v")))), self, hs.P("v", hs.TInt)))
		body = []hs.Stmt{hs.Println(hs.CallN("push", hs.I(1))), hs.Println(hs.CallN("push", hs.I(2))), hs.Println(hs.Mem(&hs.Single{Name: "S"}, "l"))}
	case "loop-of-calls":
		add(hs.Fn("bump", hs.TInt, hs.Blk(hs.Mem(hs.V("self"), "n"), hs.ES(hs.Asg("+=", hs.Mem(hs.V("self"), "n"), hs.V("by")))), self, hs.P("by", hs.TInt)))
		body = []hs.Stmt{&hs.For{Var: "i", Iter: &hs.RangeLit{From: hs.I(0), To: hs.I(30)}, Body: hs.Blk(nil, hs.ES(hs.CallN("bump", hs.V("i"))))}, hs.Println(sn())}
	case "extract-in-recursion":
		add(hs.Fn("rec", hs.TInt, hs.Blk(&hs.If{Cond: hs.Bin("==", hs.V("k"), hs.I(0)), Then: hs.Blk(hs.Mem(hs.V("self"), "n")), Else: hs.Blk(hs.CallN("rec", hs.Bin("-", hs.V("k"), hs.I(1))), hs.ES(hs.Asg("+=", hs.Mem(hs.V("self"), "n"), hs.V("k"))))}), self, hs.P("k", hs.TInt)))
		body = []hs.Stmt{hs.Println(hs.CallN("rec", hs.I(4))), hs.Println(sn())}
	case "singleton-of-list-type":
		prog.Singletons = []hs.SingletonDecl{{Name: "S", T: hs.TList(hs.TInt)}}
		add(hs.Fn("add", nil, hs.Blk(nil, hs.ES(hs.MCall(hs.V("self"), "push", hs.V("v")))), self, hs.P("v", hs.TInt)))
		body = []hs.Stmt{hs.ES(hs.CallN("add", hs.I(1))), hs.ES(hs.CallN("add", hs.I(2))), hs.Println(&hs.Single{Name: "S"})}
	case "impl-method", "impl-method-with-early-return", "impl-method-called-by-a-function-and-a-closure", "impl-two-blocks-for-two-singletons", "impl-method-and-plain-extraction":
		// the methods of an impl block are functions that extract their singleton
		prog.Imports = append(prog.Imports, hs.Import{Names: []string{"templ FooFeature"}, From: "templates"})
		dimBody := hs.Blk(hs.B(true), hs.Println(hs.S("dim"), hs.V("percent"), hs.Mem(hs.V("self"), "n")), hs.ES(hs.Asg("=", hs.Mem(hs.V("self"), "n"), hs.V("percent"))))
		if v != "impl-method" {
			dimBody = hs.Blk(hs.B(true),
				hs.ES(&hs.If{Cond: hs.Bin("==", hs.Mem(hs.V("self"), "n"), hs.V("percent")), Then: hs.Blk(nil, &hs.Return{X: hs.B(false)})}),
				hs.ES(hs.Asg("=", hs.Mem(hs.V("self"), "n"), hs.V("percent"))))
		}
		dim := &hs.Func{Name: "dim", Params: []hs.Param{self, hs.P("percent", hs.TInt)}, Ret: hs.TBool, Body: dimBody}
		prog.Impls = append(prog.Impls, &hs.ImplBlock{Template: "FooFeature", Caps: []string{"light"}, Singleton: "S", Methods: []*hs.Func{dim}})
		body = []hs.Stmt{hs.Println(hs.CallN("dim", hs.I(40))), hs.Println(hs.CallN("dim", hs.I(40))), hs.Println(sn())}
		switch v {
		case "impl-method-called-by-a-function-and-a-closure":
			add(hs.Fn("twice", hs.TInt, hs.Blk(hs.Mem(hs.V("s"), "n"), hs.ES(hs.CallN("dim", hs.V("to"))), hs.ES(hs.CallN("dim", hs.Bin("+", hs.V("to"), hs.I(1))))), hs.P("to", hs.TInt), hs.Param{Name: "s", Single: "S"}))
			body = append(body, hs.Println(hs.CallN("twice", hs.I(7))), hs.LetS("c", &hs.FnLit{Params: []hs.Field{{Name: "p", T: hs.TInt}}, Ret: hs.TBool, Body: hs.Blk(hs.CallN("dim", hs.V("p")))}), hs.Println(hs.CallN("c", hs.I(8)), hs.CallN("c", hs.I(9))), hs.Println(sn()))
		case "impl-two-blocks-for-two-singletons":
			prog.Singletons = append(prog.Singletons, hs.SingletonDecl{Name: "T", T: hs.TObj(hs.Field{Name: "deg", T: hs.TFloat})})
			setTemp := &hs.Func{Name: "set_temp", Params: []hs.Param{{Name: "t", Single: "T"}, hs.P("celsius", hs.TFloat)}, Body: hs.Blk(nil, hs.ES(hs.Asg("=", hs.Mem(hs.V("t"), "deg"), hs.V("celsius"))))}
			prog.Impls = append(prog.Impls, &hs.ImplBlock{Template: "FooFeature", Caps: []string{"temperature"}, Singleton: "T", Methods: []*hs.Func{setTemp}})
			body = append(body, hs.ES(hs.CallN("set_temp", hs.F(21.5))), hs.Println(hs.Mem(&hs.Single{Name: "T"}, "deg"), sn()))
		case "impl-method-and-plain-extraction":
			add(hs.Fn("peek", hs.TInt, hs.Blk(hs.Mem(hs.V("d"), "n")), hs.Param{Name: "d", Single: "S"}))
			body = append(body, hs.Println(hs.CallN("peek")), hs.ES(hs.Asg("+=", sn(), hs.I(1))), hs.Println(hs.CallN("dim", hs.I(41)), hs.CallN("peek")))
		}
	case "singleton-of-int-type":
		prog.Singletons = []hs.SingletonDecl{{Name: "S", T: hs.TInt}}
		add(hs.Fn("get", hs.TInt, hs.Blk(hs.V("self")), self))
		body = []hs.Stmt{hs.Println(hs.CallN("get"), &hs.Single{Name: "S"})}
	}
	body = append(body, hs.Println(hs.S("end")))
	add(hs.Fn("main", nil, hs.Blk(nil, body...)))
	pc := mkCase(prog, "singleton:"+v)
	if hostProvided {
		// the host provides a saved instance of every declared singleton
		pc.Tags = append(pc.Tags, "host-provided")
		pc.HostSingletons = map[string]hs.Val{}
		for _, sd := range prog.Singletons {
			switch sd.T.K {
			case hs.KObj:
				if len(sd.T.Fields) == 3 {
					pc.HostSingletons[sd.Name] = &hs.ObjV{Keys: []string{"n", "s", "l"}, F: map[string]hs.Val{"n": int64(40), "s": "host", "l": &hs.ListV{Elems: []hs.Val{int64(8), int64(9)}}}}
				} else {
					pc.HostSingletons[sd.Name] = &hs.ObjV{Keys: []string{"n"}, F: map[string]hs.Val{"n": int64(7)}}
				}
			case hs.KList:
				pc.HostSingletons[sd.Name] = &hs.ListV{Elems: []hs.Val{int64(5)}}
			case hs.KInt:
				pc.HostSingletons[sd.Name] = int64(33)
			}
		}
	}
	return pc, true
}

var triggerVariants = []string{"import-only", "annotated-callback", "literal", "expression", "call-arg", "two-triggers", "in-loop", "in-if-not-taken", "in-callee", "after-output", "in-try", "same-callback-twice"}

func triggerGen(idx int) (progCase, bool) {
	v := triggerVariants[idx]
	prog := &hs.Program{
		Imports: []hs.Import{{Names: []string{"trigger minute"}, From: "triggers"}},
		Globals: []*hs.Let{{Name: "x", X: hs.I(4)}},
	}
	cb := func(n string) *hs.Func {
		f := hs.Fn(n, nil, hs.Blk(nil, hs.Println(hs.S(n))), hs.P("elapsed", hs.TInt))
		f.Event = true
		return f
	}
	prog.Funcs = append(prog.Funcs, cb("cb"))
	trig := func(cbn string, a hs.Expr) hs.Stmt {
		return &hs.Trigger{Callback: cbn, Kind: "at", Event: "minute", Args: []hs.Expr{a}}
	}
	var body []hs.Stmt
	stmt := true // a trigger statement is executed
	switch v {
	case "import-only":
		// a trigger is imported (no value comes with it) and never used
		stmt = false
		body = []hs.Stmt{hs.Println(hs.S("nothing registered"), hs.V("x"))}
	case "annotated-callback":
		// the registration is declared on the function; main registers nothing itself
		stmt = false
		prog.RawItems = append(prog.RawItems, "#[trigger in minute(x * 2)]\nevent fn ann(elapsed: int) {\n    println(\"ann\");\n}\n")
		body = []hs.Stmt{hs.Println(hs.S("declared"), hs.V("x"))}
	case "literal":
		body = []hs.Stmt{trig("cb", hs.I(5))}
	case "expression":
		body = []hs.Stmt{hs.LetS("y", hs.I(3)), trig("cb", hs.Bin("+", hs.Bin("*", hs.V("x"), hs.I(10)), hs.V("y")))}
	case "call-arg":
		prog.Funcs = append(prog.Funcs, hs.Fn("k", hs.TInt, hs.Blk(hs.Bin("+", hs.V("a"), hs.I(1)), hs.Println(hs.S("k"), hs.V("a"))), hs.P("a", hs.TInt)))
		body = []hs.Stmt{trig("cb", hs.CallN("k", hs.I(6)))}
	case "two-triggers":
		prog.Funcs = append(prog.Funcs, cb("cb2"))
		body = []hs.Stmt{trig("cb", hs.I(1)), trig("cb2", hs.I(2))}
	case "in-loop":
		body = []hs.Stmt{&hs.For{Var: "i", Iter: &hs.RangeLit{From: hs.I(0), To: hs.I(3)}, Body: hs.Blk(nil, trig("cb", hs.Bin("*", hs.V("i"), hs.I(2))))}}
	case "in-if-not-taken":
		body = []hs.Stmt{hs.ES(&hs.If{Cond: hs.Bin(">", hs.V("x"), hs.I(100)), Then: hs.Blk(nil, trig("cb", hs.I(1))), Else: hs.Blk(nil, trig("cb", hs.I(2)))})}
	case "in-callee":
		prog.Funcs = append(prog.Funcs, hs.Fn("reg", nil, hs.Blk(nil, trig("cb", hs.V("m"))), hs.P("m", hs.TInt)))
		body = []hs.Stmt{hs.ES(hs.CallN("reg", hs.I(7))), hs.ES(hs.CallN("reg", hs.I(8)))}
	case "after-output":
		body = []hs.Stmt{hs.Println(hs.S("before")), trig("cb", hs.I(1)), hs.Println(hs.S("after"))}
	case "in-try":
		body = []hs.Stmt{hs.ES(&hs.Try{Body: hs.Blk(nil, trig("cb", hs.I(1)), hs.ES(hs.CallN("throw", hs.S("t"))), trig("cb", hs.I(2))), Var: "e", Catch: hs.Blk(nil, trig("cb", hs.I(3)))})}
	case "same-callback-twice":
		body = []hs.Stmt{trig("cb", hs.I(1)), trig("cb", hs.I(1))}
	}
	body = append(body, hs.LetS("z", hs.I(1)), hs.Println(hs.S("end"), hs.V("z")))
	prog.Funcs = append(prog.Funcs, hs.Fn("main", nil, hs.Blk(nil, body...)))
	if !stmt {
		return mkCase(prog, "trigger:"+v), true
	}
	// (the interpreter has no way to register a trigger: it ends such programs with a HostError)
	return mkCase(prog, "trigger:"+v, "trigger-statement"), true
}

func init() {
	semanticFamilies = append(semanticFamilies,
		progFamily{Name: "S9-singletons", Count: func(string) int { return singleCount() }, Gen: func(_ string, idx int) (progCase, bool) { return singleGen(idx) }},
		progFamily{Name: "S9-triggers", Count: func(string) int { return len(triggerVariants) }, Gen: func(_ string, idx int) (progCase, bool) { return triggerGen(idx) }},
	)
}
