package main

import (
	"fmt"
	"strings"

	"github.com/smarthome-go/homescript/v3/homescript/runtime"

	"hmsverif/internal/hs"
)

// C09: configured resource limits are enforced as interrupts.
//
// Programs P(d, e, v, shape): recursion depth d, expression nesting e, v locals per frame, run
// n times in a loop, under a lattice of limit triples. The oracle is differential: never a
// host panic; outcome is completion with the reference output or the fatal interrupt that
// corresponds to the small limit; monotone in every limit; the number of loop iterations
// does not matter; programs needing clearly more than a limit are stopped.

var (
	c09Depths = []int{0, 1, 2, 3, 5, 8, 12}
	c09Nest   = []int{1, 2, 4, 8, 12, 70}
	c09Locals = []int{0, 1, 3, 8}
	c09Shapes = []string{"plain", "call-in-try", "early-return-in-loop", "break-in-loop", "throw-caught-per-iteration", "throw-with-pending-operands", "recursion-through-function-value", "recursion-through-closure-in-list",
		"throw-in-builtin-argument", "throw-in-method-argument", "throw-in-function-argument",
		"match-without-default-that-matches-nothing", "if-without-else-not-taken-and-discarded-values",
		"recursion-below-casts"}

	c09CallLims  = []uint{1, 2, 3, 4, 6, 8, 12, 16, 100}
	c09StackLims = []uint{1, 2, 4, 8, 16, 64, 500}
	c09MemLims   = []uint{1, 2, 4, 8, 16, 64, 4000}
)

func c09Count() int { return len(c09Depths) * len(c09Nest) * len(c09Locals) * len(c09Shapes) }

func c09Program(d, e, v int, shape string, n int) *hs.Program {
	var recBody []hs.Stmt
	for i := 0; i < v; i++ {
		recBody = append(recBody, hs.LetS(fmt.Sprintf("a%d", i), hs.Bin("+", hs.V("k"), hs.I(int64(i)))))
	}
	// right-nested expression of depth e: 1 + (1 + (... + k))
	var expr hs.Expr = hs.V("k")
	if v > 0 {
		expr = hs.V("a0")
	}
	for i := 0; i < e; i++ {
		expr = hs.Bin("+", hs.I(1), expr)
	}
	recBody = append(recBody, hs.ES(&hs.If{Cond: hs.Bin("==", hs.V("k"), hs.I(0)), Then: hs.Blk(nil, &hs.Return{X: expr})}))
	recCall := hs.CallN("rec", hs.Bin("-", hs.V("k"), hs.I(1)))
	switch shape {
	case "recursion-through-function-value":
		// every call on the recursive cycle goes through a local holding the function
		recBody = append(recBody, hs.LetS("fv", hs.V("rec")))
		recCall = hs.CallN("fv", hs.Bin("-", hs.V("k"), hs.I(1)))
	case "recursion-through-closure-in-list":
		recBody = append(recBody, hs.LetS("fl", hs.List(hs.V("rec"))))
		recCall = hs.CallE(hs.Idx(hs.V("fl"), hs.I(0)), hs.Bin("-", hs.V("k"), hs.I(1)))
	}
	rec := hs.Fn("rec", hs.TInt, hs.Blk(hs.Bin("+", recCall, hs.I(1)), recBody...), hs.P("k", hs.TInt))
	call := hs.ES(hs.Asg("+=", hs.V("total"), hs.CallN("rec", hs.I(int64(d)))))
	var loopBody []hs.Stmt
	funcs := []*hs.Func{rec}
	switch shape {
	case "recursion-below-casts":
		// the limit is exceeded below the operand of a cast (at the call site and on the recursive
		// cycle): the interrupt that comes up through the cast is still the one of the limit
		rec.Body.Tail = hs.Bin("+", &hs.Group{X: &hs.Cast{X: &hs.Group{X: &hs.Cast{X: recCall, T: hs.TFloat}}, T: hs.TInt}}, hs.I(1))
		loopBody = []hs.Stmt{hs.ES(hs.Asg("+=", hs.V("total"), &hs.Cast{X: &hs.Group{X: &hs.Cast{X: hs.CallN("rec", hs.I(int64(d))), T: hs.TFloat}}, T: hs.TInt}))}
	case "plain", "recursion-through-function-value", "recursion-through-closure-in-list":
		loopBody = []hs.Stmt{call}
	case "call-in-try":
		loopBody = []hs.Stmt{hs.ES(&hs.Try{Body: hs.Blk(nil, call), Var: "e", Catch: hs.Blk(nil, hs.Println(hs.S("caught")))})}
	case "early-return-in-loop":
		funcs = append(funcs, hs.Fn("once", hs.TInt, hs.Blk(hs.I(-1), &hs.For{Var: "j", Iter: &hs.RangeLit{From: hs.I(0), To: hs.I(3)}, Body: hs.Blk(nil, hs.LetS("t", hs.CallN("rec", hs.I(int64(d)))), &hs.Return{X: hs.V("t")})})))
		loopBody = []hs.Stmt{hs.ES(hs.Asg("+=", hs.V("total"), hs.CallN("once")))}
	case "break-in-loop":
		loopBody = []hs.Stmt{&hs.Loop{Body: hs.Blk(nil, call, &hs.Break{})}}
	case "throw-caught-per-iteration":
		funcs = append(funcs, hs.Fn("thrower", nil, hs.Blk(nil, hs.LetS("pad", hs.I(1)), hs.ES(hs.CallN("throw", hs.S("x"))))))
		loopBody = []hs.Stmt{call, hs.ES(&hs.Try{Body: hs.Blk(nil, hs.ES(hs.CallN("thrower"))), Var: "e", Catch: hs.Blk(nil)})}
	case "throw-in-builtin-argument", "throw-in-method-argument", "throw-in-function-argument":
		// the exception is raised while the ARGUMENTS of a call are evaluated: the callee (a host
		// builtin, a member of a list, a script function) is never entered
		funcs = append(funcs, hs.Fn("thrower", hs.TInt, hs.Blk(hs.I(1), hs.LetS("pad", hs.I(1)), hs.ES(hs.CallN("throw", hs.S("x"))))),
			hs.Fn("id", hs.TInt, hs.Blk(hs.V("q")), hs.P("q", hs.TInt)))
		var inner hs.Stmt
		switch shape {
		case "throw-in-builtin-argument":
			inner = hs.Println(hs.S("never"), hs.CallN("thrower"))
		case "throw-in-method-argument":
			inner = hs.ES(hs.MCall(hs.V("sink"), "push", hs.CallN("thrower")))
		default:
			inner = hs.ES(hs.CallN("id", hs.CallN("id", hs.CallN("thrower"))))
		}
		loopBody = []hs.Stmt{call, hs.LetS("sink", hs.List(hs.I(0))), hs.ES(&hs.Try{Body: hs.Blk(nil, inner), Var: "e", Catch: hs.Blk(nil)})}
	case "match-without-default-that-matches-nothing":
		// per iteration one match whose control value matches no arm, one whose arm matches
		loopBody = []hs.Stmt{call,
			hs.ES(&hs.Match{X: hs.Bin("+", hs.V("i"), hs.I(1000)), Arms: []hs.MatchArm{{Lits: []hs.Expr{hs.I(1)}, Body: &hs.BlockExpr{B: hs.Blk(nil, hs.Println(hs.S("never")))}}}}),
			hs.ES(&hs.Match{X: hs.I(1), Arms: []hs.MatchArm{{Lits: []hs.Expr{hs.I(1), hs.I(2)}, Body: &hs.BlockExpr{B: hs.Blk(nil)}}}})}
	case "if-without-else-not-taken-and-discarded-values":
		loopBody = []hs.Stmt{call,
			hs.ES(&hs.If{Cond: hs.Bin("<", hs.V("i"), hs.I(0)), Then: hs.Blk(nil, hs.Println(hs.S("never")))}),
			hs.ES(hs.Bin("+", hs.V("i"), hs.I(1))), hs.ES(hs.List(hs.V("i"))), hs.ES(&hs.BlockExpr{B: hs.Blk(hs.V("i"))})}
	case "throw-with-pending-operands":
		// the exception is raised and caught in the same function while operands of an enclosing
		// expression are pending on the operand stack
		thrown := &hs.If{Cond: hs.Bin(">=", hs.V("i"), hs.I(0)), Then: hs.Blk(hs.I(0), hs.ES(hs.CallN("throw", hs.S("x")))), Else: hs.Blk(hs.I(0))}
		loopBody = []hs.Stmt{call, hs.ES(&hs.Try{Body: hs.Blk(nil, hs.LetS("t", hs.Bin("+", hs.Bin("+", hs.I(1), hs.I(2)), hs.Bin("*", hs.I(3), thrown))), hs.Println(hs.V("t"))), Var: "e", Catch: hs.Blk(nil)})}
	}
	main := hs.Fn("main", nil, hs.Blk(nil,
		hs.LetS("total", hs.I(0)),
		&hs.For{Var: "i", Iter: &hs.RangeLit{From: hs.I(0), To: hs.I(int64(n))}, Body: hs.Blk(nil, loopBody...)},
		hs.Println(hs.V("total")),
	))
	return &hs.Program{Funcs: append(funcs, main)}
}

type limRun struct {
	lim runtime.CoreLimits
	n   int
	o   Obs
}

func limStr(l runtime.CoreLimits) string {
	return fmt.Sprintf("call=%d stack=%d mem=%d", l.CallStackMaxSize, l.StackMaxSize, l.MaxMemorySize)
}

func c09Run(tier string, idx int, r *Result) {
	dg := radix(idx, len(c09Shapes), len(c09Locals), len(c09Nest), len(c09Depths))
	shape, v, e, d := c09Shapes[dg[0]], c09Locals[dg[1]], c09Nest[dg[2]], c09Depths[dg[3]]
	ns := []int{1, 3, 40}
	if tier == "thorough" {
		ns = []int{1, 3, 40, 600}
	}
	tags := []string{"shape:" + shape, fmt.Sprintf("d:%d", d), fmt.Sprintf("e:%d", e), fmt.Sprintf("v:%d", v)}
	type compiled struct {
		a     Analyzed
		want  string
		pc    progCase
		depth int
	}
	progs := map[int]compiled{}
	for _, n := range ns {
		pc := mkCase(c09Program(d, e, v, shape, n))
		a := Analyze(map[string]string{"main": pc.P.Text}, true)
		if !a.Obs.Accepted() || a.Obs.Class == "HOST-PANIC" {
			r.Fail("HARNESS:program rejected", tags, pc.P.Text, a.Obs.String())
			return
		}
		ref := hs.Eval(pc.Prog, &pc.P, 5000000)
		if ref.Unspec != "" || ref.Class != "ok" {
			r.Fail("HARNESS:reference cannot evaluate", tags, pc.P.Text, ref.Unspec+" "+ref.Class)
			return
		}
		progs[n] = compiled{a: a, want: ref.Out, pc: pc, depth: ref.MaxDepth}
	}
	r.Sample(progs[3].pc.P.Text)
	generous := runtime.CoreLimits{CallStackMaxSize: 100, StackMaxSize: 500, MaxMemorySize: 4000}
	var triples []runtime.CoreLimits
	for _, c := range c09CallLims {
		triples = append(triples, runtime.CoreLimits{CallStackMaxSize: c, StackMaxSize: generous.StackMaxSize, MaxMemorySize: generous.MaxMemorySize})
	}
	for _, s := range c09StackLims {
		triples = append(triples, runtime.CoreLimits{CallStackMaxSize: generous.CallStackMaxSize, StackMaxSize: s, MaxMemorySize: generous.MaxMemorySize})
	}
	for _, m := range c09MemLims {
		triples = append(triples, runtime.CoreLimits{CallStackMaxSize: generous.CallStackMaxSize, StackMaxSize: generous.StackMaxSize, MaxMemorySize: m})
	}
	small := []uint{2, 4, 8, 32}
	if tier == "thorough" {
		small = []uint{1, 2, 3, 4, 8, 32}
	}
	for _, c := range small {
		for _, s := range small {
			for _, m := range small {
				triples = append(triples, runtime.CoreLimits{CallStackMaxSize: c, StackMaxSize: s, MaxMemorySize: m})
			}
		}
	}
	var runs []limRun
	okAt := map[string]map[int]bool{} // limits -> n -> completed
	for _, lim := range triples {
		for _, n := range ns {
			p := progs[n]
			opts := defaultOpts()
			opts.Limits = lim
			opts.PollBudget = 400000
			opts.Horizon = 40000000 // the step cap of the controlled run has to leave room for the long thorough programs
			o := RunVM(p.a, opts)
			r.Trans(1)
			r.Outcome("vm:" + o.Class + kindSuffix(o.Kind))
			r.Distinct(fmt.Sprintf("%s|%s|%s", o.Class, o.Kind, strings.Join(tags, ",")))
			runs = append(runs, limRun{lim, n, o})
			cas := fmt.Sprintf("%s// limits: %s, loop iterations: %d", p.pc.P.Text, limStr(lim), n)
			ltags := append(append([]string{}, tags...), limitTags(lim, generous)...)
			if cc := crashClass(o); cc != "" {
				r.Fail(cc, ltags, cas, o.String())
				continue
			}
			switch {
			case o.Class == "ok":
				if o.Out != p.want {
					r.Fail("OUTPUT:completed under limits with wrong output", ltags, cas, fmt.Sprintf("expected %q got %q", p.want, o.Out))
				} else if o.Residue != "" {
					r.Fail("RESIDUE:"+strings.SplitN(o.Residue, "=", 2)[0], ltags, cas, "residue at normal exit: "+o.Residue)
				}
				if okAt[limStr(lim)] == nil {
					okAt[limStr(lim)] = map[int]bool{}
				}
				okAt[limStr(lim)][n] = true
				// a program that needs clearly more than a limit must have been stopped
				if uint(p.depth) > lim.CallStackMaxSize+3 {
					r.Fail("NOT-STOPPED:call depth limit exceeded without interrupt", ltags, cas, fmt.Sprintf("reference call depth %d, limit %d", p.depth, lim.CallStackMaxSize))
				}
				if need := uint((d + 1) * (v + 1)); need > lim.MaxMemorySize+uint(v+1)+4 {
					r.Fail("NOT-STOPPED:memory limit exceeded without interrupt", ltags, cas, fmt.Sprintf("frames need at least %d slots, limit %d", need, lim.MaxMemorySize))
				}
				if e >= 70 && lim.StackMaxSize+55 < uint(e) {
					r.Fail("NOT-STOPPED:operand stack limit exceeded by more than one quantum without interrupt", ltags, cas, fmt.Sprintf("expression nesting %d, limit %d", e, lim.StackMaxSize))
				}
			case o.Class == "fatal" && (o.Kind == "StackOverflow" || o.Kind == "OutOfMemory"):
				// the kind must correspond to a limit that is actually small
				if lim.StackMaxSize == generous.StackMaxSize && lim.CallStackMaxSize == generous.CallStackMaxSize && o.Kind != "OutOfMemory" {
					r.Fail("WRONG-KIND:"+o.Kind+" although only the memory limit is small", ltags, cas, o.String())
				}
				if lim.MaxMemorySize == generous.MaxMemorySize && o.Kind != "StackOverflow" {
					r.Fail("WRONG-KIND:"+o.Kind+" although the memory limit is generous", ltags, cas, o.String())
				}
				if lim == generous {
					r.Fail("STOPPED-WITHIN-LIMITS:generous limits", ltags, cas, o.String())
				}
			default:
				r.Fail("OUTCOME:unexpected outcome under limits "+o.Class+kindSuffix(o.Kind), ltags, cas, o.String())
			}
		}
	}
	// A program whose call depth (reference) is within the call limit, with generous operand-stack
	// and memory limits, is never stopped - for any number of loop iterations. (Enforcement is
	// sampled once per 50-instruction quantum, so "completes with few iterations" says nothing
	// about needs; leaks across iterations are caught by the residue check at normal exit.)
	for _, ru := range runs {
		if ru.lim.StackMaxSize == generous.StackMaxSize && ru.lim.MaxMemorySize == generous.MaxMemorySize && uint(progs[ru.n].depth) <= ru.lim.CallStackMaxSize && ru.o.Class != "ok" && crashClass(ru.o) == "" {
			r.Fail("STOPPED-WITHIN-LIMITS:call depth within the limit", append(append([]string{}, tags...), fmt.Sprintf("n:%d", ru.n), "backend:vm"), fmt.Sprintf("%s// limits: %s, loop iterations: %d (reference call depth %d)", progs[ru.n].pc.P.Text, limStr(ru.lim), ru.n, progs[ru.n].depth), ru.o.String())
			break
		}
	}
	_ = okAt
	// monotonicity in every limit (for the same n)
	for _, a := range runs {
		if a.o.Class != "ok" {
			continue
		}
		for _, b := range runs {
			if b.n == a.n && b.lim.CallStackMaxSize >= a.lim.CallStackMaxSize && b.lim.StackMaxSize >= a.lim.StackMaxSize && b.lim.MaxMemorySize >= a.lim.MaxMemorySize && b.o.Class != "ok" && crashClass(b.o) == "" {
				r.Fail("NON-MONOTONE:completes under smaller limits but not under larger ones", tags, fmt.Sprintf("%s// completes under %s, stopped under %s (n=%d)", progs[a.n].pc.P.Text, limStr(a.lim), limStr(b.lim), a.n), b.o.String())
				return
			}
		}
	}
	// interpreter: call-depth limit only
	for _, cl := range []uint{0, 1, 2, 3, 4, 6, 8, 12, 16, 100} {
		for _, n := range ns {
			p := progs[n]
			opts := defaultOpts()
			opts.TreeLimit = cl
			opts.PollBudget = 400000
			opts.Horizon = 40000000 // the step cap of the controlled run has to leave room for the long thorough programs
			o := RunTree(p.a, opts)
			r.Trans(1)
			r.Outcome("tree:" + o.Class + kindSuffix(o.Kind))
			cas := fmt.Sprintf("%s// interpreter call limit: %d, loop iterations: %d", p.pc.P.Text, cl, n)
			ltags := append(append([]string{}, tags...), "backend:tree", fmt.Sprintf("treelimit:%d", cl))
			if cc := crashClass(o); cc != "" {
				r.Fail(cc, ltags, cas, o.String())
				continue
			}
			switch {
			case o.Class == "ok":
				if o.Out != p.want {
					r.Fail("OUTPUT:completed under limits with wrong output", ltags, cas, fmt.Sprintf("expected %q got %q", p.want, o.Out))
				}
				if uint(p.depth) > cl+2 {
					r.Fail("NOT-STOPPED:call depth limit exceeded without interrupt", ltags, cas, fmt.Sprintf("reference call depth %d, limit %d", p.depth, cl))
				}
			case o.Class == "fatal" && o.Kind == "StackOverflow":
				if cl >= 100 {
					r.Fail("STOPPED-WITHIN-LIMITS:generous limits", ltags, cas, o.String())
				}
				if uint(p.depth)+1 < cl {
					r.Fail("STOPPED-WITHIN-LIMITS:call depth below the limit", ltags, cas, fmt.Sprintf("reference call depth %d, limit %d: %s", p.depth, cl, o.String()))
				}
			default:
				r.Fail("OUTCOME:unexpected outcome under limits "+o.Class+kindSuffix(o.Kind), ltags, cas, o.String())
			}
		}
	}
}

func limitTags(l, generous runtime.CoreLimits) []string {
	var t []string
	if l.CallStackMaxSize < generous.CallStackMaxSize {
		t = append(t, "small:call")
	}
	if l.StackMaxSize < generous.StackMaxSize {
		t = append(t, "small:stack")
	}
	if l.MaxMemorySize < generous.MaxMemorySize {
		t = append(t, "small:mem")
	}
	t = append(t, "backend:vm")
	return t
}

func init() {
	register("C09", func() *Check {
		return &Check{ID: "C09", Scenarios: []Scenario{
			{Name: "limit-lattice", Count: func(string) int { return c09Count() }, Run: c09Run},
			schedScenario("limit-exceeded-by-a-spawned-thread", c09SpawnedCases()),
			{Name: "wide-frames-under-large-limits", Count: func(string) int { return c09WideCount() }, Run: func(_ string, idx int, r *Result) { c09WideRun(idx, r) }},
		}}
	})
}
