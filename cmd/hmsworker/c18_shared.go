package main

import (
	"fmt"
	"strings"
)

// C18, results that are derived from their receiver (a reversed range, the keys of an object,
// the parts of a string, a concatenation) are values of their own: writing to the result - a
// bound of the range, an element of the list - leaves the receiver as it was, and writing to the
// receiver afterwards leaves the result as it was. Hand-written histories, both backends.

var c18SharedProgs = []struct{ name, body, want string }{
	{"range-rev-then-bounds-of-the-result-assigned", "let r = 1..5;\n    let q = r.rev();\n    q.start = 3;\n    q.end -= 1;\n    println(r.start, r.end, q.start, q.end, r.diff());\n    r.start += 1;\n    println(r.start, r.end, q.start, q.end);\n    let t = 0;\n    for i in r { t += i; }\n    println(t);", "1 5 3 0 4\n2 5 3 0\n9\n"},
	{"range-rev-then-bounds-of-the-receiver-assigned", "let r = 1..5;\n    let q = r.rev();\n    r.end = 9;\n    r.start = 7;\n    println(q.start, q.end, r.start, r.end);", "5 1 7 9\n"},
	{"range-rev-twice", "let r = 1..5;\n    let q = r.rev().rev();\n    q.start = 9;\n    println(r.start, q.start, r == 1..5);", "1 9 true\n"},
	{"inclusive-range-rev", "let r = 1..=5;\n    let q = r.rev();\n    q.end = 3;\n    q.start = 4;\n    println(r.start, r.end);", "1 5\n"},
	{"two-reversals-of-one-range", "let r = 2..6;\n    let a = r.rev();\n    let b = r.rev();\n    a.start = 0;\n    println(b.start, r.end, a == b);", "6 6 false\n"},
	{"object-keys-then-push", "let o = new { a: 1, b: 2 };\n    let k = o.keys();\n    k.push(\"z\");\n    println(o.keys().len(), k.len());", "2 3\n"},
	{"any-object-keys-then-push", "let o = new { ? };\n    o.set(\"a\", 1);\n    let k = o.keys();\n    k.push(\"z\");\n    o.set(\"b\", 2);\n    println(o.keys().len(), k.len());", "2 2\n"},
	{"split-then-push", "let s = \"a,b\";\n    let p = s.split(\",\");\n    p.push(\"c\");\n    p[0] = \"x\";\n    println(s, s.split(\",\").len(), p.len());", "a,b 2 3\n"},
	{"concat-then-write-to-the-argument", "let a = [1, 2];\n    let c = [3];\n    a.concat(c);\n    c.push(4);\n    a[2] = 9;\n    println(a, c);", "[1, 2, 9] [3, 4]\n"},
}

func c18SharedCount() int { return 2 * len(c18SharedProgs) }

func c18SharedRun(idx int, r *Result) {
	backend := backendNames[idx%2]
	p := c18SharedProgs[idx/2]
	text := "fn main() {\n    " + p.body + "\n}\n"
	cas := "// backend: " + backend + "\n" + text
	r.Sample(cas)
	a := Analyze(map[string]string{"main": text}, true)
	if a.Obs.Class == "HOST-PANIC" || !a.Obs.Accepted() {
		r.Note("shared:not-accepted:"+p.name, 1)
		if len(a.Obs.Errors) > 0 {
			r.Note("shared:not-accepted:"+p.name+":"+normMsg(a.Obs.Errors[0]), 1)
		}
		return
	}
	o := runOn(backend, a, r)
	tags := []string{"backend:" + backend, "history:" + p.name}
	if cc := crashClass(o); cc != "" {
		capFail(r, cc, tags, cas, o.String())
		return
	}
	r.Distinct(fmt.Sprintf("shared|%s|%s|%s", backend, p.name, o.Key()))
	r.Outcome(backend + ":" + o.Class)
	if o.Class != "ok" {
		capFail(r, "MEMBER:program-outcome", tags, cas, o.String())
		return
	}
	if o.Out != p.want {
		capFail(r, "FRESH:result-and-receiver-share-state:"+strings.SplitN(p.name, "-then-", 2)[0], tags, cas, fmt.Sprintf("printed %q, expected %q", o.Out, p.want))
	}
}
