package main

import (
	"fmt"
	"math"
	"math/big"
	"strings"
)

// C12/C13 addition: JSON numbers at the int64 / float boundary crossing the dynamic-to-static
// boundary through parse_json. A parsed number that is whole and fits int64 is an int; any
// other number is a float (never a wrapped-around int).

var jsonNumberTexts = []string{"0", "7", "-7", "9223372036854775807", "9223372036854775808", "-9223372036854775808", "-9223372036854775809",
	"1e19", "1e30", "-1e30", "18446744073709551616", "4611686018427387904", "9007199254740993", "1.5", "0.5e1", "1e2", "2.5e-1", "179769313486231570000000000000000000000000000000000000000000000000000000000000000000000000000000000000000000000000000000000000000000000000000000000000000000000000000000000000000000000000000000000000000000000000000000000000000000000000000000000000000000000000000000000000000000000000000000000000000000000000000"}

var jsonNumberTargets = []string{"int", "float", "[int]", "[float]", "any"}

func jsonNumberRun(idx int, r *Result) {
	d := radix(idx, 2, len(jsonNumberTargets), len(jsonNumberTexts))
	backend, target, text := []string{"vm", "tree"}[d[0]], jsonNumberTargets[d[1]], jsonNumberTexts[d[2]]
	// reference classification of the JSON number
	rat, ok := new(big.Rat).SetString(text)
	if !ok {
		return
	}
	isInt := rat.IsInt() && rat.Num().IsInt64()
	f, _ := rat.Float64()
	jsonText := text
	want := "" // expected printed value when admitted
	list := strings.HasPrefix(target, "[")
	if list {
		jsonText = "[" + text + "]"
	}
	elem := strings.Trim(target, "[]")
	admit := "open"
	switch {
	case elem == "int":
		if isInt {
			admit, want = "yes", rat.Num().String()
		} else {
			admit = "no" // a float (fractional, or whole but outside int64) is never admitted as int by the validating cast
		}
	case elem == "float":
		if !isInt {
			admit, want = "yes", fmt.Sprint(f)
		} // whole numbers within int64 read back as int: refused for float today (known finding KF-json-integral-float): left open
	case elem == "any":
		admit = "yes"
		if isInt {
			want = rat.Num().String()
		} else {
			want = fmt.Sprint(f)
		}
	}
	if list && want != "" {
		want = "[" + want + "]"
	}
	if math.IsInf(f, 0) {
		return
	}
	src := fmt.Sprintf("fn main() {\n    try {\n        let x: %s = %q.parse_json();\n        println(\"admitted\", x);\n    } catch e {\n        println(\"refused\");\n    }\n    println(\"end\");\n}\n", target, jsonText)
	a := Analyze(map[string]string{"main": src}, true)
	if !a.Obs.Accepted() || a.Obs.Class == "HOST-PANIC" {
		r.Note("json-number-program-not-accepted", 1)
		return
	}
	var o Obs
	if backend == "vm" {
		o = RunVM(a, defaultOpts())
		r.Obs(o)
	} else {
		o = RunTree(a, defaultOpts())
	}
	r.Trans(1)
	r.Distinct(fmt.Sprintf("%s|%s|%s|%s", backend, target, text, o.Out))
	r.Outcome(backend + ":" + strings.SplitN(o.Out, " ", 2)[0])
	tags := []string{"route:json-number", "backend:" + backend, "target:" + target}
	if idx < 2 {
		r.Sample(src)
	}
	if cc := crashClass(o); cc != "" {
		r.Fail(cc, tags, src, o.String())
		return
	}
	if o.Class != "ok" {
		r.Fail("JSONNUM:not-catchable:"+o.Class+kindSuffix(o.Kind), tags, src, o.String())
		return
	}
	admitted := strings.HasPrefix(o.Out, "admitted")
	switch admit {
	case "yes":
		if !admitted {
			r.Fail("JSONNUM:conforming-number-refused", tags, src, fmt.Sprintf("number %s for type %s: %s", text, target, o.Out))
		} else if got := strings.TrimSuffix(strings.TrimPrefix(strings.SplitN(o.Out, "\n", 2)[0], "admitted "), "\n"); got != want {
			r.Fail("JSONNUM:admitted-with-another-value", tags, src, fmt.Sprintf("number %s for type %s: expected %s, got %s", text, target, want, got))
		}
	case "no":
		if admitted {
			r.Fail("JSONNUM:non-conforming-number-admitted", tags, src, fmt.Sprintf("number %s is not an int64 but was admitted for type %s: %s", text, target, o.Out))
		}
	}
}

func init() {
	for _, id := range []string{"C12", "C13"} {
		prev := checks[id]
		if prev == nil {
			continue
		}
		checks[id] = func() *Check {
			c := prev()
			c.Scenarios = append(c.Scenarios, Scenario{Name: "json-number-boundaries", Count: func(string) int { return len(jsonNumberTexts) * len(jsonNumberTargets) * 2 }, Run: func(_ string, idx int, r *Result) { jsonNumberRun(idx, r) }})
			return c
		}
	}
}
