package main

// Expression-level mutators of C03 (see c03_mut.go).

import (
	"strings"

	"hmsverif/internal/hs"
	"hmsverif/internal/reftype"
)

func (sc *siteCollector) swapAll(slot *hs.Expr, cur *hs.Type, rule, mut string, cx *fctx, tags []string, skip func(pe palEntry) bool) {
	for _, pe := range c03Palette {
		pe := pe
		if reftype.Equal(pe.t, cur) || (skip != nil && skip(pe)) {
			continue
		}
		sc.add(rule, mut, cx, append(append([]string{}, tags...), "to:"+pe.name), func() { *slot = pe.mk() })
	}
}

func (sc *siteCollector) expr(slot *hs.Expr, cx *fctx) {
	e := *slot
	t := sc.typeOf(e)
	switch n := e.(type) {
	case *hs.Ident:
		sc.add(reftype.RUnknownIdent, "identifier-renamed", cx, []string{"type:" + kindName(t)}, func() { *slot = hs.V("zz_undefined") })
	case *hs.Single:
		sc.add(reftype.RUnknownIdent, "singleton-renamed", cx, nil, func() { *slot = &hs.Single{Name: "ZzNoSingleton"} })
	case *hs.Infix:
		lt, rt := sc.typeOf(n.L), sc.typeOf(n.R)
		base := []string{"op:" + n.Op, "type:" + kindName(lt)}
		sc.swapAll(&n.L, lt, reftype.ROperands, "left-operand-type", cx, base, nil)
		sc.swapAll(&n.R, rt, reftype.ROperands, "right-operand-type", cx, base, nil)
		for _, pe := range c03Palette {
			pe := pe
			if reftype.InfixResult(pe.t.K, n.Op) != "" {
				continue
			}
			sc.add(reftype.ROperator, "operator-on-type", cx, []string{"op:" + n.Op, "type:" + pe.name}, func() { n.L, n.R = pe.mk(), pe.mk() })
		}
		sc.expr(&n.L, cx)
		sc.expr(&n.R, cx)
	case *hs.Assign:
		lt := sc.typeOf(n.L)
		if !reftype.ContainsFn(lt) && !softType(lt) {
			base := []string{"op:" + n.Op, "type:" + kindName(lt)}
			sc.swapAll(&n.R, sc.typeOf(n.R), reftype.RAssign, "assigned-value-type", cx, base, nil)
			for _, op := range allAssignOps {
				op := op
				if op == n.Op || reftype.AssignAdmissible(lt.K, op) {
					continue
				}
				sc.add(reftype.RCompound, "compound-operator", cx, []string{"op:" + op, "type:" + kindName(lt)}, func() { n.Op = op })
			}
		}
		sc.expr(&n.L, cx)
		sc.expr(&n.R, cx)
	case *hs.Prefix:
		xt := sc.typeOf(n.X)
		if n.Op == "-" || n.Op == "!" {
			sc.swapAll(&n.X, xt, reftype.RPrefix, "prefix-operand-type", cx, []string{"op:" + n.Op, "type:" + kindName(xt)}, func(pe palEntry) bool {
				if n.Op == "-" {
					return pe.t.K == hs.KInt || pe.t.K == hs.KFloat
				}
				return pe.t.K == hs.KBool || pe.t.K == hs.KInt
			})
		}
		sc.expr(&n.X, cx)
	case *hs.Group:
		sc.expr(&n.X, cx)
	case *hs.Call:
		ft := sc.typeOf(n.Fn)
		switch {
		case ft.K == hs.KFn && strings.HasPrefix(ft.Name, "host:"):
			if ft.Name == "host:throw" {
				sc.add(reftype.RArity, "argument-dropped", cx, []string{"callee:throw"}, func() { n.Args = nil })
				sc.add(reftype.RArity, "argument-added", cx, []string{"callee:throw"}, func() { n.Args = append(n.Args, hs.I(7)) })
			}
		case ft.K == hs.KFn:
			params := ft.Params[ft.Singles:]
			kind := "callee:" + calleeKind(n.Fn)
			sc.add(reftype.RArity, "argument-added", cx, []string{kind, "arity:" + itoa(len(params))}, func() { n.Args = append(n.Args, hs.I(7)) })
			sc.add(reftype.RCallee, "callee-not-a-function", cx, []string{kind}, func() { n.Fn = &hs.Group{X: hs.I(7)} })
			for i := range n.Args {
				i := i
				if i >= len(params) {
					break
				}
				sc.add(reftype.RArity, "argument-dropped", cx, []string{kind, "arity:" + itoa(len(params))}, func() { n.Args = append(n.Args[:i:i], n.Args[i+1:]...) })
				pt := params[i].T
				sc.swapAll(&n.Args[i], pt, reftype.RArg, "argument-type", cx, []string{kind, "type:" + kindName(pt)}, nil)
				if pt.K == hs.KFn && pt.Name == "" && pt.Singles == 0 {
					if lit, ok := litOfType(pt).(*hs.FnLit); ok {
						sc.add(reftype.RArg, "closure-argument-arity", cx, []string{kind}, func() {
							lit.Params = append(lit.Params, hs.Field{Name: "zz_q", T: hs.TInt})
							n.Args[i] = lit
						})
					}
					if lit, ok := litOfType(pt).(*hs.FnLit); ok && len(lit.Params) >= 2 {
						// the same parameters in another order: arguments are passed by position
						sc.add(reftype.RArg, "closure-argument-parameters-reordered", cx, []string{kind}, func() {
							lit.Params[0], lit.Params[1] = lit.Params[1], lit.Params[0]
							n.Args[i] = lit
						})
					}
					if lit, ok := litOfType(pt).(*hs.FnLit); ok {
						sc.add(reftype.RArg, "closure-argument-return-type", cx, []string{kind}, func() {
							if lit.Ret != nil && lit.Ret.K == hs.KStr {
								lit.Ret, lit.Body = hs.TInt, hs.Blk(hs.I(1))
							} else {
								lit.Ret, lit.Body = hs.TStr, hs.Blk(hs.S("r"))
							}
							n.Args[i] = lit
						})
					}
				}
			}
		}
		sc.expr(&n.Fn, cx)
		for i := range n.Args {
			sc.expr(&n.Args[i], cx)
		}
	case *hs.Spawn:
		sc.add(reftype.RUnknownIdent, "identifier-renamed", cx, []string{"in:spawn"}, func() { n.Fn = "zz_undefined" })
		sc.add(reftype.RArity, "argument-added", cx, []string{"callee:spawn"}, func() { n.Args = append(n.Args, hs.I(7)) })
		for i := range n.Args {
			i := i
			sc.add(reftype.RArity, "argument-dropped", cx, []string{"callee:spawn"}, func() { n.Args = append(n.Args[:i:i], n.Args[i+1:]...) })
			at := sc.typeOf(n.Args[i])
			sc.swapAll(&n.Args[i], at, reftype.RArg, "argument-type", cx, []string{"callee:spawn", "type:" + kindName(at)}, nil)
			sc.expr(&n.Args[i], cx)
		}
	case *hs.Index:
		xt := sc.typeOf(n.X)
		if xt.K == hs.KList || xt.K == hs.KStr {
			sc.swapAll(&n.I, hs.TInt, reftype.RIndex, "index-type", cx, []string{"type:" + kindName(xt)}, nil)
			sc.swapAll(&n.X, xt, reftype.RIndex, "indexed-value-type", cx, []string{"type:" + kindName(xt)}, func(pe palEntry) bool {
				switch pe.t.K {
				case hs.KList, hs.KStr, hs.KObj:
					return true
				}
				return false
			})
		}
		sc.expr(&n.X, cx)
		sc.expr(&n.I, cx)
	case *hs.Member:
		sc.add(reftype.RUnknownMember, "member-renamed", cx, []string{"type:" + kindName(sc.typeOf(n.X))}, func() { n.Name = "zz_nomember" })
		if sc.typeOf(n.X).K == hs.KObj {
			// an object indexed by a string literal: only its own fields answer, not the builtin
			// members every object has
			for _, bm := range []string{"keys", "to_json", "to_json_indent", "to_string", "zz_nofield"} {
				bm := bm
				own := false
				for _, f := range sc.typeOf(n.X).Fields {
					own = own || f.Name == bm
				}
				if !own {
					sc.add(reftype.RUnknownMember, "member-became-string-index-"+bm, cx, []string{"type:object"}, func() { *slot = hs.Idx(n.X, hs.S(bm)) })
				}
			}
		}
		sc.expr(&n.X, cx)
	case *hs.Cast:
		xt := sc.typeOf(n.X)
		if xt.K == hs.KAny {
			sc.add(reftype.RAny, "cast-dropped", cx, []string{"type:" + kindName(t)}, func() { *slot = n.X })
		}
		for _, pe := range c03Palette {
			pe := pe
			if reftype.Castable(pe.t, t) {
				continue
			}
			sc.add(reftype.RCast, "cast-operand-type", cx, []string{"type:" + kindName(t), "to:" + pe.name}, func() { n.X = pe.mk() })
		}
		sc.writtenType(&n.T, cx, "cast")
		sc.expr(&n.X, cx)
	case *hs.ListLit:
		if len(n.Elems) >= 2 && t.K == hs.KList {
			for i := range n.Elems {
				sc.swapAll(&n.Elems[i], t.Elem, reftype.RList, "list-element-type", cx, []string{"type:" + kindName(t.Elem)}, nil)
			}
		}
		for i := range n.Elems {
			sc.expr(&n.Elems[i], cx)
		}
	case *hs.ObjLit:
		if len(n.Fields) > 0 {
			sc.add(reftype.RDup, "duplicate-object-field", cx, nil, func() { n.Fields = append(n.Fields, n.Fields[0]) })
		}
		for i := range n.Fields {
			sc.expr(&n.Fields[i].X, cx)
		}
	case *hs.RangeLit:
		sc.swapAll(&n.From, hs.TInt, reftype.RRange, "range-bound-type", cx, []string{"bound:from"}, nil)
		sc.swapAll(&n.To, hs.TInt, reftype.RRange, "range-bound-type", cx, []string{"bound:to"}, nil)
		sc.expr(&n.From, cx)
		sc.expr(&n.To, cx)
	case *hs.FnLit:
		inner := &fctx{fn: cx.fn, closure: cx.closure + 1, ret: sc.retOf(n.Ret), parent: cx}
		for i := range n.Params {
			i := i
			sc.add(reftype.RDup, "duplicate-parameter", inner, []string{"of:closure"}, func() { n.Params = append(n.Params, n.Params[i]) })
			sc.writtenType(&n.Params[i].T, inner, "parameter")
		}
		sc.writtenType(&n.Ret, inner, "return-type")
		sc.body(n.Body, inner, func(t *hs.Type) { n.Ret = t })
		cx.afterClosure = true
	case *hs.BlockExpr:
		sc.block(n.B, cx)
	case *hs.If:
		sc.ifExpr(n, cx)
	case *hs.Match:
		xt := sc.typeOf(n.X)
		hasDefault := false
		for i := range n.Arms {
			a := &n.Arms[i]
			if a.Lits == nil {
				hasDefault = true
			}
			bt := sc.typeOf(a.Body)
			if !softType(t) && t.K != hs.KNull && !softType(bt) && len(n.Arms) >= 2 {
				sc.swapAll(&a.Body, t, reftype.RBranches, "match-arm-value-type", cx, []string{"type:" + kindName(t)}, nil)
			}
			for j := range a.Lits {
				sc.swapAll(&a.Lits[j], xt, reftype.RMatchLit, "match-literal-type", cx, []string{"type:" + kindName(xt)}, func(pe palEntry) bool {
					switch pe.t.K {
					case hs.KInt, hs.KFloat, hs.KBool, hs.KStr:
						return false
					}
					return true
				})
			}
		}
		if hasDefault && !softType(t) && t.K != hs.KNull {
			sc.add(reftype.RBranches, "match-default-dropped", cx, []string{"type:" + kindName(t)}, func() {
				var keep []hs.MatchArm
				for _, a := range n.Arms {
					if a.Lits != nil {
						keep = append(keep, a)
					}
				}
				n.Arms = keep
			})
		}
		sc.expr(&n.X, cx)
		for i := range n.Arms {
			for j := range n.Arms[i].Lits {
				sc.expr(&n.Arms[i].Lits[j], cx)
			}
			sc.expr(&n.Arms[i].Body, cx)
		}
	case *hs.Try:
		if !softType(t) && t.K != hs.KNull {
			if n.Body.Tail != nil && !softType(sc.typeOf(n.Body.Tail)) {
				sc.swapAll(&n.Body.Tail, t, reftype.RBranches, "try-value-type", cx, []string{"type:" + kindName(t)}, nil)
			}
			if n.Catch.Tail != nil && !softType(sc.typeOf(n.Catch.Tail)) {
				sc.swapAll(&n.Catch.Tail, t, reftype.RBranches, "catch-value-type", cx, []string{"type:" + kindName(t)}, nil)
			}
		}
		sc.block(n.Body, cx)
		sc.block(n.Catch, cx)
	}
}

func (sc *siteCollector) ifExpr(n *hs.If, cx *fctx) {
	t := sc.typeOf(n)
	sc.cond(&n.Cond, cx, "if")
	hasElse := n.Else != nil || n.ElIf != nil
	if hasElse && !softType(t) && t.K != hs.KNull {
		if n.Then.Tail != nil && !softType(sc.typeOf(n.Then.Tail)) {
			sc.swapAll(&n.Then.Tail, t, reftype.RBranches, "then-value-type", cx, []string{"type:" + kindName(t)}, nil)
			sc.add(reftype.RBranches, "else-dropped", cx, []string{"type:" + kindName(t)}, func() { n.Else, n.ElIf = nil, nil })
		}
		if n.Else != nil && n.Else.Tail != nil && !softType(sc.typeOf(n.Else.Tail)) {
			sc.swapAll(&n.Else.Tail, t, reftype.RBranches, "else-value-type", cx, []string{"type:" + kindName(t)}, nil)
		}
	}
	sc.expr(&n.Cond, cx)
	sc.block(n.Then, cx)
	if n.ElIf != nil {
		sc.ifExpr(n.ElIf, cx)
	}
	if n.Else != nil {
		sc.block(n.Else, cx)
	}
}

func calleeKind(e hs.Expr) string {
	switch e.(type) {
	case *hs.Ident:
		return "name"
	case *hs.Member:
		return "member"
	case *hs.FnLit:
		return "closure-literal"
	}
	return "expression"
}

func itoa(n int) string {
	if n < 10 {
		return string(rune('0' + n))
	}
	return "many"
}
