package main

import (
	"fmt"
	"math"
	"strconv"
	"strings"

	ivalue "github.com/smarthome-go/homescript/v3/homescript/interpreter/value"
	"github.com/smarthome-go/homescript/v3/homescript/runtime/value"
)

// C13, floats that are close to each other: `==` on floats holds exactly when the two values
// are the same number. The universe holds neighbouring floats (one, two, three and six units in
// the last place apart), sums with rounding noise (0.1 + 0.2 against 0.3), values near the ends
// of the range and zero; every ordered pair is compared bare and inside a list, an object, an
// option and an any-object, in both value libraries, and by programs on both backends. With
// neighbours at 1, 2, 3 and 6 ulps every tolerance-based comparison that accepts any unequal
// pair also breaks transitivity on some triple of the universe.

var c13Floats = func() []float64 {
	up := func(x float64, n int) float64 {
		for i := 0; i < n; i++ {
			x = math.Nextafter(x, math.Inf(1))
		}
		return x
	}
	return []float64{
		0, 1, up(1, 1), up(1, 2), up(1, 3), up(1, 6), up(0.3, 1), 0.3, up(0.3, 2),
		1e-300, up(1e-300, 1), 5e-324, 1e300, up(1e300, 1), math.MaxFloat64, -1, -up(1, 1), 1e15 + 0.125, 1e15 + 0.25,
	}
}()

var c13FloatWraps = []string{"bare", "list", "object", "option", "any-object", "nested-list"}

func c13FloatsCount() int { return 2*len(c13FloatWraps)*len(c13Floats) + 2*len(c13Floats) }

func c13FloatsRun(idx int, r *Result) {
	nlib := 2 * len(c13FloatWraps) * len(c13Floats)
	if idx >= nlib {
		c13FloatsProg(idx-nlib, r)
		return
	}
	d := radix(idx, len(c13Floats), len(c13FloatWraps), 2)
	a, wrap, lib := c13Floats[d[0]], c13FloatWraps[d[1]], []string{"vm", "tree"}[d[2]]
	rvw := func(f float64) *value.Value {
		v := value.NewValueFloat(f)
		switch wrap {
		case "list":
			return value.NewValueList([]*value.Value{value.NewValueInt(1), v})
		case "nested-list":
			return value.NewValueList([]*value.Value{value.NewValueList([]*value.Value{v})})
		case "object":
			return value.NewValueObject(map[string]*value.Value{"k": v, "n": value.NewValueInt(1)})
		case "option":
			return value.NewValueOption(v)
		case "any-object":
			return value.NewValueAnyObject(map[string]*value.Value{"k": v})
		}
		return v
	}
	ivw := func(f float64) *ivalue.Value {
		v := ivalue.NewValueFloat(f)
		switch wrap {
		case "list":
			return ivalue.NewValueList([]*ivalue.Value{ivalue.NewValueInt(1), v})
		case "nested-list":
			return ivalue.NewValueList([]*ivalue.Value{ivalue.NewValueList([]*ivalue.Value{v})})
		case "object":
			return ivalue.NewValueObject(map[string]*ivalue.Value{"k": v, "n": ivalue.NewValueInt(1)})
		case "option":
			return ivalue.NewValueOption(v)
		case "any-object":
			return ivalue.NewValueAnyObject(map[string]*ivalue.Value{"k": v})
		}
		return v
	}
	eqOf := func(x, y float64) (bool, string) {
		if lib == "vm" {
			return rvIsEqual(rvw(x), rvw(y))
		}
		return ivIsEqual(ivw(x), ivw(y))
	}
	tags := []string{"lib:" + lib, "wrap:" + wrap}
	for _, b := range c13Floats {
		cas := fmt.Sprintf("%s == %s (%s, %s value library)", fstr(a), fstr(b), wrap, lib)
		r.Trans(1)
		got, pc := eqOf(a, b)
		if pc != "" {
			r.Fail(pc, tags, cas, "")
			return
		}
		if got != (a == b) {
			class := "EQ:not-structural:unequal-floats-compare-equal"
			if a == b {
				class = "EQ:not-structural:equal-floats-compare-unequal"
			}
			r.Fail(class, tags, cas, fmt.Sprintf("IsEqual = %v", got))
			return
		}
		// transitivity over the universe, decided on the implementation's own answers
		if got {
			for _, c := range c13Floats {
				bc, _ := eqOf(b, c)
				ac, _ := eqOf(a, c)
				r.Trans(2)
				if bc && !ac {
					r.Fail("EQ:not-transitive", tags, fmt.Sprintf("%s, %s, %s (%s, %s)", fstr(a), fstr(b), fstr(c), wrap, lib), "a == b and b == c but not a == c")
					return
				}
			}
		}
	}
	r.Sample(fmt.Sprintf("%s against %d floats (%s, %s value library)", fstr(a), len(c13Floats), wrap, lib))
	r.Outcome("structural")
	r.Distinct(wrap + "|" + lib + "|" + fstr(a))
}

func fstr(f float64) string { return strconv.FormatFloat(f, 'g', -1, 64) }

// Programs: the neighbours are produced by arithmetic the language can express exactly
// (decimal literals of a few digits; sums, products), compared on both backends.
var c13FloatExprs = func() []c13FloatExpr {
	// Go folds constant expressions exactly: the operands are variables so that the sums are IEEE sums
	f := func(s string) float64 { v, _ := strconv.ParseFloat(s, 64); return v }
	p1, p2, p3, p15, p6, p7, n1, n11 := f("0.1"), f("0.2"), f("0.3"), f("0.15"), f("0.6"), f("0.7"), f("1.0"), f("1.1")
	n2, n3, n10, n49 := f("2.0"), f("3.0"), f("10.0"), f("49.0")
	return []c13FloatExpr{
		{"0.1 + 0.2", p1 + p2}, {"0.3", p3}, {"0.1 * 3.0", p1 * n3}, {"0.15 + 0.15", p15 + p15}, {"0.6 / 2.0", p6 / n2},
		{"1.0", n1}, {"0.1 * 10.0", p1 * n10}, {"0.7 + 0.1 + 0.2", p7 + p1 + p2}, {"1.1 - 0.1", n11 - p1}, {"49.0 / 49.0", n49 / n49},
		{"1.0 / 49.0 * 49.0", n1 / n49 * n49},
	}
}()

type c13FloatExpr struct {
	src string
	v   float64
}

func c13FloatsProg(idx int, r *Result) {
	backend := backendNames[idx%2]
	i := (idx / 2) % len(c13FloatExprs)
	if idx/2 >= len(c13FloatExprs) {
		r.Note("inapplicable", 1)
		return
	}
	a := c13FloatExprs[i]
	var sb strings.Builder
	var want strings.Builder
	sb.WriteString("fn main() {\n    let a = " + a.src + ";\n")
	for j, b := range c13FloatExprs {
		fmt.Fprintf(&sb, "    let b%d = %s;\n    println(a == b%d, b%d == a, a != b%d, [a] == [b%d], new { k: a } == new { k: b%d });\n", j, b.src, j, j, j, j, j)
		eq := a.v == b.v
		fmt.Fprintf(&want, "%v %v %v %v %v\n", eq, eq, !eq, eq, eq)
	}
	sb.WriteString("}\n")
	text := sb.String()
	r.Sample(text)
	sel, ok := runSel(text, r, "float-neighbours", backend)
	if !ok {
		r.Fail("HARNESS:float program rejected", nil, text, "")
		return
	}
	for _, bo := range sel {
		tags := []string{"backend:" + bo.n, "why:close-floats"}
		if cc := crashClass(bo.o); cc != "" {
			capFail(r, cc, tags, text, bo.o.String())
			continue
		}
		r.Outcome(bo.n + ":" + bo.o.Class)
		if bo.o.Class != "ok" {
			capFail(r, "EQ-PROGRAM:outcome-"+bo.o.Class, tags, text, bo.o.String())
			continue
		}
		if bo.o.Out != want.String() {
			capFail(r, "EQ-PROGRAM:not-structural", tags, text, fmt.Sprintf("printed %q, expected %q", bo.o.Out, want.String()))
		}
	}
	r.Distinct("float-prog|" + backend + "|" + a.src)
}
