package main

// Parallel walk of the IR of a well-typed program and the tree the real analyzer produced
// for its text: every expression's recorded `Type().String()` must be the type reftype
// assigns (C03, second half of the statement).

import (
	"fmt"
	"strings"

	"github.com/smarthome-go/homescript/v3/homescript/analyzer/ast"

	"hmsverif/internal/hs"
	"hmsverif/internal/reftype"
)

type typeMismatch struct {
	Where string // printed IR node (or description)
	Want  string
	Got   string
}

type typeWalker struct {
	res   *reftype.Result
	mism  []typeMismatch
	shape []string // structural disagreements between IR and analyzed tree
	n     int      // expressions compared
}

// normType strips layout and quoting from the analyzer's type text.
func normType(s string) string {
	var b strings.Builder
	for _, r := range s {
		switch r {
		case ' ', '\n', '\t', '"':
		default:
			b.WriteRune(r)
		}
	}
	return b.String()
}

func kindWord(s string) string {
	switch {
	case s == "":
		return "none"
	case strings.HasPrefix(s, "fn("):
		return "function"
	case strings.HasPrefix(s, "[") && s != "[any]":
		return "list"
	case strings.HasPrefix(s, "{?"):
		return "any-object"
	case strings.HasPrefix(s, "{"):
		return "object"
	case strings.HasPrefix(s, "?") && s != "?any":
		return "option"
	}
	return s
}

func (w *typeWalker) cmp(where func() string, want *hs.Type, got ast.Type) {
	w.n++
	if want == nil {
		w.shape = append(w.shape, "reftype assigned no type to "+where())
		return
	}
	ws := reftype.TypeString(want)
	gs := "<nil>"
	if got != nil {
		gs = normType(got.String())
	}
	if ws != gs {
		w.mism = append(w.mism, typeMismatch{where(), ws, gs})
	}
}

func (w *typeWalker) bad(format string, a ...any) {
	w.shape = append(w.shape, fmt.Sprintf(format, a...))
}

func (w *typeWalker) program(p *hs.Program, a ast.AnalyzedProgram) {
	if len(p.Globals) != len(a.Globals) || len(p.Funcs) != len(a.Functions) || len(p.Impls) != len(a.ImplBlocks) {
		w.bad("item counts differ: globals %d/%d functions %d/%d impls %d/%d", len(p.Globals), len(a.Globals), len(p.Funcs), len(a.Functions), len(p.Impls), len(a.ImplBlocks))
		return
	}
	for i, g := range p.Globals {
		w.let(g, a.Globals[i])
	}
	for i, f := range p.Funcs {
		w.block(f.Body, a.Functions[i].Body)
	}
	for i, ib := range p.Impls {
		if len(ib.Methods) != len(a.ImplBlocks[i].Methods) {
			w.bad("impl method counts differ")
			continue
		}
		for j, m := range ib.Methods {
			w.block(m.Body, a.ImplBlocks[i].Methods[j].Body)
		}
	}
}

func (w *typeWalker) let(n *hs.Let, a ast.AnalyzedLetStatement) {
	w.cmp(func() string { return "variable of `let " + n.Name + "`" }, w.res.VarTypes[n], a.VarType)
	w.expr(n.X, a.Expression)
}

func (w *typeWalker) block(b *hs.Block, a ast.AnalyzedBlock) {
	if len(b.Stmts) != len(a.Statements) || (b.Tail == nil) != (a.Expression == nil) {
		w.bad("block shapes differ: %d/%d statements", len(b.Stmts), len(a.Statements))
		return
	}
	w.cmp(func() string { return "block" }, w.res.BlockTypes[b], a.ResultType)
	for i, s := range b.Stmts {
		w.stmt(s, a.Statements[i])
	}
	if b.Tail != nil {
		w.expr(b.Tail, a.Expression)
	}
}

func (w *typeWalker) stmt(s hs.Stmt, a ast.AnalyzedStatement) {
	switch n := s.(type) {
	case *hs.Let:
		if x, ok := a.(ast.AnalyzedLetStatement); ok {
			w.let(n, x)
			return
		}
	case *hs.TypeDef:
		if _, ok := a.(ast.AnalyzedTypeDefinition); ok {
			return
		}
	case *hs.Return:
		if x, ok := a.(ast.AnalyzedReturnStatement); ok {
			if (n.X == nil) != (x.ReturnValue == nil) {
				w.bad("return value presence differs")
			} else if n.X != nil {
				w.expr(n.X, x.ReturnValue)
			}
			return
		}
	case *hs.Break:
		if _, ok := a.(ast.AnalyzedBreakStatement); ok {
			return
		}
	case *hs.Continue:
		if _, ok := a.(ast.AnalyzedContinueStatement); ok {
			return
		}
	case *hs.Loop:
		if x, ok := a.(ast.AnalyzedLoopStatement); ok {
			w.block(n.Body, x.Body)
			return
		}
	case *hs.While:
		if x, ok := a.(ast.AnalyzedWhileStatement); ok {
			w.expr(n.Cond, x.Condition)
			w.block(n.Body, x.Body)
			return
		}
	case *hs.For:
		if x, ok := a.(ast.AnalyzedForStatement); ok {
			w.expr(n.Iter, x.IterExpression)
			w.block(n.Body, x.Body)
			return
		}
	case *hs.ExprStmt:
		if x, ok := a.(ast.AnalyzedExpressionStatement); ok {
			w.expr(n.X, x.Expression)
			return
		}
	case *hs.Trigger:
		if x, ok := a.(ast.AnalyzedTriggerStatement); ok {
			if len(n.Args) != len(x.TriggerArguments.List) {
				w.bad("trigger argument counts differ")
				return
			}
			for i, e := range n.Args {
				w.expr(e, x.TriggerArguments.List[i].Expression)
			}
			return
		}
	}
	w.bad("statement %T analysed as %T", s, a)
}

func (w *typeWalker) expr(e hs.Expr, a ast.AnalyzedExpression) {
	if a == nil {
		w.bad("no analysed expression for %s", hs.PrintExpr(e))
		return
	}
	if _, isGroup := e.(*hs.Group); !isGroup {
		for {
			g, ok := a.(ast.AnalyzedGroupedExpression)
			if !ok {
				break
			}
			a = g.Inner
		}
	}
	if !w.res.Opaque[e] {
		w.cmp(func() string { return "`" + hs.PrintExpr(e) + "`" }, w.res.Types[e], a.Type())
	}
	switch n := e.(type) {
	case *hs.IntLit, *hs.FloatLit, *hs.BoolLit, *hs.StrLit, *hs.NullLit, *hs.NoneLit, *hs.AnyObjLit, *hs.Ident, *hs.Single:
		switch a.Kind() {
		case ast.IntLiteralExpressionKind, ast.FloatLiteralExpressionKind, ast.BoolLiteralExpressionKind, ast.StringLiteralExpressionKind,
			ast.NullLiteralExpressionKind, ast.NoneLiteralExpressionKind, ast.AnyObjectLiteralExpressionKind, ast.IdentExpressionKind:
			return
		}
	case *hs.RangeLit:
		if x, ok := a.(ast.AnalyzedRangeLiteralExpression); ok {
			w.expr(n.From, x.Start)
			w.expr(n.To, x.End)
			return
		}
	case *hs.ListLit:
		if x, ok := a.(ast.AnalyzedListLiteralExpression); ok && len(x.Values) == len(n.Elems) {
			for i, v := range n.Elems {
				w.expr(v, x.Values[i])
			}
			return
		}
	case *hs.ObjLit:
		if x, ok := a.(ast.AnalyzedObjectLiteralExpression); ok && len(x.Fields) == len(n.Fields) {
			for i, f := range n.Fields {
				w.expr(f.X, x.Fields[i].Expression)
			}
			return
		}
	case *hs.FnLit:
		if x, ok := a.(ast.AnalyzedFunctionLiteralExpression); ok {
			w.block(n.Body, x.Body)
			return
		}
	case *hs.Group:
		if x, ok := a.(ast.AnalyzedGroupedExpression); ok {
			w.expr(n.X, x.Inner)
			return
		}
	case *hs.Prefix:
		if x, ok := a.(ast.AnalyzedPrefixExpression); ok {
			w.expr(n.X, x.Base)
			return
		}
	case *hs.Infix:
		if x, ok := a.(ast.AnalyzedInfixExpression); ok {
			w.expr(n.L, x.Lhs)
			w.expr(n.R, x.Rhs)
			return
		}
	case *hs.Assign:
		if x, ok := a.(ast.AnalyzedAssignExpression); ok {
			w.expr(n.L, x.Lhs)
			w.expr(n.R, x.Rhs)
			return
		}
	case *hs.Call:
		if x, ok := a.(ast.AnalyzedCallExpression); ok && !x.IsSpawn && len(x.Arguments.List) == len(n.Args) {
			w.expr(n.Fn, x.Base)
			for i, v := range n.Args {
				w.expr(v, x.Arguments.List[i].Expression)
			}
			return
		}
	case *hs.Spawn:
		if x, ok := a.(ast.AnalyzedCallExpression); ok && x.IsSpawn && len(x.Arguments.List) == len(n.Args) {
			for i, v := range n.Args {
				w.expr(v, x.Arguments.List[i].Expression)
			}
			return
		}
	case *hs.Index:
		if x, ok := a.(ast.AnalyzedIndexExpression); ok {
			w.expr(n.X, x.Base)
			w.expr(n.I, x.Index)
			return
		}
	case *hs.Member:
		if x, ok := a.(ast.AnalyzedMemberExpression); ok {
			w.expr(n.X, x.Base)
			return
		}
	case *hs.Cast:
		if x, ok := a.(ast.AnalyzedCastExpression); ok {
			w.expr(n.X, x.Base)
			return
		}
	case *hs.BlockExpr:
		if x, ok := a.(ast.AnalyzedBlockExpression); ok {
			w.block(n.B, x.Block)
			return
		}
	case *hs.If:
		if x, ok := a.(ast.AnalyzedIfExpression); ok {
			w.expr(n.Cond, x.Condition)
			w.block(n.Then, x.ThenBlock)
			switch {
			case n.ElIf != nil:
				if x.ElseBlock != nil && len(x.ElseBlock.Statements) == 0 && x.ElseBlock.Expression != nil {
					w.expr(n.ElIf, x.ElseBlock.Expression)
					return
				}
			case n.Else != nil:
				if x.ElseBlock != nil {
					w.block(n.Else, *x.ElseBlock)
					return
				}
			default:
				if x.ElseBlock == nil {
					return
				}
			}
		}
	case *hs.Match:
		if x, ok := a.(ast.AnalyzedMatchExpression); ok {
			w.expr(n.X, x.ControlExpression)
			k := 0
			for _, arm := range n.Arms {
				if arm.Lits == nil {
					if x.DefaultArmAction == nil {
						w.bad("default arm missing in the analysed match")
						return
					}
					w.expr(arm.Body, *x.DefaultArmAction)
					continue
				}
				if k >= len(x.Arms) || len(x.Arms[k].Literals) != len(arm.Lits) {
					w.bad("match arms differ")
					return
				}
				for i, l := range arm.Lits {
					w.expr(l, x.Arms[k].Literals[i])
				}
				w.expr(arm.Body, x.Arms[k].Action)
				k++
			}
			return
		}
	case *hs.Try:
		if x, ok := a.(ast.AnalyzedTryExpression); ok {
			w.block(n.Body, x.TryBlock)
			w.block(n.Catch, x.CatchBlock)
			return
		}
	}
	w.bad("expression `%s` (%T) analysed as %T", hs.PrintExpr(e), e, a)
}
