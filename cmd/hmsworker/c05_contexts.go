package main

import (
	"fmt"
	"strings"
)

// C05, expressions in contexts: every expression of a list (well-typed ones, ill-typed ones,
// `any`-typed places and assignments to them, diverging ones, null-typed calls) is put into every
// kind of position an expression can take (statement, cast base, member base, call argument,
// operand, list / object element, condition, let initialiser also inside a closure, return
// value, match control and arm, index, range bound, spawn argument, assignment source and
// target). The analyzer keeps state while it descends (what is tolerated "here"): whatever
// the combination, Parse and Analyze return diagnostics.

var c05Exprs = []string{
	"1", `"s"`, "true", "null", "none", "x", "l", "o", "ao", "f", "g()", "f(1)", "nope", "nope()",
	"l[0]", "l[x]", "o.a", "o.zz", "ao[k]", `ao["a"]`, "ao.get(k)", "an", "an.zz", "an[0]",
	"x = 2", "l[0] = 2", "o.a = 2", "ao[k] = 1", "ao[k] += 1", "an = 1", "an.b = 1", "(ao[k] = 1)",
	"x + 1", `x + "s"`, "-x", "!x", "?x", "x as str", "an as int", "ao as { a: int }", "[x, k]", "[]", "new { a: x }", "new { ? }",
	"if x > 1 { 1 } else { 2 }", "match x { 1 => 1, _ => 2 }", "try { 1 } catch e { 2 }", "{ let q = 1; q }",
	// calls whose callee is not a function: an `any`-typed place, a list of `any`, an option, a value
	"an()", "an(1, 2)", "anl()", "anl[0]()", "x()", "l()", "o.a()", "none()", "(an as fn() -> null)()", "spawn an()", "spawn anl()", "f()()", "nope()()",
	"fn(a: int) -> int { a }", "fn() { ao[k] = 2; }", "return", "return 1", "break", "continue", `throw("t")`, "0..x", "x..k", "spawn g()", "spawn f(an)",
}

var c05Ctxs = []struct{ name, text string }{
	{"statement", "    %s;\n"},
	{"let-initialiser", "    let v = %s;\n"},
	{"annotated-let", "    let v: int = %s;\n"},
	{"any-let", "    let v: any = %s;\n"},
	{"cast-base", "    (%s) as null;\n"},
	{"cast-base-to-any-object", "    let v = (%s) as { ? };\n"},
	{"member-base", "    (%s).to_string();\n"},
	{"call-argument", "    f(%s);\n"},
	{"host-call-argument", "    println(%s, %s);\n"},
	{"operand", "    let v = 1 + (%s);\n"},
	{"comparison", "    let v = (%s) == (%s);\n"},
	{"list-element", "    let v = [%s, %s];\n"},
	{"object-field", "    let v = new { a: %s };\n"},
	{"condition", "    if %s { }\n"},
	{"while-condition", "    while %s { break; }\n"},
	{"for-iterable", "    for it in %s { }\n"},
	{"match-control", "    match %s { 1 => { }, _ => { } };\n"},
	{"match-arm-literal", "    match x { %s => { }, _ => { } };\n"},
	{"index", "    let v = l[%s];\n"},
	{"index-base", "    let v = (%s)[0];\n"},
	{"assignment-source", "    x = %s;\n"},
	{"assignment-target", "    (%s) = 1;\n"},
	{"compound-assignment-target", "    (%s) += 1;\n"},
	{"return-value", "    return %s;\n"},
	{"closure-body-in-let", "    let c = fn() { %s; };\n"},
	{"closure-result-in-let", "    let c = fn() -> int { %s };\n"},
	{"block-tail", "    let v = { %s };\n"},
	{"spawn-argument", "    spawn f(%s);\n"},
	{"range-bound", "    for it in 0..(%s) { }\n"},
	{"try-body", "    try { %s; } catch e { }\n"},
	{"nested-in-cast-of-member", "    ((%s).to_string() as any) as str;\n"},
}

func c05CtxCount() int { return len(c05Exprs) * len(c05Ctxs) * 2 }

// c05CtxProgram returns the idx-th program of the product and its tags.
func c05CtxProgram(idx int) (string, []string) {
	d := radix(idx, 2, len(c05Ctxs), len(c05Exprs))
	inLoop, ctx, e := d[0] == 1, c05Ctxs[d[1]], c05Exprs[d[2]]
	stmt := strings.ReplaceAll(ctx.text, "%s", e)
	var b strings.Builder
	b.WriteString("fn f(a: int) -> int { a }\nfn g() { }\nfn main() {\n    let x = 1;\n    let k = \"k\";\n    let l = [1, 2];\n    let o = new { a: 1 };\n    let ao = new { ? };\n    let an: any = 1;\n    let anl: [any] = [1];\n")
	if inLoop {
		b.WriteString("    loop {\n    " + stmt + "        break;\n    }\n")
	} else {
		b.WriteString(stmt)
	}
	b.WriteString("}\n")
	place := "in-function-body"
	if inLoop {
		place = "in-loop"
	}
	tags := []string{"context:" + ctx.name, "expr:" + e, place}
	switch e {
	case "g()", "x = 2", "l[0] = 2", "o.a = 2", "ao[k] = 1", "ao[k] += 1", "(ao[k] = 1)", "an = 1", "an.b = 1":
		tags = append(tags, "expr-type:null") // a call without result, an assignment
	}
	return b.String(), tags
}

func c05CtxRun(idx int, r *Result) {
	d := radix(idx, 2, len(c05Ctxs), len(c05Exprs))
	inLoop, ctx, e := d[0] == 1, c05Ctxs[d[1]], c05Exprs[d[2]]
	stmt := strings.ReplaceAll(ctx.text, "%s", e)
	var b strings.Builder
	b.WriteString("fn f(a: int) -> int { a }\nfn g() { }\nfn main() {\n    let x = 1;\n    let k = \"k\";\n    let l = [1, 2];\n    let o = new { a: 1 };\n    let ao = new { ? };\n    let an: any = 1;\n    let anl: [any] = [1];\n")
	if inLoop {
		b.WriteString("    loop {\n    " + stmt + "        break;\n    }\n")
	} else {
		b.WriteString(stmt)
	}
	b.WriteString("}\n")
	place := "in-function-body"
	if inLoop {
		place = "in-loop"
	}
	r.Sample(b.String())
	c05Both(b.String(), 0, nil, []string{"family:expressions-in-contexts", "context:" + ctx.name, "expr:" + e, place}, false, r)
	_ = fmt.Sprint
}
