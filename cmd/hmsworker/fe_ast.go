package main

// Lifting of the repository's parse tree into the harness's own small tree type (s-expression
// strings) for C07, and a generic structural dump "modulo spans and grouping nodes".

import (
	"fmt"
	"os"
	"path/filepath"
	"reflect"
	"sort"
	"strconv"
	"strings"

	hms "github.com/smarthome-go/homescript/v3/homescript"
	herrors "github.com/smarthome-go/homescript/v3/homescript/errors"
	pAst "github.com/smarthome-go/homescript/v3/homescript/parser/ast"
	"runtime/debug"

	"github.com/smarthome-go/homescript/v3/homescript/vsched"
)

// parseOutcome is what homescript.Parse did with one text.
type parseOutcome struct {
	Prog  pAst.Program
	Soft  []string
	Hard  string // "" if none
	Panic string
	Site  string
}

func (o parseOutcome) ok() bool { return o.Panic == "" && o.Hard == "" && len(o.Soft) == 0 }

// errKey summarises the error side of an outcome (messages only: spans move with layout).
func (o parseOutcome) errKey() string {
	switch {
	case o.Panic != "":
		return "PANIC:" + normMsg(o.Panic)
	case o.Hard != "":
		return "HARD:" + o.Hard
	case len(o.Soft) > 0:
		return "SOFT:" + strings.Join(o.Soft, "|")
	}
	return ""
}

func realParse(src, file string) (o parseOutcome) {
	defer func() {
		if r := recover(); r != nil {
			o.Panic = fmt.Sprint(r)
			o.Site = vsched.RepoFrames(string(debug.Stack()))
		}
	}()
	prog, soft, hard := hms.Parse(src, file)
	o.Prog = prog
	for _, s := range soft {
		o.Soft = append(o.Soft, s.Message)
	}
	if hard != nil {
		o.Hard = hard.Message
		if o.Hard == "" {
			o.Hard = "(empty message)"
		}
	}
	return o
}

// ---------------------------------------------------------------- expression lifting

func opString(s fmt.Stringer) (out string) {
	defer func() {
		if r := recover(); r != nil {
			out = fmt.Sprintf("<String panics: %v>", r)
		}
	}()
	return s.String()
}

// liftExpr renders an expression of the repository's tree as an s-expression:
// a | 0 | (op L R) | (prefix-op X) | (as X T) | (call F args..) | (index X I) | (. X m) | (group X)
func liftExpr(e pAst.Expression) string {
	switch n := e.(type) {
	case nil:
		return "<nil>"
	case pAst.IdentExpression:
		return n.Ident.Ident()
	case pAst.IntLiteralExpression:
		return strconv.FormatInt(n.Value, 10)
	case pAst.FloatLiteralExpression:
		return strconv.FormatFloat(n.Value, 'g', -1, 64)
	case pAst.BoolLiteralExpression:
		return strconv.FormatBool(n.Value)
	case pAst.StringLiteralExpression:
		return strconv.Quote(n.Value)
	case pAst.NullLiteralExpression:
		return "null"
	case pAst.NoneLiteralExpression:
		return "none"
	case pAst.InfixExpression:
		return "(" + opString(n.Operator) + " " + liftExpr(n.Lhs) + " " + liftExpr(n.Rhs) + ")"
	case pAst.AssignExpression:
		return "(" + opString(n.AssignOperator) + " " + liftExpr(n.Lhs) + " " + liftExpr(n.Rhs) + ")"
	case pAst.PrefixExpression:
		return "(" + opString(n.Operator) + " " + liftExpr(n.Base) + ")"
	case pAst.CastExpression:
		return "(as " + liftExpr(n.Base) + " " + liftType(n.AsType) + ")"
	case pAst.GroupedExpression:
		return "(group " + liftExpr(n.Inner) + ")"
	case pAst.CallExpression:
		s := "(call " + liftExpr(n.Base)
		for _, a := range n.Arguments.List {
			s += " " + liftExpr(a)
		}
		return s + ")"
	case pAst.IndexExpression:
		return "(index " + liftExpr(n.Base) + " " + liftExpr(n.Index) + ")"
	case pAst.MemberExpression:
		return "(" + opString(n.Operator) + " " + liftExpr(n.Base) + " " + n.Member.Ident() + ")"
	default:
		return fmt.Sprintf("<%T>", e)
	}
}

func liftType(t pAst.HmsType) string {
	switch n := t.(type) {
	case nil:
		return "<nil>"
	case pAst.NameReferenceType:
		return n.Ident.Ident()
	case pAst.ListType:
		return "[" + liftType(n.Inner) + "]"
	case pAst.OptionType:
		return "?" + liftType(n.Inner)
	default:
		return fmt.Sprintf("<%T>", t)
	}
}

// stripGroups removes every "(group X)" wrapper from an s-expression.
func stripGroups(s string) string {
	for {
		i := strings.Index(s, "(group ")
		if i < 0 {
			return s
		}
		// find the matching parenthesis
		depth, j := 0, i
		for ; j < len(s); j++ {
			if s[j] == '(' {
				depth++
			} else if s[j] == ')' {
				depth--
				if depth == 0 {
					break
				}
			}
		}
		if j >= len(s) {
			return s
		}
		s = s[:i] + s[i+len("(group "):j] + s[j+1:]
	}
}

// ---------------------------------------------------------------- generic dump

var (
	spanType    = reflect.TypeOf(herrors.Span{})
	locType     = reflect.TypeOf(herrors.Location{})
	groupedType = reflect.TypeOf(pAst.GroupedExpression{})
)

// astDump renders any value of the repository's parse tree structurally, leaving out every
// span/location and replacing a GroupedExpression by its inner expression.
func astDump(v any) string {
	var b strings.Builder
	dumpValue(&b, reflect.ValueOf(v), 0)
	return b.String()
}

func dumpValue(b *strings.Builder, v reflect.Value, depth int) {
	if depth > 5000 {
		b.WriteString("<too deep>")
		return
	}
	if !v.IsValid() {
		b.WriteString("nil")
		return
	}
	switch v.Kind() {
	case reflect.Interface, reflect.Pointer:
		if v.IsNil() {
			b.WriteString("nil")
			return
		}
		dumpValue(b, v.Elem(), depth+1)
	case reflect.Struct:
		t := v.Type()
		if t == spanType || t == locType {
			return
		}
		if t == groupedType {
			dumpValue(b, v.FieldByName("Inner"), depth+1)
			return
		}
		b.WriteByte('(')
		b.WriteString(t.Name())
		for i := 0; i < v.NumField(); i++ {
			ft := t.Field(i).Type
			if ft == spanType || ft == locType {
				continue
			}
			b.WriteByte(' ')
			b.WriteString(t.Field(i).Name)
			b.WriteByte('=')
			dumpValue(b, v.Field(i), depth+1)
		}
		b.WriteByte(')')
	case reflect.Slice, reflect.Array:
		b.WriteByte('[')
		for i := 0; i < v.Len(); i++ {
			if i > 0 {
				b.WriteByte(' ')
			}
			dumpValue(b, v.Index(i), depth+1)
		}
		b.WriteByte(']')
	case reflect.Map:
		keys := v.MapKeys()
		sort.Slice(keys, func(i, j int) bool { return fmt.Sprint(keys[i]) < fmt.Sprint(keys[j]) })
		b.WriteByte('{')
		for _, k := range keys {
			dumpValue(b, k, depth+1)
			b.WriteByte(':')
			dumpValue(b, v.MapIndex(k), depth+1)
			b.WriteByte(' ')
		}
		b.WriteByte('}')
	case reflect.String:
		b.WriteString(strconv.Quote(v.String()))
	case reflect.Bool:
		b.WriteString(strconv.FormatBool(v.Bool()))
	case reflect.Int, reflect.Int8, reflect.Int16, reflect.Int32, reflect.Int64:
		b.WriteString(strconv.FormatInt(v.Int(), 10))
	case reflect.Uint, reflect.Uint8, reflect.Uint16, reflect.Uint32, reflect.Uint64:
		b.WriteString(strconv.FormatUint(v.Uint(), 10))
	case reflect.Float32, reflect.Float64:
		b.WriteString(strconv.FormatFloat(v.Float(), 'g', -1, 64))
	default:
		fmt.Fprintf(b, "<%s>", v.Kind())
	}
}

// outcomeKey is the layout-independent observation of a parse: the structural dump of the
// tree, or the error messages.
func outcomeKey(o parseOutcome) string {
	if k := o.errKey(); k != "" {
		return k
	}
	return astDump(o.Prog)
}

// ---------------------------------------------------------------- corpus

type corpusFile struct {
	Name string
	Text string
}

var corpusCache []corpusFile

// corpus returns every .hms file of /repo/examples and /repo/tests (sorted by path).
func corpus() []corpusFile {
	if corpusCache != nil {
		return corpusCache
	}
	var paths []string
	for _, d := range []string{"/repo/examples", "/repo/tests"} {
		m, _ := filepath.Glob(filepath.Join(d, "*.hms"))
		paths = append(paths, m...)
	}
	sort.Strings(paths)
	for _, p := range paths {
		b, err := os.ReadFile(p)
		if err != nil {
			continue
		}
		corpusCache = append(corpusCache, corpusFile{Name: strings.TrimPrefix(p, "/repo/"), Text: string(b)})
	}
	if corpusCache == nil {
		corpusCache = []corpusFile{}
	}
	return corpusCache
}
