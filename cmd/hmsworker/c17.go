package main

import (
	"fmt"
	"sort"
	"strings"

	"github.com/smarthome-go/homescript/v3/homescript/compiler"
	"github.com/smarthome-go/homescript/v3/homescript/runtime"
	"github.com/smarthome-go/homescript/v3/homescript/vsched"
)

// C17: spawned threads run to completion, are waited for, and do not race.

var schedLimits = runtime.CoreLimits{CallStackMaxSize: 50, StackMaxSize: 200, MaxMemorySize: 200}

func sortedLines(s string) string {
	ls := strings.Split(strings.TrimSuffix(s, "\n"), "\n")
	sort.Strings(ls)
	return strings.Join(ls, "|")
}

// spawnBody runs main and waits; it logs what the host sees at the moment Wait returns.
func spawnBody(h *hostEnv, prog compiler.CompileOutput) {
	vm := h.newVM(prog, schedLimits)
	vm.SpawnAsync(runtime.MainFn(), nil, nil, nil)
	_, i := vm.Wait()
	o := Obs{}
	classifyVM(&o, i, h.ctx)
	h.log("wait:%s%s", o.Class, kindSuffix(o.Kind))
	h.log("out-at-return:%s", sortedLines(h.rec.out.String()))
	h.log("unfinished-at-return:%d", vsched.Unfinished())
	h.log("unfinished:%s", vsched.UnfinishedDesc())
}

// spawnJudge checks a no-fault program: Wait returns normally and only after every line
// was printed exactly once and whole; nothing is left blocked at the end.
func spawnJudge(expectLines ...string) func(o execObs) (string, string) {
	sort.Strings(expectLines)
	want := strings.Join(expectLines, "|")
	return func(o execObs) (string, string) {
		if len(o.Events) < 3 {
			return "WAIT:did not return", fmt.Sprintf("events=%q", o.Events)
		}
		if o.Events[0] != "wait:ok" {
			return "WAIT:unexpected interrupt " + o.Events[0], fmt.Sprintf("events=%q", o.Events)
		}
		if got := strings.TrimPrefix(o.Events[1], "out-at-return:"); got != want {
			if sortedLines(o.Out) == want {
				return "WAIT-EARLY:returned before all spawned cores finished", fmt.Sprintf("output when Wait returned %q, complete output %q", got, sortedLines(o.Out))
			}
			return "OUTPUT:spawned functions did not each run exactly once", fmt.Sprintf("expected lines %q, got %q (final %q)", want, got, sortedLines(o.Out))
		}
		if o.Events[2] != "unfinished-at-return:0" {
			return "WAIT-EARLY:core threads still running when Wait returned", fmt.Sprintf("events=%q", o.Events)
		}
		if sortedLines(o.Out) != want {
			return "OUTPUT:late output after Wait", fmt.Sprintf("expected %q final %q", want, sortedLines(o.Out))
		}
		if len(o.Blocked) > 0 {
			return "LEFT-BLOCKED:" + blockedOps(o.Blocked), fmt.Sprintf("blocked=%v", o.Blocked)
		}
		return "", ""
	}
}

// faultJudge: one core dies with a fatal error; Wait must report it, every other core must
// terminate, nothing may stay blocked; lines in `never` must not be duplicated.
func faultJudge(kind string) func(o execObs) (string, string) {
	return func(o execObs) (string, string) {
		if len(o.Events) < 2 {
			return "WAIT:did not return", fmt.Sprintf("events=%q", o.Events)
		}
		if o.Events[0] != "wait:fatal/"+kind {
			return "WAIT:fatal interrupt of a core not reported (" + o.Events[0] + ")", fmt.Sprintf("events=%q out=%q", o.Events, o.Out)
		}
		if len(o.Blocked) > 0 {
			return "LEFT-BLOCKED:" + blockedOps(o.Blocked), fmt.Sprintf("blocked=%v", o.Blocked)
		}
		seen := map[string]bool{}
		for _, l := range strings.Split(strings.TrimSuffix(o.Out, "\n"), "\n") {
			if l != "" && seen[l] {
				return "OUTPUT:line printed twice", o.Out
			}
			seen[l] = true
		}
		if len(o.Events) > 2 && o.Events[2] != "unfinished-at-return:0" {
			return "WAIT-EARLY:interrupt path returns while cancelled cores are still running", fmt.Sprintf("events=%q", o.Events)
		}
		return "", ""
	}
}

var c17Cases = []schedCase{
	{
		Name: "two-spawns-args",
		Source: `fn main() {
    spawn a(1);
    spawn b(2);
    println("m");
}
fn a(x: int) { println("a", x); }
fn b(x: int) { println("b", x); }
`,
		Judge: spawnJudge("m", "a 1", "b 2"),
	},
	{
		Name: "several-arguments-of-different-types",
		Source: `fn main() {
    spawn three(1, "w", 10);
    spawn three(2, "v", 20);
}
fn three(a: int, b: str, c: int) { println("three", a, b, c); }
`,
		Judge: spawnJudge("three 1 w 10", "three 2 v 20"),
	},
	{
		// several cores loop over the SAME long-lived value: each loop has a cursor of its own
		Name: "cores-iterating-the-same-global-string-list-and-range",
		Source: `let S = "ab";
let L = [1, 2];
let R = 0..2;
fn main() {
    spawn w("x");
    spawn w("y");
}
fn w(tag: str) {
    let seen = "";
    for c in S { seen += c; }
    for n in L { seen += n.to_string(); }
    for i in R { seen += i.to_string(); }
    println(tag, seen);
}
`,
		LockedOutput: true,
		Judge:        spawnJudge("x ab1201", "y ab1201"),
	},
	{
		Name: "one-value-handed-to-two-spawns",
		Source: `fn main() {
    let s = "ab";
    let l = [1, 2];
    spawn w("x", s, l);
    spawn w("y", s, l);
}
fn w(tag: str, s: str, l: [int]) {
    let seen = "";
    for c in s { seen += c; }
    for n in l { seen += n.to_string(); }
    println(tag, seen);
}
`,
		Judge: spawnJudge("x ab12", "y ab12"),
	},
	{
		Name: "spawn-time-argument",
		Source: `fn main() {
    let x = 1;
    spawn p(x);
    x = 2;
    println("m", x);
}
fn p(v: int) { println("p", v); }
`,
		Judge: spawnJudge("m 2", "p 1"),
	},
	{
		Name: "nested-spawn",
		Source: `fn main() {
    spawn b();
    spawn a();
}
fn a() { }
fn b() { spawn c(); }
fn c() { println("c"); }
`,
		Judge: spawnJudge("c"),
	},
	{
		Name: "shared-global",
		Source: `let g = 0;
fn main() {
    spawn inc();
    spawn inc();
    g += 1;
}
fn inc() {
    g += 1;
    println("i");
}
`,
		Judge: spawnJudge("i", "i"),
	},
	{
		// a global written by two cores in turn: each core reads what the other one stored last,
		// also right after a store of its own
		Name: "global-handed-back-and-forth",
		Source: `let shared = 0;
fn w() {
    shared = shared + 10;
    println("w stored");
}
fn main() {
    shared = 1;
    spawn w();
    let i = 0;
    while i < 6 { i += 1; }
    println("main reads");
    shared = shared + 100;
    println(shared);
}
`,
		Judge: func(o execObs) (string, string) {
			if len(o.Events) < 1 || o.Events[0] != "wait:ok" {
				return "WAIT:unexpected outcome", fmt.Sprintf("events=%q", o.Events)
			}
			lines := strings.Split(strings.TrimSuffix(o.Out, "\n"), "\n")
			pos := map[string]int{}
			val := ""
			for k, l := range lines {
				pos[l] = k + 1
				if l != "w stored" && l != "main reads" {
					val = l
				}
			}
			if len(lines) != 3 || pos["w stored"] == 0 || pos["main reads"] == 0 {
				return "OUTPUT:spawned functions did not each run exactly once", fmt.Sprintf("%q", o.Out)
			}
			// the worker's store is complete when its line is out: a read that starts later sees it
			if pos["w stored"] < pos["main reads"] && val != "111" {
				return "STALE-GLOBAL:a core read a global without the store another core had completed before", fmt.Sprintf("%q", o.Out)
			}
			// otherwise the three accesses of main (load, store, load for the print) and the two of the
			// worker interleave: 111, 101 (the worker's update lost) or 11 (main's update lost)
			if val != "111" && val != "101" && val != "11" {
				return "OUTPUT:impossible value of the shared global", fmt.Sprintf("%q", o.Out)
			}
			if len(o.Blocked) > 0 {
				return "LEFT-BLOCKED:" + blockedOps(o.Blocked), fmt.Sprintf("blocked=%v", o.Blocked)
			}
			return "", ""
		},
	},
	{
		Name: "long-worker-crosses-quantum",
		Source: `fn main() {
    spawn w();
    println("m");
}
fn w() {
    let i = 0;
    while i < 12 { i += 1; }
    println("w", i);
}
`,
		Judge: spawnJudge("m", "w 12"),
	},
	{
		// the host's sink is locked per write, as in the project's own executor: what one
		// print statement emits must still arrive as one piece
		Name: "printers-on-a-locked-host-sink",
		Source: `fn main() {
    spawn a(1);
    spawn b(2);
}
fn a(x: int) { println("a", x); }
fn b(x: int) { println("b", x); print("c", x, "\n"); }
`,
		LockedOutput: true,
		Judge:        spawnJudge("a 1", "b 2", "c 2 "),
	},
	{
		Name: "fatal-core",
		Source: `fn main() {
    spawn bad();
    spawn good();
}
fn bad() {
    let l = [1];
    l[5];
}
fn good() { println("g"); }
`,
		Judge: faultJudge("IndexOutOfBounds"),
		Tags:  []string{"fault"},
	},
	{
		Name: "fatal-main-with-running-child",
		Source: `fn main() {
    spawn w();
    let l = [1];
    l[5];
}
fn w() {
    let i = 0;
    while i < 12 { i += 1; }
    println("w");
}
`,
		Judge: faultJudge("IndexOutOfBounds"),
		Tags:  []string{"fault"},
	},
}

// spawnBodyTwoWaiters: next to the thread that waits (and consumes the cores' signals) a second
// host thread waits for the VM to become idle without consuming anything.
func spawnBodyTwoWaiters(h *hostEnv, prog compiler.CompileOutput) {
	vm := h.newVM(prog, schedLimits)
	vm.SpawnAsync(runtime.MainFn(), nil, nil, nil)
	vsched.GoLow(func() {
		vm.WaitNonConsuming()
		h.log("idle-waiter-returned")
	})
	_, i := vm.Wait()
	o := Obs{}
	classifyVM(&o, i, h.ctx)
	h.log("wait:%s%s", o.Class, kindSuffix(o.Kind))
}

func init() {
	c17Cases = append(c17Cases, schedCase{
		Name: "a-second-host-thread-waits-for-idle",
		Source: `fn main() {
    spawn w(1);
    println("m");
}
fn w(n: int) {
    println("w", n);
}
`,
		Body: spawnBodyTwoWaiters,
		Judge: func(o execObs) (string, string) {
			seen := map[string]bool{}
			for _, e := range o.Events {
				seen[e] = true
			}
			if !seen["wait:ok"] {
				return "WAIT:did not return", fmt.Sprintf("events=%q", o.Events)
			}
			if !seen["idle-waiter-returned"] {
				return "WAIT:WaitNonConsuming did not return although every core finished", fmt.Sprintf("events=%q blocked=%v", o.Events, o.Blocked)
			}
			if len(o.Blocked) > 0 {
				return "LEFT-BLOCKED:" + blockedOps(o.Blocked), fmt.Sprintf("blocked=%v", o.Blocked)
			}
			return "", ""
		},
	})
	for i := range c17Cases {
		if c17Cases[i].Body == nil {
			c17Cases[i].Body = spawnBody
		}
		c17Cases[i].Bound = map[string]int{"quick": 3, "thorough": 4}
	}
	register("C17", func() *Check {
		return &Check{ID: "C17", Scenarios: []Scenario{schedScenario("spawn-schedules", c17Cases)}}
	})
}
