// Command hmsworker is the harness that is linked against the repository's current
// working tree (through `go build -overlay`) and enumerates cases of one check.
//
// Protocol (fd 3, line oriented; stdout is discarded because repository code prints debug
// text): "S <global index>" before each case, "F <json>" for each failure, "D <json>" at
// the end. A worker that dies between two S lines is restarted by the driver after the
// announced index and the death is attributed to that case.
package main

import (
	"encoding/binary"
	"encoding/json"
	"flag"
	"fmt"
	"hash/fnv"
	"os"
	"sort"
	"strings"
	"time"
)

// Fail is one failing case.
type Fail struct {
	Class    string   `json:"class"`
	Tags     []string `json:"tags,omitempty"`
	Scenario string   `json:"scenario"`
	Index    int      `json:"index"` // global index
	Case     string   `json:"case"`
	Detail   string   `json:"detail"`
}

// Result collects what one worker run produced.
type Result struct {
	Evals       int            `json:"evals"`
	States      int            `json:"states"`
	Transitions int64          `json:"transitions"`
	Validated   int            `json:"validated"`
	Samples     []string       `json:"samples"`
	PerScenario map[string]int `json:"per_scenario"`
	Outcomes    map[string]int `json:"outcomes"`
	Notes       map[string]int `json:"notes"`
	Incomplete  []string       `json:"incomplete,omitempty"`
	NFails      int            `json:"nfails"`

	// failFilter, when set, drops failures whose class it rejects (a check re-using another
	// check's scenario with a narrower oracle).
	failFilter func(class string) bool
	cur        string
	curIdx     int
	caseObs    []string
	beats      int
	hashes     map[uint64]struct{}
	hashFile   *os.File
	out        *os.File
	tier       string
	deadline   time.Time
	shard      int
	nshards    int
}

func (r *Result) Fail(class string, tags []string, cas, detail string) {
	if r.failFilter != nil && !r.failFilter(class) {
		return
	}
	r.NFails++
	if len(detail) > 1500 {
		detail = detail[:1500] + "..."
	}
	b, _ := json.Marshal(Fail{Class: class, Tags: tags, Scenario: r.cur, Index: r.curIdx, Case: cas, Detail: detail})
	fmt.Fprintf(r.out, "F %s\n", b)
}

// Distinct records the observation key of a non-trivial case for the distinct count.
func (r *Result) Distinct(key string) {
	h := fnv.New64a()
	h.Write([]byte(key))
	v := h.Sum64()
	if _, ok := r.hashes[v]; ok {
		return
	}
	r.hashes[v] = struct{}{}
	if r.hashFile != nil {
		var b [8]byte
		binary.LittleEndian.PutUint64(b[:], v)
		r.hashFile.Write(b[:])
	}
}

// Obs records an observation of the current case for the conformance comparison between
// the instrumented and the plain build.
func (r *Result) Obs(o Obs) {
	h := fnv.New64a()
	h.Write([]byte(o.Key()))
	r.caseObs = append(r.caseObs, fmt.Sprintf("%s:%x", o.Class, h.Sum64()))
}

// Volatile marks the current case as having a run-to-run nondeterministic observation for a
// documented reason (e.g. a known finding rooted in map iteration order): the conformance
// comparison between builds skips it.
func (r *Result) Volatile() { r.caseObs = append(r.caseObs, "volatile") }

// Beat tells the driver's idle watchdog that a long-running case is making progress.
func (r *Result) Beat() {
	r.beats++
	if r.beats%1000 == 0 {
		fmt.Fprintf(r.out, "H %d\n", r.beats)
	}
}

func (r *Result) Outcome(class string) { r.Outcomes[class]++ }
func (r *Result) Note(k string, n int) { r.Notes[k] += n }
func (r *Result) Trans(n int)          { r.Transitions += int64(n) }
func (r *Result) Sample(s string) {
	if len(r.Samples) < 4 {
		r.Samples = append(r.Samples, s)
	}
}
func (r *Result) MarkIncomplete(why string) {
	for _, w := range r.Incomplete {
		if w == why {
			return
		}
	}
	r.Incomplete = append(r.Incomplete, why)
}

// Scenario is an index-addressable finite family of cases.
type Scenario struct {
	Name  string
	Count func(tier string) int
	Run   func(tier string, idx int, r *Result)
}

// Check is the set of scenarios deciding one property.
type Check struct {
	ID        string
	Scenarios []Scenario
}

var checks = map[string]func() *Check{}

// register records a check builder; builders run after all init functions.
func register(id string, build func() *Check) { checks[id] = build }

func main() {
	id := flag.String("check", "", "property id")
	tier := flag.String("tier", "quick", "quick|thorough")
	shard := flag.Int("shard", 0, "")
	nshards := flag.Int("nshards", 1, "")
	from := flag.Int("from", 0, "first global index to consider")
	only := flag.Int("only", -1, "run only this global index")
	hashout := flag.String("hashout", "", "file receiving distinct observation hashes")
	fd := flag.Int("fd", 3, "result fd")
	budget := flag.Duration("budget", 0, "wall budget for this worker (0: none)")
	count := flag.Bool("count", false, "print the number of cases and exit")
	verbose := flag.Bool("v", false, "print each case result to stderr")
	emitObs := flag.Bool("emitobs", false, "emit an observation digest per case")
	stride := flag.Int("stride", 1, "consider only global indices divisible by this (sharding applies to index/stride)")
	flag.Parse()

	var c *Check
	if b := checks[*id]; b != nil {
		c = b()
	}
	if c == nil {
		var ids []string
		for k := range checks {
			ids = append(ids, k)
		}
		sort.Strings(ids)
		fmt.Fprintf(os.Stderr, "unknown check %q (have %s)\n", *id, strings.Join(ids, " "))
		os.Exit(2)
	}
	total := 0
	for _, s := range c.Scenarios {
		total += s.Count(*tier)
	}
	if *count {
		fmt.Println(total)
		return
	}
	out := os.Stderr
	if *fd > 2 {
		if f := os.NewFile(uintptr(*fd), "results"); f != nil {
			out = f
		}
	}
	if null, err := os.OpenFile("/dev/null", os.O_WRONLY, 0); err == nil && !*verbose {
		os.Stdout = null
	}
	r := &Result{PerScenario: map[string]int{}, Outcomes: map[string]int{}, Notes: map[string]int{}, hashes: map[uint64]struct{}{}, out: out, tier: *tier, shard: *shard, nshards: *nshards}
	if *budget > 0 {
		r.deadline = time.Now().Add(*budget)
	}
	if *hashout != "" {
		f, err := os.OpenFile(*hashout, os.O_APPEND|os.O_CREATE|os.O_WRONLY, 0o644)
		if err == nil {
			r.hashFile = f
			defer f.Close()
		}
	}
	beatHook = func() { fmt.Fprintf(out, "H %d\n", r.beats) }
	g := 0
	stopped := false
	for _, s := range c.Scenarios {
		n := s.Count(*tier)
		for i := 0; i < n; i, g = i+1, g+1 {
			if *only >= 0 {
				if g != *only {
					continue
				}
			} else if g < *from || g%*stride != 0 || (g / *stride)%*nshards != *shard {
				continue
			}
			if !r.deadline.IsZero() && time.Now().After(r.deadline) {
				if !stopped {
					r.MarkIncomplete(fmt.Sprintf("time cap hit in scenario %s", s.Name))
					stopped = true
				}
				continue
			}
			fmt.Fprintf(out, "S %d\n", g)
			r.cur, r.curIdx = s.Name, g
			before := r.NFails
			r.caseObs = r.caseObs[:0]
			s.Run(*tier, i, r)
			if *emitObs {
				fmt.Fprintf(out, "O %d %s\n", g, strings.Join(r.caseObs, ","))
			}
			r.Evals++
			r.PerScenario[s.Name]++
			if *verbose {
				fmt.Fprintf(os.Stderr, "case %d (%s #%d): fails=%d\n", g, s.Name, i, r.NFails-before)
			}
		}
	}
	if guardStarved > 0 {
		r.MarkIncomplete(fmt.Sprintf("%d child-process probes never received enough processor time for a verdict (machine loaded); those inputs were not judged", guardStarved))
	}
	r.States = len(r.hashes)
	b, _ := json.Marshal(r)
	fmt.Fprintf(out, "D %s\n", b)
}
