package main

import (
	"fmt"
	"strings"

	"github.com/smarthome-go/homescript/v3/homescript/analyzer/ast"
	"github.com/smarthome-go/homescript/v3/homescript/compiler"
	herrors "github.com/smarthome-go/homescript/v3/homescript/errors"
	pAst "github.com/smarthome-go/homescript/v3/homescript/parser/ast"
	"github.com/smarthome-go/homescript/v3/homescript/runtime"
	"github.com/smarthome-go/homescript/v3/homescript/runtime/value"
	"github.com/smarthome-go/homescript/v3/homescript/vsched"

	"hmsverif/internal/hs"
)

// C16: host invocations on one VM are correct, repeatable and leave no residue.

func c16Program() *hs.Program {
	intT := hs.TInt
	objT := hs.TObj(hs.Field{Name: "a", T: hs.TInt}, hs.Field{Name: "b", T: hs.TStr})
	return &hs.Program{
		Globals: []*hs.Let{{Name: "counter", X: hs.I(0)}, {Name: "done", X: hs.I(0)}, {Name: "first", X: hs.I(0)}, {Name: "second", X: hs.I(0)}, {Name: "ITEMS", X: hs.List(hs.I(10), hs.I(20), hs.I(30))}},
		Funcs: []*hs.Func{
			hs.Fn("main", nil, hs.Blk(nil)),
			hs.Fn("sub", intT, hs.Blk(hs.Bin("-", hs.V("a"), hs.V("b"))), hs.P("a", intT), hs.P("b", intT)),
			hs.Fn("inc", intT, hs.Blk(hs.V("counter"), hs.ES(hs.Asg("+=", hs.V("counter"), hs.I(1))))),
			hs.Fn("get", intT, hs.Blk(hs.V("counter"))),
			// returns from inside a loop inside TWO nested tries (every handler the function installed
			// has to go when it returns)
			hs.Fn("early", intT, hs.Blk(hs.I(-1),
				hs.LetS("i", hs.I(0)),
				&hs.Loop{Body: hs.Blk(nil,
					hs.ES(&hs.Try{Body: hs.Blk(nil,
						hs.ES(&hs.Try{Body: hs.Blk(nil,
							hs.ES(&hs.If{Cond: hs.Bin("==", hs.V("i"), hs.V("n")), Then: hs.Blk(nil, &hs.Return{X: hs.Bin("*", hs.V("i"), hs.I(10))})}),
							hs.ES(hs.Asg("+=", hs.V("i"), hs.I(1))),
						), Var: "inner", Catch: hs.Blk(nil, &hs.Return{X: hs.I(-3)})}),
					), Var: "e", Catch: hs.Blk(nil, &hs.Return{X: hs.I(-2)})}),
				)},
			), hs.P("n", intT)),
			// the caller throws inside its own try after a callee has returned from inside nested tries
			hs.Fn("viacallee", intT, hs.Blk(&hs.Try{
				Body:  hs.Blk(hs.I(1), hs.ES(hs.CallN("early", hs.I(0))), hs.ES(hs.CallN("throw", hs.S("after")))),
				Var:   "e",
				Catch: hs.Blk(hs.Bin("+", hs.I(1100), hs.V("counter")))})),
			hs.Fn("boom", intT, hs.Blk(hs.I(1), hs.ES(hs.CallN("throw", hs.S("bad"))))),
			hs.Fn("deep", intT, hs.Blk(&hs.If{Cond: hs.Bin("==", hs.V("n"), hs.I(0)), Then: hs.Blk(hs.I(0)), Else: hs.Blk(hs.Bin("+", hs.I(1), hs.CallN("deep", hs.Bin("-", hs.V("n"), hs.I(1)))))}), hs.P("n", intT)),
			hs.Fn("obj", objT, hs.Blk(&hs.ObjLit{Fields: []hs.ObjField{{Name: "a", X: hs.V("counter")}, {Name: "b", X: hs.S("x")}}})),
			// a host call that spawns threads which finish in different orders
			hs.Fn("short", nil, hs.Blk(nil)),
			hs.Fn("medium", nil, hs.Blk(nil, hs.LetS("i", hs.I(0)), &hs.While{Cond: hs.Bin("<", hs.V("i"), hs.I(12)), Body: hs.Blk(nil, hs.ES(hs.Asg("+=", hs.V("i"), hs.I(1))))})),
			hs.Fn("long", nil, hs.Blk(nil, hs.LetS("i", hs.I(0)), &hs.While{Cond: hs.Bin("<", hs.V("i"), hs.I(25)), Body: hs.Blk(nil, hs.ES(hs.Asg("+=", hs.V("i"), hs.I(1))))}, hs.ES(hs.Asg("+=", hs.V("done"), hs.I(1))))),
			hs.Fn("launch", intT, hs.Blk(hs.I(7),
				hs.ES(&hs.Spawn{Fn: "short"}), hs.ES(&hs.Spawn{Fn: "medium"}),
				hs.LetS("i", hs.I(0)), &hs.While{Cond: hs.Bin("<", hs.V("i"), hs.I(12)), Body: hs.Blk(nil, hs.ES(hs.Asg("+=", hs.V("i"), hs.I(1))))},
				hs.ES(&hs.Spawn{Fn: "long"}))),
			hs.Fn("getdone", intT, hs.Blk(hs.V("done"))),
			// a loop over a long-lived list handed out by a call, left early: the next call (and
			// the next loop) must start from the first element again
			hs.Fn("items", hs.TList(intT), hs.Blk(hs.V("ITEMS"))),
			hs.Fn("firstover", intT, hs.Blk(hs.I(-1),
				&hs.For{Var: "x", Iter: hs.CallN("items"), Body: hs.Blk(nil, hs.ES(&hs.If{Cond: hs.Bin(">", hs.V("x"), hs.V("n")), Then: hs.Blk(nil, &hs.Return{X: hs.V("x")})}))}), hs.P("n", intT)),
			// heap state reachable from a global persists from call to call
			hs.Fn("grow", intT, hs.Blk(hs.MCall(hs.V("ITEMS"), "len"), hs.ES(hs.MCall(hs.V("ITEMS"), "push", hs.I(40))))),
			// values built from literals are new on every call: what one call adds to them (a key set on
			// an any-object, an element pushed onto an empty or a non-empty list, a field assigned) is not
			// there when the next call evaluates the same literals
			hs.Fn("fresh", intT, hs.Blk(
				hs.Bin("+", hs.Bin("+", hs.Bin("*", hs.MCall(hs.MCall(hs.V("o"), "keys"), "len"), hs.I(1000)), hs.Bin("*", hs.MCall(hs.V("e"), "len"), hs.I(100))),
					hs.Bin("+", hs.Bin("*", hs.MCall(hs.V("l"), "len"), hs.I(10)), hs.Bin("+", hs.Mem(hs.V("ob"), "a"), hs.MCall(hs.Idx(hs.V("nested"), hs.I(0)), "len")))),
				hs.LetS("o", &hs.AnyObjLit{}), hs.ES(hs.MCall(hs.V("o"), "set", hs.Bin("+", hs.S("k"), hs.MCall(hs.V("n"), "to_string")), hs.V("n"))),
				hs.LetT("e", hs.TList(intT), hs.List()), hs.ES(hs.MCall(hs.V("e"), "push", hs.V("n"))),
				hs.LetS("l", hs.List(hs.I(1), hs.I(2))), hs.ES(hs.MCall(hs.V("l"), "push", hs.V("n"))),
				hs.LetS("ob", &hs.ObjLit{Fields: []hs.ObjField{{Name: "a", X: hs.I(1)}}}), hs.ES(hs.Asg("+=", hs.Mem(hs.V("ob"), "a"), hs.V("n"))),
				hs.LetS("nested", hs.List(hs.List(hs.I(0)))), hs.ES(hs.MCall(hs.Idx(hs.V("nested"), hs.I(0)), "push", hs.V("n"))),
			), hs.P("n", intT)),
			// a thread started with several arguments by one call leaves them in globals a later call reads
			hs.Fn("store2", nil, hs.Blk(nil, hs.ES(hs.Asg("=", hs.V("first"), hs.V("x"))), hs.ES(hs.Asg("=", hs.V("second"), hs.V("y")))), hs.P("x", intT), hs.P("y", intT)),
			hs.Fn("start2", intT, hs.Blk(hs.I(0), hs.ES(&hs.Spawn{Fn: "store2", Args: []hs.Expr{hs.V("a"), hs.V("b")}})), hs.P("a", intT), hs.P("b", intT)),
			hs.Fn("diff", intT, hs.Blk(hs.Bin("-", hs.V("first"), hs.V("second")))),
			// `continue` out of a catch block inside a loop inside a try: the handlers installed when the
			// call returns are those it was entered with, whichever arguments made the catch block run
			hs.Fn("skipodd", intT, hs.Blk(hs.V("total"),
				hs.LetS("total", hs.I(0)),
				hs.ES(&hs.Try{Body: hs.Blk(nil,
					&hs.For{Var: "i", Iter: &hs.RangeLit{From: hs.I(0), To: hs.V("n")}, Body: hs.Blk(nil,
						hs.ES(&hs.Try{Body: hs.Blk(nil,
							hs.ES(&hs.If{Cond: hs.Bin("==", hs.Bin("%", hs.V("i"), hs.I(2)), hs.I(1)), Then: hs.Blk(nil, hs.ES(hs.CallN("throw", hs.S("odd"))))}),
							hs.ES(hs.Asg("+=", hs.V("total"), hs.Bin("+", hs.V("i"), hs.I(1))))),
							Var: "e", Catch: hs.Blk(nil, &hs.Continue{})}))},
					hs.ES(hs.CallN("throw", hs.S("after")))),
					Var: "outer", Catch: hs.Blk(nil, hs.ES(hs.Asg("+=", hs.V("total"), hs.I(100))))}),
			), hs.P("n", intT)),
			// a `return` executed while operands of enclosing expressions are pending (the left operand
			// of an addition; an earlier argument of a call): the result of the call is the returned value
			hs.Fn("pending", intT, hs.Blk(hs.V("x"),
				hs.LetS("x", hs.Bin("+", hs.I(100), &hs.If{Cond: hs.Bin(">", hs.V("n"), hs.I(5)), Then: hs.Blk(nil, &hs.Return{X: hs.V("n")}), Else: hs.Blk(hs.V("n"))}))), hs.P("n", intT)),
			hs.Fn("argret", intT, hs.Blk(hs.CallN("sub", hs.I(50), &hs.If{Cond: hs.Bin("<", hs.V("n"), hs.I(0)), Then: hs.Blk(nil, &hs.Return{X: hs.I(-1)}), Else: hs.Blk(hs.V("n"))})), hs.P("n", intT)),
			// an exception raised and caught in the same frame while operands are pending inside and
			// outside the try: 100 + (try { 10 + <throws> } catch { 7 }) == 107
			hs.Fn("caught", intT, hs.Blk(hs.Bin("+", hs.I(100), &hs.Try{
				Body:  hs.Blk(hs.Bin("+", hs.I(10), &hs.If{Cond: hs.Bin(">=", hs.V("counter"), hs.I(0)), Then: hs.Blk(hs.I(1), hs.ES(hs.CallN("throw", hs.S("inner")))), Else: hs.Blk(hs.I(2))})),
				Var:   "e",
				Catch: hs.Blk(hs.I(7))}))),
		},
	}
}

type hostCall struct {
	Fn   string
	Args []int64
}

func (c hostCall) String() string {
	var as []string
	for _, a := range c.Args {
		as = append(as, fmt.Sprint(a))
	}
	return c.Fn + "(" + strings.Join(as, ",") + ")"
}

var c16Alphabet = []hostCall{
	{"sub", []int64{1, 0}}, {"sub", []int64{0, 1}}, {"inc", nil}, {"get", nil}, {"early", []int64{0}}, {"early", []int64{2}},
	{"boom", nil}, {"viacallee", nil}, {"deep", []int64{3}}, {"obj", nil}, {"caught", nil}, {"launch", nil}, {"getdone", nil},
	{"firstover", []int64{15}}, {"firstover", []int64{5}}, {"grow", nil}, {"fresh", []int64{1}}, {"fresh", []int64{2}}, {"skipodd", []int64{1}}, {"skipodd", []int64{3}}, {"start2", []int64{7, 2}}, {"diff", nil},
	{"pending", []int64{9}}, {"pending", []int64{2}}, {"argret", []int64{-4}}, {"items", nil},
}

var sp = herrors.Span{}

func c16Signature(fn string) runtime.FunctionInvocationSignature {
	intT := ast.NewIntType(sp)
	param := func(n string) runtime.FunctionInvocationSignatureParam {
		return runtime.FunctionInvocationSignatureParam{Ident: n, Type: intT}
	}
	switch fn {
	case "sub", "start2":
		return runtime.FunctionInvocationSignature{Params: []runtime.FunctionInvocationSignatureParam{param("a"), param("b")}, ReturnType: intT}
	case "early", "deep", "firstover", "fresh", "skipodd", "pending", "argret":
		return runtime.FunctionInvocationSignature{Params: []runtime.FunctionInvocationSignatureParam{param("n")}, ReturnType: intT}
	case "items":
		return runtime.FunctionInvocationSignature{ReturnType: ast.NewListType(intT, sp)}
	case "obj":
		return runtime.FunctionInvocationSignature{ReturnType: ast.NewObjectType([]ast.ObjectTypeField{
			ast.NewObjectTypeField(pAst.NewSpannedIdent("a", sp), intT, sp),
			ast.NewObjectTypeField(pAst.NewSpannedIdent("b", sp), ast.NewStringType(sp), sp),
		}, sp)}
	}
	return runtime.FunctionInvocationSignature{ReturnType: intT}
}

// c16History decodes idx into a history of calls: all histories of length 1..maxLen.
func c16History(idx, maxLen int) []hostCall {
	n := len(c16Alphabet)
	for l := 1; l <= maxLen; l++ {
		c := 1
		for i := 0; i < l; i++ {
			c *= n
		}
		if idx < c {
			h := make([]hostCall, l)
			for i := l - 1; i >= 0; i-- {
				h[i] = c16Alphabet[idx%n]
				idx /= n
			}
			return h
		}
		idx -= c
	}
	return nil
}

func c16Count(maxLen int) int {
	n, total, c := len(c16Alphabet), 0, 1
	for l := 1; l <= maxLen; l++ {
		c *= n
		total += c
	}
	return total
}

// c16Expected computes the expected host-visible log of a history with the reference evaluator.
func c16Expected(prog *hs.Program, pr *hs.Printed, hist []hostCall) []string {
	in := hs.NewInterp(prog, pr, 100000)
	in.SpawnInline = true
	in.Init()
	failed := false
	var ev []string
	for _, c := range hist {
		if failed {
			ev = append(ev, c.String()+"=FAIL")
			continue
		}
		args := make([]hs.Val, len(c.Args))
		for i, a := range c.Args {
			args[i] = a
		}
		v, ctl := in.CallNamed(c.Fn, args)
		if ctl != nil {
			failed = true
			ev = append(ev, c.String()+"=FAIL")
			continue
		}
		ev = append(ev, c.String()+"="+hs.Display(v))
	}
	return ev
}

func c16Body(hist []hostCall, inspect bool) func(h *hostEnv, prog compiler.CompileOutput) {
	return func(h *hostEnv, prog compiler.CompileOutput) {
		vm := h.newVM(prog, schedLimits)
		// a host may keep one argument slice per call site and reuse it for repeated calls: the VM
		// must neither reorder nor convert the host's slice in place
		hostArgs := map[string][]value.Value{}
		// what a call has returned is the host's: a later call does not change it
		type heldResult struct {
			call, shown string
			v           value.Value
		}
		var held []heldResult
		for _, c := range hist {
			args, reused := hostArgs[c.String()]
			if !reused {
				args = make([]value.Value, len(c.Args))
				for i, a := range c.Args {
					args[i] = *value.NewValueInt(a)
				}
				hostArgs[c.String()] = args
			}
			inv := runtime.FunctionInvocation{Function: c.Fn, Args: args, FunctionSignature: c16Signature(c.Fn)}
			var res runtime.FunctionInvocationResult
			var core *runtime.Core
			if inspect {
				core = vm.SpawnAsync(inv, nil, nil, nil)
				n, i := vm.Wait()
				res = vm.HandleTermination(core, inv, i, n)
			} else {
				res = vm.SpawnSync(inv, nil, nil)
			}
			for i, a := range c.Args {
				if iv, ok := args[i].(value.ValueInt); !ok || iv.Inner != a {
					h.log("residue after %s: host-argument-slice-modified (argument %d is now %s)", c.String(), i, showValue(args[i]))
					break
				}
			}
			if res.Exception != nil {
				h.log("%s=FAIL", c.String())
			} else {
				d := "<nil>"
				if res.ReturnValue != nil {
					d = showValue(res.ReturnValue)
				}
				for _, hr := range held {
					if now := showValue(hr.v); now != hr.shown {
						h.log("residue after %s: result-of-an-earlier-call-changed (%s returned %s, the host now holds %s)", c.String(), hr.call, hr.shown, now)
						break
					}
				}
				if res.ReturnValue != nil {
					held = append(held, heldResult{c.String(), d, res.ReturnValue})
				}
				h.log("%s=%s", c.String(), d)
				if inspect {
					// Core-local leftovers (operand stack, memory pointer, handlers) die with the core and
					// cannot influence a later call; they are C01/C11's business. A completed call must
					// however have unwound every frame.
					var parts []string
					if n := len(core.CallStack); n != 0 {
						parts = append(parts, fmt.Sprintf("frames=%d", n))
					}
					if len(parts) > 0 {
						h.log("residue after %s: %s", c.String(), strings.Join(parts, ","))
					}
				}
			}
			if n := len(vm.Cores.Cores); n != 0 {
				h.log("residue after %s: cores=%d", c.String(), n)
			}
			if ls := coresLockState(vm); ls != "free" {
				h.log("residue after %s: coreslock=%s", c.String(), ls)
			}
			if u := vsched.Unfinished(); u != 0 && res.Exception == nil {
				h.log("residue after %s: unfinished-core-threads=%d (%s)", c.String(), u, vsched.UnfinishedDesc())
			}
		}
	}
}

func c16Judge(want []string) func(o execObs) (string, string) {
	return func(o execObs) (string, string) {
		var calls []string
		for _, e := range o.Events {
			if strings.HasPrefix(e, "residue after ") {
				f := e[strings.Index(e, ": ")+2:]
				if i := strings.IndexAny(f, "= "); i > 0 {
					f = f[:i]
				}
				return "RESIDUE:" + f, fmt.Sprintf("events=%q", o.Events)
			}
			calls = append(calls, e)
		}
		if strings.Join(calls, ";") != strings.Join(want, ";") {
			return "RESULT:host call results differ from the reference history", fmt.Sprintf("expected %q got %q", want, calls)
		}
		if len(o.Blocked) > 0 {
			return "LEFT-BLOCKED:" + blockedOps(o.Blocked), fmt.Sprintf("blocked=%v", o.Blocked)
		}
		return "", ""
	}
}

func init() {
	register("C16", func() *Check {
		prog := c16Program()
		pr := hs.Print(prog)
		maxLen := func(tier string) int { return 2 }
		mk := func(name string, inspect bool, bounds map[string]int, lenOf func(string) int) Scenario {
			return Scenario{
				Name:  name,
				Count: func(tier string) int { return c16Count(lenOf(tier)) },
				Run: func(tier string, idx int, r *Result) {
					hist := c16History(idx, lenOf(tier))
					var names []string
					for _, c := range hist {
						names = append(names, c.String())
					}
					sc := schedCase{
						Name:   name + ":" + strings.Join(names, ","),
						Source: pr.Text + "// host history: " + strings.Join(names, ", ") + "\n",
						Bound:  bounds,
						Body:   c16Body(hist, inspect),
						Judge:  c16Judge(c16Expected(prog, &pr, hist)),
					}
					for _, c := range hist {
						if c.Fn == "boom" {
							sc.Tags = []string{"after-failed-call"}
						}
					}
					exploreCase(sc, tier, 0, 1, r)
				},
			}
		}
		return &Check{ID: "C16", Scenarios: []Scenario{
			mk("spawnsync-histories", false, map[string]int{"quick": 2, "thorough": 2}, maxLen),
			// thorough only (histories of length 0 in quick: none)
			mk("single-calls-deeper-schedules", false, map[string]int{"quick": 3, "thorough": 3}, func(tier string) int {
				if tier == "thorough" {
					return 1
				}
				return 0
			}),
			mk("inspected-histories", true, map[string]int{"quick": 1, "thorough": 2}, maxLen),
			mk("longer-histories-default-schedule", false, map[string]int{"quick": 0, "thorough": 0}, func(tier string) int {
				if tier == "thorough" {
					return 4
				}
				return 1
			}),
			// last: at the thorough bound this scenario may use up the remaining time budget (the
			// completed part is reported, the tier then says exhaustive:false)
			mk("long-histories", false, map[string]int{"quick": 1, "thorough": 2}, func(string) int { return 3 }),
		}}
	})
}
