package main

// C03 base families: closures and returns, loops, value-producing branches.

import (
	"fmt"

	"hmsverif/internal/hs"
)

// result types used by the control-flow families (nil entry: null)
func c03Rets(tier string) []*tyd {
	prims := c03Prims("quick")
	out := []*tyd{nil, &prims[0], &prims[3], &prims[2]}
	if tier == "thorough" {
		l, o := tList(prims[0]), tOpt(prims[3])
		out = append(out, &prims[1], &l, &o)
	}
	return out
}

func retType(d *tyd) *hs.Type {
	if d == nil {
		return nil
	}
	return d.t
}

func retName(d *tyd) string {
	if d == nil {
		return "null"
	}
	return d.name
}

// retStmt / tailOf produce `return v;` and the tail value for a result type
func retStmt(d *tyd, k int) hs.Stmt {
	if d == nil {
		return &hs.Return{}
	}
	return &hs.Return{X: d.val(k)}
}

func tailOf(d *tyd, k int) hs.Expr {
	if d == nil {
		return nil
	}
	return d.val(k)
}

func rng(n int64) hs.Expr { return &hs.RangeLit{From: hs.I(0), To: hs.I(n)} }

func ifThen(c hs.Expr, st ...hs.Stmt) hs.Stmt {
	return &hs.ExprStmt{X: &hs.If{Cond: c, Then: hs.Blk(nil, st...)}}
}

// ---------------------------------------------------------------- family: closures

const (
	nClosureStyles  = 3
	nClosureLayouts = 12
)

func c03ClosuresCase(tier string, idx int) *c03Case {
	rets := c03Rets(tier)
	d := radix(idx, nClosureLayouts, nClosureStyles, len(rets), len(rets))
	layout, style, R2, R1 := d[0], d[1], rets[d[2]], rets[d[3]]
	tags := []string{"outer:" + retName(R1), "closure:" + retName(R2), fmt.Sprintf("layout:%d", layout), fmt.Sprintf("style:%d", style)}
	// the closure under test
	closure := func(extra ...hs.Stmt) *hs.FnLit {
		var b *hs.Block
		switch style {
		case 0: // value through the tail
			b = hs.Blk(tailOf(R2, 0), extra...)
		case 1: // value through return
			b = hs.Blk(nil, append(extra, retStmt(R2, 0))...)
		default: // early return plus tail
			b = hs.Blk(tailOf(R2, 1), append(extra, hs.LetS("q", hs.B(false)), ifThen(hs.V("q"), retStmt(R2, 0)))...)
		}
		return fnLit(retType(R2), b)
	}
	callK := func() hs.Stmt {
		if R2 == nil {
			return hs.ES(hs.CallE(hs.V("k")))
		}
		return hs.LetT("kv", R2.t, hs.CallE(hs.V("k")))
	}
	var body *hs.Block
	c := hs.LetS("c", hs.B(true))
	switch layout {
	case 0: // return after the closure literal
		body = hs.Blk(nil, hs.LetS("k", closure()), callK(), retStmt(R1, 0))
	case 1: // early return before, tail after
		body = hs.Blk(tailOf(R1, 1), c, ifThen(hs.V("c"), retStmt(R1, 0)), hs.LetS("k", closure()), callK())
	case 2: // return nested in an if after the closure
		body = hs.Blk(tailOf(R1, 1), c, hs.LetS("k", closure()), callK(), ifThen(hs.V("c"), retStmt(R1, 0)))
	case 3: // loop with break after the closure, then return
		body = hs.Blk(nil, hs.LetS("k", closure()), callK(), &hs.Loop{Body: hs.Blk(nil, &hs.Break{})}, retStmt(R1, 0))
	case 4: // closure inside a loop; break/continue of that loop after it
		body = hs.Blk(tailOf(R1, 0), c, &hs.For{Var: "i", Iter: rng(2), Body: hs.Blk(nil, hs.LetS("k", closure()), callK(), ifThen(hs.V("c"), &hs.Break{}), use("i"), &hs.Continue{})})
	case 5: // loop inside the closure
		body = hs.Blk(tailOf(R1, 0), hs.LetS("k", closure(&hs.For{Var: "i", Iter: rng(2), Body: hs.Blk(nil, ifThen(hs.Bin("==", hs.V("i"), hs.I(1)), &hs.Break{}), &hs.Continue{})})), callK())
	case 6: // closure in a closure; return of the outer closure after the inner literal
		inner := hs.LetS("j", fnLit(retType(R1), hs.Blk(tailOf(R1, 1))))
		body = hs.Blk(tailOf(R1, 0), hs.LetS("k", closure(inner, use("j"))), callK())
	case 7: // closure as an argument, then return
		body = hs.Blk(nil, hs.ES(hs.CallN("sink", closure())), retStmt(R1, 0))
	case 8: // closure inside while, return from inside the loop after it
		body = hs.Blk(tailOf(R1, 1), c, &hs.While{Cond: hs.V("c"), Body: hs.Blk(nil, hs.LetS("k", closure()), callK(), retStmt(R1, 0))})
	case 9: // closure inside `loop`; loop left by break after it
		body = hs.Blk(tailOf(R1, 1), &hs.Loop{Body: hs.Blk(nil, hs.LetS("k", closure()), callK(), &hs.Break{})})
	case 10: // closure with its own loop, inside a loop, followed by continue and return
		body = hs.Blk(nil, c, &hs.While{Cond: hs.V("c"), Body: hs.Blk(nil,
			hs.LetS("k", closure(&hs.Loop{Body: hs.Blk(nil, &hs.Break{})})), callK(), ifThen(hs.V("c"), &hs.Break{}), &hs.Continue{})}, retStmt(R1, 0))
	case 11: // two closures in sequence, return in between and after
		body = hs.Blk(nil, c, hs.LetS("k", closure()), callK(), ifThen(hs.V("c"), retStmt(R1, 1)), hs.LetS("k2", fnLit(hs.TFloat, hs.Blk(hs.F(0.5)))), use("k2"), retStmt(R1, 0))
	}
	p := &hs.Program{}
	var mainSt []hs.Stmt
	if R1 == nil {
		mainSt = append(mainSt, hs.ES(hs.CallN("outer")))
	} else {
		mainSt = append(mainSt, hs.LetT("r", R1.t, hs.CallN("outer")), use("r"))
	}
	p.Funcs = append(p.Funcs, mainFn(mainSt...), hs.Fn("outer", retType(R1), body))
	if layout == 7 {
		p.Funcs = append(p.Funcs, hs.Fn("sink", nil, hs.Blk(nil, use("h")), hs.P("h", hs.TFn(retType(R2)))))
	}
	return single(p, tags...)
}

// ---------------------------------------------------------------- family: loops

const (
	nLoopKinds    = 8
	nLoopExits    = 9
	nLoopPlaces   = 4
	nLoopPreludes = 3
)

func c03LoopsCase(tier string, idx int) *c03Case {
	d := radix(idx, nLoopKinds, nLoopExits, nLoopPlaces, nLoopPreludes)
	kind, exit, place, prelude := d[0], d[1], d[2], d[3]
	tags := []string{fmt.Sprintf("loop:%d", kind), fmt.Sprintf("exit:%d", exit), fmt.Sprintf("place:%d", place), fmt.Sprintf("prelude:%d", prelude)}
	intD := c03Prims("quick")[0]
	// exits that leave `loop` without break make the loop (and the function body) diverge
	diverging := kind == 0 && (exit == 4 || exit == 5)
	if prelude > 0 && !diverging {
		return nil // preludes only matter for diverging loops
	}
	hasResult := place == 1 || place == 3
	var R *tyd
	if hasResult {
		R = &intD
	}
	var varT *hs.Type
	var pre []hs.Stmt
	mk := func(body *hs.Block) hs.Stmt {
		switch kind {
		case 0:
			return &hs.Loop{Body: body}
		case 1:
			pre = append(pre, hs.LetS("c", hs.B(true)))
			return &hs.While{Cond: hs.V("c"), Body: body}
		case 2:
			varT = hs.TInt
			return &hs.For{Var: "e", Iter: rng(3), Body: body}
		case 3:
			varT = hs.TStr
			return &hs.For{Var: "e", Iter: hs.S("abc"), Body: body}
		case 4:
			varT = hs.TStr
			return &hs.For{Var: "e", Iter: hs.List(hs.S("p"), hs.S("q")), Body: body}
		case 5:
			varT = hs.TList(hs.TInt)
			pre = append(pre, hs.LetS("l", hs.List(hs.List(hs.I(1)), hs.List(hs.I(2), hs.I(3)))))
			return &hs.For{Var: "e", Iter: hs.V("l"), Body: body}
		case 6:
			varT = hs.TInt
			pre = append(pre, hs.LetS("n", hs.I(3)))
			return &hs.For{Var: "e", Iter: hs.MCall(hs.V("n"), "to_range"), Body: body}
		default:
			varT = hs.TInt
			return &hs.For{Var: "e", Iter: &hs.RangeLit{From: hs.I(1), To: hs.I(3), Incl: true}, Body: body}
		}
	}
	flag := hs.LetS("f", hs.B(false))
	var st []hs.Stmt
	st = append(st, flag)
	switch exit {
	case 0:
		st = append(st, &hs.Break{})
	case 1:
		st = append(st, ifThen(hs.V("f"), &hs.Continue{}), &hs.Break{})
	case 2:
		st = append(st, &hs.ExprStmt{X: &hs.If{Cond: hs.V("f"), Then: hs.Blk(nil, &hs.Break{}), Else: hs.Blk(nil, &hs.Continue{})}})
	case 3: // nested loop: inner break, then outer break
		st = append(st, &hs.While{Cond: hs.V("f"), Body: hs.Blk(nil, &hs.Break{})}, &hs.Loop{Body: hs.Blk(nil, ifThen(hs.V("f"), &hs.Continue{}), &hs.Break{})}, &hs.Break{})
	case 4: // left by return only
		st = append(st, retStmt(R, 0))
	case 5: // conditional return only
		st = append(st, ifThen(hs.V("f"), retStmt(R, 0)))
	case 6: // break and return
		st = append(st, ifThen(hs.V("f"), retStmt(R, 0)), &hs.Break{})
	case 7: // a break of the outer loop FOLLOWED by a nested loop (no outer break after it)
		st = append(st, ifThen(hs.V("f"), &hs.Break{}), &hs.Loop{Body: hs.Blk(nil, &hs.Break{})}, ifThen(hs.V("f"), &hs.Continue{}))
	case 8: // the same with two nested loops and a nested while
		st = append(st, ifThen(hs.Un("!", hs.V("f")), &hs.Break{}), &hs.Loop{Body: hs.Blk(nil, &hs.Loop{Body: hs.Blk(nil, &hs.Break{})}, &hs.Break{})}, &hs.While{Cond: hs.V("f"), Body: hs.Blk(nil, &hs.Break{})})
	}
	body := hs.Blk(nil, st...)
	loop := mk(body)
	if varT != nil {
		body.Stmts = append([]hs.Stmt{hs.LetT("y", varT, hs.V("e")), use("y")}, body.Stmts...)
	}
	fnBody := append(pre, loop)
	var tail hs.Expr
	if !diverging {
		tail = tailOf(R, 1)
	}
	p := &hs.Program{}
	switch prelude {
	case 1: // an earlier function whose body holds a diverging expression
		p.Funcs = append(p.Funcs, hs.Fn("early", nil, hs.Blk(nil, hs.ES(hs.CallN("throw", hs.S("x"))))))
	case 2: // an earlier diverging if/else in the same function
		fnBody = append([]hs.Stmt{hs.LetS("g", hs.B(false)), ifThen(hs.V("g"), &hs.ExprStmt{X: &hs.If{Cond: hs.V("g"), Then: hs.Blk(nil, retStmt(R, 1)), Else: hs.Blk(nil, retStmt(R, 0))}})}, fnBody...)
	}
	switch place {
	case 0: // in main
		p.Funcs = append(p.Funcs, mainFn(fnBody...))
	case 1: // in a function with a result
		p.Funcs = append(p.Funcs, mainFn(hs.LetS("r", hs.CallN("w")), use("r")), hs.Fn("w", hs.TInt, hs.Blk(tail, fnBody...)))
	case 2: // in a closure without result
		p.Funcs = append(p.Funcs, mainFn(hs.LetS("k", fnLit(nil, hs.Blk(nil, fnBody...))), hs.ES(hs.CallE(hs.V("k")))))
	case 3: // in a closure with a result, defined inside a loop of main
		p.Funcs = append(p.Funcs, mainFn(&hs.For{Var: "o", Iter: rng(1), Body: hs.Blk(nil, hs.LetS("k", fnLit(hs.TInt, hs.Blk(tail, fnBody...))), hs.LetT("r", hs.TInt, hs.CallE(hs.V("k"))), use("r"), use("o"))}))
	}
	if diverging {
		tags = append(tags, "diverging-loop")
	}
	return single(p, tags...)
}

// ---------------------------------------------------------------- family: branches

const (
	nBranchKinds = 9
	nBranchCtx   = 6
	nBranchForms = 4
)

func c03BranchTypes(tier string) []*tyd {
	prims := c03Prims("quick")
	l, o, ob := tList(prims[0]), tOpt(prims[3]), tObj1(prims[2])
	out := []*tyd{nil, &prims[0], &prims[1], &prims[2], &prims[3], &l, &o, &ob}
	if tier == "thorough" {
		f0, ll, r := tFn0(prims[0]), tList(tList(prims[3])), c03Prims("all")[4]
		out = append(out, &f0, &ll, &r)
	}
	return out
}

func c03BranchesCase(tier string, idx int) *c03Case {
	types := c03BranchTypes(tier)
	d := radix(idx, nBranchKinds, nBranchCtx, nBranchForms, len(types))
	kind, ctx, form, T := d[0], d[1], d[2], types[d[3]]
	tags := []string{fmt.Sprintf("branch:%d", kind), fmt.Sprintf("ctx:%d", ctx), fmt.Sprintf("form:%d", form), "type:" + retName(T)}
	valueless := kind == 6 || kind == 7 // constructs that can only be null
	if valueless != (T == nil) {
		return nil
	}
	if T == nil && ctx != 0 {
		return nil // a null value can only be a statement
	}
	if T != nil && T.hasFn && ctx == 3 {
		return nil
	}
	// branch bodies: form 0 plain values, 1 first branch returns, 2 last branch throws,
	// 3 statements before the value
	br := func(k int, first, last bool) *hs.Block {
		switch {
		case form == 1 && first:
			return hs.Blk(nil, &hs.Return{})
		case form == 2 && last:
			return hs.Blk(hs.CallN("throw", hs.S("no")))
		case form == 3:
			if T == nil {
				return hs.Blk(nil, hs.LetS("t", hs.I(int64(k))), use("t"))
			}
			return hs.Blk(hs.V("t"), hs.LetS("t", T.val(k)))
		}
		if T == nil {
			return hs.Blk(nil, hs.Println(hs.I(int64(k))))
		}
		return hs.Blk(T.val(k))
	}
	arm := func(k int, first, last bool) hs.Expr { return &hs.BlockExpr{B: br(k, first, last)} }
	var x hs.Expr
	pre := []hs.Stmt{hs.LetS("c", hs.B(true)), hs.LetS("n", hs.I(2)), hs.LetS("s", hs.S("k"))}
	switch kind {
	case 0:
		x = &hs.If{Cond: hs.V("c"), Then: br(0, true, false), Else: br(1, false, true)}
	case 1:
		x = &hs.If{Cond: hs.V("c"), Then: br(0, true, false), ElIf: &hs.If{Cond: hs.Bin("==", hs.V("n"), hs.I(1)), Then: br(1, false, false), Else: br(2, false, true)}}
	case 2:
		x = &hs.Match{X: hs.V("n"), Arms: []hs.MatchArm{{Lits: []hs.Expr{hs.I(1)}, Body: arm(0, true, false)}, {Lits: []hs.Expr{hs.I(2), hs.I(3)}, Body: arm(1, false, false)}, {Body: arm(2, false, true)}}}
	case 3:
		x = &hs.Match{X: hs.V("s"), Arms: []hs.MatchArm{{Lits: []hs.Expr{hs.S("k")}, Body: arm(0, true, false)}, {Body: arm(1, false, true)}}}
	case 4:
		x = &hs.Try{Body: br(0, true, false), Var: "err", Catch: br(1, false, true)}
	case 5:
		if form == 1 || form == 2 {
			return nil
		}
		x = &hs.BlockExpr{B: br(0, true, true)}
	case 8: // match whose default arm is not the last one (the arms behind it are checked like any other)
		x = &hs.Match{X: hs.V("n"), Arms: []hs.MatchArm{{Lits: []hs.Expr{hs.I(1)}, Body: arm(0, true, false)}, {Body: arm(1, false, false)}, {Lits: []hs.Expr{hs.I(2), hs.I(3)}, Body: arm(2, false, true)}}}
	case 6: // if without else
		if form == 2 {
			return nil
		}
		x = &hs.If{Cond: hs.V("c"), Then: br(0, true, false)}
	case 7: // match without default
		if form == 2 {
			return nil
		}
		x = &hs.Match{X: hs.V("c"), Arms: []hs.MatchArm{{Lits: []hs.Expr{hs.B(true)}, Body: arm(0, true, false)}, {Lits: []hs.Expr{hs.B(false)}, Body: arm(1, false, false)}}}
	}
	p := &hs.Program{}
	var st []hs.Stmt
	switch ctx {
	case 0: // statement
		st = append(pre, &hs.ExprStmt{X: x})
	case 1: // initialiser
		st = append(pre, hs.LetT("v", T.t, x), use("v"))
	case 2: // argument
		st = append(pre, hs.ES(hs.CallN("take", x)))
		p.Funcs = append(p.Funcs, hs.Fn("take", nil, hs.Blk(nil, use("q")), hs.P("q", T.t)))
	case 3: // operand
		st = append(pre, hs.LetT("b", hs.TBool, hs.Bin("==", x, T.val(0))), use("b"))
	case 4: // result of a function (form 1 needs a null function: skipped)
		if form == 1 {
			return nil
		}
		p.Funcs = append(p.Funcs, hs.Fn("get", T.t, hs.Blk(x, pre...)))
		st = []hs.Stmt{hs.LetS("r", hs.CallN("get")), use("r")}
	case 5: // inside a closure, after another closure
		if form == 1 {
			return nil
		}
		st = []hs.Stmt{hs.LetS("j", fnLit(hs.TRange, hs.Blk(rng(1)))), use("j"), hs.LetS("k", fnLit(T.t, hs.Blk(x, pre...))), hs.LetT("r", T.t, hs.CallE(hs.V("k"))), use("r")}
	}
	p.Funcs = append([]*hs.Func{mainFn(st...)}, p.Funcs...)
	return single(p, tags...)
}

func init() {
	c03Families = append(c03Families,
		c03Family{Name: "closures", Count: func(tier string) int {
			n := len(c03Rets(tier))
			return nClosureLayouts * nClosureStyles * n * n
		}, Gen: c03ClosuresCase},
		c03Family{Name: "loops", Count: func(string) int { return nLoopKinds * nLoopExits * nLoopPlaces * nLoopPreludes }, Gen: c03LoopsCase},
		c03Family{Name: "branches", Count: func(tier string) int { return nBranchKinds * nBranchCtx * nBranchForms * len(c03BranchTypes(tier)) }, Gen: c03BranchesCase},
	)
}

// ---------------------------------------------------------------- family: scopes

const (
	nScopeBinders = 11
	nScopeUses    = 3
)

// c03ScopesCase: what an identifier denotes at a program point. An outer `a` of type To, a
// binder that introduces another `a` of type Ti, uses inside (must see Ti) and after the
// binder's scope (must see To again, except for a `let` in the same scope).
func c03ScopesCase(tier string, idx int) *c03Case {
	prims := c03Prims("quick")
	d := radix(idx, nScopeBinders, nScopeUses, len(prims), len(prims))
	binder, uses, Ti, To := d[0], d[1], prims[d[2]], prims[d[3]]
	if Ti.name == To.name {
		return nil
	}
	tags := []string{fmt.Sprintf("binder:%d", binder), fmt.Sprintf("uses:%d", uses), "outer:" + To.name, "inner:" + Ti.name}
	inside := func() []hs.Stmt {
		st := []hs.Stmt{hs.LetT("i", Ti.t, hs.V("a")), use("i")}
		if uses == 2 { // the inner variable is assigned as well
			st = append(st, hs.ES(hs.Asg("=", hs.V("a"), Ti.val(1))))
		}
		return st
	}
	after := func(T tyd) []hs.Stmt {
		if uses == 0 {
			return nil
		}
		st := []hs.Stmt{hs.LetT("o", T.t, hs.V("a")), use("o")}
		if uses == 2 {
			st = append(st, hs.ES(hs.Asg("=", hs.V("a"), T.val(1))))
		}
		return st
	}
	outer := hs.LetT("a", To.t, To.val(0))
	p := &hs.Program{}
	var st []hs.Stmt
	// a list whose elements have the inner type (for the loop binder)
	list := hs.List(Ti.val(0), Ti.val(1))
	switch binder {
	case 0: // second let in the same scope
		st = append([]hs.Stmt{outer, use("a"), hs.LetS("a", Ti.val(0))}, inside()...)
		st = append(st, after(Ti)...)
	case 1: // let in a nested block
		st = append([]hs.Stmt{outer, &hs.ExprStmt{X: &hs.BlockExpr{B: hs.Blk(nil, append([]hs.Stmt{hs.LetS("a", Ti.val(0))}, inside()...)...)}}}, after(To)...)
	case 2: // loop variable
		st = append([]hs.Stmt{outer, &hs.For{Var: "a", Iter: list, Body: hs.Blk(nil, inside()...)}}, after(To)...)
	case 3: // catch variable (an error object) - the inner type is fixed
		if Ti.name != "str" {
			return nil
		}
		in := []hs.Stmt{hs.LetT("i", hs.TStr, hs.Mem(hs.V("a"), "message")), use("i"), hs.LetT("ln", hs.TInt, hs.Mem(hs.V("a"), "line")), use("ln")}
		st = append([]hs.Stmt{outer, &hs.ExprStmt{X: &hs.Try{Body: hs.Blk(nil, use("a")), Var: "a", Catch: hs.Blk(nil, in...)}}}, after(To)...)
	case 4: // closure parameter
		st = append([]hs.Stmt{outer, hs.LetS("k", fnLit(nil, hs.Blk(nil, inside()...), hs.Field{Name: "a", T: Ti.t})), hs.ES(hs.CallE(hs.V("k"), Ti.val(0)))}, after(To)...)
	case 5: // function parameter over a global
		p.Globals = append(p.Globals, &hs.Let{Name: "a", T: To.t, X: To.val(0)})
		p.Funcs = append(p.Funcs, hs.Fn("f", nil, hs.Blk(nil, inside()...), hs.P("a", Ti.t)))
		st = append([]hs.Stmt{hs.ES(hs.CallN("f", Ti.val(0)))}, after(To)...)
	case 6: // local over a global, in one function only
		p.Globals = append(p.Globals, &hs.Let{Name: "a", T: To.t, X: To.val(0)})
		p.Funcs = append(p.Funcs, hs.Fn("f", nil, hs.Blk(nil, append([]hs.Stmt{hs.LetS("a", Ti.val(0))}, inside()...)...)))
		st = append([]hs.Stmt{hs.ES(hs.CallN("f"))}, after(To)...)
	case 7: // local variable over a function name; the function is callable again afterwards
		p.Funcs = append(p.Funcs, hs.Fn("a", To.t, hs.Blk(To.val(0))))
		blk := &hs.ExprStmt{X: &hs.BlockExpr{B: hs.Blk(nil, append([]hs.Stmt{hs.LetS("a", Ti.val(0))}, inside()...)...)}}
		st = []hs.Stmt{blk}
		if uses > 0 {
			st = append(st, hs.LetT("o", To.t, hs.CallN("a")), use("o"))
		}
	case 8: // let inside an if branch and another one inside the else branch
		st = append([]hs.Stmt{outer, hs.LetS("c", hs.B(true)), &hs.ExprStmt{X: &hs.If{Cond: hs.V("c"), Then: hs.Blk(nil, append([]hs.Stmt{hs.LetS("a", Ti.val(0))}, inside()...)...),
			Else: hs.Blk(nil, hs.LetT("e", To.t, hs.V("a")), use("e"))}}}, after(To)...)
	case 9: // closure captures the outer variable, which is shadowed afterwards
		st = []hs.Stmt{outer, hs.LetS("k", fnLit(To.t, hs.Blk(hs.V("a")))), hs.LetS("a", Ti.val(0))}
		st = append(st, inside()...)
		st = append(st, hs.LetT("o", To.t, hs.CallE(hs.V("k"))), use("o"))
	case 10: // loop variable inside a closure inside a loop over the outer name
		inner := &hs.For{Var: "a", Iter: list, Body: hs.Blk(nil, inside()...)}
		st = append([]hs.Stmt{outer, &hs.For{Var: "n", Iter: rng(1), Body: hs.Blk(nil, use("n"), hs.LetS("k", fnLit(nil, hs.Blk(nil, inner, hs.LetT("z", To.t, hs.V("a")), use("z")))), hs.ES(hs.CallE(hs.V("k"))))}}, after(To)...)
	}
	p.Funcs = append([]*hs.Func{mainFn(st...)}, p.Funcs...)
	return single(p, tags...)
}

func init() {
	c03Families = append(c03Families, c03Family{Name: "scopes", Count: func(string) int { return nScopeBinders * nScopeUses * 16 }, Gen: c03ScopesCase})
}
