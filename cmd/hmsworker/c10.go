package main

import (
	"context"
	"fmt"
	"strings"

	"github.com/smarthome-go/homescript/v3/homescript/compiler"
	"github.com/smarthome-go/homescript/v3/homescript/runtime"
	"github.com/smarthome-go/homescript/v3/homescript/vsched"
)

// C10: cancellation always stops execution promptly.

type cancelProg struct {
	Name     string
	Source   string
	Infinite bool   // cannot finish on its own
	Full     string // complete output of a finite program
	Own      string // own outcome class of a finite program
	TreeOK   bool   // also run on the interpreter (no spawn)
	TreeOnly bool   // only on the interpreter (host features the VM has no counterpart for)
	Sync     bool   // also run through VM.SpawnSync (the host call that waits itself)
	Deadline bool   // also run under a context with a distant deadline
	Kill     string // interpreter only: this function is registered as the host's kill handler
	KillOut  string // what the handler prints (the output of a terminated run ends with it)
}

var c10Progs = []cancelProg{
	{Name: "infinite-loop", Infinite: true, Deadline: true, TreeOK: true, Source: `fn main() {
    let i = 0;
    loop { i += 1; println(i); }
}
`},
	{Name: "while-try-catch", Infinite: true, Deadline: true, TreeOK: true, Source: `fn main() {
    let i = 0;
    while true {
        try { i += 1; println(i); throw("x"); } catch e { }
    }
}
`},
	{Name: "loop-in-catch-handler", Infinite: true, TreeOK: true, Source: `fn main() {
    try { throw("a"); } catch e {
        let i = 0;
        loop { i += 1; println(i); }
    }
}
`},
	{Name: "sleep-loop", Infinite: true, Deadline: true, TreeOK: true, Source: `fn main() {
    let i = 0;
    loop { i += 1; println(i); time.sleep(0.02); }
}
`},
	{Name: "deep-recursion", Infinite: false, TreeOK: true, Own: "fatal", Source: `fn main() { f(0); }
fn f(n: int) -> int { println(n); f(n + 1) }
`},
	{Name: "finite", Infinite: false, TreeOK: true, Own: "ok", Full: "0\n1\n2\n3\n4\n5\n6\n7\n8\n9\n10\n11\n12\n13\n14\n15\n16\n17\n18\n19\nend\n", Source: `fn main() {
    for i in 0..20 { println(i); }
    println("end");
}
`},
	// a core blocked in a long-running builtin when the cancellation arrives: the builtin is given
	// the context and has to give up at its next look at it
	{Name: "one-long-sleep", Infinite: false, Sync: true, Own: "ok", Full: "before\nafter\n", TreeOK: true, Source: `fn main() {
    println("before");
    time.sleep(3.0);
    println("after");
}
`},
	{Name: "spawned-core-in-long-sleep", Infinite: false, Own: "ok", Full: "m\nw\n", Source: `fn main() {
    spawn w();
    println("m");
}
fn w() {
    time.sleep(3.0);
    println("w");
}
`},
	{Name: "main-sleeps-while-a-spawned-core-spins", Infinite: true, Sync: true, Source: `fn main() {
    spawn w();
    time.sleep(3.0);
    println("m");
}
fn w() {
    let i = 0;
    loop { i += 1; }
}
`},
	{Name: "spawned-infinite", Infinite: true, Deadline: true, Sync: true, Source: `fn main() {
    spawn w();
    println("m");
}
fn w() {
    let i = 0;
    loop { i += 1; println(i); }
}
`},
	{Name: "two-spawned-infinite", Infinite: true, Source: `fn main() {
    spawn w();
    spawn w();
    loop { }
}
fn w() {
    let i = 0;
    loop { i += 1; println(i); }
}
`},
	// the cancellation is noticed inside a callee of every kind while the caller is about to use
	// the result of the call (bind it, pass it on, index with it)
	{Name: "results-of-calls-used-at-once", Infinite: false, TreeOK: true, Own: "ok", Full: "2 5 10 8\n[6, 8] 10 3\nend\n", Source: `fn twice(x: int) -> int { x * 2 }
fn main() {
    let double = fn(n: int) -> int { let r = n * 2; r };
    let a = double(1);
    let b = double(a) + 1;
    println(a, b, double(b).to_string(), twice(double(2)));
    let l = [double(3), double(4)];
    let o = new { f: double };
    println(l, o.f(5), [1, 2, 3][double(1)]);
    println("end");
}
`},
	{Name: "loop-inside-a-closure-whose-result-is-bound", Infinite: true, TreeOK: true, Source: `fn main() {
    let spin = fn(n: int) -> int {
        let i = n;
        while i > 0 { i += 1; }
        i
    };
    let a = spin(1);
    println(a.to_string());
}
`},
	// the interpreter runs `event fn kill` once after a termination: the handler is part of the run,
	// the wait still returns the termination
	{Name: "infinite-loop-with-a-kill-handler", Infinite: true, TreeOK: true, Source: `event fn kill() {
    println("cleaning up");
}
fn main() {
    let i = 0;
    loop { i += 1; println(i); }
}
`},
	{Name: "infinite-loop-with-a-throwing-kill-handler", Infinite: false, Own: "fatal", TreeOK: true, Source: `event fn kill() {
    throw("handler failed");
}
fn main() {
    let i = 0;
    loop { i += 1; println(i); }
}
`},
	// a kill handler registered by the host (the scope addition `@event_kill`): it runs once after the
	// termination, the run still ends with the termination
	{Name: "host-kill-handler-that-prints", Infinite: true, TreeOnly: true, Kill: "on_kill", KillOut: "cleanup\n", Source: `fn on_kill() {
    println("cleanup");
}
fn main() {
    let i = 0;
    loop { i += 1; println(i); }
}
`},
	{Name: "host-kill-handler-with-a-loop-and-a-call", Infinite: true, TreeOnly: true, Kill: "on_kill", KillOut: "c 0\nc 1\nc 2\ndone 3\n", Source: `fn note(n: int) -> int {
    println("c", n);
    n + 1
}
fn on_kill() {
    let k = 0;
    while k < 3 { k = note(k); }
    println("done", k);
}
fn main() {
    let i = 0;
    while true {
        try { i += 1; println(i); throw("x"); } catch e { }
    }
}
`},
	{Name: "host-kill-handler-while-main-sleeps", Infinite: true, TreeOnly: true, Kill: "on_kill", KillOut: "cleanup\n", Source: `fn on_kill() {
    println("cleanup");
}
fn main() {
    let i = 0;
    loop { i += 1; println(i); time.sleep(0.02); }
}
`},
	{Name: "spawned-finishes-main-loops", Infinite: true, Source: `fn main() {
    spawn w();
    let i = 0;
    loop { i += 1; println(i); }
}
fn w() { println("w"); }
`},
}

// tight loops: loop heads x bodies that contain as little as possible; the only places the
// cancellation request can be noticed are the loop machinery itself and leaf expressions.
func init() {
	heads := []struct{ name, pre, head string }{
		{"loop", "", "loop"},
		{"while-literal", "", "while true"},
		{"while-ident", "let r = true;", "while r"},
		{"while-call", "", "while t()"},
		{"while-compare", "let n = 0;", "while n == 0"},
		{"for-over-a-huge-range", "", "for i in 0..9000000000000000000"},
		{"for-over-a-huge-range-in-a-variable", "let big = 0..9000000000000000000;", "for i in big"},
	}
	bodies := []struct{ name, body string }{
		{"empty", ""},
		{"continue", "continue;"},
		{"leaf-statement", "1;"},
		{"ident-statement", "q;"},
		{"nested-empty-block", "{ };"},
		{"if-leaf", "if q { }"},
		{"match-leaf", "match 1 { 1 => { }, _ => { } }"},
		{"try-empty", "try { } catch e { }"},
	}
	for _, h := range heads {
		for _, b := range bodies {
			src := "fn t() -> bool { true }\nfn main() {\n    let q = true;\n    " + h.pre + "\n    " + h.head + " { " + b.body + " }\n}\n"
			c10Progs = append(c10Progs, cancelProg{Name: "tight-" + h.name + "-" + b.name, Infinite: true, TreeOK: true, Source: src})
		}
	}
	c10Progs = append(c10Progs, cancelProg{Name: "tight-loop-in-spawned-core", Infinite: true, Source: "fn main() {\n    spawn w();\n}\nfn w() { let r = true; while r { } }\n"})
}

// virtual time is measured in Sleep operations of all threads: after the cancellation every
// core may finish the sleep it is in, Wait polls a few times; a builtin that sleeps on in
// 10 ms slices for seconds shows as hundreds
const c10MaxSleepsAfterCancel = 40

const c10MaxLinesAfterCancel = 110 // one 50-instruction quantum per core (at most 2 printing cores)

func lineCount(s string) int { return strings.Count(s, "\n") }

func c10Body(h *hostEnv, prog compiler.CompileOutput) {
	h.ctx.OnFire = func(reason string) {
		h.log("cancel:%s lines=%d sleeps=%d", reason, lineCount(h.rec.out.String()), vsched.Sleeps())
	}
	vm := h.newVM(prog, runtime.CoreLimits{CallStackMaxSize: 40, StackMaxSize: 200, MaxMemorySize: 400})
	vsched.GoLow(func() {
		vsched.Step("cancel")
		h.ctx.cancelNow(context.Canceled)
	})
	vm.SpawnAsync(runtime.MainFn(), nil, nil, nil)
	_, i := vm.Wait()
	o := Obs{}
	classifyVM(&o, i, nil)
	h.log("wait:%s%s lines=%d sleeps=%d", o.Class, kindSuffix(o.Kind), lineCount(h.rec.out.String()), vsched.Sleeps())
	h.log("unfinished-at-return:%s", vsched.UnfinishedDesc())
}

// c10BodySync: the same through VM.SpawnSync, which waits itself and maps what Wait found to the
// outcome of the invocation.
func c10BodySync(h *hostEnv, prog compiler.CompileOutput) {
	h.ctx.OnFire = func(reason string) {
		h.log("cancel:%s lines=%d sleeps=%d", reason, lineCount(h.rec.out.String()), vsched.Sleeps())
	}
	vm := h.newVM(prog, runtime.CoreLimits{CallStackMaxSize: 40, StackMaxSize: 200, MaxMemorySize: 400})
	vsched.GoLow(func() {
		vsched.Step("cancel")
		h.ctx.cancelNow(context.Canceled)
	})
	res := vm.SpawnSync(runtime.MainFn(), nil, nil)
	o := Obs{}
	if res.Exception != nil {
		i := res.Exception.Interrupt
		classifyVM(&o, &i, nil)
	} else {
		o.Class = "ok"
	}
	h.log("wait:%s%s lines=%d sleeps=%d", o.Class, kindSuffix(o.Kind), lineCount(h.rec.out.String()), vsched.Sleeps())
	h.log("unfinished-at-return:%s", vsched.UnfinishedDesc())
}

func c10Judge(p cancelProg) func(o execObs) (string, string) {
	return func(o execObs) (string, string) {
		var cancelLines = -1
		cancelSleeps, waitSleeps := -1, 0
		wait := ""
		waitLines := 0
		unfinished := ""
		for _, e := range o.Events {
			switch {
			case strings.HasPrefix(e, "cancel:"):
				fmt.Sscanf(e[strings.Index(e, "lines="):], "lines=%d sleeps=%d", &cancelLines, &cancelSleeps)
			case strings.HasPrefix(e, "wait:"):
				wait = strings.Fields(e[5:])[0]
				fmt.Sscanf(e[strings.Index(e, "lines="):], "lines=%d sleeps=%d", &waitLines, &waitSleeps)
			case strings.HasPrefix(e, "unfinished-at-return:"):
				unfinished = strings.TrimPrefix(e, "unfinished-at-return:")
			}
		}
		d := fmt.Sprintf("events=%q final-lines=%d", o.Events, lineCount(o.Out))
		if wait == "" {
			return "WAIT:did not return after cancellation", d
		}
		if len(o.Blocked) > 0 {
			return "LEFT-BLOCKED:" + blockedOps(o.Blocked), d
		}
		if p.Infinite && wait != "terminated" {
			return "WAIT:returned " + wait + " for a program that cannot finish", d
		}
		if !p.Infinite && wait != "terminated" {
			if !strings.HasPrefix(wait, p.Own) {
				return "WAIT:outcome " + wait + " is neither termination nor the program's own outcome", d
			}
			if p.Full != "" && wait == "ok" && o.Out != p.Full {
				return "OUTPUT:program reported completion with incomplete output", d
			}
		}
		if wait == "terminated" && cancelLines < 0 {
			return "WAIT:termination interrupt without cancellation", d
		}
		if cancelLines >= 0 && lineCount(o.Out)-cancelLines > c10MaxLinesAfterCancel {
			return "SLOW-STOP:cores kept running after cancellation", d
		}
		if cancelSleeps >= 0 && waitSleeps-cancelSleeps > c10MaxSleepsAfterCancel {
			return "SLOW-STOP:cores kept sleeping after cancellation", d
		}
		_ = unfinished
		return "", ""
	}
}

func init() {
	register("C10", func() *Check {
		var cases []schedCase
		for _, p := range c10Progs {
			if p.TreeOnly {
				continue
			}
			cases = append(cases, schedCase{
				Name: p.Name, Source: p.Source, Body: c10Body, Judge: c10Judge(p),
				Bound:      map[string]int{"quick": 2, "thorough": 3},
				PollBudget: 12, Horizon: 20000,
			})
			if p.Deadline {
				// the same under a context that also has a deadline far in the future
				cases = append(cases, schedCase{
					Name: p.Name + "(context with a distant deadline)", Source: p.Source, Judge: c10Judge(p),
					Body:       func(h *hostEnv, prog compiler.CompileOutput) { h.ctx.FarDeadline = true; c10Body(h, prog) },
					Bound:      map[string]int{"quick": 2, "thorough": 3},
					PollBudget: 12, Horizon: 20000,
				})
			}
			if p.Sync {
				cases = append(cases, schedCase{
					Name: p.Name + "(SpawnSync)", Source: p.Source, Body: c10BodySync, Judge: c10Judge(p),
					Bound:      map[string]int{"quick": 2, "thorough": 3},
					PollBudget: 12, Horizon: 20000,
				})
			}
		}
		return &Check{ID: "C10", Scenarios: []Scenario{
			schedScenario("vm-cancel-schedules", cases),
			{
				Name: "interpreter-cancel-at-every-poll",
				Count: func(tier string) int {
					n := 0
					for _, p := range c10Progs {
						if p.TreeOK || p.TreeOnly {
							n++
						}
					}
					return n
				},
				Run: c10Tree,
			},
		}}
	})
}

// c10Tree: the interpreter is single-threaded; the context reports done from its k-th poll
// on, for every k up to the number of polls of the reference run (or 400).
func c10Tree(tier string, idx int, r *Result) {
	var p cancelProg
	n := 0
	for _, q := range c10Progs {
		if q.TreeOK || q.TreeOnly {
			if n == idx {
				p = q
			}
			n++
		}
	}
	a := Analyze(map[string]string{"main": p.Source}, true)
	if !a.Obs.Accepted() {
		r.Fail("HARNESS:program rejected", nil, p.Source, a.Obs.String())
		return
	}
	K := 400
	if tier == "thorough" {
		K = 3000
	}
	if !p.Infinite {
		opts := defaultOpts()
		opts.TreeLimit = 40
		base := RunTree(a, opts)
		if base.Polls+2 < K {
			K = base.Polls + 2
		}
	}
	r.Sample(p.Source + fmt.Sprintf("// interpreter, context done from poll k on, k = 1..%d", K))
	for k := 1; k <= K; k++ {
		opts := defaultOpts()
		opts.TreeLimit = 40
		opts.CancelAt = k
		opts.PollBudget = 100000
		rc := &rec{}
		_ = rc
		opts.TreeKillFn = p.Kill
		opts.FarDeadline = p.Deadline && k%2 == 0 // every other cancellation point under a context with a distant deadline
		o := RunTree(a, opts)
		r.Trans(o.Polls)
		r.Distinct(p.Name + "|" + o.Class + "|" + fmt.Sprint(o.Polls-k))
		r.Outcome("tree:" + o.Class)
		r.Note("executions", 1)
		cas := fmt.Sprintf("%s// interpreter, context done from poll %d on", p.Source, k)
		if cc := crashClass(o); cc != "" {
			r.Fail(cc, []string{"backend:tree"}, cas, o.String())
			return
		}
		if p.Infinite && o.Class != "terminated" {
			r.Fail("WAIT:returned "+o.Class+" for a program that cannot finish", []string{"backend:tree"}, cas, o.String())
			return
		}
		if !p.Infinite && o.Class != "terminated" && o.Class != p.Own {
			r.Fail("WAIT:outcome "+o.Class+" is neither termination nor the program's own outcome", []string{"backend:tree"}, cas, o.String())
			return
		}
		if p.Kill != "" && o.Class == "terminated" && !strings.HasSuffix(o.Out, p.KillOut) {
			r.Fail("KILL-HANDLER:the host's kill handler did not run to its end after the termination", []string{"backend:tree"}, cas, o.String())
			return
		}
		if o.Class == "terminated" && o.Polls-k > 3 {
			r.Fail("SLOW-STOP:interpreter kept polling after cancellation", []string{"backend:tree"}, cas, fmt.Sprintf("polls=%d cancelAt=%d %s", o.Polls, k, o.String()))
			return
		}
	}
}
