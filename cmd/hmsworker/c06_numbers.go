package main

import (
	"fmt"
	"math"
	"strconv"
	"strings"

	pAst "github.com/smarthome-go/homescript/v3/homescript/parser/ast"
)

// C06, numeric literals decode to the value written: every literal over a digit alphabet that
// includes leading zeros, 8 and 9 (not octal digits), digit separators, fractions and the float
// suffix goes through the real lexer AND the parser's decoding; the literal node must carry the
// decimal value of its digits.

var c06NumAlphabet = []string{"0", "1", "7", "8", "9", "_"}

func c06NumLiterals() []string {
	var ints []string
	var gen func(prefix string, n int)
	gen = func(prefix string, n int) {
		if prefix != "" && !strings.HasSuffix(prefix, "_") {
			ints = append(ints, prefix)
		}
		if n == 0 {
			return
		}
		for _, c := range c06NumAlphabet {
			if c == "_" && (prefix == "" || strings.HasSuffix(prefix, "_")) {
				continue
			}
			gen(prefix+c, n-1)
		}
	}
	gen("", 4)
	out := append([]string{}, ints...)
	for _, i := range []string{"0", "1", "07", "10", "009", "1_0"} {
		for _, f := range []string{"0", "5", "05", "50", "0_5", "125"} {
			out = append(out, i+"."+f)
		}
		out = append(out, i+"f")
	}
	out = append(out, "9223372036854775807", "0000000000000000000000012", "4611686018427387904", "1_000_000", "00_7")
	return out
}

var c06NumCache []string

func c06NumCount() int {
	if c06NumCache == nil {
		c06NumCache = c06NumLiterals()
	}
	return len(c06NumCache)
}

func c06NumRun(idx int, r *Result) {
	c06NumCount()
	lit := c06NumCache[idx]
	src := "fn main() { let v = " + lit + "; }"
	tags := []string{"num:" + map[bool]string{true: "float", false: "int"}[strings.ContainsAny(lit, ".f")]}
	if strings.HasPrefix(lit, "0") && len(lit) > 1 && lit[1] != '.' && lit[1] != 'f' {
		tags = append(tags, "leading-zero")
	}
	if strings.Contains(lit, "_") {
		tags = append(tags, "separator")
	}
	r.Sample(src)
	o := realParse(src, "main")
	r.Trans(1)
	if o.Panic != "" {
		r.Fail("HOST-PANIC:"+panicFunc(o.Site)+":"+normMsg(o.Panic), tags, src, o.Panic)
		return
	}
	if !o.ok() {
		r.Fail("NUMBER:valid-literal-rejected", tags, src, "the literal "+lit+" is a number of grammar.ebnf (digits with optional separators): "+o.errKey())
		return
	}
	var got pAst.Expression
	for _, fn := range o.Prog.Functions {
		for _, st := range fn.Body.Statements {
			if l, ok := st.(pAst.LetStatement); ok {
				got = l.Expression
			}
		}
	}
	digits := strings.ReplaceAll(lit, "_", "")
	r.Distinct("num|" + lit)
	switch n := got.(type) {
	case pAst.IntLiteralExpression:
		want, err := strconv.ParseInt(digits, 10, 64)
		if err != nil || strings.ContainsAny(lit, ".f") {
			r.Fail("NUMBER:kind", tags, src, fmt.Sprintf("literal %s decoded as the int %d", lit, n.Value))
			return
		}
		if n.Value != want {
			r.Fail("NUMBER:value", tags, src, fmt.Sprintf("literal %s decoded to %d, the digits written mean %d", lit, n.Value, want))
		}
	case pAst.FloatLiteralExpression:
		want, err := strconv.ParseFloat(strings.TrimSuffix(digits, "f"), 64)
		if err != nil || !strings.ContainsAny(lit, ".f") {
			r.Fail("NUMBER:kind", tags, src, fmt.Sprintf("literal %s decoded as the float %v", lit, n.Value))
			return
		}
		if n.Value != want && !(math.IsNaN(n.Value) && math.IsNaN(want)) {
			r.Fail("NUMBER:value", tags, src, fmt.Sprintf("literal %s decoded to %v, the digits written mean %v", lit, n.Value, want))
		}
	default:
		r.Fail("NUMBER:kind", tags, src, fmt.Sprintf("literal %s became a %T", lit, got))
	}
}
