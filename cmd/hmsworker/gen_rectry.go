package main

import (
	"fmt"

	"hmsverif/internal/hs"
)

// S18 handlers held by activations of a recursive function: `walk(n)` calls itself down to 0;
// a chosen subset of the activations guards its recursive call with `try`; the fault is raised
// in the innermost activation (outside any handler of its own) or, after a first catch, once more
// by a middle activation. The exception belongs to the nearest *calling* activation that holds a
// handler: the activations below it are gone, its own locals are intact and it returns to its own
// caller. Depth 3; every subset of guarding activations x fault x re-throw level.

var recFaults = []string{"throw", "callee-throws", "index-out-of-range", "closure-throws"}

func recCount() int { return 8 * len(recFaults) * 4 }

func recGen(idx int) (progCase, bool) {
	d := radix(idx, 8, len(recFaults), 4)
	mask, fault, rethrow := d[0], recFaults[d[1]], d[2] // rethrow: 0 none, k: activation k throws again after catching
	if rethrow > 0 && mask&(1<<(rethrow-1)) == 0 {
		return progCase{}, false // an activation without a handler catches nothing
	}
	var faultStmt hs.Stmt
	prog := &hs.Program{}
	switch fault {
	case "throw":
		faultStmt = hs.ES(hs.CallN("throw", hs.Bin("+", hs.S("bottom reached with "), hs.MCall(hs.V("mine"), "to_string"))))
	case "callee-throws":
		prog.Funcs = append(prog.Funcs, hs.Fn("boom", hs.TInt, hs.Blk(hs.V("v"), hs.ES(hs.CallN("throw", hs.S("boom")))), hs.P("v", hs.TInt)))
		faultStmt = hs.Println(hs.CallN("boom", hs.V("mine")))
	case "index-out-of-range":
		faultStmt = hs.Println(hs.Idx(hs.List(hs.I(1), hs.I(2)), hs.Bin("+", hs.V("n"), hs.I(5))))
	case "closure-throws":
		faultStmt = hs.ES(&hs.BlockExpr{B: hs.Blk(nil, hs.LetS("f", &hs.FnLit{Params: []hs.Field{{Name: "v", T: hs.TInt}}, Ret: hs.TInt, Body: hs.Blk(hs.V("v"), hs.ES(hs.CallN("throw", hs.S("closure"))))}), hs.Println(hs.CallN("f", hs.V("mine"))))})
	}
	var guards hs.Expr = hs.B(false)
	for k := 1; k <= 3; k++ {
		if mask&(1<<(k-1)) != 0 {
			guards = hs.Bin("||", guards, hs.Bin("==", hs.V("n"), hs.I(int64(k))))
		}
	}
	catch := []hs.Stmt{hs.Println(hs.S("caught at"), hs.V("n"), hs.V("mine"), hs.Mem(hs.V("e"), "message"))}
	if rethrow > 0 {
		catch = append(catch, hs.ES(&hs.If{Cond: hs.Bin("==", hs.V("n"), hs.I(int64(rethrow))), Then: hs.Blk(nil, hs.ES(hs.CallN("throw", hs.Bin("+", hs.S("again from "), hs.MCall(hs.V("n"), "to_string")))))}))
	}
	rec := hs.CallN("walk", hs.Bin("-", hs.V("n"), hs.I(1)), hs.V("mine"))
	walk := hs.Fn("walk", hs.TInt, hs.Blk(hs.Bin("+", hs.V("r"), hs.V("mine")),
		hs.LetS("mine", hs.Bin("+", hs.Bin("*", hs.V("n"), hs.I(10)), hs.V("acc"))),
		hs.ES(&hs.If{Cond: hs.Bin("==", hs.V("n"), hs.I(0)), Then: hs.Blk(nil, faultStmt)}),
		hs.LetS("r", hs.I(0)),
		hs.ES(&hs.If{Cond: guards,
			Then: hs.Blk(nil, hs.LetS("inner", hs.Bin("+", hs.V("mine"), hs.I(1))),
				hs.ES(hs.Asg("=", hs.V("r"), &hs.Try{Body: hs.Blk(rec), Var: "e", Catch: hs.Blk(hs.Un("-", hs.V("inner")), catch...)}))),
			Else: hs.Blk(nil, hs.ES(hs.Asg("=", hs.V("r"), rec)))}),
		hs.Println(hs.S("leaving"), hs.V("n"), hs.V("mine"), hs.V("r")),
	), hs.P("n", hs.TInt), hs.P("acc", hs.TInt))
	prog.Funcs = append(prog.Funcs, walk)
	main := []hs.Stmt{
		hs.LetS("before", hs.I(5)),
		hs.LetS("got", &hs.Try{Body: hs.Blk(hs.CallN("walk", hs.I(3), hs.I(1))), Var: "e", Catch: hs.Blk(hs.I(-1), hs.Println(hs.S("main caught"), hs.Mem(hs.V("e"), "message")))}),
		hs.LetS("after", hs.I(6)),
		hs.Println(hs.S("done"), hs.V("before"), hs.V("got"), hs.V("after")),
		hs.LetS("got2", &hs.Try{Body: hs.Blk(hs.CallN("walk", hs.I(2), hs.I(2))), Var: "e", Catch: hs.Blk(hs.I(-2), hs.Println(hs.S("main caught"), hs.Mem(hs.V("e"), "message")))}),
		hs.Println(hs.S("done"), hs.V("before"), hs.V("got2"), hs.V("after")),
	}
	prog.Funcs = append(prog.Funcs, hs.Fn("main", nil, hs.Blk(nil, main...)))
	return mkCase(prog, fmt.Sprintf("guarding-activations:%03b", mask), "fault:"+fault, fmt.Sprintf("rethrow-at:%d", rethrow)), true
}

func init() {
	semanticFamilies = append(semanticFamilies, progFamily{Name: "S18-handlers-held-by-activations-of-a-recursive-function", Count: func(string) int { return recCount() }, Gen: func(_ string, idx int) (progCase, bool) { return recGen(idx) }})
}
