package main

import (
	"fmt"
	"strings"

	"hmsverif/internal/hs"
)

// C11 family: all nestings (depth <= 3 quick / 4 thorough) of control constructs around each
// kind of exit; every level prints a marker before and after its child, mutates a global
// before the exit, and the program continues with code that exposes stale handlers, loop
// labels and operand-stack residue.

var ctlLevels = []string{"loop", "while", "for", "block", "if", "else", "match", "try", "catch", "call", "ifexpr-value", "closure", "for-over-global-range", "for-over-global-list"}
var ctlExits = []string{"break", "continue", "return", "return-value", "throw", "fatal", "none"}

func ctlDepths(tier string) int {
	if tier == "thorough" {
		return 4
	}
	return 3
}

func ctlCount(tier string) int {
	n, total := len(ctlLevels), 0
	c := 1
	for d := 1; d <= ctlDepths(tier); d++ {
		c *= n
		total += c * len(ctlExits) * 2
	}
	return total
}

func ctlDecode(tier string, idx int) (levels []string, exit string, tailThrow bool) {
	n := len(ctlLevels)
	c := 1
	for d := 1; d <= ctlDepths(tier); d++ {
		c *= n
		sz := c * len(ctlExits) * 2
		if idx < sz {
			tailThrow = idx%2 == 1
			idx /= 2
			exit = ctlExits[idx%len(ctlExits)]
			idx /= len(ctlExits)
			levels = make([]string, d)
			for i := d - 1; i >= 0; i-- {
				levels[i] = ctlLevels[idx%n]
				idx /= n
			}
			return
		}
		idx -= sz
	}
	return nil, "", false
}

func sv(format string, a ...any) hs.Expr { return hs.S(fmt.Sprintf(format, a...)) }

func ctlCase(tier string, idx int) (progCase, bool) {
	levels, exit, tailThrow := ctlDecode(tier, idx)
	if levels == nil {
		return progCase{}, false
	}
	// legality: break/continue need an enclosing loop with no function boundary in between;
	// a value-returning exit needs the innermost function to return int.
	if exit == "break" || exit == "continue" {
		ok := false
		for i := len(levels) - 1; i >= 0; i-- {
			if levels[i] == "call" || levels[i] == "closure" {
				break
			}
			if levels[i] == "loop" || levels[i] == "while" || strings.HasPrefix(levels[i], "for") {
				ok = true
				break
			}
		}
		if !ok {
			return progCase{}, false
		}
	}
	prog := &hs.Program{
		Globals: []*hs.Let{{Name: "G", X: hs.I(0)}, {Name: "G2", X: hs.I(0)}},
	}
	overGlobal := false
	for _, l := range levels {
		overGlobal = overGlobal || strings.HasPrefix(l, "for-over-global")
	}
	if overGlobal {
		prog.Globals = append(prog.Globals, &hs.Let{Name: "RG", X: &hs.RangeLit{From: hs.I(0), To: hs.I(3)}}, &hs.Let{Name: "LG", X: hs.List(hs.I(10), hs.I(11), hs.I(12))})
	}
	// innermost function boundary decides what `return` looks like
	innerFn := -1
	for i := len(levels) - 1; i >= 0; i-- {
		if levels[i] == "call" || levels[i] == "closure" {
			innerFn = i
			break
		}
	}
	_ = innerFn
	var gen func(i int) []hs.Stmt
	gen = func(i int) []hs.Stmt {
		if i == len(levels) {
			pre := hs.ES(hs.Asg("+=", hs.V("G2"), hs.I(1)))
			switch exit {
			case "break":
				return []hs.Stmt{pre, &hs.Break{}}
			case "continue":
				return []hs.Stmt{pre, &hs.Continue{}}
			case "return":
				return []hs.Stmt{pre, &hs.Return{}}
			case "return-value":
				return []hs.Stmt{pre, &hs.Return{X: hs.I(77)}}
			case "throw":
				return []hs.Stmt{pre, hs.ES(hs.CallN("throw", hs.S("E")))}
			case "fatal":
				return []hs.Stmt{pre, hs.LetS("zz", hs.List(hs.I(1))), hs.Println(hs.Idx(hs.V("zz"), hs.I(5)))}
			default:
				return []hs.Stmt{pre}
			}
		}
		lv := levels[i]
		a, b := fmt.Sprintf("L%da", i), fmt.Sprintf("L%db", i)
		iv := fmt.Sprintf("i%d", i)
		child := gen(i + 1)
		wrap := func(pre []hs.Stmt, post ...hs.Stmt) []hs.Stmt {
			out := append([]hs.Stmt{}, pre...)
			out = append(out, child...)
			return append(out, post...)
		}
		switch lv {
		case "loop":
			body := wrap([]hs.Stmt{
				hs.ES(hs.Asg("+=", hs.V(iv), hs.I(1))),
				hs.ES(&hs.If{Cond: hs.Bin(">", hs.V(iv), hs.I(2)), Then: hs.Blk(nil, &hs.Break{})}),
				hs.Println(hs.S(a), hs.V(iv)),
			}, hs.Println(hs.S(b), hs.V(iv)))
			return []hs.Stmt{hs.LetS(iv, hs.I(0)), &hs.Loop{Body: hs.Blk(nil, body...)}}
		case "while":
			body := wrap([]hs.Stmt{
				hs.ES(hs.Asg("+=", hs.V(iv), hs.I(1))),
				hs.Println(hs.S(a), hs.V(iv)),
			}, hs.Println(hs.S(b), hs.V(iv)))
			return []hs.Stmt{hs.LetS(iv, hs.I(0)), &hs.While{Cond: hs.Bin("<", hs.V(iv), hs.I(2)), Body: hs.Blk(nil, body...)}}
		case "for":
			body := wrap([]hs.Stmt{hs.Println(hs.S(a), hs.V(iv))}, hs.Println(hs.S(b), hs.V(iv)))
			return []hs.Stmt{&hs.For{Var: iv, Iter: &hs.RangeLit{From: hs.I(0), To: hs.I(2)}, Body: hs.Blk(nil, body...)}}
		case "for-over-global-range", "for-over-global-list":
			// the iterated value outlives the loop: main iterates it again at the very end, from its
			// first element, however the loop here was left
			src := map[string]string{"for-over-global-range": "RG", "for-over-global-list": "LG"}[lv]
			body := wrap([]hs.Stmt{hs.Println(hs.S(a), hs.V(iv))}, hs.Println(hs.S(b), hs.V(iv)))
			return []hs.Stmt{&hs.For{Var: iv, Iter: hs.V(src), Body: hs.Blk(nil, body...)}}
		case "block":
			return []hs.Stmt{hs.ES(&hs.BlockExpr{B: hs.Blk(nil, wrap([]hs.Stmt{hs.Println(hs.S(a))}, hs.Println(hs.S(b)))...)})}
		case "if":
			return []hs.Stmt{hs.ES(&hs.If{Cond: hs.Bin("==", hs.V("G"), hs.I(0)), Then: hs.Blk(nil, wrap([]hs.Stmt{hs.Println(hs.S(a))}, hs.Println(hs.S(b)))...)})}
		case "else":
			return []hs.Stmt{hs.ES(&hs.If{Cond: hs.Bin("!=", hs.V("G"), hs.I(0)), Then: hs.Blk(nil, hs.Println(hs.S("then"))),
				Else: hs.Blk(nil, wrap([]hs.Stmt{hs.Println(hs.S(a))}, hs.Println(hs.S(b)))...)})}
		case "match":
			// first a match whose FIRST arm diverges but is not the one taken: the match completes
			// through its default arm and the code behind it runs
			untaken := hs.ES(&hs.Match{X: hs.Bin("+", hs.V("G"), hs.I(5)), Arms: []hs.MatchArm{
				{Lits: []hs.Expr{hs.I(0)}, Body: &hs.BlockExpr{B: hs.Blk(nil, hs.ES(hs.CallN("throw", hs.S("never"))))}},
				{Lits: nil, Body: &hs.BlockExpr{B: hs.Blk(nil, hs.Println(sv("skip%d", i)))}},
			}})
			return []hs.Stmt{untaken, hs.Println(sv("between%d", i)), hs.ES(&hs.Match{X: hs.V("G"), Arms: []hs.MatchArm{
				{Lits: []hs.Expr{hs.I(0)}, Body: &hs.BlockExpr{B: hs.Blk(nil, wrap([]hs.Stmt{hs.Println(hs.S(a))}, hs.Println(hs.S(b)))...)}},
				{Lits: nil, Body: &hs.BlockExpr{B: hs.Blk(nil, hs.Println(hs.S("other")))}},
			}})}
		case "try":
			// (at even levels the catch identifier is named like the local of f that is read after
			// everything: it shadows the local inside the catch block only)
			ev := fmt.Sprintf("e%d", i)
			if i%2 == 0 {
				ev = "loc"
			}
			return []hs.Stmt{hs.ES(&hs.Try{
				Body:  hs.Blk(nil, wrap([]hs.Stmt{hs.Println(hs.S(a))}, hs.Println(hs.S(b)))...),
				Var:   ev,
				Catch: hs.Blk(nil, hs.Println(sv("caught%d", i), hs.Mem(hs.V(ev), "message"))),
			})}
		case "catch":
			ev := fmt.Sprintf("e%d", i)
			if i%2 == 0 {
				ev = "loc"
			}
			return []hs.Stmt{hs.ES(&hs.Try{
				Body:  hs.Blk(nil, hs.ES(hs.CallN("throw", sv("T%d", i)))),
				Var:   ev,
				Catch: hs.Blk(nil, wrap([]hs.Stmt{hs.Println(hs.S(a), hs.Mem(hs.V(ev), "message"))}, hs.Println(hs.S(b)))...),
			})}
		case "ifexpr-value":
			// the exit happens while an operand is already on the operand stack
			vn := fmt.Sprintf("v%d", i)
			inner := hs.Blk(hs.I(5), wrap([]hs.Stmt{hs.Println(hs.S(a))}, hs.Println(hs.S(b)))...)
			return []hs.Stmt{
				hs.LetS(vn, hs.Bin("+", hs.I(100), &hs.If{Cond: hs.Bin("==", hs.V("G"), hs.I(0)), Then: inner, Else: hs.Blk(hs.I(6))})),
				hs.Println(hs.S("v"), hs.V(vn)),
			}
		case "call":
			fname := fmt.Sprintf("f%d", i)
			var ret *hs.Type
			body := append(append([]hs.Stmt{}, child...), hs.Println(sv("end %s", fname)))
			blk := hs.Blk(nil, body...)
			if exit == "return-value" && innermostFn(levels) == i {
				ret = hs.TInt
				blk.Tail = hs.I(3)
				prog.Funcs = append(prog.Funcs, hs.Fn(fname, ret, blk))
				return []hs.Stmt{hs.Println(hs.S(a)), hs.Println(hs.S("ret"), hs.CallN(fname)), hs.Println(hs.S(b))}
			}
			prog.Funcs = append(prog.Funcs, hs.Fn(fname, nil, blk))
			return []hs.Stmt{hs.Println(hs.S(a)), hs.ES(hs.CallN(fname)), hs.Println(hs.S(b))}
		case "closure":
			cname := fmt.Sprintf("c%d", i)
			body := append(append([]hs.Stmt{}, child...), hs.Println(sv("end %s", cname)))
			blk := hs.Blk(nil, body...)
			lit := &hs.FnLit{Body: blk}
			// the function literal sits BETWEEN control constructs of the same kinds in one function
			// (whatever the compiler numbers per function must not restart at the literal)
			mini := func(tag string) []hs.Stmt {
				ev := fmt.Sprintf("m%s%d", tag, i)
				return []hs.Stmt{
					hs.ES(&hs.Try{Body: hs.Blk(nil, hs.ES(hs.CallN("throw", hs.S(tag+"-t")))), Var: ev, Catch: hs.Blk(nil, hs.Println(sv("%s-caught%d", tag, i), hs.Mem(hs.V(ev), "message")))}),
					&hs.Loop{Body: hs.Blk(nil, hs.Println(sv("%s-loop%d", tag, i)), &hs.Break{})},
					hs.ES(&hs.If{Cond: hs.Bin("==", hs.V("G"), hs.I(0)), Then: hs.Blk(nil, hs.Println(sv("%s-if%d", tag, i))), Else: hs.Blk(nil, hs.Println(hs.S("never")))}),
					hs.ES(&hs.Match{X: hs.V("G"), Arms: []hs.MatchArm{{Lits: []hs.Expr{hs.I(0)}, Body: &hs.BlockExpr{B: hs.Blk(nil, hs.Println(sv("%s-match%d", tag, i)))}}, {Body: &hs.BlockExpr{B: hs.Blk(nil)}}}}),
				}
			}
			if exit == "return-value" && innermostFn(levels) == i {
				lit.Ret = hs.TInt
				blk.Tail = hs.I(3)
				out := append(mini("pre"), hs.LetS(cname, lit), hs.Println(hs.S(a)), hs.Println(hs.S("ret"), hs.CallN(cname)), hs.Println(hs.S(b)))
				return append(out, mini("post")...)
			}
			out := append(mini("pre"), hs.LetS(cname, lit), hs.Println(hs.S(a)), hs.ES(hs.CallN(cname)), hs.Println(hs.S(b)))
			return append(out, mini("post")...)
		}
		return nil
	}
	fbody := gen(0)
	fblk := hs.Blk(nil, append(append([]hs.Stmt{hs.LetS("loc", hs.I(41))}, fbody...), hs.Println(hs.S("after"), hs.V("loc")))...)
	if tailThrow {
		fblk.Stmts = append(fblk.Stmts, hs.ES(hs.CallN("g")), hs.Println(hs.S("unreachable in f")))
	}
	var fret *hs.Type
	if exit == "return-value" && innermostFn(levels) == -1 {
		fret = hs.TInt
		fblk.Tail = hs.I(3)
	}
	prog.Funcs = append(prog.Funcs, hs.Fn("f", fret, fblk))
	callF := hs.ES(hs.CallN("f"))
	if fret != nil {
		callF = hs.Println(hs.S("ret"), hs.CallN("f"))
	}
	// an uncaught throw at the very end must not reach a handler left behind by an earlier exit
	var tail []hs.Stmt
	if tailThrow {
		tail = []hs.Stmt{hs.ES(hs.CallN("g")), hs.Println(hs.S("unreachable"))}
		prog.Funcs = append(prog.Funcs, hs.Fn("g", nil, hs.Blk(nil, hs.ES(hs.CallN("throw", hs.S("Z"))))))
	}
	mainStmts := []hs.Stmt{
		hs.LetS("m", hs.I(7)),
		hs.ES(&hs.Try{Body: hs.Blk(nil, callF, hs.Println(hs.S("f done"))), Var: "e", Catch: hs.Blk(nil, hs.Println(hs.S("main caught"), hs.Mem(hs.V("e"), "message"), hs.Mem(hs.V("e"), "line"), hs.Mem(hs.V("e"), "column")))}),
		hs.Println(hs.V("G2"), hs.V("m")),
		hs.ES(&hs.Try{Body: hs.Blk(nil, hs.ES(hs.CallN("throw", hs.S("P")))), Var: "e", Catch: hs.Blk(nil, hs.Println(hs.S("post"), hs.Mem(hs.V("e"), "message")))}),
		&hs.For{Var: "k", Iter: &hs.RangeLit{From: hs.I(0), To: hs.I(2)}, Body: hs.Blk(nil, hs.Println(hs.S("k"), hs.V("k")))},
		hs.Println(hs.Bin("+", hs.V("m"), hs.I(1))),
	}
	if overGlobal {
		mainStmts = append(mainStmts,
			&hs.For{Var: "k", Iter: hs.V("RG"), Body: hs.Blk(nil, hs.Println(hs.S("rg"), hs.V("k")))},
			&hs.For{Var: "k", Iter: hs.V("LG"), Body: hs.Blk(nil, hs.Println(hs.S("lg"), hs.V("k")))})
	}
	// in the tail-throw variant f() itself also ends with a bare call that throws: a stale handler
	// inside f would catch it instead of main's handler
	prog.Funcs = append(prog.Funcs, hs.Fn("main", nil, hs.Blk(nil, append(mainStmts, tail...)...)))
	tags := []string{"exit:" + exit}
	if tailThrow {
		tags = append(tags, "tail-throw")
	}
	for _, l := range levels {
		tags = append(tags, "lv:"+l)
	}
	return mkCase(prog, uniq(tags)...), true
}

func innermostFn(levels []string) int {
	for i := len(levels) - 1; i >= 0; i-- {
		if levels[i] == "call" || levels[i] == "closure" {
			return i
		}
	}
	return -1
}

func uniq(in []string) []string {
	seen := map[string]bool{}
	var out []string
	for _, s := range in {
		if !seen[s] {
			seen[s] = true
			out = append(out, s)
		}
	}
	return out
}

func init() {
	semanticFamilies = append(semanticFamilies, progFamily{
		Name:  "C11-control-flow-nestings",
		Count: ctlCount,
		Gen:   ctlCase,
	})
}
