package main

import (
	"github.com/smarthome-go/homescript/v3/homescript/analyzer"
	ivalue "github.com/smarthome-go/homescript/v3/homescript/interpreter/value"
	"github.com/smarthome-go/homescript/v3/homescript/runtime/value"
)

// Additional host globals (consulted by anaScope / vmScope / treeScope in pipeline.go). C12
// uses them to hand an arbitrary dynamic value to a program as a global of static type
// `any`; nil for every other check.
var (
	extraAnaScope  map[string]analyzer.Variable
	extraVmScope   map[string]value.Value
	extraTreeScope map[string]ivalue.Value
)
