package main

import (
	"hmsverif/internal/hs"
)

// S13 fields of any-objects by name: `obj->field` (an option) and `obj~>field` (the value) on
// any-objects of every origin, for a field that is there and one that is not, in every position
// an expression can stand in (one access leaves exactly one value behind).

var aoMakes = []string{"object-literal-cast", "built-by-set", "returned-by-function", "element-of-list"}
var aoFields = []string{"present", "missing"}
var aoOps = []string{"->", "~>"}
var aoUses = []string{"let", "println-argument", "list-element", "methods", "in-loop", "condition", "call-argument", "equality", "match", "statement-then-locals"}

func aoCount() int { return len(aoMakes) * len(aoFields) * len(aoOps) * len(aoUses) }

func aoGen(idx int) (progCase, bool) {
	d := radix(idx, len(aoUses), len(aoOps), len(aoFields), len(aoMakes))
	use, op, field, mk := aoUses[d[0]], aoOps[d[1]], aoFields[d[2]], aoMakes[d[3]]
	prog := &hs.Program{}
	lit := func() hs.Expr {
		return &hs.Cast{X: &hs.ObjLit{Fields: []hs.ObjField{{Name: "n", X: hs.I(3)}, {Name: "s", X: hs.S("x")}}}, T: hs.TAnyObj}
	}
	var pre []hs.Stmt
	base := hs.V("ao")
	switch mk {
	case "object-literal-cast":
		pre = []hs.Stmt{hs.LetS("ao", lit())}
	case "built-by-set":
		pre = []hs.Stmt{hs.LetS("ao", &hs.AnyObjLit{}), hs.ES(hs.MCall(hs.V("ao"), "set", hs.S("n"), hs.I(3))), hs.ES(hs.MCall(hs.V("ao"), "set", hs.S("s"), hs.S("x")))}
	case "returned-by-function":
		prog.Funcs = append(prog.Funcs, hs.Fn("mk", hs.TAnyObj, hs.Blk(lit())))
		base = hs.CallN("mk")
	case "element-of-list":
		pre = []hs.Stmt{hs.LetS("aos", hs.List(lit()))}
		base = hs.Idx(hs.V("aos"), hs.I(0))
	}
	name := map[string]string{"present": "n", "missing": "nope"}[field]
	// an expression of type ?int
	opt := func() hs.Expr {
		if op == "->" {
			return &hs.Group{X: &hs.Cast{X: hs.Arrow(base, "->", name), T: hs.TOpt(hs.TInt)}}
		}
		return hs.Un("?", &hs.Group{X: &hs.Cast{X: hs.Arrow(base, "~>", name), T: hs.TInt}})
	}
	var body []hs.Stmt
	switch use {
	case "let":
		body = []hs.Stmt{hs.LetS("v", opt()), hs.Println(hs.V("v"))}
	case "println-argument":
		body = []hs.Stmt{hs.Println(hs.S("before"), opt(), hs.S("after"))}
	case "list-element":
		body = []hs.Stmt{hs.Println(hs.List(hs.Un("?", hs.I(1)), opt(), hs.Un("?", hs.I(2))))}
	case "methods":
		body = []hs.Stmt{hs.Println(hs.MCall(opt(), "is_some")), hs.Println(hs.Bin("+", hs.MCall(opt(), "unwrap_or", hs.I(40)), hs.I(2)))}
	case "in-loop":
		body = []hs.Stmt{hs.LetS("t", hs.I(0)), &hs.For{Var: "i", Iter: &hs.RangeLit{From: hs.I(0), To: hs.I(60)}, Body: hs.Blk(nil, hs.ES(hs.Asg("+=", hs.V("t"), hs.MCall(opt(), "unwrap_or", hs.I(1)))))}, hs.Println(hs.V("t"))}
	case "condition":
		body = []hs.Stmt{hs.ES(&hs.If{Cond: hs.MCall(opt(), "is_some"), Then: hs.Blk(nil, hs.Println(hs.S("some"))), Else: hs.Blk(nil, hs.Println(hs.S("none")))})}
	case "call-argument":
		prog.Funcs = append(prog.Funcs, hs.Fn("show", hs.TInt, hs.Blk(hs.Bin("-", hs.V("a"), hs.V("b")), hs.Println(hs.V("a"), hs.V("v"), hs.V("b"))), hs.P("a", hs.TInt), hs.P("v", hs.TOpt(hs.TInt)), hs.P("b", hs.TInt)))
		body = []hs.Stmt{hs.Println(hs.CallN("show", hs.I(10), opt(), hs.I(1)))}
	case "equality":
		body = []hs.Stmt{hs.Println(hs.Bin("==", opt(), hs.Un("?", hs.I(3)))), hs.Println(hs.Bin("!=", opt(), hs.Un("?", hs.I(4))))}
	case "match":
		body = []hs.Stmt{hs.Println(&hs.Match{X: hs.MCall(opt(), "unwrap_or", hs.I(0)), Arms: []hs.MatchArm{{Lits: []hs.Expr{hs.I(3)}, Body: hs.S("three")}, {Lits: []hs.Expr{hs.I(0)}, Body: hs.S("zero")}, {Body: hs.S("other")}}})}
	case "statement-then-locals":
		body = []hs.Stmt{hs.LetS("a", hs.I(1)), hs.ES(opt()), hs.LetS("b", hs.I(2)), hs.ES(opt()), hs.LetS("c", hs.I(3)), hs.Println(hs.V("a"), hs.V("b"), hs.V("c"))}
	}
	stmts := append(pre, body...)
	stmts = append(stmts, hs.Println(hs.S("end")))
	prog.Funcs = append(prog.Funcs, hs.Fn("main", nil, hs.Blk(nil, stmts...)))
	return mkCase(prog, "anyobj:"+mk, "field:"+field, "op:"+op, "use:"+use), true
}

func init() {
	semanticFamilies = append(semanticFamilies, progFamily{Name: "S13-any-object-fields-by-name", Count: func(string) int { return aoCount() }, Gen: func(_ string, idx int) (progCase, bool) { return aoGen(idx) }})
}

// S19 comparisons of any-objects whose key sets differ: pairs with the same number of keys
// under different names, a key on one side only, the same keys with another value, both empty;
// compared by `==`, `!=`, in both orders, as elements of lists and through `contains`.

var aoEqPairs = [][2][]string{
	{{"a=1"}, {"b=1"}}, {{"a=1"}, {"a=1"}}, {{"a=1", "b=2"}, {"a=1"}}, {{"a=1"}, {"a=2"}}, {{}, {}},
	{{"a=1", "b=2"}, {"a=1", "c=2"}}, {{"a=1", "b=2"}, {"c=1", "d=2"}}, {{"a=1", "b=2"}, {"b=2", "a=1"}}, {{}, {"a=1"}},
}
var aoEqUses = []string{"operators", "in-lists", "contains", "nested"}

func aoEqCount() int { return len(aoEqPairs) * len(aoEqUses) }

func aoEqGen(idx int) (progCase, bool) {
	d := radix(idx, len(aoEqUses), len(aoEqPairs))
	use, pair := aoEqUses[d[0]], aoEqPairs[d[1]]
	build := func(name string, kvs []string) []hs.Stmt {
		out := []hs.Stmt{hs.LetS(name, &hs.AnyObjLit{})}
		for _, kv := range kvs {
			out = append(out, hs.ES(hs.MCall(hs.V(name), "set", hs.S(kv[:1]), hs.I(int64(kv[2]-'0')))))
		}
		return out
	}
	body := append(build("x", pair[0]), build("y", pair[1])...)
	switch use {
	case "operators":
		body = append(body, hs.Println(hs.Bin("==", hs.V("x"), hs.V("y"))), hs.Println(hs.Bin("==", hs.V("y"), hs.V("x"))), hs.Println(hs.Bin("!=", hs.V("x"), hs.V("y"))), hs.Println(hs.Bin("==", hs.V("x"), hs.V("x"))))
	case "in-lists":
		body = append(body, hs.Println(hs.Bin("==", hs.List(hs.V("x")), hs.List(hs.V("y")))), hs.Println(hs.Bin("!=", hs.List(hs.V("y"), hs.V("x")), hs.List(hs.V("x"), hs.V("y")))))
	case "contains":
		body = append(body, hs.LetS("l", hs.List(hs.V("x"))), hs.Println(hs.MCall(hs.V("l"), "contains", hs.V("y"))), hs.Println(hs.MCall(hs.V("l"), "contains", hs.V("x"))))
	case "nested":
		body = append(body, hs.LetS("ox", &hs.AnyObjLit{}), hs.ES(hs.MCall(hs.V("ox"), "set", hs.S("inner"), hs.V("x"))), hs.LetS("oy", &hs.AnyObjLit{}), hs.ES(hs.MCall(hs.V("oy"), "set", hs.S("inner"), hs.V("y"))),
			hs.Println(hs.Bin("==", hs.V("ox"), hs.V("oy"))), hs.Println(hs.Bin("==", hs.V("oy"), hs.V("ox"))))
	}
	body = append(body, hs.Println(hs.S("end")))
	prog := &hs.Program{Funcs: []*hs.Func{hs.Fn("main", nil, hs.Blk(nil, body...))}}
	return mkCase(prog, "any-object-pair:"+itoa(d[1]), "compared:"+use), true
}

func init() {
	semanticFamilies = append(semanticFamilies, progFamily{Name: "S19-comparisons-of-any-objects-whose-keys-differ", Count: func(string) int { return aoEqCount() }, Gen: func(_ string, idx int) (progCase, bool) { return aoEqGen(idx) }})
}
