package main

import (
	"fmt"
	"strings"
)

// C18, the members of an any-object over fields of every kind of value: an any-object may hold
// anything, also what the value model of the other scenarios does not cover (functions, closures,
// builtin members, nested any-objects, options, ranges). Every member that takes a key is called
// for a field of each kind, on both backends: never a host panic, a result of the advertised
// type, and the same answer from both value libraries.

// (typeName: the analyzer's own name of the kind of type, ast.TypeKind.String())
var c18FieldKinds = []struct{ name, expr, typeName string }{
	{"int", "1", "int"},
	{"float", "1.5", "float"},
	{"bool", "true", "bool"},
	{"str", `"s"`, "str"},
	{"null", "null", "null"},
	{"list", "[1, 2]", "list"},
	{"empty-list", "EMPTY", "list"},
	{"object", "new { a: 1 }", "object"},
	{"any-object", "new { ? }", "any-object"},
	{"option-some", "?1", "Option"},
	{"option-none", "NONE", "Option"},
	{"range", "0..2", "range"},
	{"declared-function", "helper", "function"},
	{"closure", "fn(x: int) -> int { x + 1 }", "function"},
	{"function-in-variable", "HELD", "function"},
	{"builtin-member", "WORD.len", "function"},
	{"list-of-functions", "[helper, helper]", "list"},
}

var c18FieldUses = []struct{ name, stmt string }{
	{"get_type", `println(o.get_type("k"));`},
	{"get", `println(o.get("k").is_some(), o.get("other").is_some());`},
	{"keys", `println(o.keys());`},
	{"arrow", `println((o->k).is_some(), (o->other).is_some());`},
	{"overwrite-then-get_type", "o.set(\"k\", 2);\n    println(o.get_type(\"k\"));"},
	{"copy-then-get_type", "let p = o;\n    p.set(\"other\", 1);\n    println(p.get_type(\"k\"), o.keys());"},
	{"in-list-then-get_type", "let l = [o];\n    println(l[0].get_type(\"k\"));"},
	// read back under a type: admitted or refused with a cast error, never a crash, and a function
	// is no value of any of these types
	{"read-as:int", c18ReadAs("o~>k as int")},
	{"read-as:str", c18ReadAs("o~>k as str")},
	{"read-as:list", c18ReadAs("o~>k as [int]")},
	{"read-as:object", c18ReadAs("o~>k as { a: int }")},
	{"read-as:any-object", c18ReadAs("o~>k as { ? }")},
	{"read-as:option", c18ReadAs("o->k as ?str")},
	{"read-as:option-of-list", c18ReadAs("o->k as ?[int]")},
	{"get-unwrap-as:int", c18ReadAs("o.get(\"k\").unwrap() as int")},
}

func c18ReadAs(expr string) string {
	return "try {\n        let v = " + expr + ";\n        println(\"admitted\");\n    } catch e {\n        println(\"refused\");\n    }"
}

func c18FieldCount() int { return len(c18FieldKinds) * len(c18FieldUses) }

func c18FieldProgram(idx int) (string, []string, string) {
	d := radix(idx, len(c18FieldUses), len(c18FieldKinds))
	use, k := c18FieldUses[d[0]], c18FieldKinds[d[1]]
	text := "fn helper(x: int) -> int { x }\nfn main() {\n    let WORD = \"word\";\n    let HELD = helper;\n    let EMPTY: [int] = [];\n    let NONE: ?int = none;\n    let o = new { ? };\n    o.set(\"k\", " + k.expr + ");\n    " + use.stmt + "\n    println(\"end\");\n}\n"
	return text, []string{"field-kind:" + k.name, "use:" + use.name}, k.typeName
}

func c18Fields(_ string, idx int, r *Result) {
	text, tags, typeName := c18FieldProgram(idx)
	r.Sample(text)
	a := Analyze(map[string]string{"main": text}, true)
	r.Trans(1)
	if a.Obs.Class == "HOST-PANIC" {
		r.Note("analyzer-panic(C05)", 1)
		return
	}
	if !a.Obs.Accepted() {
		r.Note("rejected-by-analyzer", 1)
		return
	}
	ov := RunVM(a, defaultOpts())
	ot := RunTree(a, defaultOpts())
	r.Obs(ov)
	r.Trans(2)
	r.Outcome(ov.Class)
	r.Distinct(strings.Join(tags, ",") + "|" + ov.Key())
	for _, bo := range []struct {
		name string
		o    Obs
	}{{"vm", ov}, {"tree", ot}} {
		if cc := crashClass(bo.o); cc != "" {
			r.Fail(cc, append([]string{"backend:" + bo.name}, tags...), text, bo.o.String())
			return
		}
		if bo.o.Class != "ok" {
			r.Fail("MEMBER:interrupt for a field that exists:"+bo.o.Class+kindSuffix(bo.o.Kind), append([]string{"backend:" + bo.name}, tags...), text, bo.o.String())
			return
		}
	}
	if ov.Out != ot.Out {
		r.Fail("MEMBER:the value libraries answer differently", tags, text, fmt.Sprintf("vm: %s\ntree: %s", ov.String(), ot.String()))
		return
	}
	if typeName == "function" && strings.Contains(strings.Join(tags, ","), "use:read-as:") && strings.HasPrefix(ov.Out, "admitted") {
		r.Fail("MEMBER:a function was admitted under a data type", tags, text, ov.String())
	}
	if hasTag(tags, "use:get_type") || hasTag(tags, "use:in-list-then-get_type") {
		if first := strings.SplitN(ov.Out, "\n", 2)[0]; first != typeName {
			r.Fail("MEMBER:get_type names another kind of value", tags, text, fmt.Sprintf("expected %q, got %q", typeName, first))
		}
	}
}
