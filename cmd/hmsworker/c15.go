package main

import (
	"fmt"
	"sort"
	"strings"
)

// C15: modules are isolated and linked by name and visibility.
//
// reflink (the reference linker) is tiny: an import is legal iff the module exists, the item
// exists and is `pub`, and the import graph has no cycle; an imported function runs its own
// body against the globals of its defining module; each module's globals are initialised
// exactly once. Expected outputs are computed from the module descriptions below.

// ---------------------------------------------------------------- F1: visibility

type vis int

const (
	absent vis = iota
	private
	public
	event // `event fn`: the third function modifier; like private it is not importable
)

func (v vis) prefix() string {
	switch v {
	case public:
		return "pub "
	case event:
		return "event "
	}
	return ""
}

var visNames = []string{"absent", "private", "pub", "event"}

func c15F1Count() int { return 4 * 3 * 3 * 3 * 16 * 3 }

func c15F1(idx int, r *Result) {
	d := radix(idx, 3, 16, 3, 3, 3, 4)
	order, imp, tv, vv, gv, fv := d[0], d[1], vis(d[2]), vis(d[3]), []vis{absent, public, event}[d[4]], vis(d[5])
	var lib strings.Builder
	if vv != absent {
		fmt.Fprintf(&lib, "%slet v = 41;\n", vv.prefix())
	}
	// (no global at all when v is absent: a library module need not have any)
	if tv != absent {
		fmt.Fprintf(&lib, "%stype T = { x: int };\n", tv.prefix())
	}
	if fv != absent {
		fmt.Fprintf(&lib, "%sfn f() -> int { println(\"a.f\"); 1 }\n", fv.prefix())
	}
	if gv != absent {
		fmt.Fprintf(&lib, "%sfn g() -> int { println(\"a.g\"); 2 }\n", gv.prefix())
	}
	lib.WriteString("fn main() {}\n")
	names := []string{"f", "g", "v", "type T"}
	viss := []vis{fv, gv, vv, tv}
	var imports []string
	legal := true
	var body []string
	var want strings.Builder
	for i, n := range names {
		if imp&(1<<i) == 0 {
			continue
		}
		imports = append(imports, n)
		if viss[i] != public {
			legal = false
		}
		switch n {
		case "f":
			body = append(body, "    println(f());")
			want.WriteString("a.f\n1\n")
		case "g":
			body = append(body, "    println(g());")
			want.WriteString("a.g\n2\n")
		case "v":
			body = append(body, "    println(v);")
			want.WriteString("41\n")
		case "type T":
			body = append(body, "    let t: T = new { x: 5 };\n    println(t.x);")
			want.WriteString("5\n")
		}
	}
	// the items of the list in the order above, reversed (the type first), or rotated by one
	switch order {
	case 1:
		for i, j := 0, len(imports)-1; i < j; i, j = i+1, j-1 {
			imports[i], imports[j] = imports[j], imports[i]
		}
	case 2:
		if len(imports) > 1 {
			imports = append(imports[1:], imports[0])
		}
	}
	if order > 0 && len(imports) < 2 {
		r.Note("inapplicable", 1)
		return
	}
	var m strings.Builder
	if len(imports) > 0 {
		fmt.Fprintf(&m, "import { %s } from a;\n", strings.Join(imports, ", "))
	}
	fmt.Fprintf(&m, "fn main() {\n%s\n    println(\"end\");\n}\n", strings.Join(body, "\n"))
	want.WriteString("end\n")
	mods := map[string]string{"main": m.String(), "a": lib.String()}
	tags := []string{"f:" + visNames[fv], "g:" + visNames[gv], "v:" + visNames[vv], "T:" + visNames[tv], "imports:" + strings.Join(imports, "+")}
	c15Judge(mods, legal, want.String(), tags, r)
}

// c15Judge runs the graph through the real pipeline and compares with reflink's verdict.
func c15Judge(mods map[string]string, legal bool, want string, tags []string, r *Result) {
	text := detText(detProg{Mods: mods})
	r.Sample(text)
	a := Analyze(mods, true)
	r.Trans(1)
	if a.Obs.Class == "HOST-PANIC" {
		r.Fail("HOST-PANIC:"+panicFunc(a.Obs.PanicSite)+":"+normMsg(a.Obs.Msg), tags, text, a.Obs.String())
		return
	}
	r.Distinct(fmt.Sprintf("%v|%v|%s", legal, a.Obs.Accepted(), strings.Join(tags, ",")))
	if !legal {
		r.Outcome("illegal")
		if a.Obs.Accepted() {
			r.Fail("ACCEPTS-ILLEGAL-IMPORT", tags, text, "no error-level diagnostic for an import of a private or missing item / missing module / cyclic import")
		} else if hasTag(tags, "cycle") && !strings.Contains(strings.ToLower(strings.Join(a.Obs.Errors, "\n")), "cycl") {
			// the cyclic import itself is what has to be reported, not only a consequence of it
			r.Fail("CYCLE-NOT-REPORTED:the program is rejected but no diagnostic names the cyclic import", tags, text, a.Obs.String())
		}
		return
	}
	r.Outcome("legal")
	if !a.Obs.Accepted() {
		r.Fail("REJECTS-LEGAL-IMPORT:"+normMsg(strings.Join(append(append([]string{}, a.Obs.Syntax...), a.Obs.Errors...), "; ")), tags, text, a.Obs.String())
		return
	}
	ov := RunVM(a, defaultOpts())
	if hasTag(tags, "overlapping-names") {
		r.Volatile() // known finding: which module's global wins depends on map order
	}
	r.Obs(ov)
	r.Trans(2)
	if cc := crashClass(ov); cc != "" {
		r.Fail(cc, append([]string{"backend:vm"}, tags...), text, ov.String())
	} else if ov.Class != "ok" {
		r.Fail("OUTCOME:ok->"+ov.Class+kindSuffix(ov.Kind), append([]string{"backend:vm"}, tags...), text, ov.String())
	} else if ov.Out != want {
		r.Fail("ISOLATION:output differs from the reference linker", append([]string{"backend:vm"}, tags...), text, fmt.Sprintf("expected %q got %q", want, ov.Out))
	}
	ot := RunTree(a, defaultOpts())
	if cc := crashClass(ot); cc != "" {
		r.Fail(cc, append([]string{"backend:tree"}, tags...), text, ot.String())
	} else if ot.Class != "ok" {
		r.Fail("OUTCOME:ok->"+ot.Class+kindSuffix(ot.Kind), append([]string{"backend:tree"}, tags...), text, ot.String())
	} else if ot.Out != want {
		r.Fail("ISOLATION:output differs from the reference linker", append([]string{"backend:tree"}, tags...), text, fmt.Sprintf("expected %q got %q", want, ot.Out))
	}
}

// ---------------------------------------------------------------- F2: same names in several modules

// library shape: own global `tag`/`cnt`, a private helper, public entry points that use them.
var c15LibShapes = []string{"pub-f", "pub-f-priv-helper", "pub-g-calls-priv-f", "pub-f-and-g", "pub-bump-counter"}
var c15MainShapes = []string{"no-own", "own-helper", "own-f", "own-tag", "own-helper-and-tag"}

func c15F2Count() int {
	return len(c15LibShapes) * len(c15LibShapes) * len(c15MainShapes) * 2
}

func libText(mod, shape string) (text string, exports []string) {
	var b strings.Builder
	fmt.Fprintf(&b, "let tag = \"%s\";\nlet cnt = 0;\n", mod)
	switch shape {
	case "pub-f":
		fmt.Fprintf(&b, "pub fn f_%s() { println(\"%s.f\", tag); }\n", mod, mod)
		exports = []string{"f_" + mod}
	case "pub-f-priv-helper":
		fmt.Fprintf(&b, "fn helper() { println(\"%s.helper\", tag); }\npub fn f_%s() { helper(); }\n", mod, mod)
		exports = []string{"f_" + mod}
	case "pub-g-calls-priv-f":
		fmt.Fprintf(&b, "fn f() -> str { tag + \"!\" }\npub fn g_%s() { println(\"%s.g\", f()); }\n", mod, mod)
		exports = []string{"g_" + mod}
	case "pub-f-and-g":
		fmt.Fprintf(&b, "fn helper() -> str { tag }\npub fn f_%s() { println(\"%s.f\", helper()); }\npub fn g_%s() { println(\"%s.g\", helper()); }\n", mod, mod, mod, mod)
		exports = []string{"f_" + mod, "g_" + mod}
	case "pub-bump-counter":
		fmt.Fprintf(&b, "pub fn f_%s() { cnt += 1; println(\"%s.cnt\", cnt, tag); }\n", mod, mod)
		exports = []string{"f_" + mod}
	}
	b.WriteString("fn main() {}\n")
	return b.String(), exports
}

func libExpect(mod, shape, fn string, calls map[string]int) string {
	switch shape {
	case "pub-f":
		return fmt.Sprintf("%s.f %s\n", mod, mod)
	case "pub-f-priv-helper":
		return fmt.Sprintf("%s.helper %s\n", mod, mod)
	case "pub-g-calls-priv-f":
		return fmt.Sprintf("%s.g %s!\n", mod, mod)
	case "pub-f-and-g":
		if strings.HasPrefix(fn, "f_") {
			return fmt.Sprintf("%s.f %s\n", mod, mod)
		}
		return fmt.Sprintf("%s.g %s\n", mod, mod)
	case "pub-bump-counter":
		calls[mod]++
		return fmt.Sprintf("%s.cnt %d %s\n", mod, calls[mod], mod)
	}
	return ""
}

func c15F2(idx int, r *Result) {
	d := radix(idx, 2, len(c15MainShapes), len(c15LibShapes), len(c15LibShapes))
	twice, ms, bs, as := d[0] == 1, c15MainShapes[d[1]], c15LibShapes[d[2]], c15LibShapes[d[3]]
	at, ae := libText("a", as)
	bt, be := libText("b", bs)
	var m strings.Builder
	fmt.Fprintf(&m, "import { %s } from a;\nimport { %s } from b;\n", strings.Join(ae, ", "), strings.Join(be, ", "))
	var want strings.Builder
	var body []string
	switch ms {
	case "own-helper":
		m.WriteString("fn helper() { println(\"main.helper\"); }\n")
		body = append(body, "    helper();")
		want.WriteString("main.helper\n")
	case "own-f":
		m.WriteString("fn f() -> str { \"main.f\" }\n")
		body = append(body, "    println(f());")
		want.WriteString("main.f\n")
	case "own-tag":
		m.WriteString("let tag = \"main\";\n")
		body = append(body, "    println(tag);")
		want.WriteString("main\n")
	case "own-helper-and-tag":
		m.WriteString("let tag = \"main\";\nlet cnt = 100;\nfn helper() { println(\"main.helper\", tag, cnt); }\n")
		body = append(body, "    helper();")
		want.WriteString("main.helper main 100\n")
	}
	calls := map[string]int{}
	rounds := 1
	if twice {
		rounds = 2
	}
	for k := 0; k < rounds; k++ {
		for _, e := range ae {
			body = append(body, "    "+e+"();")
			want.WriteString(libExpect("a", as, e, calls))
		}
		for _, e := range be {
			body = append(body, "    "+e+"();")
			want.WriteString(libExpect("b", bs, e, calls))
		}
	}
	fmt.Fprintf(&m, "fn main() {\n%s\n    println(\"end\");\n}\n", strings.Join(body, "\n"))
	want.WriteString("end\n")
	mods := map[string]string{"main": m.String(), "a": at, "b": bt}
	c15Judge(mods, true, want.String(), []string{"a:" + as, "b:" + bs, "main:" + ms, fmt.Sprintf("rounds:%d", rounds), "overlapping-names"}, r)
}

// ---------------------------------------------------------------- F3: import graphs

// modules main, a, b, c; edges x->y meaning "x imports item_y from y". Every subset of a fixed
// candidate edge list, plus imports of a missing module and self imports.
var c15Edges = [][2]string{{"main", "a"}, {"main", "b"}, {"a", "b"}, {"b", "a"}, {"a", "c"}, {"c", "a"}, {"b", "c"}, {"c", "b"}, {"a", "main"}, {"a", "a"}, {"main", "zz"}, {"b", "zz"}}

func c15F3Count() int { return 1 << len(c15Edges) }

func c15F3(idx int, r *Result) {
	modsList := []string{"main", "a", "b", "c"}
	imports := map[string][]string{}
	var edges [][2]string
	for i, e := range c15Edges {
		if idx&(1<<i) != 0 {
			imports[e[0]] = append(imports[e[0]], e[1])
			edges = append(edges, e)
		}
	}
	c15GraphRun(modsList, imports, edges, r)
}

// c15GraphRun builds the modules of an import graph (imports[x] is the ORDERED list of the
// modules x imports), decides legality with the reference linker and judges the pipeline.
func c15GraphRun(modsList []string, imports map[string][]string, edges [][2]string, r *Result) {
	// reachable modules from main (the analyzer only sees those)
	reach := map[string]bool{"main": true}
	queue := []string{"main"}
	for len(queue) > 0 {
		x := queue[0]
		queue = queue[1:]
		for _, y := range imports[x] {
			if !reach[y] && y != "zz" {
				reach[y] = true
				queue = append(queue, y)
			}
		}
	}
	legal := true
	var why []string
	for x := range reach {
		for _, y := range imports[x] {
			if y == "zz" {
				legal = false
				why = append(why, "missing-module")
			}
			if y == x {
				legal = false
				why = append(why, "self-import")
			}
		}
	}
	// cycle among reachable modules
	color := map[string]int{}
	var dfs func(x string) bool
	dfs = func(x string) bool {
		color[x] = 1
		for _, y := range imports[x] {
			if y == "zz" || !reach[y] {
				continue
			}
			if color[y] == 1 {
				return true
			}
			if color[y] == 0 && dfs(y) {
				return true
			}
		}
		color[x] = 2
		return false
	}
	if dfs("main") {
		legal = false
		why = append(why, "cycle")
	}
	mods := map[string]string{}
	for _, x := range modsList {
		var b strings.Builder
		for _, y := range imports[x] {
			fmt.Fprintf(&b, "import { item_%s } from %s;\n", y, y)
		}
		if x != "main" {
			fmt.Fprintf(&b, "let cnt_%s = 0;\npub fn item_%s() -> int {\n    cnt_%s += 1;\n", x, x, x)
			for _, y := range imports[x] {
				if y != "zz" && y != x {
					fmt.Fprintf(&b, "    item_%s();\n", y)
				}
			}
			fmt.Fprintf(&b, "    println(\"%s\", cnt_%s);\n    cnt_%s\n}\nfn main() {}\n", x, x, x)
		} else {
			b.WriteString("pub fn item_main() -> int { 0 }\nfn main() {\n")
			for _, y := range imports[x] {
				if y != "zz" {
					fmt.Fprintf(&b, "    item_%s();\n    item_%s();\n", y, y)
				}
			}
			b.WriteString("    println(\"end\");\n}\n")
		}
		mods[x] = b.String()
	}
	// expected output for legal (acyclic) graphs: simulate the calls with one counter per module
	var want strings.Builder
	if legal {
		cnt := map[string]int{}
		var call func(x string)
		call = func(x string) {
			cnt[x]++
			c := cnt[x]
			for _, y := range imports[x] {
				call(y)
			}
			fmt.Fprintf(&want, "%s %d\n", x, c)
		}
		for _, y := range imports["main"] {
			call(y)
			call(y)
		}
		want.WriteString("end\n")
	}
	sort.Strings(why)
	var es []string
	for _, e := range edges {
		es = append(es, e[0]+">"+e[1])
	}
	tags := append([]string{"graph:" + strings.Join(es, ",")}, uniq(why)...)
	c15Judge(mods, legal, want.String(), tags, r)
}

// ---------------------------------------------------------------- F5: ordered import lists

// Five modules: main imports m; each of m, a, n, x imports an ORDERED list of at most two of
// the other three. The order matters to an analyzer that checks for cycles while it is still
// collecting the imports of a module (a verdict reached after the first import must not be
// reused after the second).
var c15F5Mods = []string{"m", "a", "n", "x"}

func c15F5Lists(self string) [][]string {
	var others []string
	for _, o := range c15F5Mods {
		if o != self {
			others = append(others, o)
		}
	}
	out := [][]string{nil}
	for _, o := range others {
		out = append(out, []string{o})
	}
	for _, o := range others {
		for _, p := range others {
			if o != p {
				out = append(out, []string{o, p})
			}
		}
	}
	return out
}

func c15F5Count() int { return 10 * 10 * 10 * 10 }

func c15F5(idx int, r *Result) {
	d := radix(idx, 10, 10, 10, 10)
	imports := map[string][]string{"main": {"m"}}
	edges := [][2]string{{"main", "m"}}
	for i, mod := range c15F5Mods {
		l := c15F5Lists(mod)[d[i]]
		imports[mod] = l
		for _, y := range l {
			edges = append(edges, [2]string{mod, y})
		}
	}
	c15GraphRun(append([]string{"main"}, c15F5Mods...), imports, edges, r)
}

// ---------------------------------------------------------------- F6: chains main -> b -> a

// An item can be imported from a module only if THAT module declares it `pub`: an item which b
// merely imported from a is not importable from b, whatever its visibility in a.
var c15F6Kinds = []string{"fn", "let", "type"}
var c15F6B = []string{"imports-it-from-a", "declares-it-pub", "declares-it-private", "does-not-have-it", "imports-it-from-a-and-uses-it"}

func c15F6Count() int { return len(c15F6Kinds) * 2 * len(c15F6B) }

func c15F6Item(kind, mod string, pub bool) string {
	v := ""
	if pub {
		v = "pub "
	}
	switch kind {
	case "fn":
		return fmt.Sprintf("%sfn item() -> int { println(\"%s.item\"); 1 }\n", v, mod)
	case "let":
		return fmt.Sprintf("%slet item = 41;\n", v)
	}
	return fmt.Sprintf("%stype item = { x: int };\n", v)
}

func c15F6(idx int, r *Result) {
	d := radix(idx, len(c15F6B), 2, len(c15F6Kinds))
	bv, aPub, kind := c15F6B[d[0]], d[1] == 1, c15F6Kinds[d[2]]
	imp := "item"
	if kind == "type" {
		imp = "type item"
	}
	var use, want string
	switch kind {
	case "fn":
		use, want = "    println(item());\n", "%s.item\n1\n"
	case "let":
		use, want = "    println(item);\n", "41\n"
	default:
		use, want = "    let t: item = new { x: 5 };\n    println(t.x);\n", "5\n"
	}
	mods := map[string]string{"a": c15F6Item(kind, "a", aPub) + "fn main() {}\n"}
	legal := false
	switch bv {
	case "imports-it-from-a":
		mods["b"] = fmt.Sprintf("import { %s } from a;\nfn main() {}\n", imp)
	case "imports-it-from-a-and-uses-it":
		mods["b"] = fmt.Sprintf("import { %s } from a;\npub fn other() {\n%s}\nfn main() {}\n", imp, use)
	case "declares-it-pub":
		mods["b"] = c15F6Item(kind, "b", true) + "fn main() {}\n"
		legal = true
	case "declares-it-private":
		mods["b"] = c15F6Item(kind, "b", false) + "fn main() {}\n"
	default:
		mods["b"] = "fn main() {}\n"
	}
	mods["main"] = fmt.Sprintf("import { %s } from b;\nfn main() {\n%s    println(\"end\");\n}\n", imp, use)
	if strings.Contains(want, "%s") {
		want = fmt.Sprintf(want, "b")
	}
	vis := "private"
	if aPub {
		vis = "pub"
	}
	tags := []string{"chain", "kind:" + kind, "a:" + vis, "b:" + bv}
	c15Judge(mods, legal, want+"end\n", tags, r)
}

// ---------------------------------------------------------------- F4: exceptions across modules

var c15F4Shapes = []string{"caught-in-main", "caught-in-library", "uncaught-from-library", "library-catches-own", "caught-in-main-then-call-library-again", "nested-library-chain"}

func c15F4Count() int { return len(c15F4Shapes) * 2 }

func c15F4(idx int, r *Result) {
	shape := c15F4Shapes[idx/2]
	overlap := idx%2 == 1
	g := func(mod string) string { // name of the module's private global
		if overlap {
			return "tag"
		}
		return "tag_" + mod
	}
	lib := func(mod, body string) string {
		return fmt.Sprintf("let %s = \"%s\";\n%sfn main() {}\n", g(mod), mod, body)
	}
	mods := map[string]string{}
	var want string
	legal := true
	outcome := "ok"
	switch shape {
	case "caught-in-main":
		mods["a"] = lib("a", fmt.Sprintf("pub fn fa() { println(\"a.f\", %s); throw(\"a-boom\"); }\n", g("a")))
		mods["main"] = fmt.Sprintf("import { fa } from a;\nlet %s = \"main\";\nfn own() { println(\"main.own\", %s); }\nfn main() {\n    try { fa(); println(\"not here\"); } catch e { println(\"caught\", e.message); }\n    println(%s);\n    own();\n    println(\"end\");\n}\n", g("main"), g("main"), g("main"))
		want = "a.f a\ncaught a-boom\nmain\nmain.own main\nend\n"
	case "caught-in-main-then-call-library-again":
		mods["a"] = lib("a", fmt.Sprintf("let n = 0;\npub fn fa() { n += 1; println(\"a.f\", %s, n); if n == 1 { throw(\"a-boom\"); } }\n", g("a")))
		mods["main"] = fmt.Sprintf("import { fa } from a;\nlet %s = \"main\";\nfn main() {\n    try { fa(); } catch e { println(\"caught\", e.message); }\n    fa();\n    println(%s);\n    println(\"end\");\n}\n", g("main"), g("main"))
		want = "a.f a 1\ncaught a-boom\na.f a 2\nmain\nend\n"
	case "caught-in-library":
		mods["b"] = lib("b", fmt.Sprintf("pub fn fail() { println(\"b.fail\", %s); throw(\"b-boom\"); }\n", g("b")))
		mods["a"] = "import { fail } from b;\n" + lib("a", fmt.Sprintf("pub fn guarded() { try { fail(); } catch e { println(\"a caught\", e.message); } println(\"a after\", %s); }\n", g("a")))
		mods["main"] = fmt.Sprintf("import { guarded } from a;\nlet %s = \"main\";\nfn main() {\n    guarded();\n    println(%s);\n    guarded();\n    println(\"end\");\n}\n", g("main"), g("main"))
		want = "b.fail b\na caught b-boom\na after a\nmain\nb.fail b\na caught b-boom\na after a\nend\n"
	case "uncaught-from-library":
		mods["a"] = lib("a", fmt.Sprintf("pub fn fa() { println(\"a.f\", %s); throw(\"a-boom\"); }\n", g("a")))
		mods["main"] = "import { fa } from a;\nfn main() {\n    println(\"start\");\n    fa();\n    println(\"not here\");\n}\n"
		want = "start\na.f a\n"
		outcome = "uncaught"
	case "library-catches-own":
		mods["a"] = lib("a", fmt.Sprintf("fn inner() { throw(\"in\"); }\npub fn fa() -> int { try { inner(); } catch e { println(\"a own\", e.message, %s); } 5 }\n", g("a")))
		mods["main"] = fmt.Sprintf("import { fa } from a;\nlet %s = \"main\";\nfn main() {\n    println(fa());\n    println(%s);\n    println(\"end\");\n}\n", g("main"), g("main"))
		want = "a own in a\n5\nmain\nend\n"
	case "nested-library-chain":
		mods["c"] = lib("c", fmt.Sprintf("pub fn fc() { println(\"c.f\", %s); throw(\"c-boom\"); }\n", g("c")))
		mods["b"] = "import { fc } from c;\n" + lib("b", fmt.Sprintf("pub fn fb() { println(\"b.f\", %s); fc(); println(\"b not here\"); }\n", g("b")))
		mods["a"] = "import { fb } from b;\n" + lib("a", fmt.Sprintf("pub fn fa() { try { fb(); } catch e { println(\"a caught\", e.message, %s); } }\n", g("a")))
		mods["main"] = fmt.Sprintf("import { fa } from a;\nlet %s = \"main\";\nfn main() {\n    fa();\n    println(%s);\n    println(\"end\");\n}\n", g("main"), g("main"))
		want = "b.f b\nc.f c\na caught c-boom a\nmain\nend\n"
	}
	tags := []string{"xmod:" + shape}
	if overlap {
		tags = append(tags, "overlapping-names")
	}
	if outcome == "uncaught" {
		c15JudgeOutcome(mods, want, "uncaught", tags, r)
		return
	}
	c15Judge(mods, legal, want, tags, r)
}

// c15JudgeOutcome is c15Judge for programs that end with an uncaught exception.
func c15JudgeOutcome(mods map[string]string, want, class string, tags []string, r *Result) {
	text := detText(detProg{Mods: mods})
	r.Sample(text)
	a := Analyze(mods, true)
	if a.Obs.Class == "HOST-PANIC" || !a.Obs.Accepted() {
		r.Fail("REJECTS-LEGAL-IMPORT:"+normMsg(strings.Join(append(append([]string{}, a.Obs.Syntax...), a.Obs.Errors...), "; ")), tags, text, a.Obs.String())
		return
	}
	r.Distinct(strings.Join(tags, ","))
	for _, be := range []string{"vm", "tree"} {
		var o Obs
		if be == "vm" {
			o = RunVM(a, defaultOpts())
		} else {
			o = RunTree(a, defaultOpts())
		}
		r.Trans(1)
		bt := append([]string{"backend:" + be}, tags...)
		if cc := crashClass(o); cc != "" {
			r.Fail(cc, bt, text, o.String())
		} else if o.Class != class {
			r.Fail("OUTCOME:"+class+"->"+o.Class+kindSuffix(o.Kind), bt, text, o.String())
		} else if o.Out != want {
			r.Fail("ISOLATION:output differs from the reference linker", bt, text, fmt.Sprintf("expected %q got %q", want, o.Out))
		}
	}
}

func init() {
	register("C15", func() *Check {
		return &Check{ID: "C15", Scenarios: []Scenario{
			{Name: "visibility-single-library", Count: func(string) int { return c15F1Count() }, Run: func(_ string, idx int, r *Result) { c15F1(idx, r) }},
			{Name: "same-names-in-several-modules", Count: func(string) int { return c15F2Count() }, Run: func(_ string, idx int, r *Result) { c15F2(idx, r) }},
			{Name: "exceptions-across-modules", Count: func(string) int { return c15F4Count() }, Run: func(_ string, idx int, r *Result) { c15F4(idx, r) }},
			{Name: "import-graphs", Count: func(string) int { return c15F3Count() }, Run: func(_ string, idx int, r *Result) { c15F3(idx, r) }},
			{Name: "module-and-item-names-that-run-together", Count: func(string) int { return c15F7Count() }, Run: func(_ string, idx int, r *Result) { c15F7(idx, r) }},
			{Name: "one-name-imported-twice", Count: func(string) int { return c15F8Count() }, Run: func(_ string, idx int, r *Result) { c15F8(idx, r) }},
			{Name: "one-module-imported-along-several-paths", Count: func(string) int { return c15F9Count() }, Run: func(_ string, idx int, r *Result) { c15F9(idx, r) }},
			{Name: "function-literal-of-another-module-calls-back", Count: func(string) int { return c15F10Count() }, Run: func(_ string, idx int, r *Result) { c15F10(idx, r) }},
			{Name: "chains-main-b-a", Count: func(string) int { return c15F6Count() }, Run: func(_ string, idx int, r *Result) { c15F6(idx, r) }},
			{Name: "ordered-import-lists-over-five-modules", Count: func(string) int { return c15F5Count() }, Run: func(_ string, idx int, r *Result) { c15F5(idx, r) }},
		}}
	})
}
