package main

import (
	"fmt"
	"hash"
	"hash/fnv"
	"reflect"
	"sort"
	"runtime/debug"

	"github.com/smarthome-go/homescript/v3/homescript/analyzer/ast"
	herrors "github.com/smarthome-go/homescript/v3/homescript/errors"
	"github.com/smarthome-go/homescript/v3/homescript/fuzzer"
	"github.com/smarthome-go/homescript/v3/homescript/vsched"
)

// C20, pass-by-pass closure: for tiny inputs the set of variants is explored level by level.
// Level k holds every distinct tree that k passes can produce when EACH pass takes at most one
// non-default draw (any of its draws, any value of the draw alphabet); level k+1 is obtained
// by exploring one more pass from every tree of level k. TransformPasses applies Transform
// repeatedly to its own output, so this is exactly the set of 3-pass variants with at most one
// deviation per pass - chains such as "pass 1 wraps a `break`, pass 2 re-wraps the wrapper,
// pass 3 turns it into a loop" are inside it. Every distinct variant text is analysed and run.

var c20Tiny = []struct{ name, text string }{
	// `break` / `continue` written DIRECTLY in a loop body (the transformer rewrites statements
	// of a block, it does not look into the blocks of an `if`) and nested in an `if`
	{"tiny-break-at-end-of-loop-body", `fn main() {
    let i = 0;
    loop {
        i += 1;
        println("i", i);
        break;
    }
    println("end", i);
}
`},
	{"tiny-continue-then-break", `fn main() {
    let c = 0;
    loop {
        c += 1;
        if c % 3 != 0 {
            continue;
        }
        break;
    }
    println("end", c);
}
`},
	{"tiny-while-with-direct-break", `fn main() {
    let n = 0;
    while n < 5 {
        n += 1;
        println("n", n);
        break;
    }
    println("end", n);
}
`},
	{"tiny-for-with-direct-continue", `fn main() {
    for k in 0..3 {
        println("k", k);
        continue;
    }
    println("end");
}
`},
	{"tiny-break-in-function-loop", `fn first_multiple(of: int) -> int {
    let c = 1;
    loop {
        if c % of != 0 {
            c += 1;
            continue;
        }
        break;
    }
    c
}
fn main() {
    println(first_multiple(3));
}
`},
}

// deepHash feeds the full structure of a tree into h: every field of every node, through
// interfaces and pointers, except source positions (they do not influence the transformer).
func deepHash(v reflect.Value, h hash.Hash64, depth int) {
	if depth > 200 || !v.IsValid() {
		h.Write([]byte{0})
		return
	}
	switch v.Kind() {
	case reflect.Interface, reflect.Ptr:
		if v.IsNil() {
			h.Write([]byte{1})
			return
		}
		e := v.Elem()
		h.Write([]byte(e.Type().String()))
		deepHash(e, h, depth+1)
	case reflect.Struct:
		if v.Type() == c20SpanType {
			return
		}
		for i := 0; i < v.NumField(); i++ {
			deepHash(v.Field(i), h, depth+1)
		}
		h.Write([]byte{2})
	case reflect.Slice, reflect.Array:
		for i := 0; i < v.Len(); i++ {
			deepHash(v.Index(i), h, depth+1)
		}
		h.Write([]byte{3, byte(v.Len())})
	case reflect.Map:
		keys := v.MapKeys()
		sort.Slice(keys, func(i, j int) bool { return fmt.Sprint(keys[i]) < fmt.Sprint(keys[j]) })
		for _, k := range keys {
			deepHash(k, h, depth+1)
			deepHash(v.MapIndex(k), h, depth+1)
		}
		h.Write([]byte{4})
	case reflect.String:
		h.Write([]byte(v.String()))
		h.Write([]byte{5})
	case reflect.Bool:
		if v.Bool() {
			h.Write([]byte{6})
		} else {
			h.Write([]byte{7})
		}
	case reflect.Int, reflect.Int8, reflect.Int16, reflect.Int32, reflect.Int64:
		fmt.Fprintf(h, "i%d", v.Int())
	case reflect.Uint, reflect.Uint8, reflect.Uint16, reflect.Uint32, reflect.Uint64:
		fmt.Fprintf(h, "u%d", v.Uint())
	case reflect.Float32, reflect.Float64:
		fmt.Fprintf(h, "f%v", v.Float())
	default:
		h.Write([]byte(v.Kind().String()))
	}
}

var c20SpanType = reflect.TypeOf(herrors.Span{})

const c20ClosureLevels = 3
const c20ClosureCap = 6000 // distinct trees per level

func c20Closure(tier string, idx int, r *Result) {
	in := c20Tiny[idx]
	base := c20Prepare(in.text)
	tags := []string{"input:" + in.name, "closure"}
	if !base.ok {
		r.Fail("HARNESS:input program not accepted or crashes", tags, in.text, base.obs.String())
		return
	}
	type node struct {
		tree ast.AnalyzedProgram
		path string
	}
	level := []node{{base.tree, ""}}
	seen, seenTree := map[uint64]bool{}, map[uint64]bool{}
	reported := map[string]bool{}
	total, execs := 0, 0
	opts := defaultOpts()
	opts.PollBudget = 3000 // a variant that loops forever is stopped by the poll budget (HANG)
	for lv := 1; lv <= c20ClosureLevels; lv++ {
		var next []node
		capped := false
		for _, nd := range level {
			if capped {
				break
			}
			var variantTree ast.AnalyzedProgram
			var variant, panicMsg string
			run := func() {
				variant, panicMsg = "", ""
				defer func() {
					if rv := recover(); rv != nil {
						panicMsg = fmt.Sprintf("%v @ %s", rv, panicFunc(vsched.RepoFrames(string(debug.Stack()))))
					}
				}()
				draws := 0
				t := fuzzer.NewTransformerWithSource(scriptedSource{&draws})
				variantTree = t.TransformPasses(nd.tree, 1)[0]
				variant = variantTree.String()
			}
			cfg := vsched.ExploreCfg{Bound: 1, Kinds: "r"}
			if !r.deadline.IsZero() {
				cfg.Deadline = r.deadline
			}
			res := vsched.Explore(cfg, run, func(choices []int, c *vsched.Chooser) bool {
				r.Beat()
				path := nd.path + fmt.Sprintf(" pass%d[%s]", lv, fmtChoices(choices))
				cas := fmt.Sprintf("%s// fuzzer input %s, one pass at a time, non-default draws per pass (point:alphabet index):%s", in.text, in.name, path)
				if panicMsg != "" {
					key := "panic:" + normMsg(panicMsg)
					if !reported[key] {
						reported[key] = true
						r.Fail("HOST-PANIC:transformer:"+normMsg(panicMsg), tags, cas, panicMsg)
					}
					return true
				}
				// two trees with the same text can still differ in what the printer does not show
				// (e.g. the NeverTerminates flag of a synthesized loop), and later passes look at
				// exactly that: trees are told apart by their full structure, texts by their text
				hs := fnv.New64a()
				deepHash(reflect.ValueOf(variantTree), hs, 0)
				if !seenTree[hs.Sum64()] {
					seenTree[hs.Sum64()] = true
					if len(next) < c20ClosureCap {
						next = append(next, node{variantTree, path})
					} else {
						capped = true
					}
				}
				h := fnv.New64a()
				h.Write([]byte(variant))
				if seen[h.Sum64()] {
					return true
				}
				seen[h.Sum64()] = true
				total++
				a := Analyze(map[string]string{"main": variant}, true)
				r.Trans(1)
				if a.Obs.Class == "HOST-PANIC" {
					if !reported["ana-panic"] {
						reported["ana-panic"] = true
						r.Fail("VARIANT:analyzer panics on the variant", tags, cas, "variant:\n"+variant+"\n"+a.Obs.String())
					}
					return true
				}
				if !a.Obs.Accepted() {
					msgs := append(append([]string{}, a.Obs.Syntax...), a.Obs.Errors...)
					key := "rej:" + normMsg(msgs[0])
					if !reported[key] {
						reported[key] = true
						r.Fail("VARIANT:rejected by the analyzer:"+normMsg(msgs[0]), tags, cas, "variant:\n"+variant+"\n"+a.Obs.String())
					}
					return true
				}
				o := RunVM(a, opts)
				r.Trans(1)
				if o.Key() != base.obs.Key() {
					key := "beh:" + o.Class + o.Kind
					if !reported[key] {
						reported[key] = true
						cls := "VARIANT:behaves differently"
						if cc := crashClass(o); cc != "" {
							cls = "VARIANT:crashes:" + cc
						}
						r.Fail(cls, tags, cas, fmt.Sprintf("variant:\n%s\noriginal: %s\nvariant:  %s", variant, base.obs.String(), o.String()))
					}
				}
				return true
			})
			execs += res.Execs
			if res.Diverged != "" {
				r.Fail("HARNESS:replay divergence", tags, in.text, res.Diverged)
				return
			}
			if !res.Complete {
				r.MarkIncomplete(fmt.Sprintf("%s: time cap hit at level %d", in.name, lv))
				capped = true
			}
		}
		r.Note(fmt.Sprintf("closure-level-%d-trees:%s", lv, in.name), len(next))
		if capped {
			r.MarkIncomplete(fmt.Sprintf("%s: more than %d distinct trees at level %d (or time cap): the closure was not continued beyond them", in.name, c20ClosureCap, lv))
		}
		level = next
	}
	r.Note("draw-sequences", execs)
	r.Note("distinct-variants", total)
	r.Distinct(fmt.Sprintf("%s|closure|%d", in.name, total))
	r.Sample(fmt.Sprintf("%s// pass-by-pass closure over %d levels: %d draw sequences, %d distinct variant texts", in.text, c20ClosureLevels, execs, total))
}
