package main

import (
	"fmt"

	"hmsverif/internal/hs"
)

// S14 names that differ only by trailing digits or underscores: a variable `x1` (local, global,
// parameter, loop variable) lives next to many declarations of `x` (in nested
// blocks, in loops, in other functions of the module). However many there are, each name denotes
// its own variable.

var nameSiblings = []string{"local", "global", "parameter", "loop-variable"}
var nameRepeats = []string{"lets-in-blocks", "lets-in-other-functions", "loop-variables", "lets-in-one-loop-body"}
var nameBases = []struct{ base, sibling string }{{"x", "x1"}, {"x", "x10"}, {"v_", "v_1"}, {"n1", "n11"}}

func namesCount() int { return len(nameSiblings) * len(nameRepeats) * len(nameBases) }

func namesGen(idx int) (progCase, bool) {
	d := radix(idx, len(nameBases), len(nameRepeats), len(nameSiblings))
	nb, rep, sib := nameBases[d[0]], nameRepeats[d[1]], nameSiblings[d[2]]
	base, sibling := nb.base, nb.sibling
	prog := &hs.Program{}
	const n = 13 // more declarations of the base name than any one-digit counter covers
	show := func(tag string) hs.Stmt { return hs.Println(hs.S(tag), hs.V(base), hs.V(sibling)) }
	// the declarations of the base name, each followed by a look at both names
	var decls []hs.Stmt
	switch rep {
	case "lets-in-blocks":
		for i := 0; i < n; i++ {
			decls = append(decls, hs.ES(&hs.BlockExpr{B: hs.Blk(nil, hs.LetS(base, hs.I(int64(i))), show("b"))}))
		}
	case "lets-in-other-functions":
		for i := 0; i < n; i++ {
			fn := fmt.Sprintf("other%d", i)
			prog.Funcs = append(prog.Funcs, hs.Fn(fn, hs.TInt, hs.Blk(hs.Bin("+", hs.V(base), hs.I(1)), hs.LetS(base, hs.I(int64(i))))))
			decls = append(decls, hs.Println(hs.S("f"), hs.CallN(fn), hs.V(sibling)))
		}
	case "loop-variables":
		for i := 0; i < n; i++ {
			decls = append(decls, &hs.For{Var: base, Iter: &hs.RangeLit{From: hs.I(int64(i)), To: hs.I(int64(i + 1))}, Body: hs.Blk(nil, show("l"))})
		}
	case "lets-in-one-loop-body":
		var body []hs.Stmt
		for i := 0; i < n; i++ {
			body = append(body, hs.ES(&hs.BlockExpr{B: hs.Blk(nil, hs.LetS(base, hs.Bin("+", hs.V("round"), hs.I(int64(i)))), hs.ES(hs.Asg("+=", hs.V("sum"), hs.Bin("+", hs.V(base), hs.V(sibling)))))}))
		}
		decls = append(decls, hs.LetS("sum", hs.I(0)), &hs.For{Var: "round", Iter: &hs.RangeLit{From: hs.I(0), To: hs.I(2)}, Body: hs.Blk(nil, body...)}, hs.Println(hs.S("sum"), hs.V("sum")))
	}
	tail := []hs.Stmt{hs.LetS(base, hs.I(55)), show("end")}
	if rep == "lets-in-other-functions" || rep == "lets-in-one-loop-body" {
		tail = []hs.Stmt{hs.Println(hs.S("end"), hs.V(sibling))}
	}
	var main []hs.Stmt
	switch sib {
	case "local":
		main = append(append([]hs.Stmt{hs.LetS(sibling, hs.I(100))}, decls...), tail...)
	case "global":
		prog.Globals = append(prog.Globals, &hs.Let{Name: sibling, X: hs.I(100)})
		main = append(decls, tail...)
	case "parameter":
		prog.Funcs = append(prog.Funcs, hs.Fn("work", nil, hs.Blk(nil, append(decls, tail...)...), hs.P(sibling, hs.TInt)))
		main = []hs.Stmt{hs.ES(hs.CallN("work", hs.I(100)))}
	case "loop-variable":
		main = []hs.Stmt{&hs.For{Var: sibling, Iter: &hs.RangeLit{From: hs.I(100), To: hs.I(101)}, Body: hs.Blk(nil, append(decls, tail...)...)}}
	}
	prog.Funcs = append(prog.Funcs, hs.Fn("main", nil, hs.Blk(nil, main...)))
	return mkCase(prog, "sibling:"+sib, "repeat:"+rep, "names:"+base+"/"+sibling), true
}

func init() {
	semanticFamilies = append(semanticFamilies, progFamily{Name: "S14-names-that-differ-by-digits", Count: func(string) int { return namesCount() }, Gen: func(_ string, idx int) (progCase, bool) { return namesGen(idx) }})
}

// S16 fatal errors below functions whose names have every length from 1 to 24 (and one deeper
// call chain per length): the error report lists the frames by name, whatever the names are.

var fatalKinds = []string{"division-by-zero", "uncaught-throw", "index-out-of-range", "negative-shift"}

func nameLenCount() int { return 24 * len(fatalKinds) * 2 }

func nameLenGen(idx int) (progCase, bool) {
	d := radix(idx, 2, len(fatalKinds), 24)
	deep, kind, n := d[0] == 1, fatalKinds[d[1]], d[2]+1
	name := ("f" + "abcdefghijklmnopqrstuvwxyz")[:1]
	for len(name) < n {
		name += string("_abcdefghij"[len(name)%11])
	}
	var fail hs.Expr
	switch kind {
	case "division-by-zero":
		fail = hs.Bin("/", hs.I(10), hs.V("d"))
	case "uncaught-throw":
		fail = &hs.BlockExpr{B: hs.Blk(hs.I(1), hs.ES(hs.CallN("throw", hs.S("no"))))}
	case "index-out-of-range":
		fail = hs.Idx(hs.List(hs.I(1)), hs.Bin("+", hs.V("d"), hs.I(5)))
	case "negative-shift":
		fail = hs.Bin("<<", hs.I(1), hs.Bin("-", hs.V("d"), hs.I(1)))
	}
	prog := &hs.Program{}
	prog.Funcs = append(prog.Funcs, hs.Fn(name, hs.TInt, hs.Blk(fail), hs.P("d", hs.TInt)))
	call := hs.CallN(name, hs.I(0))
	if deep {
		prog.Funcs = append(prog.Funcs, hs.Fn("via_"+name, hs.TInt, hs.Blk(hs.Bin("+", hs.CallN(name, hs.V("d")), hs.I(1))), hs.P("d", hs.TInt)))
		call = hs.CallN("via_"+name, hs.I(0))
	}
	prog.Funcs = append(prog.Funcs, hs.Fn("main", nil, hs.Blk(nil, hs.Println(hs.S("before")), hs.Println(call), hs.Println(hs.S("unreachable")))))
	return mkCase(prog, "fatal:"+kind, fmt.Sprintf("name-length:%d", n), fmt.Sprintf("deep:%v", deep)), true
}

func init() {
	semanticFamilies = append(semanticFamilies, progFamily{Name: "S16-fatal-errors-below-names-of-every-length", Count: func(string) int { return nameLenCount() }, Gen: func(_ string, idx int) (progCase, bool) { return nameLenGen(idx) }})
}

// S17 global initialisers that fail: an initialiser is a constant expression, and a constant
// expression can still have no value (a zero divisor, an index beyond the end, a negative shift).
// The program ends with the fatal error of that operation before `main` runs - in the entry
// module and in an imported one.

var failingInits = []struct {
	name string
	x    func() hs.Expr
}{
	{"division-by-zero", func() hs.Expr { return hs.Bin("/", hs.I(1), hs.I(0)) }},
	{"remainder-by-zero", func() hs.Expr { return hs.Bin("%", hs.I(10), hs.I(0)) }},
	{"index-beyond-the-end", func() hs.Expr { return hs.Idx(hs.List(hs.I(1), hs.I(2)), hs.I(5)) }},
	{"negative-shift", func() hs.Expr { return hs.Bin("<<", hs.I(1), hs.Bin("-", hs.I(0), hs.I(1))) }},
	{"nested-in-a-list", func() hs.Expr { return hs.List(hs.I(1), hs.Bin("/", hs.I(4), hs.Bin("-", hs.I(2), hs.I(2)))) }},
	{"nested-in-an-object", func() hs.Expr {
		return &hs.ObjLit{Fields: []hs.ObjField{{Name: "a", X: hs.I(1)}, {Name: "b", X: hs.Bin("%", hs.I(4), hs.I(0))}}}
	}},
}

var failingInitPlaces = []string{"only-global", "after-other-globals", "before-other-globals"}

func failInitCount() int { return len(failingInits) * len(failingInitPlaces) }

func failInitGen(idx int) (progCase, bool) {
	d := radix(idx, len(failingInitPlaces), len(failingInits))
	place, fi := failingInitPlaces[d[0]], failingInits[d[1]]
	prog := &hs.Program{}
	bad := &hs.Let{Name: "bad", X: fi.x()}
	switch place {
	case "only-global":
		prog.Globals = []*hs.Let{bad}
	case "after-other-globals":
		prog.Globals = []*hs.Let{{Name: "first", X: hs.I(1)}, {Name: "second", X: hs.S("s")}, bad}
	case "before-other-globals":
		prog.Globals = []*hs.Let{bad, {Name: "later", X: hs.I(2)}}
	}
	prog.Funcs = append(prog.Funcs, hs.Fn("main", nil, hs.Blk(nil, hs.Println(hs.S("main runs")), hs.Println(hs.V("bad")))))
	return mkCase(prog, "failing-initialiser:"+fi.name, "place:"+place), true
}

func init() {
	semanticFamilies = append(semanticFamilies, progFamily{Name: "S17-global-initialisers-that-fail", Count: func(string) int { return failInitCount() }, Gen: func(_ string, idx int) (progCase, bool) { return failInitGen(idx) }})
}
