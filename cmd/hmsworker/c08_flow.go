package main

import (
	"fmt"
	"strings"

	"hmsverif/internal/hs"

	"github.com/smarthome-go/homescript/v3/homescript/diagnostic"
	herrors "github.com/smarthome-go/homescript/v3/homescript/errors"
)

// C08, type-flow culprits: a value of type U reaches a place that expects type T. The value
// comes from every kind of source (literal, variable, parameter, call result, result of an
// imported function, field, element) and reaches every kind of use site (argument, annotated
// let, return, assignment); T/U range over scalar, list, nested list, option and object types.
// The first error diagnostic must be in the file of the use site and within the use-site
// construct, wherever the type U was first written.

var c08FlowTypes = []struct{ name, expected, got, lit, okLit string }{
	{"scalar", "str", "int", "1", `"s"`},
	{"list", "[str]", "[int]", "[1, 2, 3]", `["s"]`},
	{"nested-list", "[[str]]", "[[int]]", "[[1], [2]]", `[["s"]]`},
	{"option", "?str", "?int", "?1", `?"s"`},
	{"object", "{ a: str }", "{ a: int }", "new { a: 1 }", `new { a: "s" }`},
	{"function", "fn(a: str) -> null", "fn(a: int) -> null", "fn(a: int) -> null { null }", `fn(a: str) -> null { null }`},
	{"function-result", "fn() -> str", "fn() -> int", "fn() -> int { 1 }", `fn() -> str { "s" }`},
	{"list-of-objects", "[{ a: str }]", "[{ a: int }]", "[new { a: 1 }]", `[new { a: "s" }]`},
}

var c08FlowSources = []string{"literal", "variable", "annotated-variable", "parameter", "call-result", "imported-call-result", "field", "element"}
var c08FlowUses = []string{"argument", "let", "return", "assignment"}

func c08FlowCount() int { return len(c08FlowTypes) * len(c08FlowSources) * len(c08FlowUses) }

// c08FlowProgram returns the modules and the culprit text (marked with « » in main).
func c08FlowProgram(ti, si, ui int) (mods map[string]string, tags []string) {
	t, src, use := c08FlowTypes[ti], c08FlowSources[si], c08FlowUses[ui]
	mods = map[string]string{}
	var top, pre strings.Builder // top-level items, statements before the use
	val := ""                    // the expression carrying the value of type U
	inFwd := false               // the use site sits in a function with parameter p
	switch src {
	case "literal":
		val = t.lit
	case "variable":
		fmt.Fprintf(&pre, "    let v = %s;\n", t.lit)
		val = "v"
	case "annotated-variable":
		fmt.Fprintf(&pre, "    let v: %s = %s;\n", t.got, t.lit)
		val = "v"
	case "parameter":
		inFwd = true
		val = "p"
	case "call-result":
		fmt.Fprintf(&top, "fn make() -> %s {\n    %s\n}\n", t.got, t.lit)
		val = "make()"
	case "imported-call-result":
		mods["lib"] = fmt.Sprintf("pub fn make() -> %s {\n    %s\n}\nfn main() {}\n", t.got, t.lit)
		top.WriteString("import { make } from lib;\n")
		val = "make()"
	case "field":
		fmt.Fprintf(&pre, "    let o = new { f: %s };\n", t.lit)
		val = "o.f"
	case "element":
		fmt.Fprintf(&pre, "    let l = [%s];\n", t.lit)
		val = "l[0]"
	}
	var useText string
	retType := ""
	switch use {
	case "argument":
		fmt.Fprintf(&top, "fn takes(x: %s) { }\n", t.expected)
		useText = "    takes(«" + val + "»);\n"
	case "let":
		useText = "    «let t: " + t.expected + " = " + val + ";»\n"
	case "return":
		retType = " -> " + t.expected
		useText = "    «return " + val + ";»\n"
	case "assignment":
		fmt.Fprintf(&pre, "    let t: %s = %s;\n", t.expected, t.okLit)
		useText = "    «t = " + val + "»;\n"
	}
	var m strings.Builder
	m.WriteString(top.String())
	switch {
	case inFwd:
		fmt.Fprintf(&m, "fn user(p: %s)%s {\n%s%s}\nfn main() {\n    user(%s);\n}\n", t.got, retType, pre.String(), useText, t.lit)
	case retType != "":
		fmt.Fprintf(&m, "fn user()%s {\n%s%s}\nfn main() {\n    user();\n}\n", retType, pre.String(), useText)
	default:
		fmt.Fprintf(&m, "fn main() {\n%s%s}\n", pre.String(), useText)
	}
	mods["main"] = m.String()
	return mods, []string{"type:" + t.name, "source:" + src, "use:" + use}
}

func c08FlowRun(idx int, r *Result) {
	d := radix(idx, len(c08FlowUses), len(c08FlowSources), len(c08FlowTypes))
	mods, tags := c08FlowProgram(d[2], d[1], d[0])
	marked := mods["main"]
	i, j := strings.Index(marked, "«"), strings.Index(marked, "»")
	before, culprit := marked[:i], marked[i+len("«"):j]
	mods["main"] = before + culprit + marked[j+len("»"):]
	text := detText(detProg{Mods: mods})
	r.Sample(text)
	a := Analyze(mods, true)
	r.Trans(1)
	if a.Obs.Class == "HOST-PANIC" {
		r.Note("analyzer-panic(C05)", 1)
		return
	}
	line, col := 1, 1
	adv := func(s string) {
		for _, ru := range s {
			if ru == '\n' {
				line++
				col = 1
			} else {
				col++
			}
		}
	}
	adv(before)
	cs := hs.Pos{Line: line, Col: col}
	cr := []rune(culprit)
	adv(string(cr[:len(cr)-1]))
	rng := hs.Rng{Start: cs, End: hs.Pos{Line: line, Col: col}}
	var first *diagnostic.Diagnostic
	for i := range a.Diags {
		if a.Diags[i].Level == diagnostic.DiagnosticLevelError {
			first = &a.Diags[i]
			break
		}
	}
	if first == nil {
		if len(a.Syn) > 0 {
			r.Fail("HARNESS:culprit program has a syntax error", tags, text, a.Obs.String())
		} else {
			r.Note("no-error-diagnostic(C03)", 1)
		}
		return
	}
	r.Distinct(strings.Join(tags, ",") + "|" + first.Message)
	r.Outcome("diagnosed")
	if p := spanProblem(first.Span, mods); p != "" {
		r.Fail("SPAN:diagnostic:"+p, tags, text, fmt.Sprintf("%q span %s", first.Message, showSpan(first.Span)))
		return
	}
	zero := herrors.Location{}
	if first.Span.Start == zero && first.Span.End == zero {
		r.Fail("SPAN:diagnostic:whole-file position for an error with a definite culprit", tags, text, fmt.Sprintf("%q", first.Message))
		return
	}
	if first.Span.Filename != "main" {
		r.Fail("SPAN:diagnostic:in another file than the culprit", tags, text, fmt.Sprintf("%q span %s in %q, culprit in main %d:%d-%d:%d (%q)", first.Message, showSpan(first.Span), first.Span.Filename, rng.Start.Line, rng.Start.Col, rng.End.Line, rng.End.Col, culprit))
		return
	}
	if !within(first.Span, rng) {
		r.Fail("SPAN:diagnostic:outside the culprit", tags, text, fmt.Sprintf("%q span %s, culprit %d:%d-%d:%d (%q)", first.Message, showSpan(first.Span), rng.Start.Line, rng.Start.Col, rng.End.Line, rng.End.Col, culprit))
	}
}
