package main

import (
	"fmt"
	"regexp"
	"runtime/debug"
	"strings"

	hms "github.com/smarthome-go/homescript/v3/homescript"
	"github.com/smarthome-go/homescript/v3/homescript/optimizer"
	"github.com/smarthome-go/homescript/v3/homescript/vsched"
)

// C19: printing and optimising a program preserve its meaning.

var c19Extras = []struct{ name, text string }{
	{"string-escapes", "fn main() {\n    println(\"tab\\there\", \"nl\\nx\", \"q\\\"q\", \"bs\\\\b\", \"cr\\rz\", 'single', \"uni\\u00e9\", \"a'b\");\n}\n"},
	{"control-characters-in-strings", "fn main() {\n    println(\"a\\x07b\", \"c\\x0bd\", \"e\\x0cf\", \"g\\x01h\", \"i\\x1fj\", \"k\\x7fl\", \"m\\x00n\", \"o\\x08p\", \"q\\x1br\");\n    let s = \"\\x07\\x0b\\x0c\";\n    println(s.len());\n}\n"},
	{"pub-items", "pub let g = 1;\npub type T = { a: int };\npub fn f() -> int { g }\nfn main() { println(f()); }\n"},
	{"event-fn", "import trigger minute from triggers;\nevent fn cb(elapsed: int) { println(\"cb\"); }\nfn main() { trigger cb at minute(1); println(\"x\"); }\n"},
	{"singleton-and-impl-free", "$S = { n: int, s: str };\nfn get(self: $S) -> int { self.n }\nfn main() { $S.n = 4; println(get(), $S.s); }\n"},
	{"match-default-and-literals", "fn main() {\n    let x = 3;\n    println(match x { 1 => \"one\", 2 => \"two\", _ => \"many\" });\n    println(match \"a\" { \"a\" => 1, _ => 2 });\n    println(match true { false => 0, _ => 9 });\n}\n"},
	{"anyobject-literal", "fn main() {\n    let o = new { ? };\n    o.set(\"k\", 1);\n    println(o.keys());\n}\n"},
	{"float-literals", "fn main() {\n    println(2.0, 0.5, 100000000000000000000.0, 0.0000001, 1f, 3.25 * 2.0);\n    println(1000000000000000.0, 1234567890123456.0, 9007199254740993.0, 4611686018427387904.0, 9223372036854775807.0, 9900000000000000000.0, 18446744073709551616.0, -9223372036854775808.0);\n}\n"},
	{"nested-blocks-and-tail", "fn main() {\n    let v = { let a = 1; { let b = 2; a + b } };\n    println(v);\n    { println(\"inner\"); }\n}\n"},
	{"object-keys-strings", "fn main() {\n    let o = new { \"key one\": 1, plain: 2 };\n    println(o.plain);\n}\n"},
	{"object-keys-empty-and-odd", "type T = { \"\": int, \"a b\": int, \"1x\": int, \"é\": int, \"a-b\": int, \"_\": int };\nfn main() {\n    let o: T = new { \"\": 1, \"a b\": 2, \"1x\": 3, \"é\": 4, \"a-b\": 5, \"_\": 6 };\n    println(o);\n}\n"},
	{"match-whose-arms-all-diverge-without-default", "fn pick(n: int) -> int {\n    match n { 1 => { return 10; }, 2 => { return 20; } };\n    println(\"fell through\", n);\n    0\n}\nfn stop(n: int) {\n    match n { 1 => { return; }, 2 => { throw(\"two\"); } };\n    println(\"after match\", n);\n}\nfn main() {\n    println(pick(1), pick(2), pick(3));\n    stop(1);\n    stop(3);\n    for i in 0..4 {\n        match i { 0 => { continue; }, 1 => { continue; } };\n        println(\"loop body\", i);\n        if i == 2 { match i { 2 => { break; } }; println(\"not here\"); }\n    }\n    println(\"end\");\n}\n"},
	{"if-without-else-whose-branch-diverges", "fn f(n: int) -> int {\n    if n > 1 { return 1; };\n    println(\"small\", n);\n    if n > 5 { throw(\"big\"); } else if n > 4 { return 4; };\n    0\n}\nfn main() {\n    println(f(0), f(2));\n}\n"},
	{"object-keys-keywords", "fn main() {\n    let o = new { \"fn\": 1, \"let\": 2, \"if\": 3, \"type\": 4, \"true\": 5, \"null\": 6, \"none\": 7, \"new\": 8, \"in\": 9, \"as\": 10 };\n    println(o);\n}\n"},
	{"types-complex", "type A = { l: [int], o: ?str, n: { x: float } };\nfn mk() -> A { new { l: [1], o: ?\"s\", n: new { x: 1.5 } } }\nfn main() { let a = mk(); println(a.l, a.o, a.n.x); }\n"},
	{"negative-and-grouping", "fn main() {\n    println(-(1 + 2) * 3, (1 + 2) * 3, 1 + 2 * 3, -2 ** 2, (-2) ** 2, 2 ** 3 ** 2, 10 - 3 - 2, 10 - (3 - 2), !(true && false) || false);\n}\n"},
	{"casts-and-ranges", "fn main() {\n    println(3 as float, 2.7 as int, true as int);\n    for i in 0..3 { print(i); }\n    println(\"\");\n    let r = 1..4;\n    println(r.start, r.end);\n}\n"},
	{"if-else-if-chain", "fn f(n: int) -> str { if n < 0 { \"neg\" } else if n == 0 { \"zero\" } else if n < 10 { \"small\" } else { \"big\" } }\nfn main() { println(f(-1), f(0), f(5), f(50)); }\n"},
	{"loops-all", "fn main() {\n    let i = 0;\n    loop { i += 1; if i > 2 { break; } }\n    while i < 5 { i += 1; if i == 4 { continue; } print(i); }\n    for c in \"ab\" { print(c); }\n    println(\"\");\n}\n"},
	{"closures-and-fn-types", "fn apply(f: fn(x: int) -> int, v: int) -> int { f(v) }\nfn main() {\n    let d = fn(x: int) -> int { x * 2 };\n    println(apply(d, 4));\n}\n"},
	{"try-catch-and-throw", "fn main() {\n    let r = try { throw(\"boom\"); 1 } catch e { println(e.message); 2 };\n    println(r);\n}\n"},
	{"spawn-expression", "fn w(n: int) { println(\"w\", n); }\nfn main() { spawn w(1); println(\"m\"); }\n"},
	{"option-values", "fn main() {\n    let a: ?int = ?3;\n    let b: ?int = none;\n    println(a.unwrap(), b.is_none(), a.unwrap_or(9), b.unwrap_or(9));\n}\n"},
	{"match-with-only-a-default-arm", "fn pick(n: int) -> str { match n { _ => \"always\" } }\nfn main() {\n    let x = 3;\n    let v = match x { _ => x + 1 };\n    println(v, pick(1));\n    match x { _ => println(\"only default\") };\n    println(\"end\");\n}\n"},
	{"match-without-any-arm", "fn main() {\n    let x = 3;\n    match x {};\n    match x + 1 { };\n    println(\"after\");\n}\n"},
	{"percent-signs-in-the-keys-of-written-types", "type Load = { \"cpu%\": int, \"%d items\": int };\nlet G: { \"100%%\": int } = new { \"100%%\": 1 };\nfn show(l: { \"cpu%\": int }) -> { \"%s\": int } { new { \"%s\": l[\"cpu%\"] } }\nfn main() {\n    let s: { \"cpu%\": int, name: str } = new { \"cpu%\": 93, name: \"a\" };\n    let l: Load = new { \"cpu%\": 1, \"%d items\": 2 };\n    let many: [{ \"%v\": int }] = [new { \"%v\": 3 }];\n    let opt: ?{ \"%%\": int } = ?new { \"%%\": 4 };\n    let a: any = \"{\\\"p%\\\": 5}\".parse_json();\n    let c = a as { \"p%\": int };\n    let f = fn(o: { \"%x\": int }) -> int { o[\"%x\"] };\n    println(s, l, many, opt, c, f(new { \"%x\": 6 }), show(new { \"cpu%\": 7 }), G);\n}\n"},
	{"compound-assignments", "fn main() {\n    let x = 7;\n    x += 1; x -= 2; x *= 3; x /= 2; x %= 5; x **= 2; x <<= 1; x >>= 1; x |= 8; x &= 12; x ^= 5;\n    println(x);\n}\n"},
}

var rePos = regexp.MustCompile(`(caught \S+) \d+ \d+`)
var rePosFields = regexp.MustCompile(`\b(line|column): \d+`)

func c19Capture(what string, f func()) (panicClass string) {
	defer func() {
		if rv := recover(); rv != nil {
			panicClass = "HOST-PANIC:" + what + ":" + panicFunc(vsched.RepoFrames(string(debug.Stack()))) + ":" + normMsg(fmt.Sprint(rv))
		}
	}()
	f()
	return ""
}

// c19Extra holds the other modules of the program under test (corpus files import one another).
var c19Extra map[string]string

func c19Mods(text string) map[string]string {
	m := map[string]string{}
	for k, v := range c19Extra {
		m[k] = v
	}
	m["main"] = text
	return m
}

func c19Oracle(text string, tags []string, r *Result) {
	a := Analyze(c19Mods(text), true)
	if a.Obs.Class == "HOST-PANIC" || !a.Obs.Accepted() {
		r.Note("original-not-accepted", 1)
		return
	}
	r.Sample(text)
	volatile := hasTag(tags, "closure-capture")
	if volatile {
		r.Volatile()
	}
	o0 := RunVM(a, defaultOpts())
	r.Obs(o0)
	r.Trans(2)
	r.Outcome(o0.Class)
	r.Distinct(o0.Key())
	if crashClass(o0) != "" {
		r.Note("original-crashes(C02)", 1)
		return
	}
	// spawned threads make the output order schedule dependent only if they print; the extras do
	// so deliberately with one line each, compared as sorted lines
	// programs that print the position of a caught exception legitimately print other numbers
	// after being re-laid-out by a printer: positions are masked in that case
	positional := strings.Contains(text, ".line") || strings.Contains(text, ".column")
	same := func(x Obs) bool {
		if positional {
			return x.Class == o0.Class && x.Kind == o0.Kind && rePos.ReplaceAllString(x.Out, "$1 L C") == rePos.ReplaceAllString(o0.Out, "$1 L C")
		}
		if hasTag(tags, "spawn") {
			return x.Class == o0.Class && sortedLines(x.Out) == sortedLines(o0.Out)
		}
		if x.Key() == o0.Key() {
			return true
		}
		// a caught exception printed as a whole (`println(e)`) shows its position as fields
		if strings.Contains(o0.Out, "column: ") {
			return x.Class == o0.Class && x.Kind == o0.Kind && rePosFields.ReplaceAllString(x.Out, "$1: N") == rePosFields.ReplaceAllString(o0.Out, "$1: N")
		}
		return false
	}
	check := func(stage, printed string) {
		a1 := Analyze(c19Mods(printed), true)
		r.Trans(1)
		if a1.Obs.Class == "HOST-PANIC" {
			r.Fail("ROUNDTRIP:"+stage+":printed text panics the analyzer", tags, text, "printed:\n"+printed+"\n"+a1.Obs.String())
			return
		}
		if !a1.Obs.Accepted() {
			msgs := append(append([]string{}, a1.Obs.Syntax...), a1.Obs.Errors...)
			r.Fail("ROUNDTRIP:"+stage+":printed text is rejected:"+normMsg(msgs[0]), tags, text, "printed:\n"+printed+"\n"+a1.Obs.String())
			return
		}
		o1 := RunVM(a1, defaultOpts())
		r.Trans(2)
		if !same(o1) {
			if volatile {
				r.Note("volatile-behaviour-difference-ignored", 1)
			} else {
				r.Fail("ROUNDTRIP:"+stage+":printed program behaves differently", tags, text, fmt.Sprintf("printed:\n%s\noriginal: %s\nprinted:  %s", printed, o0.String(), o1.String()))
			}
		}
	}
	// ---- parsed program
	var t1 string
	if pc := c19Capture("Program.String", func() {
		prog, _, crit := hms.Parse(text, "main")
		if crit != nil {
			t1 = ""
			return
		}
		t1 = prog.String()
	}); pc != "" {
		r.Fail(pc, tags, text, "printing the parsed program panicked")
	} else if t1 != "" {
		check("parsed-print", t1)
		var t1b string
		if pc := c19Capture("Program.String", func() {
			prog, _, crit := hms.Parse(t1, "main")
			if crit == nil {
				t1b = prog.String()
			}
		}); pc == "" && t1b != "" && t1b != t1 {
			r.Fail("ROUNDTRIP:parsed-print:not a fixed point after one round", tags, text, fmt.Sprintf("first print:\n%s\nsecond print:\n%s", t1, t1b))
		}
	}
	// ---- analysed program
	var t2 string
	if pc := c19Capture("AnalyzedProgram.String", func() { t2 = a.Mods["main"].String() }); pc != "" {
		r.Fail(pc, tags, text, "printing the analysed program panicked")
	} else {
		check("analysed-print", t2)
		var t2b string
		a2 := Analyze(c19Mods(t2), true)
		if a2.Obs.Accepted() && a2.Obs.Class != "HOST-PANIC" {
			if pc := c19Capture("AnalyzedProgram.String", func() { t2b = a2.Mods["main"].String() }); pc == "" && t2b != t2 {
				r.Fail("ROUNDTRIP:analysed-print:not a fixed point after one round", tags, text, fmt.Sprintf("first print:\n%s\nsecond print:\n%s", t2, t2b))
			}
		}
	}
	// ---- optimizer
	opt := a
	if pc := c19Capture("Optimize", func() {
		o := optimizer.NewOptimizer()
		mods, _ := o.Optimize(a.Mods)
		opt.Mods = mods
	}); pc != "" {
		r.Fail(pc, tags, text, "the optimizer panicked")
		return
	}
	oo := RunVM(opt, defaultOpts())
	r.Trans(2)
	if cc := crashClass(oo); cc != "" {
		if volatile {
			r.Note("volatile-crash-ignored(closure-capture known finding)", 1)
			return
		}
		r.Fail("OPTIMIZER:optimised program crashes:"+cc, tags, text, oo.String())
	} else if !same(oo) && !volatile {
		r.Fail("OPTIMIZER:optimised program behaves differently", tags, text, fmt.Sprintf("original:  %s\noptimised: %s", o0.String(), oo.String()))
	}
	if !hasTag(tags, "vm-only") && !hasTag(tags, "spawn") {
		t0 := RunTree(a, defaultOpts())
		to := RunTree(opt, defaultOpts())
		if crashClass(t0) == "" {
			if cc := crashClass(to); cc != "" {
				r.Fail("OPTIMIZER:optimised program crashes the interpreter:"+cc, tags, text, to.String())
			} else if to.Key() != t0.Key() {
				r.Fail("OPTIMIZER:optimised program behaves differently on the interpreter", tags, text, fmt.Sprintf("original:  %s\noptimised: %s", t0.String(), to.String()))
			}
		}
	}
}

func init() {
	register("C19", func() *Check {
		c := &Check{ID: "C19"}
		c.Scenarios = append(c.Scenarios, Scenario{Name: "printer-centric-programs", Count: func(string) int { return len(c19Extras) }, Run: func(_ string, idx int, r *Result) {
			e := c19Extras[idx]
			tags := []string{"extra:" + e.name}
			if strings.Contains(e.text, "spawn ") {
				tags = append(tags, "spawn")
			}
			if strings.Contains(e.text, "trigger ") {
				tags = append(tags, "vm-only")
			}
			c19Oracle(e.text, tags, r)
		}})
		// every program shipped with the repository (examples/, tests/), importing the others
		c.Scenarios = append(c.Scenarios, Scenario{Name: "repository-programs", Count: func(string) int { return len(corpus()) }, Run: func(_ string, idx int, r *Result) {
			c05InitCorpus()
			f := corpus()[idx]
			self := strings.TrimSuffix(f.Name[strings.LastIndex(f.Name, "/")+1:], ".hms")
			c19Extra = map[string]string{}
			for k, v := range c05CorpusMods {
				if k != self && k != "main" {
					c19Extra[k] = v
				}
			}
			defer func() { c19Extra = nil }()
			tags := []string{"file:" + f.Name}
			if strings.Contains(f.Text, "time.now") {
				r.Note("repository-program-reads-the-clock(skipped)", 1)
				return
			}
			if strings.Contains(f.Text, "spawn ") {
				tags = append(tags, "spawn")
			}
			if strings.Contains(f.Text, "trigger ") {
				tags = append(tags, "vm-only")
			}
			c19Oracle(f.Text, tags, r)
		}})
		c.Scenarios = append(c.Scenarios, Scenario{Name: "discarded-expression-statements", Count: func(string) int { return c19DiscardedCount() }, Run: func(_ string, idx int, r *Result) { c19DiscardedRun(idx, r) }})
		c.Scenarios = append(c.Scenarios, Scenario{Name: "blocks-ending-in-block-like-expressions", Count: func(string) int { return c19TailCount() }, Run: func(_ string, idx int, r *Result) { c19TailRun(idx, r) }})
		c.Scenarios = append(c.Scenarios, Scenario{Name: "statement-boundaries", Count: func(string) int { return c19BoundaryCount() }, Run: func(_ string, idx int, r *Result) { c19BoundaryRun(idx, r) }})
		for _, f := range semanticFamilies {
			f := f
			c.Scenarios = append(c.Scenarios, Scenario{Name: f.Name, Count: f.Count, Run: func(tier string, idx int, r *Result) {
				if tier == "quick" && (f.Name == "S1-operators" || f.Name == "S3-expression-trees" || f.Name == "C11-control-flow-nestings") && idx%4 != 0 {
					r.Note("stride-4 in the quick tier (complete in thorough)", 1)
					return
				}
				pc, ok := f.Gen(tier, idx)
				if !ok {
					r.Note("inapplicable", 1)
					return
				}
				c19Oracle(pc.P.Text, pc.Tags, r)
			}})
		}
		return c
	})
}
