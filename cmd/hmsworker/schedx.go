package main

// Schedule exploration: every execution of a host body on the real VM under the controlled
// scheduler, for all choice sequences within a deviation (delay) bound.

import (
	"context"
	"fmt"
	"sort"
	"strings"
	"time"

	"github.com/smarthome-go/homescript/v3/homescript/compiler"
	"github.com/smarthome-go/homescript/v3/homescript/runtime"
	"github.com/smarthome-go/homescript/v3/homescript/vsched"
)

// execObs is what one controlled execution showed.
type execObs struct {
	Events  []string // host-side log (call results, output at the moment Wait returned, ...)
	Out     string   // complete output at the end of the execution
	Sched   string   // ok | deadlock | livelock | horizon
	Blocked []string
	Panics  []string
	Steps   int
}

func (o execObs) key() string {
	return fmt.Sprintf("%s|%v|%v|%q|%q", o.Sched, o.Blocked, o.Panics, o.Events, o.Out)
}

// hostEnv is handed to the host body of an execution.
type hostEnv struct {
	rec    *rec
	ctx    *pollCtx
	events *[]string
	vm     *runtime.VM
}

func (h *hostEnv) log(format string, a ...any) {
	*h.events = append(*h.events, fmt.Sprintf(format, a...))
}

// newVM builds a VM on the compiled program with the harness hosts (runs @init).
func (h *hostEnv) newVM(prog compiler.CompileOutput, limits runtime.CoreLimits) *runtime.VM {
	var cctx context.Context = h.ctx
	var cancel context.CancelFunc = func() { h.ctx.cancelNow(context.Canceled) }
	vm := runtime.NewVM(prog, vmExec{h.rec}, &cctx, &cancel, vmScope(), limits)
	h.vm = &vm
	return &vm
}

type schedCase struct {
	Name   string
	Source string
	Bound  map[string]int // deviation bound per tier
	Kinds  string
	Body   func(h *hostEnv, prog compiler.CompileOutput)
	// Judge returns (class, detail) for a violating execution or "".
	Judge func(o execObs) (string, string)
	Tags  []string
	// PollBudget: the harness context reports done by itself after this many cancellation polls
	// (0: 20000). Horizon: step cap per execution (0: 60000).
	PollBudget int
	Horizon    int
	// LockedOutput: the host's output sink takes a lock per write (a scheduling point).
	LockedOutput bool
}

// exploreCase explores one schedCase (or one shard of its level-1 subtrees) and reports.
func exploreCase(sc schedCase, tier string, shard, nshards int, r *Result) {
	a := Analyze(map[string]string{"main": sc.Source}, true)
	if !a.Obs.Accepted() || a.Obs.Class == "HOST-PANIC" {
		r.Fail("HARNESS:program rejected", sc.Tags, sc.Source, a.Obs.String())
		return
	}
	prog, pmsg, _ := Compile(a)
	if pmsg != "" {
		r.Fail("HARNESS:compile failed", sc.Tags, sc.Source, pmsg)
		return
	}
	kinds := sc.Kinds
	if kinds == "" {
		kinds = "s"
	}
	runOnce := func() execObs {
		var o execObs
		rc := &rec{}
		if sc.LockedOutput {
			rc.outLock = newHostLock()
		}
		var events []string
		budget, horizon := sc.PollBudget, sc.Horizon
		if budget == 0 {
			budget = 20000
		}
		if horizon == 0 {
			horizon = 60000
		}
		h := &hostEnv{rec: rc, ctx: newPollCtx(budget), events: &events}
		x := vsched.Run(horizon, func() { sc.Body(h, prog) })
		o.Events = events
		o.Out = rc.out.String()
		o.Sched = x.Outcome
		o.Blocked = x.Blocked
		o.Panics = x.Panics
		o.Steps = x.Steps
		return o
	}
	var last execObs
	seenFail := map[string]int{}
	outcomes := map[string]int{}
	cfg := vsched.ExploreCfg{Bound: sc.Bound[tier], Kinds: kinds, Shard: shard, NShards: nshards}
	if !r.deadline.IsZero() {
		cfg.Deadline = r.deadline
	}
	res := vsched.Explore(cfg, func() { last = runOnce() }, func(choices []int, c *vsched.Chooser) bool {
		r.Beat()
		o := last
		r.Distinct(sc.Name + "|" + o.key())
		outcomes[o.Sched]++
		class, detail := "", ""
		if len(o.Panics) > 0 {
			msg, site := splitPanic(o.Panics[0])
			class, detail = "HOST-PANIC:"+panicFunc(site)+":"+normMsg(msg), o.Panics[0]
		} else if o.Sched == "deadlock" {
			class, detail = "DEADLOCK:"+blockedOps(o.Blocked), fmt.Sprintf("blocked=%v events=%q", o.Blocked, o.Events)
		} else if o.Sched == "livelock" || o.Sched == "horizon" {
			class, detail = "HANG:"+o.Sched+":"+blockedOps(o.Blocked), fmt.Sprintf("blocked=%v events=%q", o.Blocked, o.Events)
		} else if sc.Judge != nil {
			class, detail = sc.Judge(o)
		}
		if class != "" {
			seenFail[class]++
			if seenFail[class] == 1 {
				// replay the schedule twice: the observation must be reproducible
				var o1, o2 execObs
				vsched.RunWith(choices, kinds, func() { o1 = runOnce() })
				vsched.RunWith(choices, kinds, func() { o2 = runOnce() })
				if o1.key() != o.key() || o2.key() != o.key() {
					r.Fail("HARNESS:schedule replay is not reproducible", sc.Tags, sc.Source, fmt.Sprintf("choices=%v\nfirst: %s\nreplay1: %s\nreplay2: %s", choices, o.key(), o1.key(), o2.key()))
					return false
				}
				var trace []string
				vsched.Trace = &trace
				vsched.RunWith(choices, kinds, func() { runOnce() })
				vsched.Trace = nil
				r.Fail(class, sc.Tags, fmt.Sprintf("%s\n// scenario %s, schedule (non-default choices at points): %s", sc.Source, sc.Name, fmtChoices(choices)), detail+"\ntrace: "+compressTrace(trace))
			}
		}
		return true
	})
	r.Trans(int(res.Points))
	r.Note("executions", res.Execs)
	r.Note("executions:"+sc.Name, res.Execs)
	for k, v := range seenFail {
		r.Note("failing-executions:"+k, v)
	}
	for k, v := range outcomes {
		r.Outcome(k)
		_ = v
		r.Note("sched-outcome:"+k, v)
	}
	r.Sample(fmt.Sprintf("%s\n// %d executions, delay bound %d, max %d choice points", sc.Source, res.Execs, sc.Bound[tier], res.MaxPoints))
	if res.Diverged != "" {
		r.Fail("HARNESS:replay divergence (nondeterminism escaped the scheduler)", sc.Tags, sc.Source, res.Diverged)
	}
	if !res.Complete {
		r.MarkIncomplete(fmt.Sprintf("%s: time cap hit after %d executions at delay bound %d", sc.Name, res.Execs, sc.Bound[tier]))
	}
}

func fmtChoices(ch []int) string {
	var parts []string
	for i, c := range ch {
		if c != 0 {
			parts = append(parts, fmt.Sprintf("%d:%d", i, c))
		}
	}
	if len(parts) == 0 {
		return "default schedule"
	}
	return strings.Join(parts, " ")
}

func blockedOps(b []string) string {
	var ops []string
	for _, x := range b {
		if i := strings.Index(x, "@"); i >= 0 {
			ops = append(ops, x[i+1:])
		}
	}
	sort.Strings(ops)
	return strings.Join(ops, ",")
}

// schedScenario turns a list of schedCases into a Scenario; in the thorough tier each case is
// split into nsub shards of its level-1 subtrees so that all cores are used.
func schedScenario(name string, cases []schedCase) Scenario {
	nsub := func(tier string) int {
		if tier == "thorough" {
			return 16
		}
		return 1
	}
	return Scenario{
		Name:  name,
		Count: func(tier string) int { return len(cases) * nsub(tier) },
		Run: func(tier string, idx int, r *Result) {
			n := nsub(tier)
			exploreCase(cases[idx/n], tier, idx%n, n, r)
		},
	}
}

var _ = time.Now

// compressTrace renders a step trace compactly: runs of the same thread are merged.
func compressTrace(tr []string) string {
	var b strings.Builder
	cur := ""
	for _, e := range tr {
		i := strings.Index(e, ":")
		t, op := e[:i], e[i+1:]
		if t != cur {
			if cur != "" {
				b.WriteString("] ")
			}
			b.WriteString(t + "[")
			cur = t
		} else {
			b.WriteString(" ")
		}
		b.WriteString(op)
	}
	if cur != "" {
		b.WriteString("]")
	}
	return b.String()
}
