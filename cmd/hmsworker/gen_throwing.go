package main

import (
	"hmsverif/internal/hs"
)

// S12 callees that leave by an exception: a callee of every kind (declared function, function
// literal in a local, in a list, in an object field, returned by a function, handed on as a
// parameter) leaves normally, by an early return from a nested construct or by a throw raised
// at different depths; the exception is caught at a site of a different nesting depth, in the
// same function or in another one. After the catch the catching function goes on using its own
// locals (one of which shadows a global), declares new ones and calls the callee again. The
// scopes a callee was given must be gone whichever way it left.

var thrCallees = []string{"closure-in-local", "declared-function", "closure-in-list", "closure-in-object-field", "closure-returned-by-function", "closure-calling-a-closure-parameter"}
var thrExits = []string{"at-top", "in-nested-if", "in-loop-in-block", "after-own-locals", "early-return-in-nested", "in-argument-of-a-call"}
var thrSites = []string{"try-direct", "try-in-if", "try-in-for", "try-in-another-function", "try-two-blocks-deep", "try-in-a-closure", "try-around-a-nested-block-with-locals", "if-inside-try", "for-inside-try", "match-arm-inside-try"}

func thrCount() int { return len(thrCallees) * len(thrExits) * len(thrSites) * 3 }

func thrGen(idx int) (progCase, bool) {
	d := radix(idx, 3, len(thrSites), len(thrExits), len(thrCallees))
	arg := []int64{1, 5, 5}[d[0]]
	again := d[0] != 2 // the last variant only uses names that exist as globals too after the catch
	site, exit, callee := thrSites[d[1]], thrExits[d[2]], thrCallees[d[3]]
	intF := hs.Field{Name: "n", T: hs.TInt}
	ft := hs.TFn(hs.TInt, intF)
	boom := func() hs.Stmt {
		return hs.ES(hs.CallN("throw", hs.Bin("+", hs.S("too big: "), hs.MCall(hs.V("n"), "to_string"))))
	}
	big := hs.Bin(">", hs.V("n"), hs.I(3))
	// the body of the callee: `n * 2` unless n > 3
	var body *hs.Block
	switch exit {
	case "at-top":
		body = hs.Blk(hs.Bin("*", hs.V("n"), hs.I(2)), hs.ES(&hs.If{Cond: big, Then: hs.Blk(nil, boom())}))
	case "in-nested-if":
		body = hs.Blk(hs.Bin("*", hs.V("n"), hs.I(2)), hs.ES(&hs.If{Cond: hs.Bin(">", hs.V("n"), hs.I(0)), Then: hs.Blk(nil, hs.LetS("inner", hs.I(1)), hs.ES(&hs.If{Cond: big, Then: hs.Blk(nil, hs.LetS("deep", hs.V("inner")), boom())}))}))
	case "in-loop-in-block":
		body = hs.Blk(hs.Bin("*", hs.V("n"), hs.I(2)), hs.ES(&hs.BlockExpr{B: hs.Blk(nil, hs.LetS("seen", hs.I(0)),
			&hs.For{Var: "i", Iter: &hs.RangeLit{From: hs.I(0), To: hs.V("n")}, Body: hs.Blk(nil, hs.ES(hs.Asg("+=", hs.V("seen"), hs.I(1))), hs.ES(&hs.If{Cond: hs.Bin(">", hs.V("seen"), hs.I(3)), Then: hs.Blk(nil, boom())}))})}))
	case "after-own-locals":
		body = hs.Blk(hs.Bin("+", hs.V("total"), hs.V("limit")), hs.LetS("total", hs.V("n")), hs.LetS("limit", hs.V("n")), hs.ES(&hs.If{Cond: big, Then: hs.Blk(nil, boom())}))
	case "early-return-in-nested":
		body = hs.Blk(hs.Bin("*", hs.V("n"), hs.I(2)), hs.ES(&hs.If{Cond: big, Then: hs.Blk(nil, hs.LetS("deep", hs.I(1)), &hs.While{Cond: hs.B(true), Body: hs.Blk(nil, &hs.Return{X: hs.Bin("-", hs.I(0), hs.V("deep"))})})}))
	case "in-argument-of-a-call":
		body = hs.Blk(hs.CallN("twice", &hs.If{Cond: big, Then: hs.Blk(hs.I(0), boom()), Else: hs.Blk(hs.V("n"))}))
	}
	prog := &hs.Program{Globals: []*hs.Let{{Name: "total", X: hs.I(100)}, {Name: "limit", X: hs.I(200)}}}
	prog.Funcs = append(prog.Funcs, hs.Fn("twice", hs.TInt, hs.Blk(hs.Bin("*", hs.V("x"), hs.I(2))), hs.P("x", hs.TInt)))
	lit := func() hs.Expr { return &hs.FnLit{Params: []hs.Field{intF}, Ret: hs.TInt, Body: body} }
	var pre []hs.Stmt                // statements of main that set the callee up
	var call func(a hs.Expr) hs.Expr // the call expression
	switch callee {
	case "closure-in-local":
		pre = []hs.Stmt{hs.LetS("check", lit())}
		call = func(a hs.Expr) hs.Expr { return hs.CallN("check", a) }
	case "declared-function":
		prog.Funcs = append(prog.Funcs, hs.Fn("check", hs.TInt, body, hs.P("n", hs.TInt)))
		call = func(a hs.Expr) hs.Expr { return hs.CallN("check", a) }
	case "closure-in-list":
		pre = []hs.Stmt{hs.LetS("checks", hs.List(lit()))}
		call = func(a hs.Expr) hs.Expr { return hs.CallE(hs.Idx(hs.V("checks"), hs.I(0)), a) }
	case "closure-in-object-field":
		pre = []hs.Stmt{hs.LetS("box", &hs.ObjLit{Fields: []hs.ObjField{{Name: "check", X: lit()}}})}
		call = func(a hs.Expr) hs.Expr { return hs.MCall(hs.V("box"), "check", a) }
	case "closure-returned-by-function":
		prog.Funcs = append(prog.Funcs, hs.Fn("make", ft, hs.Blk(lit(), hs.LetS("total", hs.I(-5)))))
		pre = []hs.Stmt{hs.LetS("check", hs.CallN("make"))}
		call = func(a hs.Expr) hs.Expr { return hs.CallN("check", a) }
	case "closure-calling-a-closure-parameter":
		outer := &hs.FnLit{Params: []hs.Field{{Name: "inner", T: ft}, {Name: "m", T: hs.TInt}}, Ret: hs.TInt,
			Body: hs.Blk(hs.Bin("+", hs.V("got"), hs.I(0)), hs.LetS("total", hs.I(-9)), hs.LetS("got", hs.CallN("inner", hs.V("m"))))}
		pre = []hs.Stmt{hs.LetS("check", lit()), hs.LetS("outer", outer)}
		call = func(a hs.Expr) hs.Expr { return hs.CallN("outer", hs.V("check"), a) }
	}
	a := hs.I(arg)
	add := hs.ES(hs.Asg("+=", hs.V("total"), call(a)))
	tryOf := func(inner ...hs.Stmt) hs.Stmt {
		return hs.ES(&hs.Try{Body: hs.Blk(nil, inner...), Var: "e", Catch: hs.Blk(nil, hs.Println(hs.S("caught:"), hs.Mem(hs.V("e"), "message"), hs.V("total"), hs.V("limit")))})
	}
	var use []hs.Stmt
	switch site {
	case "try-direct":
		use = []hs.Stmt{tryOf(add)}
	case "try-in-if":
		use = []hs.Stmt{hs.ES(&hs.If{Cond: hs.Bin(">", hs.V("limit"), hs.I(0)), Then: hs.Blk(nil, hs.LetS("within", hs.I(1)), tryOf(add), hs.Println(hs.S("within"), hs.V("within")))})}
	case "try-in-for":
		use = []hs.Stmt{&hs.For{Var: "i", Iter: &hs.RangeLit{From: hs.I(0), To: hs.I(2)}, Body: hs.Blk(nil, tryOf(hs.LetS("step", hs.V("i")), add, hs.Println(hs.S("step"), hs.V("step"))), hs.Println(hs.S("i"), hs.V("i"), hs.V("total")))}}
	case "try-in-another-function":
		ap := hs.Fn("apply", hs.TInt, hs.Blk(hs.Bin("+", hs.V("res"), hs.V("fallback")),
			hs.LetS("fallback", hs.I(7)),
			hs.LetS("res", &hs.Try{Body: hs.Blk(hs.CallN("f", hs.V("v"))), Var: "e", Catch: hs.Blk(hs.V("fallback"), hs.Println(hs.S("apply caught:"), hs.Mem(hs.V("e"), "message"), hs.V("fallback"), hs.V("total")))})),
			hs.P("f", ft), hs.P("v", hs.TInt))
		prog.Funcs = append(prog.Funcs, ap)
		var fv hs.Expr
		switch callee {
		case "closure-in-list":
			fv = hs.Idx(hs.V("checks"), hs.I(0))
		case "closure-in-object-field":
			fv = hs.Mem(hs.V("box"), "check")
		case "closure-calling-a-closure-parameter":
			return progCase{}, false // two parameters: covered by the other sites
		default:
			fv = hs.V("check")
		}
		use = []hs.Stmt{hs.ES(hs.Asg("+=", hs.V("total"), hs.CallN("apply", fv, a)))}
	case "try-two-blocks-deep":
		use = []hs.Stmt{tryOf(hs.ES(&hs.BlockExpr{B: hs.Blk(nil, hs.LetS("b1", hs.I(1)), hs.ES(&hs.BlockExpr{B: hs.Blk(nil, hs.LetS("b2", hs.I(2)), add, hs.Println(hs.S("b"), hs.V("b1"), hs.V("b2")))}))}))}
	case "try-in-a-closure":
		if callee == "closure-calling-a-closure-parameter" {
			return progCase{}, false
		}
		var fv hs.Expr
		switch callee {
		case "closure-in-list":
			fv = hs.Idx(hs.V("checks"), hs.I(0))
		case "closure-in-object-field":
			fv = hs.Mem(hs.V("box"), "check")
		default:
			fv = hs.V("check")
		}
		guard := &hs.FnLit{Params: []hs.Field{{Name: "f", T: ft}, {Name: "v", T: hs.TInt}}, Ret: hs.TInt,
			Body: hs.Blk(hs.Bin("+", hs.V("res"), hs.V("mine")), hs.LetS("mine", hs.I(3)),
				hs.LetS("res", &hs.Try{Body: hs.Blk(hs.CallN("f", hs.V("v"))), Var: "e", Catch: hs.Blk(hs.V("mine"), hs.Println(hs.S("guard caught:"), hs.Mem(hs.V("e"), "message"), hs.V("mine")))}))}
		use = []hs.Stmt{hs.LetS("guard", guard), hs.ES(hs.Asg("+=", hs.V("total"), hs.CallN("guard", fv, a))), hs.ES(hs.Asg("+=", hs.V("total"), hs.CallN("guard", fv, hs.I(2))))}
	case "if-inside-try":
		use = []hs.Stmt{tryOf(hs.ES(&hs.If{Cond: hs.Bin(">", hs.V("limit"), hs.I(0)), Then: hs.Blk(nil, add)}))}
	case "for-inside-try":
		use = []hs.Stmt{tryOf(&hs.For{Var: "i", Iter: &hs.RangeLit{From: hs.I(0), To: hs.I(2)}, Body: hs.Blk(nil, add)})}
	case "match-arm-inside-try":
		use = []hs.Stmt{tryOf(hs.ES(&hs.Match{X: hs.V("limit"), Arms: []hs.MatchArm{{Lits: []hs.Expr{hs.I(3)}, Body: &hs.BlockExpr{B: hs.Blk(nil, add)}}, {Body: &hs.BlockExpr{B: hs.Blk(nil)}}}}))}
	case "try-around-a-nested-block-with-locals":
		use = []hs.Stmt{hs.LetS("kept", hs.I(11)), tryOf(hs.LetS("kept", hs.I(22)), hs.ES(&hs.If{Cond: hs.B(true), Then: hs.Blk(nil, hs.LetS("kept", hs.I(33)), add, hs.Println(hs.S("kept in"), hs.V("kept")))})), hs.Println(hs.S("kept"), hs.V("kept"))}
	}
	main := []hs.Stmt{hs.LetS("total", hs.I(0)), hs.LetS("limit", hs.I(3))}
	main = append(main, pre...)
	main = append(main, hs.ES(hs.Asg("+=", hs.V("total"), call(hs.I(1)))), hs.Println(hs.S("before:"), hs.V("total")))
	main = append(main, use...)
	main = append(main,
		hs.ES(hs.Asg("+=", hs.V("total"), hs.I(1))),
		hs.LetS("fresh", hs.Bin("+", hs.V("total"), hs.V("limit"))),
		hs.Println(hs.S("after:"), hs.V("total"), hs.V("limit"), hs.V("fresh")))
	if again {
		main = append(main, hs.Println(hs.S("again:"), call(hs.I(2))))
	}
	main = append(main, hs.ES(hs.CallN("show")))
	prog.Funcs = append(prog.Funcs,
		hs.Fn("show", nil, hs.Blk(nil, hs.Println(hs.S("globals:"), hs.V("total"), hs.V("limit")))),
		hs.Fn("main", nil, hs.Blk(nil, main...)))
	return mkCase(prog, "callee:"+callee, "exit:"+exit, "site:"+site), true
}

func init() {
	semanticFamilies = append(semanticFamilies, progFamily{Name: "S12-callees-leaving-by-exception", Count: func(string) int { return thrCount() }, Gen: func(_ string, idx int) (progCase, bool) { return thrGen(idx) }})
}
