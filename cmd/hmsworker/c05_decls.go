package main

import (
	"fmt"
	"strings"
)

// C05, declarations with invalid parameter lists: every list of at most three parameters over
// an alphabet with repeated names, repeated singleton extractions, undeclared singletons and
// `self`, in every kind of function declaration, with the singletons declared or not. The
// analyzer registers signatures in one pass and analyses bodies in another: whatever the first
// pass rejects must not crash the second.

var c05Params = []string{"a: int", "b: str", "a: str", "a: $x", "b: $x", "b: $y", "c: $nope", "self: $x"}
var c05DeclKinds = []string{"fn", "pub fn", "event fn", "impl-method", "two-functions-same-params", "called-from-main"}

func c05DeclCount() int {
	n := len(c05Params)
	return (1 + n + n*n + n*n*n) * len(c05DeclKinds) * 2
}

func c05DeclRun(idx int, r *Result) {
	n := len(c05Params)
	lists := 1 + n + n*n + n*n*n
	d := radix(idx, 2, len(c05DeclKinds), lists)
	declared, kind, li := d[0] == 1, c05DeclKinds[d[1]], d[2]
	var ps []string
	switch {
	case li == 0:
	case li < 1+n:
		ps = []string{c05Params[li-1]}
	case li < 1+n+n*n:
		k := li - 1 - n
		ps = []string{c05Params[k/n], c05Params[k%n]}
	default:
		k := li - 1 - n - n*n
		ps = []string{c05Params[k/(n*n)], c05Params[(k/n)%n], c05Params[k%n]}
	}
	plist := strings.Join(ps, ", ")
	var b strings.Builder
	if declared {
		b.WriteString("$x = { n: int };\n$y = { s: str };\n")
	}
	switch kind {
	case "fn", "pub fn", "event fn":
		fmt.Fprintf(&b, "%s f(%s) { }\nfn main() { }\n", kind, plist)
	case "impl-method":
		fmt.Fprintf(&b, "import templ FooFeature from templates;\nimpl FooFeature with { light } for $x {\n    fn dim(%s) -> bool { true }\n}\nfn main() { }\n", plist)
	case "two-functions-same-params":
		fmt.Fprintf(&b, "fn f(%s) { }\nfn g(%s) { f(); }\nfn main() { }\n", plist, plist)
	case "called-from-main":
		fmt.Fprintf(&b, "fn f(%s) -> int { 1 }\nfn main() { println(f()); let h = f; h(); }\n", plist)
	}
	decl := "singletons-undeclared"
	if declared {
		decl = "singletons-declared"
	}
	c05Both(b.String(), 0, nil, []string{"family:declarations", "decl:" + kind, decl, fmt.Sprintf("params:%d", len(ps))}, false, r)
}
