package main

import (
	"fmt"
	"os"
	"runtime/debug"
	"strings"

	"github.com/smarthome-go/homescript/v3/homescript/diagnostic"
	herrors "github.com/smarthome-go/homescript/v3/homescript/errors"
	"github.com/smarthome-go/homescript/v3/homescript/vsched"

	"hmsverif/internal/hs"
)

// C08: every reported position is real, points at the culprit and can be rendered.

// spanProblem checks a span against the text of the file it names. It returns "" if the span
// is the whole-file position (all zero) or a consistent range inside the text.
func spanProblem(sp herrors.Span, files map[string]string) string {
	zero := herrors.Location{}
	if sp.Start == zero && sp.End == zero {
		return "" // explicit whole-file position
	}
	text, ok := files[sp.Filename]
	if !ok {
		return fmt.Sprintf("unknown-file(%q)", sp.Filename)
	}
	runes := []rune(text)
	locate := func(l herrors.Location) (int, string) {
		if l.Line < 1 || l.Column < 1 {
			return 0, "line-or-column-zero"
		}
		line, col := uint(1), uint(1)
		for i, r := range runes {
			if line == l.Line && col == l.Column {
				return i, ""
			}
			if r == '\n' {
				line++
				col = 1
			} else {
				col++
			}
		}
		if line == l.Line && col == l.Column {
			return len(runes), "" // the position just past the last character (end of input)
		}
		return 0, "outside-the-text"
	}
	si, p := locate(sp.Start)
	if p != "" {
		return "start-" + p
	}
	ei, p := locate(sp.End)
	if p != "" {
		return "end-" + p
	}
	if int(sp.Start.Index) != si {
		return "start-index-inconsistent-with-line-column"
	}
	if int(sp.End.Index) != ei {
		return "end-index-inconsistent-with-line-column"
	}
	if si > ei {
		return "start-after-end"
	}
	return ""
}

func within(sp herrors.Span, r hs.Rng) bool {
	return r.Contains(int(sp.Start.Line), int(sp.Start.Column)) && r.Contains(int(sp.End.Line), int(sp.End.Column))
}

func showSpan(sp herrors.Span) string {
	return fmt.Sprintf("%s %d:%d(%d)-%d:%d(%d)", sp.Filename, sp.Start.Line, sp.Start.Column, sp.Start.Index, sp.End.Line, sp.End.Column, sp.End.Index)
}

// ---------------------------------------------------------------- A: runtime positions

func c08Runtime(pc progCase, r *Result) {
	markVolatile(pc, r)
	a := Analyze(map[string]string{"main": pc.P.Text}, true)
	if a.Obs.Class == "HOST-PANIC" || !a.Obs.Accepted() {
		r.Note("not-accepted", 1)
		return
	}
	ref := hs.Eval(pc.Prog, &pc.P, refBudget)
	if ref.Unspec != "" || (ref.Class != "uncaught" && ref.Class != "fatal") {
		r.Note("no-interrupt-in-reference", 1)
		return
	}
	if hasTag(pc.Tags, "closure-capture") {
		r.Note("known-finding-program(closure-capture)", 1)
		return
	}
	files := map[string]string{"main": pc.P.Text}
	culprit := ref.ThrowAt
	what := "throw call"
	if ref.Class == "fatal" {
		culprit = ref.FatalAt
		what = "failing expression"
	}
	r.Sample(pc.P.Text)
	check := func(backend string, o Obs) {
		r.Trans(1)
		if crashClass(o) != "" || o.Class != ref.Class {
			r.Note("outcome-differs("+backend+")", 1)
			return
		}
		r.Outcome(backend + ":" + o.Class)
		r.Distinct(fmt.Sprintf("%s|%s|%v", backend, o.Class, o.Span))
		tags := append([]string{"backend:" + backend, "interrupt:" + o.Class + kindSuffix(o.Kind)}, pc.Tags...)
		if p := spanProblem(o.Span, files); p != "" {
			r.Fail("SPAN:interrupt:"+p, tags, pc.P.Text, "span "+showSpan(o.Span))
			return
		}
		zero := herrors.Location{}
		if o.Span.Start == zero && o.Span.End == zero {
			r.Fail("SPAN:interrupt:whole-file position for an error with a definite culprit", tags, pc.P.Text, "span "+showSpan(o.Span))
			return
		}
		if culprit != nil && !within(o.Span, withSemicolon(*culprit, pc.P.Text)) {
			r.Fail("SPAN:interrupt:outside the "+what, tags, pc.P.Text, fmt.Sprintf("span %s, culprit %d:%d-%d:%d", showSpan(o.Span), culprit.Start.Line, culprit.Start.Col, culprit.End.Line, culprit.End.Col))
		}
	}
	check("vm", RunVM(a, defaultOpts()))
	if !hasTag(pc.Tags, "vm-only") {
		check("tree", RunTree(a, defaultOpts()))
	}
	// the same program as an imported module: its text is unchanged (a public entry function is
	// appended behind it), so every position keeps its coordinates but must now name `lib`
	if len(pc.P.Text) > 0 && !strings.Contains(pc.P.Text, "$") && !strings.Contains(pc.P.Text, "trigger ") {
		libText := pc.P.Text + c08LibTail
		mods := map[string]string{"main": c08ImporterMain, "lib": libText}
		ai := Analyze(mods, true)
		if ai.Obs.Class == "HOST-PANIC" || !ai.Obs.Accepted() {
			r.Note("imported-variant-not-accepted", 1)
			return
		}
		files = mods
		inLib := func(backend string, o Obs) {
			if crashClass(o) != "" || o.Class != ref.Class {
				r.Note("imported-variant-outcome-differs("+backend+")", 1)
				if f := os.Getenv("C08_DEBUG"); f != "" {
					if fh, err := os.OpenFile(f, os.O_APPEND|os.O_CREATE|os.O_WRONLY, 0o644); err == nil {
						fmt.Fprintf(fh, "C08DBG %s: %s\nreference: %s\n%s\n", backend, o.String(), ref.Class, libText)
						fh.Close()
					}
				}
				return
			}
			tags := append([]string{"backend:" + backend, "interrupt:" + o.Class + kindSuffix(o.Kind), "as:imported-module"}, pc.Tags...)
			cas := "// module lib (imported by: " + strings.ReplaceAll(c08ImporterMain, "\n", " ") + ")\n" + libText
			if o.Span.Filename != "lib" {
				r.Fail("SPAN:interrupt:names another file than the module of the culprit", tags, cas, "span "+showSpan(o.Span)+" in file "+o.Span.Filename)
				return
			}
			if p := spanProblem(o.Span, files); p != "" {
				r.Fail("SPAN:interrupt:"+p, tags, cas, "span "+showSpan(o.Span))
				return
			}
			if culprit != nil && !within(o.Span, withSemicolon(*culprit, pc.P.Text)) {
				r.Fail("SPAN:interrupt:outside the "+what, tags, cas, fmt.Sprintf("span %s, culprit %d:%d-%d:%d", showSpan(o.Span), culprit.Start.Line, culprit.Start.Col, culprit.End.Line, culprit.End.Col))
			}
		}
		inLib("vm", RunVM(ai, defaultOpts()))
		if !hasTag(pc.Tags, "vm-only") {
			inLib("tree", RunTree(ai, defaultOpts()))
		}
		r.Trans(2)
	}
}

const c08LibTail = "\npub fn c08_entry() { main(); }\n"
const c08ImporterMain = "import { c08_entry } from lib;\nfn main() {\n    c08_entry();\n}\n"

// ---------------------------------------------------------------- B: front-end positions

// c08FrontEnd: every syntax error and diagnostic of a text has a consistent span and renders.
func c08FrontEnd(mods map[string]string, tags []string, r *Result) {
	text := mods["main"]
	a := Analyze(mods, true)
	r.Trans(1)
	if a.Obs.Class == "HOST-PANIC" {
		r.Note("analyzer-panic(C05)", 1)
		return
	}
	render := func(kind string, f func() string) {
		defer func() {
			if rv := recover(); rv != nil {
				r.Fail("RENDER:"+kind+" panics:"+normMsg(fmt.Sprint(rv)), tags, text, fmt.Sprintf("%v\n%s", rv, vsched.RepoFrames(string(debug.Stack()))))
			}
		}()
		_ = f()
	}
	for _, e := range a.Syn {
		e := e
		r.Distinct("syn|" + e.Message)
		if p := spanProblem(e.Span, mods); p != "" {
			r.Fail("SPAN:syntax-error:"+p, tags, text, fmt.Sprintf("%q span %s", e.Message, showSpan(e.Span)))
			continue
		}
		if src, ok := mods[e.Span.Filename]; ok || e.Span.Filename == "" {
			if !ok {
				src = text
			}
			render("syntax error", func() string { return e.Display(src) })
		}
	}
	for _, d := range a.Diags {
		d := d
		r.Distinct("diag|" + d.Message)
		if p := spanProblem(d.Span, mods); p != "" {
			r.Fail("SPAN:diagnostic:"+p, tags, text, fmt.Sprintf("%q span %s", d.Message, showSpan(d.Span)))
			continue
		}
		src, ok := mods[d.Span.Filename]
		if !ok {
			src = text
		}
		render("diagnostic", func() string { return d.Display(src) })
	}
	r.Outcome(fmt.Sprintf("syntax:%v diags:%v", len(a.Syn) > 0, len(a.Diags) > 0))
}

// single-fault programs with a known culprit: the first error diagnostic must lie within it
var c08Culprits = []struct{ name, before, culprit, after string }{
	{"undefined-identifier", "fn main() {\n    let a = 1;\n    println(a + ", "zz", ");\n}\n"},
	{"undefined-function", "fn main() {\n    ", "nope(1)", ";\n}\n"},
	{"operand-type-mismatch", "fn main() {\n    let a = 1;\n    println(", "a + \"s\"", ");\n}\n"},
	{"condition-not-bool", "fn main() {\n    if ", "1 + 2", " { println(1); }\n}\n"},
	{"wrong-arity", "fn f(a: int) -> int { a }\nfn main() {\n    println(", "f(1, 2)", ");\n}\n"},
	{"argument-type", "fn f(a: int) -> int { a }\nfn main() {\n    println(f(", "\"s\"", "));\n}\n"},
	{"break-outside-loop", "fn main() {\n    println(1);\n    ", "break;", "\n}\n"},
	{"unknown-member", "fn main() {\n    let l = [1];\n    println(", "l.nope", ");\n}\n"},
	{"unknown-type", "fn main() {\n    let a: ", "Nope", " = 1;\n}\n"},
	{"return-type", "fn f() -> int {\n    ", "return \"s\";", "\n}\nfn main() { f(); }\n"},
	{"assign-type", "fn main() {\n    let a = 1;\n    ", "a = \"s\"", ";\n}\n"},
	{"let-annotation-mismatch", "fn main() {\n    ", "let a: int = \"s\";", "\n}\n"},
	{"duplicate-function", "fn f() {}\n", "fn f() {}", "\nfn main() {}\n"},
	{"iterate-non-iterable", "fn main() {\n    for x in ", "true", " { }\n}\n"},
	{"while-condition-not-bool", "fn main() {\n    while ", "1", " { }\n}\n"},
	{"while-condition-string", "fn main() {\n    let s = \"s\";\n    while ", "s", " { }\n}\n"},
	// a function value where a value of another type is expected (forgotten call parentheses)
	{"while-condition-function-name", "fn ready() -> bool { true }\nfn main() {\n    while ", "ready", " { }\n}\n"},
	{"while-condition-closure", "fn main() {\n    let c = fn() -> bool { true };\n    while ", "c", " { }\n}\n"},
	{"if-condition-function-name", "fn ready() -> bool { true }\nfn main() {\n    if ", "ready", " { }\n}\n"},
	{"if-condition-closure", "fn main() {\n    let c = fn() -> bool { true };\n    if ", "c", " { println(1); }\n}\n"},
	{"else-if-condition-function-name", "fn ready() -> bool { true }\nfn main() {\n    if false { } else if ", "ready", " { }\n}\n"},
	{"operand-function-name", "fn ready() -> int { 1 }\nfn main() {\n    println(", "ready + 1", ");\n}\n"},
	{"argument-function-name", "fn ready() -> int { 1 }\nfn f(a: int) -> int { a }\nfn main() {\n    println(f(", "ready", "));\n}\n"},
	{"let-annotation-function-name", "fn ready() -> int { 1 }\nfn main() {\n    ", "let a: int = ready;", "\n}\n"},
	{"return-function-name", "fn ready() -> int { 1 }\nfn f() -> int {\n    ", "return ready;", "\n}\nfn main() { f(); }\n"},
	{"index-function-name", "fn ready() -> int { 1 }\nfn main() {\n    let l = [1];\n    println(", "l[ready]", ");\n}\n"},
	{"iterate-function-name", "fn ready() -> [int] { [1] }\nfn main() {\n    for x in ", "ready", " { }\n}\n"},
	{"match-on-function-name", "fn ready() -> int { 1 }\nfn main() {\n    ", "match ready { 1 => 2, _ => 3 }", ";\n}\n"},
	{"negated-function-name", "fn ready() -> bool { true }\nfn main() {\n    println(", "!ready", ");\n}\n"},
	{"assign-function-name", "fn ready() -> int { 1 }\nfn main() {\n    let a = 1;\n    ", "a = ready", ";\n}\n"},
	{"range-bound-function-name", "fn ready() -> int { 1 }\nfn main() {\n    for i in ", "0..ready", " { }\n}\n"},
	{"cast-of-function-name", "fn ready() -> int { 1 }\nfn main() {\n    println(", "ready as int", ");\n}\n"},
}

var c08Layouts = []struct{ name, prefix string }{
	{"plain", ""},
	{"leading-comment-lines", "// first\n// second é\n\n"},
	{"leading-unicode-string", "let s = \"héllo wörld\";\n"},
	{"leading-block-comment", "/* multi\n   line */ "},
}

func c08CulpritRun(idx int, r *Result) {
	d := radix(idx, len(c08Layouts), len(c08Culprits))
	lay, c := c08Layouts[d[0]], c08Culprits[d[1]]
	text := lay.prefix + c.before + c.culprit + c.after
	tags := []string{"fault:" + c.name, "layout:" + lay.name}
	mods := map[string]string{"main": text}
	r.Sample(text)
	a := Analyze(mods, true)
	r.Trans(1)
	if a.Obs.Class == "HOST-PANIC" {
		r.Note("analyzer-panic(C05)", 1)
		return
	}
	// culprit range in line/column (runes)
	startRunes := []rune(lay.prefix + c.before)
	line, col := 1, 1
	for _, ru := range startRunes {
		if ru == '\n' {
			line++
			col = 1
		} else {
			col++
		}
	}
	cs := hs.Pos{Line: line, Col: col}
	for _, ru := range []rune(c.culprit)[:len([]rune(c.culprit))-1] {
		if ru == '\n' {
			line++
			col = 1
		} else {
			col++
		}
	}
	rng := hs.Rng{Start: cs, End: hs.Pos{Line: line, Col: col}}
	var first *diagnostic.Diagnostic
	for i := range a.Diags {
		if a.Diags[i].Level == diagnostic.DiagnosticLevelError {
			first = &a.Diags[i]
			break
		}
	}
	if first == nil {
		if len(a.Syn) > 0 {
			r.Fail("HARNESS:culprit program has a syntax error", tags, text, a.Obs.String())
		} else {
			r.Note("no-error-diagnostic(C03)", 1)
		}
		return
	}
	r.Distinct(c.name + "|" + lay.name + "|" + first.Message)
	r.Outcome("diagnosed")
	if p := spanProblem(first.Span, mods); p != "" {
		r.Fail("SPAN:diagnostic:"+p, tags, text, fmt.Sprintf("%q span %s", first.Message, showSpan(first.Span)))
		return
	}
	zero := herrors.Location{}
	if first.Span.Start == zero && first.Span.End == zero {
		r.Fail("SPAN:diagnostic:whole-file position for an error with a definite culprit", tags, text, fmt.Sprintf("%q", first.Message))
		return
	}
	if !within(first.Span, rng) {
		r.Fail("SPAN:diagnostic:outside the culprit", tags, text, fmt.Sprintf("%q span %s, culprit %d:%d-%d:%d (%q)", first.Message, showSpan(first.Span), rng.Start.Line, rng.Start.Col, rng.End.Line, rng.End.Col, c.culprit))
	}
	// the same text as an imported module
	libMods := map[string]string{"main": c08ImporterMain, "lib": text + c08LibTail}
	ai := Analyze(libMods, true)
	r.Trans(1)
	if ai.Obs.Class == "HOST-PANIC" {
		r.Note("analyzer-panic(C05)", 1)
		return
	}
	itags := append([]string{"as:imported-module"}, tags...)
	icas := "// module lib (imported by main)\n" + text + c08LibTail
	for i := range ai.Diags {
		d := ai.Diags[i]
		if d.Level != diagnostic.DiagnosticLevelError || d.Message != first.Message {
			continue
		}
		if d.Span.Filename != "lib" {
			r.Fail("SPAN:diagnostic:names another file than the module of the culprit", itags, icas, fmt.Sprintf("%q span %s in file %q", d.Message, showSpan(d.Span), d.Span.Filename))
		} else if p := spanProblem(d.Span, libMods); p != "" {
			r.Fail("SPAN:diagnostic:"+p, itags, icas, fmt.Sprintf("%q span %s", d.Message, showSpan(d.Span)))
		} else if !within(d.Span, rng) {
			r.Fail("SPAN:diagnostic:outside the culprit", itags, icas, fmt.Sprintf("%q span %s, culprit %d:%d-%d:%d (%q)", d.Message, showSpan(d.Span), rng.Start.Line, rng.Start.Col, rng.End.Line, rng.End.Col, c.culprit))
		}
		return
	}
	r.Note("imported-variant:diagnostic-not-repeated", 1)
}

// mutated texts: for every base text and every position (stride), one character deleted or
// replaced: all resulting syntax errors and diagnostics must have real, renderable positions
var c08Edits = []string{"delete", "insert-@", "insert-quote", "insert-open-brace", "truncate", "insert-newline", "insert-é"}

func c08BaseTexts() []string {
	var out []string
	for _, e := range c19Extras {
		out = append(out, e.text)
	}
	for _, in := range c20Inputs {
		out = append(out, in.text)
	}
	for _, p := range c14Progs {
		out = append(out, p.Mods["main"])
	}
	return out
}

func c08MutCount(tier string) int {
	n := 0
	for _, t := range c08BaseTexts() {
		n += (len([]rune(t)) + c08Stride(tier) - 1) / c08Stride(tier)
	}
	return n * len(c08Edits)
}

func c08Stride(tier string) int {
	if tier == "thorough" {
		return 1
	}
	return 3
}

func c08MutRun(tier string, idx int, r *Result) {
	edit := c08Edits[idx%len(c08Edits)]
	idx /= len(c08Edits)
	st := c08Stride(tier)
	for _, t := range c08BaseTexts() {
		ru := []rune(t)
		n := (len(ru) + st - 1) / st
		if idx >= n {
			idx -= n
			continue
		}
		pos := idx * st
		var m string
		switch edit {
		case "delete":
			m = string(ru[:pos]) + string(ru[pos+1:])
		case "insert-@":
			m = string(ru[:pos]) + "@" + string(ru[pos:])
		case "insert-quote":
			m = string(ru[:pos]) + "\"" + string(ru[pos:])
		case "insert-open-brace":
			m = string(ru[:pos]) + "{" + string(ru[pos:])
		case "truncate":
			m = string(ru[:pos])
		case "insert-newline":
			m = string(ru[:pos]) + "\n" + string(ru[pos:])
		case "insert-é":
			m = string(ru[:pos]) + "é" + string(ru[pos:])
		}
		if idx == 0 {
			r.Sample(m)
		}
		if os.Getenv("C08_PRINT") != "" {
			fmt.Fprintf(os.Stderr, "EDITED TEXT (%s at %d):\n%s\n----\n", edit, pos, m)
		}
		c08FrontEnd(map[string]string{"main": m}, []string{"edit:" + edit}, r)
		return
	}
}

func init() {
	register("C08", func() *Check {
		c := &Check{ID: "C08"}
		for _, f := range semanticFamilies {
			f := f
			c.Scenarios = append(c.Scenarios, Scenario{Name: "runtime-positions:" + f.Name, Count: f.Count, Run: func(tier string, idx int, r *Result) {
				pc, ok := f.Gen(tier, idx)
				if !ok {
					r.Note("inapplicable", 1)
					return
				}
				c08Runtime(pc, r)
			}})
		}
		c.Scenarios = append(c.Scenarios,
			Scenario{Name: "diagnostic-culprits", Count: func(string) int { return len(c08Culprits) * len(c08Layouts) }, Run: func(_ string, idx int, r *Result) { c08CulpritRun(idx, r) }},
			Scenario{Name: "positions-of-failing-runtime-casts", Count: func(string) int { return c08CastCount() }, Run: func(_ string, idx int, r *Result) { c08CastRun(idx, r) }},
			Scenario{Name: "caught-exceptions-across-modules", Count: func(string) int { return c08CaughtCount() }, Run: func(_ string, idx int, r *Result) { c08CaughtRun(idx, r) }},
			Scenario{Name: "number-literals-that-do-not-fit-their-type", Count: func(string) int { return c08LitCount() }, Run: func(_ string, idx int, r *Result) { c08LitRun(idx, r) }},
			Scenario{Name: "import-list-culprits", Count: func(string) int { return c08ImpCount() }, Run: func(_ string, idx int, r *Result) { c08ImpRun(idx, r) }},
			Scenario{Name: "type-flow-culprits", Count: func(string) int { return c08FlowCount() }, Run: func(_ string, idx int, r *Result) { c08FlowRun(idx, r) }},
			Scenario{Name: "front-end-positions-of-edited-texts", Count: c08MutCount, Run: c08MutRun},
		)
		return c
	})
}

var _ = strings.Join

// withSemicolon extends a range by a directly following ';': an expression statement
// `throw("E");` is accepted as the construct that caused the interrupt.
func withSemicolon(r hs.Rng, text string) hs.Rng {
	ru := []rune(text)
	if r.End.Idx+1 < len(ru) && ru[r.End.Idx+1] == ';' {
		r.End.Col++
		r.End.Idx++
	}
	return r
}
