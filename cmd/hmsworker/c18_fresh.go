package main

import (
	"fmt"
	"strings"
)

// C18, results are fresh: the value a builtin member (or an index operation) hands out belongs
// to the caller. Storing it in a typed container slot and assigning through that slot must not
// change what the same member answers for an equal receiver afterwards (no shared "none", no
// shared empty list, no view into library-owned state); neither must assigning through a slot
// that was initialised with the plainest literal of the result type (`none`, `[]`, ...), which
// the runtime may have materialised from the same place as the member does.

// altExpr writes a value of type t: which == 0 the plainest one, which == 1 a different one.
func altExpr(t *mtype, which int) (string, bool) {
	switch t.K {
	case tInt:
		return []string{"0", "7"}[which], true
	case tFloat:
		return []string{"0.0", "7.5"}[which], true
	case tBool:
		return []string{"false", "true"}[which], true
	case tStr:
		return []string{`""`, `"zz"`}[which], true
	case tRange:
		return []string{"0..0", "1..3"}[which], true
	case mkOpt:
		if which == 0 {
			return "none", true
		}
		in, ok := altExpr(t.Elem, 1)
		return "?" + in, ok
	case mkList:
		if which == 0 {
			return "[]", true
		}
		in, ok := altExpr(t.Elem, 1)
		return "[" + in + "]", ok
	case tObj:
		var fs []string
		for i, n := range t.FNames {
			in, ok := altExpr(t.FTypes[i], which)
			if !ok {
				return "", false
			}
			fs = append(fs, n+": "+in)
		}
		return "new { " + strings.Join(fs, ", ") + " }", true
	}
	return "", false
}

func c18FreshProgram(c c18Case) (text string, ok bool) {
	if c.Ret == nil || c.Ret.K == tNull || c.Ret.K == tAny || c.Ret.containsAny() || c.T.K == tNull {
		return "", false
	}
	a0, ok0 := altExpr(c.Ret, 0)
	a1, ok1 := altExpr(c.Ret, 1)
	if !ok0 || !ok1 {
		return "", false
	}
	pb := &progBuilder{}
	recv := bindStmt("r", c.Recv, c.T, pb)
	recv2 := bindStmt("q", c.Recv, c.T, pb)
	var as []string
	for _, a := range c.Args {
		var at *mtype
		if st, ok := staticType(a); ok && !st.hasWildcard() {
			at = st
		} else if a.K == mList && c.T.K == mkList {
			at = c.T
			if c.Member != "concat" {
				at = c.T.Elem
			}
		}
		as = append(as, pb.expr(a, at))
	}
	call := func(recv string) string {
		switch c.Via {
		case "field":
			return recv + "." + c.Member
		case "index":
			return recv + "[" + as[0] + "]"
		}
		return recv + "." + c.Member + "(" + strings.Join(as, ", ") + ")"
	}
	text = fmt.Sprintf(`fn main() {
    %s
    %s
    %s
    try {
        let first = %s;
        print("A<", first, ">");
        let holder: { slot: %s } = new { slot: first };
        holder.slot = %s;
        holder.slot = %s;
        let plain: { slot: %s } = new { slot: %s };
        plain.slot = %s;
        let second = %s;
        println("B<", second, ">");
    } catch e {
        println("threw<" + e.message + ">");
    }
}
`, strings.Join(pb.pre, "\n    "), recv, recv2, call("r"), c.Ret, a0, a1, c.Ret, a0, a1, call("q"))
	return text, true
}

func c18Fresh(tier string, idx int, r *Result) {
	backend := backendNames[idx%2]
	c := c18Cases(tier)[idx/2]
	text, ok := c18FreshProgram(c)
	if !ok {
		r.Note("fresh:result-type-not-writable", 1)
		return
	}
	cas := "// " + c.String() + "\n// backend: " + backend + "\n" + text
	r.Sample(cas)
	a := Analyze(map[string]string{"main": text}, true)
	if a.Obs.Class == "HOST-PANIC" || !a.Obs.Accepted() {
		r.Note("fresh:not-accepted", 1)
		return
	}
	o := runOn(backend, a, r)
	tags := []string{"backend:" + backend, "kind:" + typeKindTag(c.T), "member:" + c.Member, c18ArgTag(c)}
	if cc := crashClass(o); cc != "" {
		capFail(r, cc, tags, cas, o.String())
		return
	}
	r.Distinct(fmt.Sprintf("fresh|%s|%s|%s|%s", backend, typeKindTag(c.T), c.Member, o.Out))
	if o.Class != "ok" || strings.HasPrefix(o.Out, "threw<") {
		r.Outcome(backend + ":interrupt")
		return
	}
	i := strings.Index(o.Out, ">B<")
	if !strings.HasPrefix(o.Out, "A<") || i < 0 {
		if strings.Contains(o.Out, ">threw<") {
			// the first call answered, the same call on an equal receiver then failed
			capFail(r, "FRESH:second-call-interrupted:"+c.Member, tags, cas, o.String())
			return
		}
		capFail(r, "MEMBER:program-outcome", tags, cas, o.String())
		return
	}
	r.Outcome(backend + ":ok")
	first := strings.TrimPrefix(o.Out[:i], "A<")
	second := strings.TrimSuffix(strings.TrimSuffix(o.Out[i+3:], "\n"), ">")
	if first != second {
		capFail(r, "FRESH:result-changed-by-assigning-to-an-earlier-result:"+c.Member, tags, cas, fmt.Sprintf("first call printed %q; after the earlier result had been stored in a typed slot and that slot assigned, the same call on an equal receiver printed %q", first, second))
	}
}
