package main

import (
	"hmsverif/internal/hs"
)

// S10 assignment targets: every assignment operator x every shape of target whose
// sub-expressions have visible effects (an index computed by a call, a container returned by a
// call, nested index/member chains) x effect-free or effectful right-hand side. Each
// sub-expression of the target is evaluated exactly once; the reference evaluator fixes the
// outcome.

var asgOps = []string{"=", "+=", "-=", "*=", "/=", "%=", "**="}
var asgTargets = []string{
	"index-by-call",                // l[t(1)] op= v
	"index-by-counter-call",        // l[next()] op= v   (next() returns 0, 1, 2, ...)
	"member-of-call-result",        // pick().n op= v    (pick() returns a shared object)
	"index-of-call-result",         // getl()[1] op= v
	"nested-index-by-calls",        // m[t(1)][t(0)] op= v
	"member-then-index-by-call",    // o.l[t(2)] op= v
	"index-by-call-then-member",    // os[t(1)].n op= v
	"index-by-counter-then-member", // os[next()].n op= v
}
var asgRhs = []string{"literal", "call", "reads-target-container"}

func asgCount() int { return len(asgOps) * len(asgTargets) * len(asgRhs) }

func asgGen(idx int) (progCase, bool) {
	d := radix(idx, len(asgRhs), len(asgTargets), len(asgOps))
	rhsKind, tgt, op := asgRhs[d[0]], asgTargets[d[1]], asgOps[d[2]]
	// t(k): prints and returns k; next(): prints and returns a running counter
	t := hs.Fn("t", hs.TInt, hs.Blk(hs.V("k"), hs.Println(hs.S("t"), hs.V("k"))), hs.P("k", hs.TInt))
	next := hs.Fn("next", hs.TInt, hs.Blk(hs.Bin("-", hs.V("CNT"), hs.I(1)), hs.ES(hs.Asg("+=", hs.V("CNT"), hs.I(1))), hs.Println(hs.S("next"), hs.V("CNT"))))
	objT := hs.TObj(hs.Field{Name: "n", T: hs.TInt})
	pick := hs.Fn("pick", objT, hs.Blk(hs.V("O"), hs.Println(hs.S("pick"))))
	getl := hs.Fn("getl", hs.TList(hs.TInt), hs.Blk(hs.V("L"), hs.Println(hs.S("getl"))))
	prog := &hs.Program{Funcs: []*hs.Func{t, next, pick, getl}}
	prog.Globals = []*hs.Let{
		{Name: "CNT", X: hs.I(0)},
		{Name: "O", X: &hs.ObjLit{Fields: []hs.ObjField{{Name: "n", X: hs.I(7)}}}},
		{Name: "L", X: hs.List(hs.I(10), hs.I(20), hs.I(30))},
	}
	body := []hs.Stmt{
		hs.LetS("l", hs.List(hs.I(10), hs.I(20), hs.I(30))),
		hs.LetS("m", hs.List(hs.List(hs.I(1), hs.I(2)), hs.List(hs.I(3), hs.I(4)))),
		hs.LetS("o", &hs.ObjLit{Fields: []hs.ObjField{{Name: "l", X: hs.List(hs.I(5), hs.I(6), hs.I(7))}}}),
		hs.LetS("os", hs.List(&hs.ObjLit{Fields: []hs.ObjField{{Name: "n", X: hs.I(3)}}}, &hs.ObjLit{Fields: []hs.ObjField{{Name: "n", X: hs.I(4)}}}, &hs.ObjLit{Fields: []hs.ObjField{{Name: "n", X: hs.I(5)}}})),
	}
	var target hs.Expr
	var readBack hs.Expr // an effect-free expression of the container the target lives in
	switch tgt {
	case "index-by-call":
		target, readBack = hs.Idx(hs.V("l"), hs.CallN("t", hs.I(1))), hs.Idx(hs.V("l"), hs.I(0))
	case "index-by-counter-call":
		target, readBack = hs.Idx(hs.V("l"), hs.CallN("next")), hs.Idx(hs.V("l"), hs.I(2))
	case "member-of-call-result":
		target, readBack = hs.Mem(hs.CallN("pick"), "n"), hs.Mem(hs.V("O"), "n")
	case "index-of-call-result":
		target, readBack = hs.Idx(hs.CallN("getl"), hs.I(1)), hs.Idx(hs.V("L"), hs.I(0))
	case "nested-index-by-calls":
		target, readBack = hs.Idx(hs.Idx(hs.V("m"), hs.CallN("t", hs.I(1))), hs.CallN("t", hs.I(0))), hs.Idx(hs.Idx(hs.V("m"), hs.I(0)), hs.I(1))
	case "member-then-index-by-call":
		target, readBack = hs.Idx(hs.Mem(hs.V("o"), "l"), hs.CallN("t", hs.I(2))), hs.Idx(hs.Mem(hs.V("o"), "l"), hs.I(0))
	case "index-by-call-then-member":
		target, readBack = hs.Mem(hs.Idx(hs.V("os"), hs.CallN("t", hs.I(1))), "n"), hs.Mem(hs.Idx(hs.V("os"), hs.I(0)), "n")
	case "index-by-counter-then-member":
		target, readBack = hs.Mem(hs.Idx(hs.V("os"), hs.CallN("next")), "n"), hs.Mem(hs.Idx(hs.V("os"), hs.I(2)), "n")
	}
	var rhs hs.Expr
	switch rhsKind {
	case "literal":
		rhs = hs.I(2)
	case "call":
		rhs = hs.CallN("t", hs.I(3))
	case "reads-target-container":
		rhs = hs.Bin("+", hs.Bin("%", readBack, hs.I(2)), hs.I(2)) // small: `**=` stays far from overflow
	}
	asg := hs.ES(hs.Asg(op, target, rhs))
	show := hs.Println(hs.S("state"), hs.V("l"), hs.V("m"), hs.Mem(hs.V("o"), "l"), hs.Mem(hs.Idx(hs.V("os"), hs.I(0)), "n"), hs.Mem(hs.Idx(hs.V("os"), hs.I(1)), "n"), hs.Mem(hs.Idx(hs.V("os"), hs.I(2)), "n"), hs.Mem(hs.V("O"), "n"), hs.V("L"), hs.V("CNT"))
	// the assignment runs twice: a counter-based target must move on to the next slot
	body = append(body, asg, show, asg, show)
	prog.Funcs = append(prog.Funcs, hs.Fn("main", nil, hs.Blk(nil, body...)))
	return mkCase(prog, "asg:"+op, "target:"+tgt, "rhs:"+rhsKind), true
}

func init() {
	semanticFamilies = append(semanticFamilies, progFamily{Name: "S10-assignment-targets", Count: func(string) int { return asgCount() }, Gen: func(_ string, idx int) (progCase, bool) { return asgGen(idx) }})
}

// S11 fields named like builtin members: an object field may carry the name of a builtin
// member of some kind of value (`to_string`, `keys`, `len`, ...). Where the analyzer accepts
// the declaration, the declared field is what `o.<name>` denotes - as a value of the declared
// type, as an assignment target, through parameters and when nested.

var fieldNames = []string{"to_string", "keys", "to_json", "to_json_indent", "len", "get", "set", "push", "pop", "contains", "unwrap", "is_some", "start", "end", "message", "sort", "join"}
var fieldShapes = []string{"read", "write", "through-parameter", "nested", "with-sibling-and-display", "in-list-of-objects"}

func fieldCount() int { return len(fieldNames) * len(fieldShapes) }

func fieldGen(idx int) (progCase, bool) {
	d := radix(idx, len(fieldShapes), len(fieldNames))
	shape, name := fieldShapes[d[0]], fieldNames[d[1]]
	obj := func(v int64) hs.Expr { return &hs.ObjLit{Fields: []hs.ObjField{{Name: name, X: hs.I(v)}}} }
	prog := &hs.Program{}
	var body []hs.Stmt
	switch shape {
	case "read":
		body = []hs.Stmt{hs.LetS("o", obj(20)), hs.Println(hs.Bin("+", hs.Mem(hs.V("o"), name), hs.I(22)))}
	case "write":
		body = []hs.Stmt{hs.LetS("o", obj(20)), hs.ES(hs.Asg("=", hs.Mem(hs.V("o"), name), hs.I(5))), hs.ES(hs.Asg("+=", hs.Mem(hs.V("o"), name), hs.I(1))), hs.Println(hs.Mem(hs.V("o"), name))}
	case "through-parameter":
		prog.Funcs = append(prog.Funcs, hs.Fn("get_it", hs.TInt, hs.Blk(hs.Bin("*", hs.Mem(hs.V("p"), name), hs.I(2))), hs.P("p", hs.TObj(hs.Field{Name: name, T: hs.TInt}))))
		body = []hs.Stmt{hs.Println(hs.CallN("get_it", obj(21)))}
	case "nested":
		body = []hs.Stmt{hs.LetS("o", &hs.ObjLit{Fields: []hs.ObjField{{Name: "inner", X: obj(1)}}}), hs.Println(hs.Bin("-", hs.Mem(hs.Mem(hs.V("o"), "inner"), name), hs.I(1)))}
	case "with-sibling-and-display":
		body = []hs.Stmt{hs.LetS("o", &hs.ObjLit{Fields: []hs.ObjField{{Name: name, X: hs.I(1)}, {Name: "other", X: hs.S("s")}}}), hs.Println(hs.V("o")), hs.Println(hs.Mem(hs.V("o"), name), hs.Mem(hs.V("o"), "other"))}
	case "in-list-of-objects":
		body = []hs.Stmt{hs.LetS("l", hs.List(obj(1), obj(2))), hs.LetS("t", hs.I(0)), &hs.For{Var: "x", Iter: hs.V("l"), Body: hs.Blk(nil, hs.ES(hs.Asg("+=", hs.V("t"), hs.Mem(hs.V("x"), name))))}, hs.Println(hs.V("t"))}
	}
	prog.Funcs = append(prog.Funcs, hs.Fn("main", nil, hs.Blk(nil, body...)))
	return mkCase(prog, "field:"+name, "shape:"+shape), true
}

func init() {
	semanticFamilies = append(semanticFamilies, progFamily{Name: "S11-fields-named-like-members", Count: func(string) int { return fieldCount() }, Gen: func(_ string, idx int) (progCase, bool) { return fieldGen(idx) }})
}
