package main

import (
	"fmt"
	"strings"

	pAst "github.com/smarthome-go/homescript/v3/homescript/parser/ast"
)

// C07, block-like operands: `if`, `match`, `try` and bare block expressions are operands like any
// other. Each stands as the left or the right operand of every operator, under every prefix
// operator and before every postfix form, in every position an expression can be written in
// (statement, let initialiser, return value, tail of a block, call argument, list element,
// parenthesised, match arm). The tree must be the one of the operator table with the block-like
// expression as a leaf.

var c07BlockForms = []struct{ name, text, leaf string }{
	{"if", "if a { b } else { c }", "<ast.IfExpression>"},
	{"match", "match a { 1 => b , _ => c }", "<ast.MatchExpression>"},
	{"try", "try { a } catch e { b }", "<ast.TryExpression>"},
	{"block", "{ a }", "<ast.BlockExpression>"},
}

var c07BlockPositions = []string{"statement", "let-initialiser", "return-value", "block-tail", "call-argument", "list-element", "parenthesised", "match-arm", "second-statement"}

type c07BlockShape struct{ name, op, kind string } // kind: left | right | prefix | postfix

var c07BlockShapes = func() []c07BlockShape {
	var s []c07BlockShape
	for _, op := range c07Ops {
		if !c07IsAssign(op) {
			s = append(s, c07BlockShape{"left-of:" + op, op, "left"})
		}
		if op != "as" {
			s = append(s, c07BlockShape{"right-of:" + op, op, "right"})
		}
	}
	for _, op := range []string{"-", "!", "?"} {
		s = append(s, c07BlockShape{"under-prefix:" + op, op, "prefix"})
	}
	for _, op := range []string{"()", "[0]", ".m"} {
		s = append(s, c07BlockShape{"before-postfix:" + op, op, "postfix"})
	}
	return s
}()

func c07BlockCount() int {
	return len(c07BlockForms) * len(c07BlockPositions) * len(c07BlockShapes)
}

func c07BlockRun(idx int, r *Result) {
	d := radix(idx, len(c07BlockShapes), len(c07BlockPositions), len(c07BlockForms))
	sh, pos, form := c07BlockShapes[d[0]], c07BlockPositions[d[1]], c07BlockForms[d[2]]
	var expr, want string
	switch sh.kind {
	case "left":
		if sh.op == "as" {
			expr, want = form.text+" as int", "(as "+form.leaf+" int)"
		} else {
			expr, want = form.text+" "+sh.op+" x", "("+sh.op+" "+form.leaf+" x)"
		}
	case "right":
		expr, want = "x "+sh.op+" "+form.text, "("+sh.op+" x "+form.leaf+")"
	case "prefix":
		expr, want = sh.op+" "+form.text, "("+sh.op+" "+form.leaf+")"
	case "postfix":
		switch sh.op {
		case "()":
			expr, want = form.text+" ( )", "(call "+form.leaf+")"
		case "[0]":
			expr, want = form.text+" [ 0 ]", "(index "+form.leaf+" 0)"
		case ".m":
			expr, want = form.text+" . m", "(. "+form.leaf+" m)"
		}
	}
	var src string
	switch pos {
	case "statement":
		src = "fn main() { " + expr + " ; }"
	case "second-statement":
		src = "fn main() { y ; " + expr + " ; }"
	case "let-initialiser":
		src = "fn main() { let v = " + expr + " ; }"
	case "return-value":
		src = "fn main() { return " + expr + " ; }"
	case "block-tail":
		src = "fn main() { " + expr + " }"
	case "call-argument":
		src = "fn main() { f ( " + expr + " ) ; }"
	case "list-element":
		src = "fn main() { [ " + expr + " ] ; }"
	case "parenthesised":
		src = "fn main() { ( " + expr + " ) ; }"
	case "match-arm":
		src = "fn main() { match k { 1 => " + expr + " , _ => 0 } ; }"
	}
	tags := []string{"block-like:" + form.name, "shape:" + sh.name, "position:" + pos}
	o := realParse(src, feFile)
	r.Trans(1)
	r.Sample(src)
	if o.Panic != "" {
		r.Outcome("host-panic")
		failCapped(r, "HOST-PANIC:"+panicFunc(o.Site)+":"+normMsg(o.Panic), tags, src, "parser panicked: "+o.Panic+"\n"+o.Site)
		return
	}
	got := o.errKey()
	if got == "" {
		e, why := c07BlockExtract(o.Prog, pos)
		if e == nil {
			got = "SHAPE:" + why
		} else {
			got = liftExpr(e)
		}
	}
	r.Distinct(strings.Join(tags, ",") + "|" + got)
	if got == want {
		r.Outcome("tree-as-documented")
		return
	}
	if c07IsAssign(sh.op) && strings.HasPrefix(got, "HARD:Invalid left-hand side") {
		r.Outcome("rejected-assignment-target(unspecified)")
		return
	}
	class := "TREE:shape"
	if strings.HasPrefix(got, "HARD:") || strings.HasPrefix(got, "SOFT:") || strings.HasPrefix(got, "SHAPE:") {
		class = "TREE:rejected"
	}
	r.Outcome("mismatch")
	failCapped(r, class, tags, src, fmt.Sprintf("expression: %s\nexpected: %s\nparsed:   %s", expr, want, got))
}

// c07BlockExtract finds the expression under test in the parsed program.
func c07BlockExtract(p pAst.Program, pos string) (pAst.Expression, string) {
	if len(p.Functions) != 1 {
		return nil, fmt.Sprintf("%d functions", len(p.Functions))
	}
	b := p.Functions[0].Body
	stmtExpr := func(i, n int) (pAst.Expression, string) {
		if len(b.Statements) != n || b.Expression != nil {
			return nil, fmt.Sprintf("%d statements, trailing expression %v", len(b.Statements), b.Expression != nil)
		}
		st, ok := b.Statements[i].(pAst.ExpressionStatement)
		if !ok {
			return nil, fmt.Sprintf("statement is %T", b.Statements[i])
		}
		return st.Expression, ""
	}
	switch pos {
	case "statement":
		return stmtExpr(0, 1)
	case "second-statement":
		return stmtExpr(1, 2)
	case "block-tail":
		if len(b.Statements) != 0 || b.Expression == nil {
			return nil, fmt.Sprintf("%d statements, trailing expression %v", len(b.Statements), b.Expression != nil)
		}
		return b.Expression, ""
	case "let-initialiser":
		if len(b.Statements) != 1 || b.Expression != nil {
			return nil, fmt.Sprintf("%d statements, trailing expression %v", len(b.Statements), b.Expression != nil)
		}
		st, ok := b.Statements[0].(pAst.LetStatement)
		if !ok {
			return nil, fmt.Sprintf("statement is %T", b.Statements[0])
		}
		return st.Expression, ""
	case "return-value":
		if len(b.Statements) != 1 || b.Expression != nil {
			return nil, fmt.Sprintf("%d statements, trailing expression %v", len(b.Statements), b.Expression != nil)
		}
		st, ok := b.Statements[0].(pAst.ReturnStatement)
		if !ok {
			return nil, fmt.Sprintf("statement is %T", b.Statements[0])
		}
		return st.Expression, ""
	}
	outer, why := stmtExpr(0, 1)
	if outer == nil {
		return nil, why
	}
	switch pos {
	case "call-argument":
		c, ok := outer.(pAst.CallExpression)
		if !ok || len(c.Arguments.List) != 1 {
			return nil, fmt.Sprintf("statement expression is %T", outer)
		}
		return c.Arguments.List[0], ""
	case "list-element":
		l, ok := outer.(pAst.ListLiteralExpression)
		if !ok || len(l.Values) != 1 {
			return nil, fmt.Sprintf("statement expression is %T", outer)
		}
		return l.Values[0], ""
	case "parenthesised":
		g, ok := outer.(pAst.GroupedExpression)
		if !ok {
			return nil, fmt.Sprintf("statement expression is %T", outer)
		}
		return g.Inner, ""
	case "match-arm":
		m, ok := outer.(pAst.MatchExpression)
		if !ok || len(m.Arms) != 2 {
			return nil, fmt.Sprintf("statement expression is %T", outer)
		}
		return m.Arms[0].Action, ""
	}
	return nil, "unknown position"
}
