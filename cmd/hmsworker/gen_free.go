package main

import (
	"fmt"
	"os"
	"regexp"
	"strings"
	"sync"
)

// The analyzer-defined domain: ALL programs of a small text grammar (leaves, unary and binary
// expression forms, statement templates) up to a nesting bound, filtered only by "the real
// analyzer reports no error". This reaches programs a typed generator would never write
// (null-typed lets, casts of odd values, members on odd receivers, ...).

var freeLeaves = []string{"0", "1", "-1", "x", "l", "s", "o", "n", "b", "null", "none", "g()", "h()", "f(1)", "[]", `"a"`, "1.5", "0..2", "ao", "fl"}

var freeUnary = []string{"-%s", "!%s", "?%s", "%s as int", "%s as str", "%s as float", "%s as bool", "(%s)", "%s.len()", "%s.to_string()", "%s.unwrap()",
	"%s[0]", "%s[-1]", "%s[5]", "%s.a", "[%s]", "{ %s }", "f(%s)", "println(%s)", "%s.push(1)", "%s.pop()", "%s.to_json()", "%s.is_some()", "%s.unwrap_or(1)",
	"new { a: %s }", "%s.keys()", "%s.contains(1)", "%s.rev()", "%s.parse_json()", "%s.split(\"b\")", "fn() -> int { %s }()", "%s.to_range()"}

var freeBinary = []string{"%s + %s", "%s - %s", "%s * %s", "%s / %s", "%s %% %s", "%s ** %s", "%s << %s", "%s >> %s", "%s == %s", "%s != %s", "%s < %s", "%s && %s", "%s || %s", "%s | %s",
	"%s[%s]", "if b { %s } else { %s }", "match %s { 0 => 1, _ => %s }", "try { %s } catch e { %s }", "[%s, %s]", "%s..%s", "%s.push(%s)", "%s.get(%s)", "%s.insert(0, %s)", "%s.repeat(%s)", "%s.join(%s)"}

var freeStmts = []string{"let v = %s;", "let v: int = %s;", "let v: any = %s;", "%s;", "x = %s;", "x += %s;", "l[0] = %s;", "o.a = %s;", "if %s { println(1); }", "while %s { break; }",
	"for i in %s { println(i); }", "println(%s);", "let v = %s; println(v);", "loop { %s; break; }", "let v = %s; let w = v; println(w);", "return %s;", "fl = %s;", "n = %s;", "l.push(%s);", "s = %s;"}

var freeVarRe = regexp.MustCompile(`\b(x|l|s|o|n|b|ao|fl)\b`)

const freePrelude = `fn f(a: int) -> int { a }
fn g() { }
fn h() -> int { throw("t"); 1 }
fn main() {
    let x = 1;
    let l = [1, 2];
    let s = "ab";
    let o = new { a: 1 };
    let n: ?int = ?3;
    let b = true;
    let ao = new { ? };
    let fl = 2.5;
    %s
    println("end", x, l, s, o.a, n, b, fl);
}
`

var (
	freeOnce  sync.Once
	freeExprs map[string][]string
)

func freeBuild() {
	freeExprs = map[string][]string{}
	var unaryOfLeaf, binOfLeaves []string
	for _, u := range freeUnary {
		for _, l := range freeLeaves {
			unaryOfLeaf = append(unaryOfLeaf, fmt.Sprintf(u, l))
		}
	}
	for _, b := range freeBinary {
		for _, l1 := range freeLeaves {
			for _, l2 := range freeLeaves {
				binOfLeaves = append(binOfLeaves, fmt.Sprintf(b, l1, l2))
			}
		}
	}
	quick := append(append(append([]string{}, freeLeaves...), unaryOfLeaf...), binOfLeaves...)
	// unary of unary (a reduced outer set keeps the quick tier small)
	for _, u := range freeUnary {
		for _, e := range unaryOfLeaf {
			quick = append(quick, fmt.Sprintf(u, "("+e+")"))
		}
	}
	freeExprs["quick"] = quick
	thorough := append([]string{}, quick...)
	for _, u := range freeUnary {
		for _, e := range binOfLeaves {
			thorough = append(thorough, fmt.Sprintf(u, "("+e+")"))
		}
	}
	for _, b := range freeBinary {
		for _, e := range unaryOfLeaf {
			for _, l := range freeLeaves {
				thorough = append(thorough, fmt.Sprintf(b, "("+e+")", l), fmt.Sprintf(b, l, "("+e+")"))
			}
		}
	}
	freeExprs["thorough"] = thorough
}

func freeCount(tier string) int {
	freeOnce.Do(freeBuild)
	return len(freeExprs[tier]) * len(freeStmts)
}

func freeText(tier string, idx int) (string, []string) {
	freeOnce.Do(freeBuild)
	e := freeExprs[tier][idx/len(freeStmts)]
	st := freeStmts[idx%len(freeStmts)]
	tags := []string{"free-domain", "stmt:" + st}
	if strings.Contains(e, "fn() -> int {") && freeVarRe.MatchString(e[strings.Index(e, "fn() -> int {"):]) {
		tags = append(tags, "closure-capture")
	}
	return fmt.Sprintf(freePrelude, fmt.Sprintf(st, e)), tags
}

// freeScenario applies an oracle to every ACCEPTED program of the free domain.
func freeScenario(oracle func(text string, tags []string, a Analyzed, r *Result)) Scenario {
	return Scenario{Name: "analyzer-defined-domain", Count: freeCount, Run: func(tier string, idx int, r *Result) {
		text, tags := freeText(tier, idx)
		if os.Getenv("FREE_PRINT") != "" {
			fmt.Fprintf(os.Stderr, "FREE PROGRAM:\n%s----\n", text)
		}
		a := Analyze(map[string]string{"main": text}, true)
		r.Trans(1)
		if a.Obs.Class == "HOST-PANIC" {
			r.Note("analyzer-panic(C05)", 1)
			return
		}
		if !a.Obs.Accepted() {
			r.Note("rejected-by-analyzer", 1)
			return
		}
		r.Note("accepted-by-analyzer", 1)
		oracle(text, tags, a, r)
	}}
}
