package main

import (
	"regexp"
	"strings"

	"hmsverif/internal/hs"
)

// c11Oracle: both backends produce exactly refsem's observation for control-flow programs; the
// VM additionally leaves no residue at normal exit.
func c11Oracle(pc progCase, r *Result) {
	markVolatile(pc, r)
	a := Analyze(map[string]string{"main": pc.P.Text}, true)
	if a.Obs.Class == "HOST-PANIC" {
		r.Note("analyzer-panic(C05)", 1)
		return
	}
	if !a.Obs.Accepted() {
		r.Note("rejected-by-analyzer", 1)
		return
	}
	ref := pc.eval()
	for _, t := range pc.Tags {
		if strings.HasPrefix(t, "unspec:") {
			ref.Unspec = t[7:]
		}
	}
	if ref.Unspec != "" {
		r.Note("unspecified:"+ref.Unspec, 1)
		return
	}
	r.Sample(pc.P.Text)
	tags := append(append([]string{}, pc.Tags...), ref.Feat...)
	ov := RunVM(a, defaultOpts())
	r.Obs(ov)
	r.Outcome("vm:" + ov.Class)
	r.Distinct("vm|" + ov.Key())
	if class, detail := compareRef(ref, ov, true); class != "" {
		class = refineArgOrder(class, pc, ref, ov, true)
		r.Fail(class, append([]string{"backend:vm"}, tags...), pc.P.Text, detail)
	}
	ot := RunTree(a, defaultOpts())
	r.Outcome("tree:" + ot.Class)
	r.Trans(4)
	if class, detail := compareRef(ref, ot, false); class != "" {
		r.Fail(class, append([]string{"backend:tree"}, tags...), pc.P.Text, detail)
	}
	c11Imported(pc, ref, tags, r)
}

// c11Imported: "function calls at any depth" includes calls into another module. The helper
// functions and the globals of the program are moved, unchanged, into a module `lib` (the
// functions as `pub`, plus a `pub` reader per global); `main` imports them and reads the globals
// through the readers. Names do not clash, so the reference observation is the same except
// for the positions a handler prints (they name another file now: masked on both sides).
var (
	reGlobalRead = regexp.MustCompile(`\bG2?\b`)
	reCaughtPos  = regexp.MustCompile(`(caught \S+) \d+ \d+`)
)

func c11Imported(pc progCase, ref hs.RefObs, tags []string, r *Result) {
	if len(pc.Prog.Funcs) < 2 || len(pc.Prog.Singletons) > 0 || len(pc.Prog.Imports) > 0 || hasTag(pc.Tags, "closure-capture") {
		return
	}
	lib := &hs.Program{Globals: pc.Prog.Globals}
	mainP := &hs.Program{}
	var names []string
	for _, f := range pc.Prog.Funcs {
		if f.Name == "main" {
			mainP.Funcs = append(mainP.Funcs, f)
			continue
		}
		g := *f
		g.Pub = true
		lib.Funcs = append(lib.Funcs, &g)
		names = append(names, f.Name)
	}
	if len(mainP.Funcs) != 1 {
		return
	}
	for _, gl := range pc.Prog.Globals {
		get := hs.Fn("read_"+gl.Name, hs.TInt, hs.Blk(hs.V(gl.Name)))
		get.Pub = true
		lib.Funcs = append(lib.Funcs, get)
		names = append(names, get.Name)
	}
	lib.Funcs = append(lib.Funcs, hs.Fn("main", nil, hs.Blk(nil)))
	mainP.Imports = []hs.Import{{Names: names, From: "lib"}}
	mainText := hs.Print(mainP).Text
	if len(pc.Prog.Globals) > 0 {
		// (the import line itself must keep the names)
		nl := strings.Index(mainText, "\n")
		mainText = mainText[:nl+1] + reGlobalRead.ReplaceAllStringFunc(mainText[nl+1:], func(m string) string { return "read_" + m + "()" })
	}
	mods := map[string]string{"main": mainText, "lib": hs.Print(lib).Text}
	text := detText(detProg{Mods: mods})
	a := Analyze(mods, true)
	if a.Obs.Class == "HOST-PANIC" || !a.Obs.Accepted() {
		r.Note("imported-variant-not-accepted", 1)
		return
	}
	r.Note("imported-variant-run", 1)
	itags := append([]string{"callee:in-imported-module"}, tags...)
	refNoPos := ref
	refNoPos.ThrowAt, refNoPos.FatalAt = nil, nil
	refNoPos.Out = reCaughtPos.ReplaceAllString(ref.Out, "$1 # #")
	ov := RunVM(a, defaultOpts())
	ov.Out = reCaughtPos.ReplaceAllString(ov.Out, "$1 # #")
	if class, detail := compareRef(refNoPos, ov, true); class != "" {
		r.Fail(class, append([]string{"backend:vm"}, itags...), text, detail)
	}
	ot := RunTree(a, defaultOpts())
	ot.Out = reCaughtPos.ReplaceAllString(ot.Out, "$1 # #")
	r.Trans(4)
	if class, detail := compareRef(refNoPos, ot, false); class != "" {
		r.Fail(class, append([]string{"backend:tree"}, itags...), text, detail)
	}
}

func init() {
	register("C11", func() *Check {
		c := &Check{ID: "C11"}
		for _, f := range semanticFamilies {
			if f.Name == "C11-control-flow-nestings" {
				c.Scenarios = append(c.Scenarios, f.scenario(c11Oracle))
			}
		}
		return c
	})
}
