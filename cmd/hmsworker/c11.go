package main

import (
	"strings"
)

// c11Oracle: both backends produce exactly refsem's observation for control-flow programs; the
// VM additionally leaves no residue at normal exit.
func c11Oracle(pc progCase, r *Result) {
	markVolatile(pc, r)
	a := Analyze(map[string]string{"main": pc.P.Text}, true)
	if a.Obs.Class == "HOST-PANIC" {
		r.Note("analyzer-panic(C05)", 1)
		return
	}
	if !a.Obs.Accepted() {
		r.Note("rejected-by-analyzer", 1)
		return
	}
	ref := pc.eval()
	for _, t := range pc.Tags {
		if strings.HasPrefix(t, "unspec:") {
			ref.Unspec = t[7:]
		}
	}
	if ref.Unspec != "" {
		r.Note("unspecified:"+ref.Unspec, 1)
		return
	}
	r.Sample(pc.P.Text)
	tags := append(append([]string{}, pc.Tags...), ref.Feat...)
	ov := RunVM(a, defaultOpts())
	r.Obs(ov)
	r.Outcome("vm:" + ov.Class)
	r.Distinct("vm|" + ov.Key())
	if class, detail := compareRef(ref, ov, true); class != "" {
		class = refineArgOrder(class, pc, ref, ov, true)
		r.Fail(class, append([]string{"backend:vm"}, tags...), pc.P.Text, detail)
	}
	ot := RunTree(a, defaultOpts())
	r.Outcome("tree:" + ot.Class)
	r.Trans(4)
	if class, detail := compareRef(ref, ot, false); class != "" {
		r.Fail(class, append([]string{"backend:tree"}, tags...), pc.P.Text, detail)
	}
}

func init() {
	register("C11", func() *Check {
		c := &Check{ID: "C11"}
		for _, f := range semanticFamilies {
			if f.Name == "C11-control-flow-nestings" {
				c.Scenarios = append(c.Scenarios, f.scenario(c11Oracle))
			}
		}
		return c
	})
}
