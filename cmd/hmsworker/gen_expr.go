package main

import (
	"fmt"
	"sync"

	"hmsverif/internal/hs"
)

// S2: prefix operators and casts over boundary values.
// S3: all expression trees up to a depth over a production set, with side-effect markers at
// the leaves (p(k) prints k and returns a value) to pin evaluation order and short-circuiting.

// ---------------------------------------------------------------- S2

type s2Case struct {
	expr hs.Expr
	tags []string
}

var s2Once sync.Once
var s2Cases []s2Case

func s2Build() {
	add := func(e hs.Expr, tags ...string) { s2Cases = append(s2Cases, s2Case{e, tags}) }
	for _, v := range intVals {
		add(hs.Un("-", hs.I(v)), "prefix:-", "type:int")
		add(hs.Un("-", hs.Un("-", hs.I(v))), "prefix:--", "type:int")
		for _, t := range []*hs.Type{hs.TInt, hs.TFloat, hs.TBool} {
			add(&hs.Cast{X: hs.I(v), T: t}, "cast:int->"+t.String())
		}
	}
	for _, v := range floatVals {
		add(hs.Un("-", hs.F(v)), "prefix:-", "type:float")
		for _, t := range []*hs.Type{hs.TInt, hs.TFloat, hs.TBool} {
			add(&hs.Cast{X: hs.F(v), T: t}, "cast:float->"+t.String())
		}
	}
	for _, v := range []float64{2.5, -2.5, 0.5, -0.5, 9.9e18, 1e10} {
		add(&hs.Cast{X: hs.F(v), T: hs.TInt}, "cast:float->int")
	}
	for _, v := range boolVals {
		add(hs.Un("!", hs.B(v)), "prefix:!")
		add(hs.Un("!", hs.Un("!", hs.B(v))), "prefix:!!")
		for _, t := range []*hs.Type{hs.TInt, hs.TFloat, hs.TBool} {
			add(&hs.Cast{X: hs.B(v), T: t}, "cast:bool->"+t.String())
		}
	}
	for _, v := range strVals {
		add(&hs.Cast{X: hs.S(v), T: hs.TStr}, "cast:str->str")
	}
	// some(x) and none
	add(hs.MCall(hs.Un("?", hs.I(3)), "unwrap"), "prefix:?")
	add(hs.MCall(hs.Un("?", hs.I(3)), "is_some"), "prefix:?")
	add(hs.Un("?", hs.I(3)), "prefix:?")
	add(hs.Un("?", hs.S("a")), "prefix:?")
	add(hs.MCall(&hs.NoneLit{}, "is_none"), "none")
	add(hs.MCall(hs.Un("?", hs.I(3)), "unwrap_or", hs.I(4)), "prefix:?")
}

func s2Count() int { s2Once.Do(s2Build); return len(s2Cases) * 2 }

func s2Gen(idx int) (progCase, bool) {
	s2Once.Do(s2Build)
	c := s2Cases[idx/2]
	var body []hs.Stmt
	if idx%2 == 0 {
		body = []hs.Stmt{hs.Println(c.expr)}
	} else {
		// through a local
		var inner hs.Expr
		switch e := c.expr.(type) {
		case *hs.Prefix:
			inner = e.X
			body = []hs.Stmt{hs.LetS("x", inner), hs.Println(hs.Un(e.Op, hs.V("x")))}
		case *hs.Cast:
			body = []hs.Stmt{hs.LetS("x", e.X), hs.Println(&hs.Cast{X: hs.V("x"), T: e.T})}
		default:
			body = []hs.Stmt{hs.LetS("x", c.expr), hs.Println(hs.V("x"))}
		}
	}
	body = append(body, hs.Println(hs.S("end")))
	return mkCase(&hs.Program{Funcs: []*hs.Func{hs.Fn("main", nil, hs.Blk(nil, body...))}}, c.tags...), true
}

// ---------------------------------------------------------------- S3

// A tree template: leaves are numbered in source order when the tree is instantiated.
type tmpl struct {
	op   string
	kids []*tmpl
	typ  byte // 'i' int, 'b' bool
}

var (
	s3Once  sync.Once
	s3Trees map[string][]*tmpl // tier -> trees (int typed and bool typed)
)

func s3Prods(depth int, full bool) (ints, bools []*tmpl) {
	if depth == 0 {
		return []*tmpl{{op: "leaf", typ: 'i'}}, []*tmpl{{op: "leafT", typ: 'b'}, {op: "leafF", typ: 'b'}}
	}
	si, sb := s3Prods(depth-1, full)
	// sub-expressions of any smaller depth
	if depth > 1 {
		pi, pb := s3Prods(depth-2, full)
		_ = pi
		_ = pb
	}
	ints = append(ints, si...)
	bools = append(bools, sb...)
	bin := func(op string, typ byte, l, r []*tmpl) []*tmpl {
		var out []*tmpl
		for _, a := range l {
			for _, b := range r {
				out = append(out, &tmpl{op: op, typ: typ, kids: []*tmpl{a, b}})
			}
		}
		return out
	}
	un := func(op string, typ byte, l []*tmpl) []*tmpl {
		var out []*tmpl
		for _, a := range l {
			out = append(out, &tmpl{op: op, typ: typ, kids: []*tmpl{a}})
		}
		return out
	}
	intBin := []string{"+", "-", "*", "call2", "index"}
	if full {
		intBin = append(intBin, "/", "%", "<<", "|", "&", "^", "callval2")
	}
	for _, op := range intBin {
		ints = append(ints, bin(op, 'i', si, si)...)
	}
	ints = append(ints, un("neg", 'i', si)...)
	ints = append(ints, un("block", 'i', si)...)
	ints = append(ints, un("group", 'i', si)...)
	ints = append(ints, un("try", 'i', si)...)
	ints = append(ints, un("member", 'i', si)...)
	ints = append(ints, un("list0", 'i', si)...)
	// if / match: condition x two branches
	for _, c := range sb {
		for _, a := range si {
			for _, b := range si {
				ints = append(ints, &tmpl{op: "if", typ: 'i', kids: []*tmpl{c, a, b}})
			}
		}
	}
	for _, c := range si {
		for _, a := range si {
			ints = append(ints, &tmpl{op: "match", typ: 'i', kids: []*tmpl{c, a}})
		}
	}
	for _, op := range []string{"&&", "||", "b|", "b&", "b^", "b=="} {
		bools = append(bools, bin(op, 'b', sb, sb)...)
	}
	for _, op := range []string{"==", "!=", "<", ">=", "callb2"} {
		bools = append(bools, bin(op, 'b', si, si)...)
	}
	bools = append(bools, un("!", 'b', sb)...)
	return ints, bools
}

func s3Build() {
	s3Trees = map[string][]*tmpl{}
	for _, tier := range []string{"quick", "thorough"} {
		var ints, bools []*tmpl
		if tier == "quick" {
			ints, bools = s3Prods(2, false)
			// keep quick bounded: depth-2 trees whose children are depth <= 1
		} else {
			ints, bools = s3Prods(2, true)
		}
		all := append(append([]*tmpl{}, ints...), bools...)
		// drop the trees of depth < 1 duplicates (a tree appears once per depth level)
		seen := map[string]bool{}
		var out []*tmpl
		for _, t := range all {
			k := t.key()
			if !seen[k] {
				seen[k] = true
				out = append(out, t)
			}
		}
		s3Trees[tier] = out
	}
}

func (t *tmpl) key() string {
	s := t.op + "("
	for _, k := range t.kids {
		s += k.key() + ","
	}
	return s + ")"
}

func s3Count(tier string) int { s3Once.Do(s3Build); return len(s3Trees[tier]) }

// instantiate turns a template into an expression; leaves become p(k) / pb(k, v) with k the
// leaf ordinal in source order and the int value cycling through 0,1,2.
func (t *tmpl) inst(k *int) hs.Expr {
	kid := func(i int) hs.Expr { return t.kids[i].inst(k) }
	switch t.op {
	case "leaf":
		*k++
		return hs.CallN("p", hs.I(int64(*k)))
	case "leafT", "leafF":
		*k++
		return hs.CallN("pb", hs.I(int64(*k)), hs.B(t.op == "leafT"))
	case "+", "-", "*", "/", "%", "<<", "|", "&", "^", "==", "!=", "<", ">=", "&&", "||":
		l := kid(0)
		return hs.Bin(t.op, l, kid(1))
	case "b|", "b&", "b^", "b==":
		l := kid(0)
		return hs.Bin(t.op[1:], l, kid(1))
	case "call2":
		l := kid(0)
		return hs.CallN("f2", l, kid(1))
	case "callval2":
		l := kid(0)
		return hs.CallN("fv", l, kid(1))
	case "callb2":
		l := kid(0)
		return hs.CallN("lt", l, kid(1))
	case "index":
		l := kid(0)
		return hs.Idx(hs.List(hs.I(10), hs.I(20), l), hs.Bin("%", kid(1), hs.I(3)))
	case "neg":
		return hs.Un("-", kid(0))
	case "!":
		return hs.Un("!", kid(0))
	case "block":
		return &hs.BlockExpr{B: hs.Blk(kid(0), hs.LetS("t", hs.I(1)))}
	case "group":
		return &hs.Group{X: kid(0)}
	case "try":
		return &hs.Try{Body: hs.Blk(kid(0)), Var: "e", Catch: hs.Blk(hs.I(-5))}
	case "member":
		return hs.Mem(&hs.ObjLit{Fields: []hs.ObjField{{Name: "f", X: kid(0)}}}, "f")
	case "list0":
		return hs.Idx(hs.List(kid(0)), hs.I(0))
	case "if":
		c := kid(0)
		a := kid(1)
		return &hs.If{Cond: c, Then: hs.Blk(a), Else: hs.Blk(kid(2))}
	case "match":
		c := kid(0)
		return &hs.Match{X: c, Arms: []hs.MatchArm{{Lits: []hs.Expr{hs.I(1)}, Body: kid(1)}, {Lits: nil, Body: hs.I(-9)}}}
	}
	panic("unknown template op " + t.op)
}

func s3Gen(tier string, idx int) (progCase, bool) {
	s3Once.Do(s3Build)
	t := s3Trees[tier][idx]
	k := 0
	e := t.inst(&k)
	prog := &hs.Program{Funcs: []*hs.Func{
		hs.Fn("p", hs.TInt, hs.Blk(hs.Bin("%", hs.V("k"), hs.I(3)), hs.PrintS(hs.S("p"), hs.V("k"), hs.S(";"))), hs.P("k", hs.TInt)),
		hs.Fn("pb", hs.TBool, hs.Blk(hs.V("v"), hs.PrintS(hs.S("pb"), hs.V("k"), hs.S(";"))), hs.P("k", hs.TInt), hs.P("v", hs.TBool)),
		hs.Fn("f2", hs.TInt, hs.Blk(hs.Bin("-", hs.Bin("*", hs.V("a"), hs.I(10)), hs.V("b")), hs.PrintS(hs.S("f2"), hs.V("a"), hs.V("b"), hs.S(";"))), hs.P("a", hs.TInt), hs.P("b", hs.TInt)),
		hs.Fn("lt", hs.TBool, hs.Blk(hs.Bin("<", hs.V("a"), hs.V("b"))), hs.P("a", hs.TInt), hs.P("b", hs.TInt)),
		hs.Fn("main", nil, hs.Blk(nil,
			hs.LetS("fv", hs.V("f2")),
			hs.Println(hs.S("="), e),
			hs.LetS("r", e2(t)),
			hs.Println(hs.S("="), hs.V("r")),
			hs.Println(hs.S("end")),
		)),
	}}
	return mkCase(prog, "tree:"+t.op, fmt.Sprintf("type:%c", t.typ)), true
}

// e2 instantiates the same template a second time (fresh nodes: the IR printer keys ranges by
// node identity).
func e2(t *tmpl) hs.Expr {
	k := 100
	return t.inst(&k)
}

func init() {
	semanticFamilies = append(semanticFamilies,
		progFamily{Name: "S2-prefix-casts", Count: func(string) int { return s2Count() }, Gen: func(_ string, idx int) (progCase, bool) { return s2Gen(idx) }},
		progFamily{Name: "S3-expression-trees", Count: s3Count, Gen: s3Gen},
	)
}
