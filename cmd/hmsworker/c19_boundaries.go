package main

import (
	"fmt"
	"strings"
)

// C19, statement boundaries: every block-like expression statement (block, if, if/else, match,
// try, loop, while, for) followed by every kind of statement start that could be read as a
// continuation of the previous expression (`(`, `[`, `-`, `!`, `?`, a literal, an identifier, a
// keyword), and every block-like statement with a non-null value in the last position of a
// block. The printed program must reparse to the same statements.

var c19BlockLikes = []struct{ name, text string }{
	{"block", "{ println(\"b\"); }"},
	{"block-with-value", "{ println(\"b\"); 1 }"},
	{"if", "if flag { println(\"t\"); }"},
	{"if-else-values", "if flag { 1 } else { 2 }"},
	{"if-else-function-values", "if flag { pick } else { other }"},
	{"match-values", "match n { 1 => 10, _ => 20 }"},
	{"match-blocks", "match n { 1 => { println(\"one\"); }, _ => { println(\"many\"); } }"},
	{"try-values", "try { 1 } catch e { 2 }"},
	{"try-blocks", "try { println(\"try\"); } catch e { println(\"catch\"); }"},
	{"loop", "loop { break; }"},
	{"while", "while n > 5 { n -= 1; }"},
	{"for", "for i in 0..2 { println(i); }"},
}

var c19Followers = []struct{ name, text string }{
	{"paren", "(n + 1).to_string();"},
	{"paren-call-args", "(3);"},
	{"bracket", "[n, 2].len();"},
	{"minus", "-n;"},
	{"not", "!flag;"},
	{"some", "?n;"},
	{"literal", "5;"},
	{"identifier", "n;"},
	{"let", "let after = 1;"},
	{"call", "println(\"next\");"},
	{"nothing", ""},
}

func c19BoundaryCount() int { return len(c19BlockLikes) * len(c19Followers) * 2 }

func c19BoundaryRun(idx int, r *Result) {
	d := radix(idx, 2, len(c19Followers), len(c19BlockLikes))
	inFn, fo, bl := d[0] == 1, c19Followers[d[1]], c19BlockLikes[d[2]]
	var b strings.Builder
	b.WriteString("fn pick(k: int) -> int { println(\"pick\", k); k }\nfn other(k: int) -> int { println(\"other\", k); k }\n")
	body := fmt.Sprintf("    let n = 7;\n    let flag = true;\n    %s;\n    %s\n", bl.text, fo.text)
	if inFn {
		// the block-like statement (and its follower) end a function without return value
		fmt.Fprintf(&b, "fn work() {\n%s}\nfn main() {\n    work();\n    println(\"done\");\n}\n", body)
	} else {
		fmt.Fprintf(&b, "fn main() {\n%s    println(\"done\");\n}\n", body)
	}
	place := "before-more-statements"
	if inFn {
		place = "at-the-end-of-a-null-function"
	}
	c19Oracle(b.String(), []string{"blocklike:" + bl.name, "follower:" + fo.name, "place:" + place}, r)
}
