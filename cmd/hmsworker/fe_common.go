package main

// Shared pieces of the front-end checks C05, C06, C07: the colliding alphabet, the
// index-addressable string family, the lexeme list, a wrapper around the real lexer and a
// per-worker cap on duplicate failure reports.

import (
	"fmt"
	"runtime"
	"runtime/debug"
	"strings"

	"github.com/smarthome-go/homescript/v3/homescript/lexer"
	"github.com/smarthome-go/homescript/v3/homescript/vsched"

	"hmsverif/internal/reflex"
)

const feFile = "f.hms"

// feTuneRuntime: the driver runs one worker process per CPU; the front-end checks are
// single-threaded and allocation-heavy, so each worker keeps its garbage collector from
// competing with the other fifteen.
func feTuneRuntime() { runtime.GOMAXPROCS(2) }

// feAlphabet: every operator character, both quotes, backslash, `_ $ @ # ~ ?`, digits 0 1 9,
// letters a f x u U n, the four whitespace characters, a 2-byte rune, a 4-byte rune, NUL and
// a byte that is not UTF-8 (decoded as U+FFFD by the conversion to runes).
var feAlphabet = []string{
	"+", "-", "*", "/", "%", "=", "!", "<", ">", "|", "&", "^", ".", ",", ";", ":", "(", ")", "{", "}", "[", "]",
	"\"", "'", "\\", "_", "$", "@", "#", "~", "?",
	"0", "1", "9", "a", "f", "x", "u", "U", "n",
	" ", "\t", "\r", "\n", "é", "\U0001F600", "\x00", "\xff",
}

// feStringsCount is the number of strings of length <= maxLen over feAlphabet.
func feStringsCount(maxLen int) int {
	n, p := 0, 1
	for l := 0; l <= maxLen; l++ {
		n += p
		p *= len(feAlphabet)
	}
	return n
}

// feString decodes idx into the idx-th string (shorter strings first).
func feString(idx int) string {
	p := 1
	for l := 0; ; l++ {
		if idx < p {
			var b strings.Builder
			for k := 0; k < l; k++ {
				b.WriteString(feAlphabet[idx%len(feAlphabet)])
				idx /= len(feAlphabet)
			}
			return b.String()
		}
		idx -= p
		p *= len(feAlphabet)
	}
}

func feLen(tier string) int {
	if tier == "thorough" {
		return 4
	}
	return 3
}

// feSeparators join lexemes in the adjacency families and token gaps in the layout family.
var feSeparators = []string{"", " ", "\t", "\n", "/**/", "//\n", "\r\n", "/** c **/", "/***/", "/* a * b */", "/* x */ /* y */", "// c // d\n",
	// comments with multi-byte characters (bytes and characters count differently)
	"// größer → 十\n", "/* é€ */"}

func sepName(s string) string {
	switch s {
	case "":
		return "none"
	case " ":
		return "space"
	case "\t":
		return "tab"
	case "\n":
		return "lf"
	case "\r\n":
		return "crlf"
	case "/**/":
		return "block-comment"
	case "//\n":
		return "line-comment"
	case "/** c **/":
		return "block-comment-double-stars"
	case "/***/":
		return "block-comment-three-stars"
	case "/* a * b */":
		return "block-comment-inner-star"
	case "/* x */ /* y */":
		return "two-block-comments"
	case "// c // d\n":
		return "line-comment-with-slashes"
	}
	return fmt.Sprintf("%q", s)
}

// ---------------------------------------------------------------- real lexer

// kindNames maps the repository's token kinds to the reference's kind names. The table is
// written out (not derived from TokenKind.String) so that String itself can be checked.
var kindNames = map[lexer.TokenKind]string{
	lexer.Unknown: "unknown", lexer.EOF: "EOF",
	lexer.HashTag: "#", lexer.QuestionMark: "?", lexer.AtSymbol: "@", lexer.DollarSymbol: "$", lexer.Underscore: "_",
	lexer.Semicolon: ";", lexer.Comma: ",", lexer.Colon: ":", lexer.Dot: ".", lexer.DoubleDot: "..", lexer.Arrow: "->",
	lexer.FatArrow: "=>", lexer.TildeArrow: "~>", lexer.LParen: "(", lexer.RParen: ")", lexer.LCurly: "{", lexer.RCurly: "}",
	lexer.LBracket: "[", lexer.RBracket: "]", lexer.Or: "||", lexer.And: "&&", lexer.Equal: "==", lexer.NotEqual: "!=",
	lexer.LessThan: "<", lexer.LessThanEqual: "<=", lexer.GreaterThan: ">", lexer.GreaterThanEqual: ">=", lexer.Not: "!",
	lexer.Plus: "+", lexer.Minus: "-", lexer.Multiply: "*", lexer.Divide: "/", lexer.Modulo: "%", lexer.Power: "**",
	lexer.ShiftLeft: "<<", lexer.ShiftRight: ">>", lexer.BitOr: "|", lexer.BitAnd: "&", lexer.BitXor: "^",
	lexer.Assign: "=", lexer.PlusAssign: "+=", lexer.MinusAssign: "-=", lexer.MultiplyAssign: "*=", lexer.DivideAssign: "/=",
	lexer.PowerAssign: "**=", lexer.ModuloAssign: "%=", lexer.ShiftLeftAssign: "<<=", lexer.ShiftRightAssign: ">>=",
	lexer.BitOrAssign: "|=", lexer.BitAndAssign: "&=", lexer.BitXorAssign: "^=",
	lexer.Import: "import", lexer.As: "as", lexer.From: "from", lexer.Try: "try", lexer.Catch: "catch", lexer.In: "in",
	lexer.Let: "let", lexer.Pub: "pub", lexer.Fn: "fn", lexer.If: "if", lexer.Else: "else", lexer.Match: "match",
	lexer.For: "for", lexer.While: "while", lexer.Loop: "loop", lexer.Break: "break", lexer.Continue: "continue",
	lexer.Return: "return", lexer.Type: "type", lexer.New: "new", lexer.Spawn: "spawn", lexer.Event: "event",
	lexer.Impl: "impl", lexer.With: "with", lexer.Templ: "templ", lexer.Trigger: "trigger",
	lexer.True: "true", lexer.False: "false", lexer.None: "none", lexer.Null: "null",
	lexer.String: "string", lexer.Int: "int", lexer.Float: "float", lexer.Identifier: "identifier",
}

func tokKindName(k lexer.TokenKind) string {
	if n, ok := kindNames[k]; ok {
		return n
	}
	return fmt.Sprintf("kind#%d", k)
}

type realLexResult struct {
	Toks   []reflex.Tok // lifted into the reference's token type
	Kinds  []lexer.TokenKind
	Err    string // message of the lexer error, "" if none
	ErrIdx int    // rune index the error span starts at
	Panic  string
	Site   string
	NoEOF  bool
	Calls  int
}

// realLex drives lexer.Lexer.NextToken over src until EOF, an error, or a token budget that
// no terminating lexer can exceed (one token per rune plus EOF).
func realLex(src, file string) (res realLexResult) {
	defer func() {
		if r := recover(); r != nil {
			res.Panic = fmt.Sprint(r)
			res.Site = vsched.RepoFrames(string(debug.Stack()))
		}
	}()
	l := lexer.NewLexer(src, file)
	budget := len(src) + 2
	for n := 0; n < budget; n++ {
		res.Calls++
		t, err := l.NextToken()
		if err != nil {
			res.Err = err.Message
			res.ErrIdx = int(err.Span.Start.Index)
			return res
		}
		res.Kinds = append(res.Kinds, t.Kind)
		res.Toks = append(res.Toks, reflex.Tok{
			Kind: tokKindName(t.Kind), Value: t.Value,
			Start: reflex.Pos{Line: int(t.Span.Start.Line), Col: int(t.Span.Start.Column), Idx: int(t.Span.Start.Index)},
			End:   reflex.Pos{Line: int(t.Span.End.Line), Col: int(t.Span.End.Column), Idx: int(t.Span.End.Index)},
			File:  t.Span.Filename,
		})
		if t.Kind == lexer.EOF {
			return res
		}
	}
	res.NoEOF = true
	return res
}

func kindString(k lexer.TokenKind) (s string, panicked string) {
	defer func() {
		if r := recover(); r != nil {
			panicked = fmt.Sprint(r)
		}
	}()
	return k.String(), ""
}

// ---------------------------------------------------------------- failure cap

// An exhaustive enumeration turns one root cause into 10^5 failing cases. Each worker
// reports at most failCapPerKey cases per (class, tags) and counts the rest in a note.
const failCapPerKey = 12

var feFailSeen = map[string]int{}

func failCapped(r *Result, class string, tags []string, cas, detail string) {
	key := class + "\x00" + strings.Join(tags, ",")
	feFailSeen[key]++
	if feFailSeen[key] > failCapPerKey {
		r.Note("further-failing-cases-not-listed:"+class, 1)
		return
	}
	r.Fail(class, tags, cas, detail)
}

// showText renders an input for a failure report: quoted, so that tabs, NUL and CR stay visible.
func showText(s string) string { return fmt.Sprintf("%q", s) }

func tokLine(ts []reflex.Tok) string {
	var b strings.Builder
	for i, t := range ts {
		if i > 0 {
			b.WriteString("  ")
		}
		fmt.Fprintf(&b, "%s(%q)@%d:%d/%d-%d:%d/%d", t.Kind, t.Value, t.Start.Line, t.Start.Col, t.Start.Idx, t.End.Line, t.End.Col, t.End.Idx)
		if t.File != feFile {
			fmt.Fprintf(&b, "[file=%q]", t.File)
		}
	}
	return b.String()
}

func runeAt(src string, idx int) rune {
	rs := []rune(src)
	if idx >= 0 && idx < len(rs) {
		return rs[idx]
	}
	return -1
}
