package main

import (
	"fmt"
	"strings"
)

// C12, admissions after mutation: a value admitted under a type belongs to the program. Writing
// through it afterwards (a field, an element) must not change what the next value that
// crosses the boundary is admitted as. Every pair of (first target element type, second target
// element type) with a `null` / missing payload admitted first, overwritten, and a second
// `null` admitted afterwards; in objects and in lists; through `as` and through annotated lets.

var c12SeqTypes = []struct{ t, lit string }{
	{"int", "7"}, {"str", `"s"`}, {"bool", "true"}, {"float", "1.5"}, {"[int]", "[1]"}, {"{ a: int }", "new { a: 1 }"},
}

func c12SeqCount() int { return len(c12SeqTypes) * len(c12SeqTypes) * 2 * 2 * 2 }

func c12SeqRun(idx int, r *Result) {
	d := radix(idx, 2, 2, 2, len(c12SeqTypes), len(c12SeqTypes))
	backend, viaLet, inList := backendNames[d[0]], d[1] == 1, d[2] == 1
	t2, t1 := c12SeqTypes[d[3]], c12SeqTypes[d[4]]
	bind := func(name, src, typ string) string {
		if viaLet {
			return fmt.Sprintf("let %s: %s = %s;", name, typ, src)
		}
		return fmt.Sprintf("let %s = %s as %s;", name, src, typ)
	}
	var b strings.Builder
	b.WriteString("fn main() {\n")
	if inList {
		fmt.Fprintf(&b, "    %s\n    println(\"first\", a);\n    a[0] = ?%s;\n    println(\"written\", a);\n", bind("a", `"[null, null]".parse_json()`, "[?"+t1.t+"]"), t1.lit)
		fmt.Fprintf(&b, "    %s\n    println(\"second\", c);\n", bind("c", `"[null]".parse_json()`, "[?"+t2.t+"]"))
	} else {
		fmt.Fprintf(&b, "    %s\n    println(\"first\", a.v);\n    a.v = ?%s;\n    println(\"written\", a.v);\n", bind("a", `"{\"v\": null}".parse_json()`, "{ v: ?"+t1.t+" }"), t1.lit)
		fmt.Fprintf(&b, "    %s\n    println(\"second\", c.v);\n", bind("c", `"{\"v\": null}".parse_json()`, "{ v: ?"+t2.t+" }"))
	}
	b.WriteString("    let fresh: ?int = none;\n    println(\"fresh\", fresh);\n}\n")
	text := b.String()
	cas := "// backend: " + backend + "\n" + text
	r.Sample(cas)
	a := Analyze(map[string]string{"main": text}, true)
	if a.Obs.Class == "HOST-PANIC" || !a.Obs.Accepted() {
		r.Note("sequence-not-accepted", 1)
		return
	}
	o := runOn(backend, a, r)
	form := "as"
	if viaLet {
		form = "let"
	}
	shape := "object-field"
	if inList {
		shape = "list-element"
	}
	tags := []string{"backend:" + backend, "route:json-" + form, "sequence", "in:" + shape, "first:" + t1.t, "second:" + t2.t}
	if cc := crashClass(o); cc != "" {
		r.Fail(cc, tags, cas, o.String())
		return
	}
	r.Outcome(backend + ":" + o.Class)
	r.Distinct("seq|" + backend + "|" + o.Out)
	if o.Class != "ok" {
		r.Fail("CAST:convertible-rejected:a conforming null was refused after an earlier admitted value had been written to", tags, cas, o.String())
		return
	}
	// the written payload may be displayed over several lines: the first line and the last two
	// lines are fixed
	firstLine, tail := "first none\n", "second none\nfresh none\n"
	if inList {
		firstLine, tail = "first [none, none]\n", "second [none]\nfresh none\n"
	}
	want := firstLine + "written #\n" + tail
	bad := !strings.HasPrefix(o.Out, firstLine+"written ") || !strings.HasSuffix(o.Out, "\n"+tail)
	if bad {
		r.Fail("CAST:admitted-value-wrong:a later admission depends on a write to an earlier admitted value", tags, cas, fmt.Sprintf("expected (with # for the written payload) %q, got %q", want, o.Out))
	}
}
