package main

import (
	"fmt"
	"regexp"
	"strings"

	"hmsverif/internal/hs"
)

// panicFunc extracts the function name of the first repo frame of a panic site.
func panicFunc(site string) string {
	f := site
	if i := strings.Index(f, " | "); i >= 0 {
		f = f[:i]
	}
	if i := strings.Index(f, " /"); i >= 0 {
		f = f[:i]
	}
	f = strings.TrimPrefix(f, "github.com/smarthome-go/homescript/v3/homescript/")
	return f
}

var reHex = regexp.MustCompile(`0x[0-9a-fA-F]+`)
var reNum = regexp.MustCompile(`[0-9]+`)

func normMsg(m string) string {
	if i := strings.Index(m, "\n"); i >= 0 {
		m = m[:i]
	}
	// strip volatile numbers and addresses
	m = reHex.ReplaceAllString(m, "0x#")
	m = reNum.ReplaceAllString(m, "#")
	if len(m) > 90 {
		m = m[:90]
	}
	return m
}

// crashClass returns the failure class for an observation that is a crash/wedge, or "".
func crashClass(o Obs) string {
	switch o.Class {
	case "HOST-PANIC":
		return "HOST-PANIC:" + panicFunc(o.PanicSite) + ":" + normMsg(o.Msg)
	case "HANG":
		return "HANG:" + normMsg(o.Msg)
	case "DEADLOCK":
		return "DEADLOCK:" + o.Msg
	}
	return ""
}

// progCase bundles a generated program with its printed text.
type progCase struct {
	Prog *hs.Program
	P    hs.Printed
	Tags []string
}

func mkCase(p *hs.Program, tags ...string) progCase {
	pr := hs.Print(p)
	if hs.HasCapture(p) {
		tags = append(tags, "closure-capture")
	}
	return progCase{Prog: p, P: pr, Tags: tags}
}

// compareRef compares a VM/interpreter observation with refsem's prediction and returns
// (class, detail) of the first mismatch or "".
func compareRef(ref hs.RefObs, o Obs, checkResidue bool) (string, string) {
	if cc := crashClass(o); cc != "" {
		return cc, o.String()
	}
	want := ref.Class
	if o.Class != want {
		return fmt.Sprintf("OUTCOME:%s->%s", want+kindSuffix(ref.Kind), o.Class+kindSuffix(o.Kind)), fmt.Sprintf("expected %s got %s", refString(ref), o.String())
	}
	if want == "fatal" && ref.Kind != o.Kind {
		return fmt.Sprintf("OUTCOME:fatal/%s->fatal/%s", ref.Kind, o.Kind), fmt.Sprintf("expected %s got %s", refString(ref), o.String())
	}
	if want == "uncaught" && ref.Msg != o.Msg {
		return "OUTCOME:uncaught-message", fmt.Sprintf("expected message %q got %q", ref.Msg, o.Msg)
	}
	if ref.Out != o.Out {
		return "OUTPUT", fmt.Sprintf("expected out=%q got out=%q", ref.Out, o.Out)
	}
	if o.Triggers != nil || ref.Triggers != nil {
		if strings.Join(ref.Triggers, ";") != strings.Join(o.Triggers, ";") {
			return "TRIGGERS", fmt.Sprintf("expected %q got %q", ref.Triggers, o.Triggers)
		}
	}
	if checkResidue && o.Class == "ok" && o.Residue != "" {
		f := o.Residue
		if i := strings.Index(f, "="); i >= 0 {
			f = f[:i]
		}
		return "RESIDUE:" + f, "residue at normal exit: " + o.Residue
	}
	return "", ""
}

func kindSuffix(k string) string {
	if k == "" {
		return ""
	}
	return "/" + k
}

func refString(r hs.RefObs) string {
	s := "class=" + r.Class
	if r.Kind != "" {
		s += " kind=" + r.Kind
	}
	if r.Msg != "" {
		s += fmt.Sprintf(" msg=%q", r.Msg)
	}
	return s + fmt.Sprintf(" out=%q", r.Out)
}

// radix decodes idx into mixed-radix digits (least significant first).
func radix(idx int, bases ...int) []int {
	out := make([]int, len(bases))
	for i, b := range bases {
		out[i] = idx % b
		idx /= b
	}
	return out
}

func product(bases ...int) int {
	n := 1
	for _, b := range bases {
		n *= b
	}
	return n
}

// markVolatile: programs with capturing closures behave nondeterministically on the VM (known
// finding: captured variables are resolved through a map-ordered slot table).
func markVolatile(pc progCase, r *Result) {
	for _, t := range pc.Tags {
		if t == "closure-capture" {
			r.Volatile()
		}
	}
}
