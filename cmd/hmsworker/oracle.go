package main

import (
	"fmt"
	ivalue "github.com/smarthome-go/homescript/v3/homescript/interpreter/value"

	"github.com/smarthome-go/homescript/v3/homescript/runtime/value"
	"regexp"
	"strings"

	"hmsverif/internal/hs"
)

// panicFunc extracts the function name of the first repo frame of a panic site.
func panicFunc(site string) string {
	f := site
	if i := strings.Index(f, " | "); i >= 0 {
		f = f[:i]
	}
	if i := strings.Index(f, " /"); i >= 0 {
		f = f[:i]
	}
	f = strings.TrimPrefix(f, "github.com/smarthome-go/homescript/v3/homescript/")
	return f
}

var reHex = regexp.MustCompile(`0x[0-9a-fA-F]+`)
var reNum = regexp.MustCompile(`[0-9]+`)

func normMsg(m string) string {
	if i := strings.Index(m, "\n"); i >= 0 {
		m = m[:i]
	}
	// strip volatile numbers and addresses
	m = reHex.ReplaceAllString(m, "0x#")
	m = reNum.ReplaceAllString(m, "#")
	if len(m) > 90 {
		m = m[:90]
	}
	return m
}

// crashClass returns the failure class for an observation that is a crash/wedge, or "".
func crashClass(o Obs) string {
	switch o.Class {
	case "HOST-PANIC":
		return "HOST-PANIC:" + panicFunc(o.PanicSite) + ":" + normMsg(o.Msg)
	case "HANG":
		return "HANG:" + normMsg(o.Msg)
	case "DEADLOCK":
		return "DEADLOCK:" + o.Msg
	}
	return ""
}

// progCase bundles a generated program with its printed text.
type progCase struct {
	Prog *hs.Program
	P    hs.Printed
	Tags []string
	// HostSingletons: values the host provides for singletons (both backends: each host interface gets its own copy)

	HostSingletons map[string]hs.Val
}

// toRuntime converts a reference value into a VM value (host-provided singletons).
func toRuntime(v hs.Val) value.Value {
	switch x := v.(type) {
	case int64:
		return *value.NewValueInt(x)
	case float64:
		return *value.NewValueFloat(x)
	case bool:
		return *value.NewValueBool(x)
	case string:
		return *value.NewValueString(x)
	case *hs.ListV:
		elems := make([]*value.Value, len(x.Elems))
		for i, e := range x.Elems {
			ev := toRuntime(e)
			elems[i] = &ev
		}
		return *value.NewValueList(elems)
	case *hs.ObjV:
		fields := map[string]*value.Value{}
		for k, f := range x.F {
			fv := toRuntime(f)
			fields[k] = &fv
		}
		return *value.NewValueObject(fields)
	}
	return *value.NewValueNull()
}

// toTree converts a reference value into an interpreter value.
func toTree(v hs.Val) ivalue.Value {
	switch x := v.(type) {
	case int64:
		return *ivalue.NewValueInt(x)
	case float64:
		return *ivalue.NewValueFloat(x)
	case bool:
		return *ivalue.NewValueBool(x)
	case string:
		return *ivalue.NewValueString(x)
	case *hs.ListV:
		elems := make([]*ivalue.Value, len(x.Elems))
		for i, e := range x.Elems {
			ev := toTree(e)
			elems[i] = &ev
		}
		return *ivalue.NewValueList(elems)
	case *hs.ObjV:
		fields := map[string]*ivalue.Value{}
		for k, f := range x.F {
			fv := toTree(f)
			fields[k] = &fv
		}
		return *ivalue.NewValueObject(fields)
	}
	return *ivalue.NewValueNull()
}

func (pc progCase) opts() RunOpts {
	o := defaultOpts()
	if pc.HostSingletons != nil {
		o.Singletons = map[string]value.Value{}
		o.TreeSingles = map[string]ivalue.Value{}
		for k, v := range pc.HostSingletons {
			o.Singletons[k] = toRuntime(v)
			o.Singletons["$"+k] = toRuntime(v)
			o.TreeSingles[k] = toTree(v)
			o.TreeSingles["$"+k] = toTree(v)
		}
	}
	return o
}

func (pc progCase) eval() hs.RefObs {
	in := hs.NewInterp(pc.Prog, &pc.P, refBudget)
	if pc.HostSingletons != nil {
		in.HostSingletons = map[string]hs.Val{}
		for k, v := range pc.HostSingletons {
			in.HostSingletons[k] = hs.CloneVal(v) // the evaluator mutates singletons in place
		}
	}
	return in.Run("main", nil)
}

func mkCase(p *hs.Program, tags ...string) progCase {
	pr := hs.Print(p)
	if hs.HasCapture(p) {
		tags = append(tags, "closure-capture")
	}
	return progCase{Prog: p, P: pr, Tags: tags}
}

// compareRef compares a VM/interpreter observation with refsem's prediction and returns
// (class, detail) of the first mismatch or "".
func compareRef(ref hs.RefObs, o Obs, checkResidue bool) (string, string) {
	if cc := crashClass(o); cc != "" {
		return cc, o.String()
	}
	want := ref.Class
	if o.Class != want {
		return fmt.Sprintf("OUTCOME:%s->%s", want+kindSuffix(ref.Kind), o.Class+kindSuffix(o.Kind)), fmt.Sprintf("expected %s got %s", refString(ref), o.String())
	}
	if want == "fatal" && ref.Kind != o.Kind {
		return fmt.Sprintf("OUTCOME:fatal/%s->fatal/%s", ref.Kind, o.Kind), fmt.Sprintf("expected %s got %s", refString(ref), o.String())
	}
	if want == "uncaught" && ref.Msg != o.Msg {
		return "OUTCOME:uncaught-message", fmt.Sprintf("expected message %q got %q", ref.Msg, o.Msg)
	}
	if ref.Out != o.Out {
		return "OUTPUT", fmt.Sprintf("expected out=%q got out=%q", ref.Out, o.Out)
	}
	if o.Triggers != nil || ref.Triggers != nil {
		if strings.Join(ref.Triggers, ";") != strings.Join(o.Triggers, ";") {
			return "TRIGGERS", fmt.Sprintf("expected %q got %q", ref.Triggers, o.Triggers)
		}
	}
	if checkResidue && o.Class == "ok" && o.Residue != "" {
		f := o.Residue
		if i := strings.Index(f, "="); i >= 0 {
			f = f[:i]
		}
		return "RESIDUE:" + f, "residue at normal exit: " + o.Residue
	}
	return "", ""
}

func kindSuffix(k string) string {
	if k == "" {
		return ""
	}
	return "/" + k
}

func refString(r hs.RefObs) string {
	s := "class=" + r.Class
	if r.Kind != "" {
		s += " kind=" + r.Kind
	}
	if r.Msg != "" {
		s += fmt.Sprintf(" msg=%q", r.Msg)
	}
	return s + fmt.Sprintf(" out=%q", r.Out)
}

// radix decodes idx into mixed-radix digits (least significant first).
func radix(idx int, bases ...int) []int {
	out := make([]int, len(bases))
	for i, b := range bases {
		out[i] = idx % b
		idx /= b
	}
	return out
}

func product(bases ...int) int {
	n := 1
	for _, b := range bases {
		n *= b
	}
	return n
}

// markVolatile: programs with capturing closures behave nondeterministically on the VM (known
// finding: captured variables are resolved through a map-ordered slot table).
func markVolatile(pc progCase, r *Result) {
	for _, t := range pc.Tags {
		if t == "closure-capture" {
			r.Volatile()
		}
	}
}
