package main

import (
	"fmt"
	"sort"
	"strings"

	"github.com/smarthome-go/homescript/v3/homescript/vsched"
)

// C14: analysis, compilation and execution are deterministic.
//
// On the mapiter build every `range` over a Go map in analyzer, compiler, runtimes, values and
// optimizer is a choice point (rotations of the real iteration order). All executions of the
// whole pipeline that deviate from the default order at <= 1 (quick) / <= 2 (thorough) dynamic
// map ranges must produce the same diagnostics (as a multiset), output and outcome. The same
// for the schedules of a single-threaded program (main core vs. the polling Wait), and for
// two rounds in one process sharing the host's scope maps.

type detProg struct {
	Name string
	Mods map[string]string
	Tree bool // also run the interpreter
}

var c14Progs = []detProg{
	{Name: "object-display", Tree: true, Mods: map[string]string{"main": `fn main() {
    let o = new { b: 1, a: 2 };
    println(o);
}
`}},
	{Name: "object-equality-and-members", Tree: true, Mods: map[string]string{"main": `fn main() {
    let o = new { b: 1, a: 2, c: "x" };
    let p = new { c: "x", a: 2, b: 1 };
    println(o == p, o.a, o.b, o.c);
    o.b = 5;
    println(o == p, o.b);
}
`}},
	{Name: "literal-parts-with-visible-effects", Tree: true, Mods: map[string]string{"main": `let N = 0;
fn next(label: str) -> int {
    N += 1;
    println(label, N);
    N
}
fn fail(msg: str) -> int {
    throw(msg);
    0
}
fn main() {
    let o = new { epsilon: next("e"), alpha: next("a"), delta: next("d"), beta: next("b"), gamma: next("g") };
    println(o.alpha, o.beta, o.gamma, o.delta, o.epsilon);
    let c = new { f2: fn() -> int { 2 }, f1: fn() -> int { 1 }, f3: fn() -> int { 3 } };
    println(c.f1(), c.f2(), c.f3());
    let r = try {
        new { z: fail("first"), y: fail("second"), x: fail("third") };
        "none"
    } catch e { e.message };
    println(r);
}
`}},
	// loops over variables whose names differ by trailing digits, in two modules: whatever the
	// compiler numbers (labels, iterators, slots) must not depend on the order the modules are compiled in
	{Name: "loops-over-similar-names-in-two-modules", Tree: true, Mods: map[string]string{"main": `import { many } from lib;
fn main() {
    println(many());
    let n = 0;
    for i1 in 0..0 { n += 100; }
    for i in 0..3 { n += 1; }
    for i10 in 0..2 { n += 10; }
    for i in 0..2 { for i1 in 0..2 { n += 1000; } }
    println(n);
}
`, "lib": "pub fn many() -> int {\n    let t = 0;\n    for i in 0..2 { t += i; }\n    for i in 0..2 { t += i; }\n    for i in 0..2 { t += i; }\n    for i in 0..2 { t += i; }\n    for i in 0..2 { t += i; }\n    for i in 0..2 { t += i; }\n    for i in 0..2 { t += i; }\n    for i in 0..2 { t += i; }\n    for i in 0..2 { t += i; }\n    for i in 0..2 { t += i; }\n    t\n}\nfn main() {}\n"}},
	// whatever names the compiler gives to function literals, they are the same in every run
	{Name: "function-literals-shown-by-name", Tree: true, Mods: map[string]string{"main": `fn main() {
    let a = fn(x: int) -> int { x + 1 };
    let b = fn(x: int) -> int { x * 2 };
    let o = new { ? };
    o.set("first", a);
    o.set("second", b);
    println(o);
    let c = fn(d: int) -> int { 10 / d };
    println(c(0));
}
`}},
	// names shared between function literals and declared functions, at different positions of
	// their frames: which function the compiler handles first must not matter
	{Name: "literals-and-functions-sharing-variable-names", Tree: true, Mods: map[string]string{"main": `fn scale(a: int, x: int) -> int {
    let y = a * 10;
    y + x
}
fn shift(p: int, q: int, y: int) -> int {
    let x = p - q;
    x + y
}
fn main() {
    let twice = fn(x: int) -> int { let a = x; a + x };
    let pick = fn(y: int, x: int, a: int) -> int { let q = y * 100; q + x * 10 + a };
    println(scale(1, 2), shift(9, 4, 1), twice(4), pick(1, 2, 3));
    let y = 7;
    let nested = fn(a: int) -> int { let inner = fn(y: int, a: int) -> int { y - a }; inner(a, 1) + a };
    println(nested(5), y, scale(y, 1));
}
`}},
	{Name: "uncaught-throw-inside-a-function-literal", Tree: true, Mods: map[string]string{"main": `fn main() {
    let first = fn() -> int { 1 };
    let failing = fn(msg: str) -> int { throw(msg); 0 };
    println(first());
    println(failing("from a literal"));
}
`}},
	{Name: "object-to-json", Tree: true, Mods: map[string]string{"main": `fn main() {
    let o = new { b: 1, a: [1, 2], c: "x" };
    println(o.to_json());
}
`}},
	{Name: "anyobject-keys", Tree: true, Mods: map[string]string{"main": `fn main() {
    let o = new { ? };
    o.set("k2", 2);
    o.set("k1", 1);
    o.set("k3", 3);
    println(o.keys());
    println(o);
}
`}},
	{Name: "object-keys-that-collide-under-weak-orders", Tree: true, Mods: map[string]string{"main": `fn main() {
    let o = new { id: 1, ID: 2, Id: 3, name: "n" };
    println(o);
    let p = new { ab: 1, ba: 2, a: 3, abc: 4, b: 5 };
    println(p);
    println(p.to_json());
    let q = new { ? };
    q.set("key", 1);
    q.set("KEY", 2);
    q.set("Key", 3);
    q.set("k", 4);
    println(q);
    println(q.keys());
    println(q.to_json());
    let r = new { ? };
    r.set("id", 1);
    r.set("_id", 2);
    r.set("__id", 3);
    r.set("id_", 4);
    r.set(" id", 5);
    r.set("id ", 6);
    println(r);
    println(r.keys());
    println(r.to_json());
    let s = new { _id: 1, id: 2, __id: 3, id_: 4 };
    println(s);
    println(s.to_json());
}
`}},
	{Name: "three-modules-overlapping-names", Mods: map[string]string{
		"main": `import { helper } from a;
import { other } from b;
fn main() {
    helper();
    other();
}
`,
		"a": `let tag = "a";
pub fn helper() { println("a.helper", tag); }
fn main() {}
`,
		"b": `let tag = "b";
fn helper() { println("b.helper", tag); }
pub fn other() { helper(); }
fn main() {}
`}},
	{Name: "same-function-names-in-two-libraries", Mods: map[string]string{
		"main": `import { fa } from a;
import { fb } from b;
fn util() -> int { 1 }
fn main() { println(util(), fa(), fb()); }
`,
		"a": `let g = 10;
fn util() -> int { g + 2 }
pub fn fa() -> int { util() }
fn main() {}
`,
		"b": `let g = 20;
fn util() -> int { g + 3 }
pub fn fb() -> int { util() }
fn main() {}
`}},
	{Name: "closures-and-locals", Tree: true, Mods: map[string]string{"main": `fn main() {
    let a = 1;
    let b = 2;
    let f = fn(y: int) -> int { y + 1 };
    let g = fn(y: int) -> int { y * 2 };
    let c = 3;
    println(a, b, c, f(1), g(5));
}
`}},
	{Name: "unused-variables-warnings", Tree: true, Mods: map[string]string{"main": `fn helper(unused_param: int) -> int {
    let never = 1;
    let also_never = 2;
    3
}
fn main() {
    let x = 1;
    let y = 2;
    {
        let z = 3;
        let w = 4;
    }
    println(helper(1));
}
`}},
	{Name: "several-type-errors", Mods: map[string]string{"main": `fn main() {
    let a: int = "s";
    let b = 1 + true;
    undefined_fn();
    let c = unknown_var;
    let o = new { x: 1, y: 2 };
    println(o.zz);
}
fn dup() {}
fn dup() {}
`}},
	{Name: "objects-with-several-unexpected-fields", Mods: map[string]string{"main": `type P = { x: int, y: int };
fn takes(p: P) { }
fn a() { let v: P = new { x: 1, y: 2, zeta: 3, alpha: 4 }; }
fn b() { takes(new { x: 1, y: 2, m: 1, k: 2, b: 3 }); }
fn c() -> P { new { y: 2, x: 1, ww: 1, aa: 2, mm: 3, bb: 4 } }
fn d() { let v: { p: P, q: P } = new { p: new { x: 1, y: 2, u: 1, t: 2 }, q: new { x: 1, y: 2, u: 1, t: 2 } }; }
fn main() { }
`}},
	{Name: "objects-with-several-missing-or-mistyped-fields", Mods: map[string]string{"main": `type Q = { x: int, y: int, z: int, w: int };
fn takes(q: Q) { }
fn a() { let v: Q = new { x: 1 }; }
fn b() { takes(new { w: 1 }); }
fn c() { let v: Q = new { x: "s", y: true, z: 1.5, w: [1] }; }
fn d() { let v: Q = new { x: "s", y: true, extra1: 1, extra2: 2 }; }
fn main() { }
`}},
	{Name: "calls-with-several-wrong-arguments", Mods: map[string]string{"main": `fn f(a: int, b: str, c: bool, d: [int]) { }
fn main() {
    f("s", 1, 2, 3);
    f(1);
    f(1, "s", true, [1], 5, 6);
    let g = fn(k: int, l: str) -> int { k };
    g("s", 1);
    let o = new { m1: 1, m2: 2 };
    println(o.n1, o.n2);
    match 1 { "a" => 1, true => 2, _ => 3 };
}
`}},
	{Name: "try-catch-in-a-library-whose-parameters-are-named-like-globals-elsewhere", Mods: map[string]string{
		"main": `import { safe_div, describe } from mathlib;
let total = 100;
let parts = 4;
let e = "main-e";
fn share() -> int { total / parts }
fn label() -> str { "main-label" }
fn main() {
    println(safe_div(10, 0), safe_div(9, 3));
    println(share(), total, parts, e);
    println(describe(2), label());
}
`,
		"mathlib": `let scale = 2;
pub fn safe_div(total: int, parts: int) -> int {
    let share = 7;
    try { if parts == 0 { throw("no parts"); } total / parts * scale } catch e { println("caught:", e.message); 0 - share }
}
pub fn describe(label: int) -> str {
    let r = try { if label > 1 { throw("big"); } "small" } catch total { "caught " + total.message };
    r
}
fn main() { }
`}},
	{Name: "none-in-typed-slots-assigned-through-their-containers", Tree: true, Mods: map[string]string{"main": `type Cfg = { retries: ?int, name: ?str };
fn main() {
    let names: [str] = [];
    println(names.pop(), names.last(), "[null]".parse_json() as [?int]);
    let cfg: Cfg = new { retries: none, name: none };
    println(cfg.retries, cfg.name);
    cfg.retries = ?3;
    cfg.name = ?"n";
    let parsed = "{\"retries\": null, \"name\": null}".parse_json() as Cfg;
    parsed.retries = ?4;
    let lst: [?int] = [none, ?1];
    lst[0] = ?9;
    let fresh: ?int = none;
    println(cfg.retries, cfg.name, parsed.retries, parsed.name, lst, fresh, names.pop());
}
`}},
	{Name: "singletons-two", Tree: true, Mods: map[string]string{"main": `$A = { n: int, s: str };
$B = { m: int };
fn f(a: $A, b: $B) -> int { a.n = 3; b.m = 4; a.n * 10 + b.m }
fn main() {
    println(f());
    println($A.n, $B.m);
}
`}},
	{Name: "globals-and-types", Tree: true, Mods: map[string]string{"main": `type P = { x: int, y: int };
type L = [P];
let g1 = 1;
let g2 = "two";
let g3 = [1, 2, 3];
fn mk(x: int) -> P { new { x: x, y: x * 2 } }
fn main() {
    let l: L = [mk(1), mk(2)];
    println(g1, g2, g3, l[0].x, l[1].y);
    g1 += 1;
    println(g1);
}
`}},
	{Name: "control-flow-plain", Tree: true, Mods: map[string]string{"main": `fn fib(n: int) -> int { if n < 2 { n } else { fib(n - 1) + fib(n - 2) } }
fn main() {
    let total = 0;
    for i in 0..8 {
        total += match i % 3 { 0 => fib(i), 1 => -1, _ => 0 };
    }
    try { throw("x"); } catch e { println(e.message); }
    println(total);
}
`}},
	{Name: "import-types-and-globals", Mods: map[string]string{
		"main": `import { type Pt, origin, dist } from geo;
fn main() {
    let p: Pt = new { x: 3, y: 4 };
    println(dist(p), origin.x);
}
`,
		"geo": `pub type Pt = { x: int, y: int };
pub let origin = new { x: 0, y: 0 };
let scale = 2;
pub fn dist(p: Pt) -> int { (p.x + p.y) * scale }
fn main() {}
`}},
	{Name: "nested-object-and-list-of-objects", Tree: true, Mods: map[string]string{"main": `fn main() {
    let o = new { inner: new { q: 1, p: 2 }, list: [new { b: 1, a: 2 }] };
    println(o.inner.p, o.list[0].a);
    println(o.inner == new { p: 2, q: 1 });
}
`}},
}

type detObs struct {
	diags string
	vm    string
	tree  string
}

func (o detObs) key() string { return o.diags + "\n--vm--\n" + o.vm + "\n--tree--\n" + o.tree }

func detRun(p detProg) detObs {
	var o detObs
	a := Analyze(p.Mods, true)
	var ds []string
	for _, d := range a.Diags {
		ds = append(ds, fmt.Sprintf("%v:%s@%d:%d", d.Level, d.Message, d.Span.Start.Line, d.Span.Start.Column))
	}
	for _, s := range a.Syn {
		ds = append(ds, "syntax:"+s.Message)
	}
	sort.Strings(ds) // the property speaks about the SET of diagnostics
	o.diags = strings.Join(ds, "\n")
	if a.Obs.Class == "HOST-PANIC" {
		o.diags += "\nHOST-PANIC " + a.Obs.Msg
	}
	if !a.Obs.Accepted() || a.Obs.Class == "HOST-PANIC" {
		return o
	}
	ov := RunVM(a, defaultOpts())
	o.vm = ov.Key() + "|trace=" + ov.Trace // (the frames of a fatal error are reported by name)
	if cc := crashClass(ov); cc != "" {
		o.vm = cc
	}
	if p.Tree {
		ot := RunTree(a, defaultOpts())
		o.tree = ot.Key()
		if cc := crashClass(ot); cc != "" {
			o.tree = cc
		}
	}
	return o
}

func detText(p detProg) string {
	var names []string
	for n := range p.Mods {
		names = append(names, n)
	}
	sort.Strings(names)
	var b strings.Builder
	for _, n := range names {
		fmt.Fprintf(&b, "// module %s\n%s", n, p.Mods[n])
	}
	return b.String()
}

func c14Explore(p detProg, kinds string, bound int, shard, nshards int, r *Result) {
	var last detObs
	var base *detObs
	reported := map[string]bool{}
	cfg := vsched.ExploreCfg{Bound: bound, Kinds: kinds, Shard: shard, NShards: nshards}
	if !r.deadline.IsZero() {
		cfg.Deadline = r.deadline
	}
	text := detText(p)
	// the reference observation is the default execution
	d0 := detRun(p)
	base = &d0
	res := vsched.Explore(cfg, func() { last = detRun(p) }, func(choices []int, c *vsched.Chooser) bool {
		r.Beat()
		r.Distinct(p.Name + "|" + last.key())
		if last.key() != base.key() {
			// the deviating site(s)
			var sites []string
			for i, ch := range choices {
				if ch != 0 {
					s := c.Sites[i]
					if s == "" {
						s = "schedule"
					}
					sites = append(sites, s)
				}
			}
			stage := "output/outcome"
			if last.diags != base.diags {
				stage = "diagnostics"
			} else if last.vm == base.vm {
				stage = "interpreter output/outcome"
			}
			key := stage + strings.Join(sites, ",")
			if !reported[key] {
				reported[key] = true
				tags := []string{"prog:" + p.Name}
				for _, s := range sites {
					tags = append(tags, "site:"+s)
				}
				r.Fail("NONDET:"+stage+" depends on "+choiceKindName(kinds), tags,
					fmt.Sprintf("%s// choices (point:alternative): %s at %s", text, fmtChoices(choices), strings.Join(sites, ", ")),
					fmt.Sprintf("default execution:\n%s\nthis execution:\n%s", firstN(base.key(), 600), firstN(last.key(), 600)))
			}
		}
		return true
	})
	r.Trans(int(res.Points))
	r.Note("executions", res.Execs)
	r.Note("executions:"+p.Name+":"+kinds, res.Execs)
	r.Note("max-choice-points:"+p.Name+":"+kinds, res.MaxPoints)
	r.Note("unexplored-large-map-ranges", res.LargeMaps)
	r.Sample(fmt.Sprintf("%s// %d executions with <= %d deviating %s choice(s), up to %d choice points", text, res.Execs, bound, choiceKindName(kinds), res.MaxPoints))
	if res.Diverged != "" {
		r.Fail("HARNESS:replay divergence (nondeterminism escaped the chooser)", []string{"prog:" + p.Name}, text, res.Diverged)
	}
	if !res.Complete {
		r.MarkIncomplete(fmt.Sprintf("%s: time cap hit after %d executions", p.Name, res.Execs))
	}
}

func choiceKindName(k string) string {
	switch k {
	case "m":
		return "map iteration order"
	case "s":
		return "thread schedule"
	}
	return k
}

func firstN(s string, n int) string {
	if len(s) > n {
		return s[:n] + "..."
	}
	return s
}

func c14TwoRounds(p detProg, r *Result) {
	// two analyse+compile+run rounds in one process: the second must equal the first
	a := detRun(p)
	b := detRun(p)
	c := detRun(p)
	r.Trans(3)
	r.Distinct(p.Name + "|rounds|" + a.key())
	if a.key() != b.key() || a.key() != c.key() {
		r.Fail("NONDET:result depends on earlier runs in the same process", []string{"prog:" + p.Name}, detText(p), fmt.Sprintf("round 1:\n%s\nround 2:\n%s\nround 3:\n%s", firstN(a.key(), 500), firstN(b.key(), 500), firstN(c.key(), 500)))
	}
}

// c14Reuse: one analysed program and ONE compile output are run three times (fresh VM /
// interpreter each time): later runs must equal the first (nothing a run does may leak into
// the shared program representation).
func c14Reuse(name, text string, mods map[string]string, opts func() RunOpts, tree bool, r *Result) {
	a := Analyze(mods, true)
	if !a.Obs.Accepted() || a.Obs.Class == "HOST-PANIC" {
		r.Note("not-accepted", 1)
		return
	}
	prog, pmsg, _ := Compile(a)
	if pmsg != "" {
		r.Note("compile-failed(C02)", 1)
		return
	}
	var keys []string
	for i := 0; i < 3; i++ {
		o := RunCompiled(prog, opts()) // fresh host values per run
		k := o.Key()
		if cc := crashClass(o); cc != "" {
			k = cc
		}
		keys = append(keys, k)
	}
	r.Trans(3)
	r.Sample(text)
	r.Distinct(name + "|reuse|" + keys[0])
	if keys[1] != keys[0] || keys[2] != keys[0] {
		r.Fail("NONDET:a second run of the same compile output differs from the first", []string{"backend:vm"}, text, fmt.Sprintf("run 1:\n%s\nrun 2:\n%s\nrun 3:\n%s", firstN(keys[0], 500), firstN(keys[1], 500), firstN(keys[2], 500)))
		return
	}
	if !tree {
		return
	}
	keys = nil
	for i := 0; i < 3; i++ {
		o := RunTree(a, opts())
		k := o.Key()
		if cc := crashClass(o); cc != "" {
			k = cc
		}
		keys = append(keys, k)
	}
	r.Trans(3)
	if keys[1] != keys[0] || keys[2] != keys[0] {
		r.Fail("NONDET:a second interpreter run of the same analysed program differs from the first", []string{"backend:tree"}, text, fmt.Sprintf("run 1:\n%s\nrun 2:\n%s\nrun 3:\n%s", firstN(keys[0], 500), firstN(keys[1], 500), firstN(keys[2], 500)))
	}
}

// c14ReuseFamilies: the semantic families whose programs mutate lists, objects, globals and
// singletons in place.
var c14ReuseFamilies = []string{"S5-reference-copy", "S6-for-snapshot", "S7-value-positions", "S9-singletons", "S9-triggers"}

func c14ReuseScenario() Scenario {
	var fams []progFamily
	for _, n := range c14ReuseFamilies {
		for _, f := range semanticFamilies {
			if f.Name == n {
				fams = append(fams, f)
			}
		}
	}
	count := func(tier string) int {
		n := len(c14Progs) + len(c14ReusePrograms) + len(corpus())
		for _, f := range fams {
			n += f.Count(tier)
		}
		return n
	}
	return Scenario{Name: "one-compile-output-run-repeatedly", Count: count, Run: func(tier string, idx int, r *Result) {
		if idx < len(c14Progs) {
			p := c14Progs[idx]
			c14Reuse(p.Name, detText(p), p.Mods, defaultOpts, p.Tree, r)
			return
		}
		idx -= len(c14Progs)
		if idx < len(c14ReusePrograms) {
			p := c14ReusePrograms[idx]
			c14Reuse(p.Name, detText(p), p.Mods, defaultOpts, p.Tree, r)
			return
		}
		idx -= len(c14ReusePrograms)
		// every program shipped with the repository
		if idx < len(corpus()) {
			mods, name, skip := repoProgram(idx)
			if skip != "" {
				r.Note("repository-program-skipped:"+skip, 1)
				return
			}
			c14Reuse(name, mods["main"], mods, defaultOpts, !strings.Contains(mods["main"], "trigger ") && !strings.Contains(mods["main"], "spawn "), r)
			return
		}
		idx -= len(corpus())
		for _, f := range fams {
			if idx < f.Count(tier) {
				pc, ok := f.Gen(tier, idx)
				if !ok {
					r.Note("inapplicable", 1)
					return
				}
				if hasTag(pc.Tags, "closure-capture") {
					r.Note("skipped:closure-capture", 1)
					return
				}
				c14Reuse(f.Name, pc.P.Text, map[string]string{"main": pc.P.Text}, pc.opts, !hasTag(pc.Tags, "vm-only"), r)
				return
			}
			idx -= f.Count(tier)
		}
	}}
}

// programs that mutate, in place, every kind of value the compiler materialises itself
var c14ReusePrograms = []detProg{
	{Name: "singleton-default-mutated-in-place", Mods: map[string]string{"main": `$Counter = { hits: int, log: [str], inner: { n: int } };
fn hit(c: $Counter) {
    c.hits += 1;
    c.log.push("hit");
    c.inner.n += 1;
}
fn show(c: $Counter) {
    println(c.hits, c.log, c.inner.n);
}
fn main() {
    hit();
    hit();
    show();
}
`}},
	{Name: "global-literals-mutated-in-place", Tree: true, Mods: map[string]string{"main": `let L = [1, 2];
let O = new { a: 1, l: [0] };
let S = "s";
fn main() {
    L.push(3);
    O.a += 1;
    O.l.push(1);
    S += "t";
    println(L, O.a, O.l, S);
}
`}},
	{Name: "local-literals-mutated-in-place", Tree: true, Mods: map[string]string{"main": `fn mk() -> [int] { [1, 2] }
fn mko() -> { a: int, l: [int] } { new { a: 1, l: [0] } }
fn main() {
    let l = mk();
    l.push(3);
    let o = mko();
    o.a += 1;
    o.l.push(1);
    println(l, mk(), o.a, o.l, mko().l);
    let r = 0..3;
    for i in r { }
    for i in r { println(i); }
}
`}},
	{Name: "empty-literals-filled-in-place", Tree: true, Mods: map[string]string{"main": `fn tag(key: str) -> [str] {
    let o = new { ? };
    o.set(key, 1);
    o.keys()
}
fn fill(n: int) -> [int] {
    let l: [int] = [];
    l.push(n);
    l
}
fn main() {
    println(tag("a"), tag("b"), fill(1), fill(2));
    let box = new { inner: new { ? }, items: [""] };
    box.inner.set("x", 1);
    box.items.pop();
    box.items.push("y");
    println(box.inner.keys(), box.items);
}
`}},
}

func init() {
	register("C14", func() *Check {
		n := len(c14Progs)
		nsub := func(tier string) int {
			if tier == "thorough" {
				return 8
			}
			return 1
		}
		return &Check{ID: "C14", Scenarios: []Scenario{
			{Name: "map-iteration-orders", Count: func(tier string) int { return n * nsub(tier) }, Run: func(tier string, idx int, r *Result) {
				b := 1
				if tier == "thorough" {
					b = 2
				}
				k := nsub(tier)
				c14Explore(c14Progs[idx/k], "m", b, idx%k, k, r)
			}},
			{Name: "single-threaded-schedules", Count: func(string) int { return n }, Run: func(tier string, idx int, r *Result) {
				b := 2
				if tier == "thorough" {
					b = 3
				}
				c14Explore(c14Progs[idx], "s", b, 0, 1, r)
			}},
			{Name: "repeated-rounds-in-one-process", Count: func(string) int { return n }, Run: func(_ string, idx int, r *Result) { c14TwoRounds(c14Progs[idx], r) }},
			c14ReuseScenario(),
		}}
	})
}
