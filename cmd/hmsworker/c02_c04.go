package main

import (
	"fmt"
	"os"
	"strings"

	"hmsverif/internal/hs"
)

// c02Oracle: an accepted program never crashes, wedges or confuses the host - on either
// backend, including inputs whose result the language leaves open.
func c02Oracle(pc progCase, r *Result) {
	markVolatile(pc, r)
	a := Analyze(map[string]string{"main": pc.P.Text}, true)
	if a.Obs.Class == "HOST-PANIC" {
		r.Note("analyzer-panic(C05)", 1)
		return
	}
	if !a.Obs.Accepted() {
		r.Note("rejected-by-analyzer", 1)
		return
	}
	r.Sample(pc.P.Text)
	ov := RunVM(a, defaultOpts())
	r.Obs(ov)
	r.Outcome("vm:" + ov.Class)
	r.Distinct("vm|" + ov.Key())
	if cc := crashClass(ov); cc != "" {
		r.Fail(cc, append([]string{"backend:vm"}, pc.Tags...), pc.P.Text, ov.String())
	}
	if hasTag(pc.Tags, "vm-only") {
		return // trigger imports are not implemented by the interpreter's hosts
	}
	ot := RunTree(a, defaultOpts())
	r.Outcome("tree:" + ot.Class)
	r.Distinct("tree|" + ot.Key())
	r.Trans(4)
	if cc := crashClass(ot); cc != "" {
		r.Fail(cc, append([]string{"backend:tree"}, pc.Tags...), pc.P.Text, ot.String())
	}
}

// c04Oracle: interpreter and VM agree on output and outcome class.
func c04Oracle(pc progCase, r *Result) {
	markVolatile(pc, r)
	a := Analyze(map[string]string{"main": pc.P.Text}, true)
	if a.Obs.Class == "HOST-PANIC" || !a.Obs.Accepted() {
		r.Note("not-accepted", 1)
		return
	}
	if hasTag(pc.Tags, "vm-only") {
		r.Note("outside the language both backends implement (triggers)", 1)
		return
	}
	ov := RunVM(a, defaultOpts())
	ot := RunTree(a, defaultOpts())
	r.Obs(ov)
	r.Trans(4)
	if ref := hs.Eval(pc.Prog, &pc.P, refBudget); len(ref.Feat) > 0 {
		pc.Tags = append(append([]string{}, pc.Tags...), ref.Feat...)
	}
	if crashClass(ov) != "" || crashClass(ot) != "" {
		r.Note("crash-on-a-backend(C02)", 1)
		return
	}
	r.Sample(pc.P.Text)
	r.Outcome(ov.Class)
	r.Distinct(ov.Key())
	if ov.Class != ot.Class || ov.Kind != ot.Kind {
		r.Fail(fmt.Sprintf("BACKENDS-DIFFER:outcome vm=%s%s tree=%s%s", ov.Class, kindSuffix(ov.Kind), ot.Class, kindSuffix(ot.Kind)), pc.Tags, pc.P.Text, fmt.Sprintf("vm: %s\ntree: %s", ov.String(), ot.String()))
		return
	}
	if ov.Class == "uncaught" && ov.Msg != ot.Msg {
		r.Fail("BACKENDS-DIFFER:uncaught-message", pc.Tags, pc.P.Text, fmt.Sprintf("vm: %s\ntree: %s", ov.String(), ot.String()))
		return
	}
	if ov.Out != ot.Out {
		// the VM's documented right-to-left argument evaluation, identified precisely: the
		// interpreter equals the reference, the VM equals the reference run right to left
		ref := hs.Eval(pc.Prog, &pc.P, refBudget)
		if os.Getenv("C04_DEBUG") != "" {
			fmt.Fprintf(os.Stderr, "C04DBG unspec=%q class=%s kind=%s feat=%v out=%q\n", ref.Unspec, ref.Class, ref.Kind, ref.Feat, ref.Out)
		}
		if ref.Unspec == "" {
			if c1, _ := compareRef(ref, ot, false); c1 == "" {
				if refineArgOrder("OUTPUT", pc, ref, ov, false) != "OUTPUT" {
					r.Fail("BACKENDS-DIFFER:arg-order (VM evaluates call arguments right to left)", pc.Tags, pc.P.Text, fmt.Sprintf("vm: %s\ntree: %s", ov.String(), ot.String()))
					return
				}
			}
			// the same judged on outcome and output alone (a run that ends in a fatal error carries a
			// position as well, which is C08's business)
			if hasFeat(ref.Feat, "multi-arg-effects") && ref.Class == ot.Class && ref.Kind == ot.Kind && ref.Out == ot.Out {
				if alt := hs.EvalRTL(pc.Prog, &pc.P, refBudget); alt.Unspec == "" && alt.Class == ov.Class && alt.Kind == ov.Kind && alt.Out == ov.Out {
					r.Fail("BACKENDS-DIFFER:arg-order (VM evaluates call arguments right to left)", append(append([]string{}, pc.Tags...), ref.Feat...), pc.P.Text, fmt.Sprintf("vm: %s\ntree: %s", ov.String(), ot.String()))
					return
				}
			}
		}
		r.Fail("BACKENDS-DIFFER:output", pc.Tags, pc.P.Text, fmt.Sprintf("vm: %s\ntree: %s", ov.String(), ot.String()))
	}
}

func init() {
	register("C02", func() *Check {
		c := &Check{ID: "C02"}
		for _, f := range semanticFamilies {
			c.Scenarios = append(c.Scenarios, f.scenario(c02Oracle))
		}
		// every program of the limit family under every limit triple: crash/wedge oracle only
		c.Scenarios = append(c.Scenarios, Scenario{Name: "repository-programs", Count: func(string) int { return len(corpus()) }, Run: c02Repo})
		c.Scenarios = append(c.Scenarios, Scenario{Name: "dynamic-containers-whose-later-components-do-not-conform", Count: func(string) int { return c02HetCount() }, Run: func(_ string, idx int, r *Result) { c02HetRun(idx, r) }})
		c.Scenarios = append(c.Scenarios, Scenario{Name: "dynamic-options-into-typed-positions", Count: func(string) int { return c02DynCount() }, Run: func(_ string, idx int, r *Result) { c02DynRun(idx, r) }})
		c.Scenarios = append(c.Scenarios, Scenario{Name: "resource-limit-lattice", Count: func(string) int { return c09Count() }, Run: func(tier string, idx int, r *Result) {
			r.failFilter = func(class string) bool {
				return strings.HasPrefix(class, "HOST-PANIC") || strings.HasPrefix(class, "HANG") || strings.HasPrefix(class, "DEADLOCK") || strings.HasPrefix(class, "HARNESS")
			}
			c09Run(tier, idx, r)
			r.failFilter = nil
		}})
		// every builtin member and index operation at the boundary arguments of C18's alphabet
		// (including long non-ASCII strings): crash/wedge oracle only
		crashOnly := func(run func(string, int, *Result)) func(string, int, *Result) {
			return func(tier string, idx int, r *Result) {
				r.failFilter = func(class string) bool {
					return strings.HasPrefix(class, "HOST-PANIC") || strings.HasPrefix(class, "HANG") || strings.HasPrefix(class, "DEADLOCK") || strings.HasPrefix(class, "HARNESS")
				}
				run(tier, idx, r)
				r.failFilter = nil
			}
		}
		// every ACCEPTED program of C05's expressions-in-contexts product runs on both backends
		c.Scenarios = append(c.Scenarios, Scenario{Name: "accepted-expressions-in-contexts", Count: func(string) int { return c05CtxCount() }, Run: func(_ string, idx int, r *Result) {
			text, tags := c05CtxProgram(idx)
			a := Analyze(map[string]string{"main": text}, true)
			if a.Obs.Class == "HOST-PANIC" || !a.Obs.Accepted() {
				r.Note("not-accepted", 1)
				return
			}
			r.Sample(text)
			for _, be := range []string{"vm", "tree"} {
				var o Obs
				if be == "vm" {
					o = RunVM(a, defaultOpts())
					r.Obs(o)
				} else {
					o = RunTree(a, defaultOpts())
				}
				r.Trans(1)
				r.Outcome(be + ":" + o.Class)
				r.Distinct(be + "|" + o.Key())
				if cc := crashClass(o); cc != "" {
					if o.Class == "HANG" && o.Msg == "poll budget exceeded" {
						r.Note("ran-longer-than-the-poll-budget(no reference; e.g. `loop { continue; }`)", 1)
						continue
					}
					r.Fail(cc, append([]string{"backend:" + be, "expressions-in-contexts"}, tags...), text, o.String())
				}
			}
		}})
		nMembers := func(tier string) int { return len(c18Cases(tier)) }
		c.Scenarios = append(c.Scenarios,
			Scenario{Name: "builtin-members-direct", Count: nMembers, Run: crashOnly(c18Direct)},
			Scenario{Name: "builtin-members-in-programs", Count: func(tier string) int { return 2 * nMembers(tier) }, Run: crashOnly(c18Prog)})
		// last: in the thorough tier this domain may use up the remaining time budget
		c.Scenarios = append(c.Scenarios, freeScenario(func(text string, tags []string, a Analyzed, r *Result) {
			r.Sample(text)
			if hasTag(tags, "closure-capture") {
				r.Volatile()
			}
			for _, be := range []string{"vm", "tree"} {
				var o Obs
				if be == "vm" && hasTag(tags, "closure-capture") {
					// known finding (capturing closures on the VM): a captured variable resolves to another
					// slot; storing that into a container can build a cyclic value whose Display never ends
					r.Note("vm-run-skipped(closure-capture known finding)", 1)
					continue
				}
				if be == "vm" {
					o = RunVM(a, defaultOpts())
					r.Obs(o)
				} else {
					o = RunTree(a, defaultOpts())
				}
				r.Trans(1)
				r.Outcome(be + ":" + o.Class)
				r.Distinct(be + "|" + o.Key())
				if cc := crashClass(o); cc != "" {
					if o.Class == "HANG" && o.Msg == "poll budget exceeded" {
						// no reference run length exists in this domain: a loop over a huge range
						// (e.g. `(0 ** -1).to_range()`) is long, not wedged
						r.Note("ran-longer-than-the-poll-budget(no reference)", 1)
						continue
					}
					r.Fail(cc, append([]string{"backend:" + be}, tags...), text, o.String())
				}
			}
		}))
		return c
	})
	register("C04", func() *Check {
		c := &Check{ID: "C04"}
		for _, f := range semanticFamilies {
			c.Scenarios = append(c.Scenarios, f.scenario(c04Oracle))
		}
		for _, rt := range c12ProgRoutes {
			c.Scenarios = append(c.Scenarios, c04CastScenario(rt))
		}
		c.Scenarios = append(c.Scenarios, Scenario{Name: "repository-programs", Count: func(string) int { return len(corpus()) }, Run: c04Repo})
		c.Scenarios = append(c.Scenarios, Scenario{Name: "accepted-expressions-in-contexts", Count: func(string) int { return c05CtxCount() }, Run: func(_ string, idx int, r *Result) {
			text, tags := c05CtxProgram(idx)
			a := Analyze(map[string]string{"main": text}, true)
			if a.Obs.Class == "HOST-PANIC" || !a.Obs.Accepted() {
				r.Note("not-accepted", 1)
				return
			}
			ov := RunVM(a, defaultOpts())
			ot := RunTree(a, defaultOpts())
			r.Obs(ov)
			r.Trans(2)
			if crashClass(ov) != "" || crashClass(ot) != "" {
				r.Note("crash-on-a-backend(C02)", 1)
				return
			}
			r.Sample(text)
			r.Outcome(ov.Class)
			r.Distinct(ov.Key())
			tags = append([]string{"expressions-in-contexts"}, tags...)
			if ov.Class != ot.Class || ov.Kind != ot.Kind {
				r.Fail(fmt.Sprintf("BACKENDS-DIFFER:outcome vm=%s%s tree=%s%s", ov.Class, kindSuffix(ov.Kind), ot.Class, kindSuffix(ot.Kind)), tags, text, fmt.Sprintf("vm: %s\ntree: %s", ov.String(), ot.String()))
			} else if ov.Class == "uncaught" && ov.Msg != ot.Msg {
				r.Fail("BACKENDS-DIFFER:uncaught-message", tags, text, fmt.Sprintf("vm: %s\ntree: %s", ov.String(), ot.String()))
			} else if ov.Out != ot.Out {
				r.Fail("BACKENDS-DIFFER:output", tags, text, fmt.Sprintf("vm: %s\ntree: %s", ov.String(), ot.String()))
			}
		}})
		c.Scenarios = append(c.Scenarios, freeScenario(func(text string, tags []string, a Analyzed, r *Result) {
			if hasTag(tags, "closure-capture") {
				r.Note("skipped(closure-capture known finding)", 1)
				return
			}
			ov := RunVM(a, defaultOpts())
			ot := RunTree(a, defaultOpts())
			r.Obs(ov)
			r.Trans(2)
			if crashClass(ov) != "" || crashClass(ot) != "" {
				r.Note("crash-on-a-backend(C02)", 1)
				return
			}
			r.Sample(text)
			r.Outcome(ov.Class)
			r.Distinct(ov.Key())
			if ov.Class != ot.Class || ov.Kind != ot.Kind {
				r.Fail(fmt.Sprintf("BACKENDS-DIFFER:outcome vm=%s%s tree=%s%s", ov.Class, kindSuffix(ov.Kind), ot.Class, kindSuffix(ot.Kind)), tags, text, fmt.Sprintf("vm: %s\ntree: %s", ov.String(), ot.String()))
			} else if ov.Class == "uncaught" && ov.Msg != ot.Msg {
				r.Fail("BACKENDS-DIFFER:uncaught-message", tags, text, fmt.Sprintf("vm: %s\ntree: %s", ov.String(), ot.String()))
			} else if ov.Out != ot.Out {
				r.Fail("BACKENDS-DIFFER:output", tags, text, fmt.Sprintf("vm: %s\ntree: %s", ov.String(), ot.String()))
			}
		}))
		return c
	})
}

// repoProgram returns the idx-th program shipped with the repository (examples/, tests/) as
// module main, together with every other shipped file as an importable module.
func repoProgram(idx int) (mods map[string]string, name string, skip string) {
	c05InitCorpus()
	f := corpus()[idx]
	self := strings.TrimSuffix(f.Name[strings.LastIndex(f.Name, "/")+1:], ".hms")
	mods = map[string]string{}
	for k, v := range c05CorpusMods {
		if k != self && k != "main" {
			mods[k] = v
		}
	}
	mods["main"] = f.Text
	switch {
	case strings.Contains(f.Text, "time.now"):
		skip = "reads-the-clock"
	case strings.Contains(f.Text, "time.sleep") && strings.Contains(f.Text, "loop"):
		skip = "sleeps-in-a-loop"
	}
	return mods, f.Name, skip
}

// c04Repo: every shipped program behaves the same on both backends.
func c04Repo(_ string, idx int, r *Result) {
	mods, name, skip := repoProgram(idx)
	if skip != "" {
		r.Note("repository-program-skipped:"+skip, 1)
		return
	}
	a := Analyze(mods, true)
	if a.Obs.Class == "HOST-PANIC" || !a.Obs.Accepted() {
		r.Note("not-accepted", 1)
		return
	}
	text := mods["main"]
	tags := []string{"file:" + name}
	ov := RunVM(a, defaultOpts())
	ot := RunTree(a, defaultOpts())
	r.Obs(ov)
	r.Trans(2)
	if crashClass(ov) != "" || crashClass(ot) != "" {
		r.Note("crash-on-a-backend(C02)", 1)
		return
	}
	r.Sample(text)
	r.Outcome(ov.Class)
	r.Distinct(name + "|" + ov.Key())
	if ov.Class != ot.Class || ov.Kind != ot.Kind {
		r.Fail(fmt.Sprintf("BACKENDS-DIFFER:outcome vm=%s%s tree=%s%s", ov.Class, kindSuffix(ov.Kind), ot.Class, kindSuffix(ot.Kind)), tags, text, fmt.Sprintf("vm: %s\ntree: %s", ov.String(), ot.String()))
	} else if ov.Class == "uncaught" && ov.Msg != ot.Msg {
		r.Fail("BACKENDS-DIFFER:uncaught-message", tags, text, fmt.Sprintf("vm: %s\ntree: %s", ov.String(), ot.String()))
	} else if ov.Out != ot.Out {
		r.Fail("BACKENDS-DIFFER:output", tags, text, fmt.Sprintf("vm: %s\ntree: %s", ov.String(), ot.String()))
	}
}

// c02Repo: no shipped program crashes, hangs or deadlocks a backend.
func c02Repo(_ string, idx int, r *Result) {
	mods, name, skip := repoProgram(idx)
	if skip != "" {
		r.Note("repository-program-skipped:"+skip, 1)
		return
	}
	a := Analyze(mods, true)
	if a.Obs.Class == "HOST-PANIC" {
		r.Fail("HOST-PANIC:"+panicFunc(a.Obs.PanicSite)+":"+normMsg(a.Obs.Msg), []string{"stage:analyze", "file:" + name}, mods["main"], a.Obs.String())
		return
	}
	if !a.Obs.Accepted() {
		r.Note("not-accepted", 1)
		return
	}
	r.Sample(mods["main"])
	for _, b := range backendNames {
		o := runOn(b, a, r)
		r.Distinct(name + "|" + b + "|" + o.Class)
		r.Outcome(b + ":" + o.Class)
		if cc := crashClass(o); cc != "" && !strings.HasPrefix(cc, "HANG") {
			r.Fail(cc, []string{"backend:" + b, "file:" + name}, mods["main"], o.String())
		}
	}
}

func hasFeat(feats []string, f string) bool { return hasTag(feats, f) }

func hasTag(tags []string, t string) bool {
	for _, x := range tags {
		if x == t {
			return true
		}
	}
	return false
}
