package main

// C12 "The dynamic-to-static type boundary is sound".
//
// Space: the full product values x types of a bounded universe (see c12Universe), pushed
// through every route over the boundary:
//   direct      value.DeepCast of both value libraries, allowCasts in {false, true}
//   as / let    `hv as T` / `let y: T = hv;` where hv is a host global of static type any
//               holding the value (both backends)
//   lit-as/let  the same with the value spelled as a literal (`let x: any = <lit>;`)
//   json-as/let `"<json>".parse_json() as T` / `let y: T = "<json>".parse_json();`
//   spawn-arg   VM.SpawnSync argument validation (`fn f(x: T)`, host passes the value)
//   spawn-ret   VM.SpawnSync return validation (`fn f() -> S { <lit> }`, host claims T)
// Oracle: refcast (vmodel.go).

import (
	"context"
	"fmt"
	"regexp"
	"runtime/debug"
	"strconv"
	"strings"
	"unicode/utf8"

	"github.com/smarthome-go/homescript/v3/homescript/analyzer"
	"github.com/smarthome-go/homescript/v3/homescript/analyzer/ast"
	ivalue "github.com/smarthome-go/homescript/v3/homescript/interpreter/value"
	"github.com/smarthome-go/homescript/v3/homescript/runtime"
	"github.com/smarthome-go/homescript/v3/homescript/runtime/value"
	"github.com/smarthome-go/homescript/v3/homescript/vsched"
)

// ---------------------------------------------------------------- universe

type c12Space struct {
	vals  []*mval
	types []*mtype
}

var c12Cache = map[string]*c12Space{}

func dedupVals(in []*mval) []*mval {
	seen := map[string]bool{}
	var out []*mval
	for _, v := range in {
		k := v.String()
		if !seen[k] {
			seen[k] = true
			out = append(out, v)
		}
	}
	return out
}

// containersOver: lists of 0-2 elements, objects and any-objects with key sets {}, {a}, {b},
// {a,b}, all over the alphabet.
func containersOver(alpha []*mval) []*mval {
	out := []*mval{vL()}
	for _, x := range alpha {
		out = append(out, vL(x))
	}
	for _, x := range alpha {
		for _, y := range alpha {
			out = append(out, vL(x, y))
		}
	}
	for _, k := range []mk{mObj, mAnyObj} {
		out = append(out, vFields(k))
		for _, x := range alpha {
			out = append(out, vFields(k, "a", x))
		}
		for _, x := range alpha {
			out = append(out, vFields(k, "b", x))
		}
		for _, x := range alpha {
			for _, y := range alpha {
				out = append(out, vFields(k, "a", x, "b", y))
			}
		}
	}
	return out
}

func c12Universe(tier string) *c12Space {
	if s := c12Cache[tier]; s != nil {
		return s
	}
	var leaves, elems []*mval
	if tier == "thorough" {
		leaves = []*mval{vI(0), vI(-1), vF(1.5), vF(2.0), vB(true), vS("a"), vNull(), vNone()}
		elems = append(append([]*mval{}, leaves...),
			vL(), vL(vI(0)), vL(vS("a")), vL(vI(0), vS("a")), vL(vNone(), vI(1)), vL(vF(1.5)),
			vO(), vO("a", vI(0)), vO("a", vS("a")), vO("b", vI(0)), vO("a", vI(0), "b", vS("a")), vO("a", vB(true)),
			vAO(), vAO("a", vI(0)), vAO("a", vI(0), "b", vS("a")),
			vSome(vI(0)), vSome(vS("a")), vSome(vNone()), vSome(vF(2.0)))
	} else {
		leaves = []*mval{vI(0), vF(1.5), vB(true), vS("a"), vNull(), vNone()}
		elems = append(append([]*mval{}, leaves...),
			vL(), vL(vI(0)), vL(vI(0), vS("a")),
			vO("a", vI(0)), vO("a", vI(0), "b", vS("a")),
			vAO("a", vI(0)), vSome(vI(0)))
	}
	var v1 []*mval
	v1 = append(v1, leaves...)
	v1 = append(v1, containersOver(leaves)...)
	for _, l := range leaves {
		v1 = append(v1, vSome(l))
	}
	v1 = dedupVals(v1)
	var v2 []*mval
	v2 = append(v2, v1...)
	v2 = append(v2, containersOver(elems)...)
	for _, x := range v1 {
		if x.depth() >= 1 || x.K == mOpt {
			v2 = append(v2, vSome(x))
		}
	}
	v2 = dedupVals(v2)

	t0 := []*mtype{mtInt, mtFloat, mtBool, mtStr, mtNull, mtAny, mtAnyObj}
	var types []*mtype
	types = append(types, t0...)
	wrap := func(t *mtype) { types = append(types, mtList(t), mtOpt(t), mtObj("a", t)) }
	var t1 []*mtype // depth-1 types
	if tier == "thorough" {
		for _, t := range t0 {
			t1 = append(t1, mtList(t), mtOpt(t), mtObj("a", t))
		}
		for _, t := range t0 {
			for _, u := range t0 {
				t1 = append(t1, mtObj("a", t, "b", u))
			}
		}
		types = append(types, t1...)
		for _, t := range t1 {
			wrap(t)
			types = append(types, mtObj("a", t, "b", mtInt), mtObj("a", mtInt, "b", t))
		}
	} else {
		for _, t := range t0 {
			t1 = append(t1, mtList(t), mtOpt(t), mtObj("a", t))
		}
		ab := []*mtype{mtInt, mtStr, mtAny}
		for _, t := range ab {
			for _, u := range ab {
				t1 = append(t1, mtObj("a", t, "b", u))
			}
		}
		types = append(types, t1...)
		for _, t := range []*mtype{mtList(mtInt), mtList(mtStr), mtList(mtAny), mtOpt(mtInt), mtOpt(mtAny), mtObj("a", mtInt), mtObj("a", mtAny), mtObj("a", mtInt, "b", mtStr), mtList(mtAnyObj), mtOpt(mtFloat)} {
			wrap(t)
			types = append(types, mtObj("a", t, "b", mtInt))
		}
	}
	seen := map[string]bool{}
	var ts []*mtype
	for _, t := range types {
		if k := t.String(); !seen[k] {
			seen[k] = true
			ts = append(ts, t)
		}
	}
	s := &c12Space{vals: v2, types: ts}
	c12Cache[tier] = s
	return s
}

func (s *c12Space) count() int { return len(s.vals) * len(s.types) }
func (s *c12Space) pair(idx int) (*mval, *mtype) {
	d := radix(idx, len(s.types), len(s.vals))
	return s.vals[d[1]], s.types[d[0]]
}

// ---------------------------------------------------------------- expectation

type c12Expect struct {
	Must      string // admit | reject | may | open
	Val       *mval  // expected result when admitted (nil: unknown)
	Exact     bool   // the value already has the type
	RejClass  string // class of a wrong rejection
	Offenders []offender
	Why       string
}

func c12Expectation(v *mval, t *mtype, allow bool) c12Expect {
	e := refcast(v, t, allow)
	c := e
	if !allow {
		c = refcast(v, t, true)
	}
	switch {
	case conforms(v, t):
		return c12Expect{Must: "admit", Val: v, Exact: true, RejClass: "CAST:exact-rejected"}
	case e.Open != "" || c.Open != "":
		return c12Expect{Must: "open", Why: e.Open + c.Open}
	case e.OK && allow:
		return c12Expect{Must: "admit", Val: e.Val, RejClass: "CAST:convertible-rejected"}
	case e.OK:
		return c12Expect{Must: "may", Val: e.Val, Offenders: strictOffenders(v, t), Why: "structural-conversion-without-allowCasts"}
	case c.OK:
		return c12Expect{Must: "may", Val: c.Val, Offenders: append(append([]offender{}, e.Offenders...), strictOffenders(v, t)...), Why: "scalar-conversion-without-allowCasts"}
	}
	offs := e.Offenders
	if !allow {
		// without allowCasts an implementation may also stop at a component that would need a
		// structural conversion (the statement permits, but does not demand, those)
		offs = append(append([]offender{}, offs...), strictOffenders(v, t)...)
	}
	return c12Expect{Must: "reject", Offenders: offs}
}

var reAtPath = regexp.MustCompile("at `([^`]*)`")

// pathNamed: does the error message name one of the offending components?
func pathNamed(msg string, offs []offender) bool {
	if len(offs) == 0 {
		return true
	}
	got := ""
	if m := reAtPath.FindStringSubmatch(msg); m != nil {
		got = strings.ReplaceAll(m[1], "<option-inner>", "")
	}
	for _, o := range offs {
		if o.Path != got {
			continue
		}
		if o.Field == "" || strings.Contains(msg, "'"+o.Field+"'") {
			return true
		}
	}
	return false
}

func offString(offs []offender) string {
	var p []string
	for _, o := range offs {
		s := "`" + o.Path + "`"
		if o.Field != "" {
			s += " field '" + o.Field + "'"
		}
		p = append(p, s)
	}
	return strings.Join(p, " or ")
}

func kindTag(v *mval) string {
	return [...]string{"int", "float", "bool", "str", "null", "option", "list", "object", "any-object", "range"}[v.K]
}
func typeKindTag(t *mtype) string {
	return [...]string{"int", "float", "bool", "str", "null", "any", "any-object", "range", "list", "object", "option"}[t.K]
}

// castable: v fits t after the permitted conversions (open pairs count as fitting).
func castable(v *mval, t *mtype) bool {
	r := refcast(v, t, true)
	return r.OK || r.Open != ""
}

// pathShape abstracts an offender into the kinds of its path components.
func pathShape(offs []offender) string {
	if len(offs) == 0 {
		return "path:-"
	}
	o := offs[0]
	s := regexp.MustCompile(`\[[0-9]+\]`).ReplaceAllString(o.Path, "[i]")
	s = regexp.MustCompile(`\.[a-z]+`).ReplaceAllString(s, ".f")
	if o.Field != "" {
		s += "/field"
	}
	return "path:" + s
}

// firstMismatch describes the innermost (value kind -> type kind) pair at which v stops
// matching t; it is the tag that identifies a class of inputs for known-finding matching.
func firstMismatch(v *mval, t *mtype) string {
	switch {
	case t.K == tAny:
		return kindTag(v) + "->any"
	case t.K == mkOpt && v.K == mOpt && v.Inner != nil:
		return firstMismatch(v.Inner, t.Elem)
	case t.K == mkOpt && v.K == mOpt:
		return "none->option"
	case t.K == mkOpt:
		if refcast(v, t.Elem, true).OK {
			return kindTag(v) + "->option(wrap)"
		}
		return kindTag(v) + "->option(mismatch)"
	case t.K == mkList && v.K == mList:
		for pass := 0; pass < 2; pass++ {
			for _, e := range v.Elems {
				if (pass == 0 && !castable(e, t.Elem)) || (pass == 1 && !conforms(e, t.Elem)) {
					return firstMismatch(e, t.Elem)
				}
			}
		}
		return "list->list"
	case t.K == tObj && v.K == mObj:
		for _, k := range v.Keys {
			if t.fieldType(k) == nil {
				return "object:extra-field"
			}
		}
		if len(v.Keys) != len(t.FNames) {
			return "object:missing-field"
		}
		for pass := 0; pass < 2; pass++ {
			for i, k := range v.Keys {
				ft := t.fieldType(k)
				if (pass == 0 && !castable(v.Vals[i], ft)) || (pass == 1 && !conforms(v.Vals[i], ft)) {
					return firstMismatch(v.Vals[i], ft)
				}
			}
		}
		return "object->object"
	}
	return kindTag(v) + "->" + typeKindTag(t)
}

// c12Report emits the failures of one observation. The tag that identifies the class of
// inputs depends on the failure class: the mismatch shape for admission / result failures,
// the shape of the offender's path for message failures, nothing for "not catchable".
func c12Report(r *Result, fails [][2]string, base []string, v *mval, t *mtype, ex c12Expect, cas string) {
	for _, f := range fails {
		tags := append([]string{}, base...)
		switch {
		case f[0] == "CAST:error-path":
			// named:none - the message carries no path at all; named:wrong - it names another one
			named := "named:none"
			if i := strings.Index(f[1], "does not name"); i >= 0 && reAtPath.MatchString(f[1][:i]) {
				named = "named:wrong"
			}
			tags = append(tags, pathShape(ex.Offenders), named)
		case f[0] == "CAST:not-catchable":
		default:
			tags = append(tags, "shape:"+firstMismatch(v, t))
		}
		capFail(r, f[0], tags, cas, f[1])
	}
}

// ---------------------------------------------------------------- direct route

type directObs struct {
	Admitted bool
	Res      *mval
	ResErr   string
	Msg      string
	After    *mval  // the input read back after the call
	Alias    string // non-empty: two casts of one source at different list types share storage
}

func c12DirectVM(v *mval, t *mtype, allow bool) (o directObs, class string) {
	class, _ = guard("runtime/value.DeepCast", func() {
		in := toRV(v)
		res, cerr := value.DeepCast(*in, t.astType(), noSpan, allow)
		if cerr != nil {
			o.Msg = cerr.Message()
		} else if res == nil || *res == nil {
			o.Admitted, o.ResErr = true, "nil result without error"
		} else {
			o.Admitted = true
			m, err := fromRV(*res)
			if err != nil {
				o.ResErr = err.Error()
			}
			o.Res = m
		}
		o.After, _ = fromRV(*in)
		// two admitted casts of ONE source at different list types must not share storage:
		// otherwise a later push through one view breaks the other view's type
		if o.Admitted && res != nil && *res != nil && t.K == mkList && (t.Elem.K == tInt || t.Elem.K == tStr) {
			if rl, ok := (*res).(value.ValueList); ok {
				other, elem := mtList(mtStr), value.NewValueInt(99)
				if t.Elem.K == tStr {
					other, elem = mtList(mtInt), value.NewValueString("z")
				}
				if res2, e2 := value.DeepCast(*in, other.astType(), noSpan, allow); e2 == nil && res2 != nil && *res2 != nil {
					*rl.Values = append(*rl.Values, elem)
					if m2, err := fromRV(*res2); err == nil && !conforms(m2, other) {
						o.Alias = fmt.Sprintf("after pushing %s through the `%s` view, the `%s` view of the same source holds %s", showRV(*elem), t, other, m2)
					}
				}
			}
		}
	})
	return
}

func showRV(v value.Value) string { d, _ := v.Display(); return d }

func c12DirectTree(v *mval, t *mtype, allow bool) (o directObs, class string) {
	class, _ = guard("interpreter/value.DeepCast", func() {
		in := toIV(v)
		res, i := ivalue.DeepCast(*in, t.astType(), noSpan, allow)
		if i != nil {
			o.Msg = (*i).Message()
		} else if res == nil || *res == nil {
			o.Admitted, o.ResErr = true, "nil result without error"
		} else {
			o.Admitted = true
			m, err := fromIV(*res)
			if err != nil {
				o.ResErr = err.Error()
			}
			o.Res = m
		}
		o.After, _ = fromIV(*in)
		if o.Admitted && res != nil && *res != nil && t.K == mkList && (t.Elem.K == tInt || t.Elem.K == tStr) {
			if rl, ok := (*res).(ivalue.ValueList); ok {
				other, elem := mtList(mtStr), ivalue.NewValueInt(99)
				if t.Elem.K == tStr {
					other, elem = mtList(mtInt), ivalue.NewValueString("z")
				}
				if res2, e2 := ivalue.DeepCast(*in, other.astType(), noSpan, allow); e2 == nil && res2 != nil && *res2 != nil {
					*rl.Values = append(*rl.Values, elem)
					if m2, err := fromIV(*res2); err == nil && !conforms(m2, other) {
						o.Alias = fmt.Sprintf("after pushing an element through the `%s` view, the `%s` view of the same source holds %s", t, other, m2)
					}
				}
			}
		}
	})
	return
}

func c12Direct(tier string, idx int, r *Result) {
	v, t := c12Universe(tier).pair(idx)
	if idx == 0 {
		r.Sample(fmt.Sprintf("DeepCast(%s, %s)", v, t))
	}
	for _, lib := range []string{"vm", "tree"} {
		for _, allow := range []bool{false, true} {
			ex := c12Expectation(v, t, allow)
			var o directObs
			var pclass string
			if lib == "vm" {
				o, pclass = c12DirectVM(v, t, allow)
			} else {
				o, pclass = c12DirectTree(v, t, allow)
			}
			r.Trans(1)
			cas := fmt.Sprintf("%s/value.DeepCast(%s, `%s`, allowCasts=%v)", map[string]string{"vm": "runtime", "tree": "interpreter"}[lib], v, t, allow)
			tags := []string{"route:direct", "lib:" + lib, "allow:" + strconv.FormatBool(allow)}
			if pclass != "" {
				r.Outcome("panic")
				c12Report(r, [][2]string{{pclass, "Go panic inside DeepCast"}}, tags, v, t, ex, cas)
				continue
			}
			outcome := "rejected"
			if o.Admitted {
				outcome = "admitted"
			}
			r.Outcome(ex.Must + "/" + outcome)
			r.Distinct(fmt.Sprintf("%s|%v|%s|%s|%s|%s", lib, allow, firstMismatch(v, t), ex.Must, outcome, o.Res))
			fails := c12Judge(ex, t, v, o.Admitted, o.Res, o.ResErr, o.Msg, true)
			if o.After != nil && !mEqual(o.After, v) {
				fails = append(fails, [2]string{"CAST:input-mutated", fmt.Sprintf("input after the call: %s", o.After)})
			}
			if o.Alias != "" {
				fails = append(fails, [2]string{"CAST:views-share-storage", o.Alias})
			}
			c12Report(r, fails, tags, v, t, ex, cas)
			if ex.Must == "open" || ex.Must == "may" {
				r.Note("open:"+ex.Why+":"+outcome, 1)
			}
		}
	}
}

// c12Judge applies the admission / result / message oracle; res == nil && resErr == "" means
// that the route cannot show the result as a value (program routes pass the probe text
// separately).
func c12Judge(ex c12Expect, t *mtype, v *mval, admitted bool, res *mval, resErr, msg string, haveRes bool) (fails [][2]string) {
	add := func(class, detail string) { fails = append(fails, [2]string{class, detail}) }
	if admitted {
		if ex.Must == "reject" {
			add("CAST:admitted-nonconforming", fmt.Sprintf("value %s does not conform to `%s` (offending: %s) but was admitted as %s", v, t, offString(ex.Offenders), res))
		}
		if !haveRes {
			return
		}
		if resErr != "" {
			add("CAST:malformed-result", resErr)
			return
		}
		if !conforms(res, t) {
			if ex.Must != "reject" {
				add("CAST:result-not-conforming", fmt.Sprintf("admitted result %s does not conform to `%s`", res, t))
			}
			return
		}
		if ex.Exact && !mEqual(res, v) {
			add("CAST:result-changed", fmt.Sprintf("value %s already has type `%s` but came back as %s", v, t, res))
		} else if ex.Val != nil && !mEqual(res, ex.Val) {
			add("CAST:result-wrong", fmt.Sprintf("expected %s, got %s", ex.Val, res))
		}
		return
	}
	switch ex.Must {
	case "admit":
		add(ex.RejClass, fmt.Sprintf("expected %s to be admitted into `%s` as %s; rejected with %q", v, t, ex.Val, msg))
	case "reject", "may":
		if !pathNamed(msg, ex.Offenders) {
			add("CAST:error-path", fmt.Sprintf("message %q does not name the offending component %s", msg, offString(ex.Offenders)))
		}
	}
	return
}

// ---------------------------------------------------------------- typed probe

// probe returns statements that print the value of expression e (static type t) in a way
// that only works if the dynamic value really has type t, and the text those statements
// print for the model value ev. Expressions whose static type contains `any` cannot be
// used (the analyzer refuses implicit any), so such components are not looked into.
func probe(t *mtype, e string, d int) string {
	switch t.K {
	case tInt:
		return fmt.Sprintf(`print("i", %s + 0, ";"); `, e)
	case tFloat:
		return fmt.Sprintf(`print("f", %s + 0.5, ";"); `, e)
	case tBool:
		return fmt.Sprintf(`print("b", !%s, ";"); `, e)
	case tStr:
		return fmt.Sprintf(`print("s<" + %s + ">", %s.len(), ";"); `, e, e)
	case tNull:
		return `print("n;"); `
	case tAny:
		return `print("any;"); `
	case tAnyObj:
		return fmt.Sprintf(`print("ao", %s.keys(), %s.get("a").is_some(), %s.get("b").is_some(), ";"); `, e, e, e)
	case mkOpt:
		return fmt.Sprintf(`if %s.is_some() { print("S("); %sprint(")"); } else { print("N;"); } `, e, probe(t.Elem, e+".unwrap()", d))
	case mkList:
		if t.Elem.containsAny() {
			return fmt.Sprintf(`print("[", %s.len(), ":any]"); `, e)
		}
		v := fmt.Sprintf("v%d", d)
		return fmt.Sprintf(`print("[", %s.len(), ":"); for %s in %s { %s} print("]"); `, e, v, e, probe(t.Elem, v, d+1))
	case tObj:
		s := fmt.Sprintf(`print("{", %s.keys(), ":"); `, e)
		for i, n := range t.FNames {
			s += probe(t.FTypes[i], e+"."+n, d)
		}
		return s + `print("}"); `
	}
	return ""
}

func probeText(t *mtype, v *mval) string {
	if v == nil {
		return "<nil>"
	}
	keys := func(v *mval) string { return "[" + strings.Join(v.Keys, ", ") + "]" }
	switch t.K {
	case tInt:
		return fmt.Sprintf("i %d ;", v.I)
	case tFloat:
		return "f " + fmt.Sprint(v.F+0.5) + " ;"
	case tBool:
		return fmt.Sprintf("b %v ;", !v.B)
	case tStr:
		return fmt.Sprintf("s<%s> %d ;", v.S, utf8.RuneCountInString(v.S))
	case tNull:
		return "n;"
	case tAny:
		return "any;"
	case tAnyObj:
		return fmt.Sprintf("ao %s %v %v ;", keys(v), v.field("a") != nil, v.field("b") != nil)
	case mkOpt:
		if v.Inner == nil {
			return "N;"
		}
		return "S(" + probeText(t.Elem, v.Inner) + ")"
	case mkList:
		if t.Elem.containsAny() {
			return fmt.Sprintf("[ %d :any]", len(v.Elems))
		}
		s := fmt.Sprintf("[ %d :", len(v.Elems))
		for _, e := range v.Elems {
			s += probeText(t.Elem, e)
		}
		return s + "]"
	case tObj:
		s := "{ " + keys(v) + " :"
		for i, n := range t.FNames {
			s += probeText(t.FTypes[i], v.field(n))
		}
		return s + "}"
	}
	return ""
}

// ---------------------------------------------------------------- program routes

type c12Route struct {
	Name  string
	Src   string // host | lit | json
	Form  string // as | let
	Allow bool
}

var c12ProgRoutes = []c12Route{
	{"as", "host", "as", true},
	{"let", "host", "let", false},
	{"lit-as", "lit", "as", true},
	{"lit-let", "lit", "let", false},
	{"json-as", "json", "as", true},
	{"json-let", "json", "let", false},
	// the value is read back from an any-object member: the static type of the initialiser is
	// `?any` (an `any` hidden beneath an option), the annotation an option type
	{"get-let", "get", "let", false},
	{"get-as", "get", "as", true},
}

// jsonExact: v is exactly what the untyped JSON reader produces for its own JSON text
// (objects, lists, strings, bools, ints, non-integral floats, none for null).
func jsonExact(v *mval) bool {
	ok := true
	v.walk(func(x *mval) {
		switch x.K {
		case mNull, mAnyObj, mRange:
			ok = false
		case mFloat:
			if x.F == float64(int64(x.F)) {
				ok = false
			}
		case mOpt:
			if x.Inner != nil {
				ok = false
			}
		}
	})
	return ok
}

// c12Program builds the program text of one program route. ok=false: the route cannot carry
// this value.
func c12Program(rt c12Route, v *mval, t *mtype) (text string, ok bool, why string) {
	pre, src := "", "hv"
	switch rt.Src {
	case "get":
		if t.K != mkOpt {
			return "", false, "target-is-not-an-option"
		}
		if v.K == mOpt {
			return "", false, "option-inside-the-box"
		}
		lit, ok := srcLit(v)
		if !ok {
			return "", false, "no-literal"
		}
		if _, ok := staticType(v); !ok {
			return "", false, "heterogeneous-literal"
		}
		pre, src = "let box = new { ? };\n    box.set(\"f\", "+lit+");\n    ", "box.get(\"f\")"
	case "lit":
		lit, ok := srcLit(v)
		if !ok {
			return "", false, "no-literal"
		}
		if _, ok := staticType(v); !ok {
			return "", false, "heterogeneous-literal"
		}
		pre, src = "let x: any = "+lit+";\n    ", "x"
	case "json":
		if !jsonExact(v) {
			return "", false, "not-a-json-reader-output"
		}
		j, _ := jsonOf(v)
		src = srcStr(j) + ".parse_json()"
	}
	var bind string
	switch {
	case rt.Form == "let":
		bind = fmt.Sprintf("let y: %s = %s;", t, src)
	case t.containsAny():
		bind = fmt.Sprintf("let y: %s = %s as %s;", t, src, t)
	default:
		bind = fmt.Sprintf("let y = %s as %s;", src, t)
	}
	use := probe(t, "y", 1)
	text = fmt.Sprintf("fn main() {\n    %stry {\n        %s\n        print(\"ok \");\n        %s\n    } catch e {\n        print(\"err<\" + e.message + \">\");\n    }\n    println(\"|after\", 1 + 2);\n}\n", pre, bind, use)
	return text, true, ""
}

// c12RouteValue: the value that reaches the cast on this route (an any-object member read wraps
// it in an option).
func c12RouteValue(rt c12Route, v *mval) *mval {
	if rt.Src == "get" {
		return vSome(v)
	}
	return v
}

const c12Tail = "|after 3\n"

// c12JudgeProgram judges one backend observation of a program route.
func c12JudgeProgram(ex c12Expect, t *mtype, v *mval, o Obs, pathCapable bool) (fails [][2]string, outcome string) {
	add := func(class, detail string) { fails = append(fails, [2]string{class, detail}) }
	if cc := crashClass(o); cc != "" {
		if !strings.HasPrefix(o.Out, "ok ") {
			return [][2]string{{cc, o.String()}}, "crash"
		}
		// the cast admitted the value and the typed code that followed crashed the host
		// (the class keeps the HOST-PANIC prefix: on the plain build such a case kills the worker)
		if ex.Must == "reject" {
			add("HOST-PANIC(after admission):CAST:admitted-nonconforming", fmt.Sprintf("value %s does not conform to `%s` (offending: %s) but was admitted; the typed code using it then crashed the host: %s", v, t, offString(ex.Offenders), o.String()))
		} else {
			add("HOST-PANIC(after admission):CAST:admitted-value-wrong", fmt.Sprintf("the admitted value (expected %s) crashed the typed code using it: %s", ex.Val, o.String()))
		}
		return fails, "admitted-then-crash"
	}
	switch {
	case o.Class == "ok" && strings.HasPrefix(o.Out, "ok "):
		outcome = "admitted"
		body := strings.TrimPrefix(o.Out, "ok ")
		if !strings.HasSuffix(body, c12Tail) {
			add("CAST:continuation", "the program did not continue correctly after an admitted cast: "+o.String())
			return
		}
		body = strings.TrimSuffix(body, c12Tail)
		if ex.Must == "reject" {
			add("CAST:admitted-nonconforming", fmt.Sprintf("value %s does not conform to `%s` (offending: %s) but was admitted; probe printed %q", v, t, offString(ex.Offenders), body))
			return
		}
		if ex.Val != nil {
			if want := probeText(t, ex.Val); want != body {
				add("CAST:admitted-value-wrong", fmt.Sprintf("typed probe of the admitted value printed %q, expected %q (value %s)", body, want, ex.Val))
			}
		}
	case o.Class == "ok" && strings.HasPrefix(o.Out, "err<"):
		outcome = "rejected"
		if !strings.HasSuffix(o.Out, ">"+c12Tail) {
			add("CAST:continuation", "the program did not continue correctly after a caught cast error: "+o.String())
			return
		}
		msg := strings.TrimSuffix(strings.TrimPrefix(o.Out, "err<"), ">"+c12Tail)
		if ex.Must == "admit" {
			add(ex.RejClass, fmt.Sprintf("expected %s to be admitted into `%s` as %s; rejected with %q", v, t, ex.Val, msg))
		} else if (ex.Must == "reject" || ex.Must == "may") && !pathNamed(msg, ex.Offenders) {
			add("CAST:error-path", fmt.Sprintf("message %q does not name the offending component %s", msg, offString(ex.Offenders)))
		}
	case o.Class == "fatal" || o.Class == "uncaught":
		outcome = "rejected-uncatchable"
		if ex.Must == "admit" {
			add(ex.RejClass, fmt.Sprintf("expected %s to be admitted into `%s` as %s; %s", v, t, ex.Val, o.String()))
			return
		}
		if ex.Must == "reject" || ex.Must == "may" || ex.Must == "open" {
			add("CAST:not-catchable", "the rejection escaped try/catch: "+o.String())
		}
	default:
		outcome = "other"
		add("CAST:unexpected-outcome", o.String())
	}
	return
}

// Every program case runs on one backend only (the low bit of the index selects it): on the
// plain build a Go panic inside a VM core kills the worker process, so a case must not mix
// the two backends' failures if each failure is to be reproduced there.
var backendNames = []string{"tree", "vm"}

func runOn(backend string, a Analyzed, r *Result) Obs {
	if backend == "tree" {
		r.Trans(2)
		return RunTree(a, defaultOpts())
	}
	o := RunVM(a, defaultOpts())
	r.Obs(o)
	r.Trans(3)
	return o
}

func c12ProgScenario(rt c12Route) Scenario {
	return Scenario{
		Name:  "prog-" + rt.Name,
		Count: func(tier string) int { return 2 * c12Universe(tier).count() },
		Run: func(tier string, idx int, r *Result) {
			backend := backendNames[idx%2]
			v, t := c12Universe(tier).pair(idx / 2)
			text, ok, why := c12Program(rt, v, t)
			if !ok {
				r.Note("route-"+rt.Name+"-inapplicable:"+why, 1)
				return
			}
			cas := text
			if rt.Src == "host" {
				extraAnaScope = map[string]analyzer.Variable{"hv": analyzer.NewBuiltinVar(ast.NewAnyType(noSpan))}
				extraVmScope = map[string]value.Value{"hv": *toRV(v)}
				extraTreeScope = map[string]ivalue.Value{"hv": *toIV(v)}
				defer func() { extraAnaScope, extraVmScope, extraTreeScope = nil, nil, nil }()
				cas = fmt.Sprintf("// host global hv: any = %s\n%s", v, text)
			}
			r.Sample(cas)
			a := Analyze(map[string]string{"main": text}, true)
			if a.Obs.Class == "HOST-PANIC" {
				r.Note("analyzer-panic(C05)", 1)
				return
			}
			if !a.Obs.Accepted() {
				r.Note("rejected-by-analyzer:"+rt.Name, 1)
				return
			}
			ex := c12Expectation(c12RouteValue(rt, v), t, rt.Allow)
			o := runOn(backend, a, r)
			fails, out := c12JudgeProgram(ex, t, v, o, backend == "vm")
			c12Report(r, fails, []string{"backend:" + backend, "route:" + rt.Name}, v, t, ex, "// backend: "+backend+"\n"+cas)
			r.Outcome(ex.Must + "/" + backend + ":" + out)
			r.Distinct(rt.Name + "|" + backend + "|" + firstMismatch(v, t) + "|" + ex.Must + "|" + out + "|" + o.Out)
			if ex.Must == "open" || ex.Must == "may" {
				r.Note("open:"+ex.Why+":"+backend+"-"+out, 1)
			}
		},
	}
}

// ---------------------------------------------------------------- host boundary

// runInvoke compiles an accepted program and performs one host invocation through
// VM.SpawnSync. hostPanic is the message of a Go panic raised on the calling (host)
// goroutine by SpawnSync itself (argument / return validation refuse by panicking).
func runInvoke(a Analyzed, inv runtime.FunctionInvocation) (o Obs, ret value.Value, hostPanic string) {
	return runInvokeVia(a, inv, false)
}

// runInvokeVia: async selects VM.SpawnAsync + VM.Wait instead of VM.SpawnSync (both entry points
// validate and convert the host's arguments; an asynchronous call has no return value).
func runInvokeVia(a Analyzed, inv runtime.FunctionInvocation, async bool) (o Obs, ret value.Value, hostPanic string) {
	prog, pmsg, site := Compile(a)
	if pmsg != "" {
		o.Class, o.Msg, o.PanicSite = "HOST-PANIC", pmsg, site
		return
	}
	opts := defaultOpts()
	rc := &rec{}
	ctx := newPollCtx(opts.PollBudget)
	body := func() {
		var cctx context.Context = ctx
		var cancel context.CancelFunc = func() { ctx.cancelNow(context.Canceled) }
		vm := runtime.NewVM(prog, vmExec{rc}, &cctx, &cancel, vmScope(), opts.Limits)
		defer func() {
			if rv := recover(); rv != nil {
				hostPanic = fmt.Sprint(rv)
				o.PanicSite = vsched.RepoFrames(string(debug.Stack()))
			}
		}()
		if async {
			vm.SpawnAsync(inv, nil, nil, nil)
			_, i := vm.Wait()
			classifyVM(&o, i, ctx)
			return
		}
		res := vm.SpawnSync(inv, nil, nil)
		if res.Exception != nil {
			i := res.Exception.Interrupt
			classifyVM(&o, &i, ctx)
		} else {
			o.Class = "ok"
			ret = res.ReturnValue
		}
	}
	if controlled {
		x := vsched.Run(opts.Horizon, body)
		if len(x.Panics) > 0 {
			o.Class = "HOST-PANIC"
			o.Msg, o.PanicSite = splitPanic(x.Panics[0])
		} else if x.Outcome == "deadlock" {
			o.Class, o.Msg = "DEADLOCK", strings.Join(x.Blocked, ",")
		} else if x.Outcome == "livelock" || x.Outcome == "horizon" {
			o.Class, o.Msg = "HANG", x.Outcome+" "+strings.Join(x.Blocked, ",")
		}
	} else {
		body()
	}
	o.Out = rc.out.String()
	return
}

func isRefusal(p string) bool {
	return strings.Contains(p, "type mismatch") || strings.Contains(p, "return type assertion failed")
}

func c12SpawnArg(tier string, idx int, r *Result)      { c12SpawnArgVia(tier, idx, false, r) }
func c12SpawnArgAsync(tier string, idx int, r *Result) { c12SpawnArgVia(tier, idx, true, r) }

func c12SpawnArgVia(tier string, idx int, async bool, r *Result) {
	v, t := c12Universe(tier).pair(idx)
	text := fmt.Sprintf("fn f(x: %s) {\n    print(\"ok \");\n    %s\n    println(\"|after\", 1 + 2);\n}\nfn main() {}\n", t, probe(t, "x", 1))
	entry, route := "SpawnSync", "spawn-arg"
	if async {
		entry, route = "SpawnAsync", "spawn-arg-async"
	}
	cas := fmt.Sprintf("// host: vm.%s(f, args=[%s], signature (x: %s) -> null)\n%s", entry, v, t, text)
	r.Sample(cas)
	a := Analyze(map[string]string{"main": text}, true)
	if a.Obs.Class == "HOST-PANIC" || !a.Obs.Accepted() {
		r.Note("rejected-by-analyzer:spawn-arg", 1)
		return
	}
	ex := c12Expectation(v, t, false)
	tags := []string{"route:" + route, "backend:vm"}
	inv := runtime.FunctionInvocation{Function: "f", Args: []value.Value{*toRV(v)}, FunctionSignature: runtime.FunctionInvocationSignature{
		Params:     []runtime.FunctionInvocationSignatureParam{{Ident: "x", Type: t.astType()}},
		ReturnType: ast.NewNullType(noSpan),
	}}
	o, _, hp := runInvokeVia(a, inv, async)
	r.Obs(o)
	r.Trans(3)
	outcome := c12HostOutcome(ex, t, v, o, hp, tags, cas, r, func() [][2]string {
		body := strings.TrimPrefix(o.Out, "ok ")
		if !strings.HasSuffix(body, c12Tail) {
			return [][2]string{{"CAST:admitted-value-wrong", fmt.Sprintf("the function did not run to its end on the admitted argument: %s", o.String())}}
		}
		body = strings.TrimSuffix(body, c12Tail)
		if ex.Val != nil {
			if want := probeText(t, ex.Val); want != body {
				return [][2]string{{"CAST:admitted-value-wrong", fmt.Sprintf("typed probe of the admitted argument printed %q, expected %q (value %s)", body, want, ex.Val)}}
			}
		}
		return nil
	})
	r.Outcome(ex.Must + "/" + outcome)
	r.Distinct(route + "|" + firstMismatch(v, t) + "|" + ex.Must + "|" + outcome + "|" + o.Out)
}

// c12HostOutcome is the shared part of the two host-boundary routes.
func c12HostOutcome(ex c12Expect, t *mtype, v *mval, o Obs, hp string, tags []string, cas string, r *Result, admittedCheck func() [][2]string) (outcome string) {
	var fails [][2]string
	add := func(class, detail string) { fails = append(fails, [2]string{class, detail}) }
	defer func() {
		c12Report(r, fails, tags, v, t, ex, cas)
		if ex.Must == "open" || ex.Must == "may" {
			r.Note("open:"+ex.Why+":"+outcome, 1)
		}
	}()
	admittedThenCrash := crashClass(o) != "" && strings.HasPrefix(o.Out, "ok ")
	if cc := crashClass(o); cc != "" && !admittedThenCrash {
		add(cc, o.String())
		return "crash"
	}
	if hp != "" {
		if !isRefusal(hp) {
			add("HOST-PANIC:"+panicFunc(o.PanicSite)+":"+normMsg(hp), hp)
			return "crash"
		}
		r.Note("host-boundary-refusal-is-a-go-panic-on-the-calling-goroutine", 1)
		if i := strings.Index(hp, "mismatch: "); i >= 0 {
			hp = hp[i:]
		}
		if ex.Must == "admit" {
			add(ex.RejClass, fmt.Sprintf("expected %s to be admitted as `%s`; refused: %s", v, t, firstN(hp, 300)))
		} else if (ex.Must == "reject" || ex.Must == "may") && !pathNamed(hp, ex.Offenders) {
			add("CAST:error-path", fmt.Sprintf("refusal %q does not name the offending component %s", firstN(hp, 300), offString(ex.Offenders)))
		}
		return "refused"
	}
	if o.Class != "ok" || admittedThenCrash {
		pre := ""
		if admittedThenCrash {
			pre = "HOST-PANIC(after admission):"
		}
		if ex.Must == "reject" {
			add(pre+"CAST:admitted-nonconforming", fmt.Sprintf("value %s does not conform to `%s` (offending: %s) but the call was performed and ended with %s", v, t, offString(ex.Offenders), o.String()))
		} else {
			add(pre+"CAST:admitted-value-wrong", fmt.Sprintf("the call was admitted (expected value %s) but ended abnormally: %s", ex.Val, o.String()))
		}
		return "admitted-then-" + o.Class
	}
	if ex.Must == "reject" {
		add("CAST:admitted-nonconforming", fmt.Sprintf("value %s does not conform to `%s` (offending: %s) but the call was performed: %s", v, t, offString(ex.Offenders), o.String()))
		return "admitted"
	}
	fails = append(fails, admittedCheck()...)
	return "admitted"
}

func c12SpawnRet(tier string, idx int, r *Result) {
	v, t := c12Universe(tier).pair(idx)
	lit, ok := srcLit(v)
	st, ok2 := staticType(v)
	if !ok || !ok2 || st.hasWildcard() || v.K == mNull {
		r.Note("route-spawn-ret-inapplicable:no-typed-literal", 1)
		return
	}
	if t.K == tNull {
		// the host declares that it takes no value from the call: nothing crosses the boundary
		r.Note("route-spawn-ret-inapplicable:host-expects-no-value", 1)
		return
	}
	text := fmt.Sprintf("fn f() -> %s {\n    %s\n}\nfn main() {}\n", st, lit)
	cas := fmt.Sprintf("// host: vm.SpawnSync(f, signature () -> %s)\n%s", t, text)
	r.Sample(cas)
	a := Analyze(map[string]string{"main": text}, true)
	if a.Obs.Class == "HOST-PANIC" || !a.Obs.Accepted() {
		r.Note("rejected-by-analyzer:spawn-ret", 1)
		return
	}
	ex := c12Expectation(v, t, false)
	tags := []string{"route:spawn-ret", "backend:vm"}
	inv := runtime.FunctionInvocation{Function: "f", Args: []value.Value{}, FunctionSignature: runtime.FunctionInvocationSignature{
		Params: []runtime.FunctionInvocationSignatureParam{}, ReturnType: t.astType(),
	}}
	o, ret, hp := runInvoke(a, inv)
	r.Obs(o)
	r.Trans(3)
	outcome := c12HostOutcome(ex, t, v, o, hp, tags, cas, r, func() [][2]string {
		if t.K == tNull {
			return nil // a null return type carries no value
		}
		if ret == nil {
			return [][2]string{{"CAST:malformed-result", "SpawnSync returned a nil ReturnValue for an admitted return value"}}
		}
		m, err := fromRV(ret)
		resErr := ""
		if err != nil {
			resErr = err.Error()
		}
		return c12Judge(ex, t, v, true, m, resErr, "", true)
	})
	r.Outcome(ex.Must + "/" + outcome)
	r.Distinct("spawn-ret|" + firstMismatch(v, t) + "|" + ex.Must + "|" + outcome)
}

func init() {
	register("C12", func() *Check {
		c := &Check{ID: "C12"}
		cnt := func(tier string) int { return c12Universe(tier).count() }
		c.Scenarios = append(c.Scenarios, Scenario{Name: "deepcast-direct", Count: cnt, Run: c12Direct})
		c.Scenarios = append(c.Scenarios, Scenario{Name: "cast-errors-caught-mid-expression", Count: func(string) int { return c12MidCount() }, Run: c12MidRun})
		for _, rt := range c12ProgRoutes {
			c.Scenarios = append(c.Scenarios, c12ProgScenario(rt))
		}
		c.Scenarios = append(c.Scenarios,
			Scenario{Name: "admissions-after-mutation", Count: func(string) int { return c12SeqCount() }, Run: func(_ string, idx int, r *Result) { c12SeqRun(idx, r) }},
			Scenario{Name: "spawn-arg", Count: cnt, Run: c12SpawnArg},
			Scenario{Name: "spawn-arg-async", Count: cnt, Run: c12SpawnArgAsync},
			Scenario{Name: "spawn-ret", Count: cnt, Run: c12SpawnRet})
		return c
	})
}
