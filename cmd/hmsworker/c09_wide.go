package main

import (
	"fmt"

	"hmsverif/internal/hs"

	"github.com/smarthome-go/homescript/v3/homescript/runtime"
)

// C09, wide frames: functions with hundreds of locals under memory limits around and far above
// their need (frames larger than any fixed initial allocation). Never a host panic; a run that
// completes prints the reference output; a run is stopped only with the memory interrupt and
// only if the limit is not clearly above the need.

var (
	c09WideLocals = []int{60, 130, 300, 700}
	c09WideDepths = []int{0, 1, 3}
	c09WideMem    = []uint{64, 256, 300, 512, 600, 1024, 2048, 4000, 20000, 100000}
)

func c09WideCount() int { return len(c09WideLocals) * len(c09WideDepths) }

func c09WideRun(idx int, r *Result) {
	d := radix(idx, len(c09WideDepths), len(c09WideLocals))
	depth, v := c09WideDepths[d[0]], c09WideLocals[d[1]]
	pc := mkCase(c09Program(depth, 1, v, "plain", 3))
	tags := []string{"shape:wide-frame", fmt.Sprintf("d:%d", depth), fmt.Sprintf("v:%d", v)}
	a := Analyze(map[string]string{"main": pc.P.Text}, true)
	if !a.Obs.Accepted() || a.Obs.Class == "HOST-PANIC" {
		r.Fail("HARNESS:program rejected", tags, pc.P.Text, a.Obs.String())
		return
	}
	ref := hs.Eval(pc.Prog, &pc.P, 5000000)
	if ref.Unspec != "" || ref.Class != "ok" {
		r.Fail("HARNESS:reference cannot evaluate", tags, pc.P.Text, ref.Unspec+" "+ref.Class)
		return
	}
	r.Sample(fmt.Sprintf("// recursion depth %d, %d locals per frame, memory limits %v\n%s", depth, v, c09WideMem, firstN(pc.P.Text, 600)))
	// cells needed: two per local (value and binding) in each of depth+1 frames of rec, plus main
	need := uint(2*(v+2)*(depth+2) + 16)
	for _, m := range c09WideMem {
		opts := defaultOpts()
		opts.Limits = runtime.CoreLimits{CallStackMaxSize: 100, StackMaxSize: 500, MaxMemorySize: m}
		opts.PollBudget = 400000
		opts.Horizon = 40000000 // the step cap of the controlled run has to leave room for the long thorough programs
		o := RunVM(a, opts)
		r.Trans(1)
		r.Outcome("vm:" + o.Class + kindSuffix(o.Kind))
		r.Distinct(fmt.Sprintf("wide|%d|%d|%d|%s%s", depth, v, m, o.Class, o.Kind))
		cas := fmt.Sprintf("%s// limits: call=100 stack=500 mem=%d", pc.P.Text, m)
		ltags := append(append([]string{}, tags...), fmt.Sprintf("mem:%d", m))
		if cc := crashClass(o); cc != "" {
			r.Fail(cc, ltags, cas, o.String())
			continue
		}
		switch {
		case o.Class == "ok":
			if o.Out != ref.Out {
				r.Fail("OUTPUT:completed under limits with wrong output", ltags, cas, fmt.Sprintf("expected %q got %q", ref.Out, o.Out))
			}
		case o.Class == "fatal" && o.Kind == "OutOfMemory":
			if m >= need {
				r.Fail("STOPPED-WITHIN-LIMITS:memory limit clearly above the need", ltags, cas, fmt.Sprintf("about %d cells needed, limit %d: %s", need, m, o.String()))
			}
		default:
			r.Fail("OUTCOME:unexpected outcome under limits "+o.Class+kindSuffix(o.Kind), ltags, cas, o.String())
		}
	}
}
