package main

// Single-fault mutators of C03. collectSites walks a well-typed program (with the types
// reftype assigned) and lists, for every rule and every syntactic position where the rule
// can be broken, one in-place edit that breaks exactly that rule there. The edit is applied
// to a freshly generated copy of the base program, so nothing has to be undone.

import (
	"sort"
	"strings"

	"hmsverif/internal/hs"
	"hmsverif/internal/reftype"
)

type mutSite struct {
	rule  string   // the rule the edit is meant to break
	mut   string   // mutator name
	tags  []string // identify the mutated construct (known-finding matching)
	info  []string // further detail, printed with the case
	apply func()
}

// ---------------------------------------------------------------- literal palette

type palEntry struct {
	name string
	t    *hs.Type
	mk   func() hs.Expr
}

var c03Palette = []palEntry{
	{"int", hs.TInt, func() hs.Expr { return hs.I(7) }},
	{"float", hs.TFloat, func() hs.Expr { return hs.F(2.5) }},
	{"bool", hs.TBool, func() hs.Expr { return hs.B(true) }},
	{"str", hs.TStr, func() hs.Expr { return hs.S("s") }},
	{"list", hs.TList(hs.TInt), func() hs.Expr { return hs.List(hs.I(1)) }},
	{"object", hs.TObj(hs.Field{Name: "k", T: hs.TInt}), func() hs.Expr { return &hs.ObjLit{Fields: []hs.ObjField{{Name: "k", X: hs.I(1)}}} }},
	{"option", hs.TOpt(hs.TInt), func() hs.Expr { return hs.Un("?", hs.I(1)) }},
	{"range", hs.TRange, func() hs.Expr { return &hs.RangeLit{From: hs.I(0), To: hs.I(2)} }},
}

func kindName(t *hs.Type) string {
	switch t.K {
	case hs.KInt:
		return "int"
	case hs.KFloat:
		return "float"
	case hs.KBool:
		return "bool"
	case hs.KStr:
		return "str"
	case hs.KNull:
		return "null"
	case hs.KRange:
		return "range"
	case hs.KList:
		return "list"
	case hs.KObj:
		return "object"
	case hs.KAnyObj:
		return "any-object"
	case hs.KOpt:
		return "option"
	case hs.KFn:
		return "function"
	case hs.KAny:
		return "any"
	case hs.KNever:
		return "never"
	}
	return "unknown"
}

var allAssignOps = []string{"+=", "-=", "*=", "/=", "%=", "**=", "<<=", ">>=", "|=", "&=", "^="}

// ---------------------------------------------------------------- traversal context

// fctx is the context of one function or closure body.
type fctx struct {
	fn           *hs.Func // enclosing top-level function (nil: global initialiser)
	closure      int      // closure nesting depth (0: body of fn itself)
	ret          *hs.Type // declared return type of this function/closure (resolved)
	afterClosure bool     // a closure literal has ended earlier in this body
	loops        int      // loops of this very function around the current point
	parent       *fctx
}

type siteCollector struct {
	cs    *c03Case
	res   *reftype.Result
	mod   string
	prog  *hs.Program
	sites []mutSite
}

func (sc *siteCollector) posTags(cx *fctx) []string {
	var t []string
	if cx == nil || (cx.fn == nil && cx.closure == 0) {
		return []string{"pos:global"}
	}
	if cx.closure > 0 {
		t = append(t, "pos:in-closure")
	}
	if cx.afterClosure {
		t = append(t, "pos:after-closure")
	}
	if cx.loops > 0 {
		t = append(t, "pos:in-loop")
	}
	for p := cx.parent; p != nil; p = p.parent {
		if p.loops > 0 {
			t = append(t, "pos:closure-in-loop")
			break
		}
	}
	if len(t) == 0 {
		t = append(t, "pos:plain")
	}
	return t
}

// add records one mutation. Tags that identify the mutated construct (position, operator of
// an operator mutation, statement kind, where a type is written) stay tags of the case;
// the remaining detail (which type was swapped in, arity ...) only goes into the case text,
// so that one root cause does not fan out into hundreds of failure groups.
func (sc *siteCollector) add(rule, mut string, cx *fctx, tags []string, apply func()) {
	all := append([]string{}, sc.posTags(cx)...)
	var info []string
	for _, t := range tags {
		keep := false
		switch {
		case strings.HasPrefix(t, "stmt:"), strings.HasPrefix(t, "loop:"), strings.HasPrefix(t, "in:"), strings.HasPrefix(t, "of:"), strings.HasPrefix(t, "import:"):
			keep = true
		case strings.HasPrefix(t, "op:"), strings.HasPrefix(t, "type:"):
			keep = mut == "compound-operator" || mut == "operator-on-type"
		case strings.HasPrefix(t, "callee:"):
			keep = t == "callee:spawn" || t == "callee:throw"
		}
		if keep {
			all = append(all, t)
		} else {
			info = append(info, t)
		}
	}
	if sc.mod != "main" {
		all = append(all, "module:"+sc.mod)
	}
	sc.sites = append(sc.sites, mutSite{rule: rule, mut: mut, tags: all, info: info, apply: apply})
}

func (sc *siteCollector) typeOf(e hs.Expr) *hs.Type {
	if t := sc.res.Types[e]; t != nil {
		return t
	}
	return reftype.TUnknown
}

// collectSites lists every single-fault mutation of the (well-typed) case.
func collectSites(cs *c03Case, res *reftype.Result) []mutSite {
	var out []mutSite
	for _, mod := range cs.modNames() {
		sc := &siteCollector{cs: cs, res: res, mod: mod, prog: cs.Mods[mod]}
		sc.program()
		out = append(out, sc.sites...)
	}
	return out
}

func plainType(t *hs.Type) bool {
	// can this (resolved) type be written down as an annotation?
	switch t.K {
	case hs.KAny, hs.KNever, reftype.KUnknown:
		return false
	case hs.KList, hs.KOpt:
		return plainType(t.Elem)
	case hs.KObj:
		for _, f := range t.Fields {
			if !plainType(f.T) {
				return false
			}
		}
	case hs.KFn:
		if t.Singles > 0 || t.Name != "" {
			return false
		}
		for _, p := range t.Params {
			if !plainType(p.T) {
				return false
			}
		}
		return t.Ret == nil || plainType(t.Ret)
	}
	return true
}

// ---------------------------------------------------------------- program level

func (sc *siteCollector) program() {
	p := sc.prog
	isMain := sc.mod == "main"

	// imports
	for i := range p.Imports {
		im := &p.Imports[i]
		sc.add(reftype.RImport, "import-unknown-module", nil, nil, func() { im.From = "zz_nomod" })
		for j := range im.Names {
			j := j
			kind, _ := splitImportName(im.Names[j])
			sc.add(reftype.RImport, "import-unknown-name", nil, []string{"import:" + kindOr(kind, "value")}, func() {
				if kind != "" {
					im.Names[j] = kind + " zz_missing"
				} else {
					im.Names[j] = "zz_missing"
				}
			})
			if kind != "trigger" { // (the parser takes `trigger` only in front of the first name)
				sc.add(reftype.RDup, "import-duplicate-name", nil, []string{"import:" + kindOr(kind, "value")}, func() { im.Names = append(im.Names, im.Names[j]) })
			}
			if lib := sc.cs.Mods[im.From]; lib != nil {
				_, name := splitImportName(im.Names[j])
				switch kind {
				case "":
					for _, f := range lib.Funcs {
						if f.Name == name && f.Pub {
							f := f
							sc.add(reftype.RImport, "import-private-function", nil, nil, func() { f.Pub = false })
						}
					}
					for _, g := range lib.Globals {
						if g.Name == name && g.Pub {
							g := g
							sc.add(reftype.RImport, "import-private-global", nil, nil, func() { g.Pub = false })
						}
					}
				case "type":
					for _, td := range lib.Types {
						if td.Name == name && td.Pub {
							td := td
							sc.add(reftype.RImport, "import-private-type", nil, nil, func() { td.Pub = false })
						}
					}
				}
			}
		}
	}

	// top-level types
	for i, td := range p.Types {
		i, td := i, td
		sc.add(reftype.RDup, "duplicate-type", nil, nil, func() {
			cp := *td
			p.Types = append(p.Types[:i+1], append([]*hs.TypeDef{&cp}, p.Types[i+1:]...)...)
		})
		sc.writtenType(&td.T, nil, "typedef")
	}

	// singletons
	for i := range p.Singletons {
		i := i
		sc.add(reftype.RDup, "duplicate-singleton", nil, nil, func() { p.Singletons = append(p.Singletons, p.Singletons[i]) })
	}

	// globals
	for i, g := range p.Globals {
		i, g := i, g
		cx := &fctx{}
		sc.add(reftype.RDup, "duplicate-global", nil, nil, func() {
			cp := *g
			p.Globals = append(p.Globals[:i+1], append([]*hs.Let{&cp}, p.Globals[i+1:]...)...)
		})
		xt := sc.typeOf(g.X)
		// non-constant initialisers
		if plainType(xt) && xt.K != hs.KNull {
			sc.add(reftype.RGlobalConst, "global-init-call", nil, []string{"type:" + kindName(xt)}, func() {
				p.Funcs = append(p.Funcs, hs.Fn("zz_init", xt, hs.Blk(g.X)))
				g.X = hs.CallN("zz_init")
			})
			if xt.K != hs.KFn {
				sc.add(reftype.RGlobalConst, "global-init-block", nil, []string{"type:" + kindName(xt)}, func() {
					g.X = &hs.BlockExpr{B: hs.Blk(hs.V("zz_t"), hs.LetS("zz_t", g.X))}
				})
				// one part of a composite initialiser is not constant, the rest is
				part := func(name string, wrap func(konst, call hs.Expr) hs.Expr) {
					sc.add(reftype.RGlobalConst, "global-init-part:"+name, nil, []string{"type:" + kindName(xt)}, func() {
						p.Funcs = append(p.Funcs, hs.Fn("zz_init", xt, hs.Blk(g.X)))
						p.Globals = append(p.Globals, &hs.Let{Name: "zz_part", X: wrap(g.X, hs.CallN("zz_init"))})
					})
				}
				part("list-last", func(k, c hs.Expr) hs.Expr { return hs.List(k, c) })
				part("list-first", func(k, c hs.Expr) hs.Expr { return hs.List(c, k) })
				part("object-field", func(k, c hs.Expr) hs.Expr {
					return &hs.ObjLit{Fields: []hs.ObjField{{Name: "a", X: k}, {Name: "b", X: c}}}
				})
				part("equality-right", func(k, c hs.Expr) hs.Expr { return hs.Bin("==", k, c) })
				part("equality-left", func(k, c hs.Expr) hs.Expr { return hs.Bin("==", c, k) })
				part("nested-list", func(k, c hs.Expr) hs.Expr { return hs.List(hs.List(k), hs.List(c)) })
				part("option", func(k, c hs.Expr) hs.Expr { return hs.Un("?", &hs.Group{X: hs.Bin("==", c, k)}) })
				if xt.K == hs.KInt || xt.K == hs.KFloat {
					part("sum-right", func(k, c hs.Expr) hs.Expr { return hs.Bin("+", k, c) })
					part("sum-left", func(k, c hs.Expr) hs.Expr { return hs.Bin("+", c, k) })
					part("product-in-sum", func(k, c hs.Expr) hs.Expr { return hs.Bin("+", k, hs.Bin("*", k, c)) })
					part("negation", func(k, c hs.Expr) hs.Expr { return hs.Un("-", c) })
					part("range-end", func(k, c hs.Expr) hs.Expr {
						return &hs.RangeLit{From: hs.I(0), To: &hs.Cast{X: c, T: hs.TInt}}
					})
				}
			}
		}
		for j := 0; j < i; j++ {
			prev := p.Globals[j]
			if vt := sc.res.VarTypes[prev]; vt != nil && reftype.Equal(vt, sc.res.VarTypes[g]) && vt.K != reftype.KUnknown {
				sc.add(reftype.RGlobalConst, "global-init-other-global", nil, []string{"type:" + kindName(xt)}, func() { g.X = hs.V(prev.Name) })
				break
			}
		}
		if g.T == nil {
			sc.add(reftype.RGlobalConst, "global-init-function-name", nil, nil, func() { g.X = hs.V(p.Funcs[0].Name) })
			sc.add(reftype.RGlobalConst, "global-init-closure", nil, nil, func() {
				g.X = &hs.FnLit{Ret: hs.TInt, Body: hs.Blk(hs.I(1))}
			})
		}
		sc.let(g, cx, true)
	}

	// functions
	for i, f := range p.Funcs {
		i, f := i, f
		sc.add(reftype.RDup, "duplicate-function", nil, nil, func() {
			cp := *f
			p.Funcs = append(p.Funcs[:i+1], append([]*hs.Func{&cp}, p.Funcs[i+1:]...)...)
		})
		sc.function(f, "fn")
		if f.Name == "main" && isMain && !sc.cs.NoMain {
			sc.add(reftype.RMain, "main-dropped", nil, nil, func() { p.Funcs = append(p.Funcs[:i], p.Funcs[i+1:]...) })
			sc.add(reftype.RMain, "main-renamed", nil, nil, func() { f.Name = "main2" })
			sc.add(reftype.RMain, "main-with-parameter", nil, nil, func() { f.Params = append(f.Params, hs.P("zz_a", hs.TInt)) })
			if f.Body.Tail == nil {
				sc.add(reftype.RMain, "main-with-return-type", nil, nil, func() { f.Ret = hs.TInt; f.Body.Tail = hs.I(7) })
			}
		}
	}

	// a value whose type holds `any` somewhere - in the first, a middle or the last field of an
	// object type, directly or inside a list - used without a cast
	if isMain {
		for _, shape := range []struct {
			name   string
			fields []hs.Field
			stmt   string
		}{
			{"first-of-two", []hs.Field{{Name: "a", T: hs.TAny}, {Name: "b", T: hs.TInt}}, "let"},
			{"middle-of-three-in-a-list", []hs.Field{{Name: "a", T: hs.TInt}, {Name: "b", T: hs.TList(hs.TAny)}, {Name: "c", T: hs.TStr}}, "expression"},
			{"last-of-two", []hs.Field{{Name: "a", T: hs.TInt}, {Name: "b", T: hs.TAny}}, "let"},
			{"first-of-two-nested", []hs.Field{{Name: "o", T: hs.TObj(hs.Field{Name: "x", T: hs.TAny}, hs.Field{Name: "y", T: hs.TInt})}, {Name: "b", T: hs.TInt}}, "expression"},
		} {
			shape := shape
			sc.add(reftype.RAny, "object-with-any-field-used-without-cast-"+shape.name, nil, []string{"stmt:" + shape.stmt}, func() {
				var st hs.Stmt = hs.ES(hs.V("zz_p"))
				if shape.stmt == "let" {
					st = hs.LetS("_zz_q", hs.V("zz_p"))
				}
				p.Funcs = append(p.Funcs, hs.Fn("zz_take", nil, hs.Blk(nil, st), hs.P("zz_p", hs.TObj(shape.fields...))))
			})
		}
	}

	// impl blocks
	for _, ib := range p.Impls {
		sc.impl(ib)
	}
}

func kindOr(k, d string) string {
	if k == "" {
		return d
	}
	return k
}

func splitImportName(n string) (kind, name string) {
	for _, k := range []string{"type", "templ", "trigger"} {
		if len(n) > len(k)+1 && n[:len(k)+1] == k+" " {
			return k, n[len(k)+1:]
		}
	}
	return "", n
}

// writtenType proposes edits of a type written in the source (annotation, parameter type,
// return type, cast target, type definition).
func (sc *siteCollector) writtenType(slot **hs.Type, cx *fctx, where string) {
	if *slot == nil {
		return
	}
	sc.add(reftype.RUnknownType, "unknown-type", cx, []string{"in:" + where}, func() { *slot = replaceLeaf(*slot) })
	// (types are shared between generated programs: edits work on a private copy)
	if ot := firstObjType(*slot); ot != nil && len(ot.Fields) > 0 {
		sc.add(reftype.RDup, "duplicate-object-type-field", cx, []string{"in:" + where}, func() {
			*slot = cloneType(*slot)
			ot := firstObjType(*slot)
			ot.Fields = append(ot.Fields, ot.Fields[0])
		})
	}
	if ft := firstFnType(*slot); ft != nil && len(ft.Params) > 0 {
		sc.add(reftype.RDup, "duplicate-fn-type-parameter", cx, []string{"in:" + where}, func() {
			*slot = cloneType(*slot)
			ft := firstFnType(*slot)
			ft.Params = append(ft.Params, ft.Params[0])
		})
	}
}

func cloneType(t *hs.Type) *hs.Type {
	if t == nil {
		return nil
	}
	cp := *t
	cp.Elem = cloneType(t.Elem)
	cp.Ret = cloneType(t.Ret)
	cp.Fields = nil
	for _, f := range t.Fields {
		cp.Fields = append(cp.Fields, hs.Field{Name: f.Name, T: cloneType(f.T)})
	}
	cp.Params = nil
	for _, f := range t.Params {
		cp.Params = append(cp.Params, hs.Field{Name: f.Name, T: cloneType(f.T)})
	}
	return &cp
}

// replaceLeaf returns a copy of t whose first leaf is an undeclared type name.
func replaceLeaf(t *hs.Type) *hs.Type {
	cp := *t
	switch t.K {
	case hs.KList, hs.KOpt:
		cp.Elem = replaceLeaf(t.Elem)
		return &cp
	case hs.KObj:
		if len(t.Fields) > 0 {
			cp.Fields = append([]hs.Field{}, t.Fields...)
			cp.Fields[0].T = replaceLeaf(t.Fields[0].T)
			return &cp
		}
	case hs.KFn:
		if len(t.Params) > 0 {
			cp.Params = append([]hs.Field{}, t.Params...)
			cp.Params[0].T = replaceLeaf(t.Params[0].T)
			return &cp
		}
		if t.Ret != nil {
			cp.Ret = replaceLeaf(t.Ret)
			return &cp
		}
	}
	return hs.TNamed("ZzUndeclared")
}

func firstObjType(t *hs.Type) *hs.Type {
	if t == nil {
		return nil
	}
	switch t.K {
	case hs.KObj:
		return t
	case hs.KList, hs.KOpt:
		return firstObjType(t.Elem)
	case hs.KFn:
		for _, p := range t.Params {
			if o := firstObjType(p.T); o != nil {
				return o
			}
		}
		return firstObjType(t.Ret)
	}
	return nil
}

func firstFnType(t *hs.Type) *hs.Type {
	if t == nil {
		return nil
	}
	switch t.K {
	case hs.KFn:
		return t
	case hs.KList, hs.KOpt:
		return firstFnType(t.Elem)
	case hs.KObj:
		for _, f := range t.Fields {
			if o := firstFnType(f.T); o != nil {
				return o
			}
		}
	}
	return nil
}

// resolved return type of a function as reftype sees it
func (sc *siteCollector) retOf(t *hs.Type) *hs.Type {
	if t == nil {
		return hs.TNull
	}
	return sc.resolveWritten(t)
}

// resolveWritten expands type names using the program's type definitions (top level and
// local ones; base programs never reuse a type name for two different types).
func (sc *siteCollector) resolveWritten(t *hs.Type) *hs.Type {
	switch t.K {
	case hs.KNamed:
		if d := sc.findTypeDef(t.Name); d != nil {
			return sc.resolveWritten(d)
		}
		return reftype.TUnknown
	case hs.KList:
		return hs.TList(sc.resolveWritten(t.Elem))
	case hs.KOpt:
		return hs.TOpt(sc.resolveWritten(t.Elem))
	case hs.KObj:
		o := &hs.Type{K: hs.KObj}
		for _, f := range t.Fields {
			o.Fields = append(o.Fields, hs.Field{Name: f.Name, T: sc.resolveWritten(f.T)})
		}
		return o
	case hs.KFn:
		o := &hs.Type{K: hs.KFn, Ret: sc.retOf(t.Ret)}
		for _, f := range t.Params {
			o.Params = append(o.Params, hs.Field{Name: f.Name, T: sc.resolveWritten(f.T)})
		}
		return o
	}
	return t
}

func (sc *siteCollector) findTypeDef(name string) *hs.Type {
	var found *hs.Type
	var inBlock func(b *hs.Block)
	inBlock = func(b *hs.Block) {
		for _, s := range b.Stmts {
			if td, ok := s.(*hs.TypeDef); ok && td.Name == name {
				found = td.T
			}
		}
	}
	for _, td := range sc.prog.Types {
		if td.Name == name {
			return td.T
		}
	}
	for _, im := range sc.prog.Imports {
		for _, n := range im.Names {
			if k, nm := splitImportName(n); k == "type" && nm == name {
				if lib := sc.cs.Mods[im.From]; lib != nil {
					for _, td := range lib.Types {
						if td.Name == name {
							// resolved in the library's own name space
							lsc := &siteCollector{cs: sc.cs, res: sc.res, mod: im.From, prog: lib}
							return lsc.resolveWritten(td.T)
						}
					}
				}
			}
		}
	}
	for _, f := range sc.prog.Funcs {
		inBlock(f.Body)
	}
	return found
}

func (sc *siteCollector) function(f *hs.Func, where string) {
	cx := &fctx{fn: f, ret: sc.retOf(f.Ret)}
	sc.annotations(f)
	// parameters
	for i := range f.Params {
		i := i
		if f.Params[i].Single != "" {
			sc.add(reftype.RUnknownType, "unknown-singleton", cx, []string{"in:parameter"}, func() { f.Params[i].Single = "ZzNoSingleton" })
			continue
		}
		sc.add(reftype.RDup, "duplicate-parameter", cx, []string{"of:" + where}, func() { f.Params = append(f.Params, f.Params[i]) })
		sc.writtenType(&f.Params[i].T, cx, "parameter")
	}
	sc.writtenType(&f.Ret, cx, "return-type")
	sc.body(f.Body, cx, func(t *hs.Type) { f.Ret = t })
}

// body handles the block of a function or closure: its statements plus the rules about the
// value of the block itself.
func (sc *siteCollector) body(b *hs.Block, cx *fctx, setRet func(*hs.Type)) {
	sc.block(b, cx)
	ret := cx.ret
	if b.Tail != nil && ret.K != hs.KNull && !softType(ret) {
		tt := sc.typeOf(b.Tail)
		for _, pe := range c03Palette {
			pe := pe
			if sameKindShape(pe.t, ret) {
				continue
			}
			sc.add(reftype.RReturn, "tail-value-type", cx, []string{"type:" + kindName(ret), "to:" + pe.name}, func() { b.Tail = pe.mk() })
		}
		if tt.K != hs.KNever {
			never := false
			for _, s := range b.Stmts {
				if sc.stmtNever(s) {
					never = true
				}
			}
			if !never {
				sc.add(reftype.RReturn, "tail-value-dropped", cx, []string{"type:" + kindName(ret)}, func() { b.Tail = nil })
			}
		}
	}
	if ret.K == hs.KNull && b.Tail == nil && (cx.fn == nil || cx.fn.Name != "main" || cx.closure > 0) {
		sc.add(reftype.RReturn, "tail-value-in-null-function", cx, nil, func() { b.Tail = hs.I(7) })
	}
}

func softType(t *hs.Type) bool { return t.K == reftype.KUnknown || t.K == hs.KNever }

// sameKindShape: would a palette literal of type p be acceptable where t is expected?
func sameKindShape(p, t *hs.Type) bool { return reftype.Equal(p, t) }

func (sc *siteCollector) stmtNever(s hs.Stmt) bool {
	switch n := s.(type) {
	case *hs.Return, *hs.Break, *hs.Continue:
		return true
	case *hs.Loop:
		return true // conservative
	case *hs.ExprStmt:
		return sc.typeOf(n.X).K == hs.KNever
	}
	return false
}

// ---------------------------------------------------------------- blocks and statements

func (sc *siteCollector) block(b *hs.Block, cx *fctx) {
	// break / continue where no loop of this function is around: every position
	if cx.loops == 0 && (cx.fn != nil || cx.closure > 0) {
		for pos := 0; pos <= len(b.Stmts); pos++ {
			pos := pos
			for _, which := range []string{"break", "continue"} {
				which := which
				rule := reftype.RBreak
				var st hs.Stmt = &hs.Break{}
				if which == "continue" {
					rule = reftype.RContinue
					st = &hs.Continue{}
				}
				sc.add(rule, which+"-outside-loop", cx, []string{"stmt:" + which}, func() {
					b.Stmts = append(b.Stmts[:pos:pos], append([]hs.Stmt{st}, b.Stmts[pos:]...)...)
				})
			}
		}
	}
	for i := range b.Stmts {
		sc.stmt(b, i, cx)
	}
	if b.Tail != nil {
		sc.expr(&b.Tail, cx)
	}
}

// loopHeader: the condition of a `while` and the iterator of a `for` are evaluated outside the
// loop they head: a break / continue inside them belongs to an enclosing loop, if there is one.
func (sc *siteCollector) loopHeader(slot *hs.Expr, cx *fctx, where string) {
	if cx.loops != 0 || (cx.fn == nil && cx.closure == 0) {
		return
	}
	for _, which := range []string{"break", "continue"} {
		which := which
		rule := reftype.RBreak
		if which == "continue" {
			rule = reftype.RContinue
		}
		sc.add(rule, which+"-in-loop-header", cx, []string{"stmt:" + which, "in:" + where}, func() {
			var st hs.Stmt = &hs.Break{}
			if which == "continue" {
				st = &hs.Continue{}
			}
			*slot = &hs.BlockExpr{B: hs.Blk(*slot, st)}
		})
		sc.add(rule, which+"-in-loop-header-under-if", cx, []string{"stmt:" + which, "in:" + where}, func() {
			var st hs.Stmt = &hs.Break{}
			if which == "continue" {
				st = &hs.Continue{}
			}
			*slot = &hs.BlockExpr{B: hs.Blk(*slot, hs.ES(&hs.If{Cond: hs.B(false), Then: hs.Blk(nil, st)}))}
		})
	}
}

func (sc *siteCollector) loopBody(body *hs.Block, cx *fctx, kind string) {
	// break/continue wrapped into a closure literal inside the loop
	for _, which := range []string{"break", "continue"} {
		which := which
		rule := reftype.RBreak
		if which == "continue" {
			rule = reftype.RContinue
		}
		sc.add(rule, which+"-in-closure-in-loop", cx, []string{"stmt:" + which, "loop:" + kind}, func() {
			var st hs.Stmt = &hs.Break{}
			if which == "continue" {
				st = &hs.Continue{}
			}
			body.Stmts = append([]hs.Stmt{hs.LetS("zz_c", &hs.FnLit{Body: hs.Blk(nil, st)})}, body.Stmts...)
		})
	}
	cx.loops++
	sc.block(body, cx)
	cx.loops--
}

func (sc *siteCollector) let(n *hs.Let, cx *fctx, global bool) {
	xt := sc.typeOf(n.X)
	where := "let"
	if global {
		where = "global"
	}
	if n.T != nil {
		at := sc.res.VarTypes[n]
		if reftype.ContainsAny(xt) {
			sc.add(reftype.RAny, "annotation-dropped", cx, []string{"type:" + kindName(xt), "in:" + where}, func() { n.T = nil })
		}
		if at != nil && (!global || true) {
			for _, pe := range c03Palette {
				pe := pe
				if sameKindShape(pe.t, at) {
					continue
				}
				sc.add(reftype.RLet, "initialiser-type", cx, []string{"type:" + kindName(at), "to:" + pe.name, "in:" + where}, func() { n.X = pe.mk() })
			}
			if ol, ok := n.X.(*hs.ObjLit); ok && at.K == hs.KObj && len(ol.Fields) > 0 {
				sc.add(reftype.RLet, "object-field-dropped", cx, []string{"in:" + where}, func() { ol.Fields = ol.Fields[:len(ol.Fields)-1] })
				sc.add(reftype.RLet, "object-field-added", cx, []string{"in:" + where}, func() { ol.Fields = append(ol.Fields, hs.ObjField{Name: "zz_extra", X: hs.I(1)}) })
			}
		}
		sc.writtenType(&n.T, cx, where+"-annotation")
	} else if !softType(xt) && xt.K != hs.KNull {
		for _, alt := range []*hs.Type{hs.TInt, hs.TStr} {
			alt := alt
			if xt.K == alt.K {
				continue
			}
			sc.add(reftype.RLet, "annotation-of-other-type", cx, []string{"type:" + kindName(xt), "to:" + kindName(alt), "in:" + where}, func() { n.T = alt })
		}
	}
	sc.expr(&n.X, cx)
}

// useAt proposes a use of a name at a position of a block where its binder is not (or no
// longer) in scope. Whether the name denotes something else there is for reftype to say.
func (sc *siteCollector) useAt(b *hs.Block, pos int, name, mut string, cx *fctx) {
	sc.add(reftype.RUnknownIdent, mut, cx, nil, func() {
		b.Stmts = append(b.Stmts[:pos:pos], append([]hs.Stmt{hs.Println(hs.V(name))}, b.Stmts[pos:]...)...)
	})
}

func (sc *siteCollector) stmt(b *hs.Block, i int, cx *fctx) {
	// names bound by this statement for a nested scope only
	switch n := b.Stmts[i].(type) {
	case *hs.For:
		sc.useAt(b, i+1, n.Var, "use-after-scope", cx)
	case *hs.ExprStmt:
		switch x := n.X.(type) {
		case *hs.Try:
			sc.useAt(b, i+1, x.Var, "use-after-scope", cx)
		case *hs.BlockExpr:
			for _, s := range x.B.Stmts {
				if l, ok := s.(*hs.Let); ok {
					sc.useAt(b, i+1, l.Name, "use-after-scope", cx)
					break
				}
			}
		case *hs.If:
			for _, s := range x.Then.Stmts {
				if l, ok := s.(*hs.Let); ok {
					sc.useAt(b, i+1, l.Name, "use-after-scope", cx)
					break
				}
			}
		}
	case *hs.Let:
		if fl, ok := n.X.(*hs.FnLit); ok && len(fl.Params) > 0 {
			sc.useAt(b, i+1, fl.Params[0].Name, "use-after-scope", cx)
		}
		sc.useAt(b, i, n.Name, "use-before-definition", cx)
	}
	switch n := b.Stmts[i].(type) {
	case *hs.Let:
		sc.let(n, cx, false)
	case *hs.TypeDef:
		sc.add(reftype.RDup, "duplicate-type", cx, []string{"in:block"}, func() {
			cp := *n
			b.Stmts = append(b.Stmts[:i+1:i+1], append([]hs.Stmt{&cp}, b.Stmts[i+1:]...)...)
		})
		sc.writtenType(&n.T, cx, "typedef")
	case *hs.Return:
		ret := cx.ret
		if ret == nil {
			return
		}
		if ret.K == hs.KNull {
			if n.X == nil {
				sc.add(reftype.RReturn, "return-value-in-null-function", cx, nil, func() { n.X = hs.I(7) })
			}
		} else if !softType(ret) {
			if n.X != nil {
				for _, pe := range c03Palette {
					pe := pe
					if sameKindShape(pe.t, ret) {
						continue
					}
					sc.add(reftype.RReturn, "return-value-type", cx, []string{"type:" + kindName(ret), "to:" + pe.name}, func() { n.X = pe.mk() })
				}
				sc.add(reftype.RReturn, "return-value-dropped", cx, []string{"type:" + kindName(ret)}, func() { n.X = nil })
			}
		}
		if n.X != nil {
			sc.expr(&n.X, cx)
		}
	case *hs.Break, *hs.Continue:
	case *hs.Loop:
		sc.loopBody(n.Body, cx, "loop")
	case *hs.While:
		sc.loopHeader(&n.Cond, cx, "while-condition")
		sc.cond(&n.Cond, cx, "while")
		sc.expr(&n.Cond, cx)
		sc.loopBody(n.Body, cx, "while")
	case *hs.For:
		sc.loopHeader(&n.Iter, cx, "for-iterator")
		it := sc.typeOf(n.Iter)
		for _, pe := range c03Palette {
			pe := pe
			switch pe.t.K {
			case hs.KRange, hs.KStr, hs.KList:
				continue
			}
			sc.add(reftype.RIter, "iterable-type", cx, []string{"type:" + kindName(it), "to:" + pe.name}, func() { n.Iter = pe.mk() })
		}
		sc.expr(&n.Iter, cx)
		sc.loopBody(n.Body, cx, "for")
	case *hs.ExprStmt:
		sc.expr(&n.X, cx)
	case *hs.Trigger:
		sc.trigger(n, cx)
	}
}

func (sc *siteCollector) cond(slot *hs.Expr, cx *fctx, where string) {
	for _, pe := range c03Palette {
		pe := pe
		if pe.t.K == hs.KBool {
			continue
		}
		sc.add(reftype.RCond, "condition-type", cx, []string{"in:" + where, "to:" + pe.name}, func() { *slot = pe.mk() })
	}
}

func (sc *siteCollector) trigger(n *hs.Trigger, cx *fctx) {
	sc.add(reftype.RTrigger, "trigger-unknown", cx, nil, func() { n.Event = "zz_notrigger" })
	sc.add(reftype.RTrigger, "trigger-callback-unknown", cx, nil, func() { n.Callback = "zz_nocallback" })
	var cb *hs.Func
	for _, f := range sc.prog.Funcs {
		if f.Name == n.Callback {
			cb = f
		}
	}
	if cb != nil {
		sc.add(reftype.RTrigger, "callback-not-event", cx, nil, func() { cb.Event = false })
		sc.add(reftype.RTrigger, "callback-extra-parameter", cx, nil, func() { cb.Params = append(cb.Params, hs.P("zz_x", hs.TInt)) })
		for i := range cb.Params {
			i := i
			sc.add(reftype.RTrigger, "callback-parameter-dropped", cx, nil, func() {
				old := cb.Params[i]
				cb.Params = append(cb.Params[:i:i], cb.Params[i+1:]...)
				// the body keeps using the name: it becomes a local of the old type
				if lit := litOfType(sc.resolveWritten(old.T)); lit != nil {
					cb.Body.Stmts = append([]hs.Stmt{hs.LetT(old.Name, old.T, lit)}, cb.Body.Stmts...)
				}
			})
			for _, alt := range []*hs.Type{hs.TInt, hs.TStr, hs.TBool, hs.TList(hs.TInt)} {
				alt := alt
				if reftype.Equal(sc.resolveWritten(cb.Params[i].T), alt) {
					continue
				}
				sc.add(reftype.RTrigger, "callback-parameter-type", cx, []string{"to:" + kindName(alt)}, func() { cb.Params[i].T = alt })
			}
		}
		if cb.Ret == nil && cb.Body.Tail == nil {
			sc.add(reftype.RTrigger, "callback-return-type", cx, nil, func() { cb.Ret = hs.TInt; cb.Body.Tail = hs.I(7) })
		}
	}
	if cx.fn != nil && cx.closure == 0 {
		// the statement moved into the initialiser of a global (never constant)
		sc.add(reftype.RGlobalConst, "trigger-in-global-initialiser", nil, []string{"in:global"}, func() {
			sc.prog.Globals = append(sc.prog.Globals, &hs.Let{Name: "zz_g", X: &hs.BlockExpr{B: hs.Blk(hs.I(1), n)}})
		})
	}
	sc.add(reftype.RArity, "trigger-argument-added", cx, nil, func() { n.Args = append(n.Args, hs.I(7)) })
	for i := range n.Args {
		i := i
		sc.add(reftype.RArity, "trigger-argument-dropped", cx, nil, func() { n.Args = append(n.Args[:i:i], n.Args[i+1:]...) })
		at := sc.typeOf(n.Args[i])
		for _, pe := range c03Palette {
			pe := pe
			if sameKindShape(pe.t, at) {
				continue
			}
			sc.add(reftype.RArg, "trigger-argument-type", cx, []string{"type:" + kindName(at), "to:" + pe.name}, func() { n.Args[i] = pe.mk() })
		}
		sc.expr(&n.Args[i], cx)
	}
}

// annotations: the trigger registration written on the callback itself
func (sc *siteCollector) annotations(f *hs.Func) {
	for ai := range f.Annots {
		ai := ai
		a := f.Annots[ai]
		if a.Trig == nil {
			sc.add(reftype.RTrigger, "annotation-unknown-identifier", nil, nil, func() { f.Annots[ai].Ident = "zz_" + a.Ident })
			continue
		}
		n := a.Trig
		sc.add(reftype.RTrigger, "annotation-trigger-unknown", nil, nil, func() { n.Event = "zz_notrigger" })
		sc.add(reftype.RTrigger, "annotated-function-not-event", nil, nil, func() { f.Event = false })
		sc.add(reftype.RTrigger, "annotated-function-pub-instead-of-event", nil, nil, func() { f.Event, f.Pub = false, true })
		sc.add(reftype.RTrigger, "annotated-function-extra-parameter", nil, nil, func() { f.Params = append(f.Params, hs.P("zz_x", hs.TInt)) })
		for i := range f.Params {
			i := i
			sc.add(reftype.RTrigger, "annotated-function-parameter-dropped", nil, nil, func() {
				old := f.Params[i]
				f.Params = append(f.Params[:i:i], f.Params[i+1:]...)
				if lit := litOfType(sc.resolveWritten(old.T)); lit != nil {
					f.Body.Stmts = append([]hs.Stmt{hs.LetT(old.Name, old.T, lit)}, f.Body.Stmts...)
				}
			})
			for _, alt := range []*hs.Type{hs.TInt, hs.TStr, hs.TBool, hs.TList(hs.TInt)} {
				alt := alt
				if reftype.Equal(sc.resolveWritten(f.Params[i].T), alt) {
					continue
				}
				sc.add(reftype.RTrigger, "annotated-function-parameter-type", nil, []string{"to:" + kindName(alt)}, func() { f.Params[i].T = alt })
			}
		}
		if f.Ret == nil && f.Body.Tail == nil {
			sc.add(reftype.RTrigger, "annotated-function-return-type", nil, nil, func() { f.Ret = hs.TInt; f.Body.Tail = hs.I(7) })
		}
		sc.add(reftype.RArity, "annotation-argument-added", nil, nil, func() { n.Args = append(n.Args, hs.I(7)) })
		for i := range n.Args {
			i := i
			sc.add(reftype.RArity, "annotation-argument-dropped", nil, nil, func() { n.Args = append(n.Args[:i:i], n.Args[i+1:]...) })
			at := sc.typeOf(n.Args[i])
			for _, pe := range c03Palette {
				pe := pe
				if sameKindShape(pe.t, at) {
					continue
				}
				sc.add(reftype.RArg, "annotation-argument-type", nil, []string{"type:" + kindName(at), "to:" + pe.name}, func() { n.Args[i] = pe.mk() })
			}
			sc.add(reftype.RUnknownIdent, "annotation-argument-unknown-identifier", nil, nil, func() { n.Args[i] = hs.V("zz_nothing") })
		}
	}
}

// ---------------------------------------------------------------- impl blocks

func (sc *siteCollector) impl(ib *hs.ImplBlock) {
	sc.add(reftype.RImpl, "impl-unknown-template", nil, nil, func() { ib.Template = "ZzNoTemplate" })
	sc.add(reftype.RImpl, "impl-unknown-singleton", nil, nil, func() {
		old := ib.Singleton
		ib.Singleton = "ZzNoSingleton"
		_ = old
	})
	sc.add(reftype.RImpl, "impl-unknown-capability", nil, nil, func() { ib.Caps = append(ib.Caps, "zz_nocap") })
	if ib.Template == "Lamp" {
		has := map[string]bool{}
		for _, c := range ib.Caps {
			has[c] = true
		}
		if has["light"] != has["temperature"] {
			sc.add(reftype.RImpl, "impl-conflicting-capability", nil, nil, func() {
				if has["light"] {
					ib.Caps = append(ib.Caps, "temperature")
				} else {
					ib.Caps = append(ib.Caps, "light")
				}
			})
		}
	}
	// a correctly written method of the template that belongs to a capability the block did NOT
	// select ("all required methods and no more")
	implemented := map[string]bool{}
	for _, m := range ib.Methods {
		implemented[m.Name] = true
	}
	self := hs.Param{Name: "self", Single: ib.Singleton}
	for _, other := range []*hs.Func{
		{Name: "dim", Params: []hs.Param{self, hs.P("percent", hs.TInt)}, Ret: hs.TBool, Body: hs.Blk(hs.B(true))},
		{Name: "set_temp", Params: []hs.Param{self, hs.P("celsius", hs.TFloat)}, Body: hs.Blk(nil)},
		{Name: "label", Params: []hs.Param{self}, Ret: hs.TStr, Body: hs.Blk(hs.S("l"))},
		{Name: "read", Params: []hs.Param{self, hs.P("channel", hs.TInt), hs.P("unit", hs.TStr)}, Ret: hs.TFloat, Body: hs.Blk(hs.F(0.5))},
		{Name: "record", Params: []hs.Param{self, hs.P("values", hs.TList(hs.TInt))}, Body: hs.Blk(nil)},
	} {
		other := other
		if implemented[other.Name] {
			continue
		}
		sc.add(reftype.RImpl, "impl-method-of-unselected-capability", nil, []string{"method:" + other.Name}, func() { ib.Methods = append(ib.Methods, other) })
	}
	for i, m := range ib.Methods {
		i, m := i, m
		sc.add(reftype.RImpl, "impl-method-renamed", nil, nil, func() { m.Name = "zz_" + m.Name })
		sc.add(reftype.RImpl, "impl-method-dropped", nil, nil, func() { ib.Methods = append(ib.Methods[:i:i], ib.Methods[i+1:]...) })
		sc.add(reftype.RImpl, "impl-method-added", nil, nil, func() {
			ib.Methods = append(ib.Methods, &hs.Func{Name: "zz_extra", Params: []hs.Param{{Name: "self", Single: ib.Singleton}}, Body: hs.Blk(nil)})
		})
		switch {
		case m.Pub:
			sc.add(reftype.RImpl, "impl-method-modifier-dropped", nil, []string{"modifier:pub"}, func() { m.Pub = false })
			sc.add(reftype.RImpl, "impl-method-modifier-changed", nil, []string{"modifier:pub-to-event"}, func() { m.Pub, m.Event = false, true })
		case m.Event:
			sc.add(reftype.RImpl, "impl-method-modifier-dropped", nil, []string{"modifier:event"}, func() { m.Event = false })
			sc.add(reftype.RImpl, "impl-method-modifier-changed", nil, []string{"modifier:event-to-pub"}, func() { m.Pub, m.Event = true, false })
		default:
			sc.add(reftype.RImpl, "impl-method-modifier", nil, nil, func() { m.Pub = true })
			sc.add(reftype.RImpl, "impl-method-modifier", nil, []string{"modifier:none-to-event"}, func() { m.Event = true })
		}
		sc.add(reftype.RDup, "impl-method-name-clash", nil, nil, func() {
			sc.prog.Funcs = append(sc.prog.Funcs, hs.Fn(m.Name, nil, hs.Blk(nil)))
		})
		sc.add(reftype.RImpl, "impl-parameter-added", nil, nil, func() { m.Params = append(m.Params, hs.P("zz_p", hs.TInt)) })
		for j := range m.Params {
			j := j
			if m.Params[j].Single != "" {
				sc.add(reftype.RImpl, "impl-singleton-not-extracted", nil, nil, func() { m.Params = append(m.Params[:j:j], m.Params[j+1:]...) })
				continue
			}
			sc.add(reftype.RImpl, "impl-parameter-renamed", nil, nil, func() {
				old := m.Params[j].Name
				m.Params[j].Name = "zz_" + old
				renameIdent(m.Body, old, "zz_"+old)
			})
			sc.add(reftype.RImpl, "impl-parameter-dropped", nil, nil, func() {
				old := m.Params[j]
				m.Params = append(m.Params[:j:j], m.Params[j+1:]...)
				// keep the body well-typed: the old parameter becomes a local
				if lit := litOfType(sc.resolveWritten(old.T)); lit != nil {
					m.Body.Stmts = append([]hs.Stmt{hs.LetT(old.Name, old.T, lit)}, m.Body.Stmts...)
				}
			})
			for _, alt := range []*hs.Type{hs.TInt, hs.TStr, hs.TFloat} {
				alt := alt
				if reftype.Equal(sc.resolveWritten(m.Params[j].T), alt) {
					continue
				}
				sc.add(reftype.RImpl, "impl-parameter-type", nil, []string{"to:" + kindName(alt)}, func() {
					old := m.Params[j]
					m.Params[j].T = alt
					m.Params[j].Name = old.Name
					// shadow the parameter by a local of the old type so that only the
					// signature is wrong
					if lit := litOfType(sc.resolveWritten(old.T)); lit != nil {
						m.Body.Stmts = append([]hs.Stmt{hs.LetT(old.Name, old.T, lit)}, m.Body.Stmts...)
					}
				})
			}
		}
		rt := sc.retOf(m.Ret)
		for _, alt := range []*hs.Type{hs.TNull, hs.TInt, hs.TStr, hs.TBool} {
			alt := alt
			if alt.K == rt.K || alt.K == hs.KNull {
				continue // (dropping the result would also break every caller)
			}
			sc.add(reftype.RImpl, "impl-return-type", nil, []string{"to:" + kindName(alt)}, func() {
				// wrap the old body so that the method body still matches its own declaration
				old := m.Body
				if alt.K == hs.KNull {
					m.Ret = nil
					if rt.K == hs.KNull {
						return
					}
					m.Body = hs.Blk(nil, hs.LetS("zz_old", &hs.BlockExpr{B: old}))
					return
				}
				m.Ret = alt
				if rt.K == hs.KNull {
					m.Body = hs.Blk(litOfType(alt), hs.ES(&hs.BlockExpr{B: old}))
				} else {
					m.Body = hs.Blk(litOfType(alt), hs.LetS("zz_old", &hs.BlockExpr{B: old}))
				}
			})
		}
		sc.function(m, "method")
	}
}

// litOfType builds a constant of a (resolved) type; nil if there is none.
func litOfType(t *hs.Type) hs.Expr {
	switch t.K {
	case hs.KInt:
		return hs.I(3)
	case hs.KFloat:
		return hs.F(1.5)
	case hs.KBool:
		return hs.B(false)
	case hs.KStr:
		return hs.S("v")
	case hs.KRange:
		return &hs.RangeLit{From: hs.I(0), To: hs.I(1)}
	case hs.KAnyObj:
		return &hs.AnyObjLit{}
	case hs.KList:
		if e := litOfType(t.Elem); e != nil {
			return hs.List(e)
		}
	case hs.KOpt:
		if e := litOfType(t.Elem); e != nil {
			return hs.Un("?", e)
		}
	case hs.KObj:
		o := &hs.ObjLit{}
		for _, f := range t.Fields {
			e := litOfType(f.T)
			if e == nil {
				return nil
			}
			o.Fields = append(o.Fields, hs.ObjField{Name: f.Name, X: e})
		}
		return o
	case hs.KFn:
		if t.Singles > 0 || t.Name != "" {
			return nil
		}
		fl := &hs.FnLit{Params: append([]hs.Field{}, t.Params...), Ret: t.Ret}
		if t.Ret == nil || t.Ret.K == hs.KNull {
			fl.Ret = nil
			fl.Body = hs.Blk(nil)
			return fl
		}
		e := litOfType(t.Ret)
		if e == nil {
			return nil
		}
		fl.Body = hs.Blk(e)
		return fl
	}
	return nil
}

// renameIdent renames every use of a variable in a block (no shadowing analysis: used
// only for parameters of generated methods, which are never shadowed).
func renameIdent(b *hs.Block, from, to string) {
	var ex func(p *hs.Expr)
	var bl func(b *hs.Block)
	ex = func(p *hs.Expr) {
		if id, ok := (*p).(*hs.Ident); ok {
			if id.Name == from {
				*p = hs.V(to)
			}
			return
		}
		forEachChild(*p, ex, bl)
	}
	bl = func(b *hs.Block) {
		for _, s := range b.Stmts {
			forEachStmtChild(s, ex, bl)
		}
		if b.Tail != nil {
			ex(&b.Tail)
		}
	}
	bl(b)
}

// forEachChild calls ex on every direct sub-expression slot and bl on every direct block
// of e.
func forEachChild(e hs.Expr, ex func(*hs.Expr), bl func(*hs.Block)) {
	switch n := e.(type) {
	case *hs.Infix:
		ex(&n.L)
		ex(&n.R)
	case *hs.Prefix:
		ex(&n.X)
	case *hs.Group:
		ex(&n.X)
	case *hs.Call:
		ex(&n.Fn)
		for i := range n.Args {
			ex(&n.Args[i])
		}
	case *hs.Spawn:
		for i := range n.Args {
			ex(&n.Args[i])
		}
	case *hs.Index:
		ex(&n.X)
		ex(&n.I)
	case *hs.Member:
		ex(&n.X)
	case *hs.Assign:
		ex(&n.L)
		ex(&n.R)
	case *hs.Cast:
		ex(&n.X)
	case *hs.ListLit:
		for i := range n.Elems {
			ex(&n.Elems[i])
		}
	case *hs.ObjLit:
		for i := range n.Fields {
			ex(&n.Fields[i].X)
		}
	case *hs.RangeLit:
		ex(&n.From)
		ex(&n.To)
	case *hs.FnLit:
		bl(n.Body)
	case *hs.If:
		ex(&n.Cond)
		bl(n.Then)
		if n.ElIf != nil {
			var e hs.Expr = n.ElIf
			ex(&e)
		}
		if n.Else != nil {
			bl(n.Else)
		}
	case *hs.Match:
		ex(&n.X)
		for i := range n.Arms {
			for j := range n.Arms[i].Lits {
				ex(&n.Arms[i].Lits[j])
			}
			ex(&n.Arms[i].Body)
		}
	case *hs.Try:
		bl(n.Body)
		bl(n.Catch)
	case *hs.BlockExpr:
		bl(n.B)
	}
}

func forEachStmtChild(s hs.Stmt, ex func(*hs.Expr), bl func(*hs.Block)) {
	switch n := s.(type) {
	case *hs.Let:
		ex(&n.X)
	case *hs.Return:
		if n.X != nil {
			ex(&n.X)
		}
	case *hs.Loop:
		bl(n.Body)
	case *hs.While:
		ex(&n.Cond)
		bl(n.Body)
	case *hs.For:
		ex(&n.Iter)
		bl(n.Body)
	case *hs.ExprStmt:
		ex(&n.X)
	case *hs.Trigger:
		for i := range n.Args {
			ex(&n.Args[i])
		}
	}
}

// ---------------------------------------------------------------- features

// c03Features derives tags from the shape of a program (they identify constructs for
// known-finding matching independently of the family that produced the program).
func c03Features(cs *c03Case) []string {
	feat := map[string]bool{}
	for _, mod := range cs.modNames() {
		p := cs.Mods[mod]
		var ty func(t *hs.Type)
		ty = func(t *hs.Type) {
			if t == nil {
				return
			}
			switch t.K {
			case hs.KFn:
				if len(t.Params) > 0 {
					feat["has:fn-type-with-parameters"] = true
				}
				for _, q := range t.Params {
					ty(q.T)
				}
				ty(t.Ret)
			case hs.KList, hs.KOpt:
				ty(t.Elem)
			case hs.KObj:
				for _, f := range t.Fields {
					ty(f.T)
				}
			}
		}
		type bodyState struct{ closureSeen bool }
		var ex func(e *hs.Expr, st *bodyState, loops int)
		var bl func(b *hs.Block, st *bodyState, loops int)
		ex = func(e *hs.Expr, st *bodyState, loops int) {
			switch n := (*e).(type) {
			case *hs.FnLit:
				feat["has:closure"] = true
				if loops > 0 {
					feat["has:closure-in-loop"] = true
				}
				for _, q := range n.Params {
					ty(q.T)
				}
				ty(n.Ret)
				inner := &bodyState{}
				bl(n.Body, inner, 0)
				st.closureSeen = true
				return
			case *hs.Cast:
				ty(n.T)
			case *hs.Call:
				if id, ok := n.Fn.(*hs.Ident); ok && id.Name == "throw" {
					feat["has:throw"] = true
				}
			}
			forEachChild(*e, func(c *hs.Expr) { ex(c, st, loops) }, func(b *hs.Block) { bl(b, st, loops) })
		}
		bl = func(b *hs.Block, st *bodyState, loops int) {
			for _, s := range b.Stmts {
				switch n := s.(type) {
				case *hs.Return:
					if n.X != nil {
						ex(&n.X, st, loops)
					}
					if st.closureSeen {
						feat["has:return-after-closure"] = true
					}
					continue
				case *hs.Let:
					ty(n.T)
				case *hs.TypeDef:
					ty(n.T)
				case *hs.Loop:
					bl(n.Body, st, loops+1)
					continue
				case *hs.While:
					ex(&n.Cond, st, loops)
					bl(n.Body, st, loops+1)
					continue
				case *hs.For:
					ex(&n.Iter, st, loops)
					bl(n.Body, st, loops+1)
					continue
				}
				forEachStmtChild(s, func(c *hs.Expr) { ex(c, st, loops) }, func(b *hs.Block) { bl(b, st, loops) })
			}
			if b.Tail != nil {
				ex(&b.Tail, st, loops)
			}
		}
		for _, td := range p.Types {
			ty(td.T)
		}
		for _, g := range p.Globals {
			ty(g.T)
			ex(&g.X, &bodyState{}, 0)
		}
		fns := append([]*hs.Func{}, p.Funcs...)
		for _, ib := range p.Impls {
			feat["has:impl"] = true
			fns = append(fns, ib.Methods...)
		}
		for _, f := range fns {
			for _, q := range f.Params {
				if q.T != nil {
					ty(q.T)
				}
			}
			ty(f.Ret)
			bl(f.Body, &bodyState{}, 0)
		}
		if len(p.Imports) > 0 {
			feat["has:import"] = true
		}
	}
	var out []string
	for k := range feat {
		out = append(out, k)
	}
	sort.Strings(out)
	return out
}
