package main

import (
	"fmt"

	"hmsverif/internal/hs"
)

// S4 scoping: all nestings (depth <= 3) of scope-introducing constructs, each optionally
// re-declaring or assigning one of two names, with reads after every scope exit.

var scopeKinds = []string{"block", "if", "loop", "for", "catch", "closure", "fn", "match", "while", "try", "else", "else-if", "match-default", "if-with-unexecuted-else", "try-that-throws-after-its-declarations"}
var scopeActs = []string{"none", "shadow-x", "assign-x", "shadow-y", "shadow-x-then-assign"}

func scopeDepth(tier string) int {
	if tier == "thorough" {
		return 3
	}
	return 2
}

func scopeCount(tier string) int {
	per := len(scopeKinds) * len(scopeActs)
	total, c := 0, 1
	for d := 1; d <= scopeDepth(tier); d++ {
		c *= per
		total += c
	}
	return total
}

func scopeGen(tier string, idx int) (progCase, bool) {
	per := len(scopeKinds) * len(scopeActs)
	c := 1
	var kinds, acts []string
	for d := 1; d <= scopeDepth(tier); d++ {
		c *= per
		if idx < c {
			for i := 0; i < d; i++ {
				v := idx % per
				idx /= per
				kinds = append(kinds, scopeKinds[v%len(scopeKinds)])
				acts = append(acts, scopeActs[v/len(scopeKinds)])
			}
			break
		}
		idx -= c
	}
	if kinds == nil {
		return progCase{}, false
	}
	prog := &hs.Program{}
	rd := func(tag string) hs.Stmt { return hs.Println(hs.S(tag), hs.V("x"), hs.V("y")) }
	var gen func(i int, inClosure bool) []hs.Stmt
	gen = func(i int, inClosure bool) []hs.Stmt {
		if i == len(kinds) {
			return []hs.Stmt{rd("in")}
		}
		lv := int64(i + 1)
		var pre []hs.Stmt
		switch acts[i] {
		case "shadow-x":
			pre = []hs.Stmt{hs.LetS("x", hs.I(10*lv))}
		case "assign-x":
			pre = []hs.Stmt{hs.ES(hs.Asg("=", hs.V("x"), hs.I(10*lv+1)))}
		case "shadow-y":
			pre = []hs.Stmt{hs.LetS("y", hs.I(100*lv))}
		case "shadow-x-then-assign":
			pre = []hs.Stmt{hs.LetS("x", hs.I(10*lv)), hs.ES(hs.Asg("+=", hs.V("x"), hs.I(5)))}
		}
		tag := fmt.Sprintf("L%d", i)
		kind := kinds[i]
		closureHere := inClosure || kind == "closure"
		// assigning an outer variable from inside a closure is left out: capture semantics
		// (by value or by reference) are not fixed by the property
		if inClosure && acts[i] == "assign-x" {
			pre = nil
		}
		body := append(append(append([]hs.Stmt{}, pre...), rd(tag+"a")), gen(i+1, closureHere)...)
		body = append(body, rd(tag+"b"))
		switch kind {
		case "block":
			return []hs.Stmt{hs.ES(&hs.BlockExpr{B: hs.Blk(nil, body...)}), rd(tag + "x")}
		case "if":
			return []hs.Stmt{hs.ES(&hs.If{Cond: hs.Bin("<", hs.V("y"), hs.I(100000)), Then: hs.Blk(nil, body...)}), rd(tag + "x")}
		case "try-that-throws-after-its-declarations":
			// the declarations of the try block are out of scope in the handler: a name it shadowed
			// means the outer variable again
			tryBody := append(append([]hs.Stmt{}, pre...), rd(tag+"a"), hs.ES(hs.CallN("throw", hs.S("t"))))
			catchBody := append(append([]hs.Stmt{rd(tag + "c")}, gen(i+1, closureHere)...), rd(tag+"b"))
			return []hs.Stmt{hs.ES(&hs.Try{Body: hs.Blk(nil, tryBody...), Var: "e", Catch: hs.Blk(nil, catchBody...)}), rd(tag + "x")}
		case "else":
			return []hs.Stmt{hs.ES(&hs.If{Cond: hs.Bin(">", hs.V("y"), hs.I(100000)), Then: hs.Blk(nil, hs.Println(hs.S("never"))), Else: hs.Blk(nil, body...)}), rd(tag + "x")}
		case "else-if":
			return []hs.Stmt{hs.ES(&hs.If{Cond: hs.Bin(">", hs.V("y"), hs.I(100000)), Then: hs.Blk(nil, hs.Println(hs.S("never"))),
				ElIf: &hs.If{Cond: hs.Bin("<", hs.V("y"), hs.I(100000)), Then: hs.Blk(nil, body...), Else: hs.Blk(nil, hs.LetS("x", hs.I(-3)), hs.LetS("y", hs.I(-4)))}}), rd(tag + "x")}
		case "if-with-unexecuted-else":
			// the else block declares both names but never runs
			return []hs.Stmt{hs.ES(&hs.If{Cond: hs.Bin("<", hs.V("y"), hs.I(100000)), Then: hs.Blk(nil, body...), Else: hs.Blk(nil, hs.LetS("x", hs.I(-1)), hs.LetS("y", hs.I(-2)), hs.Println(hs.S("never")))}), rd(tag + "x")}
		case "match-default":
			return []hs.Stmt{hs.ES(&hs.Match{X: hs.I(2), Arms: []hs.MatchArm{{Lits: []hs.Expr{hs.I(1)}, Body: &hs.BlockExpr{B: hs.Blk(nil, hs.LetS("x", hs.I(-5)))}}, {Body: &hs.BlockExpr{B: hs.Blk(nil, body...)}}}}), rd(tag + "x")}
		case "loop":
			return []hs.Stmt{&hs.Loop{Body: hs.Blk(nil, append(body, &hs.Break{})...)}, rd(tag + "x")}
		case "while":
			wv := fmt.Sprintf("w%d", i)
			return []hs.Stmt{hs.LetS(wv, hs.I(0)), &hs.While{Cond: hs.Bin("<", hs.V(wv), hs.I(2)), Body: hs.Blk(nil, append([]hs.Stmt{hs.ES(hs.Asg("+=", hs.V(wv), hs.I(1)))}, body...)...)}, rd(tag + "x")}
		case "for":
			return []hs.Stmt{&hs.For{Var: fmt.Sprintf("i%d", i), Iter: &hs.RangeLit{From: hs.I(0), To: hs.I(2)}, Body: hs.Blk(nil, body...)}, rd(tag + "x")}
		case "try":
			return []hs.Stmt{hs.ES(&hs.Try{Body: hs.Blk(nil, body...), Var: "x", Catch: hs.Blk(nil, hs.Println(hs.S("never")))}), rd(tag + "x")}
		case "catch":
			// the catch variable is named like an outer variable on purpose
			return []hs.Stmt{hs.ES(&hs.Try{Body: hs.Blk(nil, hs.ES(hs.CallN("throw", hs.S("t")))), Var: "y", Catch: hs.Blk(nil,
				append([]hs.Stmt{hs.Println(hs.S(tag+"c"), hs.Mem(hs.V("y"), "message")), hs.LetS("y", hs.I(7))}, body...)...)}), rd(tag + "x")}
		case "match":
			return []hs.Stmt{hs.ES(&hs.Match{X: hs.I(1), Arms: []hs.MatchArm{{Lits: []hs.Expr{hs.I(1)}, Body: &hs.BlockExpr{B: hs.Blk(nil, body...)}}, {Body: &hs.BlockExpr{B: hs.Blk(nil)}}}}), rd(tag + "x")}
		case "closure":
			cn := fmt.Sprintf("c%d", i)
			lit := &hs.FnLit{Params: []hs.Field{{Name: "x", T: hs.TInt}}, Body: hs.Blk(nil, body...)}
			return []hs.Stmt{hs.LetS(cn, lit), hs.ES(hs.CallN(cn, hs.Bin("+", hs.V("x"), hs.I(1000)))), rd(tag + "x")}
		case "fn":
			fname := fmt.Sprintf("g%d_%d", i, len(prog.Funcs))
			prog.Funcs = append(prog.Funcs, hs.Fn(fname, nil, hs.Blk(nil, body...), hs.P("x", hs.TInt), hs.P("y", hs.TInt)))
			return []hs.Stmt{hs.ES(hs.CallN(fname, hs.Bin("+", hs.V("x"), hs.I(2000)), hs.V("y"))), rd(tag + "x")}
		}
		return nil
	}
	inner := gen(0, false)
	main := append([]hs.Stmt{hs.LetS("x", hs.I(1)), hs.LetS("y", hs.I(2)), rd("start")}, inner...)
	main = append(main, rd("end"))
	prog.Funcs = append(prog.Funcs, hs.Fn("main", nil, hs.Blk(nil, main...)))
	var tags []string
	for i := range kinds {
		tags = append(tags, "scope:"+kinds[i], "act:"+acts[i])
	}
	return mkCase(prog, uniq(tags)...), true
}

func init() {
	semanticFamilies = append(semanticFamilies, progFamily{Name: "S4-scoping", Count: scopeCount, Gen: scopeGen})
}
