package main

import (
	"fmt"
	"strings"

	"hmsverif/internal/hs"
)

// C08, positions of failing runtime casts: a value of dynamic type fails the typed cast of an
// annotated let, an `as` expression or a call argument. The type is written inline, through
// an alias defined elsewhere in the file, or imported from another module: the interrupt must
// point into the construct that performed the cast, not at the place the type was defined.

var c08CastTypes = []struct{ name, decl, importLine, use string }{
	{"inline", "", "", "{ v: int }"},
	{"alias", "type Reading = {\n    v: int,\n};\n", "", "Reading"},
	{"alias-of-list", "type Readings = [{ v: int }];\n", "", "Readings"},
	{"imported", "", "import { type Reading } from lib;\n", "Reading"},
}

var c08CastForms = []struct{ name, stmt string }{
	{"annotated-let", "«let x: %s = src;»"},
	{"as-in-let", "let x = «src as %s»;"},
	{"as-in-argument", "show(«src as %s»);"},
	{"annotated-let-of-parse-json", "«let x: %s = JSON.parse_json();»"},
}

func c08CastCount() int { return len(c08CastTypes) * len(c08CastForms) * 2 }

func c08CastRun(idx int, r *Result) {
	d := radix(idx, 2, len(c08CastForms), len(c08CastTypes))
	caught, form, ty := d[0] == 1, c08CastForms[d[1]], c08CastTypes[d[2]]
	json := `{\"v\": \"s\"}`
	if strings.HasPrefix(ty.use, "Readings") {
		json = `[{\"v\": 1}, {\"v\": \"s\"}]`
	}
	var b strings.Builder
	b.WriteString(ty.importLine)
	b.WriteString(ty.decl)
	b.WriteString("fn show(p: any) { }\n")
	b.WriteString("fn main() {\n    let src: any = \"" + json + "\".parse_json();\n    println(\"before\");\n")
	stmt := strings.ReplaceAll(fmt.Sprintf(form.stmt, ty.use), "JSON", "\""+json+"\"")
	if caught {
		b.WriteString("    try {\n        " + stmt + "\n        println(\"not here\");\n    } catch e {\n        println(\"caught\", e.line, e.column);\n    }\n")
	} else {
		b.WriteString("    " + stmt + "\n")
	}
	b.WriteString("    println(\"after\");\n}\n")
	marked := b.String()
	i, j := strings.Index(marked, "«"), strings.Index(marked, "»")
	before, culprit := marked[:i], marked[i+len("«"):j]
	text := before + culprit + marked[j+len("»"):]
	mods := map[string]string{"main": text}
	if ty.importLine != "" {
		mods["lib"] = "pub type Reading = {\n    v: int,\n};\nfn main() { }\n"
	}
	tags := []string{"cast-type:" + ty.name, "cast-form:" + form.name, map[bool]string{true: "caught", false: "uncaught"}[caught]}
	cas := detText(detProg{Mods: mods})
	r.Sample(cas)
	a := Analyze(mods, true)
	if a.Obs.Class == "HOST-PANIC" || !a.Obs.Accepted() {
		r.Note("cast-position-program-not-accepted", 1)
		return
	}
	line, col := 1, 1
	adv := func(s string) {
		for _, ru := range s {
			if ru == '\n' {
				line++
				col = 1
			} else {
				col++
			}
		}
	}
	adv(before)
	cs := hs.Pos{Line: line, Col: col}
	cr := []rune(culprit)
	adv(string(cr[:len(cr)-1]))
	rng := hs.Rng{Start: cs, End: hs.Pos{Line: line, Col: col}}
	for _, backend := range []string{"vm", "tree"} {
		o := runOn(backend, a, r)
		btags := append([]string{"backend:" + backend}, tags...)
		if crashClass(o) != "" {
			r.Note("cast-position:crash(C02)", 1)
			continue
		}
		r.Distinct(fmt.Sprintf("castpos|%s|%s|%s|%v", backend, strings.Join(tags, ","), o.Class, o.Span))
		if caught {
			if o.Class != "ok" || !strings.Contains(o.Out, "caught ") {
				r.Note("cast-position:not-catchable("+backend+")", 1)
				continue
			}
			var l, c int
			k := strings.Index(o.Out, "caught ")
			fmt.Sscanf(o.Out[k:], "caught %d %d", &l, &c)
			if l < rng.Start.Line || l > rng.End.Line || (l == rng.Start.Line && c < rng.Start.Col) || (l == rng.End.Line && c > rng.End.Col) {
				r.Fail("SPAN:caught-position:outside the construct that cast the value", btags, cas, fmt.Sprintf("caught at %d:%d, the cast is at %d:%d-%d:%d (%q)", l, c, rng.Start.Line, rng.Start.Col, rng.End.Line, rng.End.Col, culprit))
			}
			continue
		}
		if o.Class != "fatal" && o.Class != "uncaught" {
			r.Note("cast-position:no-interrupt("+backend+")", 1)
			continue
		}
		if o.Span.Filename != "main" {
			r.Fail("SPAN:interrupt:names another file than the module of the culprit", btags, cas, "span "+showSpan(o.Span)+" in file "+o.Span.Filename)
			continue
		}
		if p := spanProblem(o.Span, mods); p != "" {
			r.Fail("SPAN:interrupt:"+p, btags, cas, "span "+showSpan(o.Span))
			continue
		}
		if !within(o.Span, rng) {
			r.Fail("SPAN:interrupt:outside the construct that cast the value", btags, cas, fmt.Sprintf("span %s, the cast is at %d:%d-%d:%d (%q)", showSpan(o.Span), rng.Start.Line, rng.Start.Col, rng.End.Line, rng.End.Col, culprit))
		}
	}
}
