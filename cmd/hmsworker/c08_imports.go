package main

import (
	"fmt"
	"strings"

	"hmsverif/internal/hs"

	"github.com/smarthome-go/homescript/v3/homescript/diagnostic"
)

// C08, culprits inside import lists: one item of a braced import list of two or three items is
// at fault (a name the module does not have, a private name, a type that does not exist, an item
// that is never used); the item stands at every position of the list, in every layout of the
// list. The diagnostic about that item must lie within the text of the item, not spread over its
// neighbours.

const c08ImpLib = "pub fn alpha() -> int { 1 }\npub fn beta() -> int { 2 }\npub type Gamma = { x: int };\npub let delta = 4;\nfn hidden() -> int { 5 }\nfn main() {}\n"

var c08ImpPool = []struct{ item, name, use string }{
	{"alpha", "alpha", "    println(alpha());\n"},
	{"beta", "beta", "    println(beta());\n"},
	{"type Gamma", "Gamma", "    let g: Gamma = new { x: 1 };\n    println(g.x);\n"},
	{"delta", "delta", "    println(delta);\n"},
}

var c08ImpFaults = []struct {
	kind, item, name string
	warning          bool
}{
	{"missing-function", "missing_fn", "missing_fn", false},
	{"private-function", "hidden", "hidden", false},
	{"missing-type", "type Nope", "Nope", false},
	{"unused-import", "", "", true}, // an item of the pool that main never uses
}

var c08ImpLayouts = []string{"one-line", "one-line-trailing-comma", "multi-line", "multi-line-with-comments"}

func c08ImpCount() int { return 2 * 3 * len(c08ImpFaults) * len(c08ImpLayouts) * len(c08ImpPool) }

func c08ImpRun(idx int, r *Result) {
	d := radix(idx, len(c08ImpPool), len(c08ImpLayouts), len(c08ImpFaults), 3, 2)
	off, layout, fault, k, n := d[0], c08ImpLayouts[d[1]], c08ImpFaults[d[2]], d[3], d[4]+2
	if k >= n {
		r.Note("inapplicable", 1)
		return
	}
	var items []string
	var uses strings.Builder
	culpritName := fault.name
	next := off
	for i := 0; i < n; i++ {
		p := c08ImpPool[next%len(c08ImpPool)]
		next++
		if i == k {
			if fault.item != "" {
				items = append(items, "«"+fault.item+"»")
				next-- // the pool item is kept for a later position
				continue
			}
			items = append(items, "«"+p.item+"»") // imported, never used
			culpritName = p.name
			continue
		}
		items = append(items, p.item)
		uses.WriteString(p.use)
	}
	var list string
	switch layout {
	case "one-line":
		list = "import { " + strings.Join(items, ", ") + " } from lib;\n"
	case "one-line-trailing-comma":
		list = "import { " + strings.Join(items, ", ") + ", } from lib;\n"
	case "multi-line":
		list = "import {\n    " + strings.Join(items, ",\n    ") + ",\n} from lib;\n"
	case "multi-line-with-comments":
		list = "// é\nimport { // first\n    " + strings.Join(items, ", // next\n        ") + "\n} from lib;\n"
	}
	marked := list + "fn main() {\n" + uses.String() + "    println(\"end\");\n}\n"
	i, j := strings.Index(marked, "«"), strings.Index(marked, "»")
	before, culprit := marked[:i], marked[i+len("«"):j]
	mods := map[string]string{"main": before + culprit + marked[j+len("»"):], "lib": c08ImpLib}
	tags := []string{"import-fault:" + fault.kind, fmt.Sprintf("item:%d-of-%d", k+1, n), "list:" + layout}
	text := detText(detProg{Mods: mods})
	r.Sample(text)
	a := Analyze(mods, true)
	r.Trans(1)
	if a.Obs.Class == "HOST-PANIC" {
		r.Note("analyzer-panic(C05)", 1)
		return
	}
	if len(a.Syn) > 0 {
		r.Fail("HARNESS:import-list program has a syntax error", tags, text, a.Obs.String())
		return
	}
	line, col := 1, 1
	adv := func(s string) {
		for _, ru := range s {
			if ru == '\n' {
				line++
				col = 1
			} else {
				col++
			}
		}
	}
	adv(before)
	cs := hs.Pos{Line: line, Col: col}
	cr := []rune(culprit)
	adv(string(cr[:len(cr)-1]))
	rng := hs.Rng{Start: cs, End: hs.Pos{Line: line, Col: col}}
	// the diagnostics about the item: of the expected level, in the import statement, naming the item
	found := 0
	for i := range a.Diags {
		dg := a.Diags[i]
		if fault.warning != (dg.Level == diagnostic.DiagnosticLevelWarning) || (!fault.warning && dg.Level != diagnostic.DiagnosticLevelError) {
			continue
		}
		if !strings.Contains(dg.Message, "'"+culpritName+"'") && !strings.Contains(dg.Message, "`"+culpritName+"`") {
			continue
		}
		if dg.Span.Filename != "main" || int(dg.Span.Start.Line) > strings.Count(list, "\n") {
			continue // a consequence further down (use of the name that could not be imported)
		}
		found++
		r.Distinct(strings.Join(tags, ",") + "|" + dg.Message)
		if p := spanProblem(dg.Span, mods); p != "" {
			r.Fail("SPAN:diagnostic:"+p, tags, text, fmt.Sprintf("%q span %s", dg.Message, showSpan(dg.Span)))
			return
		}
		if !within(dg.Span, rng) {
			r.Fail("SPAN:diagnostic:outside the culprit", tags, text, fmt.Sprintf("%q span %s, culprit %d:%d-%d:%d (%q)", dg.Message, showSpan(dg.Span), rng.Start.Line, rng.Start.Col, rng.End.Line, rng.End.Col, culprit))
			return
		}
	}
	if found == 0 {
		r.Note("no-diagnostic-names-the-item("+fault.kind+")", 1)
		return
	}
	r.Outcome("diagnosed")
}
